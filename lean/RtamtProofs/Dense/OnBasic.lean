/-
  Dense time, online (C05): the stream contract (`StreamOK`) for the variables, the unary point-wise operations and the
  unbounded `once` / `historically` (`scanUpdate` with the running extremum carried across the updates).

  `BasicAux` starts with general facts about `valAtA` on weakly sorted lists (`Weak`: a later sample has a later stamp
  or is identical), about `Covered` / `Shape` and about `runUn`.
-/
import RtamtProofs.Dense.OnDefs

namespace Rtamt.Dense.AlgOn
open Rtamt Val Rtamt.Dense.Alg

namespace BasicAux
open InterAux
attribute [local instance] InterAux.tmOrder

variable {β γ σ : Type}

/-! ### weakly sorted sample lists -/

/-- "Weakly sorted": a later sample has a later stamp or is identical to the earlier one. -/
def Weak (s : ASig β) : Prop := s.Pairwise (fun p q => Tm.lt p.1 q.1 = true ∨ p = q)

theorem weak_iff (s : ASig β) : Weak s ↔ s.Pairwise (fun p q => p.1 < q.1 ∨ p = q) := by
  unfold Weak; simp only [lt_iff]

theorem Weak.mono {s : ASig β} (h : Weak s) : s.Pairwise (fun p q => p.1 ≤ q.1) := by
  refine ((weak_iff s).1 h).imp ?_
  rintro p q (h | rfl)
  · exact le_of_lt h
  · exact le_rfl

theorem weak_cons {a : Tm × β} {s : ASig β} :
    Weak (a :: s) ↔ (∀ q ∈ s, a.1 < q.1 ∨ a = q) ∧ Weak s := by
  rw [weak_iff, weak_iff, List.pairwise_cons]

theorem Weak.tail {a : Tm × β} {s : ASig β} (h : Weak (a :: s)) : Weak s := (weak_cons.1 h).2

theorem weak_of_sorted {s : ASig β} (h : Sorted s) : Weak s := by
  unfold Sorted times at h
  rw [List.pairwise_map] at h
  exact h.imp (fun h => Or.inl h)

theorem Weak.sublist {s r : ASig β} (h : Weak s) (hr : r.Sublist s) : Weak r := List.Pairwise.sublist hr h

/-- In a weakly sorted list two samples with the same stamp are identical. -/
theorem Weak.eq_of_stamp {s : ASig β} (h : Weak s) {p q : Tm × β} (hp : p ∈ s) (hq : q ∈ s) (e : p.1 = q.1) :
    p = q := by
  induction s with
  | nil => cases hp
  | cons a s ih =>
    obtain ⟨h1, h2⟩ := weak_cons.1 h
    rcases List.mem_cons.1 hp with rfl | hp' <;> rcases List.mem_cons.1 hq with rfl | hq'
    · rfl
    · rcases h1 q hq' with h3 | h3
      · rw [e] at h3; exact absurd h3 (lt_irrefl _)
      · exact h3
    · rcases h1 p hp' with h3 | h3
      · rw [e] at h3; exact absurd h3 (lt_irrefl _)
      · exact h3.symm
    · exact ih h2 hp' hq'

/-! ### `valAtA` -/

theorem valAtA_eq_none_iff (s : ASig β) (t : Rat) :
    valAtA s t = none ↔ ∀ p, s.head? = some p → Tm.fin t < p.1 := by
  cases s with
  | nil => simp [valAtA_nil]
  | cons a s =>
    obtain ⟨τ, v⟩ := a
    rw [valAtA_cons]
    by_cases h : Tm.fin t < τ
    · simp [h]
    · simp [h]

theorem valAtA_ne_none_iff (s : ASig β) (t : Rat) :
    valAtA s t ≠ none ↔ ∃ p, s.head? = some p ∧ p.1 ≤ Tm.fin t := by
  rw [Ne, valAtA_eq_none_iff]
  constructor
  · intro h
    by_contra hh
    apply h
    intro p hp
    by_contra h2
    exact hh ⟨p, hp, not_lt.1 h2⟩
  · rintro ⟨p, hp, hle⟩ h
    exact absurd (h p hp) (not_lt.2 hle)

/-- The value depends on the stamps only as far as definedness goes. -/
theorem valAtA_none_congr {s : ASig β} {r : ASig γ} (h : times r = times s) (t : Rat) :
    valAtA r t = none ↔ valAtA s t = none := by
  rw [valAtA_eq_none_iff, valAtA_eq_none_iff]
  have e : r.head?.map (·.1) = s.head?.map (·.1) := by
    have := congrArg List.head? h
    simpa [times, List.head?_map] using this
  constructor
  · intro hh p hp
    rw [hp] at e
    cases hr : r.head? with
    | none => rw [hr] at e; cases e
    | some q =>
      rw [hr] at e
      have : q.1 = p.1 := by simpa using e
      rw [← this]; exact hh q hr
  · intro hh p hp
    rw [hp] at e
    cases hr : s.head? with
    | none => rw [hr] at e; cases e
    | some q =>
      rw [hr] at e
      have : p.1 = q.1 := by simpa using e
      rw [this]; exact hh q hr

/-- Samples after `t` do not matter (no hypothesis on `s`). -/
theorem valAtA_append_gt (s r : ASig β) (t : Rat) (h : ∀ p ∈ r, Tm.fin t < p.1) :
    valAtA (s ++ r) t = valAtA s t := by
  induction s with
  | nil =>
    rw [List.nil_append, valAtA_nil, valAtA_eq_none_iff]
    intro p hp
    exact h p (List.mem_of_mem_head? hp)
  | cons a s ih =>
    obtain ⟨τ, v⟩ := a
    simp only [List.cons_append, valAtA_cons, ih]

/-- When the whole of `s` is at or before `t`, the appended list decides, and `s` is the fall-back. -/
theorem valAtA_append_le (s r : ASig β) (t : Rat) (h : ∀ p ∈ s, p.1 ≤ Tm.fin t) :
    valAtA (s ++ r) t = (valAtA r t).or (valAtA s t) := by
  induction s with
  | nil => rw [List.nil_append, valAtA_nil]; cases valAtA r t <;> rfl
  | cons a s ih =>
    obtain ⟨τ, v⟩ := a
    have h0 : ¬ Tm.fin t < τ := not_lt.2 (h (τ, v) (List.mem_cons_self))
    have ih' := ih (fun p hp => h p (List.mem_cons_of_mem _ hp))
    simp only [List.cons_append, valAtA_cons, ih', if_neg h0]
    cases valAtA r t <;> rfl

/-- The value at `t` is the value of a sample at or before `t`. -/
theorem valAtA_mem_le {s : ASig β} {t : Rat} {y : β} (h : valAtA s t = some y) :
    ∃ p ∈ s, p.2 = y ∧ p.1 ≤ Tm.fin t := by
  induction s with
  | nil => cases h
  | cons a s ih =>
    obtain ⟨τ, v⟩ := a
    rw [valAtA_cons] at h
    by_cases h0 : Tm.fin t < τ
    · rw [if_pos h0] at h; cases h
    · rw [if_neg h0] at h
      cases hr : valAtA s t with
      | none =>
        rw [hr] at h
        exact ⟨(τ, v), List.mem_cons_self, Option.some.inj h, not_lt.1 h0⟩
      | some y' =>
        rw [hr] at h
        obtain rfl : y' = y := Option.some.inj h
        obtain ⟨p, hp, e, hle⟩ := ih hr
        exact ⟨p, List.mem_cons_of_mem _ hp, e, hle⟩

/-- On a weakly sorted list the value at `t` is the value of any sample with the greatest stamp at or before `t`. -/
theorem valAtA_weak_max {s : ASig β} (hw : Weak s) {p : Tm × β} {t : Rat} (hp : p ∈ s) (hle : p.1 ≤ Tm.fin t)
    (hmax : ∀ q ∈ s, q.1 ≤ Tm.fin t → q.1 ≤ p.1) : valAtA s t = some p.2 := by
  induction s with
  | nil => cases hp
  | cons a s ih =>
    obtain ⟨h1, h2⟩ := weak_cons.1 hw
    obtain ⟨τ, v⟩ := a
    by_cases hps : p ∈ s
    · have ha : τ ≤ p.1 := by
        rcases h1 p hps with h3 | h3
        · exact le_of_lt h3
        · rw [← h3]
      rw [valAtA_cons, if_neg (not_lt.2 (le_trans ha hle)),
        ih h2 hps (fun q hq => hmax q (List.mem_cons_of_mem _ hq))]
      rfl
    · have hpa : p = (τ, v) := by
        rcases List.mem_cons.1 hp with h3 | h3
        · exact h3
        · exact absurd h3 hps
      subst hpa
      have hn : valAtA s t = none := by
        rw [valAtA_eq_none_iff]
        intro q hq
        have hqs : q ∈ s := List.mem_of_mem_head? hq
        rcases h1 q hqs with h3 | h3
        · by_contra h4
          exact absurd (hmax q (List.mem_cons_of_mem _ hqs) (not_lt.1 h4)) (not_le.2 h3)
        · rw [← h3] at hqs; exact absurd hqs hps
      rw [valAtA_cons, if_neg (not_lt.2 hle), hn]
      rfl

/-- On a weakly sorted list the value at the stamp of a sample is the value of that sample. -/
theorem valAtA_weak_at {s : ASig β} (hw : Weak s) {p : Tm × β} {τ : Rat} (hp : p ∈ s) (e : p.1 = Tm.fin τ) :
    valAtA s τ = some p.2 :=
  valAtA_weak_max hw hp (le_of_eq e) (fun q _ hq => by rw [e]; exact hq)

/-- Converse of `valAtA_weak_max` (non-decreasing stamps suffice). -/
theorem valAtA_mem_max {s : ASig β} (hm : s.Pairwise (fun p q => p.1 ≤ q.1)) {t : Rat} {y : β}
    (h : valAtA s t = some y) :
    ∃ p ∈ s, p.2 = y ∧ p.1 ≤ Tm.fin t ∧ ∀ q ∈ s, q.1 ≤ Tm.fin t → q.1 ≤ p.1 := by
  induction s with
  | nil => cases h
  | cons a s ih =>
    obtain ⟨h1, h2⟩ := List.pairwise_cons.1 hm
    obtain ⟨τ, v⟩ := a
    rw [valAtA_cons] at h
    by_cases h0 : Tm.fin t < τ
    · rw [if_pos h0] at h; cases h
    · rw [if_neg h0] at h
      cases hr : valAtA s t with
      | none =>
        rw [hr] at h
        refine ⟨(τ, v), List.mem_cons_self, Option.some.inj h, not_lt.1 h0, ?_⟩
        intro q hq hqt
        rcases List.mem_cons.1 hq with rfl | hq'
        · exact le_rfl
        · exfalso
          rw [valAtA_eq_none_iff] at hr
          cases s with
          | nil => cases hq'
          | cons b s =>
            have hb := hr b rfl
            have : b.1 ≤ q.1 := by
              rcases List.mem_cons.1 hq' with rfl | h5
              · exact le_rfl
              · exact (List.pairwise_cons.1 h2).1 q h5
            exact absurd (le_trans this hqt) (not_le.2 hb)
      | some y' =>
        rw [hr] at h
        obtain rfl : y' = y := Option.some.inj h
        obtain ⟨p, hp, e, hle, hmax⟩ := ih h2 hr
        refine ⟨p, List.mem_cons_of_mem _ hp, e, hle, ?_⟩
        · intro q hq hqt
          rcases List.mem_cons.1 hq with rfl | hq'
          · exact h1 p hp
          · exact hmax q hq' hqt

theorem valAtA_weak_iff {s : ASig β} (hw : Weak s) (t : Rat) (y : β) :
    valAtA s t = some y ↔ ∃ p ∈ s, p.2 = y ∧ p.1 ≤ Tm.fin t ∧ ∀ q ∈ s, q.1 ≤ Tm.fin t → q.1 ≤ p.1 := by
  constructor
  · exact valAtA_mem_max hw.mono
  · rintro ⟨p, hp, rfl, hle, hmax⟩
    exact valAtA_weak_max hw hp hle hmax

/-! ### streams: `Covered`, `Shape`, `runUn` -/

theorem flatten_concat (Bs : List (ASig β)) (B : ASig β) : (Bs ++ [B]).flatten = Bs.flatten ++ B := by
  simp

theorem forall₂_mem_right {R : β → γ → Prop} {l1 : List β} {l2 : List γ} (h : List.Forall₂ R l1 l2) {b : γ}
    (hb : b ∈ l2) : ∃ a ∈ l1, R a b := by
  induction h with
  | nil => cases hb
  | cons h1 _ ih =>
    rcases List.mem_cons.1 hb with rfl | hb'
    · exact ⟨_, List.mem_cons_self, h1⟩
    · obtain ⟨a, ha, hr⟩ := ih hb'
      exact ⟨a, List.mem_cons_of_mem _ ha, hr⟩

theorem times_flatten_of_forall₂ {Bs : List (ASig β)} {outs : List (ASig γ)}
    (h : List.Forall₂ (fun B o => times o = times B) Bs outs) : times outs.flatten = times Bs.flatten := by
  induction h with
  | nil => rfl
  | cons h1 _ ih => simp only [List.flatten_cons, times_append, h1, ih]

theorem covered_iff (Bs : List (ASig β)) (d t : Rat) :
    Covered Bs d t ↔ ∃ τ, (times Bs.flatten).getLast? = some (Tm.fin τ) ∧ d ≤ t ∧ t ≤ τ := by
  unfold Covered times
  rw [List.getLast?_map]
  constructor
  · rintro ⟨τ, p, h1, h2, h3⟩
    exact ⟨τ, by rw [h1]; simp [h2], h3⟩
  · rintro ⟨τ, h1, h3⟩
    cases hl : Bs.flatten.getLast? with
    | none => rw [hl] at h1; cases h1
    | some p => rw [hl] at h1; exact ⟨τ, p, rfl, by simpa using h1, h3⟩

/-- `Covered` depends on the stamps only. -/
theorem covered_congr {As : List (ASig γ)} {Bs : List (ASig β)} (h : times As.flatten = times Bs.flatten)
    (d t : Rat) : Covered As d t ↔ Covered Bs d t := by
  rw [covered_iff, covered_iff, h]

theorem covered_mono {Bs : List (ASig β)} {d t s : Rat} (h : Covered Bs d t) (h1 : d ≤ s) (h2 : s ≤ t) :
    Covered Bs d s := by
  obtain ⟨τ, p, a, b, _, e⟩ := h
  exact ⟨τ, p, a, b, h1, le_trans h2 e⟩

theorem pairwise_le_last {s : ASig β} (hm : s.Pairwise (fun p q => p.1 ≤ q.1)) {p z : Tm × β} (hp : p ∈ s)
    (hz : s.getLast? = some z) : p.1 ≤ z.1 := by
  rcases List.eq_nil_or_concat s with rfl | ⟨init, q, rfl⟩
  · cases hp
  · rw [List.concat_eq_append] at hm hp hz
    rw [List.getLast?_concat] at hz
    obtain rfl : q = z := Option.some.inj hz
    rcases List.mem_append.1 hp with h | h
    · exact (List.pairwise_append.1 hm).2.2 p h q (by simp)
    · have : p = q := by simpa using h
      rw [this]

theorem pairwise_head_le {s : ASig β} (hm : s.Pairwise (fun p q => p.1 ≤ q.1)) {a p : Tm × β}
    (ha : s.head? = some a) (hp : p ∈ s) : a.1 ≤ p.1 := by
  cases s with
  | nil => cases hp
  | cons b s =>
    obtain rfl : b = a := by simpa using ha
    rcases List.mem_cons.1 hp with rfl | h
    · exact le_rfl
    · exact (List.pairwise_cons.1 hm).1 p h

theorem shape_weak {Bs : List (ASig β)} {d : Rat} (h : Shape Bs d) : Weak Bs.flatten := h.weak

theorem shape_ge_start {Bs : List (ASig β)} {d : Rat} (h : Shape Bs d) {p : Tm × β} (hp : p ∈ Bs.flatten) :
    Tm.fin d ≤ p.1 := by
  cases hh : Bs.flatten.head? with
  | none =>
    rw [List.head?_eq_none_iff] at hh
    rw [hh] at hp; cases hp
  | some a =>
    rw [← h.start a hh]
    exact pairwise_head_le (shape_weak h).mono hh hp

theorem shape_fin_of_mem {Bs : List (ASig β)} {d : Rat} (h : Shape Bs d) {p : Tm × β} (hp : p ∈ Bs.flatten) :
    ∃ τ, p.1 = Tm.fin τ ∧ d ≤ τ := by
  obtain ⟨B, hB, hpB⟩ := List.mem_flatten.1 hp
  have hf := h.finite B hB p hpB
  have hg := shape_ge_start h hp
  cases hτ : p.1 with
  | inf => exact absurd hτ hf
  | fin τ =>
    rw [hτ, fin_le_fin] at hg
    exact ⟨τ, rfl, hg⟩

/-- A sample at or before a covered time has a covered stamp. -/
theorem shape_covered_of_mem {Bs : List (ASig β)} {d t : Rat} (h : Shape Bs d) (hc : Covered Bs d t)
    {p : Tm × β} (hp : p ∈ Bs.flatten) (hle : p.1 ≤ Tm.fin t) :
    ∃ τ, p.1 = Tm.fin τ ∧ τ ≤ t ∧ Covered Bs d τ := by
  obtain ⟨τ, e, hd⟩ := shape_fin_of_mem h hp
  rw [e, fin_le_fin] at hle
  exact ⟨τ, e, hle, covered_mono hc hd hle⟩

/-- The last stamp itself is covered, and so is every stamp of the stream. -/
theorem shape_covered_stamp {Bs : List (ASig β)} {d : Rat} (h : Shape Bs d) {p : Tm × β} (hp : p ∈ Bs.flatten)
    {τ : Rat} (e : p.1 = Tm.fin τ) : Covered Bs d τ := by
  cases hl : Bs.flatten.getLast? with
  | none =>
    rw [List.getLast?_eq_none_iff] at hl
    rw [hl] at hp; cases hp
  | some z =>
    obtain ⟨τz, ez, _⟩ := shape_fin_of_mem h (List.mem_of_getLast? hl)
    have h1 := pairwise_le_last (shape_weak h).mono hp hl
    have h2 := shape_ge_start h hp
    rw [e, ez, fin_le_fin] at h1
    rw [e, fin_le_fin] at h2
    exact ⟨τz, z, hl, ez, h2, h1⟩

/-- At a covered time the stream is defined. -/
theorem shape_defined {Bs : List (ASig β)} {d t : Rat} (h : Shape Bs d) (hc : Covered Bs d t) :
    valAtA Bs.flatten t ≠ none := by
  obtain ⟨τ, p, hl, _, hd, _⟩ := hc
  rw [valAtA_ne_none_iff]
  cases hh : Bs.flatten.head? with
  | none =>
    rw [List.head?_eq_none_iff] at hh
    rw [hh] at hl; cases hl
  | some a =>
    refine ⟨a, rfl, ?_⟩
    rw [h.start a hh, fin_le_fin]
    exact hd

/-- After a covered time only later samples can follow: the value at a covered time never changes any more. -/
theorem shape_valAtA_stable {Bs : List (ASig β)} {d t : Rat} (B : ASig β) (h : Shape (Bs ++ [B]) d)
    (hc : Covered Bs d t) : valAtA (Bs ++ [B]).flatten t = valAtA Bs.flatten t := by
  obtain ⟨τ, z, hl, ez, hd, ht⟩ := hc
  have hw : Weak (Bs.flatten ++ B) := by rw [← flatten_concat]; exact shape_weak h
  have hz : z ∈ Bs.flatten := List.mem_of_getLast? hl
  rw [flatten_concat]
  by_cases hlt : t < τ
  · apply valAtA_append_gt
    intro p hp
    have := (List.pairwise_append.1 hw.mono).2.2 z hz p hp
    rw [ez] at this
    exact lt_of_lt_of_le ((fin_lt_fin _ _).2 hlt) this
  · have htτ : t = τ := le_antisymm ht (not_lt.1 hlt)
    subst htτ
    have h1 : valAtA Bs.flatten t = some z.2 :=
      valAtA_weak_at (hw.sublist (List.sublist_append_left _ _)) hz ez
    rw [h1]
    exact valAtA_weak_max hw (List.mem_append_left _ hz) (le_of_eq ez) (by
      intro q hq hqt
      rw [ez]; exact hqt)

/-- A prefix of a well-shaped stream is well shaped. -/
theorem shape_prefix {Bs : List (ASig β)} {d : Rat} (B : ASig β) (h : Shape (Bs ++ [B]) d) : Shape Bs d := by
  refine ⟨fun X hX => h.batch_sorted X (List.mem_append_left _ hX),
    fun X hX => h.finite X (List.mem_append_left _ hX), ?_, ?_⟩
  · have := h.weak
    rw [flatten_concat] at this
    exact List.Pairwise.sublist (List.sublist_append_left _ _) this
  · intro p hp
    apply h.start p
    rw [flatten_concat, List.head?_append, hp]; rfl

/-- What is covered stays covered when one more batch is returned. -/
theorem covered_concat {Bs : List (ASig β)} {d t : Rat} (B : ASig β) (h : Shape (Bs ++ [B]) d)
    (hc : Covered Bs d t) : Covered (Bs ++ [B]) d t := by
  obtain ⟨τ, z, hl, ez, hd, ht⟩ := hc
  have hz : z ∈ (Bs ++ [B]).flatten := by
    rw [flatten_concat]; exact List.mem_append_left _ (List.mem_of_getLast? hl)
  exact covered_mono (shape_covered_stamp h hz ez) hd ht

/-- A stream with the stamps of a well-shaped stream, batch by batch, is well shaped if it is weakly sorted. -/
theorem shape_of_times {Bs : List (ASig β)} {outs : List (ASig γ)} {d : Rat} (h : Shape Bs d)
    (hF : List.Forall₂ (fun B o => times o = times B) Bs outs) (hw : Weak outs.flatten) : Shape outs d := by
  have ht := times_flatten_of_forall₂ hF
  refine ⟨?_, ?_, hw, ?_⟩
  · intro o ho
    obtain ⟨B, hB, e⟩ := forall₂_mem_right hF ho
    unfold Sorted; rw [e]; exact h.batch_sorted B hB
  · intro o ho p hp
    obtain ⟨B, hB, e⟩ := forall₂_mem_right hF ho
    have : p.1 ∈ times B := by rw [← e]; exact List.mem_map_of_mem hp
    obtain ⟨q, hq, e2⟩ := List.mem_map.1 this
    rw [← e2]; exact h.finite B hB q hq
  · intro p hp
    have e : (times outs.flatten).head? = some p.1 := by
      unfold times; rw [List.head?_map, hp]; rfl
    rw [ht] at e
    unfold times at e
    rw [List.head?_map] at e
    cases hh : Bs.flatten.head? with
    | none => rw [hh] at e; cases e
    | some a =>
      rw [hh] at e
      have : a.1 = p.1 := by simpa using e
      rw [← this]; exact h.start a hh

section run
variable {α : Type}

theorem runUn_nil (step : σ → ASig α → Except PyErr (σ × ASig α)) (st : σ) :
    runUn step st [] = .ok (st, []) := rfl

theorem runUn_cons_ok (step : σ → ASig α → Except PyErr (σ × ASig α)) {st st1 st2 : σ} {B o : ASig α}
    {rest os : List (ASig α)} (h1 : step st B = .ok (st1, o)) (h2 : runUn step st1 rest = .ok (st2, os)) :
    runUn step st (B :: rest) = .ok (st2, o :: os) := by
  rw [runUn, h1]
  show (runUn step st1 rest >>= _) = _
  rw [h2]; rfl

theorem runUn_cons_inv (step : σ → ASig α → Except PyErr (σ × ASig α)) {st st2 : σ} {B : ASig α}
    {rest outs : List (ASig α)} (h : runUn step st (B :: rest) = .ok (st2, outs)) :
    ∃ st1 o os, step st B = .ok (st1, o) ∧ runUn step st1 rest = .ok (st2, os) ∧ outs = o :: os := by
  rw [runUn] at h
  obtain ⟨⟨st1, o⟩, h1, h⟩ := MainAux.bind_ok h
  obtain ⟨⟨st2', os⟩, h2, h⟩ := MainAux.bind_ok h
  have := MainAux.ok_inj h
  cases this
  exact ⟨st1, o, os, h1, h2, rfl⟩

/-- Every returned batch is the result of one step on the corresponding batch. -/
theorem runUn_forall₂ (step : σ → ASig α → Except PyErr (σ × ASig α)) :
    ∀ (Bs : List (ASig α)) (st st' : σ) (outs : List (ASig α)), runUn step st Bs = .ok (st', outs) →
      List.Forall₂ (fun B o => ∃ s s', step s B = .ok (s', o)) Bs outs
  | [], st, st', outs, h => by
    rw [runUn_nil] at h
    cases MainAux.ok_inj h
    exact List.Forall₂.nil
  | B :: rest, st, st', outs, h => by
    obtain ⟨st1, o, os, h1, h2, rfl⟩ := runUn_cons_inv step h
    exact List.Forall₂.cons ⟨st, st1, h1⟩ (runUn_forall₂ step rest st1 st' os h2)

end run

/-! ### the running extremum (`scanUpdate`) -/

section scan
variable {α : Type}

/-- The samples `scanUpdate` returns. -/
def scanL (comb : α → α → α) (p : α) (s : ASig α) : ASig α := (scanUpdate comb p s).2
/-- The running value `scanUpdate` hands to the next update. -/
def scanAcc (comb : α → α → α) (p : α) (s : ASig α) : α := (scanUpdate comb p s).1

theorem scanUpdate_eq (comb : α → α → α) (p : α) (s : ASig α) :
    scanUpdate comb p s = (scanAcc comb p s, scanL comb p s) := rfl

theorem scanL_nil (comb : α → α → α) (p : α) : scanL comb p [] = [] := rfl
theorem scanL_cons (comb : α → α → α) (p : α) (t : Tm) (v : α) (rest : ASig α) :
    scanL comb p ((t, v) :: rest) = (t, comb v p) :: scanL comb (comb v p) rest := rfl
theorem scanAcc_nil (comb : α → α → α) (p : α) : scanAcc comb p [] = p := rfl
theorem scanAcc_cons (comb : α → α → α) (p : α) (t : Tm) (v : α) (rest : ASig α) :
    scanAcc comb p ((t, v) :: rest) = scanAcc comb (comb v p) rest := rfl

theorem scanL_append (comb : α → α → α) (p : α) (s r : ASig α) :
    scanL comb p (s ++ r) = scanL comb p s ++ scanL comb (scanAcc comb p s) r := by
  induction s generalizing p with
  | nil => rfl
  | cons a s ih =>
    obtain ⟨t, v⟩ := a
    rw [List.cons_append, scanL_cons, scanL_cons, scanAcc_cons, ih, List.cons_append]

theorem scanAcc_append (comb : α → α → α) (p : α) (s r : ASig α) :
    scanAcc comb p (s ++ r) = scanAcc comb (scanAcc comb p s) r := by
  induction s generalizing p with
  | nil => rfl
  | cons a s ih =>
    obtain ⟨t, v⟩ := a
    rw [List.cons_append, scanAcc_cons, scanAcc_cons, ih]

/-- `scanUpdate` over a concatenation: first over `s`, then over `r` from the running value reached. -/
theorem scanUpdate_append (comb : α → α → α) (p : α) (s r : ASig α) :
    scanUpdate comb p (s ++ r) =
      ((scanUpdate comb (scanUpdate comb p s).1 r).1,
        (scanUpdate comb p s).2 ++ (scanUpdate comb (scanUpdate comb p s).1 r).2) := by
  rw [scanUpdate_eq, scanL_append, scanAcc_append]; rfl

theorem times_scanL (comb : α → α → α) (p : α) (s : ASig α) : times (scanL comb p s) = times s := by
  induction s generalizing p with
  | nil => rfl
  | cons a s ih =>
    obtain ⟨t, v⟩ := a
    rw [scanL_cons, times_cons, times_cons, ih]

theorem mem_scanL_stamp {comb : α → α → α} {p : α} {s : ASig α} {o : Tm × α} (h : o ∈ scanL comb p s) :
    ∃ q ∈ s, q.1 = o.1 := by
  have : o.1 ∈ times s := by rw [← times_scanL comb p s]; exact List.mem_map_of_mem h
  exact List.mem_map.1 this

/-- The batches returned when the running value is threaded through the batches. -/
def scanOuts (comb : α → α → α) : α → List (ASig α) → List (ASig α)
  | _, [] => []
  | p, B :: rest => scanL comb p B :: scanOuts comb (scanAcc comb p B) rest

theorem runUn_scan (comb : α → α → α) : ∀ (Bs : List (ASig α)) (p : α),
    runUn (fun (p : α) B => .ok (scanUpdate comb p B)) p Bs = .ok (scanAcc comb p Bs.flatten, scanOuts comb p Bs)
  | [], p => rfl
  | B :: rest, p => by
    rw [List.flatten_cons, scanAcc_append]
    exact runUn_cons_ok _ (congrArg Except.ok (scanUpdate_eq comb p B)) (runUn_scan comb rest _)

/-- Threading the running value over the batches is `scanUpdate` over the concatenation. -/
theorem scanOuts_flatten (comb : α → α → α) : ∀ (Bs : List (ASig α)) (p : α),
    (scanOuts comb p Bs).flatten = scanL comb p Bs.flatten
  | [], p => rfl
  | B :: rest, p => by
    rw [scanOuts, List.flatten_cons, List.flatten_cons, scanL_append, scanOuts_flatten comb rest]

theorem scanOuts_forall₂ (comb : α → α → α) : ∀ (Bs : List (ASig α)) (p : α),
    List.Forall₂ (fun B o => times o = times B) Bs (scanOuts comb p Bs)
  | [], _ => List.Forall₂.nil
  | B :: rest, p => List.Forall₂.cons (times_scanL comb p B) (scanOuts_forall₂ comb rest _)

theorem scanL_weak_aux (comb : α → α → α) (a : Tm × α) : ∀ (s : ASig α) (acc : α),
    (∀ r ∈ s, a.1 < r.1 ∨ a = r) → s.Pairwise (fun p q => p.1 ≤ q.1) → comb a.2 acc = acc →
      ∀ o ∈ scanL comb acc s, a.1 < o.1 ∨ (a.1, acc) = o
  | [], _, _, _, _, o, ho => by cases ho
  | (t, v) :: rest, acc, h1, hm, hc, o, ho => by
    rcases h1 (t, v) List.mem_cons_self with h2 | h2
    · left
      obtain ⟨q, hq, e⟩ := mem_scanL_stamp ho
      rw [← e]
      rcases List.mem_cons.1 hq with rfl | hq'
      · exact h2
      · exact lt_of_lt_of_le h2 ((List.pairwise_cons.1 hm).1 q hq')
    · subst h2
      rw [scanL_cons, hc] at ho
      rcases List.mem_cons.1 ho with rfl | ho'
      · exact Or.inr rfl
      · exact scanL_weak_aux comb _ rest acc (fun r hr => h1 r (List.mem_cons_of_mem _ hr))
          (List.pairwise_cons.1 hm).2 hc o ho'

/-- A repeated sample does not change the running extremum: the output is weakly sorted as well. -/
theorem scanL_weak (comb : α → α → α) (hidem : ∀ a b, comb a (comb a b) = comb a b) :
    ∀ (s : ASig α) (acc : α), Weak s → Weak (scanL comb acc s)
  | [], _, _ => by rw [scanL_nil]; exact List.Pairwise.nil
  | (t, v) :: rest, acc, hw => by
    obtain ⟨h1, h2⟩ := weak_cons.1 hw
    rw [scanL_cons, weak_cons]
    exact ⟨scanL_weak_aux comb (t, v) rest (comb v acc) h1 h2.mono (hidem v acc),
      scanL_weak comb hidem rest _ h2⟩

/-- The running `comb` at `t` is bounded (in the sense of `R`) exactly by the bounds of `acc` and of all samples at or
    before `t`. -/
theorem scan_char (R : α → α → Prop) (comb : α → α → α) (hcomb : ∀ c a b, R c (comb a b) ↔ R c a ∧ R c b) :
    ∀ (s : ASig α), s.Pairwise (fun p q => p.1 ≤ q.1) → ∀ (acc : α) (t : Rat), valAtA s t ≠ none →
      ∃ v, valAtA (scanL comb acc s) t = some v ∧
        ∀ c, R c v ↔ R c acc ∧ ∀ p ∈ s, p.1 ≤ Tm.fin t → R c p.2
  | [], _, _, _, h => absurd rfl h
  | (τ, x) :: rest, hm, acc, t, hne => by
    have hτ : τ ≤ Tm.fin t := by
      obtain ⟨p, hp, hle⟩ := (valAtA_ne_none_iff _ _).1 hne
      cases hp; exact hle
    obtain ⟨hm1, hm2⟩ := List.pairwise_cons.1 hm
    rw [scanL_cons, valAtA_cons, if_neg (not_lt.2 hτ)]
    cases hr : valAtA rest t with
    | none =>
      have hr' : valAtA (scanL comb (comb x acc) rest) t = none :=
        (valAtA_none_congr (times_scanL comb _ rest) t).2 hr
      refine ⟨comb x acc, by rw [hr']; rfl, fun c => ?_⟩
      rw [hcomb]
      have hlate : ∀ p ∈ rest, ¬ p.1 ≤ Tm.fin t := by
        intro p hp
        rw [valAtA_eq_none_iff] at hr
        cases rest with
        | nil => cases hp
        | cons b rest' =>
          have hb := hr b rfl
          have : b.1 ≤ p.1 := by
            rcases List.mem_cons.1 hp with rfl | h5
            · exact le_rfl
            · exact (List.pairwise_cons.1 hm2).1 p h5
          exact not_le.2 (lt_of_lt_of_le hb this)
      constructor
      · rintro ⟨h1, h2⟩
        refine ⟨h2, fun p hp hle => ?_⟩
        rcases List.mem_cons.1 hp with rfl | hp'
        · exact h1
        · exact absurd hle (hlate p hp')
      · rintro ⟨h1, h2⟩
        exact ⟨h2 (τ, x) List.mem_cons_self hτ, h1⟩
    | some w =>
      have hrn : valAtA rest t ≠ none := by rw [hr]; simp
      obtain ⟨v, hv, hc⟩ := scan_char R comb hcomb rest hm2 (comb x acc) t hrn
      refine ⟨v, by rw [hv]; rfl, fun c => ?_⟩
      rw [hc, hcomb]
      constructor
      · rintro ⟨⟨h1, h2⟩, h3⟩
        refine ⟨h2, fun p hp hle => ?_⟩
        rcases List.mem_cons.1 hp with rfl | hp'
        · exact h1
        · exact h3 p hp' hle
      · rintro ⟨h1, h2⟩
        exact ⟨⟨h2 (τ, x) List.mem_cons_self hτ, h1⟩, fun p hp hle => h2 p (List.mem_cons_of_mem _ hp) hle⟩

/-- Under `StreamOK` the values of `g` on `[d, t]`, `t` covered, are the values of the samples at or before `t`. -/
theorem valuesOn_stream {Bs : List (ASig α)} {d : Rat} {g : Rat → Option α} (h : StreamOK Bs d g) {t : Rat}
    (hc : Covered Bs d t) (P : α → Prop) :
    (∀ y ∈ valuesOn g d t, P y) ↔ ∀ p ∈ Bs.flatten, p.1 ≤ Tm.fin t → P p.2 := by
  constructor
  · intro hh p hp hle
    obtain ⟨τ, e, hτt, hcτ⟩ := shape_covered_of_mem h.1 hc hp hle
    have hd : d ≤ τ := by
      obtain ⟨_, _, _, _, hd, _⟩ := hcτ
      exact hd
    refine hh p.2 ⟨τ, hd, hτt, ?_⟩
    rw [← h.2 τ hcτ]
    exact valAtA_weak_at (shape_weak h.1) hp e
  · rintro hh y ⟨s, hds, hst, hy⟩
    rw [← h.2 s (covered_mono hc hds hst)] at hy
    obtain ⟨p, hp, rfl, hle⟩ := valAtA_mem_le hy
    exact hh p hp (le_trans hle ((fin_le_fin _ _).2 hst))

/-- `OnceOperation` / `HistoricallyOperation`, generically. -/
theorem scanStream_gen (R : α → α → Prop) (comb : α → α → α) (init : α)
    (hcomb : ∀ c a b, R c (comb a b) ↔ R c a ∧ R c b) (hidem : ∀ a b, comb a (comb a b) = comb a b)
    (hinit : ∀ c, R c init) {Bs : List (ASig α)} {d : Rat} {g : Rat → Option α} (h : StreamOK Bs d g) :
    ∃ st outs, runUn (fun (p : α) B => .ok (scanUpdate comb p B)) init Bs = .ok (st, outs) ∧ Shape outs d ∧
      ∀ t, Covered outs d t → ∃ v, valAtA outs.flatten t = some v ∧ ∀ c, R c v ↔ ∀ y ∈ valuesOn g d t, R c y := by
  refine ⟨_, _, runUn_scan comb Bs init, ?_, ?_⟩
  · apply shape_of_times h.1 (scanOuts_forall₂ comb Bs init)
    rw [scanOuts_flatten]
    exact scanL_weak comb hidem _ _ (shape_weak h.1)
  · intro t hc
    have hc' : Covered Bs d t :=
      (covered_congr (times_flatten_of_forall₂ (scanOuts_forall₂ comb Bs init)) d t).1 hc
    obtain ⟨v, hv, hch⟩ := scan_char R comb hcomb Bs.flatten (shape_weak h.1).mono init t (shape_defined h.1 hc')
    refine ⟨v, by rw [scanOuts_flatten]; exact hv, fun c => ?_⟩
    rw [hch c, valuesOn_stream h hc' (fun y => R c y)]
    exact ⟨fun hh => hh.2, fun hh => ⟨hinit c, hh⟩⟩

end scan

/-! ### point-wise maps -/

section mapun
variable {α : Type} [Val α]

theorem mapUn_eq_map (op : Un) {s out : ASig α} (ho : mapUn op s = .ok out) :
    out = s.map (fun p => (p.1, op.app p.2)) := by
  refine mapM_eq_map _ op.app ?_ s out ho
  intro p q hq
  cases op <;> simp only at hq
  all_goals first
    | (cases hq; rfl)
    | (split_ifs at hq; cases hq; rfl)

theorem weak_map (k : β → γ) {s : ASig β} (h : Weak s) : Weak (s.map (fun p => (p.1, k p.2))) := by
  unfold Weak
  rw [List.pairwise_map]
  refine List.Pairwise.imp ?_ h
  rintro p q (h | rfl)
  · exact Or.inl h
  · exact Or.inr rfl

/-- A stream mapped sample by sample. -/
theorem mapStream_ok (k : β → γ) {Bs : List (ASig β)} {d : Rat} {g : Rat → Option β} (h : StreamOK Bs d g) :
    StreamOK (Bs.map (List.map (fun p => (p.1, k p.2)))) d (fun t => (g t).map k) := by
  have hF : List.Forall₂ (fun (B : ASig β) (o : ASig γ) => times o = times B) Bs
      (Bs.map (List.map (fun p => (p.1, k p.2)))) := by
    rw [List.forall₂_map_right_iff]
    exact List.forall₂_same.2 (fun B _ => times_map k B)
  have hfl : (Bs.map (List.map (fun p : Tm × β => (p.1, k p.2)))).flatten
      = Bs.flatten.map (fun p => (p.1, k p.2)) := List.map_flatten.symm
  refine ⟨shape_of_times h.1 hF (by rw [hfl]; exact weak_map k (shape_weak h.1)), fun t hc => ?_⟩
  have hc' : Covered Bs d t := (covered_congr (times_flatten_of_forall₂ hF) d t).1 hc
  rw [hfl, valAtA_map, h.2 t hc']

end mapun

end BasicAux

open BasicAux InterAux
attribute [local instance] InterAux.tmOrder

variable {α : Type} [Val α] [LawfulVal α]
set_option linter.unusedSectionVars false

set_option linter.unusedVariables false in
/-- The chunks of one variable: consecutive pieces of (a prefix of) its sample list. -/
theorem varStream_ok (s : DSig α) (hne : s ≠ []) (hs : s.times.Pairwise (· < ·)) (h0 : s.times.head? = some 0)
    (Bs : List (ASig α)) (rest : ASig α) (hch : Bs.flatten ++ rest = ofDSig s) :
    StreamOK Bs 0 (DSig.valAt s) := by
  obtain ⟨⟨hsorted, hstart, _⟩, _⟩ := MainAux.ofDSig_denotes s hs h0
  have hfin : ∀ p ∈ ofDSig s, p.1 ≠ Tm.inf := by
    intro p hp
    simp only [ofDSig, List.mem_map] at hp
    obtain ⟨q, _, rfl⟩ := hp
    simp
  rw [← hch] at hsorted hstart hfin
  have hsub : Bs.flatten.Sublist (Bs.flatten ++ rest) := List.sublist_append_left _ _
  have hsF : Sorted Bs.flatten := List.Pairwise.sublist (hsub.map _) hsorted
  refine ⟨⟨?_, ?_, weak_of_sorted hsF, ?_⟩, ?_⟩
  · intro B hB
    exact List.Pairwise.sublist ((List.sublist_flatten_of_mem hB).map _) hsF
  · intro B hB p hp
    exact hfin p (List.mem_append_left _ (List.mem_flatten.2 ⟨B, hB, hp⟩))
  · intro p hp
    have : (times (Bs.flatten ++ rest)).head? = some p.1 := by
      unfold times
      rw [List.head?_map, List.head?_append, hp]; rfl
    rw [this] at hstart
    exact Option.some.inj hstart
  · intro t hc
    obtain ⟨τ, z, hl, ez, _, ht⟩ := hc
    have hz : z ∈ Bs.flatten := List.mem_of_getLast? hl
    rw [← MainAux.valAtA_ofDSig, ← hch]
    symm
    apply valAtA_append_gt
    intro p hp
    have hp' : p.1 ∈ times rest := List.mem_map_of_mem hp
    have hz' : z.1 ∈ times Bs.flatten := List.mem_map_of_mem hz
    rw [sorted_iff, times_append] at hsorted
    have := (List.pairwise_append.1 hsorted).2.2 z.1 hz' p.1 hp'
    rw [ez] at this
    exact lt_of_le_of_lt ((fin_le_fin _ _).2 ht) this

omit [LawfulVal α] in
theorem BasicAux.unStream_outs (op : Un) : ∀ {Bs : List (ASig α)} {st : Unit} {outs : List (ASig α)},
    runUn (fun (_ : Unit) B => (mapUn op B).map (fun o => ((), o))) () Bs = .ok (st, outs) →
      outs = Bs.map (List.map (fun p => (p.1, op.app p.2)))
  | [], st, outs, he => by
    rw [runUn_nil] at he
    cases MainAux.ok_inj he
    rfl
  | B :: rest, st, outs, he => by
    obtain ⟨st1, o, os, h1, h2, rfl⟩ := runUn_cons_inv _ he
    cases hm : mapUn op B with
    | error e => rw [hm] at h1; cases h1
    | ok o' =>
      rw [hm] at h1
      have : ((), o') = (st1, o) := MainAux.ok_inj h1
      cases this
      rw [mapUn_eq_map op hm, unStream_outs op h2]
      rfl

/-- Unary point-wise operations (`mapUn` batch by batch). -/
theorem unStream_ok (op : Un) {Bs : List (ASig α)} {g : Rat → Option α} (h : StreamOK Bs 0 g)
    {st : Unit} {outs : List (ASig α)}
    (he : runUn (fun (_ : Unit) B => (mapUn op B).map (fun o => ((), o))) () Bs = .ok (st, outs)) :
    StreamOK outs 0 (fun t => (g t).map op.app) := by
  rw [unStream_outs op he]
  exact mapStream_ok op.app h

theorem unStream_total (op : Un) (hop : op ≠ .sqrt ∧ op ≠ .ln) (Bs : List (ASig α)) :
    ∃ outs, runUn (fun (_ : Unit) B => (mapUn op B).map (fun o => ((), o))) () Bs = .ok ((), outs) := by
  induction Bs with
  | nil => exact ⟨[], rfl⟩
  | cons B rest ih =>
    obtain ⟨os, hos⟩ := ih
    obtain ⟨o, ho⟩ := mapUn_ok op hop B
    exact ⟨o :: os, runUn_cons_ok _ (by rw [ho]; rfl) hos⟩

/-- `OnceOperation`: the running maximum carried across updates is the supremum over `[0, t]`. -/
theorem scanStream_max {Bs : List (ASig α)} {g : Rat → Option α} (h : StreamOK Bs 0 g) :
    ∃ st outs, runUn (fun (p : α) B => .ok (scanUpdate pmax p B)) Val.ninf Bs = .ok (st, outs) ∧ Shape outs 0 ∧
      ∀ t, Covered outs 0 t → ∃ v, valAtA outs.flatten t = some v ∧ IsLUB (valuesOn g 0 t) v := by
  obtain ⟨st, outs, hr, hsh, hv⟩ := scanStream_gen (fun c y => y ≤ c) pmax (Val.ninf : α)
    (fun c a b => by rw [pmax_eq]; exact max_le_iff)
    (fun a b => by rw [pmax_eq, pmax_eq]; exact ScanAux.max_idem a b)
    (fun c => by rw [LawfulVal.ninf_bot]; exact bot_le) h
  refine ⟨st, outs, hr, hsh, fun t hc => ?_⟩
  obtain ⟨v, e, hch⟩ := hv t hc
  refine ⟨v, e, ?_⟩
  rw [isLUB_iff_le_iff]
  intro c
  rw [hch c]
  rfl

/-- `HistoricallyOperation`. -/
theorem scanStream_min {Bs : List (ASig α)} {g : Rat → Option α} (h : StreamOK Bs 0 g) :
    ∃ st outs, runUn (fun (p : α) B => .ok (scanUpdate pmin p B)) Val.pinf Bs = .ok (st, outs) ∧ Shape outs 0 ∧
      ∀ t, Covered outs 0 t → ∃ v, valAtA outs.flatten t = some v ∧ IsGLB (valuesOn g 0 t) v := by
  obtain ⟨st, outs, hr, hsh, hv⟩ := scanStream_gen (fun c y => c ≤ y) pmin (Val.pinf : α)
    (fun c a b => by rw [pmin_eq]; exact le_min_iff)
    (fun a b => by rw [pmin_eq, pmin_eq]; exact ScanAux.min_idem a b)
    (fun c => by rw [LawfulVal.pinf_top]; exact le_top) h
  refine ⟨st, outs, hr, hsh, fun t hc => ?_⟩
  obtain ⟨v, e, hch⟩ := hv t hc
  refine ⟨v, e, ?_⟩
  rw [isGLB_iff_le_iff]
  intro c
  rw [hch c]
  rfl

end Rtamt.Dense.AlgOn
