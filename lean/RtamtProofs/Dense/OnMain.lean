/-
  C05 on the mirror of the dense-time online monitor (`Rtamt/Dense/AlgOn.lean`, `runOn`): for every specification of the
  fragment `onFrag`, every set of well-formed signals that start at 0 and EVERY way of cutting them into successive
  `update()` calls (per variable: consecutive, possibly empty pieces of a prefix of the signal), the lists returned,
  concatenated, have non-decreasing time stamps (`Shape`: a later sample has a later stamp or repeats an earlier sample) and,
  read as a step function, equal the dense-time semantics `rhoD` at every time they cover.  In particular two chunkings
  never disagree at an instant both cover (`C05_chunkings_agree_partial`).

  `_partial`: the fragment leaves out a specification that is a constant, binary operations on two constants and
  `since` / `since[a,b]` with a constant operand; signals start at 0 (F37); `hsub` as in C04.  A constant node hands its
  signal `[[0, c], [inf, c]]` over in the first update only (`constStream`).  `since[a,b]` is monitored as
  `once[a,b] ψ and historically[0,a] (φ since ψ)` (`sinceTStep`, `runBin_sinceT`); on the semantics this decomposition is
  `rhoD_since_bounded_decomp`.

  C06 (`C06_online_ia_partial`, `C06_online_ia_total_partial`): the same for the fragment `onFragIA`, which also has the
  interface-aware predicate `.bin (.predSat c) φ ψ` (robustness semantics): its node is the subtraction run over the operand
  streams followed by the IA output loop on every returned batch (`binStep`, `runBin_predSat`, `iaStream_ok`), under `hkey`
  (equal robustness values have equal satisfaction) and `hcmp` (the satisfaction read off the difference is the comparison).
  Both structural inductions are done once for the two fragments (`onFragG`, `mirror_auxG`, `total_auxG`).
-/
import RtamtProofs.Dense.OnBasic
import RtamtProofs.Dense.OnBin
import RtamtProofs.Dense.OnBinNL
import RtamtProofs.Dense.OnSince
import RtamtProofs.Dense.SinceDecomp
import RtamtProofs.Dense.OnTimed
import RtamtProofs.Dense.OnIA
import Mathlib.Order.Fin.Basic

namespace Rtamt.Dense.AlgOn
open Rtamt Val Rtamt.Dense.Alg

variable {α : Type} [Val α] [LawfulVal α]

def isConst : F α → Bool
  | .const _ => true
  | _ => false

/-- The fragment of the theorem: variables; unary point-wise operations; binary point-wise operations (no IA forms) with
    at most one operand that is a constant node, the other operands in the fragment; unbounded and bounded once /
    historically (`a ≤ b`); since and since[a,b] (`a ≤ b`) with both operands in the fragment. -/
def onFrag : F α → Bool
  | .var _ => true
  | .const _ => false
  | .un _ φ => onFrag φ
  | .bin op φ ψ =>
      (match op with | .predSat _ | .predZero => false | _ => true) &&
      ((onFrag φ && onFrag ψ) || (isConst φ && onFrag ψ) || (onFrag φ && isConst ψ))
  | .tmp1 op φ => (match op with | .once | .hist => true | _ => false) && onFrag φ
  | .tmp2 op φ ψ => (match op with | .since => true | _ => false) && onFrag φ && onFrag ψ
  | .tb1 op a b φ => (match op with | .once | .hist => true | _ => false) && decide (a ≤ b) && onFrag φ
  | .tb2 op a b φ ψ => (match op with | .since => true | _ => false) && decide (a ≤ b) && onFrag φ && onFrag ψ

/-- The fragment of C06 (interface-aware robustness semantics): as `onFrag`, and the interface-aware predicate
    `.bin (.predSat c) φ ψ` is allowed under the same operand conditions as the other binary operations. -/
def onFragIA : F α → Bool
  | .var _ => true
  | .const _ => false
  | .un _ φ => onFragIA φ
  | .bin op φ ψ =>
      (match op with | .predZero => false | _ => true) &&
      ((onFragIA φ && onFragIA ψ) || (isConst φ && onFragIA ψ) || (onFragIA φ && isConst ψ))
  | .tmp1 op φ => (match op with | .once | .hist => true | _ => false) && onFragIA φ
  | .tmp2 op φ ψ => (match op with | .since => true | _ => false) && onFragIA φ && onFragIA ψ
  | .tb1 op a b φ => (match op with | .once | .hist => true | _ => false) && decide (a ≤ b) && onFragIA φ
  | .tb2 op a b φ ψ => (match op with | .since => true | _ => false) && decide (a ≤ b) && onFragIA φ && onFragIA ψ

/-- The batches of every variable of `xs` are consecutive pieces of a prefix of its signal. -/
def ValidChunks (w : DEnv α) (xs : List String) (batches : List (String → ASig α)) : Prop :=
  ∀ x ∈ xs, ∃ rest, (batches.map (fun b => b x)).flatten ++ rest = ofDSig (w.sig x)

namespace MainAux
open Rtamt.Dense.Alg.MainAux

/-- Both fragments at once: `ia = false` is `onFrag`, `ia = true` is `onFragIA`. -/
def onFragG (ia : Bool) : F α → Bool
  | .var _ => true
  | .const _ => false
  | .un _ φ => onFragG ia φ
  | .bin op φ ψ =>
      (match op with | .predSat _ => ia | .predZero => false | _ => true) &&
      ((onFragG ia φ && onFragG ia ψ) || (isConst φ && onFragG ia ψ) || (onFragG ia φ && isConst ψ))
  | .tmp1 op φ => (match op with | .once | .hist => true | _ => false) && onFragG ia φ
  | .tmp2 op φ ψ => (match op with | .since => true | _ => false) && onFragG ia φ && onFragG ia ψ
  | .tb1 op a b φ => (match op with | .once | .hist => true | _ => false) && decide (a ≤ b) && onFragG ia φ
  | .tb2 op a b φ ψ => (match op with | .since => true | _ => false) && decide (a ≤ b) && onFragG ia φ && onFragG ia ψ

/-! ### runs of a step function, `.ok` characterisations -/

/-- A step function run over a list of inputs (the shape of `runOn.go`, `runUn`, `runBin`). -/
def runG {ι σ : Type} (step : σ → ι → Except PyErr (σ × ASig α)) : σ → List ι → Except PyErr (σ × List (ASig α))
  | st, [] => .ok (st, [])
  | st, b :: rest => do
      let (st', o) ← step st b
      let (st'', os) ← runG step st' rest
      pure (st'', o :: os)

omit [Val α] [LawfulVal α] in
theorem runG_nil_ok {ι σ : Type} (step : σ → ι → Except PyErr (σ × ASig α)) (st st2 : σ) (outs : List (ASig α)) :
    runG step st [] = .ok (st2, outs) ↔ st2 = st ∧ outs = [] := by
  simp only [runG]
  constructor
  · intro h; cases h; exact ⟨rfl, rfl⟩
  · rintro ⟨rfl, rfl⟩; rfl

omit [Val α] [LawfulVal α] in
theorem runG_cons_ok {ι σ : Type} (step : σ → ι → Except PyErr (σ × ASig α)) (st st2 : σ) (b : ι) (rest : List ι)
    (outs : List (ASig α)) :
    runG step st (b :: rest) = .ok (st2, outs) ↔
      ∃ st1 o os, step st b = .ok (st1, o) ∧ runG step st1 rest = .ok (st2, os) ∧ outs = o :: os := by
  simp only [runG]
  constructor
  · intro h
    obtain ⟨⟨st1, o⟩, e1, h⟩ := bind_ok h
    obtain ⟨⟨st2', os⟩, e2, h⟩ := bind_ok h
    cases h
    exact ⟨st1, o, os, e1, e2, rfl⟩
  · rintro ⟨st1, o, os, e1, e2, rfl⟩
    rw [bind_ok_eq e1]
    simp only []
    rw [bind_ok_eq e2]
    rfl

omit [Val α] [LawfulVal α] in
theorem runUn_eq_runG {σ : Type} (step : σ → ASig α → Except PyErr (σ × ASig α)) (st : σ) (Bs : List (ASig α)) :
    runUn step st Bs = runG step st Bs := by
  induction Bs generalizing st with
  | nil => rfl
  | cons B rest ih =>
    simp only [runUn, runG]
    congr 1
    funext x
    obtain ⟨st', o⟩ := x
    simp only [ih]

omit [Val α] [LawfulVal α] in
theorem runBin_eq_runG {σ : Type} (step : σ → ASig α → ASig α → Except PyErr (σ × ASig α)) (st : σ)
    (Zs : List (ASig α × ASig α)) :
    runBin step st Zs = runG (fun s (z : ASig α × ASig α) => step s z.1 z.2) st Zs := by
  induction Zs generalizing st with
  | nil => rfl
  | cons Z rest ih =>
    obtain ⟨L, R⟩ := Z
    simp only [runBin, runG]
    congr 1
    funext x
    obtain ⟨st', o⟩ := x
    simp only [ih]

omit [Val α] [LawfulVal α] in
theorem runG_length {ι σ : Type} (step : σ → ι → Except PyErr (σ × ASig α)) :
    ∀ (bs : List ι) (st st2 : σ) (outs : List (ASig α)), runG step st bs = .ok (st2, outs) → outs.length = bs.length := by
  intro bs
  induction bs with
  | nil =>
    intro st st2 outs h
    rw [((runG_nil_ok step st st2 outs).1 h).2]; rfl
  | cons b rest ih =>
    intro st st2 outs h
    obtain ⟨st1, o, os, _, e2, rfl⟩ := (runG_cons_ok step st st2 b rest outs).1 h
    simp only [List.length_cons, ih st1 st2 os e2]

omit [Val α] [LawfulVal α] in
/-- A node with one child: the outputs of the node are its operation run over the outputs of the child. -/
theorem un_compose {ι C P σ : Type} (cstep : C → ι → Except PyErr (C × ASig α))
    (pstep : P → ι → Except PyErr (P × ASig α)) (ostep : σ → ASig α → Except PyErr (σ × ASig α)) (wrap : σ → C → P)
    (h : ∀ b s c p' o, pstep (wrap s c) b = .ok (p', o) ↔
      ∃ c' x s', cstep c b = .ok (c', x) ∧ ostep s x = .ok (s', o) ∧ p' = wrap s' c') :
    ∀ (bs : List ι) (s : σ) (c : C) (p' : P) (outs : List (ASig α)),
      runG pstep (wrap s c) bs = .ok (p', outs) ↔
        ∃ c' cs s', runG cstep c bs = .ok (c', cs) ∧ runUn ostep s cs = .ok (s', outs) ∧ p' = wrap s' c' := by
  intro bs
  induction bs with
  | nil =>
    intro s c p' outs
    rw [runG_nil_ok]
    constructor
    · rintro ⟨rfl, rfl⟩
      exact ⟨c, [], s, rfl, rfl, rfl⟩
    · rintro ⟨c', cs, s', e1, e2, rfl⟩
      obtain ⟨rfl, rfl⟩ := (runG_nil_ok _ _ _ _).1 e1
      rw [runUn_eq_runG] at e2
      obtain ⟨rfl, rfl⟩ := (runG_nil_ok _ _ _ _).1 e2
      exact ⟨rfl, rfl⟩
  | cons b rest ih =>
    intro s c p' outs
    rw [runG_cons_ok]
    constructor
    · rintro ⟨p1, o, os, e1, e2, rfl⟩
      obtain ⟨c1, x, s1, k1, k2, rfl⟩ := (h b s c p1 o).1 e1
      obtain ⟨c', cs, s', k3, k4, rfl⟩ := (ih s1 c1 p' os).1 e2
      refine ⟨c', x :: cs, s', (runG_cons_ok _ _ _ _ _ _).2 ⟨c1, x, cs, k1, k3, rfl⟩, ?_, rfl⟩
      rw [runUn_eq_runG] at k4 ⊢
      exact (runG_cons_ok _ _ _ _ _ _).2 ⟨s1, o, os, k2, k4, rfl⟩
    · rintro ⟨c', cs, s', e1, e2, rfl⟩
      obtain ⟨c1, x, cs', k1, k3, rfl⟩ := (runG_cons_ok _ _ _ _ _ _).1 e1
      rw [runUn_eq_runG] at e2
      obtain ⟨s1, o, os, k2, k4, rfl⟩ := (runG_cons_ok _ _ _ _ _ _).1 e2
      refine ⟨wrap s1 c1, o, os, (h b s c _ o).2 ⟨c1, x, s1, k1, k2, rfl⟩, ?_, rfl⟩
      refine (ih s1 c1 _ os).2 ⟨c', cs', s', k3, ?_, rfl⟩
      rw [runUn_eq_runG]; exact k4

omit [Val α] [LawfulVal α] in
/-- A node with two children. -/
theorem bin_compose {ι L R P σ : Type} (lstep : L → ι → Except PyErr (L × ASig α))
    (rstep : R → ι → Except PyErr (R × ASig α))
    (pstep : P → ι → Except PyErr (P × ASig α)) (ostep : σ → ASig α → ASig α → Except PyErr (σ × ASig α))
    (wrap : σ → L → R → P)
    (h : ∀ b s l r p' o, pstep (wrap s l r) b = .ok (p', o) ↔
      ∃ l' x r' y s', lstep l b = .ok (l', x) ∧ rstep r b = .ok (r', y) ∧ ostep s x y = .ok (s', o) ∧
        p' = wrap s' l' r') :
    ∀ (bs : List ι) (s : σ) (l : L) (r : R) (p' : P) (outs : List (ASig α)),
      runG pstep (wrap s l r) bs = .ok (p', outs) ↔
        ∃ l' ls r' rs s', runG lstep l bs = .ok (l', ls) ∧ runG rstep r bs = .ok (r', rs) ∧
          runBin ostep s (ls.zip rs) = .ok (s', outs) ∧ p' = wrap s' l' r' := by
  intro bs
  induction bs with
  | nil =>
    intro s l r p' outs
    rw [runG_nil_ok]
    constructor
    · rintro ⟨rfl, rfl⟩
      exact ⟨l, [], r, [], s, rfl, rfl, rfl, rfl⟩
    · rintro ⟨l', ls, r', rs, s', e1, e2, e3, rfl⟩
      obtain ⟨rfl, rfl⟩ := (runG_nil_ok _ _ _ _).1 e1
      obtain ⟨rfl, rfl⟩ := (runG_nil_ok _ _ _ _).1 e2
      rw [runBin_eq_runG] at e3
      obtain ⟨rfl, rfl⟩ := (runG_nil_ok _ _ _ _).1 e3
      exact ⟨rfl, rfl⟩
  | cons b rest ih =>
    intro s l r p' outs
    rw [runG_cons_ok]
    constructor
    · rintro ⟨p1, o, os, e1, e2, rfl⟩
      obtain ⟨l1, x, r1, y, s1, k1, k2, k3, rfl⟩ := (h b s l r p1 o).1 e1
      obtain ⟨l', ls, r', rs, s', j1, j2, j3, rfl⟩ := (ih s1 l1 r1 p' os).1 e2
      refine ⟨l', x :: ls, r', y :: rs, s', (runG_cons_ok _ _ _ _ _ _).2 ⟨l1, x, ls, k1, j1, rfl⟩,
        (runG_cons_ok _ _ _ _ _ _).2 ⟨r1, y, rs, k2, j2, rfl⟩, ?_, rfl⟩
      rw [runBin_eq_runG] at j3 ⊢
      exact (runG_cons_ok _ _ _ _ _ _).2 ⟨s1, o, os, k3, j3, rfl⟩
    · rintro ⟨l', ls, r', rs, s', e1, e2, e3, rfl⟩
      obtain ⟨l1, x, ls', k1, j1, rfl⟩ := (runG_cons_ok _ _ _ _ _ _).1 e1
      obtain ⟨r1, y, rs', k2, j2, rfl⟩ := (runG_cons_ok _ _ _ _ _ _).1 e2
      rw [runBin_eq_runG] at e3
      obtain ⟨s1, o, os, k3, j3, rfl⟩ := (runG_cons_ok _ _ _ _ _ _).1 e3
      refine ⟨wrap s1 l1 r1, o, os, (h b s l r _ o).2 ⟨l1, x, r1, y, s1, k1, k2, k3, rfl⟩, ?_, rfl⟩
      refine (ih s1 l1 r1 _ os).2 ⟨l', ls', r', rs', s', j1, j2, ?_, rfl⟩
      rw [runBin_eq_runG]; exact j3

/-! ### the state tree: outputs of a node as a stream -/

/-- The outputs of node `φ` from state `st`, one per update. -/
def streamOf (cfg : DCfg) (φ : F α) : OnSt α → List (String → ASig α) → Except PyErr (OnSt α × List (ASig α)) :=
  runG (fun st b => stepOn cfg b φ st)

omit [LawfulVal α] in
theorem go_ok (cfg : DCfg) (φ : F α) : ∀ (bs : List (String → ASig α)) (st : OnSt α) (outs : List (ASig α)),
    runOn.go cfg φ st bs = .ok outs ↔ ∃ st', streamOf cfg φ st bs = .ok (st', outs) := by
  intro bs
  induction bs with
  | nil =>
    intro st outs
    simp only [runOn.go, streamOf, runG_nil_ok]
    constructor
    · intro h; cases h; exact ⟨st, rfl, rfl⟩
    · rintro ⟨_, _, rfl⟩; rfl
  | cons b rest ih =>
    intro st outs
    simp only [streamOf, runG_cons_ok]
    simp only [runOn.go]
    constructor
    · intro h
      obtain ⟨⟨st1, o⟩, e1, h⟩ := bind_ok h
      obtain ⟨os, e2, h⟩ := bind_ok h
      cases h
      obtain ⟨st', e3⟩ := (ih st1 os).1 e2
      exact ⟨st', st1, o, os, e1, e3, rfl⟩
    · rintro ⟨st', st1, o, os, e1, e3, rfl⟩
      rw [bind_ok_eq e1]
      simp only []
      rw [bind_ok_eq ((ih st1 os).2 ⟨st', e3⟩)]
      rfl

omit [LawfulVal α] in
theorem runOn_ok (cfg : DCfg) (φ : F α) (bs : List (String → ASig α)) (outs : List (ASig α)) :
    runOn cfg φ bs = .ok outs ↔ ∃ st0 st', initOn φ = .ok st0 ∧ streamOf cfg φ st0 bs = .ok (st', outs) := by
  simp only [runOn]
  constructor
  · intro h
    obtain ⟨st0, e0, h⟩ := bind_ok h
    obtain ⟨st', e1⟩ := (go_ok cfg φ bs st0 outs).1 h
    exact ⟨st0, st', e0, e1⟩
  · rintro ⟨st0, st', e0, e1⟩
    rw [bind_ok_eq e0]
    exact (go_ok cfg φ bs st0 outs).2 ⟨st', e1⟩

omit [LawfulVal α] in
theorem stream_var (cfg : DCfg) (x : String) : ∀ (bs : List (String → ASig α)),
    streamOf cfg (.var x) .leaf bs = .ok (.leaf, bs.map (fun b => b x)) := by
  intro bs
  induction bs with
  | nil => rfl
  | cons b rest ih =>
    refine (runG_cons_ok _ _ _ _ _ _).2 ⟨.leaf, b x, _, ?_, ih, rfl⟩
    simp only [stepOn]

omit [LawfulVal α] in
theorem stream_const_sent (cfg : DCfg) (c : α) : ∀ (bs : List (String → ASig α)),
    streamOf cfg (.const c) (.cst true) bs = .ok (.cst true, List.replicate bs.length []) := by
  intro bs
  induction bs with
  | nil => rfl
  | cons b rest ih =>
    refine (runG_cons_ok _ _ _ _ _ _).2 ⟨.cst true, [], _, ?_, ih, ?_⟩
    · simp only [stepOn, if_true]
    · simp only [List.length_cons, List.replicate_succ]

omit [LawfulVal α] in
/-- A constant node hands its signal over at the first update only. -/
theorem stream_const (cfg : DCfg) (c : α) (bs : List (String → ASig α)) :
    ∃ st', streamOf cfg (.const c) (.cst false) bs = .ok (st', constStream c bs.length) := by
  cases bs with
  | nil => exact ⟨.cst false, rfl⟩
  | cons b rest =>
    refine ⟨.cst true, (runG_cons_ok _ _ _ _ _ _).2
      ⟨.cst true, [(Tm.zero, c), (Tm.inf, c)], _, ?_, stream_const_sent cfg c rest, ?_⟩⟩
    · simp only [stepOn, Bool.false_eq_true, if_false]
    · simp only [constStream, List.length_cons]

omit [LawfulVal α] in
theorem stepOn_un (cfg : DCfg) (op : Un) (φ : F α) (b : String → ASig α) (s : Unit) (c p' : OnSt α) (o : ASig α) :
    stepOn cfg b (.un op φ) ((fun (_ : Unit) c => OnSt.un c) s c) = .ok (p', o) ↔
      ∃ c' x s', stepOn cfg b φ c = .ok (c', x) ∧
        (fun (_ : Unit) B => (mapUn op B).map (fun o => ((), o))) s x = .ok (s', o) ∧
        p' = (fun (_ : Unit) c => OnSt.un c) s' c' := by
  simp only [stepOn]
  constructor
  · intro h
    obtain ⟨⟨c', x⟩, e1, h⟩ := bind_ok h
    obtain ⟨out, e2, h⟩ := bind_ok h
    cases h
    refine ⟨c', x, (), e1, ?_, rfl⟩
    simp only [] at e2
    rw [e2]; rfl
  · rintro ⟨c', x, s', e1, e2, rfl⟩
    rw [bind_ok_eq e1]
    simp only []
    cases hm : mapUn op x with
    | error e => rw [hm] at e2; cases e2
    | ok out =>
      rw [hm] at e2
      cases e2
      rfl

omit [LawfulVal α] in
theorem stepOn_once (cfg : DCfg) (φ : F α) (b : String → ASig α) (s : α) (c p' : OnSt α) (o : ASig α) :
    stepOn cfg b (.tmp1 .once φ) (OnSt.scan s c) = .ok (p', o) ↔
      ∃ c' x s', stepOn cfg b φ c = .ok (c', x) ∧
        (fun (p : α) B => (Except.ok (scanUpdate pmax p B) : Except PyErr (α × ASig α))) s x = .ok (s', o) ∧
        p' = OnSt.scan s' c' := by
  simp only [stepOn]
  constructor
  · intro h
    obtain ⟨⟨c', x⟩, e1, h⟩ := bind_ok h
    cases h
    exact ⟨c', x, _, e1, rfl, rfl⟩
  · rintro ⟨c', x, s', e1, e2, rfl⟩
    rw [bind_ok_eq e1]
    have e := ok_inj e2
    simp only [] at e ⊢
    rw [e]
    rfl

omit [LawfulVal α] in
theorem stepOn_hist (cfg : DCfg) (φ : F α) (b : String → ASig α) (s : α) (c p' : OnSt α) (o : ASig α) :
    stepOn cfg b (.tmp1 .hist φ) (OnSt.scan s c) = .ok (p', o) ↔
      ∃ c' x s', stepOn cfg b φ c = .ok (c', x) ∧
        (fun (p : α) B => (Except.ok (scanUpdate pmin p B) : Except PyErr (α × ASig α))) s x = .ok (s', o) ∧
        p' = OnSt.scan s' c' := by
  simp only [stepOn]
  constructor
  · intro h
    obtain ⟨⟨c', x⟩, e1, h⟩ := bind_ok h
    cases h
    exact ⟨c', x, _, e1, rfl, rfl⟩
  · rintro ⟨c', x, s', e1, e2, rfl⟩
    rw [bind_ok_eq e1]
    have e := ok_inj e2
    simp only [] at e ⊢
    rw [e]
    rfl

omit [LawfulVal α] in
theorem stepOn_onceT (cfg : DCfg) (a b' : Nat) (φ : F α) (b : String → ASig α) (s : TimedSt α) (c p' : OnSt α)
    (o : ASig α) :
    stepOn cfg b (.tb1 .once a b' φ) (OnSt.timed s c) = .ok (p', o) ↔
      ∃ c' x s', stepOn cfg b φ c = .ok (c', x) ∧
        timedUpdate ltW Val.ninf ((a : Rat) * cfg.scale) ((b' : Rat) * cfg.scale) s x = .ok (s', o) ∧
        p' = OnSt.timed s' c' := by
  simp only [stepOn]
  constructor
  · intro h
    obtain ⟨⟨c', x⟩, e1, h⟩ := bind_ok h
    obtain ⟨⟨s', out⟩, e2, h⟩ := bind_ok h
    cases h
    exact ⟨c', x, s', e1, e2, rfl⟩
  · rintro ⟨c', x, s', e1, e2, rfl⟩
    rw [bind_ok_eq e1]
    simp only []
    rw [bind_ok_eq e2]
    rfl

omit [LawfulVal α] in
theorem stepOn_histT (cfg : DCfg) (a b' : Nat) (φ : F α) (b : String → ASig α) (s : TimedSt α) (c p' : OnSt α)
    (o : ASig α) :
    stepOn cfg b (.tb1 .hist a b' φ) (OnSt.timed s c) = .ok (p', o) ↔
      ∃ c' x s', stepOn cfg b φ c = .ok (c', x) ∧
        timedUpdate gtW Val.pinf ((a : Rat) * cfg.scale) ((b' : Rat) * cfg.scale) s x = .ok (s', o) ∧
        p' = OnSt.timed s' c' := by
  simp only [stepOn]
  constructor
  · intro h
    obtain ⟨⟨c', x⟩, e1, h⟩ := bind_ok h
    obtain ⟨⟨s', out⟩, e2, h⟩ := bind_ok h
    cases h
    exact ⟨c', x, s', e1, e2, rfl⟩
  · rintro ⟨c', x, s', e1, e2, rfl⟩
    rw [bind_ok_eq e1]
    simp only []
    rw [bind_ok_eq e2]
    rfl

/-- The output loop of the interface-aware predicate on one batch of differences. -/
def iaOut (c : Cmp) (d : ASig α) : ASig α :=
  (dedupGoK (fun (x : α × Bool) => x.1) none (d.map (fun p => (p.1, (cmpOfDiff c p.2, satOfDiff c p.2))))).map
    (fun p => (p.1, if p.2.2 then (Val.pinf : α) else Val.ninf))

/-- The operation of a binary node: `binUpdate`, for predicates on the difference followed by the comparison (for the
    interface-aware predicate by its output loop `iaOut`); for the multiplication `binUpdateNL` (`last_output` cleared at
    every update). -/
def binStep (op : Bin) (st : BinSt α) (sl sr : ASig α) : Except PyErr (BinSt α × ASig α) :=
  match op with
  | .pred c => do
      let (st', d) ← binUpdate (fun a b => Val.sub a b) st sl sr
      pure (st', d.map (fun p => (p.1, cmpOfDiff c p.2)))
  | .predSat c => do
      let (st', d) ← binUpdate (fun a b => Val.sub a b) st sl sr
      pure (st', iaOut c d)
  | .predZero => .error .other
  | .mul => binUpdateNL op.app st sl sr
  | _ => binUpdate op.app st sl sr

omit [LawfulVal α] in
theorem stepOn_bin (cfg : DCfg) (op : Bin) (φ ψ : F α) (b : String → ASig α) (s : BinSt α) (l r p' : OnSt α)
    (o : ASig α) :
    stepOn cfg b (.bin op φ ψ) (OnSt.bin s l r) = .ok (p', o) ↔
      ∃ l' x r' y s', stepOn cfg b φ l = .ok (l', x) ∧ stepOn cfg b ψ r = .ok (r', y) ∧
        binStep op s x y = .ok (s', o) ∧ p' = OnSt.bin s' l' r' := by
  simp only [stepOn]
  constructor
  · intro h
    obtain ⟨⟨l', x⟩, e1, h⟩ := bind_ok h
    obtain ⟨⟨r', y⟩, e2, h⟩ := bind_ok h
    refine ⟨l', x, r', y, ?_⟩
    cases op <;> simp only [binStep] at h ⊢ <;>
    first
    | (cases h)
    | (obtain ⟨⟨s', out⟩, e3, h⟩ := bind_ok h
       cases h
       exact ⟨s', e1, e2, by first | exact e3 | (rw [bind_ok_eq e3]; rfl), rfl⟩)
  · rintro ⟨l', x, r', y, s', e1, e2, e3, rfl⟩
    rw [bind_ok_eq e1]
    simp only []
    rw [bind_ok_eq e2]
    cases op <;> simp only [binStep] at e3 ⊢ <;>
    first
    | (cases e3)
    | (rw [bind_ok_eq e3]; rfl)
    | (obtain ⟨⟨s1, d⟩, k1, k2⟩ := bind_ok e3
       cases k2
       rw [bind_ok_eq k1]; rfl)

omit [LawfulVal α] in
theorem stream_un (cfg : DCfg) (op : Un) (φ : F α) (bs : List (String → ASig α)) (c p' : OnSt α)
    (outs : List (ASig α)) :
    streamOf cfg (.un op φ) (.un c) bs = .ok (p', outs) ↔
      ∃ c' cs s', streamOf cfg φ c bs = .ok (c', cs) ∧
        runUn (fun (_ : Unit) B => (mapUn op B).map (fun o => ((), o))) () cs = .ok (s', outs) ∧ p' = .un c' :=
  un_compose (fun st b => stepOn cfg b φ st) (fun st b => stepOn cfg b (.un op φ) st)
    (fun (_ : Unit) B => (mapUn op B).map (fun o => ((), o))) (fun (_ : Unit) c => OnSt.un c)
    (fun b s c p' o => stepOn_un cfg op φ b s c p' o) bs () c p' outs

omit [LawfulVal α] in
theorem stream_once (cfg : DCfg) (φ : F α) (bs : List (String → ASig α)) (s : α) (c p' : OnSt α)
    (outs : List (ASig α)) :
    streamOf cfg (.tmp1 .once φ) (.scan s c) bs = .ok (p', outs) ↔
      ∃ c' cs s', streamOf cfg φ c bs = .ok (c', cs) ∧
        runUn (fun (p : α) B => (Except.ok (scanUpdate pmax p B) : Except PyErr (α × ASig α))) s cs = .ok (s', outs) ∧
        p' = .scan s' c' :=
  un_compose (fun st b => stepOn cfg b φ st) (fun st b => stepOn cfg b (.tmp1 .once φ) st)
    (fun (p : α) B => (Except.ok (scanUpdate pmax p B) : Except PyErr (α × ASig α))) OnSt.scan
    (fun b s c p' o => stepOn_once cfg φ b s c p' o) bs s c p' outs

omit [LawfulVal α] in
theorem stream_hist (cfg : DCfg) (φ : F α) (bs : List (String → ASig α)) (s : α) (c p' : OnSt α)
    (outs : List (ASig α)) :
    streamOf cfg (.tmp1 .hist φ) (.scan s c) bs = .ok (p', outs) ↔
      ∃ c' cs s', streamOf cfg φ c bs = .ok (c', cs) ∧
        runUn (fun (p : α) B => (Except.ok (scanUpdate pmin p B) : Except PyErr (α × ASig α))) s cs = .ok (s', outs) ∧
        p' = .scan s' c' :=
  un_compose (fun st b => stepOn cfg b φ st) (fun st b => stepOn cfg b (.tmp1 .hist φ) st)
    (fun (p : α) B => (Except.ok (scanUpdate pmin p B) : Except PyErr (α × ASig α))) OnSt.scan
    (fun b s c p' o => stepOn_hist cfg φ b s c p' o) bs s c p' outs

omit [LawfulVal α] in
theorem stream_onceT (cfg : DCfg) (a b' : Nat) (φ : F α) (bs : List (String → ASig α)) (s : TimedSt α)
    (c p' : OnSt α) (outs : List (ASig α)) :
    streamOf cfg (.tb1 .once a b' φ) (.timed s c) bs = .ok (p', outs) ↔
      ∃ c' cs s', streamOf cfg φ c bs = .ok (c', cs) ∧
        runUn (timedUpdate ltW Val.ninf ((a : Rat) * cfg.scale) ((b' : Rat) * cfg.scale)) s cs = .ok (s', outs) ∧
        p' = .timed s' c' :=
  un_compose (fun st b => stepOn cfg b φ st) (fun st b => stepOn cfg b (.tb1 .once a b' φ) st)
    (timedUpdate ltW Val.ninf ((a : Rat) * cfg.scale) ((b' : Rat) * cfg.scale)) OnSt.timed
    (fun b s c p' o => stepOn_onceT cfg a b' φ b s c p' o) bs s c p' outs

omit [LawfulVal α] in
theorem stream_histT (cfg : DCfg) (a b' : Nat) (φ : F α) (bs : List (String → ASig α)) (s : TimedSt α)
    (c p' : OnSt α) (outs : List (ASig α)) :
    streamOf cfg (.tb1 .hist a b' φ) (.timed s c) bs = .ok (p', outs) ↔
      ∃ c' cs s', streamOf cfg φ c bs = .ok (c', cs) ∧
        runUn (timedUpdate gtW Val.pinf ((a : Rat) * cfg.scale) ((b' : Rat) * cfg.scale)) s cs = .ok (s', outs) ∧
        p' = .timed s' c' :=
  un_compose (fun st b => stepOn cfg b φ st) (fun st b => stepOn cfg b (.tb1 .hist a b' φ) st)
    (timedUpdate gtW Val.pinf ((a : Rat) * cfg.scale) ((b' : Rat) * cfg.scale)) OnSt.timed
    (fun b s c p' o => stepOn_histT cfg a b' φ b s c p' o) bs s c p' outs

omit [LawfulVal α] in
theorem stream_bin (cfg : DCfg) (op : Bin) (φ ψ : F α) (bs : List (String → ASig α)) (s : BinSt α)
    (l r p' : OnSt α) (outs : List (ASig α)) :
    streamOf cfg (.bin op φ ψ) (.bin s l r) bs = .ok (p', outs) ↔
      ∃ l' ls r' rs s', streamOf cfg φ l bs = .ok (l', ls) ∧ streamOf cfg ψ r bs = .ok (r', rs) ∧
        runBin (binStep op) s (ls.zip rs) = .ok (s', outs) ∧ p' = .bin s' l' r' :=
  bin_compose (fun st b => stepOn cfg b φ st) (fun st b => stepOn cfg b ψ st)
    (fun st b => stepOn cfg b (.bin op φ ψ) st) (binStep op) OnSt.bin
    (fun b s l r p' o => stepOn_bin cfg op φ ψ b s l r p' o) bs s l r p' outs

/-! ### since and bounded since -/

omit [LawfulVal α] in
theorem stepOn_since (cfg : DCfg) (op : T2) (φ ψ : F α) (b : String → ASig α) (s : SinceSt α) (l r p' : OnSt α)
    (o : ASig α) :
    stepOn cfg b (.tmp2 op φ ψ) (OnSt.since s l r) = .ok (p', o) ↔
      ∃ l' x r' y s', stepOn cfg b φ l = .ok (l', x) ∧ stepOn cfg b ψ r = .ok (r', y) ∧
        (fun (st : SinceSt α) L R => (Except.ok (sinceUpdate st L R) : Except PyErr (SinceSt α × ASig α))) s x y
          = .ok (s', o) ∧ p' = OnSt.since s' l' r' := by
  simp only [stepOn]
  constructor
  · intro h
    obtain ⟨⟨l', x⟩, e1, h⟩ := bind_ok h
    obtain ⟨⟨r', y⟩, e2, h⟩ := bind_ok h
    cases h
    exact ⟨l', x, r', y, _, e1, e2, rfl, rfl⟩
  · rintro ⟨l', x, r', y, s', e1, e2, e3, rfl⟩
    rw [bind_ok_eq e1]
    simp only []
    rw [bind_ok_eq e2]
    have e := ok_inj e3
    simp only [] at e ⊢
    rw [e]
    rfl

omit [LawfulVal α] in
theorem stream_since (cfg : DCfg) (op : T2) (φ ψ : F α) (bs : List (String → ASig α)) (s : SinceSt α)
    (l r p' : OnSt α) (outs : List (ASig α)) :
    streamOf cfg (.tmp2 op φ ψ) (.since s l r) bs = .ok (p', outs) ↔
      ∃ l' ls r' rs s', streamOf cfg φ l bs = .ok (l', ls) ∧ streamOf cfg ψ r bs = .ok (r', rs) ∧
        runBin (fun (st : SinceSt α) L R => (Except.ok (sinceUpdate st L R) : Except PyErr (SinceSt α × ASig α))) s
          (ls.zip rs) = .ok (s', outs) ∧ p' = .since s' l' r' :=
  bin_compose (fun st b => stepOn cfg b φ st) (fun st b => stepOn cfg b ψ st)
    (fun st b => stepOn cfg b (.tmp2 op φ ψ) st)
    (fun (st : SinceSt α) L R => (Except.ok (sinceUpdate st L R) : Except PyErr (SinceSt α × ASig α))) OnSt.since
    (fun b s l r p' o => stepOn_since cfg op φ ψ b s l r p' o) bs s l r p' outs

/-- The four operation objects of a bounded since node (`once[a,b]` on the right operand, the unbounded since,
    `historically[0,a]` on its output, `and` of the two) as one operation with two operands. -/
def sinceTStep (a' b' : Rat) (st : TimedSt α × SinceSt α × TimedSt α × BinSt α) (sl sr : ASig α) :
    Except PyErr ((TimedSt α × SinceSt α × TimedSt α × BinSt α) × ASig α) := do
  let (o', out1) ← timedUpdate ltW Val.ninf a' b' st.1 sr
  let (h', out3) ← timedUpdate gtW Val.pinf 0 a' st.2.2.1 (sinceUpdate st.2.1 sl sr).2
  let (an', out) ← binUpdate (fun x y => pmin x y) st.2.2.2 out1 out3
  pure ((o', (sinceUpdate st.2.1 sl sr).1, h', an'), out)

/-- The state of a bounded since node from the states of its four operations and of its children. -/
def wrapT (st : TimedSt α × SinceSt α × TimedSt α × BinSt α) (l r : OnSt α) : OnSt α :=
  .sinceT st.1 st.2.1 st.2.2.1 st.2.2.2 l r

omit [LawfulVal α] in
theorem sinceTStep_ok (a' b' : Rat) (o : TimedSt α) (s : SinceSt α) (h : TimedSt α) (an : BinSt α) (sl sr : ASig α)
    (st' : TimedSt α × SinceSt α × TimedSt α × BinSt α) (out : ASig α) :
    sinceTStep a' b' (o, s, h, an) sl sr = .ok (st', out) ↔
      ∃ o' out1 h' out3 an', timedUpdate ltW Val.ninf a' b' o sr = .ok (o', out1) ∧
        timedUpdate gtW Val.pinf 0 a' h (sinceUpdate s sl sr).2 = .ok (h', out3) ∧
        binUpdate (fun x y => pmin x y) an out1 out3 = .ok (an', out) ∧
        st' = (o', (sinceUpdate s sl sr).1, h', an') := by
  simp only [sinceTStep]
  constructor
  · intro k
    obtain ⟨⟨o', out1⟩, e1, k⟩ := bind_ok k
    obtain ⟨⟨h', out3⟩, e2, k⟩ := bind_ok k
    obtain ⟨⟨an', out'⟩, e3, k⟩ := bind_ok k
    cases k
    exact ⟨o', out1, h', out3, an', e1, e2, e3, rfl⟩
  · rintro ⟨o', out1, h', out3, an', e1, e2, e3, rfl⟩
    rw [bind_ok_eq e1]
    simp only []
    rw [bind_ok_eq e2]
    simp only []
    rw [bind_ok_eq e3]
    rfl

omit [LawfulVal α] in
theorem stepOn_sinceT (cfg : DCfg) (op : TB2) (a b' : Nat) (φ ψ : F α) (b : String → ASig α)
    (s : TimedSt α × SinceSt α × TimedSt α × BinSt α) (l r p' : OnSt α) (o : ASig α) :
    stepOn cfg b (.tb2 op a b' φ ψ) (wrapT s l r) = .ok (p', o) ↔
      ∃ l' x r' y s', stepOn cfg b φ l = .ok (l', x) ∧ stepOn cfg b ψ r = .ok (r', y) ∧
        sinceTStep ((a : Rat) * cfg.scale) ((b' : Rat) * cfg.scale) s x y = .ok (s', o) ∧ p' = wrapT s' l' r' := by
  obtain ⟨o0, s0, h0, an0⟩ := s
  simp only [wrapT, stepOn]
  constructor
  · intro k
    obtain ⟨⟨l', x⟩, e1, k⟩ := bind_ok k
    obtain ⟨⟨r', y⟩, e2, k⟩ := bind_ok k
    obtain ⟨⟨o', out1⟩, e3, k⟩ := bind_ok k
    obtain ⟨⟨h', out3⟩, e4, k⟩ := bind_ok k
    obtain ⟨⟨an', out'⟩, e5, k⟩ := bind_ok k
    cases k
    exact ⟨l', x, r', y, _, e1, e2,
      (sinceTStep_ok _ _ o0 s0 h0 an0 x y _ _).2 ⟨o', out1, h', out3, an', e3, e4, e5, rfl⟩, rfl⟩
  · rintro ⟨l', x, r', y, s', e1, e2, e0, rfl⟩
    obtain ⟨o', out1, h', out3, an', e3, e4, e5, rfl⟩ := (sinceTStep_ok _ _ o0 s0 h0 an0 x y _ _).1 e0
    rw [bind_ok_eq e1]
    simp only []
    rw [bind_ok_eq e2]
    simp only []
    rw [bind_ok_eq e3]
    simp only []
    rw [bind_ok_eq e4]
    simp only []
    rw [bind_ok_eq e5]
    rfl

omit [LawfulVal α] in
theorem stream_sinceT (cfg : DCfg) (op : TB2) (a b' : Nat) (φ ψ : F α) (bs : List (String → ASig α))
    (s : TimedSt α × SinceSt α × TimedSt α × BinSt α) (l r p' : OnSt α) (outs : List (ASig α)) :
    streamOf cfg (.tb2 op a b' φ ψ) (wrapT s l r) bs = .ok (p', outs) ↔
      ∃ l' ls r' rs s', streamOf cfg φ l bs = .ok (l', ls) ∧ streamOf cfg ψ r bs = .ok (r', rs) ∧
        runBin (sinceTStep ((a : Rat) * cfg.scale) ((b' : Rat) * cfg.scale)) s (ls.zip rs) = .ok (s', outs) ∧
        p' = wrapT s' l' r' :=
  bin_compose (fun st b => stepOn cfg b φ st) (fun st b => stepOn cfg b ψ st)
    (fun st b => stepOn cfg b (.tb2 op a b' φ ψ) st)
    (sinceTStep ((a : Rat) * cfg.scale) ((b' : Rat) * cfg.scale)) wrapT
    (fun b s l r p' o => stepOn_sinceT cfg op a b' φ ψ b s l r p' o) bs s l r p' outs

omit [LawfulVal α] in
/-- The stream of a bounded since node: `and` run over (`once[a,b]` run over the right operand's stream) and
    (`historically[0,a]` run over (since run over both operands' streams)). -/
theorem runBin_sinceT (a' b' : Rat) : ∀ (zs : List (ASig α × ASig α)) (o : TimedSt α) (s : SinceSt α) (h : TimedSt α)
    (an : BinSt α) (st' : TimedSt α × SinceSt α × TimedSt α × BinSt α) (outs : List (ASig α)),
    runBin (sinceTStep a' b') (o, s, h, an) zs = .ok (st', outs) ↔
      ∃ o' o1s s' o2s h' o3s an', runUn (timedUpdate ltW Val.ninf a' b') o (zs.map Prod.snd) = .ok (o', o1s) ∧
        runBin (fun (st : SinceSt α) L R => (Except.ok (sinceUpdate st L R) : Except PyErr (SinceSt α × ASig α))) s zs
          = .ok (s', o2s) ∧
        runUn (timedUpdate gtW Val.pinf 0 a') h o2s = .ok (h', o3s) ∧
        runBin (binUpdate (fun x y => pmin x y)) an (o1s.zip o3s) = .ok (an', outs) ∧
        st' = (o', s', h', an') := by
  intro zs
  induction zs with
  | nil =>
    intro o s h an st' outs
    simp only [runBin_eq_runG, runUn_eq_runG, List.map_nil, runG_nil_ok]
    constructor
    · rintro ⟨rfl, rfl⟩
      exact ⟨o, [], s, [], h, [], an, ⟨rfl, rfl⟩, ⟨rfl, rfl⟩, (runG_nil_ok _ _ _ _).2 ⟨rfl, rfl⟩,
        (runG_nil_ok _ _ _ _).2 ⟨rfl, rfl⟩, rfl⟩
    · rintro ⟨o', o1s, s', o2s, h', o3s, an', ⟨rfl, rfl⟩, ⟨rfl, rfl⟩, e3, e4, rfl⟩
      obtain ⟨rfl, rfl⟩ := (runG_nil_ok _ _ _ _).1 e3
      obtain ⟨rfl, rfl⟩ := (runG_nil_ok _ _ _ _).1 e4
      exact ⟨rfl, rfl⟩
  | cons z rest ih =>
    intro o s h an st' outs
    obtain ⟨L, R⟩ := z
    simp only [runBin_eq_runG, runUn_eq_runG] at ih ⊢
    simp only [List.map_cons, runG_cons_ok]
    constructor
    · rintro ⟨st1, out, os, e1, e2, rfl⟩
      obtain ⟨o1, out1, h1, out3, an1, k1, k2, k3, rfl⟩ := (sinceTStep_ok a' b' o s h an L R st1 out).1 e1
      obtain ⟨o', o1s, s', o2s, h', o3s, an', j1, j2, j3, j4, rfl⟩ := (ih _ _ _ _ st' os).1 e2
      refine ⟨o', out1 :: o1s, s', (sinceUpdate s L R).2 :: o2s, h', out3 :: o3s, an',
        ⟨o1, out1, o1s, k1, j1, rfl⟩, ⟨(sinceUpdate s L R).1, _, o2s, rfl, j2, rfl⟩, ?_, ?_, rfl⟩
      · exact (runG_cons_ok _ _ _ _ _ _).2 ⟨h1, out3, o3s, k2, j3, rfl⟩
      · rw [List.zip_cons_cons]
        exact (runG_cons_ok _ _ _ _ _ _).2 ⟨an1, out, os, k3, j4, rfl⟩
    · rintro ⟨o', o1s, s', o2s, h', o3s, an', ⟨o1, out1, o1s', k1, j1, rfl⟩, ⟨s1, out2, o2s', k2, j2, rfl⟩, e3, e4, rfl⟩
      obtain ⟨h1, out3, o3s', k3, j3, rfl⟩ := (runG_cons_ok _ _ _ _ _ _).1 e3
      rw [List.zip_cons_cons] at e4
      obtain ⟨an1, out, os, k4, j4, rfl⟩ := (runG_cons_ok _ _ _ _ _ _).1 e4
      have k2' := ok_inj k2
      have hs1 : s1 = (sinceUpdate s L R).1 := by rw [k2']
      have ho2 : out2 = (sinceUpdate s L R).2 := by rw [k2']
      subst hs1 ho2
      exact ⟨_, out, os, (sinceTStep_ok a' b' o s h an L R _ out).2 ⟨o1, out1, h1, out3, an1, k1, k3, k4, rfl⟩,
        (ih _ _ _ _ _ os).2 ⟨o', o1s', s', o2s', h', o3s', an', j1, j2, j3, j4, rfl⟩, rfl⟩

omit [LawfulVal α] in
theorem stream_length (cfg : DCfg) (φ : F α) {bs : List (String → ASig α)} {st st' : OnSt α}
    {outs : List (ASig α)} (h : streamOf cfg φ st bs = .ok (st', outs)) : outs.length = bs.length :=
  runG_length _ bs st st' outs h

omit [Val α] [LawfulVal α] in
theorem runUn_length {σ : Type} (step : σ → ASig α → Except PyErr (σ × ASig α)) {st st2 : σ} {Bs outs : List (ASig α)}
    (h : runUn step st Bs = .ok (st2, outs)) : outs.length = Bs.length := by
  rw [runUn_eq_runG] at h
  exact runG_length _ _ _ _ _ h

omit [Val α] [LawfulVal α] in
theorem runBin_length {σ : Type} (step : σ → ASig α → ASig α → Except PyErr (σ × ASig α)) {st st2 : σ}
    {Zs : List (ASig α × ASig α)} {outs : List (ASig α)}
    (h : runBin step st Zs = .ok (st2, outs)) : outs.length = Zs.length := by
  rw [runBin_eq_runG] at h
  exact runG_length _ _ _ _ _ h

omit [LawfulVal α] in
theorem binStep_nonpred (op : Bin) (hop : ∀ c, op ≠ .pred c) (hm : op ≠ .mul)
    (hia : (∀ c, op ≠ .predSat c) ∧ op ≠ .predZero) :
    (binStep op : BinSt α → _) = binUpdate op.app := by
  funext st sl sr
  cases op <;> first | rfl | exact absurd rfl (hop _) | exact absurd rfl hm | exact absurd rfl (hia.1 _) |
    exact absurd rfl hia.2

omit [LawfulVal α] in
/-- The multiplication node: `last_output` is cleared at every update. -/
theorem binStep_mul : (binStep Bin.mul : BinSt α → _) = binUpdateNL (Bin.mul).app := by
  funext st sl sr
  rfl

omit [LawfulVal α] in
/-- The predicate node: the subtraction run, then the comparison on every sample of every batch. -/
theorem runBin_pred (c : Cmp) : ∀ (zs : List (ASig α × ASig α)) (s s' : BinSt α) (outs : List (ASig α)),
    runBin (binStep (.pred c)) s zs = .ok (s', outs) ↔
      ∃ outs2, runBin (binUpdate (fun a b => Val.sub a b)) s zs = .ok (s', outs2) ∧
        outs = outs2.map (List.map (fun p => (p.1, cmpOfDiff c p.2))) := by
  intro zs
  induction zs with
  | nil =>
    intro s s' outs
    simp only [runBin_eq_runG, runG_nil_ok]
    constructor
    · rintro ⟨rfl, rfl⟩; exact ⟨[], ⟨rfl, rfl⟩, rfl⟩
    · rintro ⟨_, ⟨rfl, rfl⟩, rfl⟩; exact ⟨rfl, rfl⟩
  | cons z rest ih =>
    intro s s' outs
    simp only [runBin_eq_runG] at ih ⊢
    simp only [runG_cons_ok]
    constructor
    · rintro ⟨s1, o, os, e1, e2, rfl⟩
      obtain ⟨os2, k1, rfl⟩ := (ih s1 s' os).1 e2
      simp only [binStep] at e1
      obtain ⟨⟨s1', d⟩, j1, j2⟩ := bind_ok e1
      cases j2
      exact ⟨d :: os2, ⟨s1', d, os2, j1, k1, rfl⟩, rfl⟩
    · rintro ⟨_, ⟨s1, d, os2, j1, k1, rfl⟩, rfl⟩
      refine ⟨s1, _, _, ?_, (ih s1 s' _).2 ⟨os2, k1, rfl⟩, rfl⟩
      simp only [binStep]
      rw [bind_ok_eq j1]; rfl

omit [LawfulVal α] in
/-- The interface-aware predicate node: the subtraction run, then the output loop `iaOut` on every batch. -/
theorem runBin_predSat (c : Cmp) : ∀ (zs : List (ASig α × ASig α)) (s s' : BinSt α) (outs : List (ASig α)),
    runBin (binStep (.predSat c)) s zs = .ok (s', outs) ↔
      ∃ outs2, runBin (binUpdate (fun a b => Val.sub a b)) s zs = .ok (s', outs2) ∧
        outs = outs2.map (iaOut c) := by
  intro zs
  induction zs with
  | nil =>
    intro s s' outs
    simp only [runBin_eq_runG, runG_nil_ok]
    constructor
    · rintro ⟨rfl, rfl⟩; exact ⟨[], ⟨rfl, rfl⟩, rfl⟩
    · rintro ⟨_, ⟨rfl, rfl⟩, rfl⟩; exact ⟨rfl, rfl⟩
  | cons z rest ih =>
    intro s s' outs
    simp only [runBin_eq_runG] at ih ⊢
    simp only [runG_cons_ok]
    constructor
    · rintro ⟨s1, o, os, e1, e2, rfl⟩
      obtain ⟨os2, k1, rfl⟩ := (ih s1 s' os).1 e2
      simp only [binStep] at e1
      obtain ⟨⟨s1', d⟩, j1, j2⟩ := bind_ok e1
      cases j2
      exact ⟨d :: os2, ⟨s1', d, os2, j1, k1, rfl⟩, rfl⟩
    · rintro ⟨_, ⟨s1, d, os2, j1, k1, rfl⟩, rfl⟩
      refine ⟨s1, _, _, ?_, (ih s1 s' _).2 ⟨os2, k1, rfl⟩, rfl⟩
      simp only [binStep]
      rw [bind_ok_eq j1]; rfl

/-! ### mapping a function over the values of a stream -/

omit [Val α] [LawfulVal α] in
theorem valAtA_map (h : α → α) (s : ASig α) (t : Rat) :
    valAtA (s.map (fun p => (p.1, h p.2))) t = (valAtA s t).map h := by
  induction s with
  | nil => rfl
  | cons p rest ih =>
    obtain ⟨τ, v⟩ := p
    simp only [List.map_cons, valAtA, ih]
    by_cases k : Tm.lt (Tm.fin t) τ = true
    · simp only [if_pos k, Option.map_none]
    · simp only [if_neg k]
      cases valAtA rest t <;> rfl

omit [Val α] [LawfulVal α] in
theorem shape_map (h : α → α) {Bs : List (ASig α)} {d : Rat} (hS : Shape Bs d) :
    Shape (Bs.map (List.map (fun p => (p.1, h p.2)))) d := by
  have hfl : (Bs.map (List.map (fun p : Tm × α => (p.1, h p.2)))).flatten =
      Bs.flatten.map (fun p => (p.1, h p.2)) := by
    rw [List.map_flatten]
  refine ⟨?_, ?_, ?_, ?_⟩
  · intro B' hB'
    obtain ⟨B, hB, rfl⟩ := List.mem_map.1 hB'
    have := hS.batch_sorted B hB
    unfold Sorted times at this ⊢
    rw [List.map_map]
    exact this
  · intro B' hB' p hp
    obtain ⟨B, hB, rfl⟩ := List.mem_map.1 hB'
    obtain ⟨q, hq, rfl⟩ := List.mem_map.1 hp
    exact hS.finite B hB q hq
  · rw [hfl, List.pairwise_map]
    refine hS.weak.imp ?_
    rintro p q (hpq | rfl)
    · exact Or.inl hpq
    · exact Or.inr rfl
  · intro p hp
    rw [hfl, List.head?_map] at hp
    cases hh : Bs.flatten.head? with
    | none => rw [hh] at hp; cases hp
    | some q =>
      rw [hh] at hp
      cases hp
      exact hS.start q hh

omit [Val α] [LawfulVal α] in
theorem covered_of_map (h : α → α) {Bs : List (ASig α)} {d t : Rat}
    (hc : Covered (Bs.map (List.map (fun p => (p.1, h p.2)))) d t) : Covered Bs d t := by
  obtain ⟨τ, p, hl, hp, h1, h2⟩ := hc
  rw [← List.map_flatten, List.getLast?_map] at hl
  cases hh : Bs.flatten.getLast? with
  | none => rw [hh] at hl; cases hl
  | some q =>
    rw [hh] at hl
    cases hl
    exact ⟨τ, q, hh, hp, h1, h2⟩

omit [Val α] [LawfulVal α] in
theorem streamOK_map (h : α → α) {Bs : List (ASig α)} {d : Rat} {g : Rat → Option α} (hS : StreamOK Bs d g) :
    StreamOK (Bs.map (List.map (fun p => (p.1, h p.2)))) d (fun t => (g t).map h) := by
  refine ⟨shape_map h hS.1, fun t ht => ?_⟩
  rw [← List.map_flatten, valAtA_map, hS.2 t (covered_of_map h ht)]

omit [Val α] [LawfulVal α] in
theorem shape_streamOK {Bs : List (ASig α)} {d : Rat} (hS : Shape Bs d) :
    StreamOK Bs d (valAtA Bs.flatten) := ⟨hS, fun _ _ => rfl⟩

/-! ### the fragment -/

omit [Val α] [LawfulVal α] in
/-- `onFrag` is the general fragment without the interface-aware predicate. -/
theorem onFrag_eq : ∀ (φ : F α), onFrag φ = onFragG false φ := by
  intro φ
  induction φ with
  | var x => rfl
  | const c => rfl
  | un op φ ih => simp only [onFrag, onFragG, ih]
  | bin op φ ψ ih1 ih2 => cases op <;> simp only [onFrag, onFragG, ih1, ih2]
  | tmp1 op φ ih => simp only [onFrag, onFragG, ih]
  | tmp2 op φ ψ ih1 ih2 => simp only [onFrag, onFragG, ih1, ih2]
  | tb1 op a b φ ih => simp only [onFrag, onFragG, ih]
  | tb2 op a b φ ψ ih1 ih2 => simp only [onFrag, onFragG, ih1, ih2]

omit [Val α] [LawfulVal α] in
/-- `onFragIA` is the general fragment with the interface-aware predicate. -/
theorem onFragIA_eq : ∀ (φ : F α), onFragIA φ = onFragG true φ := by
  intro φ
  induction φ with
  | var x => rfl
  | const c => rfl
  | un op φ ih => simp only [onFragIA, onFragG, ih]
  | bin op φ ψ ih1 ih2 => cases op <;> simp only [onFragIA, onFragG, ih1, ih2]
  | tmp1 op φ ih => simp only [onFragIA, onFragG, ih]
  | tmp2 op φ ψ ih1 ih2 => simp only [onFragIA, onFragG, ih1, ih2]
  | tb1 op a b φ ih => simp only [onFragIA, onFragG, ih]
  | tb2 op a b φ ψ ih1 ih2 => simp only [onFragIA, onFragG, ih1, ih2]

omit [Val α] [LawfulVal α] in
theorem onFragG_supported (ia : Bool) : ∀ (φ : F α), onFragG ia φ = true → supported φ = true := by
  intro φ
  induction φ with
  | var x => intro _; rfl
  | const c => intro h; simp [onFragG] at h
  | un op φ ih => intro h; simp only [onFragG] at h; simp only [supported]; exact ih h
  | bin op φ ψ ih1 ih2 =>
    intro h
    simp only [onFragG, Bool.and_eq_true, Bool.or_eq_true] at h
    simp only [supported, Bool.and_eq_true]
    have hc : ∀ χ : F α, isConst χ = true → supported χ = true := by
      intro χ hχ; cases χ <;> first | rfl | simp [isConst] at hχ
    rcases h.2 with (⟨a, b⟩ | ⟨a, b⟩) | ⟨a, b⟩
    · exact ⟨ih1 a, ih2 b⟩
    · exact ⟨hc _ a, ih2 b⟩
    · exact ⟨ih1 a, hc _ b⟩
  | tmp1 op φ ih =>
    intro h
    simp only [onFragG, Bool.and_eq_true] at h
    simp only [supported, Bool.and_eq_true]
    refine ⟨?_, ih h.2⟩
    have := h.1
    cases op <;> simp at this ⊢
  | tmp2 op φ ψ ih1 ih2 =>
    intro h
    simp only [onFragG, Bool.and_eq_true] at h
    simp only [supported, Bool.and_eq_true]
    exact ⟨ih1 h.1.2, ih2 h.2⟩
  | tb1 op a b φ ih =>
    intro h
    simp only [onFragG, Bool.and_eq_true] at h
    simp only [supported, Bool.and_eq_true]
    exact ⟨h.1.2, ih h.2⟩
  | tb2 op a b φ ψ ih1 ih2 =>
    intro h
    simp only [onFragG, Bool.and_eq_true] at h
    simp only [supported, Bool.and_eq_true]
    refine ⟨⟨⟨?_, h.1.1.2⟩, ih1 h.1.2⟩, ih2 h.2⟩
    have := h.1.1.1
    cases op <;> simp at this ⊢

omit [Val α] [LawfulVal α] in
theorem onFrag_supported (φ : F α) (h : onFrag φ = true) : supported φ = true :=
  onFragG_supported false φ (by rw [← onFrag_eq]; exact h)

omit [Val α] [LawfulVal α] in
theorem isConst_eq {φ : F α} (h : isConst φ = true) : ∃ c, φ = .const c := by
  cases φ <;> first | exact ⟨_, rfl⟩ | simp [isConst] at h

omit [Val α] [LawfulVal α] in
theorem validChunks_left {w : DEnv α} {xs ys : List String} {bs : List (String → ASig α)}
    (h : ValidChunks w (xs ++ ys) bs) : ValidChunks w xs bs :=
  fun x hx => h x (List.mem_append_left _ hx)

omit [Val α] [LawfulVal α] in
theorem validChunks_right {w : DEnv α} {xs ys : List String} {bs : List (String → ASig α)}
    (h : ValidChunks w (xs ++ ys) bs) : ValidChunks w ys bs :=
  fun x hx => h x (List.mem_append_right _ hx)

omit [LawfulVal α] in
theorem initOn_bin (op : Bin) (hop : op ≠ .predZero)
    (φ ψ : F α) (st0 : OnSt α) :
    initOn (.bin op φ ψ) = .ok st0 ↔ ∃ l0 r0, initOn φ = .ok l0 ∧ initOn ψ = .ok r0 ∧ st0 = .bin {} l0 r0 := by
  constructor
  · intro h
    cases op <;> first | exact absurd rfl hop | skip
    all_goals
      simp only [initOn] at h
      obtain ⟨l0, e1, h⟩ := bind_ok h
      obtain ⟨r0, e2, h⟩ := bind_ok h
      cases h
      exact ⟨l0, r0, e1, e2, rfl⟩
  · rintro ⟨l0, r0, e1, e2, rfl⟩
    cases op <;> first | exact absurd rfl hop | skip
    all_goals
      simp only [initOn]
      rw [bind_ok_eq e1, bind_ok_eq e2]
      rfl

/-! ### the node classes -/

omit [Val α] [LawfulVal α] in
theorem lift2_const_left (f : α → α → α) (c : α) (g2 : Rat → Option α) :
    (fun t => (g2 t).map (fun b => f c b)) = lift2 f (fun _ => some c) g2 := by
  funext t; simp only [lift2]; cases g2 t <;> rfl

omit [Val α] [LawfulVal α] in
theorem lift2_const_right (f : α → α → α) (c : α) (g1 : Rat → Option α) :
    (fun t => (g1 t).map (fun a => f a c)) = lift2 f g1 (fun _ => some c) := by
  funext t; simp only [lift2]; cases g1 t <;> rfl

/-- The three operand configurations of a binary node of the fragment. -/
theorem bin_core (f : α → α → α) {n : Nat} {ls rs : List (ASig α)} {g1 g2 : Rat → Option α}
    (hl : ls.length = n) (hr : rs.length = n)
    (h : (StreamOK ls 0 g1 ∧ StreamOK rs 0 g2) ∨
      ((∃ c, ls = constStream c n ∧ g1 = fun _ => some c) ∧ StreamOK rs 0 g2) ∨
      (StreamOK ls 0 g1 ∧ ∃ c, rs = constStream c n ∧ g2 = fun _ => some c)) :
    ∃ st outs, runBin (binUpdate f) {} (ls.zip rs) = .ok (st, outs) ∧ StreamOK outs 0 (lift2 f g1 g2) := by
  rcases h with ⟨h1, h2⟩ | ⟨⟨c, rfl, rfl⟩, h2⟩ | ⟨h1, ⟨c, rfl, rfl⟩⟩
  · exact binStream_ok f (hl.trans hr.symm) h1 h2
  · rw [← hr, ← lift2_const_left]
    exact binStream_const_left f c h2
  · rw [← hl, ← lift2_const_right]
    exact binStream_const_right f c h1

/-- … and of a multiplication node (`binUpdateNL`). -/
theorem bin_coreNL (f : α → α → α) {n : Nat} {ls rs : List (ASig α)} {g1 g2 : Rat → Option α}
    (hl : ls.length = n) (hr : rs.length = n)
    (h : (StreamOK ls 0 g1 ∧ StreamOK rs 0 g2) ∨
      ((∃ c, ls = constStream c n ∧ g1 = fun _ => some c) ∧ StreamOK rs 0 g2) ∨
      (StreamOK ls 0 g1 ∧ ∃ c, rs = constStream c n ∧ g2 = fun _ => some c)) :
    ∃ st outs, runBin (binUpdateNL f) {} (ls.zip rs) = .ok (st, outs) ∧ StreamOK outs 0 (lift2 f g1 g2) := by
  rcases h with ⟨h1, h2⟩ | ⟨⟨c, rfl, rfl⟩, h2⟩ | ⟨h1, ⟨c, rfl, rfl⟩⟩
  · exact binStreamNL_ok f (hl.trans hr.symm) h1 h2
  · rw [← hr, ← lift2_const_left]
    exact binStreamNL_const_left f c h2
  · rw [← hl, ← lift2_const_right]
    exact binStreamNL_const_right f c h1

omit [LawfulVal α] in
theorem lift2_pred (hsub : ∀ a b : α, Val.neg (Val.sub a b) = Val.sub b a) (c : Cmp) (g1 g2 : Rat → Option α) :
    (fun t => (lift2 (fun a b => Val.sub a b) g1 g2 t).map (cmpOfDiff c)) = lift2 (Bin.pred c).app g1 g2 := by
  funext t
  simp only [lift2]
  cases g1 t <;> cases g2 t <;> simp only [Option.map_none, Option.map_some, cmpOfDiff_sub hsub]

omit [LawfulVal α] in
theorem lift2_predSat (hcmp : ∀ (c : Cmp) (a b : α), satOfDiff c (Val.sub a b) = c.holds a b) (c : Cmp)
    (g1 g2 : Rat → Option α) :
    (fun t => (lift2 (fun a b => Val.sub a b) g1 g2 t).map
        (fun d => if satOfDiff c d then (Val.pinf : α) else Val.ninf)) = lift2 (Bin.predSat c).app g1 g2 := by
  funext t
  simp only [lift2]
  cases g1 t <;> cases g2 t <;> simp only [Option.map_none, Option.map_some, Bin.app, hcmp]

section nodes
variable (cfg : DCfg) (hs : 0 ≤ cfg.scale) (w : DEnv α)

/-- A binary node of the fragment: the run of its operation over the operand streams. -/
theorem bin_node (hsub : ∀ a b : α, Val.neg (Val.sub a b) = Val.sub b a) (op : Bin) (hz : op ≠ .predZero)
    (hia : (∀ c, op ≠ .predSat c) ∨
      ((∀ (c : Cmp) (d d' : α), cmpOfDiff c d = cmpOfDiff c d' → satOfDiff c d = satOfDiff c d') ∧
        (∀ (c : Cmp) (a b : α), satOfDiff c (Val.sub a b) = c.holds a b)))
    (φ ψ : F α) {n : Nat}
    {ls rs : List (ASig α)} (hl : ls.length = n) (hr : rs.length = n)
    (h : (StreamOK ls 0 (rhoD cfg w φ) ∧ StreamOK rs 0 (rhoD cfg w ψ)) ∨
      ((∃ c, ls = constStream c n ∧ rhoD cfg w φ = fun _ => some c) ∧ StreamOK rs 0 (rhoD cfg w ψ)) ∨
      (StreamOK ls 0 (rhoD cfg w φ) ∧ ∃ c, rs = constStream c n ∧ rhoD cfg w ψ = fun _ => some c)) :
    ∃ st outs, runBin (binStep op) {} (ls.zip rs) = .ok (st, outs) ∧
      StreamOK outs 0 (rhoD cfg w (.bin op φ ψ)) := by
  by_cases hp : ∃ c, op = .pred c
  · obtain ⟨c, rfl⟩ := hp
    obtain ⟨st, outs2, e, hD⟩ := bin_core (fun a b => Val.sub a b) hl hr h
    refine ⟨st, _, (runBin_pred c _ _ _ _).2 ⟨outs2, e, rfl⟩, ?_⟩
    have := streamOK_map (cmpOfDiff c) hD
    rw [lift2_pred hsub, lift2_bin] at this
    exact this
  · have hop : ∀ c, op ≠ .pred c := fun c h => hp ⟨c, h⟩
    by_cases hm : op = .mul
    · subst hm
      obtain ⟨st, outs, e, hD⟩ := bin_coreNL (Bin.mul).app hl hr h
      rw [lift2_bin] at hD
      rw [binStep_mul]
      exact ⟨st, outs, e, hD⟩
    · by_cases hps : ∃ c, op = .predSat c
      · -- the interface-aware predicate: the subtraction, then the output loop on every batch
        obtain ⟨c, rfl⟩ := hps
        obtain ⟨hkey, hcmp⟩ := hia.resolve_left (fun k => k c rfl)
        obtain ⟨st, outs2, e, hD⟩ := bin_core (fun a b => Val.sub a b) hl hr h
        refine ⟨st, _, (runBin_predSat c _ _ _ _).2 ⟨outs2, e, rfl⟩, ?_⟩
        have := iaStream_ok c (hkey c) hD
        rw [lift2_predSat hcmp, lift2_bin] at this
        exact this
      · obtain ⟨st, outs, e, hD⟩ := bin_core op.app hl hr h
        rw [lift2_bin] at hD
        rw [binStep_nonpred op hop hm ⟨fun c k => hps ⟨c, k⟩, hz⟩]
        exact ⟨st, outs, e, hD⟩

/-- … its shape and the absence of exceptions need nothing about the values. -/
theorem bin_node_shape (op : Bin) (hz : op ≠ .predZero) {n : Nat} {ls rs : List (ASig α)}
    (hl : ls.length = n) (hr : rs.length = n)
    (h : (Shape ls 0 ∧ Shape rs 0) ∨ ((∃ c, ls = constStream c n) ∧ Shape rs 0) ∨
      (Shape ls 0 ∧ ∃ c, rs = constStream c n)) :
    ∃ st outs, runBin (binStep op) {} (ls.zip rs) = .ok (st, outs) ∧ Shape outs 0 := by
  have h' : ∃ g1 g2, (StreamOK ls 0 g1 ∧ StreamOK rs 0 g2) ∨
      ((∃ c, ls = constStream c n ∧ g1 = fun _ => some c) ∧ StreamOK rs 0 g2) ∨
      (StreamOK ls 0 g1 ∧ ∃ c, rs = constStream c n ∧ g2 = fun _ => some c) := by
    rcases h with ⟨h1, h2⟩ | ⟨⟨c, hc⟩, h2⟩ | ⟨h1, ⟨c, hc⟩⟩
    · exact ⟨_, _, Or.inl ⟨shape_streamOK h1, shape_streamOK h2⟩⟩
    · exact ⟨_, _, Or.inr (Or.inl ⟨⟨c, hc, rfl⟩, shape_streamOK h2⟩)⟩
    · exact ⟨_, _, Or.inr (Or.inr ⟨shape_streamOK h1, ⟨c, hc, rfl⟩⟩)⟩
  obtain ⟨g1, g2, h'⟩ := h'
  by_cases hp : ∃ c, op = .pred c
  · obtain ⟨c, rfl⟩ := hp
    obtain ⟨st, outs2, e, hD⟩ := bin_core (fun a b => Val.sub a b) hl hr h'
    exact ⟨st, _, (runBin_pred c _ _ _ _).2 ⟨outs2, e, rfl⟩, shape_map (cmpOfDiff c) hD.1⟩
  · have hop : ∀ c, op ≠ .pred c := fun c h => hp ⟨c, h⟩
    by_cases hm : op = .mul
    · subst hm
      obtain ⟨st, outs, e, hD⟩ := bin_coreNL (Bin.mul).app hl hr h'
      rw [binStep_mul]
      exact ⟨st, outs, e, hD.1⟩
    · by_cases hps : ∃ c, op = .predSat c
      · obtain ⟨c, rfl⟩ := hps
        obtain ⟨st, outs2, e, hD⟩ := bin_core (fun a b => Val.sub a b) hl hr h'
        exact ⟨st, _, (runBin_predSat c _ _ _ _).2 ⟨outs2, e, rfl⟩, iaStream_shape c hD.1⟩
      · obtain ⟨st, outs, e, hD⟩ := bin_core op.app hl hr h'
        rw [binStep_nonpred op hop hm ⟨fun c k => hps ⟨c, k⟩, hz⟩]
        exact ⟨st, outs, e, hD.1⟩

include hs in
theorem once_node (φ : F α) (hsup : supported φ = true) (hw : w.WF φ.vars) (hd : dom w φ = 0)
    {cs : List (ASig α)} (h1 : StreamOK cs 0 (rhoD cfg w φ)) :
    ∃ st outs, runUn (fun (p : α) B => (Except.ok (scanUpdate pmax p B) : Except PyErr (α × ASig α))) Val.ninf cs
        = .ok (st, outs) ∧ StreamOK outs 0 (rhoD cfg w (.tmp1 .once φ)) := by
  obtain ⟨st, outs, e, hS, hv⟩ := scanStream_max h1
  refine ⟨st, outs, e, hS, fun t ht => ?_⟩
  obtain ⟨v, e1, l1⟩ := hv t ht
  have h0t : (0 : Rat) ≤ t := by obtain ⟨_, _, _, _, k, _⟩ := ht; exact k
  have C := C04_unbounded cfg hs w φ hsup hw t (by rw [hd]; exact h0t)
  rw [hd] at C
  obtain ⟨⟨v', e2, l2⟩, _⟩ := C
  exact opt_lub_eq' e1 l1 e2 l2

include hs in
theorem hist_node (φ : F α) (hsup : supported φ = true) (hw : w.WF φ.vars) (hd : dom w φ = 0)
    {cs : List (ASig α)} (h1 : StreamOK cs 0 (rhoD cfg w φ)) :
    ∃ st outs, runUn (fun (p : α) B => (Except.ok (scanUpdate pmin p B) : Except PyErr (α × ASig α))) Val.pinf cs
        = .ok (st, outs) ∧ StreamOK outs 0 (rhoD cfg w (.tmp1 .hist φ)) := by
  obtain ⟨st, outs, e, hS, hv⟩ := scanStream_min h1
  refine ⟨st, outs, e, hS, fun t ht => ?_⟩
  obtain ⟨v, e1, l1⟩ := hv t ht
  have h0t : (0 : Rat) ≤ t := by obtain ⟨_, _, _, _, k, _⟩ := ht; exact k
  have C := C04_unbounded cfg hs w φ hsup hw t (by rw [hd]; exact h0t)
  rw [hd] at C
  obtain ⟨_, ⟨v', e2, l2⟩, _⟩ := C
  exact opt_glb_eq' e1 l1 e2 l2

include hs in
theorem onceT_node (a b : Nat) (hab : a ≤ b) (φ : F α) (hsup : supported φ = true) (hw : w.WF φ.vars)
    (hd : dom w φ = 0) {cs : List (ASig α)} (h1 : StreamOK cs 0 (rhoD cfg w φ)) :
    ∃ st outs, runUn (timedUpdate ltW Val.ninf ((a : Rat) * cfg.scale) ((b : Rat) * cfg.scale)) {} cs
        = .ok (st, outs) ∧ StreamOK outs 0 (rhoD cfg w (.tb1 .once a b φ)) := by
  obtain ⟨ha', hab'⟩ := scale_bounds cfg hs hab
  obtain ⟨st, outs, e, hS, hv⟩ := timedStream_once _ _ ha' hab' h1
  refine ⟨st, outs, e, hS, fun t ht => ?_⟩
  obtain ⟨k1, k2⟩ := hv t ht
  have h0t : (0 : Rat) ≤ t := by obtain ⟨_, _, _, _, k, _⟩ := ht; exact k
  have C := C04_once_bounded cfg hs w a b hab φ hsup hw t (by rw [hd]; exact h0t)
  rw [hd] at C
  obtain ⟨c1, c2⟩ := C
  by_cases h : t - (a : Rat) * cfg.scale < 0
  · rw [k1 h, (c1 h).1]
  · have h' := not_lt.1 h
    obtain ⟨v, e1, l1⟩ := k2 h'
    obtain ⟨⟨v', e2, l2⟩, _⟩ := c2 h'
    exact opt_lub_eq' e1 l1 e2 l2

include hs in
theorem histT_node (a b : Nat) (hab : a ≤ b) (φ : F α) (hsup : supported φ = true) (hw : w.WF φ.vars)
    (hd : dom w φ = 0) {cs : List (ASig α)} (h1 : StreamOK cs 0 (rhoD cfg w φ)) :
    ∃ st outs, runUn (timedUpdate gtW Val.pinf ((a : Rat) * cfg.scale) ((b : Rat) * cfg.scale)) {} cs
        = .ok (st, outs) ∧ StreamOK outs 0 (rhoD cfg w (.tb1 .hist a b φ)) := by
  obtain ⟨ha', hab'⟩ := scale_bounds cfg hs hab
  obtain ⟨st, outs, e, hS, hv⟩ := timedStream_hist _ _ ha' hab' h1
  refine ⟨st, outs, e, hS, fun t ht => ?_⟩
  obtain ⟨k1, k2⟩ := hv t ht
  have h0t : (0 : Rat) ≤ t := by obtain ⟨_, _, _, _, k, _⟩ := ht; exact k
  have C := C04_once_bounded cfg hs w a b hab φ hsup hw t (by rw [hd]; exact h0t)
  rw [hd] at C
  obtain ⟨c1, c2⟩ := C
  by_cases h : t - (a : Rat) * cfg.scale < 0
  · rw [k1 h, (c1 h).2]
  · have h' := not_lt.1 h
    obtain ⟨v, e1, l1⟩ := k2 h'
    obtain ⟨_, ⟨v', e2, l2⟩⟩ := c2 h'
    exact opt_glb_eq' e1 l1 e2 l2

include hs in
theorem since_node (φ ψ : F α) (hsφ : supported φ = true) (hsψ : supported ψ = true)
    (hw : w.WF (φ.vars ++ ψ.vars)) (hdφ : dom w φ = 0) (hdψ : dom w ψ = 0) {ls rs : List (ASig α)}
    (hlen : ls.length = rs.length) (h1 : StreamOK ls 0 (rhoD cfg w φ)) (h2 : StreamOK rs 0 (rhoD cfg w ψ)) :
    ∃ st outs, runBin (fun (st : SinceSt α) L R => (Except.ok (sinceUpdate st L R) : Except PyErr (SinceSt α × ASig α)))
        { prev := Val.ninf } (ls.zip rs) = .ok (st, outs) ∧ StreamOK outs 0 (rhoD cfg w (.tmp2 .since φ ψ)) := by
  obtain ⟨st, outs, e, hS, hv⟩ := sinceStream_ok hlen h1 h2
  refine ⟨st, outs, e, hS, fun t ht => ?_⟩
  obtain ⟨v, e1, l1⟩ := hv t ht
  have h0t : (0 : Rat) ≤ t := by obtain ⟨_, _, _, _, k, _⟩ := ht; exact k
  have C := C04_until_since cfg hs w φ ψ hsφ hsψ hw t (by rw [hdφ, hdψ, max_self]; exact h0t)
  rw [hdφ, hdψ, max_self] at C
  obtain ⟨_, ⟨v', e2, l2⟩⟩ := C
  exact opt_lub_eq' e1 l1 e2 l2

omit [LawfulVal α] in
theorem pmin_fun_eq : (fun x y : α => pmin x y) = (Bin.and).app := by
  funext x y; rfl

include hs in
/-- A bounded since node: the four operations chained, then the decomposition of `since[a,b]` on the semantics. -/
theorem sinceT_node (a b : Nat) (hab : a ≤ b) (φ ψ : F α) (hsφ : supported φ = true) (hsψ : supported ψ = true)
    (hw : w.WF (φ.vars ++ ψ.vars)) (h0 : StartsAt0 w (φ.vars ++ ψ.vars)) {ls rs : List (ASig α)}
    (hlen : ls.length = rs.length) (h1 : StreamOK ls 0 (rhoD cfg w φ)) (h2 : StreamOK rs 0 (rhoD cfg w ψ)) :
    ∃ st outs, runBin (sinceTStep ((a : Rat) * cfg.scale) ((b : Rat) * cfg.scale))
        ({}, { prev := Val.ninf }, {}, {}) (ls.zip rs) = .ok (st, outs) ∧
      StreamOK outs 0 (rhoD cfg w (.tb2 .since a b φ ψ)) := by
  have hd1 := dom_zero w φ (startsAt0_left h0)
  have hd2 := dom_zero w ψ (startsAt0_right h0)
  obtain ⟨o', o1s, e1, D1⟩ := onceT_node cfg hs w a b hab ψ hsψ (wf_right hw) hd2 h2
  obtain ⟨s', o2s, e2, D2⟩ := since_node cfg hs w φ ψ hsφ hsψ hw hd1 hd2 hlen h1 h2
  have hsupS : supported (F.tmp2 T2.since φ ψ) = true := by
    simp only [supported, hsφ, hsψ, Bool.and_self]
  have hdS : dom w (F.tmp2 T2.since φ ψ) = 0 := dom_zero w _ h0
  obtain ⟨h', o3s, e3, D3⟩ := histT_node cfg hs w 0 a (Nat.zero_le a) (F.tmp2 T2.since φ ψ) hsupS hw hdS D2
  have hz : ((0 : Nat) : Rat) * cfg.scale = 0 := by simp
  rw [hz] at e3
  have hl : o1s.length = o3s.length := by
    rw [runUn_length _ e1, runUn_length _ e3, runBin_length _ e2, List.length_zip, hlen, min_self]
  obtain ⟨an', outs, e4, D4⟩ := binStream_ok (fun x y : α => pmin x y) hl D1 D3
  rw [pmin_fun_eq, lift2_bin] at D4
  refine ⟨_, outs, (runBin_sinceT _ _ _ _ _ _ _ _ outs).2 ⟨o', o1s, s', o2s, h', o3s, an', ?_, e2, e3, e4, rfl⟩,
    D4.1, fun t ht => ?_⟩
  · rw [List.map_snd_zip (le_of_eq hlen.symm)]
    exact e1
  · have h0t : (0 : Rat) ≤ t := by obtain ⟨_, _, _, _, k, _⟩ := ht; exact k
    rw [D4.2 t ht, rhoD_since_bounded_decomp cfg hs w φ ψ a b hab hsφ hsψ hw h0 t h0t]

/-- … its shape and the absence of exceptions need nothing about the values. -/
theorem sinceT_node_shape (a' b' : Rat) (ha : 0 ≤ a') (hab : a' ≤ b') {ls rs : List (ASig α)}
    (hlen : ls.length = rs.length) (h1 : Shape ls 0) (h2 : Shape rs 0) :
    ∃ st outs, runBin (sinceTStep a' b') ({}, { prev := Val.ninf }, {}, {}) (ls.zip rs) = .ok (st, outs) ∧
      Shape outs 0 := by
  obtain ⟨o', o1s, e1, S1, _⟩ := timedStream_once a' b' ha hab (shape_streamOK h2)
  obtain ⟨s', o2s, e2, S2, _⟩ := sinceStream_ok hlen (shape_streamOK h1) (shape_streamOK h2)
  obtain ⟨h', o3s, e3, S3, _⟩ := timedStream_hist 0 a' le_rfl ha (shape_streamOK S2)
  have hl : o1s.length = o3s.length := by
    rw [runUn_length _ e1, runUn_length _ e3, runBin_length _ e2, List.length_zip, hlen, min_self]
  obtain ⟨an', outs, e4, D4⟩ := binStream_ok (fun x y : α => pmin x y) hl (shape_streamOK S1) (shape_streamOK S3)
  refine ⟨_, outs, (runBin_sinceT _ _ _ _ _ _ _ _ outs).2 ⟨o', o1s, s', o2s, h', o3s, an', ?_, e2, e3, e4, rfl⟩, D4.1⟩
  rw [List.map_snd_zip (le_of_eq hlen.symm)]
  exact e1

end nodes

/-! ### the two structural inductions -/

omit [Val α] [LawfulVal α] in
theorem frag_op {op : Bin} (h : (match op with | .predSat _ | .predZero => false | _ => true) = true) :
    (∀ c, op ≠ .predSat c) ∧ op ≠ .predZero := by
  cases op <;> simp at h ⊢

omit [Val α] [LawfulVal α] in
theorem frag_opG {ia : Bool} {op : Bin}
    (h : (match op with | .predSat _ => ia | .predZero => false | _ => true) = true) :
    op ≠ .predZero ∧ ((∀ c, op ≠ .predSat c) ∨ ia = true) := by
  cases op <;> simp at h ⊢
  exact h

omit [LawfulVal α] in
theorem rhoD_const (cfg : DCfg) (w : DEnv α) (c : α) : rhoD cfg w (.const c) = fun _ => some c := by
  funext t; simp only [rhoD]

omit [LawfulVal α] in
theorem rhoD_un (cfg : DCfg) (w : DEnv α) (op : Un) (φ : F α) :
    rhoD cfg w (.un op φ) = fun t => (rhoD cfg w φ t).map op.app := by
  funext t; simp only [rhoD]

/-- The structural induction for both fragments (`ia = true`: with the interface-aware predicate, which needs `hkey` and
    `hcmp`). -/
theorem mirror_auxG (cfg : DCfg) (hs : 0 ≤ cfg.scale) (w : DEnv α)
    (hsub : ∀ a b : α, Val.neg (Val.sub a b) = Val.sub b a) (ia : Bool)
    (hia : ia = true →
      ((∀ (c : Cmp) (d d' : α), cmpOfDiff c d = cmpOfDiff c d' → satOfDiff c d = satOfDiff c d') ∧
        (∀ (c : Cmp) (a b : α), satOfDiff c (Val.sub a b) = c.holds a b)))
    (batches : List (String → ASig α)) :
    ∀ (φ : F α), onFragG ia φ = true → w.WF φ.vars → StartsAt0 w φ.vars → ValidChunks w φ.vars batches →
      ∀ st0 st' outs, initOn φ = .ok st0 → streamOf cfg φ st0 batches = .ok (st', outs) →
        StreamOK outs 0 (rhoD cfg w φ) := by
  intro φ
  induction φ with
  | var x =>
    intro _ hw h0 hch st0 st' outs hi he
    simp only [initOn] at hi
    cases hi
    rw [stream_var] at he
    cases he
    obtain ⟨hne, hp⟩ := hw x (by simp [F.vars])
    obtain ⟨rest, hr⟩ := hch x (by simp [F.vars])
    exact varStream_ok (w.sig x) hne hp (h0 x (by simp [F.vars])) _ rest hr
  | const c => intro h; simp [onFragG] at h
  | un op φ ih =>
    intro hfrag hw h0 hch st0 st' outs hi he
    simp only [onFragG] at hfrag
    simp only [F.vars] at hw h0 hch
    simp only [initOn] at hi
    obtain ⟨c0, e0, hi⟩ := bind_ok hi
    cases hi
    obtain ⟨c', cs, s', e1, e2, rfl⟩ := (stream_un cfg op φ batches c0 st' outs).1 he
    rw [rhoD_un]
    exact unStream_ok op (ih hfrag hw h0 hch c0 c' cs e0 e1) e2
  | bin op φ ψ ih1 ih2 =>
    intro hfrag hw h0 hch st0 st' outs hi he
    simp only [onFragG, Bool.and_eq_true, Bool.or_eq_true] at hfrag
    simp only [F.vars] at hw h0 hch
    obtain ⟨hz, hps⟩ := frag_opG hfrag.1
    obtain ⟨l0, r0, e1, e2, rfl⟩ := (initOn_bin op hz φ ψ st0).1 hi
    obtain ⟨l', ls, r', rs, s', k1, k2, k3, rfl⟩ := (stream_bin cfg op φ ψ batches _ l0 r0 st' outs).1 he
    have hl := stream_length cfg φ k1
    have hr := stream_length cfg ψ k2
    have hcore : (StreamOK ls 0 (rhoD cfg w φ) ∧ StreamOK rs 0 (rhoD cfg w ψ)) ∨
        ((∃ c, ls = constStream c batches.length ∧ rhoD cfg w φ = fun _ => some c) ∧ StreamOK rs 0 (rhoD cfg w ψ)) ∨
        (StreamOK ls 0 (rhoD cfg w φ) ∧ ∃ c, rs = constStream c batches.length ∧ rhoD cfg w ψ = fun _ => some c) := by
      rcases hfrag.2 with (⟨a, b⟩ | ⟨a, b⟩) | ⟨a, b⟩
      · exact Or.inl ⟨ih1 a (wf_left hw) (startsAt0_left h0) (validChunks_left hch) l0 l' ls e1 k1,
          ih2 b (wf_right hw) (startsAt0_right h0) (validChunks_right hch) r0 r' rs e2 k2⟩
      · obtain ⟨c, rfl⟩ := isConst_eq a
        simp only [initOn] at e1
        cases e1
        obtain ⟨_, kc⟩ := stream_const cfg c batches
        cases (kc.symm.trans k1)
        exact Or.inr (Or.inl ⟨⟨c, rfl, rhoD_const cfg w c⟩,
          ih2 b (wf_right hw) (startsAt0_right h0) (validChunks_right hch) r0 r' rs e2 k2⟩)
      · obtain ⟨c, rfl⟩ := isConst_eq b
        simp only [initOn] at e2
        cases e2
        obtain ⟨_, kc⟩ := stream_const cfg c batches
        cases (kc.symm.trans k2)
        exact Or.inr (Or.inr ⟨ih1 a (wf_left hw) (startsAt0_left h0) (validChunks_left hch) l0 l' ls e1 k1,
          ⟨c, rfl, rhoD_const cfg w c⟩⟩)
    obtain ⟨st, outs2, e, hD⟩ := bin_node cfg w hsub op hz (hps.imp_right hia) φ ψ hl hr hcore
    cases (e.symm.trans k3)
    exact hD
  | tmp1 op φ ih =>
    intro hfrag hw h0 hch st0 st' outs hi he
    simp only [onFragG, Bool.and_eq_true] at hfrag
    simp only [F.vars] at hw h0 hch
    have hsup := onFragG_supported ia φ hfrag.2
    have hd := dom_zero w φ h0
    cases op with
    | once =>
      simp only [initOn] at hi
      obtain ⟨c0, e0, hi⟩ := bind_ok hi
      cases hi
      obtain ⟨c', cs, s', e1, e2, rfl⟩ := (stream_once cfg φ batches _ c0 st' outs).1 he
      obtain ⟨st, outs2, e, hD⟩ := once_node cfg hs w φ hsup hw hd (ih hfrag.2 hw h0 hch c0 c' cs e0 e1)
      cases (e.symm.trans e2)
      exact hD
    | hist =>
      simp only [initOn] at hi
      obtain ⟨c0, e0, hi⟩ := bind_ok hi
      cases hi
      obtain ⟨c', cs, s', e1, e2, rfl⟩ := (stream_hist cfg φ batches _ c0 st' outs).1 he
      obtain ⟨st, outs2, e, hD⟩ := hist_node cfg hs w φ hsup hw hd (ih hfrag.2 hw h0 hch c0 c' cs e0 e1)
      cases (e.symm.trans e2)
      exact hD
    | _ => exact absurd hfrag.1 (by simp)
  | tmp2 op φ ψ ih1 ih2 =>
    intro hfrag hw h0 hch st0 st' outs hi he
    simp only [onFragG, Bool.and_eq_true] at hfrag
    simp only [F.vars] at hw h0 hch
    cases op with
    | since =>
      simp only [initOn] at hi
      obtain ⟨l0, e1, hi⟩ := bind_ok hi
      obtain ⟨r0, e2, hi⟩ := bind_ok hi
      cases hi
      obtain ⟨l', ls, r', rs, s', k1, k2, k3, rfl⟩ := (stream_since cfg .since φ ψ batches _ l0 r0 st' outs).1 he
      have hlen : ls.length = rs.length := (stream_length cfg φ k1).trans (stream_length cfg ψ k2).symm
      obtain ⟨st, outs2, e, hD⟩ := since_node cfg hs w φ ψ (onFragG_supported ia φ hfrag.1.2) (onFragG_supported ia ψ hfrag.2)
        hw (dom_zero w φ (startsAt0_left h0)) (dom_zero w ψ (startsAt0_right h0)) hlen
        (ih1 hfrag.1.2 (wf_left hw) (startsAt0_left h0) (validChunks_left hch) l0 l' ls e1 k1)
        (ih2 hfrag.2 (wf_right hw) (startsAt0_right h0) (validChunks_right hch) r0 r' rs e2 k2)
      cases (e.symm.trans k3)
      exact hD
    | _ => exact absurd hfrag.1.1 (by simp)
  | tb1 op a b φ ih =>
    intro hfrag hw h0 hch st0 st' outs hi he
    simp only [onFragG, Bool.and_eq_true, decide_eq_true_eq] at hfrag
    simp only [F.vars] at hw h0 hch
    have hsup := onFragG_supported ia φ hfrag.2
    have hd := dom_zero w φ h0
    cases op with
    | once =>
      simp only [initOn] at hi
      obtain ⟨c0, e0, hi⟩ := bind_ok hi
      cases hi
      obtain ⟨c', cs, s', e1, e2, rfl⟩ := (stream_onceT cfg a b φ batches _ c0 st' outs).1 he
      obtain ⟨st, outs2, e, hD⟩ :=
        onceT_node cfg hs w a b hfrag.1.2 φ hsup hw hd (ih hfrag.2 hw h0 hch c0 c' cs e0 e1)
      cases (e.symm.trans e2)
      exact hD
    | hist =>
      simp only [initOn] at hi
      obtain ⟨c0, e0, hi⟩ := bind_ok hi
      cases hi
      obtain ⟨c', cs, s', e1, e2, rfl⟩ := (stream_histT cfg a b φ batches _ c0 st' outs).1 he
      obtain ⟨st, outs2, e, hD⟩ :=
        histT_node cfg hs w a b hfrag.1.2 φ hsup hw hd (ih hfrag.2 hw h0 hch c0 c' cs e0 e1)
      cases (e.symm.trans e2)
      exact hD
    | _ => exact absurd hfrag.1.1 (by simp)
  | tb2 op a b φ ψ ih1 ih2 =>
    intro hfrag hw h0 hch st0 st' outs hi he
    simp only [onFragG, Bool.and_eq_true, decide_eq_true_eq] at hfrag
    simp only [F.vars] at hw h0 hch
    cases op with
    | since =>
      simp only [initOn] at hi
      obtain ⟨l0, e1, hi⟩ := bind_ok hi
      obtain ⟨r0, e2, hi⟩ := bind_ok hi
      cases hi
      obtain ⟨l', ls, r', rs, s', k1, k2, k3, rfl⟩ :=
        (stream_sinceT cfg .since a b φ ψ batches ({}, { prev := Val.ninf }, {}, {}) l0 r0 st' outs).1 he
      have hlen : ls.length = rs.length := (stream_length cfg φ k1).trans (stream_length cfg ψ k2).symm
      obtain ⟨st, outs2, e, hD⟩ := sinceT_node cfg hs w a b hfrag.1.1.2 φ ψ (onFragG_supported ia φ hfrag.1.2)
        (onFragG_supported ia ψ hfrag.2) hw h0 hlen
        (ih1 hfrag.1.2 (wf_left hw) (startsAt0_left h0) (validChunks_left hch) l0 l' ls e1 k1)
        (ih2 hfrag.2 (wf_right hw) (startsAt0_right h0) (validChunks_right hch) r0 r' rs e2 k2)
      cases (e.symm.trans k3)
      exact hD
    | _ => exact absurd hfrag.1.1.1 (by simp)

theorem mirror_aux (cfg : DCfg) (hs : 0 ≤ cfg.scale) (w : DEnv α)
    (hsub : ∀ a b : α, Val.neg (Val.sub a b) = Val.sub b a) (batches : List (String → ASig α)) :
    ∀ (φ : F α), onFrag φ = true → w.WF φ.vars → StartsAt0 w φ.vars → ValidChunks w φ.vars batches →
      ∀ st0 st' outs, initOn φ = .ok st0 → streamOf cfg φ st0 batches = .ok (st', outs) →
        StreamOK outs 0 (rhoD cfg w φ) :=
  fun φ hfrag => mirror_auxG cfg hs w hsub false (fun k => absurd k (by simp)) batches φ
    (by rw [← onFrag_eq]; exact hfrag)

theorem total_auxG (cfg : DCfg) (hs : 0 ≤ cfg.scale) (w : DEnv α) (ia : Bool) (batches : List (String → ASig α)) :
    ∀ (φ : F α), onFragG ia φ = true → noPartialOps φ = true → w.WF φ.vars → StartsAt0 w φ.vars →
      ValidChunks w φ.vars batches →
      ∃ st0 st' outs, initOn φ = .ok st0 ∧ streamOf cfg φ st0 batches = .ok (st', outs) ∧ Shape outs 0 := by
  intro φ
  induction φ with
  | var x =>
    intro _ _ hw h0 hch
    obtain ⟨hne, hp⟩ := hw x (by simp [F.vars])
    obtain ⟨rest, hr⟩ := hch x (by simp [F.vars])
    exact ⟨.leaf, .leaf, _, rfl, stream_var cfg x batches,
      (varStream_ok (w.sig x) hne hp (h0 x (by simp [F.vars])) _ rest hr).1⟩
  | const c => intro h; simp [onFragG] at h
  | un op φ ih =>
    intro hfrag hnp hw h0 hch
    simp only [onFragG] at hfrag
    simp only [noPartialOps, Bool.and_eq_true] at hnp
    simp only [F.vars] at hw h0 hch
    obtain ⟨c0, c', cs, e0, e1, hS⟩ := ih hfrag hnp.2 hw h0 hch
    have hop : op ≠ .sqrt ∧ op ≠ .ln := by
      have := hnp.1
      cases op <;> simp at this ⊢
    obtain ⟨outs, e2⟩ := unStream_total (α := α) op hop cs
    refine ⟨.un c0, .un c', outs, ?_, (stream_un cfg op φ batches c0 _ outs).2 ⟨c', cs, (), e1, e2, rfl⟩,
      (unStream_ok op (shape_streamOK hS) e2).1⟩
    simp only [initOn]
    rw [bind_ok_eq e0]; rfl
  | bin op φ ψ ih1 ih2 =>
    intro hfrag hnp hw h0 hch
    simp only [onFragG, Bool.and_eq_true, Bool.or_eq_true] at hfrag
    simp only [noPartialOps, Bool.and_eq_true] at hnp
    simp only [F.vars] at hw h0 hch
    have hchild : ∃ l0 l' ls r0 r' rs, initOn φ = .ok l0 ∧ streamOf cfg φ l0 batches = .ok (l', ls) ∧
        initOn ψ = .ok r0 ∧ streamOf cfg ψ r0 batches = .ok (r', rs) ∧
        ((Shape ls 0 ∧ Shape rs 0) ∨ ((∃ c, ls = constStream c batches.length) ∧ Shape rs 0) ∨
          (Shape ls 0 ∧ ∃ c, rs = constStream c batches.length)) := by
      rcases hfrag.2 with (⟨a, b⟩ | ⟨a, b⟩) | ⟨a, b⟩
      · obtain ⟨l0, l', ls, e1, k1, h1⟩ := ih1 a hnp.1 (wf_left hw) (startsAt0_left h0) (validChunks_left hch)
        obtain ⟨r0, r', rs, e2, k2, h2⟩ := ih2 b hnp.2 (wf_right hw) (startsAt0_right h0) (validChunks_right hch)
        exact ⟨l0, l', ls, r0, r', rs, e1, k1, e2, k2, Or.inl ⟨h1, h2⟩⟩
      · obtain ⟨c, rfl⟩ := isConst_eq a
        obtain ⟨r0, r', rs, e2, k2, h2⟩ := ih2 b hnp.2 (wf_right hw) (startsAt0_right h0) (validChunks_right hch)
        obtain ⟨l', kc⟩ := stream_const cfg c batches
        exact ⟨.cst false, l', _, r0, r', rs, rfl, kc, e2, k2, Or.inr (Or.inl ⟨⟨c, rfl⟩, h2⟩)⟩
      · obtain ⟨c, rfl⟩ := isConst_eq b
        obtain ⟨l0, l', ls, e1, k1, h1⟩ := ih1 a hnp.1 (wf_left hw) (startsAt0_left h0) (validChunks_left hch)
        obtain ⟨r', kc⟩ := stream_const cfg c batches
        exact ⟨l0, l', ls, .cst false, r', _, e1, k1, rfl, kc, Or.inr (Or.inr ⟨h1, ⟨c, rfl⟩⟩)⟩
    obtain ⟨l0, l', ls, r0, r', rs, e1, k1, e2, k2, hcore⟩ := hchild
    obtain ⟨st, outs, e, hS⟩ := bin_node_shape op (frag_opG hfrag.1).1 (stream_length cfg φ k1) (stream_length cfg ψ k2) hcore
    exact ⟨.bin {} l0 r0, .bin st l' r', outs, (initOn_bin op (frag_opG hfrag.1).1 φ ψ _).2 ⟨l0, r0, e1, e2, rfl⟩,
      (stream_bin cfg op φ ψ batches _ l0 r0 _ outs).2 ⟨l', ls, r', rs, st, k1, k2, e, rfl⟩, hS⟩
  | tmp1 op φ ih =>
    intro hfrag hnp hw h0 hch
    simp only [onFragG, Bool.and_eq_true] at hfrag
    simp only [noPartialOps] at hnp
    simp only [F.vars] at hw h0 hch
    obtain ⟨c0, c', cs, e0, e1, hS⟩ := ih hfrag.2 hnp hw h0 hch
    cases op with
    | once =>
      obtain ⟨st, outs, e, hS', _⟩ := scanStream_max (shape_streamOK hS)
      refine ⟨.scan Val.ninf c0, .scan st c', outs, ?_,
        (stream_once cfg φ batches _ c0 _ outs).2 ⟨c', cs, st, e1, e, rfl⟩, hS'⟩
      simp only [initOn]
      rw [bind_ok_eq e0]; rfl
    | hist =>
      obtain ⟨st, outs, e, hS', _⟩ := scanStream_min (shape_streamOK hS)
      refine ⟨.scan Val.pinf c0, .scan st c', outs, ?_,
        (stream_hist cfg φ batches _ c0 _ outs).2 ⟨c', cs, st, e1, e, rfl⟩, hS'⟩
      simp only [initOn]
      rw [bind_ok_eq e0]; rfl
    | _ => exact absurd hfrag.1 (by simp)
  | tmp2 op φ ψ ih1 ih2 =>
    intro hfrag hnp hw h0 hch
    simp only [onFragG, Bool.and_eq_true] at hfrag
    simp only [noPartialOps, Bool.and_eq_true] at hnp
    simp only [F.vars] at hw h0 hch
    obtain ⟨l0, l', ls, e1, k1, h1⟩ := ih1 hfrag.1.2 hnp.1 (wf_left hw) (startsAt0_left h0) (validChunks_left hch)
    obtain ⟨r0, r', rs, e2, k2, h2⟩ := ih2 hfrag.2 hnp.2 (wf_right hw) (startsAt0_right h0) (validChunks_right hch)
    have hlen : ls.length = rs.length := (stream_length cfg φ k1).trans (stream_length cfg ψ k2).symm
    cases op with
    | since =>
      obtain ⟨st, outs, e, hS', _⟩ := sinceStream_ok hlen (shape_streamOK h1) (shape_streamOK h2)
      refine ⟨.since { prev := Val.ninf } l0 r0, .since st l' r', outs, ?_,
        (stream_since cfg .since φ ψ batches _ l0 r0 _ outs).2 ⟨l', ls, r', rs, st, k1, k2, e, rfl⟩, hS'⟩
      simp only [initOn]
      rw [bind_ok_eq e1, bind_ok_eq e2]; rfl
    | _ => exact absurd hfrag.1.1 (by simp)
  | tb1 op a b φ ih =>
    intro hfrag hnp hw h0 hch
    simp only [onFragG, Bool.and_eq_true, decide_eq_true_eq] at hfrag
    simp only [noPartialOps] at hnp
    simp only [F.vars] at hw h0 hch
    obtain ⟨c0, c', cs, e0, e1, hS⟩ := ih hfrag.2 hnp hw h0 hch
    obtain ⟨ha', hab'⟩ := scale_bounds cfg hs hfrag.1.2
    cases op with
    | once =>
      obtain ⟨st, outs, e, hS', _⟩ := timedStream_once _ _ ha' hab' (shape_streamOK hS)
      refine ⟨.timed {} c0, .timed st c', outs, ?_,
        (stream_onceT cfg a b φ batches _ c0 _ outs).2 ⟨c', cs, st, e1, e, rfl⟩, hS'⟩
      simp only [initOn]
      rw [bind_ok_eq e0]; rfl
    | hist =>
      obtain ⟨st, outs, e, hS', _⟩ := timedStream_hist _ _ ha' hab' (shape_streamOK hS)
      refine ⟨.timed {} c0, .timed st c', outs, ?_,
        (stream_histT cfg a b φ batches _ c0 _ outs).2 ⟨c', cs, st, e1, e, rfl⟩, hS'⟩
      simp only [initOn]
      rw [bind_ok_eq e0]; rfl
    | _ => exact absurd hfrag.1.1 (by simp)
  | tb2 op a b φ ψ ih1 ih2 =>
    intro hfrag hnp hw h0 hch
    simp only [onFragG, Bool.and_eq_true, decide_eq_true_eq] at hfrag
    simp only [noPartialOps, Bool.and_eq_true] at hnp
    simp only [F.vars] at hw h0 hch
    obtain ⟨l0, l', ls, e1, k1, h1⟩ := ih1 hfrag.1.2 hnp.1 (wf_left hw) (startsAt0_left h0) (validChunks_left hch)
    obtain ⟨r0, r', rs, e2, k2, h2⟩ := ih2 hfrag.2 hnp.2 (wf_right hw) (startsAt0_right h0) (validChunks_right hch)
    have hlen : ls.length = rs.length := (stream_length cfg φ k1).trans (stream_length cfg ψ k2).symm
    obtain ⟨ha', hab'⟩ := scale_bounds cfg hs hfrag.1.1.2
    cases op with
    | since =>
      obtain ⟨st, outs, e, hS'⟩ := sinceT_node_shape _ _ ha' hab' hlen h1 h2
      refine ⟨wrapT ({}, { prev := Val.ninf }, {}, {}) l0 r0, wrapT st l' r', outs, ?_,
        (stream_sinceT cfg .since a b φ ψ batches _ l0 r0 _ outs).2 ⟨l', ls, r', rs, st, k1, k2, e, rfl⟩, hS'⟩
      simp only [initOn]
      rw [bind_ok_eq e1, bind_ok_eq e2]; rfl
    | _ => exact absurd hfrag.1.1.1 (by simp)

theorem total_aux (cfg : DCfg) (hs : 0 ≤ cfg.scale) (w : DEnv α) (batches : List (String → ASig α)) :
    ∀ (φ : F α), onFrag φ = true → noPartialOps φ = true → w.WF φ.vars → StartsAt0 w φ.vars →
      ValidChunks w φ.vars batches →
      ∃ st0 st' outs, initOn φ = .ok st0 ∧ streamOf cfg φ st0 batches = .ok (st', outs) ∧ Shape outs 0 :=
  fun φ hfrag => total_auxG cfg hs w false batches φ (by rw [← onFrag_eq]; exact hfrag)

end MainAux

/-- C05 (mirror): whatever the chunking, the concatenated output of the online monitor is `rhoD` where it is defined. -/
theorem C05_online_mirror_partial (cfg : DCfg) (hs : 0 ≤ cfg.scale) (w : DEnv α) (φ : F α)
    (hfrag : onFrag φ = true) (hw : w.WF φ.vars) (h0 : StartsAt0 w φ.vars)
    (hsub : ∀ a b : α, Val.neg (Val.sub a b) = Val.sub b a)
    (batches : List (String → ASig α)) (hch : ValidChunks w φ.vars batches)
    {outs : List (ASig α)} (he : runOn cfg φ batches = .ok outs) :
    StreamOK outs 0 (rhoD cfg w φ) := by
  obtain ⟨st0, st', hi, hst⟩ := (MainAux.runOn_ok cfg φ batches outs).1 he
  exact MainAux.mirror_aux cfg hs w hsub batches φ hfrag hw h0 hch st0 st' outs hi hst

/-- It raises nothing (without `sqrt` / `ln`). -/
theorem C05_online_total_partial (cfg : DCfg) (hs : 0 ≤ cfg.scale) (w : DEnv α) (φ : F α)
    (hfrag : onFrag φ = true) (hnp : noPartialOps φ = true) (hw : w.WF φ.vars) (h0 : StartsAt0 w φ.vars)
    (batches : List (String → ASig α)) (hch : ValidChunks w φ.vars batches) :
    ∃ outs, runOn cfg φ batches = .ok outs := by
  obtain ⟨st0, st', outs, hi, hst, _⟩ := MainAux.total_aux cfg hs w batches φ hfrag hnp hw h0 hch
  exact ⟨outs, (MainAux.runOn_ok cfg φ batches outs).2 ⟨st0, st', hi, hst⟩⟩

/-- Two chunkings of the same signals never yield different robustness at the same instant. -/
theorem C05_chunkings_agree_partial (cfg : DCfg) (hs : 0 ≤ cfg.scale) (w : DEnv α) (φ : F α)
    (hfrag : onFrag φ = true) (hw : w.WF φ.vars) (h0 : StartsAt0 w φ.vars)
    (hsub : ∀ a b : α, Val.neg (Val.sub a b) = Val.sub b a)
    (b1 b2 : List (String → ASig α)) (h1 : ValidChunks w φ.vars b1) (h2 : ValidChunks w φ.vars b2)
    {o1 o2 : List (ASig α)} (e1 : runOn cfg φ b1 = .ok o1) (e2 : runOn cfg φ b2 = .ok o2)
    (t : Rat) (c1 : Covered o1 0 t) (c2 : Covered o2 0 t) :
    valAtA o1.flatten t = valAtA o2.flatten t := by
  rw [(C05_online_mirror_partial cfg hs w φ hfrag hw h0 hsub b1 h1 e1).2 t c1,
    (C05_online_mirror_partial cfg hs w φ hfrag hw h0 hsub b2 h2 e2).2 t c2]

/-- Non-vacuity: the hypotheses of the three theorems hold for a concrete environment, formula
    (`once[0,1] (x >= c)` over the two-sample signal `x = [(0, c1), (1, c2)]`) and a chunking into two updates
    (one sample each), for every value type. -/
example (c c1 c2 : α) :
    let w : DEnv α := [("x", [(0, c1), (1, c2)])]
    let φ : F α := .tb1 .once 0 1 (.bin (.pred .ge) (.var "x") (.const c))
    let batches : List (String → ASig α) := [fun _ => [(Tm.fin 0, c1)], fun _ => [(Tm.fin 1, c2)]]
    onFrag φ = true ∧ noPartialOps φ = true ∧ w.WF φ.vars ∧ StartsAt0 w φ.vars ∧ ValidChunks w φ.vars batches := by
  intro w φ batches
  have hx : ∀ x, x ∈ φ.vars → x = "x" := fun x hx => by simpa [φ, F.vars] using hx
  refine ⟨by simp [φ, onFrag, isConst], by simp [φ, noPartialOps], ?_, ?_, ?_⟩
  · intro x h
    rw [hx x h]
    simp [w, DEnv.sig, DSig.times, List.lookup]
  · intro x h
    rw [hx x h]
    simp [w, DEnv.sig, DSig.times, List.lookup]
  · intro x h
    rw [hx x h]
    exact ⟨[], by simp [batches, w, DEnv.sig, List.lookup, ofDSig]⟩

/-- … so the monitor fed in these two updates raises nothing and what it returns is `rhoD` (given `hsub`). -/
example (c c1 c2 : α) (hsub : ∀ a b : α, Val.neg (Val.sub a b) = Val.sub b a) :
    let w : DEnv α := [("x", [(0, c1), (1, c2)])]
    let φ : F α := .tb1 .once 0 1 (.bin (.pred .ge) (.var "x") (.const c))
    let batches : List (String → ASig α) := [fun _ => [(Tm.fin 0, c1)], fun _ => [(Tm.fin 1, c2)]]
    ∃ outs, runOn {} φ batches = .ok outs ∧ StreamOK outs 0 (rhoD {} w φ) := by
  intro w φ batches
  have hx : ∀ x, x ∈ φ.vars → x = "x" := fun x hx => by simpa [φ, F.vars] using hx
  have hfrag : onFrag φ = true := by simp [φ, onFrag, isConst]
  have hw : w.WF φ.vars := by
    intro x h
    rw [hx x h]
    simp [w, DEnv.sig, DSig.times, List.lookup]
  have h0 : StartsAt0 w φ.vars := by
    intro x h
    rw [hx x h]
    simp [w, DEnv.sig, DSig.times, List.lookup]
  have hch : ValidChunks w φ.vars batches := by
    intro x h
    rw [hx x h]
    exact ⟨[], by simp [batches, w, DEnv.sig, List.lookup, ofDSig]⟩
  obtain ⟨outs, he⟩ := C05_online_total_partial {} (by decide) w φ hfrag (by simp [φ, noPartialOps]) hw h0 batches hch
  exact ⟨outs, he, C05_online_mirror_partial {} (by decide) w φ hfrag hw h0 hsub batches hch he⟩

/-- Non-vacuity with `since[a,b]`: `(x >= c) since[1,2] (abs y)` over two two-sample signals fed in two updates (`x` one
    sample per update; `y` both samples in the first update and nothing in the second): the hypotheses hold, the monitor
    raises nothing and what it returns is `rhoD` (given `hsub`). -/
example (c c1 c2 d1 d2 : α) (hsub : ∀ a b : α, Val.neg (Val.sub a b) = Val.sub b a) :
    let w : DEnv α := [("x", [(0, c1), (1, c2)]), ("y", [(0, d1), (2, d2)])]
    let φ : F α := .tb2 .since 1 2 (.bin (.pred .ge) (.var "x") (.const c)) (.un .abs (.var "y"))
    let batches : List (String → ASig α) :=
      [fun x => if x = "x" then [(Tm.fin 0, c1)] else [(Tm.fin 0, d1), (Tm.fin 2, d2)],
       fun x => if x = "x" then [(Tm.fin 1, c2)] else []]
    onFrag φ = true ∧ noPartialOps φ = true ∧ w.WF φ.vars ∧ StartsAt0 w φ.vars ∧ ValidChunks w φ.vars batches ∧
      ∃ outs, runOn {} φ batches = .ok outs ∧ StreamOK outs 0 (rhoD {} w φ) := by
  intro w φ batches
  have hx : ∀ x, x ∈ φ.vars → x = "x" ∨ x = "y" := fun x hx => by simpa [φ, F.vars] using hx
  have hfrag : onFrag φ = true := by simp [φ, onFrag, isConst]
  have hnp : noPartialOps φ = true := by simp [φ, noPartialOps]
  have hw : w.WF φ.vars := by
    intro x h
    rcases hx x h with rfl | rfl <;> simp [w, DEnv.sig, DSig.times, List.lookup]
  have h0 : StartsAt0 w φ.vars := by
    intro x h
    rcases hx x h with rfl | rfl <;> simp [w, DEnv.sig, DSig.times, List.lookup]
  have hch : ValidChunks w φ.vars batches := by
    intro x h
    rcases hx x h with rfl | rfl <;> exact ⟨[], by simp [batches, w, DEnv.sig, List.lookup, ofDSig]⟩
  obtain ⟨outs, he⟩ := C05_online_total_partial {} (by decide) w φ hfrag hnp hw h0 batches hch
  exact ⟨hfrag, hnp, hw, h0, hch, outs, he,
    C05_online_mirror_partial {} (by decide) w φ hfrag hw h0 hsub batches hch he⟩

/-- C06 (mirror, interface-aware robustness semantics): the statement of `C05_online_mirror_partial` for the fragment with the
    interface-aware predicate `.bin (.predSat c) φ ψ` (the IA `PredicateOperation`: the subtraction, then `sat()` kept where
    the robustness value changes within the returned batch, as `±inf`).  `hkey`: equal robustness values have equal
    satisfaction; `hcmp`: the satisfaction read off the difference is the comparison. -/
theorem C06_online_ia_partial (cfg : DCfg) (hs : 0 ≤ cfg.scale) (w : DEnv α) (φ : F α)
    (hfrag : onFragIA φ = true) (hw : w.WF φ.vars) (h0 : StartsAt0 w φ.vars)
    (hsub : ∀ a b : α, Val.neg (Val.sub a b) = Val.sub b a)
    (hkey : ∀ (c : Cmp) (d d' : α), cmpOfDiff c d = cmpOfDiff c d' → satOfDiff c d = satOfDiff c d')
    (hcmp : ∀ (c : Cmp) (a b : α), satOfDiff c (Val.sub a b) = c.holds a b)
    (batches : List (String → ASig α)) (hch : ValidChunks w φ.vars batches)
    {outs : List (ASig α)} (he : runOn cfg φ batches = .ok outs) :
    StreamOK outs 0 (rhoD cfg w φ) := by
  obtain ⟨st0, st', hi, hst⟩ := (MainAux.runOn_ok cfg φ batches outs).1 he
  exact MainAux.mirror_auxG cfg hs w hsub true (fun _ => ⟨hkey, hcmp⟩) batches φ
    (by rw [← MainAux.onFragIA_eq]; exact hfrag) hw h0 hch st0 st' outs hi hst

/-- … and it raises nothing (without `sqrt` / `ln`). -/
theorem C06_online_ia_total_partial (cfg : DCfg) (hs : 0 ≤ cfg.scale) (w : DEnv α) (φ : F α)
    (hfrag : onFragIA φ = true) (hnp : noPartialOps φ = true) (hw : w.WF φ.vars) (h0 : StartsAt0 w φ.vars)
    (batches : List (String → ASig α)) (hch : ValidChunks w φ.vars batches) :
    ∃ outs, runOn cfg φ batches = .ok outs := by
  obtain ⟨st0, st', outs, hi, hst, _⟩ := MainAux.total_auxG cfg hs w true batches φ
    (by rw [← MainAux.onFragIA_eq]; exact hfrag) hnp hw h0 hch
  exact ⟨outs, (MainAux.runOn_ok cfg φ batches outs).2 ⟨st0, st', hi, hst⟩⟩

/-! ### non-vacuity of C06: a lawful value type on which `hsub`, `hkey` and `hcmp` hold -/

namespace IAWitness

/-- Three values `-inf < 0 < +inf`; the difference of two values is the sign of their comparison. -/
local instance : Val (Fin 3) where
  lt a b := decide (a < b)
  neg a := Fin.rev a
  abs a := if a < 1 then Fin.rev a else a
  add a _ := a
  sub a b := if a < b then 0 else if b < a then 2 else 1
  mul a _ := a
  div a _ := a
  pinf := 2
  ninf := 0
  zero := 1
  sqrt a := a
  exp a := a
  ln a := a
  pow a _ := a
  log a _ := a

local instance : LawfulVal (Fin 3) where
  lt_iff a b := by simp [Val.lt]
  pinf_top := rfl
  ninf_bot := rfl
  neg_neg a := by simp [Val.neg]
  neg_le_neg a b h := by simpa [Val.neg] using h

theorem hsub3 (a b : Fin 3) : Val.neg (Val.sub a b) = Val.sub b a := by revert a b; decide

theorem hkey3 (c : Cmp) (d d' : Fin 3) : cmpOfDiff c d = cmpOfDiff c d' → satOfDiff c d = satOfDiff c d' := by
  cases c <;> revert d d' <;> decide

theorem hcmp3 (c : Cmp) (a b : Fin 3) : satOfDiff c (Val.sub a b) = c.holds a b := by
  cases c <;> revert a b <;> decide

/-- `once[0,1] (x >= 0)` (interface-aware predicate) over `x = [(0, -inf), (1, +inf)]` fed in two updates: the hypotheses of
    `C06_online_ia_partial` hold, the monitor raises nothing and what it returns is `rhoD`. -/
example :
    let w : DEnv (Fin 3) := [("x", [(0, 0), (1, 2)])]
    let φ : F (Fin 3) := .tb1 .once 0 1 (.bin (.predSat .ge) (.var "x") (.const 1))
    let batches : List (String → ASig (Fin 3)) := [fun _ => [(Tm.fin 0, 0)], fun _ => [(Tm.fin 1, 2)]]
    onFragIA φ = true ∧ onFrag φ = false ∧ noPartialOps φ = true ∧ w.WF φ.vars ∧ StartsAt0 w φ.vars ∧
      ValidChunks w φ.vars batches ∧ ∃ outs, runOn {} φ batches = .ok outs ∧ StreamOK outs 0 (rhoD {} w φ) := by
  intro w φ batches
  have hx : ∀ x, x ∈ φ.vars → x = "x" := fun x hx => by simpa [φ, F.vars] using hx
  have hfrag : onFragIA φ = true := by simp [φ, onFragIA, isConst]
  have hnp : noPartialOps φ = true := by simp [φ, noPartialOps]
  have hw : w.WF φ.vars := by
    intro x h
    rw [hx x h]
    simp [w, DEnv.sig, DSig.times, List.lookup]
  have h0 : StartsAt0 w φ.vars := by
    intro x h
    rw [hx x h]
    simp [w, DEnv.sig, DSig.times, List.lookup]
  have hch : ValidChunks w φ.vars batches := by
    intro x h
    rw [hx x h]
    exact ⟨[], by simp [batches, w, DEnv.sig, List.lookup, ofDSig]⟩
  obtain ⟨outs, he⟩ := C06_online_ia_total_partial {} (by decide) w φ hfrag hnp hw h0 batches hch
  exact ⟨hfrag, by simp [φ, onFrag], hnp, hw, h0, hch, outs, he,
    C06_online_ia_partial {} (by decide) w φ hfrag hw h0 hsub3 hkey3 hcmp3 batches hch he⟩

end IAWitness

end Rtamt.Dense.AlgOn
