/-
  Dense time, online (C05): `MultiplicationOperation` (`binUpdateNL`): `last_output` is cleared at every update, so the
  test "drop the first result sample when it equals `last_output`" never fires and the sample at the last time stamp is
  returned again by the next update.  The buffers evolve exactly as with `binUpdate`; the returned batch is the whole
  result of the intersection (`finish out τ v`), which starts with the sample the previous batch ended with.  The
  emitted stream is the stream of `binUpdate` with that sample repeated (`eok_dup`).
-/
import RtamtProofs.Dense.OnBin

namespace Rtamt.Dense.AlgOn
open Rtamt Val Rtamt.Dense.Alg

namespace BinNLAux
open InterAux BinAux
attribute [local instance] InterAux.tmOrder

variable {α β : Type}
set_option linter.unusedVariables false

/-! ### repeating the last emitted sample -/

/-- The sample the emitted stream ends with is repeated in front of the new samples: still an `EOK` stream. -/
theorem eok_dup {Gt : Rat → Option β} {E T : ASig β} {p : Tm × β} {τ : Rat} {v' : β} (hw : Weak E)
    (hp : E.getLast? = some p) (hs : Sorted (p :: T)) (h : EOK Gt (E ++ T) τ v') : EOK Gt (E ++ p :: T) τ v' := by
  have hEne : E ≠ [] := by intro e; rw [e] at hp; simp at hp
  have hpE : p ∈ E := List.mem_of_getLast? hp
  have hsr := (sorted_iff _).1 hs
  rw [times_cons, List.pairwise_cons] at hsr
  have hpT : ∀ y ∈ T, p.1 < y.1 := fun y hy => hsr.1 y.1 (mem_times hy)
  have hY : T = [] ∨ p.1 < hd T := by
    cases T with
    | nil => exact Or.inl rfl
    | cons z r => obtain ⟨z1, z2⟩ := z; exact Or.inr (hpT (z1, z2) (by simp))
  have hEle : ∀ x ∈ times E, x ≤ p.1 := times_le_of (hw.le_last hp)
  refine ⟨?_, ?_, ?_, ?_, ?_⟩
  · unfold Weak
    rw [List.pairwise_append]
    refine ⟨hw, weak_of_sorted hs, ?_⟩
    intro x hx y hy
    rcases List.mem_cons.1 hy with rfl | hy
    · rcases List.eq_nil_or_concat E with rfl | ⟨init, q, rfl⟩
      · exact absurd rfl hEne
      · rw [List.concat_eq_append] at hw hp hx
        rw [List.getLast?_concat] at hp
        obtain rfl : q = y := Option.some.inj hp
        rcases List.mem_append.1 hx with hx | hx
        · exact (List.pairwise_append.1 hw).2.2 x hx q (by simp)
        · right; simpa using hx
    · exact (List.pairwise_append.1 h.weak).2.2 x hx y hy
  · have := h.head
    cases E with
    | nil => exact absurd rfl hEne
    | cons a E' => simpa [times] using this
  · rw [← h.last]
    cases T with
    | nil =>
      rw [List.append_nil, hp, List.getLast?_append]
      simp
    | cons z r =>
      rw [List.getLast?_append, List.getLast?_append, List.getLast?_cons_cons]
  · intro x hx
    rw [times_append, List.mem_append, times_cons, List.mem_cons] at hx
    rcases hx with hx | rfl | hx
    · exact h.le x (by rw [times_append]; exact List.mem_append_left _ hx)
    · exact h.le _ (by rw [times_append]; exact List.mem_append_left _ (mem_times hpE))
    · exact h.le x (by rw [times_append]; exact List.mem_append_right _ hx)
  · intro t h0 h1
    rw [← h.val t h0 h1]
    have e : E ++ p :: T = (E ++ [p]) ++ T := by simp
    rw [e]
    refine valAtA_append_congr (L := p.1) ?_ hEle hY t (valAtA_snoc_dup hw hp t)
    intro x hx
    rw [times_append, List.mem_append] at hx
    rcases hx with hx | hx
    · exact hEle x hx
    · have : x = p.1 := by simpa [times] using hx
      rw [this]

/-! ### `binUpdateNL`, computationally -/

section upd
variable [Val α] [LawfulVal α]
set_option linter.unusedSectionVars false

theorem binUpdateNL_empty (f : α → α → α) (st : BinSt α) (sl sr : ASig α)
    (h : joinBuf st.buf1 sl = [] ∨ joinBuf st.buf2 sr = []) :
    binUpdateNL f st sl sr =
      .ok ({ buf1 := joinBuf st.buf1 sl, buf2 := joinBuf st.buf2 sr, lastOut := none }, []) := by
  unfold binUpdateNL
  exact binUpdate_empty f { st with lastOut := none } sl sr h

/-- The whole result of the intersection is returned: nothing is dropped. -/
theorem binUpdateNL_of_inter (f : α → α → α) (st : BinSt α) (sl sr : ASig α) (out : ASig α) (t : Tm) (v : α)
    (r1 r2 : ASig α) (h : interOn f vne (joinBuf st.buf1 sl) (joinBuf st.buf2 sr) = .ok (out, .item t v, r1, r2)) :
    binUpdateNL f st sl sr =
      .ok ({ buf1 := r1, buf2 := r2, lastOut := newLast none (finish out t v) }, finish out t v) := by
  unfold binUpdateNL
  have := binUpdate_of_inter f { st with lastOut := none } sl sr out t v r1 r2 h
  simpa only [dropFirst_none] using this

/-! ### one update, semantically -/

/-- `binUpdate_sem` for `binUpdateNL`: the same buffers and frontier; the returned batch is the full result. -/
theorem binUpdateNL_sem (f : α → α → α) (g1 g2 : Rat → Option α) (st : BinSt α) (sl sr : ASig α) (lam1 lam2 : Tm)
    (E : ASig α) (μ : Rat)
    (h1 : Track g1 (joinBuf st.buf1 sl) lam1) (h2 : Track g2 (joinBuf st.buf2 sr) lam2)
    (hfin : FinOr (joinBuf st.buf1 sl) (joinBuf st.buf2 sr)) (ht : Touch (joinBuf st.buf1 sl) (joinBuf st.buf2 sr))
    (hμ : max (hd (joinBuf st.buf1 sl)) (hd (joinBuf st.buf2 sr)) = Tm.fin μ)
    (hph : (E = [] ∧ μ = 0) ∨ ∃ v, EOK (lift2 f g1 g2) E μ v) :
    ∃ r1 r2 o τ v', binUpdateNL f st sl sr = .ok ({ buf1 := r1, buf2 := r2, lastOut := some (Tm.fin τ, v') }, o) ∧
      EOK (lift2 f g1 g2) (E ++ o) τ v' ∧ Sorted o ∧ Suf (joinBuf st.buf1 sl) r1 ∧ Suf (joinBuf st.buf2 sr) r2 ∧
      Track g1 r1 lam1 ∧ Track g2 r2 lam2 ∧ Touch r1 r2 ∧ max (hd r1) (hd r2) = Tm.fin τ := by
  have hup0 := binUpdateNL_of_inter f st sl sr
  generalize hb1 : joinBuf st.buf1 sl = b1 at *
  generalize hb2 : joinBuf st.buf2 sr = b2 at *
  obtain ⟨hf1, hf2⟩ := ne_inf_of_max hμ
  have hst : LoopSt f (lift2 f (valAtA b1) (valAtA b2)) μ b1 b2 [] :=
    ⟨h1.good, h2.good, hfin, hf1, hf2, ht, by rw [hμ]; exact OutInv.nil _ _, fun t _ => rfl⟩
  obtain ⟨out', τ, v', r1, r2, hi, hR⟩ := interOn_spec f vne (fun a b => (vne_eq_false_iff a b).1) _ μ b1 b2 hst
  have hup := hup0 out' (Tm.fin τ) v' r1 r2 hi
  obtain ⟨hg1, hg2⟩ := ne_inf_of_max hR.front
  have hn1 : r1 ≠ [] := ne_nil_of_hd hg1
  have hn2 : r2 ≠ [] := ne_nil_of_hd hg2
  have hτ1 : Tm.fin τ ≤ lam1 := by
    rw [← hR.front]
    exact max_le (h1.le _ (hR.suf1.times_sub (hd_mem hn1)))
      (le_trans hR.touch.1 (h1.le _ (hR.suf1.times_sub (nxt_mem hn1))))
  have hτ2 : Tm.fin τ ≤ lam2 := by
    rw [← hR.front]
    exact max_le (le_trans hR.touch.2 (h2.le _ (hR.suf2.times_sub (nxt_mem hn2))))
      (h2.le _ (hR.suf2.times_sub (hd_mem hn2)))
  have hag : ∀ t, μ ≤ t → t ≤ τ → lift2 f (valAtA b1) (valAtA b2) t = lift2 f g1 g2 t := by
    intro t ht1 ht2
    have hμt : Tm.fin μ ≤ Tm.fin t := (fin_le_fin _ _).2 ht1
    have htτ : Tm.fin t ≤ Tm.fin τ := (fin_le_fin _ _).2 ht2
    exact lift2_congr f t
      (h1.ok t (le_trans (by rw [← hμ]; exact le_max_left _ _) hμt) (le_trans htτ hτ1))
      (h2.ok t (le_trans (by rw [← hμ]; exact le_max_right _ _) hμt) (le_trans htτ hτ2))
  have hT1 : Track g1 r1 lam1 := h1.suf hR.suf1 hn1 hR.good1
  have hT2 : Track g2 r2 lam2 := h2.suf hR.suf2 hn2 hR.good2
  have hl : newLast none (finish out' (Tm.fin τ) v') = some (Tm.fin τ, v') := by
    unfold newLast; rw [hR.res.last]
  rw [hl] at hup
  rcases hph with ⟨hE, hμ0⟩ | ⟨v, hE⟩
  · subst hE hμ0
    have hEOK : EOK (lift2 f g1 g2) (finish out' (Tm.fin τ) v') τ v' := EOK.start hR.res hag
    exact ⟨r1, r2, _, τ, v', hup, by simpa using hEOK, hR.res.sorted, hR.suf1, hR.suf2, hT1, hT2, hR.touch, hR.front⟩
  · have hμτ := hR.res.le_tau
    have hv : lift2 f (valAtA b1) (valAtA b2) μ = some v := by
      rw [hag μ le_rfl hμτ, ← hE.val μ _ le_rfl]
      · exact valAtA_last _ _ _ hE.last hE.le
      · have := hE.head
        cases E with
        | nil => simp [times] at this
        | cons a r =>
          have e : a.1 = Tm.fin 0 := by simpa [times] using this
          have := hE.le a.1 (by simp [times])
          rw [e] at this
          exact (fin_le_fin _ _).1 this
    obtain ⟨hres, hEOK⟩ := hE.step hR.res hv hag
    have hs : Sorted ((Tm.fin μ, v) :: (finish out' (Tm.fin τ) v').tail) := by
      rw [← hres]; exact hR.res.sorted
    have hdup := eok_dup hE.weak hE.last hs hEOK
    rw [← hres] at hdup
    exact ⟨r1, r2, _, τ, v', hup, hdup, hR.res.sorted, hR.suf1, hR.suf2, hT1, hT2, hR.touch, hR.front⟩

end upd

/-! ### the step under the phase invariant -/

section run
variable [Val α] [LawfulVal α]
set_option linter.unusedSectionVars false

/-- `stepG` for `binUpdateNL` (the state's `lastOut` follows the same pattern: `none` until the first emission, then the
    last emitted sample; `E` is the emitted stream, repetitions included). -/
theorem stepGN (f : α → α → α) (g1 g2 : Rat → Option α) (st : BinSt α) (L R E : ASig α)
    (hph : Phase (lift2 f g1 g2) st E)
    (hz1 : st.lastOut = none → joinBuf st.buf1 L ≠ [] → hd (joinBuf st.buf1 L) = Tm.fin 0)
    (hz2 : st.lastOut = none → joinBuf st.buf2 R ≠ [] → hd (joinBuf st.buf2 R) = Tm.fin 0)
    (hT1 : joinBuf st.buf1 L ≠ [] → ∃ lam, Track g1 (joinBuf st.buf1 L) lam)
    (hT2 : joinBuf st.buf2 R ≠ [] → ∃ lam, Track g2 (joinBuf st.buf2 R) lam)
    (hfin : FinOr (joinBuf st.buf1 L) (joinBuf st.buf2 R)) :
    ∃ st' o, binUpdateNL f st L R = .ok (st', o) ∧ Sorted o ∧ (∀ x ∈ o, x.1 ≠ Tm.inf) ∧
      Phase (lift2 f g1 g2) st' (E ++ o) ∧ KeepOrSuf (joinBuf st.buf1 L) st'.buf1 ∧
      KeepOrSuf (joinBuf st.buf2 R) st'.buf2 := by
  by_cases hemp : joinBuf st.buf1 L = [] ∨ joinBuf st.buf2 R = []
  · rcases hph with ⟨hlo, hE, _, h01, h02⟩ | ⟨μ, v, _, _, _, hμ⟩
    · exact ⟨_, [], binUpdateNL_empty f st L R hemp, by simp [Sorted, times], by simp,
        Or.inl ⟨rfl, by simpa using hE, hemp, hz1 hlo, hz2 hlo⟩, Or.inl rfl, Or.inl rfl⟩
    · exfalso
      obtain ⟨hf1, hf2⟩ := ne_inf_of_max hμ
      obtain ⟨z1, hz1⟩ := joinBuf_append st.buf1 L
      obtain ⟨z2, hz2⟩ := joinBuf_append st.buf2 R
      rcases hemp with h | h
      · rw [hz1] at h
        exact ne_nil_of_hd hf1 (List.append_eq_nil_iff.1 h).1
      · rw [hz2] at h
        exact ne_nil_of_hd hf2 (List.append_eq_nil_iff.1 h).1
  · rw [not_or] at hemp
    obtain ⟨lam1, hT1⟩ := hT1 hemp.1
    obtain ⟨lam2, hT2⟩ := hT2 hemp.2
    have key : ∃ μ, Touch (joinBuf st.buf1 L) (joinBuf st.buf2 R) ∧
        max (hd (joinBuf st.buf1 L)) (hd (joinBuf st.buf2 R)) = Tm.fin μ ∧
        ((E = [] ∧ μ = 0) ∨ ∃ v, EOK (lift2 f g1 g2) E μ v) := by
      rcases hph with ⟨hlo, hE, _, h01, h02⟩ | ⟨μ, v, hlo, hE, ht, hμ⟩
      · have e1 := hz1 hlo hemp.1
        have e2 := hz2 hlo hemp.2
        refine ⟨0, ⟨?_, ?_⟩, by rw [e1, e2, max_self], Or.inl ⟨hE, rfl⟩⟩
        · rw [e2, ← e1]; exact hd_le_nxt hT1.good
        · rw [e1, ← e2]; exact hd_le_nxt hT2.good
      · obtain ⟨hf1, hf2⟩ := ne_inf_of_max hμ
        obtain ⟨e1, n1⟩ := join_touch (L := L) (ne_nil_of_hd hf1) hT1.good
        obtain ⟨e2, n2⟩ := join_touch (L := R) (ne_nil_of_hd hf2) hT2.good
        refine ⟨μ, ⟨?_, ?_⟩, by rw [e1, e2, hμ], Or.inr ⟨v, hE⟩⟩
        · rw [e2]; exact le_trans ht.1 n1
        · rw [e1]; exact le_trans ht.2 n2
    obtain ⟨μ, ht, hμ, hph'⟩ := key
    obtain ⟨r1, r2, o, τ, v', hup, hEOK, hso, hs1, hs2, hT1', hT2', ht', hτ⟩ :=
      binUpdateNL_sem f g1 g2 st L R lam1 lam2 E μ hT1 hT2 hfin ht hμ hph'
    obtain ⟨hg1, hg2⟩ := ne_inf_of_max hτ
    exact ⟨_, o, hup, hso, eok_fin hEOK, Or.inr ⟨τ, v', rfl, hEOK, ht', hτ⟩, Or.inr ⟨hs1, hg1⟩, Or.inr ⟨hs2, hg2⟩⟩

/-! ### the runs over the streams -/

/-- Two operand streams. -/
theorem run2N (f : α → α → α) (g1 g2 : Rat → Option α) (W1 W2 : ASig α) (hW1 : StreamW g1 W1) (hW2 : StreamW g2 W2) :
    ∀ (rest : List (ASig α × ASig α)) (I1 I2 : ASig α) (st : BinSt α) (E : ASig α),
      I1 ++ (rest.map Prod.fst).flatten = W1 → I2 ++ (rest.map Prod.snd).flatten = W2 →
      (∀ B ∈ rest, Sorted B.1 ∧ Sorted B.2) → BufOK I1 st.buf1 → BufOK I2 st.buf2 → Phase (lift2 f g1 g2) st E →
      ∃ st' outs, runBin (binUpdateNL f) st rest = .ok (st', outs) ∧
        (∀ B ∈ outs, Sorted B ∧ ∀ x ∈ B, x.1 ≠ Tm.inf) ∧ Phase (lift2 f g1 g2) st' (E ++ outs.flatten)
  | [], I1, I2, st, E, _, _, _, _, _, hph => ⟨st, [], rfl, by simp, by simpa using hph⟩
  | (L, R) :: rest, I1, I2, st, E, e1, e2, hs, hB1, hB2, hph => by
    simp only [List.map_cons, List.flatten_cons] at e1 e2
    rw [← List.append_assoc] at e1 e2
    obtain ⟨hL, hR⟩ := hs (L, R) (by simp)
    have hWa : StreamW g1 (I1 ++ L ++ (rest.map Prod.fst).flatten) := by rw [e1]; exact hW1
    have hWb : StreamW g2 (I2 ++ R ++ (rest.map Prod.snd).flatten) := by rw [e2]; exact hW2
    have hfL : ∀ x ∈ L, x.1 ≠ Tm.inf := fun x hx => hWa.fin x (by simp [hx])
    have hfR : ∀ x ∈ R, x.1 ≠ Tm.inf := fun x hx => hWb.fin x (by simp [hx])
    have hJ1 : BufOK (I1 ++ L) (joinBuf st.buf1 L) := hB1.join hWa.weak.prefix hL hfL
    have hJ2 : BufOK (I2 ++ R) (joinBuf st.buf2 R) := hB2.join hWb.weak.prefix hR hfR
    obtain ⟨st', o, hup, hso, hfo, hph', hk1, hk2⟩ := stepGN f g1 g2 st L R E hph
      (phase_hz hph hB1 hWa (phase_h01 hph)) (phase_hz hph hB2 hWb (phase_h02 hph))
      (fun hne => by obtain ⟨p, _, hT⟩ := track_of_bufOK hJ1 hne hWa; exact ⟨_, hT⟩)
      (fun hne => by obtain ⟨p, _, hT⟩ := track_of_bufOK hJ2 hne hWb; exact ⟨_, hT⟩)
      (Or.inl hJ1.fin)
    obtain ⟨st'', os, hrun, hbs, hfin⟩ := run2N f g1 g2 W1 W2 hW1 hW2 rest (I1 ++ L) (I2 ++ R) st' (E ++ o) e1 e2
      (fun B hB => hs B (List.mem_cons_of_mem _ hB)) (hJ1.keep hk1) (hJ2.keep hk2) hph'
    refine ⟨st'', o :: os, runBin_cons _ _ _ _ _ _ _ _ _ hup hrun, ?_, ?_⟩
    · intro B hB
      rcases List.mem_cons.1 hB with rfl | hB
      · exact ⟨hso, hfo⟩
      · exact hbs B hB
    · simpa [List.append_assoc] using hfin

/-- The right operand is a constant node. -/
theorem runRN (f : α → α → α) (g1 : Rat → Option α) (c : α) (W1 : ASig α) (hW1 : StreamW g1 W1) :
    ∀ (Ls Cs : List (ASig α)) (I1 : ASig α) (st : BinSt α) (E : ASig α),
      I1 ++ Ls.flatten = W1 → (∀ B ∈ Ls, Sorted B) → (∀ C ∈ Cs, CBatch c C) → BufOK I1 st.buf1 → CBuf c st.buf2 →
      Phase (lift2 f g1 (fun _ => some c)) st E →
      ∃ st' outs, runBin (binUpdateNL f) st (Ls.zip Cs) = .ok (st', outs) ∧
        (∀ B ∈ outs, Sorted B ∧ ∀ x ∈ B, x.1 ≠ Tm.inf) ∧
        Phase (lift2 f g1 (fun _ => some c)) st' (E ++ outs.flatten)
  | [], _, I1, st, E, _, _, _, _, _, hph => ⟨st, [], by rw [List.zip_nil_left]; rfl, by simp, by simpa using hph⟩
  | _ :: _, [], I1, st, E, _, _, _, _, _, hph => ⟨st, [], by rw [List.zip_nil_right]; rfl, by simp, by simpa using hph⟩
  | L :: Ls, C :: Cs, I1, st, E, e1, hs, hCs, hB, hC, hph => by
    simp only [List.flatten_cons] at e1
    rw [← List.append_assoc] at e1
    have hW : StreamW g1 (I1 ++ L ++ Ls.flatten) := by rw [e1]; exact hW1
    have hL : Sorted L := hs L (by simp)
    have hfL : ∀ x ∈ L, x.1 ≠ Tm.inf := fun x hx => hW.fin x (by simp [hx])
    have hB1 : BufOK (I1 ++ L) (joinBuf st.buf1 L) := hB.join hW.weak.prefix hL hfL
    have hCj : CBuf c (joinBuf st.buf2 C) := hC.joinB (hCs C (by simp))
    obtain ⟨st', o, hup, hso, hfo, hph', hk1, hk2⟩ := stepGN f g1 (fun _ => some c) st L C E hph
      (phase_hz hph hB hW (phase_h01 hph))
      (fun _ hne => hCj.hd_zero hne)
      (fun hne => by obtain ⟨p, _, hT⟩ := track_of_bufOK hB1 hne hW; exact ⟨_, hT⟩)
      (fun hne => hCj.track hne)
      (Or.inl hB1.fin)
    obtain ⟨st'', os, hrun, hbs, hfin⟩ := runRN f g1 c W1 hW1 Ls Cs (I1 ++ L) st' (E ++ o) e1
      (fun B hB => hs B (List.mem_cons_of_mem _ hB)) (fun C' hC' => hCs C' (List.mem_cons_of_mem _ hC'))
      (hB1.keep hk1) (hCj.keepB hk2) hph'
    refine ⟨st'', o :: os, ?_, ?_, ?_⟩
    · rw [List.zip_cons_cons]
      exact runBin_cons _ _ _ _ _ _ _ _ _ hup hrun
    · intro B hB
      rcases List.mem_cons.1 hB with rfl | hB
      · exact ⟨hso, hfo⟩
      · exact hbs B hB
    · simpa [List.append_assoc] using hfin

/-- The left operand is a constant node. -/
theorem runLN (f : α → α → α) (g2 : Rat → Option α) (c : α) (W2 : ASig α) (hW2 : StreamW g2 W2) :
    ∀ (Rs Cs : List (ASig α)) (I2 : ASig α) (st : BinSt α) (E : ASig α),
      I2 ++ Rs.flatten = W2 → (∀ B ∈ Rs, Sorted B) → (∀ C ∈ Cs, CBatch c C) → CBuf c st.buf1 → BufOK I2 st.buf2 →
      Phase (lift2 f (fun _ => some c) g2) st E →
      ∃ st' outs, runBin (binUpdateNL f) st (Cs.zip Rs) = .ok (st', outs) ∧
        (∀ B ∈ outs, Sorted B ∧ ∀ x ∈ B, x.1 ≠ Tm.inf) ∧
        Phase (lift2 f (fun _ => some c) g2) st' (E ++ outs.flatten)
  | [], _, I2, st, E, _, _, _, _, _, hph => ⟨st, [], by rw [List.zip_nil_right]; rfl, by simp, by simpa using hph⟩
  | _ :: _, [], I2, st, E, _, _, _, _, _, hph => ⟨st, [], by rw [List.zip_nil_left]; rfl, by simp, by simpa using hph⟩
  | R :: Rs, C :: Cs, I2, st, E, e2, hs, hCs, hC, hB, hph => by
    simp only [List.flatten_cons] at e2
    rw [← List.append_assoc] at e2
    have hW : StreamW g2 (I2 ++ R ++ Rs.flatten) := by rw [e2]; exact hW2
    have hR : Sorted R := hs R (by simp)
    have hfR : ∀ x ∈ R, x.1 ≠ Tm.inf := fun x hx => hW.fin x (by simp [hx])
    have hB2 : BufOK (I2 ++ R) (joinBuf st.buf2 R) := hB.join hW.weak.prefix hR hfR
    have hCj : CBuf c (joinBuf st.buf1 C) := hC.joinB (hCs C (by simp))
    obtain ⟨st', o, hup, hso, hfo, hph', hk1, hk2⟩ := stepGN f (fun _ => some c) g2 st C R E hph
      (fun _ hne => hCj.hd_zero hne) (phase_hz hph hB hW (phase_h02 hph))
      (fun hne => hCj.track hne)
      (fun hne => by obtain ⟨p, _, hT⟩ := track_of_bufOK hB2 hne hW; exact ⟨_, hT⟩)
      (Or.inr hB2.fin)
    obtain ⟨st'', os, hrun, hbs, hfin⟩ := runLN f g2 c W2 hW2 Rs Cs (I2 ++ R) st' (E ++ o) e2
      (fun B hB => hs B (List.mem_cons_of_mem _ hB)) (fun C' hC' => hCs C' (List.mem_cons_of_mem _ hC'))
      (hCj.keepB hk1) (hB2.keep hk2) hph'
    refine ⟨st'', o :: os, ?_, ?_, ?_⟩
    · rw [List.zip_cons_cons]
      exact runBin_cons _ _ _ _ _ _ _ _ _ hup hrun
    · intro B hB
      rcases List.mem_cons.1 hB with rfl | hB
      · exact ⟨hso, hfo⟩
      · exact hbs B hB
    · simpa [List.append_assoc] using hfin

end run

end BinNLAux

/-! ### the theorems of the group -/

variable {α : Type} [Val α] [LawfulVal α]

open BinAux BinNLAux in
/-- `MultiplicationOperation` (`binUpdateNL`: `last_output` is cleared at every update, so the sample at the last time stamp
    is returned again by the next update): the same contract as `binStream_ok`. -/
theorem binStreamNL_ok (f : α → α → α) {Ls Rs : List (ASig α)} (hlen : Ls.length = Rs.length)
    {g1 g2 : Rat → Option α} (h1 : StreamOK Ls 0 g1) (h2 : StreamOK Rs 0 g2) :
    ∃ st outs, runBin (binUpdateNL f) {} (Ls.zip Rs) = .ok (st, outs) ∧ StreamOK outs 0 (lift2 f g1 g2) := by
  have e1 : (Ls.zip Rs).map Prod.fst = Ls := List.map_fst_zip (le_of_eq hlen)
  have e2 : (Ls.zip Rs).map Prod.snd = Rs := List.map_snd_zip (le_of_eq hlen.symm)
  obtain ⟨st, outs, hrun, hbs, hph⟩ := run2N f g1 g2 Ls.flatten Rs.flatten (StreamW.of_ok h1) (StreamW.of_ok h2)
    (Ls.zip Rs) [] [] {} [] (by rw [e1]; rfl) (by rw [e2]; rfl)
    (by
      intro B hB
      obtain ⟨B1, B2⟩ := B
      have := List.of_mem_zip hB
      exact ⟨h1.1.batch_sorted B1 this.1, h2.1.batch_sorted B2 this.2⟩)
    BufOK.nil BufOK.nil (phase_init _)
  refine ⟨st, outs, hrun, streamOK_of_E hbs ?_⟩
  simpa using phase_E hph

open BinAux BinNLAux in
theorem binStreamNL_const_right (f : α → α → α) (c : α) {Ls : List (ASig α)} {g1 : Rat → Option α} (h1 : StreamOK Ls 0 g1) :
    ∃ st outs, runBin (binUpdateNL f) {} (Ls.zip (constStream c Ls.length)) = .ok (st, outs) ∧
      StreamOK outs 0 (fun t => (g1 t).map (fun a => f a c)) := by
  obtain ⟨st, outs, hrun, hbs, hph⟩ := runRN f g1 c Ls.flatten (StreamW.of_ok h1) Ls
    (constStream c Ls.length) [] {} [] rfl h1.1.batch_sorted (cbatch_constStream c _) BufOK.nil (Or.inl rfl) (phase_init _)
  refine ⟨st, outs, hrun, streamOK_congr (streamOK_of_E hbs ?_) (lift2_const_right f g1 c)⟩
  simpa using phase_E hph

open BinAux BinNLAux in
theorem binStreamNL_const_left (f : α → α → α) (c : α) {Rs : List (ASig α)} {g2 : Rat → Option α} (h2 : StreamOK Rs 0 g2) :
    ∃ st outs, runBin (binUpdateNL f) {} ((constStream c Rs.length).zip Rs) = .ok (st, outs) ∧
      StreamOK outs 0 (fun t => (g2 t).map (fun b => f c b)) := by
  obtain ⟨st, outs, hrun, hbs, hph⟩ := runLN f g2 c Rs.flatten (StreamW.of_ok h2) Rs
    (constStream c Rs.length) [] {} [] rfl h2.1.batch_sorted (cbatch_constStream c _) (Or.inl rfl) BufOK.nil (phase_init _)
  refine ⟨st, outs, hrun, streamOK_congr (streamOK_of_E hbs ?_) (lift2_const_left f g2 c)⟩
  simpa using phase_E hph

end Rtamt.Dense.AlgOn
