/-
  Dense time, M-alg: the bounded future operators `eventually[a,b]` / `always[a,b]`
  (`eventually_timed_operation` / `always_timed_operation`, mirror `backTimed`).

  The proof is generic in the comparison `worse` (only: asymmetric and negatively transitive):

  * `GoodB B`: shape of the pushed segments `b_i .. b_n` (`lo` strictly increasing, `hi` non-decreasing,
    consecutive segments overlap or touch, the last one is unbounded);
  * `Chain out`: the list of segments is a partition of `[lo, ∞)` into consecutive non-empty half-open
    segments (only the last one may be the empty `[inf, inf)`), the last one is unbounded;
  * `Mono out H`: the values do not get worse along the list as long as the segments start before `H`;
  * `Sem B out`: the value of the segment containing `t` is a best value among the pushed segments
    containing `t`;
  * `InfTail out`: a last segment `[inf, inf)` (operand whose last stamp is `inf`, see `InfOK`) repeats the
    value of the segment before it; it becomes the output sample stamped `inf`.

  `popWhileB` never raises (the last segment is unbounded and is never removed), the non-intersecting branch
  of `pushSegB` is unreachable for `a ≤ b`, and no degenerate segment other than that last `[inf, inf)` occurs.
-/
import RtamtProofs.Dense.AlgDefs
import Mathlib.Tactic.Linarith
import Mathlib.Tactic.Order
import Mathlib.Order.Bounds.Basic

namespace Rtamt.Dense.Alg.BackAux
open Rtamt Val Rtamt.Dense Rtamt.Dense.Alg

/-! ### the order on time stamps -/

/-- The linear order decided by `Tm.le` / `Tm.lt` (local to this file). -/
@[instance_reducible] def tmLO : LinearOrder Tm where
  le x y := Tm.le x y = true
  lt x y := Tm.lt x y = true
  le_refl x := by cases x <;> simp [Tm.le, Tm.lt]
  le_trans x y z := by
    cases x <;> cases y <;> cases z <;> simp [Tm.le, Tm.lt]
    intros; linarith
  lt_iff_le_not_ge x y := by
    cases x <;> cases y <;> simp [Tm.le, Tm.lt]
    exact le_of_lt
  le_antisymm x y := by
    cases x <;> cases y <;> simp [Tm.le, Tm.lt]
    intro h1 h2; exact le_antisymm h1 h2
  le_total x y := by
    cases x <;> cases y <;> simp [Tm.le, Tm.lt]
    exact le_total _ _
  toDecidableLE := fun x y => inferInstanceAs (Decidable (Tm.le x y = true))
  toDecidableLT := fun x y => inferInstanceAs (Decidable (Tm.lt x y = true))
  toDecidableEq := inferInstance

attribute [local instance] tmLO

theorem lt_iff (x y : Tm) : Tm.lt x y = true ↔ x < y := Iff.rfl
theorem le_iff (x y : Tm) : Tm.le x y = true ↔ x ≤ y := Iff.rfl
theorem lt_false_iff (x y : Tm) : Tm.lt x y = false ↔ y ≤ x := by
  rw [← not_lt, ← lt_iff]; simp
theorem le_false_iff (x y : Tm) : Tm.le x y = false ↔ y < x := by
  rw [← not_le, ← le_iff]; simp

theorem fin_lt_fin (p q : Rat) : Tm.fin p < Tm.fin q ↔ p < q := by
  rw [← lt_iff]; simp [Tm.lt]
theorem fin_le_fin (p q : Rat) : Tm.fin p ≤ Tm.fin q ↔ p ≤ q := by
  rw [← not_lt, fin_lt_fin, not_lt]
theorem fin_lt_inf (p : Rat) : Tm.fin p < Tm.inf := by
  rw [← lt_iff]; rfl
theorem le_inf (x : Tm) : x ≤ Tm.inf := by
  rw [← not_lt, ← lt_iff]; simp [Tm.lt]
theorem not_inf_lt (x : Tm) : ¬ Tm.inf < x := not_lt.2 (le_inf x)
theorem not_inf_le_fin (p : Rat) : ¬ Tm.inf ≤ Tm.fin p := not_le.2 (fin_lt_inf p)

theorem sub_le_fin (τ : Tm) (q t : Rat) : τ.sub q ≤ Tm.fin t ↔ τ ≤ Tm.fin (t + q) := by
  cases τ with
  | fin p => simp only [Tm.sub, fin_le_fin]; constructor <;> intro h <;> linarith
  | inf => simp only [Tm.sub]; exact iff_of_false (not_inf_le_fin _) (not_inf_le_fin _)

theorem fin_lt_sub (τ : Tm) (q t : Rat) : Tm.fin t < τ.sub q ↔ Tm.fin (t + q) < τ := by
  rw [← not_le, ← not_le, sub_le_fin]

theorem sub_lt_sub {τ τ' : Tm} (h : τ < τ') (q : Rat) : τ.sub q < τ'.sub q := by
  cases τ with
  | fin p =>
    cases τ' with
    | fin p' => rw [fin_lt_fin] at h; simp only [Tm.sub, fin_lt_fin]; linarith
    | inf => exact fin_lt_inf _
  | inf => exact absurd h (not_inf_lt _)

theorem sub_le_sub (τ : Tm) {q q' : Rat} (h : q ≤ q') : τ.sub q' ≤ τ.sub q := by
  cases τ with
  | fin p => simp only [Tm.sub, fin_le_fin]; linarith
  | inf => exact le_refl _


/-! ### segments, invariants -/

section generic
variable {α : Type}

/-- `t` lies in the half-open segment. -/
def tin (t : Rat) (c : Seg α) : Prop := c.lo ≤ Tm.fin t ∧ Tm.fin t < c.hi

/-- What is needed of the comparison: the negation of `worse` is a total preorder. -/
structure WorseOK (worse : α → α → Bool) : Prop where
  asymm : ∀ x y, worse x y = true → worse y x = false
  ntrans : ∀ x y z, worse x y = false → worse y z = false → worse x z = false

/-- `lo` of the first segment. -/
def hdlo : List (Seg α) → Tm
  | [] => Tm.inf
  | c :: _ => c.lo

def hdhi : List (Seg α) → Tm
  | [] => Tm.inf
  | c :: _ => c.hi

/-- Consecutive non-empty half-open segments, the last one unbounded (and possibly `[inf, inf)`). -/
def Chain : List (Seg α) → Prop
  | [] => False
  | [c] => c.hi = Tm.inf
  | c :: d :: rest => c.hi = d.lo ∧ c.lo < c.hi ∧ Chain (d :: rest)

/-- Shape of the pushed segments `b_i, …, b_n` (in the order of the samples). -/
def GoodB : List (Seg α) → Prop
  | [] => False
  | [b] => b.hi = Tm.inf
  | b :: b' :: rest => b.lo < b'.lo ∧ b'.lo ≤ b.hi ∧ b.hi ≤ b'.hi ∧ (b.hi = Tm.inf → b'.lo = Tm.inf) ∧
      (b'.lo = Tm.inf → b.v = b'.v) ∧ GoodB (b' :: rest)

def Mono (worse : α → α → Bool) (H : Tm) (out : List (Seg α)) : Prop :=
  out.Pairwise (fun c c' => c'.lo < H → worse c'.v c.v = false)

/-- `v` is the value of a pushed segment containing `t`, and no such segment has a better one. -/
def Best (worse : α → α → Bool) (B : List (Seg α)) (t : Rat) (v : α) : Prop :=
  (∃ b' ∈ B, tin t b' ∧ b'.v = v) ∧ ∀ b' ∈ B, tin t b' → worse v b'.v = false

def Sem (worse : α → α → Bool) (B out : List (Seg α)) : Prop :=
  ∀ c ∈ out, ∀ t, tin t c → Best worse B t c.v

structure Inv (worse : α → α → Bool) (B out : List (Seg α)) : Prop where
  chain : Chain out
  lo : hdlo out = hdlo B
  mono : Mono worse (hdhi B) out
  sem : Sem worse B out

/-- A last segment `[inf, inf)` (it becomes an output sample stamped `inf`) repeats the value before it. -/
def InfTail : List (Seg α) → Prop
  | c :: d :: rest => (d.lo = Tm.inf → c.v = d.v) ∧ InfTail (d :: rest)
  | _ => True

theorem infTail_tail {c : Seg α} : ∀ {tl : List (Seg α)}, InfTail (c :: tl) → InfTail tl
  | [], _ => trivial
  | _ :: _, h => h.2

theorem infTail_append : ∀ (pre : List (Seg α)) {l : List (Seg α)}, InfTail (pre ++ l) → InfTail l
  | [], _, h => h
  | _ :: pre, _, h => infTail_append pre (infTail_tail h)

theorem goodB_inf_single {b : Seg α} {B : List (Seg α)} (h : GoodB (b :: B)) (hb : b.lo = Tm.inf) : B = [] := by
  cases B with
  | nil => rfl
  | cons b' B' =>
    have := h.1
    rw [hb] at this
    exact absurd this (not_inf_lt _)

theorem chain_single (c : Seg α) : Chain [c] ↔ c.hi = Tm.inf := Iff.rfl

theorem chain_cons {c : Seg α} {tl : List (Seg α)} (h : tl ≠ []) :
    Chain (c :: tl) ↔ c.hi = hdlo tl ∧ c.lo < c.hi ∧ Chain tl := by
  cases tl with
  | nil => exact absurd rfl h
  | cons d r => exact Iff.rfl

theorem chain_ne_nil {out : List (Seg α)} (h : Chain out) : out ≠ [] := by
  rintro rfl; exact h

theorem chain_hdlo_le : ∀ {out : List (Seg α)}, Chain out → ∀ c ∈ out, hdlo out ≤ c.lo := by
  intro out
  induction out with
  | nil => intro h; exact h.elim
  | cons c0 tl ih =>
    intro h c hc
    rcases List.mem_cons.1 hc with rfl | hc
    · exact le_refl _
    · have hne : tl ≠ [] := List.ne_nil_of_mem hc
      obtain ⟨h1, h2, h3⟩ := (chain_cons hne).1 h
      have := ih h3 c hc
      show c0.lo ≤ c.lo
      order

theorem chain_hi_le {c0 : Seg α} {tl : List (Seg α)} (h : Chain (c0 :: tl)) : ∀ c ∈ tl, c0.hi ≤ c.lo := by
  intro c hc
  have hne : tl ≠ [] := List.ne_nil_of_mem hc
  obtain ⟨h1, h2, h3⟩ := (chain_cons hne).1 h
  have := chain_hdlo_le h3 c hc
  order

theorem chain_lo_le_hi : ∀ {out : List (Seg α)}, Chain out → ∀ c ∈ out, c.lo ≤ c.hi := by
  intro out
  induction out with
  | nil => intro h; exact h.elim
  | cons c0 tl ih =>
    intro h c hc
    by_cases hne : tl = []
    · subst hne
      rcases List.mem_cons.1 hc with rfl | hc
      · rw [(chain_single c).1 h]; exact le_inf _
      · simp at hc
    · obtain ⟨h1, h2, h3⟩ := (chain_cons hne).1 h
      rcases List.mem_cons.1 hc with rfl | hc
      · exact le_of_lt h2
      · exact ih h3 c hc

theorem chain_append : ∀ (pre : List (Seg α)) {a : Seg α} {rest : List (Seg α)},
    Chain (pre ++ a :: rest) → Chain (a :: rest) := by
  intro pre
  induction pre with
  | nil => intro a rest h; exact h
  | cons c0 pre ih =>
    intro a rest h
    have hne : pre ++ a :: rest ≠ [] := by simp
    exact ih ((chain_cons hne).1 h).2.2

/-- The popped prefix covers `[lo, a.lo)`. -/
theorem chain_pre_cover : ∀ (pre : List (Seg α)) {a : Seg α} {rest : List (Seg α)},
    Chain (pre ++ a :: rest) → ∀ t, hdlo (pre ++ a :: rest) ≤ Tm.fin t → Tm.fin t < a.lo →
    ∃ c ∈ pre, tin t c := by
  intro pre
  induction pre with
  | nil =>
    intro a rest _ t h1 h2
    exact absurd (lt_of_lt_of_le h2 h1) (lt_irrefl _)
  | cons c0 pre ih =>
    intro a rest h t h1 h2
    have hne : pre ++ a :: rest ≠ [] := by simp
    obtain ⟨e1, e2, e3⟩ := (chain_cons hne).1 h
    by_cases hlt : Tm.fin t < c0.hi
    · exact ⟨c0, List.mem_cons_self, h1, hlt⟩
    · have : hdlo (pre ++ a :: rest) ≤ Tm.fin t := by rw [← e1]; exact not_lt.1 hlt
      obtain ⟨c, hc, hct⟩ := ih e3 t this h2
      exact ⟨c, List.mem_cons_of_mem _ hc, hct⟩

theorem chain_pre_hi : ∀ (pre : List (Seg α)) {a : Seg α} {rest : List (Seg α)},
    Chain (pre ++ a :: rest) → pre ≠ [] → ∃ c ∈ pre, c.hi = a.lo := by
  intro pre
  induction pre with
  | nil => intro a rest _ h; exact absurd rfl h
  | cons c0 pre ih =>
    intro a rest h _
    have hne : pre ++ a :: rest ≠ [] := by simp
    obtain ⟨e1, e2, e3⟩ := (chain_cons hne).1 h
    by_cases hp : pre = []
    · subst hp
      exact ⟨c0, List.mem_cons_self, e1⟩
    · obtain ⟨c, hc, hce⟩ := ih e3 hp
      exact ⟨c, List.mem_cons_of_mem _ hc, hce⟩

/-- A chain covers `[lo, ∞)`. -/
theorem chain_cover : ∀ {out : List (Seg α)}, Chain out → ∀ t, hdlo out ≤ Tm.fin t → ∃ c ∈ out, tin t c := by
  intro out
  induction out with
  | nil => intro h; exact h.elim
  | cons c0 tl ih =>
    intro h t ht
    by_cases hne : tl = []
    · subst hne
      refine ⟨c0, List.mem_cons_self, ht, ?_⟩
      rw [(chain_single c0).1 h]; exact fin_lt_inf _
    · obtain ⟨e1, e2, e3⟩ := (chain_cons hne).1 h
      by_cases hlt : Tm.fin t < c0.hi
      · exact ⟨c0, List.mem_cons_self, ht, hlt⟩
      · have : hdlo tl ≤ Tm.fin t := by rw [← e1]; exact not_lt.1 hlt
        obtain ⟨c, hc, hct⟩ := ih e3 t this
        exact ⟨c, List.mem_cons_of_mem _ hc, hct⟩

theorem goodB_hdlo_le : ∀ {B : List (Seg α)}, GoodB B → ∀ b ∈ B, hdlo B ≤ b.lo := by
  intro B
  induction B with
  | nil => intro h; exact h.elim
  | cons b0 tl ih =>
    intro h b hb
    rcases List.mem_cons.1 hb with rfl | hb
    · exact le_refl _
    · cases tl with
      | nil => simp at hb
      | cons b1 tl =>
        obtain ⟨h1, _, _, _, _, h4⟩ := h
        have := ih h4 b hb
        show b0.lo ≤ b.lo
        have h1' : b0.lo < hdlo (b1 :: tl) := h1
        order


/-! ### `popWhileB`, `pushSegB` -/

theorem popWhileB_spec (worse : α → α → Bool) (b : Seg α) : ∀ out : List (Seg α), Chain out →
    ∃ pre a rest, out = pre ++ a :: rest ∧ popWhileB worse b out = .ok (a :: rest) ∧
      (∀ c ∈ pre, worse c.v b.v = true ∧ c.hi < b.hi) ∧ (worse a.v b.v = false ∨ b.hi ≤ a.hi) := by
  intro out
  induction out with
  | nil => intro h; exact h.elim
  | cons c tl ih =>
    intro h
    by_cases hc : worse c.v b.v = true ∧ c.hi < b.hi
    · have hne : tl ≠ [] := by
        rintro rfl
        rw [(chain_single c).1 h] at hc
        exact not_inf_lt _ hc.2
      obtain ⟨pre, a, rest, e, hp, hpre, ha⟩ := ih ((chain_cons hne).1 h).2.2
      refine ⟨c :: pre, a, rest, by rw [e]; rfl, ?_, ?_, ha⟩
      · have : (worse c.v b.v && Tm.lt c.hi b.hi) = true := by
          rw [Bool.and_eq_true]; exact ⟨hc.1, (lt_iff _ _).2 hc.2⟩
        rw [popWhileB, if_pos this]; exact hp
      · intro c' hc'
        rcases List.mem_cons.1 hc' with rfl | hc'
        · exact hc
        · exact hpre c' hc'
    · refine ⟨[], c, tl, rfl, ?_, by simp, ?_⟩
      · have : ¬ (worse c.v b.v && Tm.lt c.hi b.hi) = true := by
          rw [Bool.and_eq_true]; intro h'; exact hc ⟨h'.1, (lt_iff _ _).1 h'.2⟩
        rw [popWhileB, if_neg this]
      · by_cases hw : worse c.v b.v = true
        · right; exact not_lt.1 (fun h' => hc ⟨hw, h'⟩)
        · left; simpa using hw

/-- The list `pushSegB` builds from the front segment `a` that survived `popWhileB`. -/
def pushFront (worse : α → α → Bool) (b a : Seg α) (rest : List (Seg α)) : List (Seg α) :=
  if !intersects a.lo a.hi b.lo b.hi then b :: a :: rest
  else if !worse a.v b.v then ⟨b.lo, a.lo, b.v⟩ :: a :: rest
  else
    let rest1 := if Tm.lt b.hi a.hi then ⟨b.hi, a.hi, a.v⟩ :: rest else rest
    ⟨b.lo, b.hi, b.v⟩ :: rest1

theorem pushSegB_eq {worse : α → α → Bool} {b a : Seg α} {out rest : List (Seg α)} (hne : out ≠ [])
    (hp : popWhileB worse b out = .ok (a :: rest)) :
    pushSegB worse out b = .ok (pushFront worse b a rest) := by
  cases out with
  | nil => exact absurd rfl hne
  | cons c tl =>
    simp only [pushSegB, hp, pushFront, bind, Except.bind]
    split_ifs <;> rfl


/-! ### one push preserves the invariant -/

theorem WorseOK.irrefl {worse : α → α → Bool} (hw : WorseOK worse) (x : α) : worse x x = false := by
  cases h : worse x x with
  | false => rfl
  | true => exact (hw.asymm x x h).symm.trans h |>.symm ▸ rfl

theorem best_skip {worse : α → α → Bool} {B : List (Seg α)} {b : Seg α} {t : Rat} {v : α}
    (h : Best worse B t v) (hn : ¬ tin t b) : Best worse (b :: B) t v := by
  obtain ⟨⟨b', hb', ht, hv⟩, hall⟩ := h
  refine ⟨⟨b', List.mem_cons_of_mem _ hb', ht, hv⟩, ?_⟩
  intro b'' hb'' ht''
  rcases List.mem_cons.1 hb'' with rfl | hb''
  · exact absurd ht'' hn
  · exact hall b'' hb'' ht''

theorem best_keep {worse : α → α → Bool} {B : List (Seg α)} {b : Seg α} {t : Rat} {v : α}
    (h : Best worse B t v) (hg : worse v b.v = false) : Best worse (b :: B) t v := by
  obtain ⟨⟨b', hb', ht, hv⟩, hall⟩ := h
  refine ⟨⟨b', List.mem_cons_of_mem _ hb', ht, hv⟩, ?_⟩
  intro b'' hb'' ht''
  rcases List.mem_cons.1 hb'' with rfl | hb''
  · exact hg
  · exact hall b'' hb'' ht''

theorem best_new {worse : α → α → Bool} (hw : WorseOK worse) {B : List (Seg α)} {b : Seg α} {t : Rat}
    (ht : tin t b) (hall : ∀ b' ∈ B, tin t b' → worse b.v b'.v = false) : Best worse (b :: B) t b.v := by
  refine ⟨⟨b, List.mem_cons_self, ht, rfl⟩, ?_⟩
  intro b'' hb'' ht''
  rcases List.mem_cons.1 hb'' with rfl | hb''
  · exact hw.irrefl _
  · exact hall b'' hb'' ht''

theorem push_inv {worse : α → α → Bool} (hw : WorseOK worse) {b b' : Seg α} {B' out : List (Seg α)}
    (hB : GoodB (b :: b' :: B')) (hinv : Inv worse (b' :: B') out) :
    ∃ out', pushSegB worse out b = .ok out' ∧ Inv worse (b :: b' :: B') out' ∧
      (InfTail out → (b'.lo = Tm.inf → out = b' :: B') → InfTail out') := by
  obtain ⟨g1, g2, g3, g5, g6, g4⟩ := hB
  obtain ⟨pre, a, rest, e, hp, hpre, ha⟩ := popWhileB_spec worse b out hinv.chain
  have hne := chain_ne_nil hinv.chain
  refine ⟨_, pushSegB_eq hne hp, ?_⟩
  subst e
  have hch := hinv.chain
  have K1 : Chain (a :: rest) := chain_append pre hch
  have hlo : hdlo (pre ++ a :: rest) = b'.lo := hinv.lo
  have K2 : b'.lo ≤ a.lo := by rw [← hlo]; exact chain_hdlo_le hch a (by simp)
  have K3 : a.lo ≤ b.hi := by
    by_cases hp : pre = []
    · subst hp
      have : a.lo = b'.lo := hlo
      rw [this]; exact g2
    · obtain ⟨c, hc, hce⟩ := chain_pre_hi pre hch hp
      rw [← hce]; exact le_of_lt (hpre c hc).2
  have K4 : b.lo < a.lo := lt_of_lt_of_le g1 K2
  have K5 : a.lo ≤ a.hi := chain_lo_le_hi K1 a (by simp)
  have K6 : ∀ c ∈ rest, a.hi ≤ c.lo := chain_hi_le K1
  have K7 : ∀ t, b'.lo ≤ Tm.fin t → Tm.fin t < a.lo → ∃ c ∈ pre, tin t c := by
    intro t h1 h2
    exact chain_pre_cover pre hch t (by rw [hlo]; exact h1) h2
  have hmono : Mono worse b'.hi (pre ++ a :: rest) := hinv.mono
  have K8 : Mono worse b'.hi (a :: rest) := List.Pairwise.sublist (List.sublist_append_right _ _) hmono
  have K8a : ∀ c ∈ rest, c.lo < b'.hi → worse c.v a.v = false := (List.pairwise_cons.1 K8).1
  have K8b := (List.pairwise_cons.1 K8).2
  have hsem := hinv.sem
  have hint : intersects a.lo a.hi b.lo b.hi = true := by
    rw [intersects, Bool.and_eq_true]
    exact ⟨(le_iff _ _).2 K3, (le_iff _ _).2 (le_trans (le_of_lt K4) K5)⟩
  have hBlo : ∀ b'' ∈ b' :: B', b'.lo ≤ b''.lo := goodB_hdlo_le g4
  have hbb : b.lo < b.hi := lt_of_lt_of_le g1 g2
  have Kpre : ∀ t, Tm.fin t < a.lo → ∀ b'' ∈ b' :: B', tin t b'' → worse b.v b''.v = false := by
    intro t h2 b'' hb'' ht''
    obtain ⟨c, hc, hct⟩ := K7 t (le_trans (hBlo b'' hb'') ht''.1) h2
    have h1 := (hsem c (by simp [hc]) t hct).2 b'' hb'' ht''
    have h2 := hw.asymm _ _ (hpre c hc).1
    exact hw.ntrans _ _ _ h2 h1
  have Kmono' : (rest.Pairwise fun c c' => c'.lo < b.hi → worse c'.v c.v = false) :=
    K8b.imp (fun h hlt => h (lt_of_lt_of_le hlt g3))
  unfold pushFront
  rw [hint]
  simp only [Bool.not_true, Bool.false_eq_true, if_false]
  by_cases hwa : worse a.v b.v = false
  · -- the front dominates: only `[b.lo, a.lo)` is added
    rw [hwa]
    simp only [Bool.not_false, if_true]
    have KA : ∀ c ∈ a :: rest, c.lo < b.hi → worse c.v b.v = false := by
      intro c hc hlt
      rcases List.mem_cons.1 hc with rfl | hc
      · exact hwa
      · exact hw.ntrans _ _ _ (K8a c hc (lt_of_lt_of_le hlt g3)) hwa
    refine ⟨⟨(chain_cons (by simp)).2 ⟨rfl, K4, K1⟩, rfl, ?_, ?_⟩, ?_⟩
    · exact List.pairwise_cons.2 ⟨KA, List.pairwise_cons.2 ⟨fun c hc hlt => K8a c hc (lt_of_lt_of_le hlt g3), Kmono'⟩⟩
    · intro c hc t ht
      rcases List.mem_cons.1 hc with rfl | hc
      · have htb : tin t b := ⟨ht.1, lt_of_lt_of_le ht.2 K3⟩
        exact best_new hw htb (Kpre t ht.2)
      · have hb := hsem c (List.mem_append_right _ hc) t ht
        by_cases htb : tin t b
        · exact best_keep hb (KA c hc (lt_of_le_of_lt ht.1 htb.2))
        · exact best_skip hb htb
    · intro hT hone
      refine ⟨?_, infTail_append pre hT⟩
      intro hainf
      have hpnil : pre = [] := by
        by_contra hp
        obtain ⟨c, hc, hce⟩ := chain_pre_hi pre hch hp
        have := (hpre c hc).2
        rw [hce, hainf] at this
        exact not_inf_lt _ this
      subst hpnil
      have e1 : a.lo = b'.lo := hlo
      have e2 : a :: rest = b' :: B' := hone (e1 ▸ hainf)
      have e3 : a = b' := (List.cons.inj e2).1
      rw [e3]
      exact g6 (e1 ▸ hainf)
  · -- the front is worse: it is cut at `b.hi`
    have hwa' : worse a.v b.v = true := by simpa using hwa
    have hhi : b.hi ≤ a.hi := by
      rcases ha with ha | ha
      · exact absurd ha hwa
      · exact ha
    rw [hwa']
    simp only [Bool.not_true, Bool.false_eq_true, if_false]
    have Kall : ∀ t, tin t b → ∀ b'' ∈ b' :: B', tin t b'' → worse b.v b''.v = false := by
      intro t ht b'' hb'' ht''
      by_cases h2 : Tm.fin t < a.lo
      · exact Kpre t h2 b'' hb'' ht''
      · have hta : tin t a := ⟨not_lt.1 h2, lt_of_lt_of_le ht.2 hhi⟩
        have h1 := (hsem a (by simp) t hta).2 b'' hb'' ht''
        exact hw.ntrans _ _ _ (hw.asymm _ _ hwa') h1
    have Krest : ∀ c ∈ rest, ∀ t, tin t c → Best worse (b :: b' :: B') t c.v := by
      intro c hc t ht
      have hb := hsem c (List.mem_append_right _ (List.mem_cons_of_mem _ hc)) t ht
      refine best_skip hb (fun htb => ?_)
      have := K6 c hc
      have h1 := ht.1
      have h2 := htb.2
      order
    have Krest' : ∀ c ∈ rest, c.lo < b.hi → ∀ x : α, worse c.v x = false := by
      intro c hc hlt
      have := K6 c hc
      exact absurd (lt_of_lt_of_le hlt hhi) (not_lt.2 this)
    have KN : ∀ t, tin t (⟨b.lo, b.hi, b.v⟩ : Seg α) → Best worse (b :: b' :: B') t b.v :=
      fun t ht => best_new hw (b := b) ht (Kall t ht)
    by_cases hlt : b.hi < a.hi
    · rw [if_pos ((lt_iff _ _).2 hlt)]
      have hM : Chain ((⟨b.hi, a.hi, a.v⟩ : Seg α) :: rest) := by
        by_cases hr : rest = []
        · subst hr; exact (chain_single a).1 K1
        · obtain ⟨e1, _, e3⟩ := (chain_cons hr).1 K1
          exact (chain_cons hr).2 ⟨e1, hlt, e3⟩
      refine ⟨⟨(chain_cons (by simp)).2 ⟨rfl, hbb, hM⟩, rfl, ?_, ?_⟩, ?_⟩
      · refine List.pairwise_cons.2 ⟨?_, List.pairwise_cons.2 ⟨fun c hc hlt' => Krest' c hc hlt' _, Kmono'⟩⟩
        intro c hc hlt'
        rcases List.mem_cons.1 hc with rfl | hc
        · exact absurd hlt' (lt_irrefl _)
        · exact Krest' c hc hlt' _
      · intro c hc t ht
        rcases List.mem_cons.1 hc with rfl | hc
        · exact KN t ht
        · rcases List.mem_cons.1 hc with rfl | hc
          · have hta : tin t a := ⟨le_trans K3 ht.1, ht.2⟩
            have hb := hsem a (by simp) t hta
            exact best_skip hb (fun htb => absurd (lt_of_le_of_lt ht.1 htb.2) (lt_irrefl _))
          · exact Krest c hc t ht
      · intro hT _
        have hTa : InfTail (a :: rest) := infTail_append pre hT
        refine ⟨?_, ?_⟩
        · intro hinf
          have : b.hi = Tm.inf := hinf
          rw [this] at hlt
          exact absurd hlt (not_inf_lt _)
        · cases rest with
          | nil => trivial
          | cons d r => exact hTa
    · rw [if_neg (fun h => hlt ((lt_iff _ _).1 h))]
      have heq : a.hi = b.hi := le_antisymm (not_lt.1 hlt) hhi
      have hN : Chain ((⟨b.lo, b.hi, b.v⟩ : Seg α) :: rest) := by
        by_cases hr : rest = []
        · subst hr
          have : a.hi = Tm.inf := (chain_single a).1 K1
          exact (chain_single _).2 (heq ▸ this)
        · obtain ⟨e1, _, e3⟩ := (chain_cons hr).1 K1
          exact (chain_cons hr).2 ⟨heq ▸ e1, hbb, e3⟩
      refine ⟨⟨hN, rfl, ?_, ?_⟩, ?_⟩
      · exact List.pairwise_cons.2 ⟨fun c hc hlt' => Krest' c hc hlt' _, Kmono'⟩
      · intro c hc t ht
        rcases List.mem_cons.1 hc with rfl | hc
        · exact KN t ht
        · exact Krest c hc t ht
      · intro hT hone
        have hTa : InfTail (a :: rest) := infTail_append pre hT
        cases rest with
        | nil => trivial
        | cons d r =>
          refine ⟨?_, hTa.2⟩
          intro hd
          exfalso
          have e1 : a.hi = d.lo := K1.1
          have e2 : b'.lo = Tm.inf := g5 (by rw [← heq, e1, hd])
          have e3 := hone e2
          rw [goodB_inf_single g4 e2] at e3
          have := congrArg List.length e3
          simp at this
          omega


/-! ### the whole loop -/

/-- The `while i >= 0` loop: the segments are pushed from the last to the first. -/
def run (worse : α → α → Bool) : List (Seg α) → Except PyErr (List (Seg α))
  | [] => .ok []
  | b :: B => run worse B >>= fun out => pushSegB worse out b

theorem foldlM_reverse_eq_run (worse : α → α → Bool) (B : List (Seg α)) :
    B.reverse.foldlM (pushSegB worse) [] = run worse B := by
  induction B with
  | nil => rfl
  | cons b B ih =>
    rw [List.reverse_cons, List.foldlM_append, ih]
    simp [run]

theorem run_inv {worse : α → α → Bool} (hw : WorseOK worse) :
    ∀ B : List (Seg α), GoodB B → ∃ out, run worse B = .ok out ∧ Inv worse B out ∧ InfTail out ∧
      (hdlo B = Tm.inf → out = B) := by
  intro B
  induction B with
  | nil => intro h; exact h.elim
  | cons b B ih =>
    intro h
    cases B with
    | nil =>
      refine ⟨[b], rfl, ⟨(chain_single b).2 h, rfl, List.pairwise_singleton _ _, ?_⟩, trivial, fun _ => rfl⟩
      intro c hc t ht
      rcases List.mem_cons.1 hc with rfl | hc
      · exact best_new hw ht (by simp)
      · simp at hc
    | cons b' B' =>
      obtain ⟨out, ho, hinv, hT, hone⟩ := ih h.2.2.2.2.2
      obtain ⟨out', ho', hinv', hT'⟩ := push_inv hw h hinv
      refine ⟨out', ?_, hinv', hT' hT hone, ?_⟩
      · rw [run, ho]; exact ho'
      · intro hb
        have h1 : b.lo < b'.lo := h.1
        have hb' : b.lo = Tm.inf := hb
        rw [hb'] at h1
        exact absurd h1 (not_inf_lt _)


/-! ### the output list -/

theorem valAtA_cons_none {β : Type} (τ : Tm) (v : β) (rest : ASig β) (t : Rat) :
    valAtA ((τ, v) :: rest) t = none ↔ Tm.fin t < τ := by
  rw [← lt_iff]
  by_cases h : Tm.lt (Tm.fin t) τ = true
  · simp [valAtA, h]
  · simp only [valAtA, if_neg h]
    cases valAtA rest t <;> simp [h]

/-- The segments read as samples `(lo, v)`. -/
def stamps (out : List (Seg α)) : ASig α := out.map (fun c => (c.lo, c.v))

theorem valAtA_stamps_none : ∀ (out : List (Seg α)) (t : Rat), Tm.fin t < hdlo out → valAtA (stamps out) t = none
  | [], _, _ => rfl
  | c :: tl, t, h => (valAtA_cons_none c.lo c.v (stamps tl) t).2 h

theorem stamps_sorted : ∀ {out : List (Seg α)}, Chain out → Sorted (stamps out) := by
  intro out
  induction out with
  | nil => intro h; exact h.elim
  | cons c0 tl ih =>
    intro h
    by_cases hne : tl = []
    · subst hne; simp [Sorted, times, stamps]
    · obtain ⟨e1, e2, e3⟩ := (chain_cons hne).1 h
      have ih' := ih e3
      unfold Sorted times stamps at ih' ⊢
      simp only [List.map_cons, List.map_map, List.pairwise_cons] at ih' ⊢
      refine ⟨?_, ih'⟩
      intro x hx
      obtain ⟨c, hc, rfl⟩ := List.mem_map.1 hx
      have := chain_hi_le h c hc
      exact (lt_iff _ _).2 (lt_of_lt_of_le e2 this)

theorem stamps_val : ∀ {out : List (Seg α)}, Chain out → ∀ c ∈ out, ∀ t, tin t c →
    valAtA (stamps out) t = some c.v := by
  intro out
  induction out with
  | nil => intro h; exact h.elim
  | cons c0 tl ih =>
    intro h c hc t ht
    show valAtA ((c0.lo, c0.v) :: stamps tl) t = some c.v
    rcases List.mem_cons.1 hc with rfl | hc
    · have hn : valAtA (stamps tl) t = none := by
        by_cases hne : tl = []
        · subst hne; rfl
        · apply valAtA_stamps_none
          rw [← ((chain_cons hne).1 h).1]; exact ht.2
      have : ¬ Tm.lt (Tm.fin t) c.lo = true := fun h' => absurd ((lt_iff _ _).1 h') (not_lt.2 ht.1)
      simp only [valAtA, if_neg this, hn]
    · have hne : tl ≠ [] := List.ne_nil_of_mem hc
      obtain ⟨e1, e2, e3⟩ := (chain_cons hne).1 h
      have hv := ih e3 c hc t ht
      have h1 := chain_hi_le h c hc
      have : ¬ Tm.lt (Tm.fin t) c0.lo = true := by
        intro h'
        have h2 := (lt_iff _ _).1 h'
        have h3 := ht.1
        order
      simp only [valAtA, if_neg this, hv]

theorem infok_stamps : ∀ {out : List (Seg α)}, InfTail out → InfOK (stamps out) := by
  have key : ∀ (out : List (Seg α)), InfTail out → ∀ (pre : ASig α) (x z : Tm × α) (post : ASig α),
      stamps out = pre ++ x :: z :: post → z.1 = Tm.inf → x.2 = z.2 := by
    intro out
    induction out with
    | nil => intro _ pre x z post e; simp [stamps] at e
    | cons c0 tl ih =>
      intro hT pre x z post e hz
      cases pre with
      | nil =>
        cases tl with
        | nil => simp [stamps] at e
        | cons d r =>
          simp only [stamps, List.map_cons, List.nil_append, List.cons.injEq] at e
          obtain ⟨e1, e2, _⟩ := e
          rw [← e1, ← e2]
          rw [← e2] at hz
          exact hT.1 hz
      | cons p pre =>
        simp only [stamps, List.map_cons, List.cons_append, List.cons.injEq] at e
        exact ih (infTail_tail hT) pre x z post e.2 hz
  intro out hT pre a v e
  exact key out hT pre a (Tm.inf, v) [] e rfl

/-- The function of the final `for` loop of `eventually_timed_operation`. -/
def outF (g : Seg α) : Option (Tm × α) :=
  if Tm.le g.lo Tm.zero && Tm.lt Tm.zero g.hi then some (Tm.zero, g.v)
  else if Tm.lt Tm.zero g.lo then some (g.lo, g.v)
  else none

theorem outF_zero {c : Seg α} (h1 : c.lo ≤ Tm.fin 0) (h2 : Tm.fin 0 < c.hi) : outF c = some (Tm.fin 0, c.v) := by
  have : (Tm.le c.lo Tm.zero && Tm.lt Tm.zero c.hi) = true := by
    rw [Bool.and_eq_true]; exact ⟨(le_iff _ _).2 h1, (lt_iff _ _).2 h2⟩
  rw [outF, if_pos this]; rfl

theorem outF_pos {c : Seg α} (h1 : Tm.fin 0 < c.lo) : outF c = some (c.lo, c.v) := by
  have : ¬ (Tm.le c.lo Tm.zero && Tm.lt Tm.zero c.hi) = true := by
    rw [Bool.and_eq_true]; rintro ⟨h, _⟩
    exact absurd ((le_iff _ _).1 h) (not_le.2 h1)
  have h' : Tm.lt Tm.zero c.lo = true := (lt_iff _ _).2 h1
  rw [outF, if_neg this, if_pos h']

theorem outF_neg {c : Seg α} (h1 : c.lo ≤ Tm.fin 0) (h2 : c.hi ≤ Tm.fin 0) : outF c = none := by
  have : ¬ (Tm.le c.lo Tm.zero && Tm.lt Tm.zero c.hi) = true := by
    rw [Bool.and_eq_true]; rintro ⟨_, h⟩
    exact absurd ((lt_iff _ _).1 h) (not_lt.2 h2)
  have h' : ¬ Tm.lt Tm.zero c.lo = true := fun h => absurd ((lt_iff _ _).1 h) (not_lt.2 h1)
  rw [outF, if_neg this, if_neg h']

theorem filt_pos : ∀ (out : List (Seg α)), (∀ c ∈ out, Tm.fin 0 < c.lo) → out.filterMap outF = stamps out := by
  intro out
  induction out with
  | nil => intro _; rfl
  | cons c tl ih =>
    intro h
    rw [List.filterMap_cons, outF_pos (h c List.mem_cons_self), ih (fun c hc => h c (List.mem_cons_of_mem _ hc))]
    rfl

theorem filt_spec : ∀ {out : List (Seg α)}, Chain out → InfTail out → hdlo out ≤ Tm.fin 0 →
    WFA (out.filterMap outF) 0 ∧ ∀ t, 0 ≤ t → ∀ c ∈ out, tin t c → valAtA (out.filterMap outF) t = some c.v := by
  intro out
  induction out with
  | nil => intro h; exact h.elim
  | cons c0 tl ih =>
    intro h hT h0
    have h0' : c0.lo ≤ Tm.fin 0 := h0
    by_cases hpos : Tm.fin 0 < c0.hi
    · -- `c0` contains 0: it is re-stamped, the others are kept
      have htl : tl.filterMap outF = stamps tl := by
        apply filt_pos
        intro c hc
        exact lt_of_lt_of_le hpos (chain_hi_le h c hc)
      have hM : Chain ((⟨Tm.fin 0, c0.hi, c0.v⟩ : Seg α) :: tl) := by
        by_cases hne : tl = []
        · subst hne; exact (chain_single c0).1 h
        · obtain ⟨e1, _, e3⟩ := (chain_cons hne).1 h
          exact (chain_cons hne).2 ⟨e1, hpos, e3⟩
      have e : (c0 :: tl).filterMap outF = stamps ((⟨Tm.fin 0, c0.hi, c0.v⟩ : Seg α) :: tl) := by
        rw [List.filterMap_cons, outF_zero h0' hpos, htl]; rfl
      rw [e]
      have hTM : InfTail ((⟨Tm.fin 0, c0.hi, c0.v⟩ : Seg α) :: tl) := by
        cases tl with
        | nil => trivial
        | cons d r => exact hT
      refine ⟨⟨stamps_sorted hM, rfl, infok_stamps hTM⟩, ?_⟩
      intro t ht c hc htc
      rcases List.mem_cons.1 hc with rfl | hc
      · exact stamps_val hM _ List.mem_cons_self t ⟨(fin_le_fin _ _).2 ht, htc.2⟩
      · exact stamps_val hM c (List.mem_cons_of_mem _ hc) t htc
    · have hle : c0.hi ≤ Tm.fin 0 := not_lt.1 hpos
      have hne : tl ≠ [] := by
        rintro rfl
        rw [(chain_single c0).1 h] at hle
        exact not_inf_le_fin _ hle
      obtain ⟨e1, _, e3⟩ := (chain_cons hne).1 h
      have e : (c0 :: tl).filterMap outF = tl.filterMap outF := by
        rw [List.filterMap_cons, outF_neg h0' hle]
      rw [e]
      obtain ⟨w, hv⟩ := ih e3 (infTail_tail hT) (by rw [← e1]; exact hle)
      refine ⟨w, ?_⟩
      intro t ht c hc htc
      rcases List.mem_cons.1 hc with rfl | hc
      · have h1 := htc.2
        have h2 : Tm.fin 0 ≤ Tm.fin t := (fin_le_fin _ _).2 ht
        exact absurd (lt_of_le_of_lt h2 h1) (not_lt.2 hle)
      · exact hv t ht c hc htc

end generic


/-! ### the pushed segments and the operand -/

section segs
variable {α : Type}

theorem sub_eq_inf (τ : Tm) (q : Rat) : τ.sub q = Tm.inf ↔ τ = Tm.inf := by
  cases τ <;> simp [Tm.sub]

theorem sorted_cons2 {τ τ' : Tm} {v v' : α} {tl : ASig α} (h : Sorted ((τ, v) :: (τ', v') :: tl)) :
    τ < τ' ∧ Sorted ((τ', v') :: tl) := by
  unfold Sorted times at h ⊢
  simp only [List.map_cons, List.pairwise_cons] at h ⊢
  exact ⟨(lt_iff _ _).1 (h.1 τ' List.mem_cons_self), h.2⟩

theorem infok_tail {p : Tm × α} {s : ASig α} (h : InfOK (p :: s)) : InfOK s :=
  fun pre a v e => h (p :: pre) a v (by rw [e]; rfl)

theorem hdlo_backSegs (a b : Rat) (τ : Tm) (v : α) (tl : ASig α) :
    hdlo (backSegs a b ((τ, v) :: tl)) = τ.sub b := by
  cases tl <;> rfl

theorem backSegs_good (a b : Rat) (hab : a ≤ b) : ∀ s : ASig α, s ≠ [] → Sorted s → InfOK s →
    GoodB (backSegs a b s) := by
  intro s
  induction s with
  | nil => intro h; exact absurd rfl h
  | cons p tl ih =>
    intro _ hs hio
    obtain ⟨τ, v⟩ := p
    cases tl with
    | nil => exact rfl
    | cons p' tl' =>
      obtain ⟨τ', v'⟩ := p'
      obtain ⟨hlt, hs'⟩ := sorted_cons2 hs
      have ih' := ih (by simp) hs' (infok_tail hio)
      have f1 : τ.sub b < τ'.sub b := sub_lt_sub hlt b
      have f2 : τ'.sub b ≤ τ'.sub a := sub_le_sub τ' hab
      have f4 : τ'.sub a = Tm.inf → τ'.sub b = Tm.inf := fun h => (sub_eq_inf _ _).2 ((sub_eq_inf _ _).1 h)
      have f5 : τ'.sub b = Tm.inf → v = v' := by
        intro h
        have hτ' : τ' = Tm.inf := (sub_eq_inf _ _).1 h
        subst hτ'
        cases tl' with
        | nil => exact hio [] (τ, v) v' rfl
        | cons p'' tl'' =>
          obtain ⟨τ'', v''⟩ := p''
          exact absurd (sorted_cons2 hs').1 (not_inf_lt _)
      cases tl' with
      | nil => exact ⟨f1, f2, le_inf _, f4, f5, ih'⟩
      | cons p'' tl'' =>
        obtain ⟨τ'', v''⟩ := p''
        exact ⟨f1, f2, le_of_lt (sub_lt_sub (sorted_cons2 hs').1 a), f4, f5, ih'⟩

theorem valAtA_cons_some {β : Type} (τ : Tm) (v : β) (rest : ASig β) (t : Rat) (y : β) :
    valAtA ((τ, v) :: rest) t = some y ↔
      τ ≤ Tm.fin t ∧ (valAtA rest t = some y ∨ (valAtA rest t = none ∧ v = y)) := by
  rw [← not_lt, ← lt_iff]
  by_cases h : Tm.lt (Tm.fin t) τ = true
  · simp [valAtA, h]
  · simp only [valAtA, if_neg h]
    cases valAtA rest t <;> simp [h]

/-- The values of the pushed segments containing `t` are the values of the operand on `[t + a, t + b]`. -/
theorem segs_values (a b : Rat) (hab : a ≤ b) : ∀ s : ASig α, Sorted s → ∀ (t : Rat) (y : α),
    (∃ c ∈ backSegs a b s, tin t c ∧ c.v = y) ↔ ∃ t', t + a ≤ t' ∧ t' ≤ t + b ∧ valAtA s t' = some y := by
  intro s
  induction s with
  | nil => intro _ t y; simp [backSegs, valAtA]
  | cons p tl ih =>
    intro hs t y
    obtain ⟨τ, v⟩ := p
    cases tl with
    | nil =>
      constructor
      · rintro ⟨c, hc, htc, hv⟩
        have : c = ⟨τ.sub b, Tm.inf, v⟩ := by simpa [backSegs] using hc
        subst this
        refine ⟨t + b, by linarith, le_refl _, ?_⟩
        rw [valAtA_cons_some]
        exact ⟨(sub_le_fin _ _ _).1 htc.1, Or.inr ⟨rfl, hv⟩⟩
      · rintro ⟨t', h1, h2, h3⟩
        rw [valAtA_cons_some] at h3
        obtain ⟨h4, h5⟩ := h3
        have hv : v = y := by
          rcases h5 with h5 | h5
          · simp [valAtA] at h5
          · exact h5.2
        refine ⟨⟨τ.sub b, Tm.inf, v⟩, by simp [backSegs], ⟨?_, fin_lt_inf _⟩, hv⟩
        exact (sub_le_fin _ _ _).2 (le_trans h4 ((fin_le_fin _ _).2 h2))
    | cons p' tl' =>
      obtain ⟨τ', v'⟩ := p'
      obtain ⟨hlt, hs'⟩ := sorted_cons2 hs
      have ih' := ih hs' t y
      have e : backSegs a b ((τ, v) :: (τ', v') :: tl') =
          ⟨τ.sub b, τ'.sub a, v⟩ :: backSegs a b ((τ', v') :: tl') := rfl
      rw [e]
      constructor
      · rintro ⟨c, hc, htc, hv⟩
        rcases List.mem_cons.1 hc with rfl | hc
        · -- the first segment: a time of `[τ, τ')` in the window
          cases τ with
          | inf => exact absurd hlt (not_inf_lt _)
          | fin q =>
            have h1 : Tm.fin q ≤ Tm.fin (t + b) := (sub_le_fin _ _ _).1 htc.1
            have h1' : q ≤ t + b := (fin_le_fin _ _).1 h1
            have h2 : Tm.fin (t + a) < τ' := (fin_lt_sub _ _ _).1 htc.2
            refine ⟨max q (t + a), le_max_right _ _, max_le h1' (by linarith), ?_⟩
            rw [valAtA_cons_some]
            refine ⟨(fin_le_fin _ _).2 (le_max_left _ _), Or.inr ⟨?_, hv⟩⟩
            rw [valAtA_cons_none]
            rcases le_total q (t + a) with h | h
            · rw [max_eq_right h]; exact h2
            · rw [max_eq_left h]; exact hlt
        · obtain ⟨t', h1, h2, h3⟩ := ih'.1 ⟨c, hc, htc, hv⟩
          refine ⟨t', h1, h2, ?_⟩
          rw [valAtA_cons_some]
          refine ⟨?_, Or.inl h3⟩
          have : ¬ Tm.fin t' < τ' := by
            intro h
            rw [(valAtA_cons_none τ' v' tl' t').2 h] at h3
            simp at h3
          exact le_of_lt (lt_of_lt_of_le hlt (not_lt.1 this))
      · rintro ⟨t', h1, h2, h3⟩
        rw [valAtA_cons_some] at h3
        obtain ⟨h4, h5⟩ := h3
        rcases h5 with h5 | ⟨h5, hv⟩
        · obtain ⟨c, hc, htc, hv⟩ := ih'.2 ⟨t', h1, h2, h5⟩
          exact ⟨c, List.mem_cons_of_mem _ hc, htc, hv⟩
        · rw [valAtA_cons_none] at h5
          refine ⟨_, List.mem_cons_self, ⟨?_, ?_⟩, hv⟩
          · exact (sub_le_fin _ _ _).2 (le_trans h4 ((fin_le_fin _ _).2 h2))
          · exact (fin_lt_sub _ _ _).2 (lt_of_le_of_lt ((fin_le_fin _ _).2 h1) h5)

/-- The bounded future operators, generic in the comparison. -/
theorem backTimed_spec {worse : α → α → Bool} (hw : WorseOK worse) {s : ASig α} {g : Rat → Option α}
    (h : Denotes s 0 g) (a b : Rat) (ha : 0 ≤ a) (hab : a ≤ b) :
    ∃ out, backTimed worse s a b = .ok out ∧ WFA out 0 ∧
      ∀ t, 0 ≤ t → ∃ v, valAtA out t = some v ∧ v ∈ valuesOn g (t + a) (t + b) ∧
        ∀ y ∈ valuesOn g (t + a) (t + b), worse v y = false := by
  obtain ⟨⟨hs, hst, hio⟩, hg⟩ := h
  cases s with
  | nil => simp [times] at hst
  | cons p tl =>
    obtain ⟨τ, v0⟩ := p
    have hτ : τ = Tm.fin 0 := by simpa [times] using hst
    subst hτ
    have hG := backSegs_good a b hab _ (by simp) hs hio
    obtain ⟨out, ho, hinv, hT, _⟩ := run_inv hw _ hG
    have hlo0 : hdlo out ≤ Tm.fin 0 := by
      rw [hinv.lo, hdlo_backSegs]
      show Tm.fin (0 - b) ≤ Tm.fin 0
      rw [fin_le_fin]; linarith
    obtain ⟨hwf, hval⟩ := filt_spec hinv.chain hT hlo0
    refine ⟨out.filterMap outF, ?_, hwf, ?_⟩
    · unfold backTimed
      rw [foldlM_reverse_eq_run, ho]
      rfl
    · intro t ht
      obtain ⟨c, hc, htc⟩ := chain_cover hinv.chain t (le_trans hlo0 ((fin_le_fin _ _).2 ht))
      have hbest := hinv.sem c hc t htc
      refine ⟨c.v, hval t ht c hc htc, ?_, ?_⟩
      · obtain ⟨b', hb', htb', hv⟩ := hbest.1
        obtain ⟨t', h1, h2, h3⟩ := (segs_values a b hab _ hs t c.v).1 ⟨b', hb', htb', hv⟩
        exact ⟨t', h1, h2, by rw [← hg t' (by linarith)]; exact h3⟩
      · rintro y ⟨t', h1, h2, h3⟩
        rw [← hg t' (by linarith)] at h3
        obtain ⟨b', hb', htb', hv⟩ := (segs_values a b hab _ hs t y).2 ⟨t', h1, h2, h3⟩
        rw [← hv]; exact hbest.2 b' hb' htb'

end segs

end Rtamt.Dense.Alg.BackAux

namespace Rtamt.Dense.Alg
open Rtamt Val BackAux
variable {α : Type} [Val α] [LawfulVal α]

theorem BackAux.worseOK_ltW : WorseOK (ltW : α → α → Bool) where
  asymm x y h := by
    have h1 : x < y := (LawfulVal.lt_iff x y).1 h
    cases h2 : ltW y x with
    | false => rfl
    | true => exact absurd ((LawfulVal.lt_iff y x).1 h2) (not_lt.2 (le_of_lt h1))
  ntrans x y z h1 h2 := by
    have h1' : ¬ x < y := fun h => by rw [ltW, (LawfulVal.lt_iff x y).2 h] at h1; exact Bool.noConfusion h1
    have h2' : ¬ y < z := fun h => by rw [ltW, (LawfulVal.lt_iff y z).2 h] at h2; exact Bool.noConfusion h2
    cases h3 : ltW x z with
    | false => rfl
    | true =>
      have := (LawfulVal.lt_iff x z).1 h3
      exact absurd (lt_of_lt_of_le this (not_lt.1 h2')) h1'

theorem BackAux.worseOK_gtW : WorseOK (gtW : α → α → Bool) where
  asymm x y h := (worseOK_ltW (α := α)).asymm y x h
  ntrans x y z h1 h2 := (worseOK_ltW (α := α)).ntrans z y x h2 h1

/-- `eventually_timed_operation` on an operand that starts at time 0: supremum over `[t+a, t+b]`. -/
theorem evTimed_spec {s : ASig α} {g : Rat → Option α} (h : Denotes s 0 g) (a b : Rat) (ha : 0 ≤ a) (hab : a ≤ b) :
    ∃ out, evTimed s a b = .ok out ∧ WFA out 0 ∧
      ∀ t, 0 ≤ t → ∃ v, valAtA out t = some v ∧ IsLUB (valuesOn g (t + a) (t + b)) v := by
  obtain ⟨out, ho, hwf, hv⟩ := backTimed_spec (worseOK_ltW (α := α)) h a b ha hab
  refine ⟨out, ho, hwf, ?_⟩
  intro t ht
  obtain ⟨v, h1, h2, h3⟩ := hv t ht
  refine ⟨v, h1, IsGreatest.isLUB ⟨h2, ?_⟩⟩
  intro y hy
  have := h3 y hy
  refine not_lt.1 (fun hlt => ?_)
  rw [ltW, (LawfulVal.lt_iff v y).2 hlt] at this
  exact Bool.noConfusion this

/-- `always_timed_operation`. -/
theorem alwTimed_spec {s : ASig α} {g : Rat → Option α} (h : Denotes s 0 g) (a b : Rat) (ha : 0 ≤ a) (hab : a ≤ b) :
    ∃ out, alwTimed s a b = .ok out ∧ WFA out 0 ∧
      ∀ t, 0 ≤ t → ∃ v, valAtA out t = some v ∧ IsGLB (valuesOn g (t + a) (t + b)) v := by
  obtain ⟨out, ho, hwf, hv⟩ := backTimed_spec (worseOK_gtW (α := α)) h a b ha hab
  refine ⟨out, ho, hwf, ?_⟩
  intro t ht
  obtain ⟨v, h1, h2, h3⟩ := hv t ht
  refine ⟨v, h1, IsLeast.isGLB ⟨h2, ?_⟩⟩
  intro y hy
  have := h3 y hy
  refine not_lt.1 (fun hlt => ?_)
  rw [gtW, (LawfulVal.lt_iff y v).2 hlt] at this
  exact Bool.noConfusion this

end Rtamt.Dense.Alg
