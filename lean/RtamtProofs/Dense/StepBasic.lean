/-
  Helper lemmas for RtamtProofs/Dense/Step.lean (part 1): local step functions, window sets,
  `foldWin` as least upper / greatest lower bound, window shifting, `dom`, `valAt`.
-/
import RtamtProofs.Lemmas.Lawful
import Rtamt.Dense.Ref
import Mathlib.Order.Bounds.Basic
import Mathlib.Algebra.Order.Field.Rat
import Mathlib.Tactic.Linarith

set_option linter.unusedSectionVars false

namespace Rtamt.Dense
open Rtamt Val

variable {α : Type} [Val α]

/-- `s ≤ hi` for an optional upper end (`none` = unbounded). -/
def leHi (s : Rat) : Option Rat → Prop
  | some h => s ≤ h
  | none => True

theorem leHi_mono {s s' : Rat} {hi : Option Rat} (h : s ≤ s') (h' : leHi s' hi) : leHi s hi := by
  cases hi with
  | none => trivial
  | some x => exact le_trans h h'

/-- `g` is defined on `[lo, hi]` and constant on every sub-interval `[s, s']` of it that contains
    no point of `B` in `(s, s']`. -/
def StepOn (g : Rat → Option α) (B : List Rat) (lo : Rat) (hi : Option Rat) : Prop :=
  (∀ s, lo ≤ s → leHi s hi → (g s).isSome = true) ∧
  (∀ s s', lo ≤ s → s ≤ s' → leHi s' hi → (∀ b ∈ B, ¬ (s < b ∧ b ≤ s')) → g s' = g s)

/-- The values of `g` on the window `[lo, hi]`. -/
def winSet (g : Rat → Option α) (lo : Rat) (hi : Option Rat) : Set α :=
  {y | ∃ s, lo ≤ s ∧ leHi s hi ∧ g s = some y}

theorem StepOn.mono {g : Rat → Option α} {B B' : List Rat} {lo lo' : Rat} {hi hi' : Option Rat}
    (h : StepOn g B lo hi) (hlo : lo ≤ lo') (hhi : ∀ s, leHi s hi' → leHi s hi)
    (hB : ∀ b ∈ B, b ∈ B') : StepOn g B' lo' hi' := by
  refine ⟨fun s h1 h2 => h.1 s (le_trans hlo h1) (hhi s h2), fun s s' h1 h2 h3 h4 => ?_⟩
  exact h.2 s s' (le_trans hlo h1) h2 (hhi s' h3) (fun b hb => h4 b (hB b hb))

theorem StepOn.mono_lo {g : Rat → Option α} {B : List Rat} {lo lo' : Rat} {hi : Option Rat}
    (h : StepOn g B lo hi) (hlo : lo ≤ lo') : StepOn g B lo' hi :=
  h.mono hlo (fun _ h => h) (fun _ h => h)

/-- restriction of an unbounded step function to a bounded window -/
theorem StepOn.restrict {g : Rat → Option α} {B : List Rat} {lo lo' : Rat}
    (h : StepOn g B lo none) (hlo : lo ≤ lo') (hi : Option Rat) : StepOn g B lo' hi :=
  h.mono hlo (fun _ _ => trivial) (fun _ h => h)

theorem StepOn.congr {g g' : Rat → Option α} {B : List Rat} {lo : Rat} {hi : Option Rat}
    (h : StepOn g B lo hi) (he : ∀ s, lo ≤ s → leHi s hi → g' s = g s) : StepOn g' B lo hi := by
  refine ⟨fun s h1 h2 => by rw [he s h1 h2]; exact h.1 s h1 h2, fun s s' h1 h2 h3 h4 => ?_⟩
  rw [he s' (le_trans h1 h2) h3, he s h1 (leHi_mono h2 h3)]
  exact h.2 s s' h1 h2 h3 h4

/-! ### `foldWin` -/

/-- the points `foldWin` reads -/
def winPts (B : List Rat) (lo : Rat) (hi : Option Rat) : List Rat :=
  lo :: B.filter (fun τ => decide (lo < τ) &&
        (match hi with | some h => decide (τ ≤ h) | none => true))

theorem foldWin_eq (f : α → α → α) (init : α) (g : Rat → Option α) (B : List Rat) (lo : Rat)
    (hi : Option Rat) :
    foldWin f init g B lo hi
      = (winPts B lo hi).foldlM (fun acc τ => (g τ).map (fun v => f acc v)) init := rfl

theorem mem_winPts {B : List Rat} {lo : Rat} {hi : Option Rat} {τ : Rat} :
    τ ∈ winPts B lo hi ↔ τ = lo ∨ (τ ∈ B ∧ lo < τ ∧ leHi τ hi) := by
  unfold winPts
  cases hi <;> simp [leHi]

theorem foldlM_all_some (f : α → α → α) (g : Rat → Option α) (pts : List Rat) (init : α)
    (h : ∀ τ ∈ pts, (g τ).isSome = true) :
    pts.foldlM (fun acc τ => (g τ).map (fun v => f acc v)) init
      = some ((pts.filterMap g).foldl f init) := by
  induction pts generalizing init with
  | nil => rfl
  | cons τ pts ih =>
    obtain ⟨y, hy⟩ := Option.isSome_iff_exists.1 (h τ (List.mem_cons_self ..))
    have ih' := ih (f init y) (fun τ' h' => h τ' (List.mem_cons_of_mem _ h'))
    simp only [List.foldlM_cons, hy, Option.map_some, List.filterMap_cons, List.foldl_cons]
    simpa using ih'

theorem foldlM_congr_mem (f : α → α → α) (g g' : Rat → Option α) (pts : List Rat) (init : α)
    (h : ∀ τ ∈ pts, g τ = g' τ) :
    pts.foldlM (fun acc τ => (g τ).map (fun v => f acc v)) init
      = pts.foldlM (fun acc τ => (g' τ).map (fun v => f acc v)) init := by
  induction pts generalizing init with
  | nil => rfl
  | cons τ pts ih =>
    simp only [List.foldlM_cons, h τ (List.mem_cons_self ..)]
    congr 1
    funext b
    exact ih b (fun τ' h' => h τ' (List.mem_cons_of_mem _ h'))

/-- `foldWin` only reads `g` on the window. -/
theorem foldWin_congr (f : α → α → α) (init : α) (g g' : Rat → Option α) (B : List Rat) (lo : Rat)
    (hi : Option Rat) (hne : leHi lo hi) (h : ∀ s, lo ≤ s → leHi s hi → g s = g' s) :
    foldWin f init g B lo hi = foldWin f init g' B lo hi := by
  rw [foldWin_eq, foldWin_eq]
  apply foldlM_congr_mem
  intro τ hτ
  rcases mem_winPts.1 hτ with rfl | ⟨_, h1, h2⟩
  · exact h _ le_rfl hne
  · exact h _ (le_of_lt h1) h2

/-- The last candidate at or before `s` (or `lo` itself). -/
theorem exists_last_bp (B : List Rat) (lo s : Rat) (h : lo ≤ s) :
    ∃ τ, (τ = lo ∨ (τ ∈ B ∧ lo < τ)) ∧ lo ≤ τ ∧ τ ≤ s ∧ ∀ b ∈ B, ¬ (τ < b ∧ b ≤ s) := by
  induction B with
  | nil => exact ⟨lo, Or.inl rfl, le_rfl, h, by simp⟩
  | cons b B ih =>
    obtain ⟨τ, h1, h2, h3, h4⟩ := ih
    by_cases hb : τ < b ∧ b ≤ s
    · refine ⟨b, Or.inr ⟨List.mem_cons_self .., lt_of_le_of_lt h2 hb.1⟩, le_trans h2 (le_of_lt hb.1),
        hb.2, ?_⟩
      intro b' hb'
      rcases List.mem_cons.1 hb' with rfl | hb'
      · exact fun h => lt_irrefl _ h.1
      · exact fun h => h4 b' hb' ⟨lt_trans hb.1 h.1, h.2⟩
    · refine ⟨τ, ?_, h2, h3, ?_⟩
      · rcases h1 with h1 | h1
        · exact Or.inl h1
        · exact Or.inr ⟨List.mem_cons_of_mem _ h1.1, h1.2⟩
      · intro b' hb'
        rcases List.mem_cons.1 hb' with rfl | hb'
        · exact hb
        · exact h4 b' hb'

variable [LawfulVal α]

/-- every value on the window is the value at one of the points `foldWin` reads -/
theorem winSet_subset_read {g : Rat → Option α} {B : List Rat} {lo : Rat} {hi : Option Rat}
    (hg : StepOn g B lo hi) {y : α} (hy : y ∈ winSet g lo hi) :
    y ∈ (winPts B lo hi).filterMap g := by
  obtain ⟨s, h1, h2, h3⟩ := hy
  obtain ⟨τ, k1, k2, k3, k4⟩ := exists_last_bp B lo s h1
  have hgs : g s = g τ := hg.2 τ s k2 k3 h2 k4
  rw [List.mem_filterMap]
  refine ⟨τ, mem_winPts.2 ?_, by rw [← hgs]; exact h3⟩
  rcases k1 with rfl | k1
  · exact Or.inl rfl
  · exact Or.inr ⟨k1.1, k1.2, leHi_mono k3 h2⟩

theorem read_subset_winSet {g : Rat → Option α} {B : List Rat} {lo : Rat} {hi : Option Rat}
    (hne : leHi lo hi) {y : α}
    (hy : y ∈ (winPts B lo hi).filterMap g) :
    y ∈ winSet g lo hi := by
  rw [List.mem_filterMap] at hy
  obtain ⟨τ, hτ, hy⟩ := hy
  rcases mem_winPts.1 hτ with rfl | ⟨_, h1, h2⟩
  · exact ⟨_, le_rfl, hne, hy⟩
  · exact ⟨τ, le_of_lt h1, h2, hy⟩

theorem foldWin_some {f : α → α → α} {init : α} {g : Rat → Option α} {B : List Rat} {lo : Rat}
    {hi : Option Rat} (hg : StepOn g B lo hi) (hne : leHi lo hi) :
    foldWin f init g B lo hi = some (((winPts B lo hi).filterMap g).foldl f init) := by
  rw [foldWin_eq]
  apply foldlM_all_some
  intro τ hτ
  rcases mem_winPts.1 hτ with rfl | ⟨_, h1, h2⟩
  · exact hg.1 _ le_rfl hne
  · exact hg.1 _ (le_of_lt h1) h2

theorem foldWin_max_spec {g : Rat → Option α} {B : List Rat} {lo : Rat} {hi : Option Rat}
    (hg : StepOn g B lo hi) (hne : leHi lo hi) :
    ∃ v, foldWin pmax ninf g B lo hi = some v ∧ IsLUB (winSet g lo hi) v := by
  refine ⟨_, foldWin_some hg hne, ?_, ?_⟩
  · intro y hy
    exact ((lmaxFrom_le_iff ninf _ _).1 le_rfl).2 y (winSet_subset_read hg hy)
  · intro c hc
    refine (lmaxFrom_le_iff ninf _ c).2 ⟨by rw [LawfulVal.ninf_bot]; exact bot_le, ?_⟩
    intro x hx
    exact hc (read_subset_winSet hne hx)

theorem foldWin_min_spec {g : Rat → Option α} {B : List Rat} {lo : Rat} {hi : Option Rat}
    (hg : StepOn g B lo hi) (hne : leHi lo hi) :
    ∃ v, foldWin pmin pinf g B lo hi = some v ∧ IsGLB (winSet g lo hi) v := by
  refine ⟨_, foldWin_some hg hne, ?_, ?_⟩
  · intro y hy
    exact ((le_lminFrom_iff pinf _ _).1 le_rfl).2 y (winSet_subset_read hg hy)
  · intro c hc
    refine (le_lminFrom_iff pinf _ c).2 ⟨by rw [LawfulVal.pinf_top]; exact le_top, ?_⟩
    intro x hx
    exact hc (read_subset_winSet hne hx)

theorem foldWin_max_isSome {g : Rat → Option α} {B : List Rat} {lo : Rat} {hi : Option Rat}
    (hg : StepOn g B lo hi) (hne : leHi lo hi) : (foldWin pmax ninf g B lo hi).isSome = true := by
  rw [foldWin_some hg hne]; rfl

theorem foldWin_min_isSome {g : Rat → Option α} {B : List Rat} {lo : Rat} {hi : Option Rat}
    (hg : StepOn g B lo hi) (hne : leHi lo hi) : (foldWin pmin pinf g B lo hi).isSome = true := by
  rw [foldWin_some hg hne]; rfl

/-- Two windows with the same set of values have the same supremum. -/
theorem foldWin_max_eq_of_winSet_eq {g g' : Rat → Option α} {B B' : List Rat} {lo lo' : Rat}
    {hi hi' : Option Rat} (hg : StepOn g B lo hi) (hne : leHi lo hi)
    (hg' : StepOn g' B' lo' hi') (hne' : leHi lo' hi')
    (h : winSet g lo hi = winSet g' lo' hi') :
    foldWin pmax ninf g B lo hi = foldWin pmax ninf g' B' lo' hi' := by
  obtain ⟨v, h1, h2⟩ := foldWin_max_spec hg hne
  obtain ⟨v', h1', h2'⟩ := foldWin_max_spec hg' hne'
  rw [h1, h1', IsLUB.unique h2 (h ▸ h2')]

theorem foldWin_min_eq_of_winSet_eq {g g' : Rat → Option α} {B B' : List Rat} {lo lo' : Rat}
    {hi hi' : Option Rat} (hg : StepOn g B lo hi) (hne : leHi lo hi)
    (hg' : StepOn g' B' lo' hi') (hne' : leHi lo' hi')
    (h : winSet g lo hi = winSet g' lo' hi') :
    foldWin pmin pinf g B lo hi = foldWin pmin pinf g' B' lo' hi' := by
  obtain ⟨v, h1, h2⟩ := foldWin_min_spec hg hne
  obtain ⟨v', h1', h2'⟩ := foldWin_min_spec hg' hne'
  rw [h1, h1', IsGLB.unique h2 (h ▸ h2')]

omit [LawfulVal α] in
theorem winSet_congr {g g' : Rat → Option α} {lo : Rat} {hi : Option Rat}
    (h : ∀ s, lo ≤ s → leHi s hi → g s = g' s) : winSet g lo hi = winSet g' lo hi := by
  ext y
  constructor
  · rintro ⟨s, h1, h2, h3⟩; exact ⟨s, h1, h2, by rw [← h s h1 h2]; exact h3⟩
  · rintro ⟨s, h1, h2, h3⟩; exact ⟨s, h1, h2, by rw [h s h1 h2]; exact h3⟩

omit [LawfulVal α] in
/-- Moving both ends of a bounded window to the right without crossing a candidate does not
    change the set of values. -/
theorem winSet_shift_some {g : Rat → Option α} {B : List Rat} {lo lo' h h' : Rat}
    (hg : StepOn g B lo (some h')) (h1 : lo ≤ lo') (h2 : lo ≤ h) (h3 : lo' ≤ h') (h4 : h ≤ h')
    (hlo : ∀ b ∈ B, ¬ (lo < b ∧ b ≤ lo')) (hhi : ∀ b ∈ B, ¬ (h < b ∧ b ≤ h')) :
    winSet g lo (some h) = winSet g lo' (some h') := by
  ext y
  constructor
  · rintro ⟨s, k1, k2, k3⟩
    by_cases hs : lo' ≤ s
    · exact ⟨s, hs, le_trans k2 h4, k3⟩
    · have hs' : s < lo' := not_le.1 hs
      refine ⟨lo', le_rfl, h3, ?_⟩
      rw [hg.2 s lo' k1 (le_of_lt hs') h3 (fun b hb hh => hlo b hb ⟨lt_of_le_of_lt k1 hh.1, hh.2⟩)]
      exact k3
  · rintro ⟨s, k1, k2, k3⟩
    by_cases hs : s ≤ h
    · exact ⟨s, le_trans h1 k1, hs, k3⟩
    · have hs' : h < s := not_le.1 hs
      refine ⟨h, h2, le_rfl, ?_⟩
      rw [← hg.2 h s h2 (le_of_lt hs') k2 (fun b hb hh => hhi b hb ⟨hh.1, le_trans hh.2 k2⟩)]
      exact k3

omit [LawfulVal α] in
theorem winSet_shift_none {g : Rat → Option α} {B : List Rat} {lo lo' : Rat}
    (hg : StepOn g B lo none) (h1 : lo ≤ lo')
    (hlo : ∀ b ∈ B, ¬ (lo < b ∧ b ≤ lo')) :
    winSet g lo none = winSet g lo' none := by
  ext y
  constructor
  · rintro ⟨s, k1, k2, k3⟩
    by_cases hs : lo' ≤ s
    · exact ⟨s, hs, trivial, k3⟩
    · have hs' : s < lo' := not_le.1 hs
      refine ⟨lo', le_rfl, trivial, ?_⟩
      rw [hg.2 s lo' k1 (le_of_lt hs') trivial (fun b hb hh => hlo b hb ⟨lt_of_le_of_lt k1 hh.1, hh.2⟩)]
      exact k3
  · rintro ⟨s, k1, k2, k3⟩
    exact ⟨s, le_trans h1 k1, trivial, k3⟩

/-! ### `dom` -/

theorem foldl_max_max (l : List Rat) (a b : Rat) : l.foldl max (max a b) = max a (l.foldl max b) := by
  induction l generalizing b with
  | nil => rfl
  | cons x xs ih => simp only [List.foldl_cons]; rw [max_assoc, ih]

theorem foldl_max_ge (l : List Rat) (a : Rat) : a ≤ l.foldl max a := by
  induction l generalizing a with
  | nil => exact le_rfl
  | cons x xs ih => exact le_trans (le_max_left _ _) (ih _)

omit [Val α] in
theorem dom_nonneg (w : DEnv α) (φ : F α) : 0 ≤ dom w φ := foldl_max_ge _ _

omit [Val α] in
theorem dom_of_vars_eq (w : DEnv α) {φ ψ : F α} (h : φ.vars = ψ.vars) : dom w φ = dom w ψ := by
  unfold dom; rw [h]

omit [Val α] in
theorem dom_of_vars_append (w : DEnv α) {φ φ1 φ2 : F α} (h : φ.vars = φ1.vars ++ φ2.vars) :
    dom w φ = max (dom w φ1) (dom w φ2) := by
  unfold dom
  rw [h, List.map_append, List.foldl_append]
  have h0 := foldl_max_ge (φ1.vars.map (fun x => ((w.sig x).times.head?).getD 0)) 0
  rw [← max_eq_left h0, foldl_max_max, max_eq_left h0]

omit [Val α] in
theorem dom_of_vars_nil (w : DEnv α) {φ : F α} (h : φ.vars = []) : dom w φ = 0 := by
  unfold dom; rw [h]; rfl

omit [Val α] in
theorem dom_var (w : DEnv α) (x : String) :
    dom w (.var x) = max 0 (((w.sig x).times.head?).getD 0) := rfl

/-! ### `valAt` -/

omit [Val α] [LawfulVal α] in
theorem valAt_cons (τ : Rat) (v : α) (rest : DSig α) (t : Rat) :
    DSig.valAt ((τ, v) :: rest) t = if t < τ then none else some ((DSig.valAt rest t).getD v) := by
  by_cases h : t < τ
  · simp only [DSig.valAt, if_pos h]
  · simp only [DSig.valAt, if_neg h]
    cases DSig.valAt rest t <;> rfl

omit [Val α] [LawfulVal α] in
theorem valAt_step (s : DSig α) (hne : s ≠ []) (hs : s.times.Pairwise (· < ·)) :
    (∀ t, t < s.times.head?.getD 0 → s.valAt t = none) ∧
      StepOn s.valAt s.times (s.times.head?.getD 0) none := by
  induction s with
  | nil => exact absurd rfl hne
  | cons p rest ih =>
    obtain ⟨τ, v⟩ := p
    cases rest with
    | nil =>
      refine ⟨fun t ht => ?_, fun t ht _ => ?_, fun t t' h1 h2 _ _ => ?_⟩
      · simp only [DSig.times, List.map_cons, List.head?_cons, Option.getD_some] at ht
        rw [valAt_cons, if_pos ht]
      · simp only [DSig.times, List.map_cons, List.head?_cons, Option.getD_some] at ht
        rw [valAt_cons, if_neg (not_lt.2 ht)]; rfl
      · simp only [DSig.times, List.map_cons, List.head?_cons, Option.getD_some] at h1
        rw [valAt_cons τ v _ t', valAt_cons τ v _ t, if_neg (not_lt.2 h1),
          if_neg (not_lt.2 (le_trans h1 h2))]
        rfl
    | cons p' rest' =>
      obtain ⟨τ', v'⟩ := p'
      have hs' : (DSig.times ((τ', v') :: rest')).Pairwise (· < ·) := by
        simp only [DSig.times, List.map_cons, List.pairwise_cons] at hs ⊢
        exact hs.2
      have hlt : τ < τ' := by
        simp only [DSig.times, List.map_cons, List.pairwise_cons] at hs
        exact hs.1 τ' (List.mem_cons_self ..)
      obtain ⟨A, B1, B2⟩ := ih (by simp) hs'
      simp only [DSig.times, List.map_cons, List.head?_cons, Option.getD_some] at A B1 B2 ⊢
      refine ⟨fun t ht => ?_, fun t ht _ => ?_, fun t t' h1 h2 _ h4 => ?_⟩
      · rw [valAt_cons, if_pos ht]
      · rw [valAt_cons, if_neg (not_lt.2 ht)]; rfl
      · rw [valAt_cons τ v _ t', valAt_cons τ v _ t, if_neg (not_lt.2 h1),
          if_neg (not_lt.2 (le_trans h1 h2))]
        congr 2
        by_cases hc : t' < τ'
        · rw [A t' hc, A t (lt_of_le_of_lt h2 hc)]
        · have hc' : τ' ≤ t' := not_lt.1 hc
          have hc2 : τ' ≤ t := by
            by_contra hn
            exact h4 τ' (by simp) ⟨not_le.1 hn, hc'⟩
          exact B2 t t' hc2 h2 trivial (fun b hb => h4 b (List.mem_cons_of_mem _ hb))

end Rtamt.Dense
