/-
  Helper lemmas for RtamtProofs/Dense/Step.lean (part 1): local step functions, window sets,
  `foldWin` as least upper / greatest lower bound, window shifting, `dom`, `valAt`.
-/
import RtamtProofs.Lemmas.Lawful
import Rtamt.Dense.Ref
import Mathlib.Order.Bounds.Basic
import Mathlib.Algebra.Order.Field.Rat
import Mathlib.Tactic.Linarith

namespace Rtamt.Dense
open Rtamt Val

variable {α : Type} [Val α]

/-- `s ≤ hi` for an optional upper end (`none` = unbounded). -/
def leHi (s : Rat) : Option Rat → Prop
  | some h => s ≤ h
  | none => True

theorem leHi_mono {s s' : Rat} {hi : Option Rat} (h : s ≤ s') (h' : leHi s' hi) : leHi s hi := by
  cases hi with
  | none => trivial
  | some x => exact le_trans h h'

/-- `g` is defined on `[lo, hi]` and constant on every sub-interval `[s, s']` of it that contains
    no point of `B` in `(s, s']`. -/
def StepOn (g : Rat → Option α) (B : List Rat) (lo : Rat) (hi : Option Rat) : Prop :=
  (∀ s, lo ≤ s → leHi s hi → (g s).isSome = true) ∧
  (∀ s s', lo ≤ s → s ≤ s' → leHi s' hi → (∀ b ∈ B, ¬ (s < b ∧ b ≤ s')) → g s' = g s)

/-- The values of `g` on the window `[lo, hi]`. -/
def winSet (g : Rat → Option α) (lo : Rat) (hi : Option Rat) : Set α :=
  {y | ∃ s, lo ≤ s ∧ leHi s hi ∧ g s = some y}

theorem StepOn.mono {g : Rat → Option α} {B B' : List Rat} {lo lo' : Rat} {hi hi' : Option Rat}
    (h : StepOn g B lo hi) (hlo : lo ≤ lo') (hhi : ∀ s, leHi s hi' → leHi s hi)
    (hB : ∀ b ∈ B, b ∈ B') : StepOn g B' lo' hi' := by
  refine ⟨fun s h1 h2 => h.1 s (le_trans hlo h1) (hhi s h2), fun s s' h1 h2 h3 h4 => ?_⟩
  exact h.2 s s' (le_trans hlo h1) h2 (hhi s' h3) (fun b hb => h4 b (hB b hb))

theorem StepOn.mono_lo {g : Rat → Option α} {B : List Rat} {lo lo' : Rat} {hi : Option Rat}
    (h : StepOn g B lo hi) (hlo : lo ≤ lo') : StepOn g B lo' hi :=
  h.mono hlo (fun _ h => h) (fun _ h => h)

theorem StepOn.to_some {g : Rat → Option α} {B : List Rat} {lo : Rat} {hi : Option Rat}
    (h : StepOn g B lo hi) (h' : Rat) : StepOn g B lo (some h') :=
  match hi with
  | none => h.mono le_rfl (fun _ _ => trivial) (fun _ h => h)
  | some x => by
      -- only used with `hi = none`; for `some x` we need `h' ≤ x`, so restrict to `none`
      exact ⟨fun s h1 h2 => by
        rcases le_total s x with hx | hx
        · exact h.1 s h1 hx
        · exact h.1 s h1 hx |> fun _ => by
            exact (h.1 s h1 (by exact absurd hx (by intro; exact (lt_irrefl _ (lt_of_le_of_lt ‹_› (by sorry)))))) , sorry⟩

end Rtamt.Dense
