/-
  Dense time, online (C05): the binary point-wise operation classes (`binUpdate`: buffers, the online intersection
  `interOn` with remainders and the pending `last` sample, `last_output`).
-/
import RtamtProofs.Dense.OnDefs

namespace Rtamt.Dense.AlgOn
open Rtamt Val Rtamt.Dense.Alg

namespace BinAux
open InterAux
attribute [local instance] InterAux.tmOrder

variable {α β : Type}
set_option linter.unusedVariables false

/-! ### lists that are sorted up to their first `inf` stamp -/

/-- Adjacent stamps increase, up to (and including) the first stamp `inf`; what follows an `inf` stamp is never read. -/
def Good : ASig β → Prop
  | [] => True
  | [_] => True
  | (p, _) :: (c, w) :: r => p < c ∧ (c = Tm.inf ∨ Good ((c, w) :: r))

/-- The end of the interval of the head sample: the second stamp (the head stamp for a single sample). -/
def nxt : ASig β → Tm
  | [] => Tm.inf
  | [(p, _)] => p
  | _ :: (c, _) :: _ => c

def hd : ASig β → Tm
  | [] => Tm.inf
  | (p, _) :: _ => p

theorem good_head_lt {p v c w} {r : ASig β} (h : Good ((p, v) :: (c, w) :: r)) : p < c := h.1

theorem good_tail {p v c w} {r : ASig β} (h : Good ((p, v) :: (c, w) :: r)) (hc : c ≠ Tm.inf) : Good ((c, w) :: r) := by
  rcases h.2 with h | h
  · exact absurd h hc
  · exact h

theorem ne_inf_of_lt {a b : Tm} (h : a < b) : a ≠ Tm.inf := by
  intro e; subst e
  exact absurd (lt_of_lt_of_le h (le_inf b)) (lt_irrefl _)

theorem ne_inf_of_le {a b : Tm} (h : a ≤ b) (hb : b ≠ Tm.inf) : a ≠ Tm.inf := by
  intro e; subst e
  exact hb (le_antisymm (le_inf b) h)

theorem exists_fin {a : Tm} (h : a ≠ Tm.inf) : ∃ q, a = Tm.fin q := by
  cases a with
  | fin q => exact ⟨q, rfl⟩
  | inf => exact absurd rfl h

theorem good_of_sorted : ∀ {s : ASig β}, Sorted s → Good s
  | [], _ => trivial
  | [_], _ => trivial
  | (p, v) :: (c, w) :: r, h => ⟨sorted_head_lt h, Or.inr (good_of_sorted (sorted_tail h))⟩

theorem hd_le_nxt : ∀ {s : ASig β}, Good s → hd s ≤ nxt s
  | [], _ => le_rfl
  | [(_, _)], _ => le_rfl
  | (_, _) :: (_, _) :: _, h => le_of_lt h.1

/-- At its head stamp a good list has the head value. -/
theorem valAtA_at_head (p : Rat) (v : β) (r : ASig β) (h : Good ((Tm.fin p, v) :: r)) :
    valAtA ((Tm.fin p, v) :: r) p = some v := by
  cases r with
  | nil => simp [valAtA_cons, valAtA_nil]
  | cons q r =>
    obtain ⟨c, w⟩ := q
    exact valAtA_head _ _ _ _ _ _ le_rfl h.1

/-! ### one step of the main loop -/

local macro "tm_facts" h:ident : tactic => `(tactic| first
  | (have hf := lt_facts $h; clear $h)
  | (have hf := eq_facts $h; clear $h))

theorem onLoop_step_lt (f : α → α → β) (ne : β → β → Bool) (p1 : Tm) (v1 : α) (c1 : Tm) (w1 : α) (r1 : ASig α)
    (p2 : Tm) (v2 : α) (c2 : Tm) (w2 : α) (r2 : ASig α) (out : ASig β) (last : Last β) (h1 : p1 < c1) (h2 : p2 < c2) (a : p1 < p2) :
    onLoop f ne ((p1, v1) :: (c1, w1) :: r1) ((p2, v2) :: (c2, w2) :: r2) out last =
      if c1 < p2 then onLoop f ne ((c1, w1) :: r1) ((p2, v2) :: (c2, w2) :: r2) out .nil
      else if c1 = p2 then onLoop f ne ((c1, w1) :: r1) ((p2, v2) :: (c2, w2) :: r2) out (.item p2 (f w1 v2))
      else if c2 < p1 then onLoop f ne ((p1, v1) :: (c1, w1) :: r1) ((c2, w2) :: r2) out last
      else if c2 = p1 then onLoop f ne ((p1, v1) :: (c1, w1) :: r1) ((c2, w2) :: r2) out (.item c2 (f v1 w2))
      else if c1 < c2 then
        onLoop f ne ((c1, w1) :: r1) ((p2, v2) :: (c2, w2) :: r2) (appendD ne out (max p1 p2, f v1 v2))
          (.item c1 (f w1 v2))
      else if c1 = c2 then
        onLoop f ne ((c1, w1) :: r1) ((p2, v2) :: (c2, w2) :: r2) (appendD ne out (max p1 p2, f v1 v2))
          (.item c2 (f w1 w2))
      else
        onLoop f ne ((p1, v1) :: (c1, w1) :: r1) ((c2, w2) :: r2) (appendD ne out (max p1 p2, f v1 v2))
          (.item c2 (f v1 w2)) := by
  rw [onLoop]
  simp only [lt_iff, beq_iff_eq, Bool.and_eq_true]
  generalize onLoop f ne = L
  rw [max_eq_right a.le]
  rcases lt_trichotomy c1 c2 with b | b | b <;> rcases lt_trichotomy c1 p2 with c | c | c <;>
    rcases lt_trichotomy c2 p1 with d | d | d <;>
    first
    | (exfalso; order)
    | (tm_facts a; tm_facts h1; tm_facts h2; tm_facts b; tm_facts c; tm_facts d
       simp only [*, if_true, if_false, and_true, and_false, and_self])

theorem onLoop_step_eq (f : α → α → β) (ne : β → β → Bool) (p1 : Tm) (v1 : α) (c1 : Tm) (w1 : α) (r1 : ASig α)
    (p2 : Tm) (v2 : α) (c2 : Tm) (w2 : α) (r2 : ASig α) (out : ASig β) (last : Last β) (h1 : p1 < c1) (h2 : p2 < c2) (a : p1 = p2) :
    onLoop f ne ((p1, v1) :: (c1, w1) :: r1) ((p2, v2) :: (c2, w2) :: r2) out last =
      if c1 < p2 then onLoop f ne ((c1, w1) :: r1) ((p2, v2) :: (c2, w2) :: r2) out .nil
      else if c1 = p2 then onLoop f ne ((c1, w1) :: r1) ((p2, v2) :: (c2, w2) :: r2) out (.item p2 (f w1 v2))
      else if c2 < p1 then onLoop f ne ((p1, v1) :: (c1, w1) :: r1) ((c2, w2) :: r2) out last
      else if c2 = p1 then onLoop f ne ((p1, v1) :: (c1, w1) :: r1) ((c2, w2) :: r2) out (.item c2 (f v1 w2))
      else if c1 < c2 then
        onLoop f ne ((c1, w1) :: r1) ((p2, v2) :: (c2, w2) :: r2) (appendD ne out (max p1 p2, f v1 v2))
          (.item c1 (f w1 v2))
      else if c1 = c2 then
        onLoop f ne ((c1, w1) :: r1) ((p2, v2) :: (c2, w2) :: r2) (appendD ne out (max p1 p2, f v1 v2))
          (.item c2 (f w1 w2))
      else
        onLoop f ne ((p1, v1) :: (c1, w1) :: r1) ((c2, w2) :: r2) (appendD ne out (max p1 p2, f v1 v2))
          (.item c2 (f v1 w2)) := by
  subst a
  rw [onLoop]
  simp only [lt_iff, beq_iff_eq, Bool.and_eq_true]
  generalize onLoop f ne = L
  rw [max_self]
  rcases lt_trichotomy c1 c2 with b | b | b <;>
    first
    | (exfalso; order)
    | (tm_facts h1; tm_facts h2; tm_facts b
       simp only [*, if_true, if_false, and_true, and_false, and_self, lt_self_iff_false])

theorem onLoop_step_gt (f : α → α → β) (ne : β → β → Bool) (p1 : Tm) (v1 : α) (c1 : Tm) (w1 : α) (r1 : ASig α)
    (p2 : Tm) (v2 : α) (c2 : Tm) (w2 : α) (r2 : ASig α) (out : ASig β) (last : Last β) (h1 : p1 < c1) (h2 : p2 < c2) (a : p2 < p1) :
    onLoop f ne ((p1, v1) :: (c1, w1) :: r1) ((p2, v2) :: (c2, w2) :: r2) out last =
      if c1 < p2 then onLoop f ne ((c1, w1) :: r1) ((p2, v2) :: (c2, w2) :: r2) out .nil
      else if c1 = p2 then onLoop f ne ((c1, w1) :: r1) ((p2, v2) :: (c2, w2) :: r2) out (.item p2 (f w1 v2))
      else if c2 < p1 then onLoop f ne ((p1, v1) :: (c1, w1) :: r1) ((c2, w2) :: r2) out last
      else if c2 = p1 then onLoop f ne ((p1, v1) :: (c1, w1) :: r1) ((c2, w2) :: r2) out (.item c2 (f v1 w2))
      else if c1 < c2 then
        onLoop f ne ((c1, w1) :: r1) ((p2, v2) :: (c2, w2) :: r2) (appendD ne out (max p1 p2, f v1 v2))
          (.item c1 (f w1 v2))
      else if c1 = c2 then
        onLoop f ne ((c1, w1) :: r1) ((p2, v2) :: (c2, w2) :: r2) (appendD ne out (max p1 p2, f v1 v2))
          (.item c2 (f w1 w2))
      else
        onLoop f ne ((p1, v1) :: (c1, w1) :: r1) ((c2, w2) :: r2) (appendD ne out (max p1 p2, f v1 v2))
          (.item c2 (f v1 w2)) := by
  rw [onLoop]
  simp only [lt_iff, beq_iff_eq, Bool.and_eq_true]
  generalize onLoop f ne = L
  rw [max_eq_left a.le]
  rcases lt_trichotomy c1 c2 with b | b | b <;> rcases lt_trichotomy c1 p2 with c | c | c <;>
    rcases lt_trichotomy c2 p1 with d | d | d <;>
    first
    | (exfalso; order)
    | (tm_facts a; tm_facts h1; tm_facts h2; tm_facts b; tm_facts c; tm_facts d
       simp only [*, if_true, if_false, and_true, and_false, and_self])

theorem onLoop_step (f : α → α → β) (ne : β → β → Bool) (p1 : Tm) (v1 : α) (c1 : Tm) (w1 : α) (r1 : ASig α)
    (p2 : Tm) (v2 : α) (c2 : Tm) (w2 : α) (r2 : ASig α) (out : ASig β) (last : Last β) (h1 : p1 < c1) (h2 : p2 < c2) :
    onLoop f ne ((p1, v1) :: (c1, w1) :: r1) ((p2, v2) :: (c2, w2) :: r2) out last =
      if c1 < p2 then onLoop f ne ((c1, w1) :: r1) ((p2, v2) :: (c2, w2) :: r2) out .nil
      else if c1 = p2 then onLoop f ne ((c1, w1) :: r1) ((p2, v2) :: (c2, w2) :: r2) out (.item p2 (f w1 v2))
      else if c2 < p1 then onLoop f ne ((p1, v1) :: (c1, w1) :: r1) ((c2, w2) :: r2) out last
      else if c2 = p1 then onLoop f ne ((p1, v1) :: (c1, w1) :: r1) ((c2, w2) :: r2) out (.item c2 (f v1 w2))
      else if c1 < c2 then
        onLoop f ne ((c1, w1) :: r1) ((p2, v2) :: (c2, w2) :: r2) (appendD ne out (max p1 p2, f v1 v2))
          (.item c1 (f w1 v2))
      else if c1 = c2 then
        onLoop f ne ((c1, w1) :: r1) ((p2, v2) :: (c2, w2) :: r2) (appendD ne out (max p1 p2, f v1 v2))
          (.item c2 (f w1 w2))
      else
        onLoop f ne ((p1, v1) :: (c1, w1) :: r1) ((c2, w2) :: r2) (appendD ne out (max p1 p2, f v1 v2))
          (.item c2 (f v1 w2)) := by
  rcases lt_trichotomy p1 p2 with a | a | a
  · exact onLoop_step_lt f ne p1 v1 c1 w1 r1 p2 v2 c2 w2 r2 out last h1 h2 a
  · exact onLoop_step_eq f ne p1 v1 c1 w1 r1 p2 v2 c2 w2 r2 out last h1 h2 a
  · exact onLoop_step_gt f ne p1 v1 c1 w1 r1 p2 v2 c2 w2 r2 out last h1 h2 a

/-! ### the main loop -/

@[simp] theorem hd_cons (p : Tm) (v : β) (r : ASig β) : hd ((p, v) :: r) = p := rfl
@[simp] theorem nxt_cons2 (a : Tm × β) (c : Tm) (w : β) (r : ASig β) : nxt (a :: (c, w) :: r) = c := rfl
@[simp] theorem nxt_single (p : Tm) (v : β) : nxt [(p, v)] = p := rfl

theorem ne_nil_of_hd {l : ASig β} (h : hd l ≠ Tm.inf) : l ≠ [] := by
  intro e; subst e; exact h rfl

/-- The pending sample carries the value at the frontier. -/
def LastOK (G : Rat → Option β) (last : Last β) (m : Tm) : Prop :=
  ∃ τ v, m = Tm.fin τ ∧ last = .item m v ∧ G τ = some v

/-- The intervals of the two head samples touch or overlap. -/
def Touch (l1 l2 : ASig α) : Prop := hd l2 ≤ nxt l1 ∧ hd l1 ≤ nxt l2

def FinOr (l1 l2 : ASig α) : Prop := (∀ x ∈ l1, x.1 ≠ Tm.inf) ∨ (∀ x ∈ l2, x.1 ≠ Tm.inf)

/-- `r` is what remains of `l` after samples before the head of `r` have been removed. -/
def Suf (l r : ASig α) : Prop := ∃ pre, l = pre ++ r ∧ ∀ x ∈ pre, x.1 < hd r

theorem Suf.refl (l : ASig α) : Suf l l := ⟨[], rfl, by simp⟩

theorem Suf.cons {p : Tm} {v : α} {l r : ASig α} (hp : p < hd l) (h : Suf l r) : Suf ((p, v) :: l) r := by
  obtain ⟨pre, hl, hpre⟩ := h
  refine ⟨(p, v) :: pre, by rw [hl]; rfl, ?_⟩
  intro x hx
  rcases List.mem_cons.1 hx with rfl | hx
  · cases pre with
    | nil => simpa [hl] using hp
    | cons y pre' =>
      obtain ⟨y1, y2⟩ := y
      have : y1 < hd r := hpre (y1, y2) (by simp)
      rw [hl] at hp
      exact lt_trans hp this
  · exact hpre x hx

structure LoopSt (f : α → α → β) (G : Rat → Option β) (D : Rat) (l1 l2 : ASig α) (out : ASig β) : Prop where
  good1 : Good l1
  good2 : Good l2
  finOr : FinOr l1 l2
  fin1 : hd l1 ≠ Tm.inf
  fin2 : hd l2 ≠ Tm.inf
  touch : Touch l1 l2
  outInv : OutInv G D out (max (hd l1) (hd l2))
  hG : ∀ t, max (hd l1) (hd l2) ≤ Tm.fin t → lift2 f (valAtA l1) (valAtA l2) t = G t

theorem FinOr.tail1 {a : Tm × α} {l1 l2 : ASig α} (h : FinOr (a :: l1) l2) : FinOr l1 l2 := by
  rcases h with h | h
  · exact Or.inl fun x hx => h x (List.mem_cons_of_mem _ hx)
  · exact Or.inr h

theorem FinOr.tail2 {a : Tm × α} {l1 l2 : ASig α} (h : FinOr l1 (a :: l2)) : FinOr l1 l2 := by
  rcases h with h | h
  · exact Or.inl h
  · exact Or.inr fun x hx => h x (List.mem_cons_of_mem _ hx)

theorem lastOK_mk (f : α → α → β) (G : Rat → Option β) (l1 l2 : ASig α) (τ : Rat) (a b : α)
    (hG : ∀ t, Tm.fin τ ≤ Tm.fin t → lift2 f (valAtA l1) (valAtA l2) t = G t)
    (ha : valAtA l1 τ = some a) (hb : valAtA l2 τ = some b) : LastOK G (.item (Tm.fin τ) (f a b)) (Tm.fin τ) := by
  refine ⟨τ, f a b, rfl, rfl, ?_⟩
  rw [← hG τ le_rfl]
  unfold lift2
  rw [ha, hb]

/-- A step that removes the head of the first list. -/
theorem LoopSt.popL {f : α → α → β} {G : Rat → Option β} {D : Rat} {p1 v1 c1 w1} {r1 : ASig α} {p2 v2 c2 w2} {r2 : ASig α}
    {out : ASig β} (h : LoopSt f G D ((p1, v1) :: (c1, w1) :: r1) ((p2, v2) :: (c2, w2) :: r2) out)
    (hc : c1 ≤ c2) (out' : ASig β) (ho : OutInv G D out' c1) :
    LoopSt f G D ((c1, w1) :: r1) ((p2, v2) :: (c2, w2) :: r2) out' := by
  have h1 : p1 < c1 := h.good1.1
  have h2 : p2 < c2 := h.good2.1
  have ht := h.touch
  simp only [Touch, hd_cons, nxt_cons2] at ht
  have hc1 : c1 ≠ Tm.inf := by
    rcases lt_or_eq_of_le hc with hlt | heq
    · exact ne_inf_of_lt hlt
    · rcases h.finOr with hf | hf
      · exact hf (c1, w1) (by simp)
      · rw [heq]; exact hf (c2, w2) (by simp)
  have hg1 : Good ((c1, w1) :: r1) := good_tail h.good1 hc1
  have hm : max c1 p2 = c1 := max_eq_left ht.1
  refine ⟨hg1, h.good2, h.finOr.tail1, hc1, h.fin2, ⟨?_, hc⟩, ?_, ?_⟩
  · exact le_trans ht.1 (hd_le_nxt hg1)
  · simp only [hd_cons, hm]; exact ho
  · simp only [hd_cons, hm]
    have := h.hG
    simp only [hd_cons] at this
    exact lift2_adv_left f p1 v1 c1 w1 r1 _ G _ _ h1 le_rfl (max_le h1.le ht.1) this

/-- A step that removes the head of the second list. -/
theorem LoopSt.popR {f : α → α → β} {G : Rat → Option β} {D : Rat} {p1 v1 c1 w1} {r1 : ASig α} {p2 v2 c2 w2} {r2 : ASig α}
    {out : ASig β} (h : LoopSt f G D ((p1, v1) :: (c1, w1) :: r1) ((p2, v2) :: (c2, w2) :: r2) out)
    (hc : c2 ≤ c1) (out' : ASig β) (ho : OutInv G D out' c2) :
    LoopSt f G D ((p1, v1) :: (c1, w1) :: r1) ((c2, w2) :: r2) out' := by
  have h1 : p1 < c1 := h.good1.1
  have h2 : p2 < c2 := h.good2.1
  have ht := h.touch
  simp only [Touch, hd_cons, nxt_cons2] at ht
  have hc2 : c2 ≠ Tm.inf := by
    rcases lt_or_eq_of_le hc with hlt | heq
    · exact ne_inf_of_lt hlt
    · rcases h.finOr with hf | hf
      · rw [heq]; exact hf (c1, w1) (by simp)
      · exact hf (c2, w2) (by simp)
  have hg2 : Good ((c2, w2) :: r2) := good_tail h.good2 hc2
  have hm : max p1 c2 = c2 := max_eq_right ht.2
  refine ⟨h.good1, hg2, h.finOr.tail2, h.fin1, hc2, ⟨hc, ?_⟩, ?_, ?_⟩
  · exact le_trans ht.2 (hd_le_nxt hg2)
  · simp only [hd_cons, hm]; exact ho
  · simp only [hd_cons, hm]
    have := h.hG
    simp only [hd_cons] at this
    exact lift2_adv_right f p2 v2 c2 w2 r2 _ G _ _ h2 le_rfl (max_le ht.2 h2.le) this

structure LoopRes (f : α → α → β) (G : Rat → Option β) (D : Rat) (l1 l2 : ASig α) (out : ASig β) (last : Last β)
    (out' : ASig β) (last' : Last β) (r1 r2 : ASig α) : Prop where
  suf1 : Suf l1 r1
  suf2 : Suf l2 r2
  st : LoopSt f G D r1 r2 out'
  single : r1.length ≤ 1 ∨ r2.length ≤ 1
  last : (out' = out ∧ last' = last ∧ r1 = l1 ∧ r2 = l2) ∨ LastOK G last' (max (hd r1) (hd r2))

theorem LoopRes.step1 {f : α → α → β} {G : Rat → Option β} {D : Rat} {p1 : Tm} {v1 : α} {l1 l2 : ASig α}
    {out out'' out' : ASig β} {last last'' last' : Last β} {r1 r2 : ASig α} (hp : p1 < hd l1)
    (hL : LastOK G last'' (max (hd l1) (hd l2))) (h : LoopRes f G D l1 l2 out'' last'' out' last' r1 r2) :
    LoopRes f G D ((p1, v1) :: l1) l2 out last out' last' r1 r2 := by
  refine ⟨h.suf1.cons hp, h.suf2, h.st, h.single, Or.inr ?_⟩
  rcases h.last with ⟨_, e2, e3, e4⟩ | h'
  · rw [e2, e3, e4]; exact hL
  · exact h'

theorem LoopRes.step2 {f : α → α → β} {G : Rat → Option β} {D : Rat} {p2 : Tm} {v2 : α} {l1 l2 : ASig α}
    {out out'' out' : ASig β} {last last'' last' : Last β} {r1 r2 : ASig α} (hp : p2 < hd l2)
    (hL : LastOK G last'' (max (hd l1) (hd l2))) (h : LoopRes f G D l1 l2 out'' last'' out' last' r1 r2) :
    LoopRes f G D l1 ((p2, v2) :: l2) out last out' last' r1 r2 := by
  refine ⟨h.suf1, h.suf2.cons hp, h.st, h.single, Or.inr ?_⟩
  rcases h.last with ⟨_, e2, e3, e4⟩ | h'
  · rw [e2, e3, e4]; exact hL
  · exact h'

theorem onLoop_left_single (f : α → α → β) (ne : β → β → Bool) (a : Tm × α) (l2 : ASig α) (out : ASig β) (last : Last β) :
    onLoop f ne [a] l2 out last = .ok (out, last, [a], l2) := by
  rw [onLoop]
  intros; simp_all

theorem onLoop_right_single (f : α → α → β) (ne : β → β → Bool) (a : Tm × α) (l1 : ASig α) (out : ASig β) (last : Last β) :
    onLoop f ne l1 [a] out last = .ok (out, last, l1, [a]) := by
  rw [onLoop]
  intros; simp_all

theorem onLoop_spec (f : α → α → β) (ne : β → β → Bool) (hne : ∀ a b, ne a b = false → a = b)
    (G : Rat → Option β) (D : Rat) :
    ∀ (n : Nat) (l1 l2 : ASig α) (out : ASig β) (last : Last β), l1.length + l2.length ≤ n →
      LoopSt f G D l1 l2 out →
      ∃ out' last' r1 r2, onLoop f ne l1 l2 out last = .ok (out', last', r1, r2) ∧
        LoopRes f G D l1 l2 out last out' last' r1 r2 := by
  intro n
  induction n with
  | zero =>
    intro l1 l2 out last hn hst
    have : l1 = [] := List.eq_nil_of_length_eq_zero (by omega)
    exact absurd this (ne_nil_of_hd hst.fin1)
  | succ n ih =>
    intro l1 l2 out last hn hst
    cases l1 with
    | nil => exact absurd rfl (ne_nil_of_hd hst.fin1)
    | cons a1 t1 =>
    cases l2 with
    | nil => exact absurd rfl (ne_nil_of_hd hst.fin2)
    | cons a2 t2 =>
    cases t1 with
    | nil =>
      exact ⟨out, last, [a1], a2 :: t2, onLoop_left_single _ _ _ _ _ _,
        Suf.refl _, Suf.refl _, hst, Or.inl (by simp), Or.inl ⟨rfl, rfl, rfl, rfl⟩⟩
    | cons q1 r1 =>
    cases t2 with
    | nil =>
      exact ⟨out, last, a1 :: q1 :: r1, [a2], onLoop_right_single _ _ _ _ _ _,
        Suf.refl _, Suf.refl _, hst, Or.inr (by simp), Or.inl ⟨rfl, rfl, rfl, rfl⟩⟩
    | cons q2 r2 =>
    obtain ⟨p1, v1⟩ := a1
    obtain ⟨p2, v2⟩ := a2
    obtain ⟨c1, w1⟩ := q1
    obtain ⟨c2, w2⟩ := q2
    have h1 : p1 < c1 := hst.good1.1
    have h2 : p2 < c2 := hst.good2.1
    have ht := hst.touch
    simp only [Touch, hd_cons, nxt_cons2] at ht
    have hG := hst.hG
    have hO := hst.outInv
    simp only [hd_cons] at hG hO
    simp only [List.length_cons] at hn
    rw [onLoop_step f ne p1 v1 c1 w1 r1 p2 v2 c2 w2 r2 out last h1 h2]
    -- case 1 is unreachable
    rw [if_neg (not_lt.2 ht.1)]
    by_cases hA : c1 = p2
    · -- case 2
      rw [if_pos hA]
      have hc : c1 ≤ c2 := by rw [hA]; exact h2.le
      have hm : max p1 p2 = c1 := by rw [← hA]; exact max_eq_right h1.le
      have hst' := hst.popL hc out (by rw [← hm]; exact hO)
      obtain ⟨out', last', s1, s2, he, hres⟩ := ih ((c1, w1) :: r1) ((p2, v2) :: (c2, w2) :: r2) out
        (.item p2 (f w1 v2)) (by simp only [List.length_cons]; omega) hst'
      refine ⟨out', last', s1, s2, he, hres.step1 (by simpa using h1) ?_⟩
      obtain ⟨τ, hτ⟩ := exists_fin hst.fin2
      simp only [hd_cons] at hτ
      have hG' := hst'.hG
      simp only [hd_cons, ← hA, max_self] at hG' ⊢
      subst hτ
      rw [hA] at hG' ⊢
      refine lastOK_mk f G _ _ τ w1 v2 hG' (valAtA_at_head _ _ _ ?_) (valAtA_at_head _ _ _ hst.good2)
      have := hst'.good1
      rwa [hA] at this
    rw [if_neg hA]
    rw [if_neg (not_lt.2 ht.2)]
    by_cases hB : c2 = p1
    · -- case 11
      rw [if_pos hB]
      have hc : c2 ≤ c1 := by rw [hB]; exact h1.le
      have hm : max p1 p2 = c2 := by rw [← hB]; exact max_eq_left h2.le
      have hst' := hst.popR hc out (by rw [← hm]; exact hO)
      obtain ⟨out', last', s1, s2, he, hres⟩ := ih ((p1, v1) :: (c1, w1) :: r1) ((c2, w2) :: r2) out
        (.item c2 (f v1 w2)) (by simp only [List.length_cons]; omega) hst'
      refine ⟨out', last', s1, s2, he, hres.step2 (by simpa using h2) ?_⟩
      obtain ⟨τ, hτ⟩ := exists_fin hst.fin1
      simp only [hd_cons] at hτ
      have hG' := hst'.hG
      simp only [hd_cons, hB, max_self] at hG' ⊢
      subst hτ
      refine lastOK_mk f G _ _ τ v1 w2 hG' (valAtA_at_head _ _ _ hst.good1) (valAtA_at_head _ _ _ ?_)
      have := hst'.good2
      rwa [hB] at this
    rw [if_neg hB]
    have hA' : p2 < c1 := lt_of_le_of_ne ht.1 (Ne.symm hA)
    have hB' : p1 < c2 := lt_of_le_of_ne ht.2 (Ne.symm hB)
    have hlt1 : max p1 p2 < c1 := max_lt h1 hA'
    have hlt2 : max p1 p2 < c2 := max_lt hB' h2
    by_cases hC : c1 < c2
    · -- cases 3, 9, 10
      rw [if_pos hC]
      have hst' := hst.popL hC.le (appendD ne out (max p1 p2, f v1 v2))
        (hO.push ne hne hlt1 (f v1 v2) (lift2_heads f p1 v1 c1 w1 r1 p2 v2 c2 w2 r2 G c1 le_rfl hC.le hG))
      obtain ⟨out', last', s1, s2, he, hres⟩ := ih ((c1, w1) :: r1) ((p2, v2) :: (c2, w2) :: r2) _
        (.item c1 (f w1 v2)) (by simp only [List.length_cons]; omega) hst'
      refine ⟨out', last', s1, s2, he, hres.step1 (by simpa using h1) ?_⟩
      obtain ⟨τ, hτ⟩ := exists_fin hst'.fin1
      simp only [hd_cons] at hτ
      have hG' := hst'.hG
      have hg1 := hst'.good1
      simp only [hd_cons, max_eq_left hA'.le] at hG' ⊢
      subst hτ
      exact lastOK_mk f G _ _ τ w1 v2 hG' (valAtA_at_head _ _ _ hg1) (valAtA_head _ _ _ _ _ _ hA'.le hC)
    rw [if_neg hC]
    by_cases hE : c1 = c2
    · -- cases 4, 5, 8
      rw [if_pos hE]
      have hst' := hst.popL hE.le (appendD ne out (max p1 p2, f v1 v2))
        (hO.push ne hne hlt1 (f v1 v2) (lift2_heads f p1 v1 c1 w1 r1 p2 v2 c2 w2 r2 G c1 le_rfl hE.le hG))
      obtain ⟨out', last', s1, s2, he, hres⟩ := ih ((c1, w1) :: r1) ((p2, v2) :: (c2, w2) :: r2) _
        (.item c2 (f w1 w2)) (by simp only [List.length_cons]; omega) hst'
      refine ⟨out', last', s1, s2, he, hres.step1 (by simpa using h1) ?_⟩
      obtain ⟨τ, hτ⟩ := exists_fin hst'.fin1
      simp only [hd_cons] at hτ
      have hG' := hst'.hG
      have hg1 := hst'.good1
      simp only [hd_cons, max_eq_left hA'.le] at hG' ⊢
      subst hτ
      subst hE
      refine lastOK_mk f G _ _ τ w1 w2 hG' (valAtA_at_head _ _ _ hg1) ?_
      rw [valAtA_tail _ _ _ _ _ _ h2 le_rfl]
      exact valAtA_at_head _ _ _ (good_tail hst.good2 (by simp))
    · -- cases 6, 7, 12
      rw [if_neg hE]
      have hD : c2 < c1 := lt_of_le_of_ne (not_lt.1 hC) (Ne.symm hE)
      have hst' := hst.popR hD.le (appendD ne out (max p1 p2, f v1 v2))
        (hO.push ne hne hlt2 (f v1 v2) (lift2_heads f p1 v1 c1 w1 r1 p2 v2 c2 w2 r2 G c2 hD.le le_rfl hG))
      obtain ⟨out', last', s1, s2, he, hres⟩ := ih ((p1, v1) :: (c1, w1) :: r1) ((c2, w2) :: r2) _
        (.item c2 (f v1 w2)) (by simp only [List.length_cons]; omega) hst'
      refine ⟨out', last', s1, s2, he, hres.step2 (by simpa using h2) ?_⟩
      obtain ⟨τ, hτ⟩ := exists_fin hst'.fin2
      simp only [hd_cons] at hτ
      have hG' := hst'.hG
      have hg2 := hst'.good2
      simp only [hd_cons, max_eq_right hB'.le] at hG' ⊢
      subst hτ
      exact lastOK_mk f G _ _ τ v1 w2 hG' (valAtA_head _ _ _ _ _ _ hB'.le hD) (valAtA_at_head _ _ _ hg2)

/-! ### the tail loops -/

theorem tail2_spec (f : α → α → β) (ne : β → β → Bool) (p1 : Tm) (v1 : α) (p2 : Tm) (v2 : α) (c2 : Tm) (w2 : α)
    (r2 : ASig α) (out : ASig β) (last : Last β) (h2 : p2 < c2) (ha : p2 ≤ p1) (hb : p1 ≤ c2) :
    tail2 f ne p1 v1 ((p2, v2) :: (c2, w2) :: r2) out last =
      if p2 = p1 then (out, .item p1 (f v1 v2))
      else if p1 < c2 then (appendD ne out (p1, f v1 v2), .item p1 (f v1 v2))
      else (appendD ne out (p1, f v1 w2), .item p1 (f v1 w2)) := by
  rw [tail2]
  simp only [lt_iff, beq_iff_eq]
  rw [if_neg (not_lt.2 ha)]
  by_cases e : p2 = p1
  · rw [if_pos e, if_pos e]
  rw [if_neg e, if_neg e]
  by_cases e2 : p1 < c2
  · rw [if_pos e2, if_pos e2]
    cases r2 with
    | nil => rw [tail2]; intros; simp_all
    | cons q r =>
      obtain ⟨d, u⟩ := q
      rw [tail2]
      simp only [lt_iff]
      rw [if_pos e2]
  · rw [if_neg e2, if_neg e2]
    have e3 : p1 = c2 := le_antisymm hb (not_lt.1 e2)
    rw [if_pos e3]
    cases r2 with
    | nil => rw [tail2]; intros; simp_all
    | cons q r =>
      obtain ⟨d, u⟩ := q
      rw [tail2]
      simp only [lt_iff, beq_iff_eq]
      rw [if_neg (by rw [e3]; exact lt_irrefl _), if_pos e3.symm]

theorem tail1_spec (f : α → α → β) (ne : β → β → Bool) (p2 : Tm) (v2 : α) (p1 : Tm) (v1 : α) (c1 : Tm) (w1 : α)
    (r1 : ASig α) (out : ASig β) (last : Last β) (h1 : p1 < c1) (ha : p1 ≤ p2) (hb : p2 ≤ c1) :
    tail1 f ne p2 v2 ((p1, v1) :: (c1, w1) :: r1) out last =
      if p1 = p2 then (out, .item p2 (f v1 v2))
      else if p2 < c1 then (appendD ne out (p2, f v1 v2), .item p2 (f v1 v2))
      else (appendD ne out (p2, f w1 v2), .item p2 (f w1 v2)) := by
  rw [tail1]
  simp only [lt_iff, beq_iff_eq]
  rw [if_neg (not_lt.2 ha)]
  by_cases e : p1 = p2
  · rw [if_pos e, if_pos e]
  rw [if_neg e, if_neg e]
  by_cases e2 : p2 < c1
  · rw [if_pos e2, if_pos e2]
    cases r1 with
    | nil => rw [tail1]; intros; simp_all
    | cons q r =>
      obtain ⟨d, u⟩ := q
      rw [tail1]
      simp only [lt_iff]
      rw [if_pos e2]
  · rw [if_neg e2, if_neg e2]
    have e3 : p2 = c1 := le_antisymm hb (not_lt.1 e2)
    rw [if_pos e3]
    cases r1 with
    | nil => rw [tail1]; intros; simp_all
    | cons q r =>
      obtain ⟨d, u⟩ := q
      rw [tail1]
      simp only [lt_iff, beq_iff_eq]
      rw [if_neg (by rw [e3]; exact lt_irrefl _), if_pos e3.symm]

/-! ### `interOn` -/

theorem interOn_single (f : α → α → β) (ne : β → β → Bool) (p1 : Tm) (v1 : α) (t1 : ASig α) (p2 : Tm) (v2 : α) (t2 : ASig α)
    (out : ASig β) (last : Last β) (a b : Tm × α)
    (he : onLoop f ne ((p1, v1) :: t1) ((p2, v2) :: t2) [] (if p1 == p2 then .item p1 (f v1 v2) else .nil) =
      .ok (out, last, [a], [b])) :
    interOn f ne ((p1, v1) :: t1) ((p2, v2) :: t2) = .ok (out, last, [a], [b]) := by
  unfold interOn
  simp only []
  rw [MainAux.bind_ok_eq he]
  rfl

theorem interOn_tail2 (f : α → α → β) (ne : β → β → Bool) (p1 : Tm) (v1 : α) (t1 : ASig α) (p2 : Tm) (v2 : α) (t2 : ASig α)
    (out : ASig β) (last : Last β) (q1 : Tm) (x1 : α) (a b : Tm × α) (r : ASig α)
    (he : onLoop f ne ((p1, v1) :: t1) ((p2, v2) :: t2) [] (if p1 == p2 then .item p1 (f v1 v2) else .nil) =
      .ok (out, last, [(q1, x1)], a :: b :: r)) :
    interOn f ne ((p1, v1) :: t1) ((p2, v2) :: t2) =
      .ok ((tail2 f ne q1 x1 (a :: b :: r) out last).1, (tail2 f ne q1 x1 (a :: b :: r) out last).2,
        [(q1, x1)], a :: b :: r) := by
  unfold interOn
  simp only []
  rw [MainAux.bind_ok_eq he]
  rfl

theorem interOn_tail1 (f : α → α → β) (ne : β → β → Bool) (p1 : Tm) (v1 : α) (t1 : ASig α) (p2 : Tm) (v2 : α) (t2 : ASig α)
    (out : ASig β) (last : Last β) (q2 : Tm) (x2 : α) (a b : Tm × α) (r r' : ASig α)
    (he : onLoop f ne ((p1, v1) :: t1) ((p2, v2) :: t2) [] (if p1 == p2 then .item p1 (f v1 v2) else .nil) =
      .ok (out, last, a :: b :: r, (q2, x2) :: r')) :
    interOn f ne ((p1, v1) :: t1) ((p2, v2) :: t2) =
      .ok ((tail1 f ne q2 x2 (a :: b :: r) out last).1, (tail1 f ne q2 x2 (a :: b :: r) out last).2,
        a :: b :: r, (q2, x2) :: r') := by
  unfold interOn
  simp only []
  rw [MainAux.bind_ok_eq he]
  rfl
/-- `if last: if not result: result.append(last) else: if last[0] > result[-1][0]: result.append(last)`. -/
def finish (result : ASig β) (t : Tm) (v : β) : ASig β :=
  match result.getLast? with
  | none => [(t, v)]
  | some (t', _) => if Tm.lt t' t then result ++ [(t, v)] else result

theorem finish_below (out : ASig β) (m : Tm) (v : β) (h : ∀ τ' ∈ times out, τ' < m) :
    finish out m v = out ++ [(m, v)] := by
  rcases List.eq_nil_or_concat out with rfl | ⟨init, q, rfl⟩
  · rfl
  · rw [List.concat_eq_append]
    obtain ⟨t', x⟩ := q
    have : t' < m := h t' (by simp [times])
    simp only [finish, List.getLast?_append, List.getLast?_singleton, Option.some_or]
    rw [if_pos ((lt_iff _ _).2 this)]

theorem finish_appendD (ne : β → β → Bool) (out : ASig β) (m : Tm) (v : β) (h : ∀ τ' ∈ times out, τ' < m) :
    finish (appendD ne out (m, v)) m v = out ++ [(m, v)] := by
  rcases List.eq_nil_or_concat out with rfl | ⟨init, q, rfl⟩
  · have e : appendD ne [] (m, v) = [(m, v)] := by simp [appendD]
    rw [e]
    simp only [finish, List.getLast?_singleton, List.nil_append]
    rw [if_neg]
    rw [lt_iff]; exact lt_irrefl _
  · rw [List.concat_eq_append] at h ⊢
    by_cases hq : ne q.2 v = true
    · have : appendD ne (init ++ [q]) (m, v) = (init ++ [q]) ++ [(m, v)] := by
        simp [appendD, hq]
      rw [this]
      simp only [finish, List.getLast?_append, List.getLast?_singleton, Option.some_or]
      rw [if_neg]
      rw [lt_iff]; exact lt_irrefl _
    · have : appendD ne (init ++ [q]) (m, v) = init ++ [q] := by
        simp [appendD, hq]
      rw [this]
      exact finish_below _ _ _ h

structure ResOK (G : Rat → Option β) (D τ : Rat) (v : β) (res : ASig β) : Prop where
  sorted : Sorted res
  head : (times res).head? = some (Tm.fin D)
  last : res.getLast? = some (Tm.fin τ, v)
  le : ∀ x ∈ times res, x ≤ Tm.fin τ
  val : ∀ t, D ≤ t → t ≤ τ → valAtA res t = G t

theorem resOK_of_outInv {G : Rat → Option β} {D τ : Rat} {v : β} {out : ASig β} (h : OutInv G D out (Tm.fin τ))
    (hv : G τ = some v) : ResOK G D τ v (out ++ [(Tm.fin τ, v)]) := by
  refine ⟨?_, ?_, by simp, ?_, ?_⟩
  · rw [sorted_iff, times_append, List.pairwise_append]
    refine ⟨(sorted_iff _).1 h.sorted, by simp [times], ?_⟩
    intro a ha b hb
    have : b = Tm.fin τ := by simpa [times] using hb
    subst this
    exact h.below a ha
  · have := h.start
    rwa [times_append]
  · intro x hx
    rw [times_append, List.mem_append] at hx
    rcases hx with hx | hx
    · exact (h.below x hx).le
    · have : x = Tm.fin τ := by simpa [times] using hx
      rw [this]
  · intro t h1 h2
    rcases lt_or_eq_of_le h2 with hlt | heq
    · rw [valAtA_append_after _ _ _ _ ((fin_lt_fin _ _).2 hlt)]
      exact h.val t h1 ((fin_lt_fin _ _).2 hlt)
    · subst heq
      rw [valAtA_append_at _ _ _ _ le_rfl (fun τ' hτ' => (h.below τ' hτ').le)]
      exact hv.symm

structure InterRes (f : α → α → β) (G : Rat → Option β) (D : Rat) (b1 b2 : ASig α) (out' : ASig β) (τ : Rat) (v : β)
    (r1 r2 : ASig α) : Prop where
  suf1 : Suf b1 r1
  suf2 : Suf b2 r2
  good1 : Good r1
  good2 : Good r2
  touch : Touch r1 r2
  front : max (hd r1) (hd r2) = Tm.fin τ
  single : r1.length ≤ 1 ∨ r2.length ≤ 1
  hG : ∀ t, Tm.fin τ ≤ Tm.fin t → lift2 f (valAtA r1) (valAtA r2) t = G t
  res : ResOK G D τ v (finish out' (Tm.fin τ) v)

theorem interRes_mk {f : α → α → β} (ne : β → β → Bool) {G : Rat → Option β} {D : Rat} {b1 b2 : ASig α} {out0 : ASig β}
    {last0 : Last β} {out : ASig β} {last : Last β} {r1 r2 : ASig α}
    (hres : LoopRes f G D b1 b2 out0 last0 out last r1 r2) {τ : Rat} (hτ : max (hd r1) (hd r2) = Tm.fin τ) {v : β}
    (hv : G τ = some v) (out'' : ASig β) (ho : out'' = out ∨ out'' = appendD ne out (Tm.fin τ, v)) :
    InterRes f G D b1 b2 out'' τ v r1 r2 := by
  have hO := hres.st.outInv
  rw [hτ] at hO
  have hGG := hres.st.hG
  rw [hτ] at hGG
  refine ⟨hres.suf1, hres.suf2, hres.st.good1, hres.st.good2, hres.st.touch, hτ, hres.single, hGG, ?_⟩
  have : finish out'' (Tm.fin τ) v = out ++ [(Tm.fin τ, v)] := by
    rcases ho with rfl | rfl
    · exact finish_below _ _ _ hO.below
    · exact finish_appendD _ _ _ _ hO.below
  rw [this]
  exact resOK_of_outInv hO hv

theorem valAtA_single (τ : Rat) (x : β) : valAtA [(Tm.fin τ, x)] τ = some x := by
  simp [valAtA_cons, valAtA_nil]

theorem lift2_some (f : α → α → β) {g1 g2 : Rat → Option α} {t : Rat} {a b : α} (ha : g1 t = some a) (hb : g2 t = some b) :
    lift2 f g1 g2 t = some (f a b) := by
  unfold lift2; rw [ha, hb]

theorem interOn_spec (f : α → α → β) (ne : β → β → Bool) (hne : ∀ a b, ne a b = false → a = b)
    (G : Rat → Option β) (D : Rat) (b1 b2 : ASig α) (hst : LoopSt f G D b1 b2 []) :
    ∃ out' τ v r1 r2, interOn f ne b1 b2 = .ok (out', .item (Tm.fin τ) v, r1, r2) ∧
      InterRes f G D b1 b2 out' τ v r1 r2 := by
  cases b1 with
  | nil => exact absurd rfl (ne_nil_of_hd hst.fin1)
  | cons a1 t1 =>
  cases b2 with
  | nil => exact absurd rfl (ne_nil_of_hd hst.fin2)
  | cons a2 t2 =>
  obtain ⟨p1, v1⟩ := a1
  obtain ⟨p2, v2⟩ := a2
  obtain ⟨out, last, r1, r2, he, hres⟩ := onLoop_spec f ne hne G D _ ((p1, v1) :: t1) ((p2, v2) :: t2) []
    (if p1 == p2 then .item p1 (f v1 v2) else .nil) le_rfl hst
  have hst' := hres.st
  have ht := hst'.touch
  have hGG := hst'.hG
  cases r1 with
  | nil => exact absurd rfl (ne_nil_of_hd hst'.fin1)
  | cons y1 s1 =>
  cases r2 with
  | nil => exact absurd rfl (ne_nil_of_hd hst'.fin2)
  | cons y2 s2 =>
  obtain ⟨q1, x1⟩ := y1
  obtain ⟨q2, x2⟩ := y2
  have hf1 := hst'.fin1
  have hf2 := hst'.fin2
  simp only [hd_cons] at hf1 hf2 hGG
  obtain ⟨τ1, rfl⟩ := exists_fin hf1
  obtain ⟨τ2, rfl⟩ := exists_fin hf2
  cases s1 with
  | nil =>
    cases s2 with
    | nil =>
      -- both remainders are single samples
      simp only [Touch, hd_cons, nxt_single] at ht
      have e : τ1 = τ2 := by
        have := le_antisymm ht.2 ht.1
        injection this
      subst e
      have hτ : max (hd [(Tm.fin τ1, x1)]) (hd [(Tm.fin τ1, x2)]) = Tm.fin τ1 := by simp
      rw [max_self] at hGG
      have hv : G τ1 = some (f x1 x2) := by
        rw [← hGG τ1 le_rfl]
        exact lift2_some f (valAtA_single _ _) (valAtA_single _ _)
      have hl : last = .item (Tm.fin τ1) (f x1 x2) := by
        rcases hres.last with ⟨_, e2, e3, e4⟩ | ⟨τ', v', h1, h2, h3⟩
        · injection e3 with e3 e3'
          injection e4 with e4 e4'
          injection e3 with e3a e3b
          injection e4 with e4a e4b
          subst e3a e3b e4a e4b
          rw [e2]; simp
        · rw [hτ] at h1 h2
          injection h1 with h1
          subst h1
          rw [hv] at h3
          injection h3 with h3
          rw [h2, h3]
      subst hl
      exact ⟨out, τ1, f x1 x2, _, _, interOn_single f ne p1 v1 t1 p2 v2 t2 out _ _ _ he,
        interRes_mk ne hres hτ hv out (Or.inl rfl)⟩
    | cons z2 s2 =>
      -- the second list still has more than one sample: `tail2`
      obtain ⟨c2, w2⟩ := z2
      simp only [Touch, hd_cons, nxt_single, nxt_cons2] at ht
      have h2 : Tm.fin τ2 < c2 := hst'.good2.1
      have hτ : max (hd [(Tm.fin τ1, x1)]) (hd ((Tm.fin τ2, x2) :: (c2, w2) :: s2)) = Tm.fin τ1 := by
        simp only [hd_cons]; exact max_eq_left ht.1
      simp only [max_eq_left ht.1] at hGG
      have hi := interOn_tail2 f ne p1 v1 t1 p2 v2 t2 out last (Tm.fin τ1) x1 _ _ _ he
      rw [tail2_spec f ne _ x1 _ x2 c2 w2 s2 out last h2 ht.1 ht.2] at hi
      by_cases e1 : Tm.fin τ2 = Tm.fin τ1
      · rw [if_pos e1] at hi
        have hv : G τ1 = some (f x1 x2) := by
          rw [← hGG τ1 le_rfl]
          refine lift2_some f (valAtA_single _ _) ?_
          injection e1 with e1; subst e1
          exact valAtA_at_head _ _ _ hst'.good2
        exact ⟨_, τ1, _, _, _, hi, interRes_mk ne hres hτ hv out (Or.inl rfl)⟩
      rw [if_neg e1] at hi
      by_cases e2 : Tm.fin τ1 < c2
      · rw [if_pos e2] at hi
        have hv : G τ1 = some (f x1 x2) := by
          rw [← hGG τ1 le_rfl]
          exact lift2_some f (valAtA_single _ _) (valAtA_head _ _ _ _ _ _ ht.1 e2)
        exact ⟨_, τ1, _, _, _, hi, interRes_mk ne hres hτ hv _ (Or.inr rfl)⟩
      · rw [if_neg e2] at hi
        have e3 : c2 = Tm.fin τ1 := le_antisymm (not_lt.1 e2) ht.2
        subst e3
        have hv : G τ1 = some (f x1 w2) := by
          rw [← hGG τ1 le_rfl]
          refine lift2_some f (valAtA_single _ _) ?_
          rw [valAtA_tail _ _ _ _ _ _ h2 le_rfl]
          exact valAtA_at_head _ _ _ (good_tail hst'.good2 (by simp))
        exact ⟨_, τ1, _, _, _, hi, interRes_mk ne hres hτ hv _ (Or.inr rfl)⟩
  | cons z1 s1 =>
    obtain ⟨c1, w1⟩ := z1
    cases s2 with
    | cons z2 s2 =>
      exfalso
      have := hres.single
      simp at this
    | nil =>
      -- the first list still has more than one sample: `tail1`
      simp only [Touch, hd_cons, nxt_single, nxt_cons2] at ht
      have h1 : Tm.fin τ1 < c1 := hst'.good1.1
      have hτ : max (hd ((Tm.fin τ1, x1) :: (c1, w1) :: s1)) (hd [(Tm.fin τ2, x2)]) = Tm.fin τ2 := by
        simp only [hd_cons]; exact max_eq_right ht.2
      simp only [max_eq_right ht.2] at hGG
      have hi := interOn_tail1 f ne p1 v1 t1 p2 v2 t2 out last (Tm.fin τ2) x2 _ _ _ [] he
      rw [tail1_spec f ne _ x2 _ x1 c1 w1 s1 out last h1 ht.2 ht.1] at hi
      by_cases e1 : Tm.fin τ1 = Tm.fin τ2
      · rw [if_pos e1] at hi
        have hv : G τ2 = some (f x1 x2) := by
          rw [← hGG τ2 le_rfl]
          refine lift2_some f ?_ (valAtA_single _ _)
          injection e1 with e1; subst e1
          exact valAtA_at_head _ _ _ hst'.good1
        exact ⟨_, τ2, _, _, _, hi, interRes_mk ne hres hτ hv out (Or.inl rfl)⟩
      rw [if_neg e1] at hi
      by_cases e2 : Tm.fin τ2 < c1
      · rw [if_pos e2] at hi
        have hv : G τ2 = some (f x1 x2) := by
          rw [← hGG τ2 le_rfl]
          exact lift2_some f (valAtA_head _ _ _ _ _ _ ht.2 e2) (valAtA_single _ _)
        exact ⟨_, τ2, _, _, _, hi, interRes_mk ne hres hτ hv _ (Or.inr rfl)⟩
      · rw [if_neg e2] at hi
        have e3 : c1 = Tm.fin τ2 := le_antisymm (not_lt.1 e2) ht.1
        subst e3
        have hv : G τ2 = some (f w1 x2) := by
          rw [← hGG τ2 le_rfl]
          refine lift2_some f ?_ (valAtA_single _ _)
          rw [valAtA_tail _ _ _ _ _ _ h1 le_rfl]
          exact valAtA_at_head _ _ _ (good_tail hst'.good1 (by simp))
        exact ⟨_, τ2, _, _, _, hi, interRes_mk ne hres hτ hv _ (Or.inr rfl)⟩

/-! ### `binUpdate`, computationally -/

section upd
variable [Val α]

/-- `if self.last_output and result: if self.last_output == result[0]: result.pop(0)`. -/
def dropFirst (lo : Option (Tm × α)) (result : ASig α) : ASig α :=
  match lo, result with
  | some (t, v), (t', v') :: rest => if t == t' && !vne v v' then rest else result
  | _, _ => result

def newLast (lo : Option (Tm × α)) (result : ASig α) : Option (Tm × α) :=
  match result.getLast? with
  | some p => some p
  | none => lo

omit [Val α] in
theorem interOn_nil_left (f : α → α → β) (ne : β → β → Bool) (s2 : ASig α) :
    interOn f ne [] s2 = .ok ([], .nil, [], s2) := by
  unfold interOn; rfl

omit [Val α] in
theorem interOn_nil_right (f : α → α → β) (ne : β → β → Bool) (s1 : ASig α) :
    interOn f ne s1 [] = .ok ([], .nil, s1, []) := by
  unfold interOn
  cases s1 <;> rfl

theorem binUpdate_empty (f : α → α → α) (st : BinSt α) (sl sr : ASig α)
    (h : joinBuf st.buf1 sl = [] ∨ joinBuf st.buf2 sr = []) :
    binUpdate f st sl sr =
      .ok ({ buf1 := joinBuf st.buf1 sl, buf2 := joinBuf st.buf2 sr, lastOut := st.lastOut }, []) := by
  unfold binUpdate
  rcases h with h | h
  · simp only [h, interOn_nil_left]
    cases hl : st.lastOut <;> rfl
  · simp only [h, interOn_nil_right]
    cases hl : st.lastOut <;> rfl

theorem binUpdate_of_inter (f : α → α → α) (st : BinSt α) (sl sr : ASig α) (out : ASig α) (t : Tm) (v : α)
    (r1 r2 : ASig α) (h : interOn f vne (joinBuf st.buf1 sl) (joinBuf st.buf2 sr) = .ok (out, .item t v, r1, r2)) :
    binUpdate f st sl sr =
      .ok ({ buf1 := r1, buf2 := r2, lastOut := newLast st.lastOut (dropFirst st.lastOut (finish out t v)) },
        dropFirst st.lastOut (finish out t v)) := by
  unfold binUpdate
  simp only []
  rw [MainAux.bind_ok_eq h]
  unfold finish dropFirst newLast
  dsimp only
  cases hg : out.getLast? with
  | none => rfl
  | some p => rfl

end upd

/-! ### `valAtA` on concatenations -/

theorem valAtA_append_none (X Y : ASig β) (t : Rat) (h : valAtA Y t = none) : valAtA (X ++ Y) t = valAtA X t := by
  induction X with
  | nil => simpa [valAtA_nil] using h
  | cons p X ih =>
    obtain ⟨τ0, v0⟩ := p
    simp only [List.cons_append, valAtA_cons, ih]

theorem valAtA_append_le (X Y : ASig β) (t : Rat) (h : ∀ x ∈ times X, x ≤ Tm.fin t) :
    valAtA (X ++ Y) t = (valAtA Y t).or (valAtA X t) := by
  induction X with
  | nil => simp [valAtA_nil]
  | cons p X ih =>
    obtain ⟨τ0, v0⟩ := p
    have h0 : τ0 ≤ Tm.fin t := h τ0 (by simp [times])
    have ih' := ih (fun x hx => h x (by simp [times] at hx ⊢; exact Or.inr hx))
    simp only [List.cons_append, valAtA_cons, ih', if_neg (not_lt.2 h0)]
    cases valAtA Y t <;> cases valAtA X t <;> rfl

theorem valAtA_isSome_of_hd_le {r : ASig β} {t : Rat} (hne : r ≠ []) (h : hd r ≤ Tm.fin t) : ∃ v, valAtA r t = some v := by
  cases r with
  | nil => exact absurd rfl hne
  | cons p r =>
    obtain ⟨τ0, v0⟩ := p
    simp only [hd_cons] at h
    rw [valAtA_cons, if_neg (not_lt.2 h)]
    exact ⟨_, rfl⟩

theorem valAtA_none_of_lt_hd {r : ASig β} {t : Rat} (h : Tm.fin t < hd r) : valAtA r t = none := by
  cases r with
  | nil => rfl
  | cons p r =>
    obtain ⟨τ0, v0⟩ := p
    simp only [hd_cons] at h
    rw [valAtA_cons, if_pos h]

/-- Behind the head of the remainder the removed samples do not matter. -/
theorem Suf.val {b r : ASig α} (h : Suf b r) (hne : r ≠ []) (t : Rat) (ht : hd r ≤ Tm.fin t) : valAtA r t = valAtA b t := by
  obtain ⟨pre, rfl, hpre⟩ := h
  rw [valAtA_append_le pre r t]
  · obtain ⟨v, hv⟩ := valAtA_isSome_of_hd_le hne ht
    rw [hv]; rfl
  · intro x hx
    simp only [times, List.mem_map] at hx
    obtain ⟨y, hy, rfl⟩ := hx
    exact le_trans (hpre y hy).le ht

theorem Suf.hd_le {b r : ASig α} (h : Suf b r) : hd b ≤ hd r := by
  obtain ⟨pre, rfl, hpre⟩ := h
  cases pre with
  | nil => exact le_rfl
  | cons y pre =>
    obtain ⟨y1, y2⟩ := y
    exact (hpre (y1, y2) (by simp)).le

theorem Suf.mem {b r : ASig α} (h : Suf b r) {x : Tm × α} (hx : x ∈ r) : x ∈ b := by
  obtain ⟨pre, rfl, _⟩ := h
  exact List.mem_append_right _ hx

theorem Suf.getLast {b r : ASig α} (h : Suf b r) (hne : r ≠ []) : r.getLast? = b.getLast? := by
  obtain ⟨pre, rfl, _⟩ := h
  rw [List.getLast?_append]
  cases hr : r.getLast? with
  | none => exact absurd (List.getLast?_eq_none_iff.1 hr) hne
  | some p => rfl

/-! ### weakly increasing sample lists -/

/-- A later sample has a later stamp or is identical (the `weak` clause of `Shape`). -/
def Weak (l : ASig β) : Prop := l.Pairwise (fun p q => Tm.lt p.1 q.1 = true ∨ p = q)

theorem weak_of_sorted {l : ASig β} (h : Sorted l) : Weak l := by
  unfold Sorted times at h
  rw [List.pairwise_map] at h
  exact h.imp (fun h => Or.inl h)

theorem Weak.le_last {X : ASig β} (h : Weak X) {p : Tm × β} (hp : X.getLast? = some p) :
    ∀ x ∈ X, x.1 ≤ p.1 := by
  rcases List.eq_nil_or_concat X with rfl | ⟨init, q, rfl⟩
  · simp at hp
  · rw [List.concat_eq_append] at h hp ⊢
    rw [List.getLast?_concat] at hp
    obtain rfl : q = p := Option.some.inj hp
    intro x hx
    rcases List.mem_append.1 hx with hx | hx
    · rcases (List.pairwise_append.1 h).2.2 x hx q (by simp) with h' | h'
      · exact ((lt_iff _ _).1 h').le
      · rw [h']
    · have : x = q := by simpa using hx
      rw [this]

theorem Weak.prefix {X Y : ASig β} (h : Weak (X ++ Y)) : Weak X := (List.pairwise_append.1 h).1

/-- One more sample, at or behind the last one, does not change the value up to the last stamp. -/
theorem valAtA_snoc_weak {X : ASig β} {p y : Tm × β} (h : Weak (X ++ [y])) (hp : X.getLast? = some p) (t : Rat)
    (ht : Tm.fin t ≤ p.1) : valAtA (X ++ [y]) t = valAtA X t := by
  obtain ⟨y1, y2⟩ := y
  by_cases hty : Tm.fin t < y1
  · exact valAtA_append_after _ _ _ _ hty
  · rw [not_lt] at hty
    have hpy := (List.pairwise_append.1 h).2.2 p (List.mem_of_getLast? hp) (y1, y2) (by simp)
    rcases hpy with hpy | hpy
    · exact absurd (lt_of_lt_of_le ((lt_iff _ _).1 hpy) hty) (not_lt.2 ht)
    · subst hpy
      have hle : ∀ τ' ∈ times X, τ' ≤ Tm.fin t := by
        intro τ' hτ'
        simp only [times, List.mem_map] at hτ'
        obtain ⟨x, hx, rfl⟩ := hτ'
        exact le_trans (h.prefix.le_last hp x hx) hty
      rw [valAtA_append_at _ _ _ _ hty hle, valAtA_last _ _ _ hp hle]

/-- What arrives later does not change the value up to the last stamp so far. -/
theorem valAtA_stable : ∀ (Y X : ASig β) (p : Tm × β), Weak (X ++ Y) → X.getLast? = some p → ∀ t : Rat, Tm.fin t ≤ p.1 →
    valAtA (X ++ Y) t = valAtA X t
  | [], X, p, _, _, t, _ => by rw [List.append_nil]
  | y :: Y, X, p, h, hp, t, ht => by
    have e : X ++ y :: Y = (X ++ [y]) ++ Y := by simp
    rw [e] at h ⊢
    have hpy := (List.pairwise_append.1 h.prefix).2.2 p (List.mem_of_getLast? hp) y (by simp)
    have hle : p.1 ≤ y.1 := by
      rcases hpy with hpy | hpy
      · exact ((lt_iff _ _).1 hpy).le
      · rw [hpy]
    rw [valAtA_stable Y (X ++ [y]) y h (by simp) t (le_trans ht hle)]
    exact valAtA_snoc_weak h.prefix hp t ht

/-! ### the emitted samples -/

/-- The samples emitted so far: they end with the sample `(μ, v)`, and denote `Gt` on `[0, μ]`. -/
structure EOK (Gt : Rat → Option β) (E : ASig β) (μ : Rat) (v : β) : Prop where
  weak : Weak E
  head : (times E).head? = some (Tm.fin 0)
  last : E.getLast? = some (Tm.fin μ, v)
  le : ∀ x ∈ times E, x ≤ Tm.fin μ
  val : ∀ t, 0 ≤ t → t ≤ μ → valAtA E t = Gt t

theorem EOK.start {G Gt : Rat → Option β} {τ : Rat} {v : β} {res : ASig β} (h : ResOK G 0 τ v res)
    (hag : ∀ t, 0 ≤ t → t ≤ τ → G t = Gt t) : EOK Gt res τ v :=
  ⟨weak_of_sorted h.sorted, h.head, h.last, h.le, fun t h0 h1 => (h.val t h0 h1).trans (hag t h0 h1)⟩

theorem ResOK.le_tau {G : Rat → Option β} {D τ : Rat} {v : β} {res : ASig β} (h : ResOK G D τ v res) : D ≤ τ := by
  have := h.head
  cases res with
  | nil => simp [times] at this
  | cons a r =>
    have e : a.1 = Tm.fin D := by simpa [times] using this
    have := h.le a.1 (by simp [times])
    rw [e] at this
    exact (fin_le_fin _ _).1 this

theorem EOK.step {G Gt : Rat → Option β} {E : ASig β} {μ τ : Rat} {v v' : β} {res : ASig β} (hE : EOK Gt E μ v)
    (h : ResOK G μ τ v' res) (hv : G μ = some v) (hag : ∀ t, μ ≤ t → t ≤ τ → G t = Gt t) :
    res = (Tm.fin μ, v) :: res.tail ∧ EOK Gt (E ++ res.tail) τ v' := by
  have hμτ := h.le_tau
  cases res with
  | nil => have := h.head; simp [times] at this
  | cons a rest =>
  obtain ⟨a1, a2⟩ := a
  have e1 : a1 = Tm.fin μ := by simpa [times] using h.head
  subst e1
  have e2 : a2 = v := by
    have := h.val μ le_rfl hμτ
    rw [valAtA_at_head _ _ _ (good_of_sorted h.sorted), hv] at this
    exact Option.some.inj this
  subst e2
  simp only [List.tail_cons]
  refine ⟨trivial, ?_⟩
  have hs := (sorted_iff _).1 h.sorted
  rw [times_cons, List.pairwise_cons] at hs
  have hEne : E ≠ [] := by
    intro e; have := hE.last; rw [e] at this; simp at this
  have hrest_none : ∀ t : Rat, t < μ → valAtA rest t = none := by
    intro t ht
    cases rest with
    | nil => rfl
    | cons b r =>
      obtain ⟨b1, b2⟩ := b
      apply valAtA_none_of_lt_hd
      simp only [hd_cons]
      exact lt_trans ((fin_lt_fin _ _).2 ht) (hs.1 b1 (by simp [times]))
  refine ⟨?_, ?_, ?_, ?_, ?_⟩
  · unfold Weak
    rw [List.pairwise_append]
    refine ⟨hE.weak, weak_of_sorted (sorted_tail h.sorted), ?_⟩
    intro x hx y hy
    left
    rw [lt_iff]
    exact lt_of_le_of_lt (hE.le x.1 (by simp only [times, List.mem_map]; exact ⟨x, hx, rfl⟩))
      (hs.1 y.1 (by simp only [times, List.mem_map]; exact ⟨y, hy, rfl⟩))
  · rw [times_append, List.head?_append, hE.head]; rfl
  · rw [List.getLast?_append]
    have := h.last
    cases rest with
    | nil =>
      simp only [List.getLast?_singleton, Option.some.injEq] at this
      rw [hE.last, ← this]; rfl
    | cons b r =>
      rw [List.getLast?_cons_cons] at this
      rw [this]; rfl
  · intro x hx
    rw [times_append, List.mem_append] at hx
    rcases hx with hx | hx
    · exact le_trans (hE.le x hx) ((fin_le_fin _ _).2 hμτ)
    · exact h.le x (by rw [times_cons]; exact List.mem_cons_of_mem _ hx)
  · intro t h0 h1
    by_cases htμ : t < μ
    · rw [valAtA_append_none _ _ _ (hrest_none t htμ)]
      exact hE.val t h0 htμ.le
    · rw [not_lt] at htμ
      have hle : ∀ x ∈ times E, x ≤ Tm.fin t := fun x hx => le_trans (hE.le x hx) ((fin_le_fin _ _).2 htμ)
      rw [valAtA_append_le _ _ _ hle, valAtA_last _ _ _ hE.last hle, ← hag t htμ h1, ← h.val t htμ h1,
        valAtA_cons, if_neg (not_lt.2 ((fin_le_fin _ _).2 htμ))]
      cases valAtA rest t <;> rfl

/-! ### an operand buffer that denotes `g` up to the horizon `lam` -/

structure Track (g : Rat → Option α) (b : ASig α) (lam : Tm) : Prop where
  good : Good b
  le : ∀ x ∈ times b, x ≤ lam
  ok : ∀ t, hd b ≤ Tm.fin t → Tm.fin t ≤ lam → valAtA b t = g t

theorem hd_mem {r : ASig α} (h : r ≠ []) : hd r ∈ times r := by
  cases r with
  | nil => exact absurd rfl h
  | cons a r => obtain ⟨a1, a2⟩ := a; simp [times]

theorem nxt_mem {r : ASig α} (h : r ≠ []) : nxt r ∈ times r := by
  cases r with
  | nil => exact absurd rfl h
  | cons a r =>
    obtain ⟨a1, a2⟩ := a
    cases r with
    | nil => simp [times]
    | cons b r => obtain ⟨b1, b2⟩ := b; simp [times]

theorem Suf.times_sub {b r : ASig α} (h : Suf b r) {x : Tm} (hx : x ∈ times r) : x ∈ times b := by
  simp only [times, List.mem_map] at hx ⊢
  obtain ⟨y, hy, rfl⟩ := hx
  exact ⟨y, h.mem hy, rfl⟩

theorem Track.suf {g : Rat → Option α} {b r : ASig α} {lam : Tm} (h : Track g b lam) (hs : Suf b r) (hne : r ≠ [])
    (hg : Good r) : Track g r lam :=
  ⟨hg, fun x hx => h.le x (hs.times_sub hx),
    fun t h1 h2 => (hs.val hne t h1).trans (h.ok t (le_trans hs.hd_le h1) h2)⟩

/-! ### one update, semantically -/

section sem
variable [Val α] [LawfulVal α]
set_option linter.unusedSectionVars false

theorem dropFirst_none (res : ASig α) : dropFirst none res = res := by
  unfold dropFirst; rfl

theorem dropFirst_same (t : Tm) (v : α) (rest : ASig α) : dropFirst (some (t, v)) ((t, v) :: rest) = rest := by
  unfold dropFirst
  have : vne v v = false := (vne_eq_false_iff v v).2 rfl
  simp [this]

theorem newLast_append (E res : ASig α) : newLast E.getLast? res = (E ++ res).getLast? := by
  unfold newLast
  rw [List.getLast?_append]
  cases res.getLast? <;> rfl

theorem ne_inf_of_max {a b : Tm} {μ : Rat} (h : max a b = Tm.fin μ) : a ≠ Tm.inf ∧ b ≠ Tm.inf := by
  have hne : Tm.fin μ ≠ Tm.inf := by simp
  exact ⟨ne_inf_of_le (by rw [← h]; exact le_max_left _ _) hne, ne_inf_of_le (by rw [← h]; exact le_max_right _ _) hne⟩

theorem binUpdate_sem (f : α → α → α) (g1 g2 : Rat → Option α) (st : BinSt α) (sl sr : ASig α) (lam1 lam2 : Tm)
    (E : ASig α) (μ : Rat)
    (h1 : Track g1 (joinBuf st.buf1 sl) lam1) (h2 : Track g2 (joinBuf st.buf2 sr) lam2)
    (hfin : FinOr (joinBuf st.buf1 sl) (joinBuf st.buf2 sr)) (ht : Touch (joinBuf st.buf1 sl) (joinBuf st.buf2 sr))
    (hμ : max (hd (joinBuf st.buf1 sl)) (hd (joinBuf st.buf2 sr)) = Tm.fin μ)
    (hph : (st.lastOut = none ∧ E = [] ∧ μ = 0) ∨ ∃ v, st.lastOut = some (Tm.fin μ, v) ∧ EOK (lift2 f g1 g2) E μ v) :
    ∃ r1 r2 o τ v', binUpdate f st sl sr = .ok ({ buf1 := r1, buf2 := r2, lastOut := some (Tm.fin τ, v') }, o) ∧
      EOK (lift2 f g1 g2) (E ++ o) τ v' ∧ Sorted o ∧ Suf (joinBuf st.buf1 sl) r1 ∧ Suf (joinBuf st.buf2 sr) r2 ∧
      Track g1 r1 lam1 ∧ Track g2 r2 lam2 ∧ Touch r1 r2 ∧ max (hd r1) (hd r2) = Tm.fin τ := by
  generalize hb1 : joinBuf st.buf1 sl = b1 at *
  generalize hb2 : joinBuf st.buf2 sr = b2 at *
  obtain ⟨hf1, hf2⟩ := ne_inf_of_max hμ
  have hst : LoopSt f (lift2 f (valAtA b1) (valAtA b2)) μ b1 b2 [] :=
    ⟨h1.good, h2.good, hfin, hf1, hf2, ht, by rw [hμ]; exact OutInv.nil _ _, fun t _ => rfl⟩
  obtain ⟨out', τ, v', r1, r2, hi, hR⟩ := interOn_spec f vne (fun a b => (vne_eq_false_iff a b).1) _ μ b1 b2 hst
  have hup := binUpdate_of_inter f st sl sr out' (Tm.fin τ) v' r1 r2 (by rw [hb1, hb2]; exact hi)
  obtain ⟨hg1, hg2⟩ := ne_inf_of_max hR.front
  have hn1 : r1 ≠ [] := ne_nil_of_hd hg1
  have hn2 : r2 ≠ [] := ne_nil_of_hd hg2
  have hτ1 : Tm.fin τ ≤ lam1 := by
    rw [← hR.front]
    exact max_le (h1.le _ (hR.suf1.times_sub (hd_mem hn1)))
      (le_trans hR.touch.1 (h1.le _ (hR.suf1.times_sub (nxt_mem hn1))))
  have hτ2 : Tm.fin τ ≤ lam2 := by
    rw [← hR.front]
    exact max_le (le_trans hR.touch.2 (h2.le _ (hR.suf2.times_sub (nxt_mem hn2))))
      (h2.le _ (hR.suf2.times_sub (hd_mem hn2)))
  have hag : ∀ t, μ ≤ t → t ≤ τ → lift2 f (valAtA b1) (valAtA b2) t = lift2 f g1 g2 t := by
    intro t ht1 ht2
    have hμt : Tm.fin μ ≤ Tm.fin t := (fin_le_fin _ _).2 ht1
    have htτ : Tm.fin t ≤ Tm.fin τ := (fin_le_fin _ _).2 ht2
    exact lift2_congr f t
      (h1.ok t (le_trans (by rw [← hμ]; exact le_max_left _ _) hμt) (le_trans htτ hτ1))
      (h2.ok t (le_trans (by rw [← hμ]; exact le_max_right _ _) hμt) (le_trans htτ hτ2))
  have hT1 : Track g1 r1 lam1 := h1.suf hR.suf1 hn1 hR.good1
  have hT2 : Track g2 r2 lam2 := h2.suf hR.suf2 hn2 hR.good2
  rcases hph with ⟨hlo, hE, hμ0⟩ | ⟨v, hlo, hE⟩
  · subst hE hμ0
    rw [hlo, dropFirst_none] at hup
    have hEOK : EOK (lift2 f g1 g2) (finish out' (Tm.fin τ) v') τ v' := EOK.start hR.res hag
    have hl : newLast none (finish out' (Tm.fin τ) v') = some (Tm.fin τ, v') := by
      unfold newLast; rw [hR.res.last]
    rw [hl] at hup
    exact ⟨r1, r2, _, τ, v', hup, by simpa using hEOK, hR.res.sorted, hR.suf1, hR.suf2, hT1, hT2, hR.touch, hR.front⟩
  · have hμτ := hR.res.le_tau
    have hv : lift2 f (valAtA b1) (valAtA b2) μ = some v := by
      rw [hag μ le_rfl hμτ, ← hE.val μ _ le_rfl]
      · exact valAtA_last _ _ _ hE.last hE.le
      · have := hE.head
        cases E with
        | nil => simp [times] at this
        | cons a r =>
          have e : a.1 = Tm.fin 0 := by simpa [times] using this
          have := hE.le a.1 (by simp [times])
          rw [e] at this
          exact (fin_le_fin _ _).1 this
    obtain ⟨hres, hEOK⟩ := hE.step hR.res hv hag
    rw [hlo] at hup
    rw [hres, dropFirst_same] at hup
    have hl : newLast (some (Tm.fin μ, v)) (finish out' (Tm.fin τ) v').tail = some (Tm.fin τ, v') := by
      rw [← hE.last, newLast_append, hEOK.last]
    rw [hl] at hup
    refine ⟨r1, r2, _, τ, v', hup, hEOK, ?_, hR.suf1, hR.suf2, hT1, hT2, hR.touch, hR.front⟩
    have := hR.res.sorted
    rw [hres] at this
    exact sorted_tail this

end sem

/-! ### `joinBuf` -/

theorem joinBuf_nil_left (s : ASig α) : joinBuf [] s = s := by
  unfold joinBuf; simp

theorem joinBuf_nil_right (buf : ASig α) : joinBuf buf [] = buf := by
  unfold joinBuf
  cases buf.getLast? <;> simp

theorem joinBuf_cons {buf : ASig α} {p : Tm × α} (hp : buf.getLast? = some p) (y : Tm × α) (rest : ASig α) :
    joinBuf buf (y :: rest) = if p.1 = y.1 then buf ++ rest else buf ++ y :: rest := by
  unfold joinBuf
  rw [hp]
  obtain ⟨t, x⟩ := p
  obtain ⟨t', x'⟩ := y
  simp only [beq_iff_eq]

theorem joinBuf_append (buf s : ASig α) : ∃ z, joinBuf buf s = buf ++ z := by
  cases s with
  | nil => exact ⟨[], by rw [joinBuf_nil_right, List.append_nil]⟩
  | cons y rest =>
    cases hp : buf.getLast? with
    | none =>
      have : buf = [] := List.getLast?_eq_none_iff.1 hp
      subst this
      exact ⟨y :: rest, by rw [joinBuf_nil_left]; rfl⟩
    | some p =>
      rw [joinBuf_cons hp]
      split_ifs
      · exact ⟨_, rfl⟩
      · exact ⟨_, rfl⟩

theorem hd_append {b : ASig α} (h : b ≠ []) (z : ASig α) : hd (b ++ z) = hd b := by
  cases b with
  | nil => exact absurd rfl h
  | cons a b => obtain ⟨a1, a2⟩ := a; rfl

theorem nxt_le_append {b : ASig α} (h : b ≠ []) (z : ASig α) (hg : Good (b ++ z)) : nxt b ≤ nxt (b ++ z) := by
  cases b with
  | nil => exact absurd rfl h
  | cons a b =>
    obtain ⟨a1, a2⟩ := a
    cases b with
    | nil =>
      have := hd_le_nxt hg
      simpa using this
    | cons c b => obtain ⟨c1, c2⟩ := c; exact le_rfl

theorem valAtA_snoc_dup {I : ASig β} {p : Tm × β} (hw : Weak I) (hp : I.getLast? = some p) (t : Rat) :
    valAtA (I ++ [p]) t = valAtA I t := by
  obtain ⟨p1, p2⟩ := p
  by_cases h : Tm.fin t < p1
  · exact valAtA_append_after _ _ _ _ h
  · rw [not_lt] at h
    have hle : ∀ τ' ∈ times I, τ' ≤ Tm.fin t := by
      intro τ' hτ'
      simp only [times, List.mem_map] at hτ'
      obtain ⟨x, hx, rfl⟩ := hτ'
      exact le_trans (hw.le_last hp x hx) h
    rw [valAtA_append_at _ _ _ _ h hle, valAtA_last _ _ _ hp hle]

theorem valAtA_append_congr {X X' Y : ASig β} {L : Tm} (hX : ∀ x ∈ times X, x ≤ L) (hX' : ∀ x ∈ times X', x ≤ L)
    (hY : Y = [] ∨ L < hd Y) (t : Rat) (h : valAtA X t = valAtA X' t) : valAtA (X ++ Y) t = valAtA (X' ++ Y) t := by
  rcases hY with rfl | hY
  · simpa using h
  · by_cases ht : Tm.fin t < hd Y
    · rw [valAtA_append_none _ _ _ (valAtA_none_of_lt_hd ht), valAtA_append_none _ _ _ (valAtA_none_of_lt_hd ht), h]
    · rw [not_lt] at ht
      have hL : L ≤ Tm.fin t := le_trans hY.le ht
      rw [valAtA_append_le _ _ _ (fun x hx => le_trans (hX x hx) hL),
        valAtA_append_le _ _ _ (fun x hx => le_trans (hX' x hx) hL), h]

theorem mem_times {l : ASig β} {x : Tm × β} (h : x ∈ l) : x.1 ∈ times l := by
  simp only [times, List.mem_map]; exact ⟨x, h, rfl⟩

theorem times_le_of {l : ASig β} {L : Tm} (h : ∀ x ∈ l, x.1 ≤ L) : ∀ x ∈ times l, x ≤ L := by
  intro x hx
  simp only [times, List.mem_map] at hx
  obtain ⟨y, hy, rfl⟩ := hx
  exact h y hy

theorem sorted_append {X Y : ASig β} (hX : Sorted X) (hY : Sorted Y) (h : ∀ x ∈ X, ∀ y ∈ Y, x.1 < y.1) : Sorted (X ++ Y) := by
  rw [sorted_iff, times_append, List.pairwise_append]
  refine ⟨(sorted_iff _).1 hX, (sorted_iff _).1 hY, ?_⟩
  intro a ha b hb
  simp only [times, List.mem_map] at ha hb
  obtain ⟨x, hx, rfl⟩ := ha
  obtain ⟨y, hy, rfl⟩ := hb
  exact h x hx y hy

/-- The buffer of an operand whose batches so far concatenate to `I`. -/
structure BufOK (I buf : ASig α) : Prop where
  sorted : Sorted buf
  fin : ∀ x ∈ buf, x.1 ≠ Tm.inf
  last : buf.getLast? = I.getLast?
  val : ∀ t, hd buf ≤ Tm.fin t → valAtA buf t = valAtA I t
  sub : ∀ x ∈ buf, x ∈ I

theorem BufOK.nil : BufOK ([] : ASig α) [] :=
  ⟨by simp [Sorted, times], by simp, rfl, fun _ _ => rfl, by simp⟩

theorem BufOK.suf {I b r : ASig α} (h : BufOK I b) (hs : Suf b r) (hne : r ≠ []) : BufOK I r := by
  obtain ⟨pre, rfl, hpre⟩ := id hs
  refine ⟨?_, fun x hx => h.fin x (hs.mem hx), (hs.getLast hne).trans h.last, ?_, fun x hx => h.sub x (hs.mem hx)⟩
  · have := (sorted_iff _).1 h.sorted
    rw [times_append, List.pairwise_append] at this
    exact (sorted_iff _).2 this.2.1
  · intro t ht
    rw [hs.val hne t ht]
    exact h.val t (le_trans hs.hd_le ht)

theorem BufOK.join {I buf new : ASig α} (h : BufOK I buf) (hw : Weak (I ++ new)) (hs : Sorted new)
    (hf : ∀ x ∈ new, x.1 ≠ Tm.inf) : BufOK (I ++ new) (joinBuf buf new) := by
  cases new with
  | nil => rw [joinBuf_nil_right, List.append_nil]; exact h
  | cons y rest =>
  cases hp : buf.getLast? with
  | none =>
    have hb : buf = [] := List.getLast?_eq_none_iff.1 hp
    have hI : I = [] := List.getLast?_eq_none_iff.1 (by rw [← h.last]; exact hp)
    subst hb hI
    rw [joinBuf_nil_left]
    exact ⟨hs, hf, rfl, fun _ _ => rfl, fun x hx => hx⟩
  | some p =>
  have hpI : I.getLast? = some p := by rw [← h.last]; exact hp
  have hbne : buf ≠ [] := by intro e; rw [e] at hp; simp at hp
  have hwI : Weak I := hw.prefix
  have hIle : ∀ x ∈ times I, x ≤ p.1 := times_le_of (hwI.le_last hpI)
  have hble : ∀ x ∈ buf, x.1 ≤ p.1 := (weak_of_sorted h.sorted).le_last hp
  have hpy := (List.pairwise_append.1 hw).2.2 p (List.mem_of_getLast? hpI) y (by simp)
  have hsr := (sorted_iff _).1 hs
  rw [times_cons, List.pairwise_cons] at hsr
  have hyrest : ∀ z ∈ rest, y.1 < z.1 := fun z hz => hsr.1 z.1 (mem_times hz)
  rw [joinBuf_cons hp]
  rcases hpy with hpy | hpy
  · have hlt : p.1 < y.1 := (lt_iff _ _).1 hpy
    rw [if_neg hlt.ne]
    refine ⟨?_, ?_, ?_, ?_, ?_⟩
    · refine sorted_append h.sorted hs ?_
      intro a ha b hb
      rcases List.mem_cons.1 hb with rfl | hb
      · exact lt_of_le_of_lt (hble a ha) hlt
      · exact lt_trans (lt_of_le_of_lt (hble a ha) hlt) (hyrest b hb)
    · intro x hx
      rcases List.mem_append.1 hx with hx | hx
      · exact h.fin x hx
      · exact hf x hx
    · rw [List.getLast?_append, List.getLast?_append]
      cases hl : (y :: rest).getLast? with
      | none => simp at hl
      | some q => rfl
    · intro t ht
      rw [hd_append hbne] at ht
      exact valAtA_append_congr (times_le_of hble) hIle (Or.inr (by obtain ⟨y1, y2⟩ := y; exact hlt)) t (h.val t ht)
    · intro x hx
      rcases List.mem_append.1 hx with hx | hx
      · exact List.mem_append_left _ (h.sub x hx)
      · exact List.mem_append_right _ hx
  · subst hpy
    rw [if_pos rfl]
    have hY : rest = [] ∨ p.1 < hd rest := by
      cases rest with
      | nil => exact Or.inl rfl
      | cons z r => obtain ⟨z1, z2⟩ := z; exact Or.inr (hyrest (z1, z2) (by simp))
    refine ⟨?_, ?_, ?_, ?_, ?_⟩
    · refine sorted_append h.sorted (sorted_tail hs) ?_
      intro a ha b hb
      exact lt_of_le_of_lt (hble a ha) (hyrest b hb)
    · intro x hx
      rcases List.mem_append.1 hx with hx | hx
      · exact h.fin x hx
      · exact hf x (List.mem_cons_of_mem _ hx)
    · rw [List.getLast?_append, List.getLast?_append, hp]
      cases rest with
      | nil => rw [hpI]; rfl
      | cons z r =>
        rw [List.getLast?_cons_cons, hpI]
    · intro t ht
      rw [hd_append hbne] at ht
      have e : I ++ p :: rest = (I ++ [p]) ++ rest := by simp
      rw [e]
      refine valAtA_append_congr (times_le_of hble) ?_ hY t ?_
      · intro x hx
        rw [times_append, List.mem_append] at hx
        rcases hx with hx | hx
        · exact hIle x hx
        · have : x = p.1 := by simpa [times] using hx
          rw [this]
      · rw [valAtA_snoc_dup hwI hpI]
        exact h.val t ht
    · intro x hx
      rcases List.mem_append.1 hx with hx | hx
      · exact List.mem_append_left _ (h.sub x hx)
      · exact List.mem_append_right _ (List.mem_cons_of_mem _ hx)

/-! ### an operand stream -/

/-- The concatenation `W` of all batches of an operand that denotes `g` (the content of `StreamOK`). -/
structure StreamW (g : Rat → Option α) (W : ASig α) : Prop where
  weak : Weak W
  start : ∀ p, W.head? = some p → p.1 = Tm.fin 0
  fin : ∀ x ∈ W, x.1 ≠ Tm.inf
  val : ∀ t, (∃ τ p, W.getLast? = some p ∧ p.1 = Tm.fin τ ∧ 0 ≤ t ∧ t ≤ τ) → valAtA W t = g t

theorem StreamW.of_ok {g : Rat → Option α} {Ls : List (ASig α)} (h : StreamOK Ls 0 g) : StreamW g Ls.flatten :=
  ⟨h.1.weak, h.1.start, fun x hx => by
    obtain ⟨B, hB, hxB⟩ := List.mem_flatten.1 hx
    exact h.1.finite B hB x hxB, fun t hc => h.2 t hc⟩

theorem Weak.head_le {W : ASig β} (h : Weak W) {a : Tm × β} (ha : W.head? = some a) : ∀ x ∈ W, a.1 ≤ x.1 := by
  cases W with
  | nil => simp at ha
  | cons b W =>
    have : b = a := by simpa using ha
    subst this
    intro x hx
    rcases List.mem_cons.1 hx with rfl | hx
    · exact le_rfl
    · rcases (List.pairwise_cons.1 h).1 x hx with h' | h'
      · exact ((lt_iff _ _).1 h').le
      · rw [h']

theorem StreamW.nonneg {g : Rat → Option α} {W : ASig α} (h : StreamW g W) : ∀ x ∈ W, Tm.fin 0 ≤ x.1 := by
  intro x hx
  cases hW : W.head? with
  | none =>
    have : W = [] := List.head?_eq_none_iff.1 hW
    subst this; simp at hx
  | some a =>
    rw [← h.start a hW]
    exact h.weak.head_le hW x hx

theorem track_of_bufOK {g : Rat → Option α} {I Y b : ASig α} (h : BufOK I b) (hne : b ≠ []) (hW : StreamW g (I ++ Y)) :
    ∃ p, b.getLast? = some p ∧ Track g b p.1 := by
  cases hp : b.getLast? with
  | none => exact absurd (List.getLast?_eq_none_iff.1 hp) hne
  | some p =>
  refine ⟨p, rfl, good_of_sorted h.sorted, times_le_of ((weak_of_sorted h.sorted).le_last hp), ?_⟩
  intro t ht1 ht2
  have hpI : I.getLast? = some p := by rw [← h.last]; exact hp
  rw [h.val t ht1, ← valAtA_stable Y I p hW.weak hpI t ht2]
  have hpW : p ∈ I ++ Y := List.mem_append_left _ (List.mem_of_getLast? hpI)
  cases hq : (I ++ Y).getLast? with
  | none =>
    have := List.getLast?_eq_none_iff.1 hq
    rw [this] at hpW; simp at hpW
  | some q =>
  obtain ⟨τ, hτ⟩ := exists_fin (hW.fin q (List.mem_of_getLast? hq))
  apply hW.val t
  refine ⟨τ, q, hq, hτ, ?_, ?_⟩
  · have h0 : Tm.fin 0 ≤ hd b := by
      cases b with
      | nil => exact absurd rfl hne
      | cons a r =>
        obtain ⟨a1, a2⟩ := a
        exact hW.nonneg (a1, a2) (List.mem_append_left _ (h.sub _ (by simp)))
    exact (fin_le_fin _ _).1 (le_trans h0 ht1)
  · have := le_trans ht2 (hW.weak.le_last hq p hpW)
    rw [hτ] at this
    exact (fin_le_fin _ _).1 this

/-! ### the run over the streams -/

theorem runBin_cons {σ : Type} (step : σ → ASig α → ASig α → Except PyErr (σ × ASig α)) (st st' st'' : σ)
    (L R o : ASig α) (rest : List (ASig α × ASig α)) (os : List (ASig α)) (h1 : step st L R = .ok (st', o))
    (h2 : runBin step st' rest = .ok (st'', os)) : runBin step st ((L, R) :: rest) = .ok (st'', o :: os) := by
  rw [runBin, MainAux.bind_ok_eq h1]
  simp only []
  rw [MainAux.bind_ok_eq h2]
  rfl

theorem streamOK_of_E {Gt : Rat → Option α} {outs : List (ASig α)}
    (hb : ∀ B ∈ outs, Sorted B ∧ ∀ x ∈ B, x.1 ≠ Tm.inf)
    (hE : outs.flatten = [] ∨ ∃ μ v, EOK Gt outs.flatten μ v) : StreamOK outs 0 Gt := by
  refine ⟨⟨fun B hB => (hb B hB).1, fun B hB => (hb B hB).2, ?_, ?_⟩, ?_⟩
  · rcases hE with hE | ⟨μ, v, hE⟩
    · rw [hE]; exact List.Pairwise.nil
    · exact hE.weak
  · intro p hp
    rcases hE with hE | ⟨μ, v, hE⟩
    · rw [hE] at hp; simp at hp
    · have := hE.head
      unfold times at this
      rw [List.head?_map, hp] at this
      simpa using this
  · rintro t ⟨τ, p, hp, hpτ, h0, h1⟩
    rcases hE with hE | ⟨μ, v, hE⟩
    · rw [hE] at hp; simp at hp
    · rw [hE.last] at hp
      obtain rfl : (Tm.fin μ, v) = p := Option.some.inj hp
      simp only at hpτ
      injection hpτ with e
      subst e
      exact hE.val t h0 h1

theorem join_touch {buf L : ASig α} (hne : buf ≠ []) (hg : Good (joinBuf buf L)) :
    hd (joinBuf buf L) = hd buf ∧ nxt buf ≤ nxt (joinBuf buf L) := by
  obtain ⟨z, hz⟩ := joinBuf_append buf L
  rw [hz] at hg ⊢
  exact ⟨hd_append hne z, nxt_le_append hne z hg⟩

theorem hd_join_zero {g : Rat → Option α} {I buf L Y : ASig α} (h : BufOK I buf) (hW : StreamW g (I ++ L ++ Y))
    (h0 : buf ≠ [] → hd buf = Tm.fin 0) (hne : joinBuf buf L ≠ []) : hd (joinBuf buf L) = Tm.fin 0 := by
  by_cases hb : buf = []
  · have hI : I = [] := List.getLast?_eq_none_iff.1 (by rw [← h.last, hb]; rfl)
    subst hb hI
    rw [joinBuf_nil_left] at hne ⊢
    cases L with
    | nil => exact absurd rfl hne
    | cons a L =>
      obtain ⟨a1, a2⟩ := a
      exact hW.start (a1, a2) rfl
  · obtain ⟨z, hz⟩ := joinBuf_append buf L
    rw [hz, hd_append hb, h0 hb]

section run
variable [Val α] [LawfulVal α]
set_option linter.unusedSectionVars false

structure Inv2 (Gt : Rat → Option α) (I1 I2 : ASig α) (st : BinSt α) (E : ASig α) : Prop where
  b1 : BufOK I1 st.buf1
  b2 : BufOK I2 st.buf2
  ph : (st.lastOut = none ∧ E = [] ∧ (st.buf1 = [] ∨ st.buf2 = []) ∧ (st.buf1 ≠ [] → hd st.buf1 = Tm.fin 0) ∧
          (st.buf2 ≠ [] → hd st.buf2 = Tm.fin 0)) ∨
       (∃ μ v, st.lastOut = some (Tm.fin μ, v) ∧ EOK Gt E μ v ∧ Touch st.buf1 st.buf2 ∧
          max (hd st.buf1) (hd st.buf2) = Tm.fin μ)

theorem eok_fin {Gt : Rat → Option α} {E o : ASig α} {τ : Rat} {v : α} (h : EOK Gt (E ++ o) τ v) :
    ∀ x ∈ o, x.1 ≠ Tm.inf := by
  intro x hx
  exact ne_inf_of_le (h.le x.1 (mem_times (List.mem_append_right _ hx))) (by simp)

theorem step2 (f : α → α → α) (g1 g2 : Rat → Option α) {I1 I2 L R Y1 Y2 : ASig α} {st : BinSt α} {E : ASig α}
    (hinv : Inv2 (lift2 f g1 g2) I1 I2 st E) (hW1 : StreamW g1 (I1 ++ L ++ Y1)) (hW2 : StreamW g2 (I2 ++ R ++ Y2))
    (hL : Sorted L) (hR : Sorted R) :
    ∃ st' o, binUpdate f st L R = .ok (st', o) ∧ Inv2 (lift2 f g1 g2) (I1 ++ L) (I2 ++ R) st' (E ++ o) ∧ Sorted o ∧
      ∀ x ∈ o, x.1 ≠ Tm.inf := by
  have hfL : ∀ x ∈ L, x.1 ≠ Tm.inf := fun x hx => hW1.fin x (by simp [hx])
  have hfR : ∀ x ∈ R, x.1 ≠ Tm.inf := fun x hx => hW2.fin x (by simp [hx])
  have hB1 : BufOK (I1 ++ L) (joinBuf st.buf1 L) := hinv.b1.join hW1.weak.prefix hL hfL
  have hB2 : BufOK (I2 ++ R) (joinBuf st.buf2 R) := hinv.b2.join hW2.weak.prefix hR hfR
  by_cases hemp : joinBuf st.buf1 L = [] ∨ joinBuf st.buf2 R = []
  · -- one operand has not started yet
    rcases hinv.ph with ⟨hlo, hE, _, h01, h02⟩ | ⟨μ, v, _, _, _, hμ⟩
    · refine ⟨_, [], binUpdate_empty f st L R hemp, ⟨hB1, hB2, Or.inl ⟨hlo, by simpa using hE, hemp, ?_, ?_⟩⟩,
        by simp [Sorted, times], by simp⟩
      · exact fun hne => hd_join_zero hinv.b1 hW1 h01 hne
      · exact fun hne => hd_join_zero hinv.b2 hW2 h02 hne
    · exfalso
      obtain ⟨hf1, hf2⟩ := ne_inf_of_max hμ
      obtain ⟨z1, hz1⟩ := joinBuf_append st.buf1 L
      obtain ⟨z2, hz2⟩ := joinBuf_append st.buf2 R
      rcases hemp with h | h
      · rw [hz1] at h
        exact ne_nil_of_hd hf1 (List.append_eq_nil_iff.1 h).1
      · rw [hz2] at h
        exact ne_nil_of_hd hf2 (List.append_eq_nil_iff.1 h).1
  · rw [not_or] at hemp
    obtain ⟨p1, hp1, hT1⟩ := track_of_bufOK hB1 hemp.1 hW1
    obtain ⟨p2, hp2, hT2⟩ := track_of_bufOK hB2 hemp.2 hW2
    have hfin : FinOr (joinBuf st.buf1 L) (joinBuf st.buf2 R) := Or.inl hB1.fin
    have key : ∃ μ, Touch (joinBuf st.buf1 L) (joinBuf st.buf2 R) ∧
        max (hd (joinBuf st.buf1 L)) (hd (joinBuf st.buf2 R)) = Tm.fin μ ∧
        ((st.lastOut = none ∧ E = [] ∧ μ = 0) ∨ ∃ v, st.lastOut = some (Tm.fin μ, v) ∧ EOK (lift2 f g1 g2) E μ v) := by
      rcases hinv.ph with ⟨hlo, hE, _, h01, h02⟩ | ⟨μ, v, hlo, hE, ht, hμ⟩
      · have e1 := hd_join_zero hinv.b1 hW1 h01 hemp.1
        have e2 := hd_join_zero hinv.b2 hW2 h02 hemp.2
        refine ⟨0, ⟨?_, ?_⟩, by rw [e1, e2, max_self], Or.inl ⟨hlo, hE, rfl⟩⟩
        · rw [e2, ← e1]; exact hd_le_nxt hT1.good
        · rw [e1, ← e2]; exact hd_le_nxt hT2.good
      · obtain ⟨hf1, hf2⟩ := ne_inf_of_max hμ
        obtain ⟨e1, n1⟩ := join_touch (L := L) (ne_nil_of_hd hf1) hT1.good
        obtain ⟨e2, n2⟩ := join_touch (L := R) (ne_nil_of_hd hf2) hT2.good
        refine ⟨μ, ⟨?_, ?_⟩, by rw [e1, e2, hμ], Or.inr ⟨v, hlo, hE⟩⟩
        · rw [e2]; exact le_trans ht.1 n1
        · rw [e1]; exact le_trans ht.2 n2
    obtain ⟨μ, ht, hμ, hph⟩ := key
    obtain ⟨r1, r2, o, τ, v', hup, hEOK, hso, hs1, hs2, hT1', hT2', ht', hτ⟩ :=
      binUpdate_sem f g1 g2 st L R p1.1 p2.1 E μ hT1 hT2 hfin ht hμ hph
    obtain ⟨hg1, hg2⟩ := ne_inf_of_max hτ
    exact ⟨_, o, hup, ⟨hB1.suf hs1 (ne_nil_of_hd hg1), hB2.suf hs2 (ne_nil_of_hd hg2),
      Or.inr ⟨τ, v', rfl, hEOK, ht', hτ⟩⟩, hso, eok_fin hEOK⟩

theorem run2 (f : α → α → α) (g1 g2 : Rat → Option α) (W1 W2 : ASig α) (hW1 : StreamW g1 W1) (hW2 : StreamW g2 W2) :
    ∀ (rest : List (ASig α × ASig α)) (I1 I2 : ASig α) (st : BinSt α) (E : ASig α),
      I1 ++ (rest.map Prod.fst).flatten = W1 → I2 ++ (rest.map Prod.snd).flatten = W2 →
      (∀ B ∈ rest, Sorted B.1 ∧ Sorted B.2) → Inv2 (lift2 f g1 g2) I1 I2 st E →
      ∃ st' outs, runBin (binUpdate f) st rest = .ok (st', outs) ∧
        (∀ B ∈ outs, Sorted B ∧ ∀ x ∈ B, x.1 ≠ Tm.inf) ∧ Inv2 (lift2 f g1 g2) W1 W2 st' (E ++ outs.flatten)
  | [], I1, I2, st, E, e1, e2, _, hinv => by
    simp only [List.map_nil, List.flatten_nil, List.append_nil] at e1 e2
    subst e1 e2
    exact ⟨st, [], rfl, by simp, by simpa using hinv⟩
  | (L, R) :: rest, I1, I2, st, E, e1, e2, hs, hinv => by
    simp only [List.map_cons, List.flatten_cons] at e1 e2
    rw [← List.append_assoc] at e1 e2
    obtain ⟨hL, hR⟩ := hs (L, R) (by simp)
    obtain ⟨st', o, hup, hinv', hso, hfo⟩ := step2 f g1 g2 (Y1 := (rest.map Prod.fst).flatten)
      (Y2 := (rest.map Prod.snd).flatten) hinv (by rw [e1]; exact hW1) (by rw [e2]; exact hW2) hL hR
    obtain ⟨st'', os, hrun, hbs, hfin⟩ := run2 f g1 g2 W1 W2 hW1 hW2 rest (I1 ++ L) (I2 ++ R) st' (E ++ o) e1 e2
      (fun B hB => hs B (List.mem_cons_of_mem _ hB)) hinv'
    refine ⟨st'', o :: os, runBin_cons _ _ _ _ _ _ _ _ _ hup hrun, ?_, ?_⟩
    · intro B hB
      rcases List.mem_cons.1 hB with rfl | hB
      · exact ⟨hso, hfo⟩
      · exact hbs B hB
    · simpa [List.append_assoc] using hfin

end run

/-! ### a constant operand -/

section const
variable [Val α] [LawfulVal α]
set_option linter.unusedSectionVars false

/-- Nothing emitted yet (an operand has not started), or the last emitted sample sits at the later of the two heads. -/
def Phase (Gt : Rat → Option α) (st : BinSt α) (E : ASig α) : Prop :=
  (st.lastOut = none ∧ E = [] ∧ (st.buf1 = [] ∨ st.buf2 = []) ∧ (st.buf1 ≠ [] → hd st.buf1 = Tm.fin 0) ∧
      (st.buf2 ≠ [] → hd st.buf2 = Tm.fin 0)) ∨
    (∃ μ v, st.lastOut = some (Tm.fin μ, v) ∧ EOK Gt E μ v ∧ Touch st.buf1 st.buf2 ∧
      max (hd st.buf1) (hd st.buf2) = Tm.fin μ)

def KeepOrSuf (b r : ASig α) : Prop := r = b ∨ (Suf b r ∧ hd r ≠ Tm.inf)

theorem BufOK.keep {I b r : ASig α} (h : BufOK I b) (hk : KeepOrSuf b r) : BufOK I r := by
  rcases hk with rfl | ⟨hs, hne⟩
  · exact h
  · exact h.suf hs (ne_nil_of_hd hne)

theorem stepG (f : α → α → α) (g1 g2 : Rat → Option α) (st : BinSt α) (L R E : ASig α)
    (hph : Phase (lift2 f g1 g2) st E)
    (hz1 : st.lastOut = none → joinBuf st.buf1 L ≠ [] → hd (joinBuf st.buf1 L) = Tm.fin 0)
    (hz2 : st.lastOut = none → joinBuf st.buf2 R ≠ [] → hd (joinBuf st.buf2 R) = Tm.fin 0)
    (hT1 : joinBuf st.buf1 L ≠ [] → ∃ lam, Track g1 (joinBuf st.buf1 L) lam)
    (hT2 : joinBuf st.buf2 R ≠ [] → ∃ lam, Track g2 (joinBuf st.buf2 R) lam)
    (hfin : FinOr (joinBuf st.buf1 L) (joinBuf st.buf2 R)) :
    ∃ st' o, binUpdate f st L R = .ok (st', o) ∧ Sorted o ∧ (∀ x ∈ o, x.1 ≠ Tm.inf) ∧
      Phase (lift2 f g1 g2) st' (E ++ o) ∧ KeepOrSuf (joinBuf st.buf1 L) st'.buf1 ∧
      KeepOrSuf (joinBuf st.buf2 R) st'.buf2 := by
  by_cases hemp : joinBuf st.buf1 L = [] ∨ joinBuf st.buf2 R = []
  · rcases hph with ⟨hlo, hE, _, h01, h02⟩ | ⟨μ, v, _, _, _, hμ⟩
    · exact ⟨_, [], binUpdate_empty f st L R hemp, by simp [Sorted, times], by simp,
        Or.inl ⟨hlo, by simpa using hE, hemp, hz1 hlo, hz2 hlo⟩, Or.inl rfl, Or.inl rfl⟩
    · exfalso
      obtain ⟨hf1, hf2⟩ := ne_inf_of_max hμ
      obtain ⟨z1, hz1⟩ := joinBuf_append st.buf1 L
      obtain ⟨z2, hz2⟩ := joinBuf_append st.buf2 R
      rcases hemp with h | h
      · rw [hz1] at h
        exact ne_nil_of_hd hf1 (List.append_eq_nil_iff.1 h).1
      · rw [hz2] at h
        exact ne_nil_of_hd hf2 (List.append_eq_nil_iff.1 h).1
  · rw [not_or] at hemp
    obtain ⟨lam1, hT1⟩ := hT1 hemp.1
    obtain ⟨lam2, hT2⟩ := hT2 hemp.2
    have key : ∃ μ, Touch (joinBuf st.buf1 L) (joinBuf st.buf2 R) ∧
        max (hd (joinBuf st.buf1 L)) (hd (joinBuf st.buf2 R)) = Tm.fin μ ∧
        ((st.lastOut = none ∧ E = [] ∧ μ = 0) ∨ ∃ v, st.lastOut = some (Tm.fin μ, v) ∧ EOK (lift2 f g1 g2) E μ v) := by
      rcases hph with ⟨hlo, hE, _, h01, h02⟩ | ⟨μ, v, hlo, hE, ht, hμ⟩
      · have e1 := hz1 hlo hemp.1
        have e2 := hz2 hlo hemp.2
        refine ⟨0, ⟨?_, ?_⟩, by rw [e1, e2, max_self], Or.inl ⟨hlo, hE, rfl⟩⟩
        · rw [e2, ← e1]; exact hd_le_nxt hT1.good
        · rw [e1, ← e2]; exact hd_le_nxt hT2.good
      · obtain ⟨hf1, hf2⟩ := ne_inf_of_max hμ
        obtain ⟨e1, n1⟩ := join_touch (L := L) (ne_nil_of_hd hf1) hT1.good
        obtain ⟨e2, n2⟩ := join_touch (L := R) (ne_nil_of_hd hf2) hT2.good
        refine ⟨μ, ⟨?_, ?_⟩, by rw [e1, e2, hμ], Or.inr ⟨v, hlo, hE⟩⟩
        · rw [e2]; exact le_trans ht.1 n1
        · rw [e1]; exact le_trans ht.2 n2
    obtain ⟨μ, ht, hμ, hph'⟩ := key
    obtain ⟨r1, r2, o, τ, v', hup, hEOK, hso, hs1, hs2, hT1', hT2', ht', hτ⟩ :=
      binUpdate_sem f g1 g2 st L R lam1 lam2 E μ hT1 hT2 hfin ht hμ hph'
    obtain ⟨hg1, hg2⟩ := ne_inf_of_max hτ
    exact ⟨_, o, hup, hso, eok_fin hEOK, Or.inr ⟨τ, v', rfl, hEOK, ht', hτ⟩, Or.inr ⟨hs1, hg1⟩, Or.inr ⟨hs2, hg2⟩⟩

/-- The buffer of a constant operand: empty (before the first update), or `[0, c], [inf, c]` (followed by whatever a
    further non-empty batch would add; with `constStream` nothing is added). -/
def CBuf (c : α) (buf : ASig α) : Prop := buf = [] ∨ ∃ junk, buf = (Tm.zero, c) :: (Tm.inf, c) :: junk

theorem CBuf.join {c : α} {buf : ASig α} (h : CBuf c buf) :
    ∃ junk, joinBuf buf [(Tm.zero, c), (Tm.inf, c)] = (Tm.zero, c) :: (Tm.inf, c) :: junk := by
  rcases h with rfl | ⟨junk, rfl⟩
  · exact ⟨[], joinBuf_nil_left _⟩
  · obtain ⟨z, hz⟩ := joinBuf_append ((Tm.zero, c) :: (Tm.inf, c) :: junk) [(Tm.zero, c), (Tm.inf, c)]
    exact ⟨junk ++ z, by rw [hz]; rfl⟩

theorem CBuf.keep {c : α} {b r : ASig α} (h : ∃ junk, b = (Tm.zero, c) :: (Tm.inf, c) :: junk) (hk : KeepOrSuf b r) :
    CBuf c r := by
  obtain ⟨junk, rfl⟩ := h
  rcases hk with rfl | ⟨⟨pre, hpre, hlt⟩, hne⟩
  · exact Or.inr ⟨junk, rfl⟩
  · right
    cases pre with
    | nil => exact ⟨junk, hpre.symm⟩
    | cons a pre =>
      exfalso
      cases pre with
      | nil =>
        simp only [List.cons_append, List.nil_append, List.cons.injEq] at hpre
        rw [← hpre.2] at hne
        exact hne rfl
      | cons b pre =>
        simp only [List.cons_append, List.cons.injEq] at hpre
        have := hlt b (by simp)
        rw [← hpre.2.1] at this
        exact absurd (lt_of_lt_of_le this (le_inf _)) (lt_irrefl _)

/-- A batch of a constant operand: `[0, c], [inf, c]` (first update) or nothing (later updates). -/
def CBatch (c : α) (C : ASig α) : Prop := C = [] ∨ C = [(Tm.zero, c), (Tm.inf, c)]

theorem CBuf.joinB {c : α} {buf C : ASig α} (h : CBuf c buf) (hC : CBatch c C) : CBuf c (joinBuf buf C) := by
  rcases hC with rfl | rfl
  · rw [joinBuf_nil_right]; exact h
  · exact Or.inr h.join

theorem CBuf.keepB {c : α} {b r : ASig α} (h : CBuf c b) (hk : KeepOrSuf b r) : CBuf c r := by
  rcases h with rfl | h
  · rcases hk with rfl | ⟨⟨pre, hpre, _⟩, _⟩
    · exact Or.inl rfl
    · exact Or.inl (List.append_eq_nil_iff.1 hpre.symm).2
  · exact CBuf.keep h hk

theorem CBuf.hd_zero {c : α} {b : ASig α} (h : CBuf c b) (hne : b ≠ []) : hd b = Tm.fin 0 := by
  rcases h with rfl | ⟨junk, rfl⟩
  · exact absurd rfl hne
  · rfl

theorem cbatch_constStream (c : α) : ∀ (n : Nat), ∀ C ∈ constStream c n, CBatch c C
  | 0, C, hC => by simp [constStream] at hC
  | k + 1, C, hC => by
    simp only [constStream, List.mem_cons] at hC
    rcases hC with rfl | hC
    · exact Or.inr rfl
    · exact Or.inl (List.eq_of_mem_replicate hC)

theorem track_const (c : α) (junk : ASig α) :
    Track (fun _ => some c) ((Tm.zero, c) :: (Tm.inf, c) :: junk) Tm.inf := by
  refine ⟨⟨fin_lt_inf 0, Or.inl rfl⟩, fun x _ => le_inf x, ?_⟩
  intro t ht _
  exact valAtA_head _ _ _ _ _ _ ht (fin_lt_inf t)

theorem CBuf.track {c : α} {b : ASig α} (h : CBuf c b) (hne : b ≠ []) : ∃ lam, Track (fun _ => some c) b lam := by
  rcases h with rfl | ⟨junk, rfl⟩
  · exact absurd rfl hne
  · exact ⟨_, track_const c junk⟩

theorem lift2_const_right (f : α → α → α) (g : Rat → Option α) (c : α) (t : Rat) :
    lift2 f g (fun _ => some c) t = (g t).map (fun a => f a c) := by
  unfold lift2; cases g t <;> rfl

theorem lift2_const_left (f : α → α → α) (g : Rat → Option α) (c : α) (t : Rat) :
    lift2 f (fun _ => some c) g t = (g t).map (fun b => f c b) := by
  unfold lift2; cases g t <;> rfl

theorem streamOK_congr {outs : List (ASig α)} {g g' : Rat → Option α} (h : StreamOK outs 0 g) (hg : ∀ t, g t = g' t) :
    StreamOK outs 0 g' := ⟨h.1, fun t ht => (h.2 t ht).trans (hg t)⟩

end const

section construn
variable [Val α] [LawfulVal α]
set_option linter.unusedSectionVars false

theorem phase_hz {Gt : Rat → Option α} {g : Rat → Option α} {st : BinSt α} {E I buf L Y : ASig α}
    (hph : Phase Gt st E) (hB : BufOK I buf) (hW : StreamW g (I ++ L ++ Y))
    (h0 : st.lastOut = none → buf ≠ [] → hd buf = Tm.fin 0) :
    st.lastOut = none → joinBuf buf L ≠ [] → hd (joinBuf buf L) = Tm.fin 0 :=
  fun hlo hne => hd_join_zero hB hW (h0 hlo) hne

theorem phase_h01 {Gt : Rat → Option α} {st : BinSt α} {E : ASig α} (hph : Phase Gt st E) :
    st.lastOut = none → st.buf1 ≠ [] → hd st.buf1 = Tm.fin 0 := by
  intro hlo
  rcases hph with ⟨_, _, _, h01, _⟩ | ⟨μ, v, hlo', _⟩
  · exact h01
  · rw [hlo] at hlo'; cases hlo'

theorem phase_h02 {Gt : Rat → Option α} {st : BinSt α} {E : ASig α} (hph : Phase Gt st E) :
    st.lastOut = none → st.buf2 ≠ [] → hd st.buf2 = Tm.fin 0 := by
  intro hlo
  rcases hph with ⟨_, _, _, _, h02⟩ | ⟨μ, v, hlo', _⟩
  · exact h02
  · rw [hlo] at hlo'; cases hlo'

theorem runR (f : α → α → α) (g1 : Rat → Option α) (c : α) (W1 : ASig α) (hW1 : StreamW g1 W1) :
    ∀ (Ls Cs : List (ASig α)) (I1 : ASig α) (st : BinSt α) (E : ASig α),
      I1 ++ Ls.flatten = W1 → (∀ B ∈ Ls, Sorted B) → (∀ C ∈ Cs, CBatch c C) → BufOK I1 st.buf1 → CBuf c st.buf2 →
      Phase (lift2 f g1 (fun _ => some c)) st E →
      ∃ st' outs, runBin (binUpdate f) st (Ls.zip Cs) = .ok (st', outs) ∧
        (∀ B ∈ outs, Sorted B ∧ ∀ x ∈ B, x.1 ≠ Tm.inf) ∧
        Phase (lift2 f g1 (fun _ => some c)) st' (E ++ outs.flatten)
  | [], _, I1, st, E, _, _, _, _, _, hph => ⟨st, [], by rw [List.zip_nil_left]; rfl, by simp, by simpa using hph⟩
  | _ :: _, [], I1, st, E, _, _, _, _, _, hph => ⟨st, [], by rw [List.zip_nil_right]; rfl, by simp, by simpa using hph⟩
  | L :: Ls, C :: Cs, I1, st, E, e1, hs, hCs, hB, hC, hph => by
    simp only [List.flatten_cons] at e1
    rw [← List.append_assoc] at e1
    have hW : StreamW g1 (I1 ++ L ++ Ls.flatten) := by rw [e1]; exact hW1
    have hL : Sorted L := hs L (by simp)
    have hfL : ∀ x ∈ L, x.1 ≠ Tm.inf := fun x hx => hW.fin x (by simp [hx])
    have hB1 : BufOK (I1 ++ L) (joinBuf st.buf1 L) := hB.join hW.weak.prefix hL hfL
    have hCj : CBuf c (joinBuf st.buf2 C) := hC.joinB (hCs C (by simp))
    obtain ⟨st', o, hup, hso, hfo, hph', hk1, hk2⟩ := stepG f g1 (fun _ => some c) st L C E hph
      (phase_hz hph hB hW (phase_h01 hph))
      (fun _ hne => hCj.hd_zero hne)
      (fun hne => by obtain ⟨p, _, hT⟩ := track_of_bufOK hB1 hne hW; exact ⟨_, hT⟩)
      (fun hne => hCj.track hne)
      (Or.inl hB1.fin)
    obtain ⟨st'', os, hrun, hbs, hfin⟩ := runR f g1 c W1 hW1 Ls Cs (I1 ++ L) st' (E ++ o) e1
      (fun B hB => hs B (List.mem_cons_of_mem _ hB)) (fun C' hC' => hCs C' (List.mem_cons_of_mem _ hC'))
      (hB1.keep hk1) (hCj.keepB hk2) hph'
    refine ⟨st'', o :: os, ?_, ?_, ?_⟩
    · rw [List.zip_cons_cons]
      exact runBin_cons _ _ _ _ _ _ _ _ _ hup hrun
    · intro B hB
      rcases List.mem_cons.1 hB with rfl | hB
      · exact ⟨hso, hfo⟩
      · exact hbs B hB
    · simpa [List.append_assoc] using hfin

theorem runL (f : α → α → α) (g2 : Rat → Option α) (c : α) (W2 : ASig α) (hW2 : StreamW g2 W2) :
    ∀ (Rs Cs : List (ASig α)) (I2 : ASig α) (st : BinSt α) (E : ASig α),
      I2 ++ Rs.flatten = W2 → (∀ B ∈ Rs, Sorted B) → (∀ C ∈ Cs, CBatch c C) → CBuf c st.buf1 → BufOK I2 st.buf2 →
      Phase (lift2 f (fun _ => some c) g2) st E →
      ∃ st' outs, runBin (binUpdate f) st (Cs.zip Rs) = .ok (st', outs) ∧
        (∀ B ∈ outs, Sorted B ∧ ∀ x ∈ B, x.1 ≠ Tm.inf) ∧
        Phase (lift2 f (fun _ => some c) g2) st' (E ++ outs.flatten)
  | [], _, I2, st, E, _, _, _, _, _, hph => ⟨st, [], by rw [List.zip_nil_right]; rfl, by simp, by simpa using hph⟩
  | _ :: _, [], I2, st, E, _, _, _, _, _, hph => ⟨st, [], by rw [List.zip_nil_left]; rfl, by simp, by simpa using hph⟩
  | R :: Rs, C :: Cs, I2, st, E, e2, hs, hCs, hC, hB, hph => by
    simp only [List.flatten_cons] at e2
    rw [← List.append_assoc] at e2
    have hW : StreamW g2 (I2 ++ R ++ Rs.flatten) := by rw [e2]; exact hW2
    have hR : Sorted R := hs R (by simp)
    have hfR : ∀ x ∈ R, x.1 ≠ Tm.inf := fun x hx => hW.fin x (by simp [hx])
    have hB2 : BufOK (I2 ++ R) (joinBuf st.buf2 R) := hB.join hW.weak.prefix hR hfR
    have hCj : CBuf c (joinBuf st.buf1 C) := hC.joinB (hCs C (by simp))
    obtain ⟨st', o, hup, hso, hfo, hph', hk1, hk2⟩ := stepG f (fun _ => some c) g2 st C R E hph
      (fun _ hne => hCj.hd_zero hne) (phase_hz hph hB hW (phase_h02 hph))
      (fun hne => hCj.track hne)
      (fun hne => by obtain ⟨p, _, hT⟩ := track_of_bufOK hB2 hne hW; exact ⟨_, hT⟩)
      (Or.inr hB2.fin)
    obtain ⟨st'', os, hrun, hbs, hfin⟩ := runL f g2 c W2 hW2 Rs Cs (I2 ++ R) st' (E ++ o) e2
      (fun B hB => hs B (List.mem_cons_of_mem _ hB)) (fun C' hC' => hCs C' (List.mem_cons_of_mem _ hC'))
      (hCj.keepB hk1) (hB2.keep hk2) hph'
    refine ⟨st'', o :: os, ?_, ?_, ?_⟩
    · rw [List.zip_cons_cons]
      exact runBin_cons _ _ _ _ _ _ _ _ _ hup hrun
    · intro B hB
      rcases List.mem_cons.1 hB with rfl | hB
      · exact ⟨hso, hfo⟩
      · exact hbs B hB
    · simpa [List.append_assoc] using hfin

theorem phase_init (Gt : Rat → Option α) : Phase Gt ({} : BinSt α) [] :=
  Or.inl ⟨rfl, rfl, Or.inl rfl, fun h => absurd rfl h, fun h => absurd rfl h⟩

theorem phase_E {Gt : Rat → Option α} {st : BinSt α} {E : ASig α} (h : Phase Gt st E) :
    E = [] ∨ ∃ μ v, EOK Gt E μ v := by
  rcases h with ⟨_, hE, _⟩ | ⟨μ, v, _, hE, _⟩
  · exact Or.inl hE
  · exact Or.inr ⟨μ, v, hE⟩

end construn

end BinAux

/-! ### the theorems of the group -/

variable {α : Type} [Val α] [LawfulVal α]
open BinAux in
/-- The binary point-wise operation classes (`binUpdate`: buffers, the online intersection with remainders and the
    pending `last` sample, `last_output`) over two operand streams that start at 0: no exception, and the returned
    stream is the point-wise combination wherever it is defined so far. -/
theorem binStream_ok (f : α → α → α) {Ls Rs : List (ASig α)} (hlen : Ls.length = Rs.length)
    {g1 g2 : Rat → Option α} (h1 : StreamOK Ls 0 g1) (h2 : StreamOK Rs 0 g2) :
    ∃ st outs, runBin (binUpdate f) {} (Ls.zip Rs) = .ok (st, outs) ∧ StreamOK outs 0 (lift2 f g1 g2) := by
  have e1 : (Ls.zip Rs).map Prod.fst = Ls := List.map_fst_zip (le_of_eq hlen)
  have e2 : (Ls.zip Rs).map Prod.snd = Rs := List.map_snd_zip (le_of_eq hlen.symm)
  obtain ⟨st, outs, hrun, hbs, hinv⟩ := run2 f g1 g2 Ls.flatten Rs.flatten (StreamW.of_ok h1) (StreamW.of_ok h2)
    (Ls.zip Rs) [] [] {} [] (by rw [e1]; rfl) (by rw [e2]; rfl)
    (by
      intro B hB
      obtain ⟨B1, B2⟩ := B
      have := List.of_mem_zip hB
      exact ⟨h1.1.batch_sorted B1 this.1, h2.1.batch_sorted B2 this.2⟩)
    ⟨BufOK.nil, BufOK.nil, Or.inl ⟨rfl, rfl, Or.inl rfl, fun h => absurd rfl h, fun h => absurd rfl h⟩⟩
  refine ⟨st, outs, hrun, streamOK_of_E hbs ?_⟩
  rcases hinv.ph with ⟨_, hE, _⟩ | ⟨μ, v, _, hE, _⟩
  · exact Or.inl (by simpa using hE)
  · exact Or.inr ⟨μ, v, by simpa using hE⟩



open BinAux in
/-- The right operand is a constant node (its batch `[[0, c], [inf, c]]` arrives at the first update, an empty batch
    afterwards). -/
theorem binStream_const_right (f : α → α → α) (c : α) {Ls : List (ASig α)} {g1 : Rat → Option α} (h1 : StreamOK Ls 0 g1) :
    ∃ st outs, runBin (binUpdate f) {} (Ls.zip (constStream c Ls.length)) = .ok (st, outs) ∧
      StreamOK outs 0 (fun t => (g1 t).map (fun a => f a c)) := by
  obtain ⟨st, outs, hrun, hbs, hph⟩ := runR f g1 c Ls.flatten (StreamW.of_ok h1) Ls
    (constStream c Ls.length) [] {} [] rfl h1.1.batch_sorted (cbatch_constStream c _) BufOK.nil (Or.inl rfl) (phase_init _)
  refine ⟨st, outs, hrun, streamOK_congr (streamOK_of_E hbs ?_) (lift2_const_right f g1 c)⟩
  simpa using phase_E hph

open BinAux in
/-- The left operand is a constant node. -/
theorem binStream_const_left (f : α → α → α) (c : α) {Rs : List (ASig α)} {g2 : Rat → Option α} (h2 : StreamOK Rs 0 g2) :
    ∃ st outs, runBin (binUpdate f) {} ((constStream c Rs.length).zip Rs) = .ok (st, outs) ∧
      StreamOK outs 0 (fun t => (g2 t).map (fun b => f c b)) := by
  obtain ⟨st, outs, hrun, hbs, hph⟩ := runL f g2 c Rs.flatten (StreamW.of_ok h2) Rs
    (constStream c Rs.length) [] {} [] rfl h2.1.batch_sorted (cbatch_constStream c _) (Or.inl rfl) BufOK.nil (phase_init _)
  refine ⟨st, outs, hrun, streamOK_congr (streamOK_of_E hbs ?_) (lift2_const_left f g2 c)⟩
  simpa using phase_E hph

end Rtamt.Dense.AlgOn
