/-
  Dense time, online (C05): the unbounded `since` (`SinceOperation.update`, mirror `sinceUpdate`) over two operand
  streams.
-/
import RtamtProofs.Dense.OnDefs
import RtamtProofs.Dense.OnBasic
import RtamtProofs.Dense.AlgScan

namespace Rtamt.Dense.AlgOn
open Rtamt Val Rtamt.Dense.Alg

namespace SinceAux
open InterAux BasicAux
attribute [local instance] InterAux.tmOrder

variable {α : Type}

/-! ### the loop without the values: remaining buffers and the completed common pieces -/

/-- The part of `sinceLoop` that does not depend on `prev`: the two remaining buffers and the completed non-empty
    common pieces `(lo, (left value, right value))`. -/
def pieces : ASig α → ASig α → ASig α × ASig α × List (Tm × (α × α))
  | (a0, av) :: (a1, avn) :: ra, (b0, bv) :: (b1, bvn) :: rb =>
      let pre : List (Tm × (α × α)) :=
        if Tm.lt (tmMax a0 b0) (tmMin a1 b1) then [(tmMax a0 b0, (av, bv))] else []
      if Tm.lt a1 b1 then
        let r := pieces ((a1, avn) :: ra) ((b0, bv) :: (b1, bvn) :: rb)
        (r.1, r.2.1, pre ++ r.2.2)
      else if Tm.lt b1 a1 then
        let r := pieces ((a0, av) :: (a1, avn) :: ra) ((b1, bvn) :: rb)
        (r.1, r.2.1, pre ++ r.2.2)
      else
        let r := pieces ((a1, avn) :: ra) ((b1, bvn) :: rb)
        (r.1, r.2.1, pre ++ r.2.2)
  | a, b => (a, b, [])
termination_by a b => a.length + b.length
decreasing_by all_goals (simp only [List.length_cons]; omega)

/-- The value of `prev` after the pieces `io`. -/
def sacc [Val α] (acc : α) (io : List (Tm × (α × α))) : α := io.foldl (fun a p => sinceVal a p.2) acc

theorem sacc_nil [Val α] (acc : α) : sacc acc ([] : List (Tm × (α × α))) = acc := rfl

theorem sacc_cons [Val α] (acc : α) (p : Tm × (α × α)) (io : List (Tm × (α × α))) :
    sacc acc (p :: io) = sacc (sinceVal acc p.2) io := rfl

theorem sacc_append [Val α] (acc : α) (io io' : List (Tm × (α × α))) :
    sacc acc (io ++ io') = sacc (sacc acc io) io' := by
  unfold sacc; rw [List.foldl_append]

theorem sgo_nil [Val α] (acc : α) : sinceOp.go acc ([] : List (Tm × (α × α))) = [] := rfl

theorem sgo_append [Val α] (acc : α) (io io' : List (Tm × (α × α))) :
    sinceOp.go acc (io ++ io') = sinceOp.go acc io ++ sinceOp.go (sacc acc io) io' := by
  induction io generalizing acc with
  | nil => rfl
  | cons p io ih =>
    obtain ⟨τ, q⟩ := p
    rw [List.cons_append, ScanAux.sgo_cons, ScanAux.sgo_cons, ih, sacc_cons, List.cons_append]

theorem sinceLoop_base [Val α] (A B : ASig α) (h : A.length ≤ 1 ∨ B.length ≤ 1) (prev : α)
    (last : Option (Tm × α)) (res : ASig α) : sinceLoop A B prev last res = (A, B, prev, last, res) := by
  rw [sinceLoop]
  intro a0 av a1 avn ra b0 bv b1 bvn rb hA hB
  subst hA hB
  simp only [List.length_cons] at h
  omega

theorem pieces_base (A B : ASig α) (h : A.length ≤ 1 ∨ B.length ≤ 1) : pieces A B = (A, B, []) := by
  rw [pieces]
  intro a0 av a1 avn ra b0 bv b1 bvn rb hA hB
  subst hA hB
  simp only [List.length_cons] at h
  omega

/-- Either one of the lists has at most one sample, or both have two. -/
theorem two_cases (A B : ASig α) : (A.length ≤ 1 ∨ B.length ≤ 1) ∨
    ∃ a0 av a1 avn ra b0 bv b1 bvn rb, A = (a0, av) :: (a1, avn) :: ra ∧ B = (b0, bv) :: (b1, bvn) :: rb := by
  match A, B with
  | [], _ => exact Or.inl (Or.inl (by simp))
  | [_], _ => exact Or.inl (Or.inl (by simp))
  | _ :: _ :: _, [] => exact Or.inl (Or.inr (by simp))
  | _ :: _ :: _, [_] => exact Or.inl (Or.inr (by simp))
  | (a0, av) :: (a1, avn) :: ra, (b0, bv) :: (b1, bvn) :: rb =>
    exact Or.inr ⟨a0, av, a1, avn, ra, b0, bv, b1, bvn, rb, rfl, rfl⟩

/-- `sinceLoop` in terms of `pieces`: the values are the since recursion along the pieces. -/
theorem sinceLoop_eq [Val α] : ∀ (n : Nat) (A B : ASig α), A.length + B.length ≤ n →
    ∀ (prev : α) (last : Option (Tm × α)) (res : ASig α),
    ∃ last', sinceLoop A B prev last res =
      ((pieces A B).1, (pieces A B).2.1, sacc prev (pieces A B).2.2, last',
        res ++ sinceOp.go prev (pieces A B).2.2) := by
  intro n
  induction n with
  | zero =>
    intro A B hn prev last res
    have hb : A.length ≤ 1 ∨ B.length ≤ 1 := Or.inl (by omega)
    refine ⟨last, ?_⟩
    rw [sinceLoop_base A B hb, pieces_base A B hb]
    simp [sacc_nil, sgo_nil]
  | succ n ih =>
    intro A B hn prev last res
    rcases two_cases A B with hb | ⟨a0, av, a1, avn, ra, b0, bv, b1, bvn, rb, rfl, rfl⟩
    · refine ⟨last, ?_⟩
      rw [sinceLoop_base A B hb, pieces_base A B hb]
      simp [sacc_nil, sgo_nil]
    · simp only [List.length_cons] at hn
      rw [sinceLoop, pieces]
      by_cases he : Tm.lt (tmMax a0 b0) (tmMin a1 b1) = true
      · by_cases h1 : Tm.lt a1 b1 = true
        · simp only [h1, he, if_true]
          obtain ⟨l', e⟩ := ih ((a1, avn) :: ra) ((b0, bv) :: (b1, bvn) :: rb)
            (by simp only [List.length_cons]; omega)
            (pmax (pmin av bv) (pmin av prev))
            (some (tmMin a1 b1, pmax (pmin avn bv) (pmin avn prev)))
            (res ++ [(tmMax a0 b0, pmax (pmin av bv) (pmin av prev))])
          refine ⟨l', ?_⟩
          rw [e]
          simp [sacc_cons, ScanAux.sgo_cons, sinceVal]
        · by_cases h2 : Tm.lt b1 a1 = true
          · simp only [h1, h2, he, if_true]
            obtain ⟨l', e⟩ := ih ((a0, av) :: (a1, avn) :: ra) ((b1, bvn) :: rb)
              (by simp only [List.length_cons]; omega)
              (pmax (pmin av bv) (pmin av prev))
              (some (tmMin a1 b1, pmax (pmin av bvn) (pmin av prev)))
              (res ++ [(tmMax a0 b0, pmax (pmin av bv) (pmin av prev))])
            refine ⟨l', ?_⟩
            rw [e]
            simp [sacc_cons, ScanAux.sgo_cons, sinceVal]
          · simp only [h1, h2, he, if_true]
            obtain ⟨l', e⟩ := ih ((a1, avn) :: ra) ((b1, bvn) :: rb)
              (by simp only [List.length_cons]; omega)
              (pmax (pmin av bv) (pmin av prev))
              (some (tmMin a1 b1, pmax (pmin avn bvn) (pmin avn prev)))
              (res ++ [(tmMax a0 b0, pmax (pmin av bv) (pmin av prev))])
            refine ⟨l', ?_⟩
            rw [e]
            simp [sacc_cons, ScanAux.sgo_cons, sinceVal]
      · by_cases h1 : Tm.lt a1 b1 = true
        · simp only [h1, he, if_true]
          obtain ⟨l', e⟩ := ih ((a1, avn) :: ra) ((b0, bv) :: (b1, bvn) :: rb)
            (by simp only [List.length_cons]; omega) prev last res
          refine ⟨l', ?_⟩
          rw [e]
          simp
        · by_cases h2 : Tm.lt b1 a1 = true
          · simp only [h1, h2, he, if_true]
            obtain ⟨l', e⟩ := ih ((a0, av) :: (a1, avn) :: ra) ((b1, bvn) :: rb)
              (by simp only [List.length_cons]; omega) prev last res
            refine ⟨l', ?_⟩
            rw [e]
            simp
          · simp only [h1, h2, he]
            obtain ⟨l', e⟩ := ih ((a1, avn) :: ra) ((b1, bvn) :: rb)
              (by simp only [List.length_cons]; omega) prev last res
            refine ⟨l', ?_⟩
            rw [e]
            simp

theorem tmMax_eq (a b : Tm) : tmMax a b = max a b := by
  unfold tmMax
  by_cases h : a < b
  · rw [if_pos ((lt_iff _ _).2 h), max_eq_right (le_of_lt h)]
  · rw [if_neg (fun h' => h ((lt_iff _ _).1 h')), max_eq_left (not_lt.1 h)]

theorem tmMin_eq (a b : Tm) : tmMin a b = min a b := by
  unfold tmMin
  by_cases h : b < a
  · rw [if_pos ((lt_iff _ _).2 h), min_eq_right (le_of_lt h)]
  · rw [if_neg (fun h' => h ((lt_iff _ _).1 h')), min_eq_left (not_lt.1 h)]

/-- The piece emitted by one iteration (none when it is empty). -/
def pre (a0 a1 b0 b1 : Tm) (av bv : α) : List (Tm × (α × α)) :=
  if max a0 b0 < min a1 b1 then [(max a0 b0, (av, bv))] else []

/-- One iteration: the head of the list whose second stamp is smaller is dropped (both when equal). -/
theorem pieces_step (a0 : Tm) (av : α) (a1 : Tm) (avn : α) (ra : ASig α) (b0 : Tm) (bv : α) (b1 : Tm) (bvn : α)
    (rb : ASig α) :
    pieces ((a0, av) :: (a1, avn) :: ra) ((b0, bv) :: (b1, bvn) :: rb) =
      ((pieces (if a1 ≤ b1 then (a1, avn) :: ra else (a0, av) :: (a1, avn) :: ra)
          (if b1 ≤ a1 then (b1, bvn) :: rb else (b0, bv) :: (b1, bvn) :: rb)).1,
       (pieces (if a1 ≤ b1 then (a1, avn) :: ra else (a0, av) :: (a1, avn) :: ra)
          (if b1 ≤ a1 then (b1, bvn) :: rb else (b0, bv) :: (b1, bvn) :: rb)).2.1,
       pre a0 a1 b0 b1 av bv ++
       (pieces (if a1 ≤ b1 then (a1, avn) :: ra else (a0, av) :: (a1, avn) :: ra)
          (if b1 ≤ a1 then (b1, bvn) :: rb else (b0, bv) :: (b1, bvn) :: rb)).2.2) := by
  rw [pieces]
  simp only [tmMax_eq, tmMin_eq, lt_iff, pre]
  rcases lt_trichotomy a1 b1 with h | h | h
  · rw [if_pos h, if_pos (le_of_lt h), if_neg (not_le.2 h)]
  · subst h
    simp only [lt_irrefl, if_false, le_refl, if_true]
  · rw [if_neg (not_lt.2 (le_of_lt h)), if_pos h, if_neg (not_le.2 h), if_pos (le_of_lt h)]

/-- Feeding the operands in two parts gives the same pieces (and the same remainders) as feeding them at once. -/
theorem pieces_chunk : ∀ (n : Nat) (A B : ASig α), A.length + B.length ≤ n → ∀ (X Y : ASig α),
    pieces (A ++ X) (B ++ Y) =
      ((pieces ((pieces A B).1 ++ X) ((pieces A B).2.1 ++ Y)).1,
       (pieces ((pieces A B).1 ++ X) ((pieces A B).2.1 ++ Y)).2.1,
       (pieces A B).2.2 ++ (pieces ((pieces A B).1 ++ X) ((pieces A B).2.1 ++ Y)).2.2) := by
  intro n
  induction n with
  | zero =>
    intro A B hn X Y
    have hb : A.length ≤ 1 ∨ B.length ≤ 1 := Or.inl (by omega)
    rw [pieces_base A B hb]
    rfl
  | succ n ih =>
    intro A B hn X Y
    rcases two_cases A B with hb | ⟨a0, av, a1, avn, ra, b0, bv, b1, bvn, rb, rfl, rfl⟩
    · rw [pieces_base A B hb]
      rfl
    · simp only [List.length_cons] at hn
      rw [pieces_step]
      simp only [List.cons_append]
      rw [pieces_step]
      have e1 : (if a1 ≤ b1 then (a1, avn) :: (ra ++ X) else (a0, av) :: (a1, avn) :: (ra ++ X)) =
          (if a1 ≤ b1 then (a1, avn) :: ra else (a0, av) :: (a1, avn) :: ra) ++ X := by
        split <;> rfl
      have e2 : (if b1 ≤ a1 then (b1, bvn) :: (rb ++ Y) else (b0, bv) :: (b1, bvn) :: (rb ++ Y)) =
          (if b1 ≤ a1 then (b1, bvn) :: rb else (b0, bv) :: (b1, bvn) :: rb) ++ Y := by
        split <;> rfl
      rw [e1, e2]
      have hlen : (if a1 ≤ b1 then (a1, avn) :: ra else (a0, av) :: (a1, avn) :: ra).length +
          (if b1 ≤ a1 then (b1, bvn) :: rb else (b0, bv) :: (b1, bvn) :: rb).length ≤ n := by
        rcases lt_trichotomy a1 b1 with h | h | h
        · rw [if_pos (le_of_lt h), if_neg (not_le.2 h)]; simp only [List.length_cons]; omega
        · subst h; simp only [le_refl, if_true, List.length_cons]; omega
        · rw [if_neg (not_le.2 h), if_pos (le_of_lt h)]; simp only [List.length_cons]; omega
      rw [ih _ _ hlen X Y]
      simp only [List.append_assoc]

/-- The loop stops when one of the lists has at most one sample left. -/
theorem pieces_stable : ∀ (n : Nat) (A B : ASig α), A.length + B.length ≤ n →
    (pieces A B).1.length ≤ 1 ∨ (pieces A B).2.1.length ≤ 1 := by
  intro n
  induction n with
  | zero =>
    intro A B hn
    have hb : A.length ≤ 1 ∨ B.length ≤ 1 := Or.inl (by omega)
    rw [pieces_base A B hb]
    exact hb
  | succ n ih =>
    intro A B hn
    rcases two_cases A B with hb | ⟨a0, av, a1, avn, ra, b0, bv, b1, bvn, rb, rfl, rfl⟩
    · rw [pieces_base A B hb]
      exact hb
    · simp only [List.length_cons] at hn
      rw [pieces_step]
      apply ih
      rcases lt_trichotomy a1 b1 with h | h | h
      · rw [if_pos (le_of_lt h), if_neg (not_le.2 h)]; simp only [List.length_cons]; omega
      · subst h; simp only [le_refl, if_true, List.length_cons]; omega
      · rw [if_neg (not_le.2 h), if_pos (le_of_lt h)]; simp only [List.length_cons]; omega

/-! ### the run over the two streams -/

theorem runBin_cons {σ : Type} (step : σ → ASig α → ASig α → Except PyErr (σ × ASig α)) (st st' st'' : σ)
    (L R o : ASig α) (rest : List (ASig α × ASig α)) (os : List (ASig α)) (h1 : step st L R = .ok (st', o))
    (h2 : runBin step st' rest = .ok (st'', os)) : runBin step st ((L, R) :: rest) = .ok (st'', o :: os) := by
  rw [runBin, MainAux.bind_ok_eq h1]
  simp only []
  rw [MainAux.bind_ok_eq h2]
  rfl

/-- One update in terms of `pieces`. -/
theorem sinceUpdate_eq [Val α] (st : SinceSt α) (sl sr : ASig α) :
    ∃ st', sinceUpdate st sl sr = (st', sinceOp.go st.prev (pieces (st.bufA ++ sl) (st.bufB ++ sr)).2.2) ∧
      st'.bufA = (pieces (st.bufA ++ sl) (st.bufB ++ sr)).1 ∧
      st'.bufB = (pieces (st.bufA ++ sl) (st.bufB ++ sr)).2.1 ∧
      st'.prev = sacc st.prev (pieces (st.bufA ++ sl) (st.bufB ++ sr)).2.2 := by
  obtain ⟨l', e⟩ := sinceLoop_eq _ (st.bufA ++ sl) (st.bufB ++ sr) le_rfl st.prev st.last []
  unfold sinceUpdate
  rw [e]
  exact ⟨_, rfl, rfl, rfl, rfl⟩

/-- The whole run: the remaining buffers, `prev` and the concatenation of the returned batches are those of one
    pass over the concatenated operands. -/
theorem run_eq [Val α] : ∀ (ps : List (ASig α × ASig α)) (st : SinceSt α),
    (st.bufA.length ≤ 1 ∨ st.bufB.length ≤ 1) →
    ∃ st' outs, runBin (fun (st : SinceSt α) L R => .ok (sinceUpdate st L R)) st ps = .ok (st', outs) ∧
      st'.bufA = (pieces (st.bufA ++ (ps.map Prod.fst).flatten) (st.bufB ++ (ps.map Prod.snd).flatten)).1 ∧
      st'.bufB = (pieces (st.bufA ++ (ps.map Prod.fst).flatten) (st.bufB ++ (ps.map Prod.snd).flatten)).2.1 ∧
      st'.prev = sacc st.prev
        (pieces (st.bufA ++ (ps.map Prod.fst).flatten) (st.bufB ++ (ps.map Prod.snd).flatten)).2.2 ∧
      outs.flatten = sinceOp.go st.prev
        (pieces (st.bufA ++ (ps.map Prod.fst).flatten) (st.bufB ++ (ps.map Prod.snd).flatten)).2.2 := by
  intro ps
  induction ps with
  | nil =>
    intro st hst
    refine ⟨st, [], rfl, ?_⟩
    simp only [List.map_nil, List.flatten_nil, List.append_nil]
    rw [pieces_base _ _ hst]
    exact ⟨rfl, rfl, rfl, rfl⟩
  | cons p rest ih =>
    obtain ⟨L, R⟩ := p
    intro st _
    obtain ⟨st1, e1, hA, hB, hp⟩ := sinceUpdate_eq st L R
    obtain ⟨st2, os, e2, hA2, hB2, hp2, ho2⟩ := ih st1 (by rw [hA, hB]; exact pieces_stable _ _ _ le_rfl)
    refine ⟨st2, _ :: os, runBin_cons _ _ _ _ _ _ _ _ _ (congrArg Except.ok e1) e2, ?_⟩
    simp only [List.map_cons, List.flatten_cons, ← List.append_assoc]
    rw [pieces_chunk _ _ _ le_rfl, ← hA, ← hB]
    refine ⟨hA2, hB2, ?_, ?_⟩
    · rw [hp2, sacc_append, hp]
    · rw [ho2, sgo_append, hp]

/-! ### what the pieces are -/

theorem valAtA_cons_some {β : Type} (τ : Tm) (v : β) (A' : ASig β) {t : Rat} {x : β} (h0 : τ ≤ Tm.fin t)
    (h : valAtA A' t = some x) : valAtA ((τ, v) :: A') t = some x := by
  rw [valAtA_cons, if_neg (not_lt.2 h0), h]; rfl

/-- The frontier `max (first stamp) (first stamp)` moves to the end of the piece when it is not empty, and stays. -/
theorem frontier_step (a0 a1 b0 b1 : Tm) (ha : a0 ≤ a1) (hb : b0 ≤ b1) :
    max (if a1 ≤ b1 then a1 else a0) (if b1 ≤ a1 then b1 else b0) =
      if max a0 b0 < min a1 b1 then min a1 b1 else max a0 b0 := by
  simp only [max_def, min_def]
  split_ifs <;> order

/-- The list the next iteration works on. -/
theorem next_list {β : Type} (c : Prop) [Decidable c] (a0 : Tm) (av : β) (a1 : Tm) (avn : β) (ra : ASig β)
    (hw : Weak ((a0, av) :: (a1, avn) :: ra)) :
    ∃ a', (if c then (a1, avn) :: ra else (a0, av) :: (a1, avn) :: ra).head? = some a' ∧
      a'.1 = (if c then a1 else a0) ∧
      Weak (if c then (a1, avn) :: ra else (a0, av) :: (a1, avn) :: ra) ∧
      (∀ p ∈ (if c then (a1, avn) :: ra else (a0, av) :: (a1, avn) :: ra), p ∈ (a0, av) :: (a1, avn) :: ra) ∧
      (∀ t x, a0 ≤ Tm.fin t → valAtA (if c then (a1, avn) :: ra else (a0, av) :: (a1, avn) :: ra) t = some x →
        valAtA ((a0, av) :: (a1, avn) :: ra) t = some x) := by
  by_cases h : c
  · simp only [if_pos h]
    exact ⟨_, rfl, rfl, hw.tail, fun p hp => List.mem_cons_of_mem _ hp, fun t x h0 hx => valAtA_cons_some _ _ _ h0 hx⟩
  · simp only [if_neg h]
    exact ⟨_, rfl, rfl, hw, fun p hp => hp, fun t x _ hx => hx⟩

theorem weak_head_le {β : Type} {a0 : Tm} {av : β} {a1 : Tm} {avn : β} {ra : ASig β}
    (hw : Weak ((a0, av) :: (a1, avn) :: ra)) : a0 ≤ a1 :=
  (List.pairwise_cons.1 hw.mono).1 (a1, avn) List.mem_cons_self

theorem pieces_spec : ∀ (n : Nat) (A B : ASig α), A.length + B.length ≤ n → Weak A → Weak B →
    ∀ a b, A.head? = some a → B.head? = some b →
    Sorted (pieces A B).2.2 ∧
    (∀ p ∈ (pieces A B).2.2, max a.1 b.1 ≤ p.1 ∧ p.1 ≠ Tm.inf) ∧
    (∀ p, (pieces A B).2.2.head? = some p → p.1 = max a.1 b.1) ∧
    (∀ t z, (pieces A B).2.2.getLast? = some z → max a.1 b.1 ≤ Tm.fin t → Tm.fin t ≤ z.1 →
       ∃ x y, valAtA (pieces A B).2.2 t = some (x, y) ∧ valAtA A t = some x ∧ valAtA B t = some y ∧
         (∃ p ∈ A, Tm.fin t ≤ p.1) ∧ (∃ p ∈ B, Tm.fin t ≤ p.1)) := by
  intro n
  induction n with
  | zero =>
    intro A B hn hwA hwB a b ha hb
    have hb : A.length ≤ 1 ∨ B.length ≤ 1 := Or.inl (by omega)
    rw [pieces_base A B hb]
    exact ⟨ScanAux.sorted_nil, by simp, by simp, by simp⟩
  | succ n ih =>
    intro A B hn hwA hwB a b ha hb
    rcases two_cases A B with hbase | ⟨a0, av, a1, avn, ra, b0, bv, b1, bvn, rb, rfl, rfl⟩
    · rw [pieces_base A B hbase]
      exact ⟨ScanAux.sorted_nil, by simp, by simp, by simp⟩
    · simp only [List.length_cons] at hn
      obtain rfl : (a0, av) = a := by simpa using ha
      obtain rfl : (b0, bv) = b := by simpa using hb
      have h01a : a0 ≤ a1 := weak_head_le hwA
      have h01b : b0 ≤ b1 := weak_head_le hwB
      have hlen : (if a1 ≤ b1 then (a1, avn) :: ra else (a0, av) :: (a1, avn) :: ra).length +
          (if b1 ≤ a1 then (b1, bvn) :: rb else (b0, bv) :: (b1, bvn) :: rb).length ≤ n := by
        rcases lt_trichotomy a1 b1 with h | h | h
        · rw [if_pos (le_of_lt h), if_neg (not_le.2 h)]; simp only [List.length_cons]; omega
        · subst h; simp only [le_refl, if_true, List.length_cons]; omega
        · rw [if_neg (not_le.2 h), if_pos (le_of_lt h)]; simp only [List.length_cons]; omega
      obtain ⟨a', hha, ea, hwa, hma, hva⟩ := next_list (a1 ≤ b1) a0 av a1 avn ra hwA
      obtain ⟨b', hhb, eb, hwb, hmb, hvb⟩ := next_list (b1 ≤ a1) b0 bv b1 bvn rb hwB
      have hF := frontier_step a0 a1 b0 b1 h01a h01b
      rw [← ea, ← eb] at hF
      rw [pieces_step]
      generalize hA' : (if a1 ≤ b1 then (a1, avn) :: ra else (a0, av) :: (a1, avn) :: ra) = A' at *
      generalize hB' : (if b1 ≤ a1 then (b1, bvn) :: rb else (b0, bv) :: (b1, bvn) :: rb) = B' at *
      obtain ⟨s1, s2, s3, s4⟩ := ih A' B' hlen hwa hwb a' b' hha hhb
      show Sorted (pre a0 a1 b0 b1 av bv ++ (pieces A' B').2.2) ∧ _
      generalize (pieces A' B').2.2 = io' at *
      simp only []
      by_cases he : max a0 b0 < min a1 b1
      · rw [if_pos he] at hF
        have hpre : pre a0 a1 b0 b1 av bv = [(max a0 b0, (av, bv))] := by unfold pre; rw [if_pos he]
        rw [hpre, List.singleton_append]
        rw [hF] at s2 s3 s4
        have hFne : max a0 b0 ≠ Tm.inf := fun e => by
          rw [e] at he; exact absurd (le_inf _) (not_le.2 he)
        refine ⟨?_, ?_, ?_, ?_⟩
        · rw [ScanAux.sorted_cons]
          exact ⟨fun p hp => (lt_iff _ _).2 (lt_of_lt_of_le he (s2 p hp).1), s1⟩
        · intro p hp
          rcases List.mem_cons.1 hp with rfl | hp'
          · exact ⟨le_rfl, hFne⟩
          · exact ⟨le_trans (le_of_lt he) (s2 p hp').1, (s2 p hp').2⟩
        · intro p hp
          obtain rfl : (max a0 b0, av, bv) = p := by simpa using hp
          rfl
        · intro t z hz h1 h2
          by_cases ht : Tm.fin t < min a1 b1
          · have hn : valAtA io' t = none := by
              rw [valAtA_eq_none_iff]
              intro p hp
              rw [s3 p hp]; exact ht
            refine ⟨av, bv, ?_, ?_, ?_, ⟨(a1, avn), by simp, ?_⟩, ⟨(b1, bvn), by simp, ?_⟩⟩
            · rw [valAtA_cons, if_neg (not_lt.2 h1), hn]; rfl
            · exact valAtA_head a0 av a1 avn ra t (le_trans (le_max_left _ _) h1)
                (lt_of_lt_of_le ht (min_le_left _ _))
            · exact valAtA_head b0 bv b1 bvn rb t (le_trans (le_max_right _ _) h1)
                (lt_of_lt_of_le ht (min_le_right _ _))
            · exact le_of_lt (lt_of_lt_of_le ht (min_le_left _ _))
            · exact le_of_lt (lt_of_lt_of_le ht (min_le_right _ _))
          · have ht' : min a1 b1 ≤ Tm.fin t := not_lt.1 ht
            have hz' : io'.getLast? = some z := by
              cases io' with
              | nil =>
                obtain rfl : (max a0 b0, av, bv) = z := by simpa using hz
                exact absurd (lt_of_lt_of_le he ht') (not_lt.2 h2)
              | cons q r => simpa [List.getLast?_cons_cons] using hz
            obtain ⟨x, y, e1, e2, e3, ⟨p, hp, hpt⟩, ⟨q, hq, hqt⟩⟩ := s4 t z hz' ht' h2
            exact ⟨x, y, valAtA_cons_some _ _ _ h1 e1, hva t x (le_trans (le_max_left _ _) h1) e2,
              hvb t y (le_trans (le_max_right _ _) h1) e3, ⟨p, hma p hp, hpt⟩, ⟨q, hmb q hq, hqt⟩⟩
      · rw [if_neg he] at hF
        have hpre : pre a0 a1 b0 b1 av bv = [] := by unfold pre; rw [if_neg he]
        rw [hpre, List.nil_append, ← hF]
        refine ⟨s1, s2, s3, ?_⟩
        intro t z hz h1 h2
        obtain ⟨x, y, e1, e2, e3, ⟨p, hp, hpt⟩, ⟨q, hq, hqt⟩⟩ := s4 t z hz h1 h2
        rw [hF] at h1
        exact ⟨x, y, e1, hva t x (le_trans (le_max_left _ _) h1) e2, hvb t y (le_trans (le_max_right _ _) h1) e3,
          ⟨p, hma p hp, hpt⟩, ⟨q, hmb q hq, hqt⟩⟩

/-! ### the stream contract from the concatenation -/

/-- A stream whose concatenation is strictly sorted, finite and starts at `d` is well shaped. -/
theorem shape_of_sorted {β : Type} {outs : List (ASig β)} {d : Rat} (hs : Sorted outs.flatten)
    (hf : ∀ p ∈ outs.flatten, p.1 ≠ Tm.inf) (hh : ∀ p, outs.flatten.head? = some p → p.1 = Tm.fin d) :
    Shape outs d := by
  refine ⟨fun B hB => ?_, fun B hB p hp => hf p (List.mem_flatten.2 ⟨B, hB, hp⟩), weak_of_sorted hs, hh⟩
  exact ScanAux.sorted_of_sublist hs ((List.sublist_flatten_of_mem hB).map _)

section sets
variable [Val α] [LawfulVal α]

theorem sinceSet_subset {g1 g2 g1' g2' : Rat → Option α} {lo t : Rat}
    (h1 : ∀ s, lo ≤ s → s ≤ t → g1 s = g1' s) (h2 : ∀ s, lo ≤ s → s ≤ t → g2 s = g2' s) :
    sinceSet g1 g2 lo t t ⊆ sinceSet g1' g2' lo t t := by
  rintro y ⟨t', l, r, a, b, c, d, e⟩
  refine ⟨t', l, r, a, b, by rw [← h2 t' a b]; exact c, ?_, e⟩
  have hv : valuesOn g1' t' t = valuesOn g1 t' t := by
    ext z
    constructor
    · rintro ⟨s, p, q, r⟩
      exact ⟨s, p, q, by rw [h1 s (le_trans a p) q]; exact r⟩
    · rintro ⟨s, p, q, r⟩
      exact ⟨s, p, q, by rw [← h1 s (le_trans a p) q]; exact r⟩
  rw [hv]; exact d

theorem sinceSet_congr {g1 g2 g1' g2' : Rat → Option α} {lo t : Rat}
    (h1 : ∀ s, lo ≤ s → s ≤ t → g1 s = g1' s) (h2 : ∀ s, lo ≤ s → s ≤ t → g2 s = g2' s) :
    sinceSet g1 g2 lo t t = sinceSet g1' g2' lo t t :=
  Set.Subset.antisymm (sinceSet_subset h1 h2)
    (sinceSet_subset (fun s a b => (h1 s a b).symm) (fun s a b => (h2 s a b).symm))

end sets

end SinceAux

open SinceAux BasicAux InterAux
attribute [local instance] InterAux.tmOrder

variable {α : Type} [Val α] [LawfulVal α]

/-- `SinceOperation` over two operand streams that start at 0: what has been returned so far is the supremum over the
    witnesses of the non-strict since. -/
theorem sinceStream_ok {Ls Rs : List (ASig α)} (hlen : Ls.length = Rs.length) {g1 g2 : Rat → Option α}
    (h1 : StreamOK Ls 0 g1) (h2 : StreamOK Rs 0 g2) :
    ∃ st outs, runBin (fun (st : SinceSt α) L R => .ok (sinceUpdate st L R)) { prev := Val.ninf } (Ls.zip Rs) = .ok (st, outs) ∧
      Shape outs 0 ∧
      ∀ t, Covered outs 0 t → ∃ v, valAtA outs.flatten t = some v ∧ IsLUB (sinceSet g1 g2 0 t t) v := by
  obtain ⟨st, outs, hrun, _, _, _, hout⟩ :=
    run_eq (Ls.zip Rs) ({ prev := Val.ninf } : SinceSt α) (Or.inl (Nat.zero_le _))
  rw [List.map_fst_zip (le_of_eq hlen), List.map_snd_zip (le_of_eq hlen.symm)] at hout
  simp only [List.nil_append] at hout
  refine ⟨st, outs, hrun, ?_⟩
  have htimes : times outs.flatten = times (pieces Ls.flatten Rs.flatten).2.2 := by
    rw [hout]; exact ScanAux.times_sgo _ _
  -- the degenerate cases: one operand has not delivered anything
  have hempty : (pieces Ls.flatten Rs.flatten).2.2 = [] → Shape outs 0 ∧
      ∀ t, Covered outs 0 t → ∃ v, valAtA outs.flatten t = some v ∧ IsLUB (sinceSet g1 g2 0 t t) v := by
    intro he
    rw [he] at hout
    have ho : outs.flatten = [] := hout
    refine ⟨shape_of_sorted (by rw [ho]; exact ScanAux.sorted_nil) (by rw [ho]; simp) (by rw [ho]; simp), ?_⟩
    rintro t ⟨τ, p, hl, _⟩
    rw [ho] at hl; cases hl
  cases hA : Ls.flatten.head? with
  | none =>
    apply hempty
    rw [List.head?_eq_none_iff] at hA
    rw [hA, pieces_base _ _ (Or.inl (Nat.zero_le _))]
  | some a =>
  cases hB : Rs.flatten.head? with
  | none =>
    apply hempty
    rw [List.head?_eq_none_iff] at hB
    rw [hB, pieces_base _ _ (Or.inr (Nat.zero_le _))]
  | some b =>
  obtain ⟨s1, s2, s3, s4⟩ := pieces_spec _ Ls.flatten Rs.flatten le_rfl h1.1.weak h2.1.weak a b hA hB
  rw [h1.1.start a hA, h2.1.start b hB, max_self] at s2 s3 s4
  generalize (pieces Ls.flatten Rs.flatten).2.2 = io at *
  refine ⟨shape_of_sorted (ScanAux.sorted_of_times s1 htimes)
    (ScanAux.fin_of_times htimes (fun p hp => (s2 p hp).2)) ?_, ?_⟩
  · intro p hp
    have e : (times outs.flatten).head? = some p.1 := by
      unfold times; rw [List.head?_map, hp]; rfl
    rw [htimes] at e
    unfold times at e
    rw [List.head?_map] at e
    cases hh : io.head? with
    | none => rw [hh] at e; cases e
    | some q =>
      rw [hh] at e
      have : q.1 = p.1 := by simpa using e
      rw [← this]; exact s3 q hh
  · intro t hc
    rw [covered_iff, htimes] at hc
    obtain ⟨τ, hl, h0t, htτ⟩ := hc
    unfold times at hl
    rw [List.getLast?_map] at hl
    cases hz : io.getLast? with
    | none => rw [hz] at hl; cases hl
    | some z =>
    rw [hz] at hl
    have ez : z.1 = Tm.fin τ := by simpa using hl
    -- the pieces carry the operands' values on the covered part
    have hK : ∀ s, 0 ≤ s → s ≤ τ → ∃ x y, valAtA io s = some (x, y) ∧ g1 s = some x ∧ g2 s = some y := by
      intro s hs0 hsτ
      obtain ⟨x, y, e0, e1, e2, ⟨p, hp, hpt⟩, ⟨q, hq, hqt⟩⟩ :=
        s4 s z hz ((fin_le_fin _ _).2 hs0) (by rw [ez]; exact (fin_le_fin _ _).2 hsτ)
      refine ⟨x, y, e0, ?_, ?_⟩
      · obtain ⟨τp, ep, _⟩ := shape_fin_of_mem h1.1 hp
        rw [ep, fin_le_fin] at hpt
        rw [← h1.2 s (covered_mono (shape_covered_stamp h1.1 hp ep) hs0 hpt)]; exact e1
      · obtain ⟨τq, eq, _⟩ := shape_fin_of_mem h2.1 hq
        rw [eq, fin_le_fin] at hqt
        rw [← h2.2 s (covered_mono (shape_covered_stamp h2.1 hq eq) hs0 hqt)]; exact e2
    have hwfa : WFA io 0 := by
      refine ⟨s1, ?_, ScanAux.infOK_of_fin (fun p hp => (s2 p hp).2)⟩
      unfold times
      rw [List.head?_map]
      cases hh : io.head? with
      | none =>
        rw [List.head?_eq_none_iff] at hh
        rw [hh] at hz; cases hz
      | some q => rw [← s3 q hh]; rfl
    have hden : Denotes io 0 (lift2 (fun a b => (a, b)) (fun s => (valAtA io s).map (·.1))
        (fun s => (valAtA io s).map (·.2))) := by
      refine ⟨hwfa, fun s _ => ?_⟩
      simp only [lift2]
      rcases valAtA io s with _ | ⟨x, y⟩ <;> rfl
    have hg1 : ∀ s, (0 : Rat) ≤ s → (fun s => (valAtA io s).map (·.1)) s ≠ none := by
      intro s hs
      have := ScanAux.wfa_some hwfa hs
      simpa using this
    have hg2 : ∀ s, (0 : Rat) ≤ s → (fun s => (valAtA io s).map (·.2)) s ≠ none := by
      intro s hs
      have := ScanAux.wfa_some hwfa hs
      simpa using this
    obtain ⟨v, hv, hcv⟩ := ScanAux.since_char io s1 Val.ninf t (ScanAux.wfa_some hwfa h0t)
    refine ⟨v, by rw [hout]; exact hv, ?_⟩
    rw [isLUB_iff_le_iff]
    intro c
    rw [hcv c, ScanAux.ubS_iff hden hg1 hg2 t c]
    have hset : sinceSet (fun s => (valAtA io s).map (·.1)) (fun s => (valAtA io s).map (·.2)) 0 t t =
        sinceSet g1 g2 0 t t := by
      apply sinceSet_congr
      · intro s hs0 hst
        obtain ⟨x, y, e0, e1, _⟩ := hK s hs0 (le_trans hst htτ)
        simp only [e0, e1]; rfl
      · intro s hs0 hst
        obtain ⟨x, y, e0, _, e2⟩ := hK s hs0 (le_trans hst htτ)
        simp only [e0, e2]; rfl
    rw [hset]
    simp only [LawfulVal.ninf_bot, bot_le, true_or, and_true]

end Rtamt.Dense.AlgOn
