/-
  Helper lemmas for RtamtProofs/Dense/Step.lean (part 3): the bottom-up evaluator —
  `sortDedup`, the value of a sampled step function, `opAt` versus `rhoD`.
-/
import RtamtProofs.Dense.StepNodes

set_option linter.unusedSectionVars false

namespace Rtamt.Dense
open Rtamt Val

variable {α : Type} [Val α]

/-! ### `insertSorted`, `sortDedup` -/

theorem mem_insertSorted {t x : Rat} {l : List Rat} : x ∈ insertSorted t l ↔ x = t ∨ x ∈ l := by
  induction l with
  | nil => simp [insertSorted]
  | cons y ys ih =>
    unfold insertSorted
    split
    · simp
    · split
      · rename_i h; subst h; simp
      · simp only [List.mem_cons, ih]; tauto

theorem pairwise_insertSorted {t : Rat} {l : List Rat} (h : l.Pairwise (· < ·)) :
    (insertSorted t l).Pairwise (· < ·) := by
  induction l with
  | nil => simp [insertSorted]
  | cons y ys ih =>
    rw [List.pairwise_cons] at h
    unfold insertSorted
    split
    · rename_i hlt
      rw [List.pairwise_cons]
      refine ⟨?_, List.pairwise_cons.2 h⟩
      intro z hz
      rcases List.mem_cons.1 hz with rfl | hz
      · exact hlt
      · exact lt_trans hlt (h.1 z hz)
    · split
      · exact List.pairwise_cons.2 h
      · rename_i h1 h2
        rw [List.pairwise_cons]
        refine ⟨?_, ih h.2⟩
        intro z hz
        rcases mem_insertSorted.1 hz with rfl | hz
        · exact lt_of_le_of_ne (not_lt.1 h1) (fun e => h2 e.symm)
        · exact h.1 z hz

theorem mem_foldl_insertSorted {x : Rat} (l acc : List Rat) :
    x ∈ l.foldl (fun acc t => insertSorted t acc) acc ↔ x ∈ acc ∨ x ∈ l := by
  induction l generalizing acc with
  | nil => simp
  | cons y ys ih =>
    simp only [List.foldl_cons, ih, mem_insertSorted, List.mem_cons]; tauto

theorem pairwise_foldl_insertSorted (l acc : List Rat) (h : acc.Pairwise (· < ·)) :
    (l.foldl (fun acc t => insertSorted t acc) acc).Pairwise (· < ·) := by
  induction l generalizing acc with
  | nil => exact h
  | cons y ys ih => exact ih _ (pairwise_insertSorted h)

theorem mem_sortDedup {x : Rat} {l : List Rat} : x ∈ sortDedup l ↔ x ∈ l := by
  unfold sortDedup; rw [mem_foldl_insertSorted]; simp

theorem pairwise_sortDedup (l : List Rat) : (sortDedup l).Pairwise (· < ·) :=
  pairwise_foldl_insertSorted l [] List.Pairwise.nil

/-! ### value of a sampled step function -/

theorem valAt_filterMap_none (at_ : Rat → Option α) (pts : List Rat) (t : Rat)
    (h : ∀ p ∈ pts, t < p) :
    DSig.valAt (pts.filterMap (fun p => (at_ p).map (fun v => (p, v)))) t = none := by
  induction pts with
  | nil => rfl
  | cons p rest ih =>
    have ih' := ih (fun q hq => h q (List.mem_cons_of_mem _ hq))
    cases hp : at_ p with
    | none => rw [List.filterMap_cons_none (by rw [hp]; rfl)]; exact ih'
    | some v =>
      rw [List.filterMap_cons_some (b := (p, v)) (by rw [hp]; rfl), valAt_cons,
        if_pos (h p (List.mem_cons_self ..))]

theorem valAt_filterMap_sorted (at_ : Rat → Option α) (pts : List Rat)
    (hp : pts.Pairwise (· < ·)) (hdef : ∀ p ∈ pts, (at_ p).isSome = true) (τ t : Rat)
    (hτ : τ ∈ pts) (hle : τ ≤ t) (hno : ∀ p ∈ pts, ¬ (τ < p ∧ p ≤ t)) :
    DSig.valAt (pts.filterMap (fun p => (at_ p).map (fun v => (p, v)))) t = at_ τ := by
  induction pts with
  | nil => exact absurd hτ (by simp)
  | cons p rest ih =>
    rw [List.pairwise_cons] at hp
    obtain ⟨v, hv⟩ := Option.isSome_iff_exists.1 (hdef p (List.mem_cons_self ..))
    rw [List.filterMap_cons_some (b := (p, v)) (by rw [hv]; rfl), valAt_cons]
    rcases List.mem_cons.1 hτ with rfl | hτ'
    · rw [if_neg (not_lt.2 hle), valAt_filterMap_none at_ rest t, hv]
      · rfl
      · intro q hq
        by_contra hn
        exact hno q (List.mem_cons_of_mem _ hq) ⟨hp.1 q hq, not_lt.1 hn⟩
    · have hpτ : p < τ := hp.1 τ hτ'
      rw [if_neg (not_lt.2 (le_trans (le_of_lt hpτ) hle)),
        ih hp.2 (fun q hq => hdef q (List.mem_cons_of_mem _ hq)) hτ'
          (fun q hq => hno q (List.mem_cons_of_mem _ hq))]
      obtain ⟨v', hv'⟩ := Option.isSome_iff_exists.1 (hdef τ (List.mem_cons_of_mem _ hτ'))
      rw [hv']; rfl

theorem mem_samplePts {cfg : DCfg} {w : DEnv α} {φ : F α} {x : Rat} :
    x ∈ sortDedup ((dom w φ :: bps cfg w φ).filter (fun t => decide (dom w φ ≤ t)))
      ↔ (x = dom w φ ∨ x ∈ bps cfg w φ) ∧ dom w φ ≤ x := by
  rw [mem_sortDedup, List.mem_filter, List.mem_cons, decide_eq_true_eq]

/-- Sampling a step function at the candidates `≥ dom` and reading it back with `valAt`
    reproduces it on `[dom, ∞)`. -/
theorem valAt_sample (cfg : DCfg) (w : DEnv α) (φ : F α) (at_ : Rat → Option α)
    (hat : StepOn at_ (bps cfg w φ) (dom w φ) none) (t : Rat) (ht : dom w φ ≤ t) :
    (sample cfg w φ at_).valAt t = at_ t := by
  unfold sample
  obtain ⟨τ, k1, k2, k3, k4⟩ := exists_last_bp
    (sortDedup ((dom w φ :: bps cfg w φ).filter (fun t => decide (dom w φ ≤ t)))) (dom w φ) t ht
  have hτ : τ ∈ sortDedup ((dom w φ :: bps cfg w φ).filter (fun t => decide (dom w φ ≤ t))) := by
    rcases k1 with rfl | k1
    · exact mem_samplePts.2 ⟨Or.inl rfl, le_rfl⟩
    · exact k1.1
  have e := valAt_filterMap_sorted at_ _ (pairwise_sortDedup _)
    (fun p hp => hat.1 p (mem_samplePts.1 hp).2 trivial) τ t hτ k3 k4
  have e2 : at_ t = at_ τ := hat.2 τ t k2 k3 trivial
    (fun b hb hh => k4 b (mem_samplePts.2 ⟨Or.inr hb, le_trans k2 (le_of_lt hh.1)⟩) hh)
  rw [e2]
  exact e

/-! ### `foldWin` reads only `[lo, ∞)` -/

theorem foldWin_congr' (f : α → α → α) (init : α) (g g' : Rat → Option α) (B : List Rat) (lo : Rat)
    (hi : Option Rat) (h : ∀ s, lo ≤ s → g s = g' s) :
    foldWin f init g B lo hi = foldWin f init g' B lo hi := by
  rw [foldWin_eq, foldWin_eq]
  apply foldlM_congr_mem
  intro τ hτ
  rcases mem_winPts.1 hτ with rfl | ⟨_, h1, _⟩
  · exact h _ le_rfl
  · exact h _ (le_of_lt h1)

end Rtamt.Dense
