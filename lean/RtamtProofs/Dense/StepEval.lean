/-
  Helper lemmas for RtamtProofs/Dense/Step.lean (part 3): the bottom-up evaluator —
  `sortDedup`, the value of a sampled step function, `opAt` versus `rhoD`.
-/
import RtamtProofs.Dense.StepNodes

set_option linter.unusedSectionVars false

namespace Rtamt.Dense
open Rtamt Val

variable {α : Type} [Val α]

/-! ### `insertSorted`, `sortDedup` -/

theorem mem_insertSorted {t x : Rat} {l : List Rat} : x ∈ insertSorted t l ↔ x = t ∨ x ∈ l := by
  induction l with
  | nil => simp [insertSorted]
  | cons y ys ih =>
    unfold insertSorted
    split
    · simp
    · split
      · rename_i h; subst h; simp
      · simp only [List.mem_cons, ih]; tauto

theorem pairwise_insertSorted {t : Rat} {l : List Rat} (h : l.Pairwise (· < ·)) :
    (insertSorted t l).Pairwise (· < ·) := by
  induction l with
  | nil => simp [insertSorted]
  | cons y ys ih =>
    rw [List.pairwise_cons] at h
    unfold insertSorted
    split
    · rename_i hlt
      rw [List.pairwise_cons]
      refine ⟨?_, List.pairwise_cons.2 h⟩
      intro z hz
      rcases List.mem_cons.1 hz with rfl | hz
      · exact hlt
      · exact lt_trans hlt (h.1 z hz)
    · split
      · exact List.pairwise_cons.2 h
      · rename_i h1 h2
        rw [List.pairwise_cons]
        refine ⟨?_, ih h.2⟩
        intro z hz
        rcases mem_insertSorted.1 hz with rfl | hz
        · exact lt_of_le_of_ne (not_lt.1 h1) (fun e => h2 e.symm)
        · exact h.1 z hz

theorem mem_foldl_insertSorted {x : Rat} (l acc : List Rat) :
    x ∈ l.foldl (fun acc t => insertSorted t acc) acc ↔ x ∈ acc ∨ x ∈ l := by
  induction l generalizing acc with
  | nil => simp
  | cons y ys ih =>
    simp only [List.foldl_cons, ih, mem_insertSorted, List.mem_cons]; tauto

theorem pairwise_foldl_insertSorted (l acc : List Rat) (h : acc.Pairwise (· < ·)) :
    (l.foldl (fun acc t => insertSorted t acc) acc).Pairwise (· < ·) := by
  induction l generalizing acc with
  | nil => exact h
  | cons y ys ih => exact ih _ (pairwise_insertSorted h)

theorem mem_sortDedup {x : Rat} {l : List Rat} : x ∈ sortDedup l ↔ x ∈ l := by
  unfold sortDedup; rw [mem_foldl_insertSorted]; simp

theorem pairwise_sortDedup (l : List Rat) : (sortDedup l).Pairwise (· < ·) :=
  pairwise_foldl_insertSorted l [] List.Pairwise.nil

/-! ### value of a sampled step function -/

theorem valAt_filterMap_none (at_ : Rat → Option α) (pts : List Rat) (t : Rat)
    (h : ∀ p ∈ pts, t < p) :
    DSig.valAt (pts.filterMap (fun p => (at_ p).map (fun v => (p, v)))) t = none := by
  induction pts with
  | nil => rfl
  | cons p rest ih =>
    have ih' := ih (fun q hq => h q (List.mem_cons_of_mem _ hq))
    cases hp : at_ p with
    | none => rw [List.filterMap_cons_none (by rw [hp]; rfl)]; exact ih'
    | some v =>
      rw [List.filterMap_cons_some (b := (p, v)) (by rw [hp]; rfl), valAt_cons,
        if_pos (h p (List.mem_cons_self ..))]

theorem valAt_filterMap_sorted (at_ : Rat → Option α) (pts : List Rat)
    (hp : pts.Pairwise (· < ·)) (hdef : ∀ p ∈ pts, (at_ p).isSome = true) (τ t : Rat)
    (hτ : τ ∈ pts) (hle : τ ≤ t) (hno : ∀ p ∈ pts, ¬ (τ < p ∧ p ≤ t)) :
    DSig.valAt (pts.filterMap (fun p => (at_ p).map (fun v => (p, v)))) t = at_ τ := by
  induction pts with
  | nil => exact absurd hτ (by simp)
  | cons p rest ih =>
    rw [List.pairwise_cons] at hp
    obtain ⟨v, hv⟩ := Option.isSome_iff_exists.1 (hdef p (List.mem_cons_self ..))
    rw [List.filterMap_cons_some (b := (p, v)) (by rw [hv]; rfl), valAt_cons]
    rcases List.mem_cons.1 hτ with rfl | hτ'
    · rw [if_neg (not_lt.2 hle), valAt_filterMap_none at_ rest t, hv]
      · rfl
      · intro q hq
        by_contra hn
        exact hno q (List.mem_cons_of_mem _ hq) ⟨hp.1 q hq, not_lt.1 hn⟩
    · have hpτ : p < τ := hp.1 τ hτ'
      rw [if_neg (not_lt.2 (le_trans (le_of_lt hpτ) hle)),
        ih hp.2 (fun q hq => hdef q (List.mem_cons_of_mem _ hq)) hτ'
          (fun q hq => hno q (List.mem_cons_of_mem _ hq))]
      obtain ⟨v', hv'⟩ := Option.isSome_iff_exists.1 (hdef τ (List.mem_cons_of_mem _ hτ'))
      rw [hv']; rfl

theorem mem_samplePts {cfg : DCfg} {w : DEnv α} {φ : F α} {x : Rat} :
    x ∈ sortDedup ((dom w φ :: bps cfg w φ).filter (fun t => decide (dom w φ ≤ t)))
      ↔ (x = dom w φ ∨ x ∈ bps cfg w φ) ∧ dom w φ ≤ x := by
  rw [mem_sortDedup, List.mem_filter, List.mem_cons, decide_eq_true_eq]

/-- Sampling a step function at the candidates `≥ dom` and reading it back with `valAt`
    reproduces it on `[dom, ∞)`. -/
theorem valAt_sample (cfg : DCfg) (w : DEnv α) (φ : F α) (at_ : Rat → Option α)
    (hat : StepOn at_ (bps cfg w φ) (dom w φ) none) (t : Rat) (ht : dom w φ ≤ t) :
    (sample cfg w φ at_).valAt t = at_ t := by
  unfold sample
  obtain ⟨τ, k1, k2, k3, k4⟩ := exists_last_bp
    (sortDedup ((dom w φ :: bps cfg w φ).filter (fun t => decide (dom w φ ≤ t)))) (dom w φ) t ht
  have hτ : τ ∈ sortDedup ((dom w φ :: bps cfg w φ).filter (fun t => decide (dom w φ ≤ t))) := by
    rcases k1 with rfl | k1
    · exact mem_samplePts.2 ⟨Or.inl rfl, le_rfl⟩
    · exact k1.1
  have e := valAt_filterMap_sorted at_ _ (pairwise_sortDedup _)
    (fun p hp => hat.1 p (mem_samplePts.1 hp).2 trivial) τ t hτ k3 k4
  have e2 : at_ t = at_ τ := hat.2 τ t k2 k3 trivial
    (fun b hb hh => k4 b (mem_samplePts.2 ⟨Or.inr hb, le_trans k2 (le_of_lt hh.1)⟩) hh)
  rw [e2]
  exact e

/-! ### `foldWin` reads only `[lo, ∞)` -/

theorem foldWin_congr' (f : α → α → α) (init : α) (g g' : Rat → Option α) (B : List Rat) (lo : Rat)
    (hi : Option Rat) (h : ∀ s, lo ≤ s → g s = g' s) :
    foldWin f init g B lo hi = foldWin f init g' B lo hi := by
  rw [foldWin_eq, foldWin_eq]
  apply foldlM_congr_mem
  intro τ hτ
  rcases mem_winPts.1 hτ with rfl | ⟨_, h1, _⟩
  · exact h _ le_rfl
  · exact h _ (le_of_lt h1)

/-! ### `opAt` on operand functions that agree with `rhoD` on the operands' domains -/

theorem opAt_un (cfg : DCfg) (w : DEnv α) (op : Un) (φ : F α) (g : Rat → Option α) (t : Rat)
    (hg : g t = rhoD cfg w φ t) :
    opAt cfg w (.un op φ) [g] t = rhoD cfg w (.un op φ) t := by
  simp only [opAt, rhoD, hg]

theorem opAt_bin (cfg : DCfg) (w : DEnv α) (op : Bin) (φ ψ : F α) (g1 g2 : Rat → Option α) (t : Rat)
    (h1 : g1 t = rhoD cfg w φ t) (h2 : g2 t = rhoD cfg w ψ t) :
    opAt cfg w (.bin op φ ψ) [g1, g2] t = rhoD cfg w (.bin op φ ψ) t := by
  simp only [opAt, rhoD, h1, h2]

theorem opAt_tmp1 (cfg : DCfg) (w : DEnv α) (op : T1) (φ : F α) (g : Rat → Option α) (t : Rat)
    (hg : ∀ s, dom w φ ≤ s → g s = rhoD cfg w φ s) (ht : dom w φ ≤ t) :
    opAt cfg w (.tmp1 op φ) [g] t = rhoD cfg w (.tmp1 op φ) t := by
  simp only [opAt, rhoD, if_neg (not_lt.2 ht)]
  cases op <;> simp only []
  · exact foldWin_congr' _ _ _ _ _ _ _ hg
  · exact foldWin_congr' _ _ _ _ _ _ _ hg
  · exact foldWin_congr' _ _ _ _ _ _ _ (fun s hs => hg s (le_trans ht hs))
  · exact foldWin_congr' _ _ _ _ _ _ _ (fun s hs => hg s (le_trans ht hs))

theorem opAt_tb1 (cfg : DCfg) (hs : 0 ≤ cfg.scale) (w : DEnv α) (op : TB1) (a b : Nat) (φ : F α)
    (g : Rat → Option α) (t : Rat)
    (hg : ∀ s, dom w φ ≤ s → g s = rhoD cfg w φ s) (ht : dom w φ ≤ t) :
    opAt cfg w (.tb1 op a b φ) [g] t = rhoD cfg w (.tb1 op a b φ) t := by
  have ha : (0 : Rat) ≤ (a : Rat) * cfg.scale := mul_nonneg (Nat.cast_nonneg a) hs
  simp only [opAt, rhoD, if_neg (not_lt.2 ht)]
  cases op <;> simp only []
  · split
    · rfl
    · exact foldWin_congr' _ _ _ _ _ _ _ (fun s hs => hg s (le_trans (le_max_right _ _) hs))
  · split
    · rfl
    · exact foldWin_congr' _ _ _ _ _ _ _ (fun s hs => hg s (le_trans (le_max_right _ _) hs))
  · exact foldWin_congr' _ _ _ _ _ _ _ (fun s hs => hg s (by linarith))
  · exact foldWin_congr' _ _ _ _ _ _ _ (fun s hs => hg s (by linarith))

theorem sinceInner_congr {g1 g1' g2 g2' : Rat → Option α} {d1 d2 : Rat}
    (h1 : ∀ s, d1 ≤ s → g1 s = g1' s) (h2 : ∀ s, d2 ≤ s → g2 s = g2' s) (B1 : List Rat)
    (t s : Rat) (hs : max d1 d2 ≤ s) :
    sinceInner g1 g2 B1 t s = sinceInner g1' g2' B1 t s := by
  simp only [sinceInner, h2 s (le_trans (le_max_right _ _) hs),
    foldWin_congr' pmin pinf g1 g1' B1 s (some t)
      (fun x hx => h1 x (le_trans (le_trans (le_max_left _ _) hs) hx))]

theorem untilInner_congr {g1 g1' g2 g2' : Rat → Option α} {d1 d2 : Rat}
    (h1 : ∀ s, d1 ≤ s → g1 s = g1' s) (h2 : ∀ s, d2 ≤ s → g2 s = g2' s) (B1 : List Rat)
    (t s : Rat) (ht : max d1 d2 ≤ t) (hs : t ≤ s) :
    untilInner g1 g2 B1 t s = untilInner g1' g2' B1 t s := by
  simp only [untilInner, h2 s (le_trans (le_trans (le_max_right _ _) ht) hs),
    foldWin_congr' pmin pinf g1 g1' B1 t (some s)
      (fun x hx => h1 x (le_trans (le_trans (le_max_left _ _) ht) hx))]

theorem opAt_tmp2 (cfg : DCfg) (w : DEnv α) (op : T2) (φ ψ : F α) (g1 g2 : Rat → Option α) (t : Rat)
    (h1 : ∀ s, dom w φ ≤ s → g1 s = rhoD cfg w φ s)
    (h2 : ∀ s, dom w ψ ≤ s → g2 s = rhoD cfg w ψ s) (ht : max (dom w φ) (dom w ψ) ≤ t) :
    opAt cfg w (.tmp2 op φ ψ) [g1, g2] t = rhoD cfg w (.tmp2 op φ ψ) t := by
  simp only [opAt, rhoD, if_neg (not_lt.2 ht)]
  cases op <;> simp only []
  · exact foldWin_congr' _ _ _ _ _ _ _
      (fun s hs => sinceInner_congr h1 h2 (bps cfg w φ) t s hs)
  · exact foldWin_congr' _ _ _ _ _ _ _
      (fun s hs => untilInner_congr h1 h2 (bps cfg w φ) t s ht hs)

theorem opAt_tb2 (cfg : DCfg) (hs : 0 ≤ cfg.scale) (w : DEnv α) (op : TB2) (a b : Nat) (φ ψ : F α)
    (g1 g2 : Rat → Option α) (t : Rat)
    (h1 : ∀ s, dom w φ ≤ s → g1 s = rhoD cfg w φ s)
    (h2 : ∀ s, dom w ψ ≤ s → g2 s = rhoD cfg w ψ s) (ht : max (dom w φ) (dom w ψ) ≤ t) :
    opAt cfg w (.tb2 op a b φ ψ) [g1, g2] t = rhoD cfg w (.tb2 op a b φ ψ) t := by
  have ha : (0 : Rat) ≤ (a : Rat) * cfg.scale := mul_nonneg (Nat.cast_nonneg a) hs
  simp only [opAt, rhoD, if_neg (not_lt.2 ht)]
  cases op <;> simp only []
  · split
    · rfl
    · exact foldWin_congr' _ _ _ _ _ _ _
        (fun s hs => sinceInner_congr h1 h2 (bps cfg w φ) t s (le_trans (le_max_right _ _) hs))
  · exact foldWin_congr' _ _ _ _ _ _ _
      (fun s hs => untilInner_congr h1 h2 (bps cfg w φ) t s ht (by linarith))

/-- closing step for a node: sampling `opAt` and reading back gives `rhoD` -/
theorem valAt_sample_eq_rhoD (cfg : DCfg) (w : DEnv α) (node : F α) (at_ : Rat → Option α)
    (hstep : StepOn (rhoD cfg w node) (bps cfg w node) (dom w node) none)
    (hop : ∀ s, dom w node ≤ s → at_ s = rhoD cfg w node s) (t : Rat) (ht : dom w node ≤ t) :
    (sample cfg w node at_).valAt t = rhoD cfg w node t := by
  rw [valAt_sample cfg w node at_ (hstep.congr (fun s h _ => hop s h)) t ht, hop t ht]

end Rtamt.Dense
