/-
  C04, M-alg = M-spec for dense time: the mirror of the dense-time offline visitor (`evalAlg`, Rtamt/Dense/Alg.lean —
  the 13-case merge, the running-extremum loops, the segment stacks of the bounded operators, the decomposition of
  bounded since / until) returns, for every supported formula over well-formed signals that start at time 0, a sample
  list with strictly increasing time stamps that starts at 0 and, read as a right-continuous step function, equals
  `rhoD` at every `t ≥ 0`.

  `_partial`: the hypothesis "every variable starts at time 0" is forced by the code (known finding F37: the bounded
  operators take 0, not the first time stamp, as the start of the domain); `hsub` (`-(l - r) = r - l`, what
  `visitPredicate` computes for `<=` / `<` against the README's `r - l`) holds for reals and for doubles whenever
  `l - r` is not NaN.
-/
import RtamtProofs.Dense.AlgInter
import RtamtProofs.Dense.AlgScan
import RtamtProofs.Dense.AlgFwd
import RtamtProofs.Dense.AlgBack
import RtamtProofs.Dense.AlgTimed2

namespace Rtamt.Dense.Alg
open Rtamt Val
variable {α : Type} [Val α] [LawfulVal α]

/-- No interface-aware predicate forms (they are produced by the IA override only). -/
def noIA : F α → Bool
  | .var _ => true
  | .const _ => true
  | .un _ φ => noIA φ
  | .bin op φ ψ => (match op with | .predSat _ | .predZero => false | _ => true) && noIA φ && noIA ψ
  | .tmp1 _ φ => noIA φ
  | .tmp2 _ φ ψ => noIA φ && noIA ψ
  | .tb1 _ _ _ φ => noIA φ
  | .tb2 _ _ _ φ ψ => noIA φ && noIA ψ

/-- No `sqrt` / `ln` (which raise on negative samples). -/
def noPartialOps : F α → Bool
  | .var _ => true
  | .const _ => true
  | .un op φ => (match op with | .sqrt | .ln => false | _ => true) && noPartialOps φ
  | .bin _ φ ψ => noPartialOps φ && noPartialOps ψ
  | .tmp1 _ φ => noPartialOps φ
  | .tmp2 _ φ ψ => noPartialOps φ && noPartialOps ψ
  | .tb1 _ _ _ φ => noPartialOps φ
  | .tb2 _ _ _ φ ψ => noPartialOps φ && noPartialOps ψ

/-- Every variable of the formula starts at time 0. -/
def StartsAt0 (w : DEnv α) (xs : List String) : Prop :=
  ∀ x ∈ xs, (w.sig x).times.head? = some 0

namespace MainAux

/-! ### generalities -/

theorem bind_ok {ε β γ : Type} {a : Except ε β} {f : β → Except ε γ} {s : γ}
    (h : (a >>= f) = .ok s) : ∃ x, a = .ok x ∧ f x = .ok s := by
  cases a with
  | error e => cases h
  | ok x => exact ⟨x, rfl, h⟩

theorem ok_inj {ε β : Type} {a b : β} (h : (Except.ok a : Except ε β) = .ok b) : a = b := by
  cases h; rfl

omit [Val α] [LawfulVal α] in
theorem foldl_max_zero (l : List Rat) (h : ∀ x ∈ l, x = 0) : l.foldl max 0 = 0 := by
  induction l with
  | nil => rfl
  | cons x l ih =>
    have hx : x = 0 := h x (List.mem_cons_self)
    subst hx
    simp only [List.foldl_cons, max_self]
    exact ih (fun y hy => h y (List.mem_cons_of_mem _ hy))

omit [Val α] [LawfulVal α] in
theorem dom_zero (w : DEnv α) (φ : F α) (h0 : StartsAt0 w φ.vars) : dom w φ = 0 := by
  unfold dom
  apply foldl_max_zero
  intro y hy
  obtain ⟨x, hx, rfl⟩ := List.mem_map.1 hy
  rw [h0 x hx]; rfl

omit [Val α] [LawfulVal α] in
theorem startsAt0_left {w : DEnv α} {xs ys : List String} (h : StartsAt0 w (xs ++ ys)) : StartsAt0 w xs :=
  fun x hx => h x (List.mem_append_left _ hx)

omit [Val α] [LawfulVal α] in
theorem startsAt0_right {w : DEnv α} {xs ys : List String} (h : StartsAt0 w (xs ++ ys)) : StartsAt0 w ys :=
  fun x hx => h x (List.mem_append_right _ hx)

omit [Val α] [LawfulVal α] in
theorem wf_left {w : DEnv α} {xs ys : List String} (h : w.WF (xs ++ ys)) : w.WF xs :=
  fun x hx => h x (List.mem_append_left _ hx)

omit [Val α] [LawfulVal α] in
theorem wf_right {w : DEnv α} {xs ys : List String} (h : w.WF (xs ++ ys)) : w.WF ys :=
  fun x hx => h x (List.mem_append_right _ hx)

/-! ### variables and constants -/

omit [Val α] [LawfulVal α] in
theorem valAtA_ofDSig (s : DSig α) (t : Rat) : valAtA (ofDSig s) t = DSig.valAt s t := by
  induction s with
  | nil => rfl
  | cons p rest ih =>
    obtain ⟨τ, v⟩ := p
    have ih' : valAtA (List.map (fun p : Rat × α => (Tm.fin p.1, p.2)) rest) t = DSig.valAt rest t := ih
    simp only [ofDSig, List.map_cons, valAtA, DSig.valAt, Tm.lt, decide_eq_true_eq, ih']
    by_cases h : t < τ
    · simp only [if_pos h]
    · simp only [if_neg h]
      cases DSig.valAt rest t <;> rfl

omit [Val α] [LawfulVal α] in
theorem times_ofDSig (s : DSig α) : times (ofDSig s) = s.times.map Tm.fin := by
  simp [times, ofDSig, DSig.times, List.map_map, Function.comp_def]

omit [Val α] [LawfulVal α] in
theorem ofDSig_denotes (s : DSig α) (hp : s.times.Pairwise (· < ·)) (h0 : s.times.head? = some 0) :
    Denotes (ofDSig s) 0 (DSig.valAt s) := by
  refine ⟨⟨?_, ?_, ?_⟩, fun t _ => valAtA_ofDSig s t⟩
  · unfold Sorted
    rw [times_ofDSig, List.pairwise_map]
    exact hp.imp (fun {a b} h => by simpa [Tm.lt] using h)
  · rw [times_ofDSig, List.head?_map, h0]; rfl
  · intro pre a v h
    have hm : (Tm.inf, v) ∈ ofDSig s := by rw [h]; simp
    simp only [ofDSig, List.mem_map] at hm
    obtain ⟨q, _, hq⟩ := hm
    cases (Prod.mk.inj hq).1

omit [Val α] [LawfulVal α] in
theorem const_denotes (c : α) : Denotes [(Tm.zero, c), (Tm.inf, c)] 0 (fun _ => some c) := by
  refine ⟨⟨?_, rfl, ?_⟩, fun t ht => ?_⟩
  · simp [Sorted, times, Tm.zero, Tm.lt]
  · intro pre a v h
    have hl := congrArg List.length h
    simp only [List.length_cons, List.length_nil, List.length_append] at hl
    have hp : pre = [] := List.eq_nil_of_length_eq_zero (by omega)
    subst hp
    simp only [List.nil_append, List.cons.injEq, Prod.mk.injEq, and_true] at h
    rw [← h.1, ← h.2.2]
  · have : ¬ t < 0 := not_lt.2 ht
    simp [valAtA, Tm.zero, Tm.lt, this]

/-! ### the operators, one lemma per node class -/

theorem opt_lub_eq' {S : Set α} {x y : Option α} {v v' : α} (e1 : x = some v) (l1 : IsLUB S v)
    (e2 : y = some v') (l2 : IsLUB S v') : x = y := by
  rw [e1, e2, l1.unique l2]

theorem opt_glb_eq' {S : Set α} {x y : Option α} {v v' : α} (e1 : x = some v) (l1 : IsGLB S v)
    (e2 : y = some v') (l2 : IsGLB S v') : x = y := by
  rw [e1, e2, l1.unique l2]

theorem untilSet_none (g1 g2 : Rat → Option α) (lo t : Rat) :
    untilSet g1 g2 lo none t =
      {y | ∃ t' l r, lo ≤ t' ∧ g2 t' = some r ∧ IsGLB (valuesOn g1 t t') l ∧ y = min l r} := by
  ext y; simp only [untilSet, Set.mem_ofPred_eq, true_and]

omit [LawfulVal α] in
theorem cmpOfDiff_sub (hsub : ∀ a b : α, Val.neg (Val.sub a b) = Val.sub b a) (c : Cmp) (a b : α) :
    cmpOfDiff c (Val.sub a b) = (Bin.pred c).app a b := by
  cases c <;> simp only [cmpOfDiff, Bin.app, Cmp.app, hsub]

omit [LawfulVal α] in
theorem binMethod_eq (op : Bin) (h : ∀ c, op ≠ .pred c) : (binMethod op : α → α → α) = op.app := by
  cases op <;> first | rfl | exact absurd rfl (h _)

theorem bind_ok_eq {ε β γ : Type} {a : Except ε β} {f : β → Except ε γ} {x : β} (h : a = .ok x) :
    (a >>= f) = f x := by
  subst h; rfl

omit [Val α] [LawfulVal α] in
theorem denotes_self {s : ASig α} {d : Rat} (h : WFA s d) : Denotes s d (valAtA s) := ⟨h, fun _ _ => rfl⟩

section nodes
variable (cfg : DCfg) (hs : 0 ≤ cfg.scale) (w : DEnv α)

omit [LawfulVal α] in
theorem lift2_bin (op : Bin) (φ ψ : F α) :
    lift2 op.app (rhoD cfg w φ) (rhoD cfg w ψ) = rhoD cfg w (.bin op φ ψ) := by
  funext t
  simp only [lift2, rhoD]
  cases rhoD cfg w φ t <;> cases rhoD cfg w ψ t <;> rfl

theorem un_denotes (op : Un) (φ : F α) {s1 out : ASig α} (h1 : Denotes s1 0 (rhoD cfg w φ))
    (ho : mapUn op s1 = .ok out) : Denotes out 0 (rhoD cfg w (.un op φ)) :=
  mapUn_spec op h1 ho

theorem bin_denotes (op : Bin) (hop : ∀ c, op ≠ .pred c) (φ ψ : F α) {l r : ASig α}
    (h1 : Denotes l 0 (rhoD cfg w φ)) (h2 : Denotes r 0 (rhoD cfg w ψ)) :
    ∃ out, inter (binMethod op) vne l r = .ok out ∧ Denotes out 0 (rhoD cfg w (.bin op φ ψ)) := by
  obtain ⟨out, ho, hD⟩ := inter_denotes (binMethod op) vne (fun a b h => (vne_eq_false_iff a b).1 h) h1 h2
  rw [max_self, binMethod_eq op hop, lift2_bin] at hD
  exact ⟨out, ho, hD⟩

theorem pred_denotes (hsub : ∀ a b : α, Val.neg (Val.sub a b) = Val.sub b a) (c : Cmp) (φ ψ : F α) {l r : ASig α}
    (h1 : Denotes l 0 (rhoD cfg w φ)) (h2 : Denotes r 0 (rhoD cfg w ψ)) :
    ∃ out, predicate c l r = .ok out ∧ Denotes out 0 (rhoD cfg w (.bin (.pred c) φ ψ)) := by
  obtain ⟨out, ho, hD⟩ := predicate_spec c h1 h2
  have e : (fun a b : α => cmpOfDiff c (Val.sub a b)) = (Bin.pred c).app := by
    funext a b; exact cmpOfDiff_sub hsub c a b
  rw [max_self, e, lift2_bin] at hD
  exact ⟨out, ho, hD⟩

include hs in
theorem once_denotes (φ : F α) (hsup : supported φ = true) (hw : w.WF φ.vars) (hd : dom w φ = 0)
    {s1 : ASig α} (h1 : Denotes s1 0 (rhoD cfg w φ)) :
    Denotes (fwdScan pmax Val.ninf s1) 0 (rhoD cfg w (.tmp1 .once φ)) := by
  obtain ⟨hwf, hv⟩ := fwdScan_max_spec h1
  refine ⟨hwf, fun t ht => ?_⟩
  obtain ⟨v, e1, l1⟩ := hv t ht
  have C := C04_unbounded cfg hs w φ hsup hw t (by rw [hd]; exact ht)
  rw [hd] at C
  obtain ⟨⟨v', e2, l2⟩, _⟩ := C
  exact opt_lub_eq' e1 l1 e2 l2

include hs in
theorem hist_denotes (φ : F α) (hsup : supported φ = true) (hw : w.WF φ.vars) (hd : dom w φ = 0)
    {s1 : ASig α} (h1 : Denotes s1 0 (rhoD cfg w φ)) :
    Denotes (fwdScan pmin Val.pinf s1) 0 (rhoD cfg w (.tmp1 .hist φ)) := by
  obtain ⟨hwf, hv⟩ := fwdScan_min_spec h1
  refine ⟨hwf, fun t ht => ?_⟩
  obtain ⟨v, e1, l1⟩ := hv t ht
  have C := C04_unbounded cfg hs w φ hsup hw t (by rw [hd]; exact ht)
  rw [hd] at C
  obtain ⟨_, ⟨v', e2, l2⟩, _⟩ := C
  exact opt_glb_eq' e1 l1 e2 l2

include hs in
theorem ev_denotes (φ : F α) (hsup : supported φ = true) (hw : w.WF φ.vars) (hd : dom w φ = 0)
    {s1 : ASig α} (h1 : Denotes s1 0 (rhoD cfg w φ)) :
    Denotes (backScan pmax Val.ninf s1) 0 (rhoD cfg w (.tmp1 .ev φ)) := by
  obtain ⟨hwf, hv⟩ := backScan_max_spec h1
  refine ⟨hwf, fun t ht => ?_⟩
  obtain ⟨v, e1, l1⟩ := hv t ht
  obtain ⟨_, _, ⟨v', e2, l2⟩, _⟩ := C04_unbounded cfg hs w φ hsup hw t (by rw [hd]; exact ht)
  exact opt_lub_eq' e1 l1 e2 l2

include hs in
theorem alw_denotes (φ : F α) (hsup : supported φ = true) (hw : w.WF φ.vars) (hd : dom w φ = 0)
    {s1 : ASig α} (h1 : Denotes s1 0 (rhoD cfg w φ)) :
    Denotes (backScan pmin Val.pinf s1) 0 (rhoD cfg w (.tmp1 .alw φ)) := by
  obtain ⟨hwf, hv⟩ := backScan_min_spec h1
  refine ⟨hwf, fun t ht => ?_⟩
  obtain ⟨v, e1, l1⟩ := hv t ht
  obtain ⟨_, _, _, ⟨v', e2, l2⟩⟩ := C04_unbounded cfg hs w φ hsup hw t (by rw [hd]; exact ht)
  exact opt_glb_eq' e1 l1 e2 l2

include hs in
theorem since_denotes (φ ψ : F α) (hsφ : supported φ = true) (hsψ : supported ψ = true)
    (hw : w.WF (φ.vars ++ ψ.vars)) (hdφ : dom w φ = 0) (hdψ : dom w ψ = 0) {l r : ASig α}
    (h1 : Denotes l 0 (rhoD cfg w φ)) (h2 : Denotes r 0 (rhoD cfg w ψ)) :
    ∃ out, sinceOp l r = .ok out ∧ Denotes out 0 (rhoD cfg w (.tmp2 .since φ ψ)) := by
  obtain ⟨out, ho, hwf, hv⟩ := sinceOp_spec h1 h2
  rw [max_self] at hwf hv
  refine ⟨out, ho, hwf, fun t ht => ?_⟩
  obtain ⟨v, e1, l1⟩ := hv t ht
  have C := C04_until_since cfg hs w φ ψ hsφ hsψ hw t (by rw [hdφ, hdψ, max_self]; exact ht)
  rw [hdφ, hdψ, max_self] at C
  obtain ⟨_, ⟨v', e2, l2⟩⟩ := C
  exact opt_lub_eq' e1 l1 e2 l2

include hs in
theorem until_denotes (φ ψ : F α) (hsφ : supported φ = true) (hsψ : supported ψ = true)
    (hw : w.WF (φ.vars ++ ψ.vars)) (hdφ : dom w φ = 0) (hdψ : dom w ψ = 0) {l r : ASig α}
    (h1 : Denotes l 0 (rhoD cfg w φ)) (h2 : Denotes r 0 (rhoD cfg w ψ)) :
    ∃ out, untilOp l r = .ok out ∧ Denotes out 0 (rhoD cfg w (.tmp2 .until φ ψ)) := by
  obtain ⟨out, ho, hwf, hv⟩ := untilOp_spec h1 h2
  rw [max_self] at hwf hv
  refine ⟨out, ho, hwf, fun t ht => ?_⟩
  obtain ⟨v, e1, l1⟩ := hv t ht
  rw [untilSet_none] at l1
  obtain ⟨⟨v', e2, l2⟩, _⟩ :=
    C04_until_since cfg hs w φ ψ hsφ hsψ hw t (by rw [hdφ, hdψ, max_self]; exact ht)
  exact opt_lub_eq' e1 l1 e2 l2

include hs in
theorem onceT_denotes (a b : Nat) (hab : a ≤ b) (φ : F α) (hsup : supported φ = true) (hw : w.WF φ.vars)
    (hd : dom w φ = 0) {s1 : ASig α} (h1 : Denotes s1 0 (rhoD cfg w φ)) :
    ∃ out, onceTimed s1 ((a : Rat) * cfg.scale) ((b : Rat) * cfg.scale) = .ok out ∧
      Denotes out 0 (rhoD cfg w (.tb1 .once a b φ)) := by
  obtain ⟨ha', hab'⟩ := scale_bounds cfg hs hab
  obtain ⟨out, ho, hwf, hv⟩ := onceTimed_spec h1 _ _ ha' hab'
  refine ⟨out, ho, hwf, fun t ht => ?_⟩
  obtain ⟨k1, k2⟩ := hv t ht
  have C := C04_once_bounded cfg hs w a b hab φ hsup hw t (by rw [hd]; exact ht)
  rw [hd] at C
  obtain ⟨c1, c2⟩ := C
  by_cases h : t - (a : Rat) * cfg.scale < 0
  · rw [k1 h, (c1 h).1]
  · have h' := not_lt.1 h
    obtain ⟨v, e1, l1⟩ := k2 h'
    obtain ⟨⟨v', e2, l2⟩, _⟩ := c2 h'
    exact opt_lub_eq' e1 l1 e2 l2

include hs in
theorem histT_denotes (a b : Nat) (hab : a ≤ b) (φ : F α) (hsup : supported φ = true) (hw : w.WF φ.vars)
    (hd : dom w φ = 0) {s1 : ASig α} (h1 : Denotes s1 0 (rhoD cfg w φ)) :
    ∃ out, histTimed s1 ((a : Rat) * cfg.scale) ((b : Rat) * cfg.scale) = .ok out ∧
      Denotes out 0 (rhoD cfg w (.tb1 .hist a b φ)) := by
  obtain ⟨ha', hab'⟩ := scale_bounds cfg hs hab
  obtain ⟨out, ho, hwf, hv⟩ := histTimed_spec h1 _ _ ha' hab'
  refine ⟨out, ho, hwf, fun t ht => ?_⟩
  obtain ⟨k1, k2⟩ := hv t ht
  have C := C04_once_bounded cfg hs w a b hab φ hsup hw t (by rw [hd]; exact ht)
  rw [hd] at C
  obtain ⟨c1, c2⟩ := C
  by_cases h : t - (a : Rat) * cfg.scale < 0
  · rw [k1 h, (c1 h).2]
  · have h' := not_lt.1 h
    obtain ⟨v, e1, l1⟩ := k2 h'
    obtain ⟨_, ⟨v', e2, l2⟩⟩ := c2 h'
    exact opt_glb_eq' e1 l1 e2 l2

include hs in
theorem evT_denotes (a b : Nat) (hab : a ≤ b) (φ : F α) (hsup : supported φ = true) (hw : w.WF φ.vars)
    (hd : dom w φ = 0) {s1 : ASig α} (h1 : Denotes s1 0 (rhoD cfg w φ)) :
    ∃ out, evTimed s1 ((a : Rat) * cfg.scale) ((b : Rat) * cfg.scale) = .ok out ∧
      Denotes out 0 (rhoD cfg w (.tb1 .ev a b φ)) := by
  obtain ⟨ha', hab'⟩ := scale_bounds cfg hs hab
  obtain ⟨out, ho, hwf, hv⟩ := evTimed_spec h1 _ _ ha' hab'
  refine ⟨out, ho, hwf, fun t ht => ?_⟩
  obtain ⟨v, e1, l1⟩ := hv t ht
  obtain ⟨⟨v', e2, l2⟩, _⟩ := C04_eventually_bounded cfg hs w a b hab φ hsup hw t (by rw [hd]; exact ht)
  exact opt_lub_eq' e1 l1 e2 l2

include hs in
theorem alwT_denotes (a b : Nat) (hab : a ≤ b) (φ : F α) (hsup : supported φ = true) (hw : w.WF φ.vars)
    (hd : dom w φ = 0) {s1 : ASig α} (h1 : Denotes s1 0 (rhoD cfg w φ)) :
    ∃ out, alwTimed s1 ((a : Rat) * cfg.scale) ((b : Rat) * cfg.scale) = .ok out ∧
      Denotes out 0 (rhoD cfg w (.tb1 .alw a b φ)) := by
  obtain ⟨ha', hab'⟩ := scale_bounds cfg hs hab
  obtain ⟨out, ho, hwf, hv⟩ := alwTimed_spec h1 _ _ ha' hab'
  refine ⟨out, ho, hwf, fun t ht => ?_⟩
  obtain ⟨v, e1, l1⟩ := hv t ht
  obtain ⟨_, ⟨v', e2, l2⟩⟩ := C04_eventually_bounded cfg hs w a b hab φ hsup hw t (by rw [hd]; exact ht)
  exact opt_glb_eq' e1 l1 e2 l2

include hs in
theorem sinceT_denotes (a b : Nat) (hab : a ≤ b) (φ ψ : F α) (hsφ : supported φ = true)
    (hsψ : supported ψ = true) (hw : w.WF (φ.vars ++ ψ.vars)) (hdφ : dom w φ = 0) (hdψ : dom w ψ = 0)
    {l r : ASig α} (h1 : Denotes l 0 (rhoD cfg w φ)) (h2 : Denotes r 0 (rhoD cfg w ψ)) :
    ∃ out, sinceTimed l r ((a : Rat) * cfg.scale) ((b : Rat) * cfg.scale) = .ok out ∧
      Denotes out 0 (rhoD cfg w (.tb2 .since a b φ ψ)) := by
  obtain ⟨ha', hab'⟩ := scale_bounds cfg hs hab
  obtain ⟨out, ho, hwf, hv⟩ := sinceTimed_spec h1 h2 _ _ ha' hab'
  refine ⟨out, ho, hwf, fun t ht => ?_⟩
  obtain ⟨k1, k2⟩ := hv t ht
  have C := C04_until_since_bounded cfg hs w a b hab φ ψ hsφ hsψ hw t (by rw [hdφ, hdψ, max_self]; exact ht)
  rw [hdφ, hdψ, max_self] at C
  obtain ⟨_, c1, c2⟩ := C
  by_cases h : t - (a : Rat) * cfg.scale < 0
  · rw [k1 h, c1 h]
  · have h' := not_lt.1 h
    obtain ⟨v, e1, l1⟩ := k2 h'
    obtain ⟨v', e2, l2⟩ := c2 h'
    exact opt_lub_eq' e1 l1 e2 l2

include hs in
theorem untilT_denotes (a b : Nat) (hab : a ≤ b) (φ ψ : F α) (hsφ : supported φ = true)
    (hsψ : supported ψ = true) (hw : w.WF (φ.vars ++ ψ.vars)) (hdφ : dom w φ = 0) (hdψ : dom w ψ = 0)
    {l r : ASig α} (h1 : Denotes l 0 (rhoD cfg w φ)) (h2 : Denotes r 0 (rhoD cfg w ψ)) :
    ∃ out, untilTimed l r ((a : Rat) * cfg.scale) ((b : Rat) * cfg.scale) = .ok out ∧
      Denotes out 0 (rhoD cfg w (.tb2 .until a b φ ψ)) := by
  obtain ⟨ha', hab'⟩ := scale_bounds cfg hs hab
  obtain ⟨out, ho, hwf, hv⟩ := untilTimed_spec h1 h2 _ _ ha' hab'
  refine ⟨out, ho, hwf, fun t ht => ?_⟩
  obtain ⟨v, e1, l1⟩ := hv t ht
  obtain ⟨⟨v', e2, l2⟩, _⟩ :=
    C04_until_since_bounded cfg hs w a b hab φ ψ hsφ hsψ hw t (by rw [hdφ, hdψ, max_self]; exact ht)
  exact opt_lub_eq' e1 l1 e2 l2

end nodes

/-- No exception, and the result is well formed from 0 (no `hsub` needed). -/
theorem evalAlg_ok_wfa (cfg : DCfg) (hs : 0 ≤ cfg.scale) (w : DEnv α) (φ : F α)
    (hsup : supported φ = true) (hia : noIA φ = true) (hnp : noPartialOps φ = true)
    (hw : w.WF φ.vars) (h0 : StartsAt0 w φ.vars) :
    ∃ s, evalAlg cfg w φ = .ok s ∧ WFA s 0 := by
  induction φ with
  | var x =>
    obtain ⟨hne, hp⟩ := hw x (by simp [F.vars])
    have h0x := h0 x (by simp [F.vars])
    cases hl : w.lookup x with
    | none => exact absurd (by simp [DEnv.sig, hl]) hne
    | some s' =>
      have e : w.sig x = s' := by simp [DEnv.sig, hl]
      rw [e] at hp h0x
      exact ⟨ofDSig s', by simp only [evalAlg, hl], (ofDSig_denotes s' hp h0x).1⟩
  | const c => exact ⟨_, by simp only [evalAlg], (const_denotes c).1⟩
  | un op φ ih =>
    simp only [supported] at hsup
    simp only [noIA] at hia
    simp only [noPartialOps, Bool.and_eq_true] at hnp
    simp only [F.vars] at hw h0
    obtain ⟨s1, e1, h1⟩ := ih hsup hia hnp.2 hw h0
    have hop : op ≠ .sqrt ∧ op ≠ .ln := by
      have := hnp.1
      cases op <;> simp at this ⊢
    obtain ⟨out, ho⟩ := mapUn_ok op hop s1
    refine ⟨out, ?_, (mapUn_spec op (denotes_self h1) ho).1⟩
    simp only [evalAlg]
    rw [bind_ok_eq e1]; exact ho
  | bin op φ ψ ih1 ih2 =>
    simp only [supported, Bool.and_eq_true] at hsup
    simp only [noIA, Bool.and_eq_true] at hia
    simp only [noPartialOps, Bool.and_eq_true] at hnp
    simp only [F.vars] at hw h0
    obtain ⟨l, e1, h1⟩ := ih1 hsup.1 hia.1.2 hnp.1 (wf_left hw) (startsAt0_left h0)
    obtain ⟨r, e2, h2⟩ := ih2 hsup.2 hia.2 hnp.2 (wf_right hw) (startsAt0_right h0)
    simp only [evalAlg]
    rw [bind_ok_eq e1, bind_ok_eq e2]
    by_cases hp : ∃ c, op = .pred c
    · obtain ⟨c, rfl⟩ := hp
      obtain ⟨out, ho, hD⟩ := predicate_spec c (denotes_self h1) (denotes_self h2)
      rw [max_self] at hD
      exact ⟨out, ho, hD.1⟩
    · have hop : ∀ c, op ≠ .pred c := fun c h => hp ⟨c, h⟩
      obtain ⟨out, ho, hD⟩ := inter_spec (binMethod op) vne (fun a b h => (vne_eq_false_iff a b).1 h) h1 h2
      rw [max_self] at hD
      refine ⟨out, ?_, hD.1⟩
      cases op <;> first | exact ho | exact absurd rfl (hop _) | exact absurd hia.1.1 (by simp)
  | tmp1 op φ ih =>
    simp only [supported, Bool.and_eq_true] at hsup
    simp only [noIA] at hia
    simp only [noPartialOps] at hnp
    simp only [F.vars] at hw h0
    obtain ⟨s1, e1, h1⟩ := ih hsup.2 hia hnp hw h0
    simp only [evalAlg]
    rw [bind_ok_eq e1]
    cases op with
    | once => exact ⟨_, rfl, (fwdScan_max_spec (denotes_self h1)).1⟩
    | hist => exact ⟨_, rfl, (fwdScan_min_spec (denotes_self h1)).1⟩
    | ev => exact ⟨_, rfl, (backScan_max_spec (denotes_self h1)).1⟩
    | alw => exact ⟨_, rfl, (backScan_min_spec (denotes_self h1)).1⟩
    | _ => exact absurd hsup.1 (by simp)
  | tmp2 op φ ψ ih1 ih2 =>
    simp only [supported, Bool.and_eq_true] at hsup
    simp only [noIA, Bool.and_eq_true] at hia
    simp only [noPartialOps, Bool.and_eq_true] at hnp
    simp only [F.vars] at hw h0
    obtain ⟨l, e1, h1⟩ := ih1 hsup.1 hia.1 hnp.1 (wf_left hw) (startsAt0_left h0)
    obtain ⟨r, e2, h2⟩ := ih2 hsup.2 hia.2 hnp.2 (wf_right hw) (startsAt0_right h0)
    simp only [evalAlg]
    rw [bind_ok_eq e1, bind_ok_eq e2]
    cases op with
    | since =>
      obtain ⟨out, ho, hwf, _⟩ := sinceOp_spec (denotes_self h1) (denotes_self h2)
      rw [max_self] at hwf
      exact ⟨out, ho, hwf⟩
    | «until» =>
      obtain ⟨out, ho, hwf, _⟩ := untilOp_spec (denotes_self h1) (denotes_self h2)
      rw [max_self] at hwf
      exact ⟨out, ho, hwf⟩
  | tb1 op a b φ ih =>
    simp only [supported, Bool.and_eq_true, decide_eq_true_eq] at hsup
    simp only [noIA] at hia
    simp only [noPartialOps] at hnp
    simp only [F.vars] at hw h0
    obtain ⟨s1, e1, h1⟩ := ih hsup.2 hia hnp hw h0
    obtain ⟨ha', hab'⟩ := scale_bounds cfg hs hsup.1
    simp only [evalAlg]
    rw [bind_ok_eq e1]
    cases op with
    | once =>
      obtain ⟨out, ho, hwf, _⟩ := onceTimed_spec (denotes_self h1) _ _ ha' hab'
      exact ⟨out, ho, hwf⟩
    | hist =>
      obtain ⟨out, ho, hwf, _⟩ := histTimed_spec (denotes_self h1) _ _ ha' hab'
      exact ⟨out, ho, hwf⟩
    | ev =>
      obtain ⟨out, ho, hwf, _⟩ := evTimed_spec (denotes_self h1) _ _ ha' hab'
      exact ⟨out, ho, hwf⟩
    | alw =>
      obtain ⟨out, ho, hwf, _⟩ := alwTimed_spec (denotes_self h1) _ _ ha' hab'
      exact ⟨out, ho, hwf⟩
  | tb2 op a b φ ψ ih1 ih2 =>
    simp only [supported, Bool.and_eq_true, decide_eq_true_eq] at hsup
    simp only [noIA, Bool.and_eq_true] at hia
    simp only [noPartialOps, Bool.and_eq_true] at hnp
    simp only [F.vars] at hw h0
    obtain ⟨⟨⟨hop, hab⟩, hs1⟩, hs2⟩ := hsup
    obtain ⟨l, e1, h1⟩ := ih1 hs1 hia.1 hnp.1 (wf_left hw) (startsAt0_left h0)
    obtain ⟨r, e2, h2⟩ := ih2 hs2 hia.2 hnp.2 (wf_right hw) (startsAt0_right h0)
    obtain ⟨ha', hab'⟩ := scale_bounds cfg hs hab
    simp only [evalAlg]
    rw [bind_ok_eq e1, bind_ok_eq e2]
    cases op with
    | since =>
      obtain ⟨out, ho, hwf, _⟩ := sinceTimed_spec (denotes_self h1) (denotes_self h2) _ _ ha' hab'
      exact ⟨out, ho, hwf⟩
    | «until» =>
      obtain ⟨out, ho, hwf, _⟩ := untilTimed_spec (denotes_self h1) (denotes_self h2) _ _ ha' hab'
      exact ⟨out, ho, hwf⟩
    | precedes => exact absurd hop (by simp)

end MainAux

/-- The result of the mirror of the dense offline visitor denotes `rhoD`. -/
theorem evalAlg_denotes_partial (cfg : DCfg) (hs : 0 ≤ cfg.scale) (w : DEnv α) (φ : F α)
    (hsup : supported φ = true) (hia : noIA φ = true) (hw : w.WF φ.vars) (h0 : StartsAt0 w φ.vars)
    (hsub : ∀ a b : α, Val.neg (Val.sub a b) = Val.sub b a)
    {s : ASig α} (he : evalAlg cfg w φ = .ok s) : Denotes s 0 (rhoD cfg w φ) := by
  induction φ generalizing s with
  | var x =>
    obtain ⟨hne, hp⟩ := hw x (by simp [F.vars])
    have h0x := h0 x (by simp [F.vars])
    simp only [evalAlg] at he
    cases hl : w.lookup x with
    | none => rw [hl] at he; cases he
    | some s' =>
      rw [hl] at he
      cases he
      have e : w.sig x = s' := by simp [DEnv.sig, hl]
      rw [e] at hp h0x
      have hD := MainAux.ofDSig_denotes s' hp h0x
      have e2 : rhoD cfg w (.var x) = DSig.valAt s' := by
        funext t; simp only [rhoD, e]
      rw [e2]; exact hD
  | const c =>
    simp only [evalAlg] at he
    cases he
    exact MainAux.const_denotes c
  | un op φ ih =>
    simp only [supported] at hsup
    simp only [noIA] at hia
    simp only [F.vars] at hw h0
    simp only [evalAlg] at he
    obtain ⟨s1, e1, he⟩ := MainAux.bind_ok he
    exact MainAux.un_denotes cfg w op φ (ih hsup hia hw h0 e1) he
  | bin op φ ψ ih1 ih2 =>
    simp only [supported, Bool.and_eq_true] at hsup
    simp only [noIA, Bool.and_eq_true] at hia
    simp only [F.vars] at hw h0
    simp only [evalAlg] at he
    obtain ⟨l, e1, he⟩ := MainAux.bind_ok he
    obtain ⟨r, e2, he⟩ := MainAux.bind_ok he
    have h1 := ih1 hsup.1 hia.1.2 (MainAux.wf_left hw) (MainAux.startsAt0_left h0) e1
    have h2 := ih2 hsup.2 hia.2 (MainAux.wf_right hw) (MainAux.startsAt0_right h0) e2
    by_cases hp : ∃ c, op = .pred c
    · obtain ⟨c, rfl⟩ := hp
      obtain ⟨out, ho, hD⟩ := MainAux.pred_denotes cfg w hsub c φ ψ h1 h2
      cases (ho.symm.trans he); exact hD
    · have hop : ∀ c, op ≠ .pred c := fun c h => hp ⟨c, h⟩
      obtain ⟨out, ho, hD⟩ := MainAux.bin_denotes cfg w op hop φ ψ h1 h2
      have he' : inter (binMethod op) vne l r = .ok s := by
        cases op <;> first | exact he | exact absurd rfl (hop _) | exact absurd hia.1.1 (by simp)
      cases (ho.symm.trans he'); exact hD
  | tmp1 op φ ih =>
    simp only [supported, Bool.and_eq_true] at hsup
    simp only [noIA] at hia
    simp only [F.vars] at hw h0
    simp only [evalAlg] at he
    obtain ⟨s1, e1, he⟩ := MainAux.bind_ok he
    have h1 := ih hsup.2 hia hw h0 e1
    have hd := MainAux.dom_zero w φ h0
    cases op with
    | once => cases he; exact MainAux.once_denotes cfg hs w φ hsup.2 hw hd h1
    | hist => cases he; exact MainAux.hist_denotes cfg hs w φ hsup.2 hw hd h1
    | ev => cases he; exact MainAux.ev_denotes cfg hs w φ hsup.2 hw hd h1
    | alw => cases he; exact MainAux.alw_denotes cfg hs w φ hsup.2 hw hd h1
    | _ => exact absurd hsup.1 (by simp)
  | tmp2 op φ ψ ih1 ih2 =>
    simp only [supported, Bool.and_eq_true] at hsup
    simp only [noIA, Bool.and_eq_true] at hia
    simp only [F.vars] at hw h0
    simp only [evalAlg] at he
    obtain ⟨l, e1, he⟩ := MainAux.bind_ok he
    obtain ⟨r, e2, he⟩ := MainAux.bind_ok he
    have h1 := ih1 hsup.1 hia.1 (MainAux.wf_left hw) (MainAux.startsAt0_left h0) e1
    have h2 := ih2 hsup.2 hia.2 (MainAux.wf_right hw) (MainAux.startsAt0_right h0) e2
    have hd1 := MainAux.dom_zero w φ (MainAux.startsAt0_left h0)
    have hd2 := MainAux.dom_zero w ψ (MainAux.startsAt0_right h0)
    cases op with
    | since =>
      obtain ⟨out, ho, hD⟩ := MainAux.since_denotes cfg hs w φ ψ hsup.1 hsup.2 hw hd1 hd2 h1 h2
      cases (ho.symm.trans he); exact hD
    | «until» =>
      obtain ⟨out, ho, hD⟩ := MainAux.until_denotes cfg hs w φ ψ hsup.1 hsup.2 hw hd1 hd2 h1 h2
      cases (ho.symm.trans he); exact hD
  | tb1 op a b φ ih =>
    simp only [supported, Bool.and_eq_true, decide_eq_true_eq] at hsup
    simp only [noIA] at hia
    simp only [F.vars] at hw h0
    simp only [evalAlg] at he
    obtain ⟨s1, e1, he⟩ := MainAux.bind_ok he
    have h1 := ih hsup.2 hia hw h0 e1
    have hd := MainAux.dom_zero w φ h0
    cases op with
    | once =>
      obtain ⟨out, ho, hD⟩ := MainAux.onceT_denotes cfg hs w a b hsup.1 φ hsup.2 hw hd h1
      cases (ho.symm.trans he); exact hD
    | hist =>
      obtain ⟨out, ho, hD⟩ := MainAux.histT_denotes cfg hs w a b hsup.1 φ hsup.2 hw hd h1
      cases (ho.symm.trans he); exact hD
    | ev =>
      obtain ⟨out, ho, hD⟩ := MainAux.evT_denotes cfg hs w a b hsup.1 φ hsup.2 hw hd h1
      cases (ho.symm.trans he); exact hD
    | alw =>
      obtain ⟨out, ho, hD⟩ := MainAux.alwT_denotes cfg hs w a b hsup.1 φ hsup.2 hw hd h1
      cases (ho.symm.trans he); exact hD
  | tb2 op a b φ ψ ih1 ih2 =>
    simp only [supported, Bool.and_eq_true, decide_eq_true_eq] at hsup
    simp only [noIA, Bool.and_eq_true] at hia
    simp only [F.vars] at hw h0
    simp only [evalAlg] at he
    obtain ⟨l, e1, he⟩ := MainAux.bind_ok he
    obtain ⟨r, e2, he⟩ := MainAux.bind_ok he
    obtain ⟨⟨⟨hop, hab⟩, hs1⟩, hs2⟩ := hsup
    have h1 := ih1 hs1 hia.1 (MainAux.wf_left hw) (MainAux.startsAt0_left h0) e1
    have h2 := ih2 hs2 hia.2 (MainAux.wf_right hw) (MainAux.startsAt0_right h0) e2
    have hd1 := MainAux.dom_zero w φ (MainAux.startsAt0_left h0)
    have hd2 := MainAux.dom_zero w ψ (MainAux.startsAt0_right h0)
    cases op with
    | since =>
      obtain ⟨out, ho, hD⟩ := MainAux.sinceT_denotes cfg hs w a b hab φ ψ hs1 hs2 hw hd1 hd2 h1 h2
      cases (ho.symm.trans he); exact hD
    | «until» =>
      obtain ⟨out, ho, hD⟩ := MainAux.untilT_denotes cfg hs w a b hab φ ψ hs1 hs2 hw hd1 hd2 h1 h2
      cases (ho.symm.trans he); exact hD
    | precedes => exact absurd hop (by simp)

/-- It raises nothing (without `sqrt` / `ln`). -/
theorem evalAlg_ok_partial (cfg : DCfg) (hs : 0 ≤ cfg.scale) (w : DEnv α) (φ : F α)
    (hsup : supported φ = true) (hia : noIA φ = true) (hnp : noPartialOps φ = true)
    (hw : w.WF φ.vars) (h0 : StartsAt0 w φ.vars) :
    ∃ s, evalAlg cfg w φ = .ok s := by
  obtain ⟨s, he, _⟩ := MainAux.evalAlg_ok_wfa cfg hs w φ hsup hia hnp hw h0
  exact ⟨s, he⟩

/-- C04 on the mirror of the list algorithms: non-decreasing (indeed strictly increasing) time stamps, starts at the
    beginning of the common input domain, equals the dense semantics at every time of the domain. -/
theorem C04_alg_eq_rhoD_partial (cfg : DCfg) (hs : 0 ≤ cfg.scale) (w : DEnv α) (φ : F α)
    (hsup : supported φ = true) (hia : noIA φ = true) (hnp : noPartialOps φ = true)
    (hw : w.WF φ.vars) (h0 : StartsAt0 w φ.vars)
    (hsub : ∀ a b : α, Val.neg (Val.sub a b) = Val.sub b a) :
    ∃ s, evalAlg cfg w φ = .ok s ∧ Sorted s ∧ (times s).head? = some (Tm.fin (dom w φ)) ∧
      ∀ t, dom w φ ≤ t → valAtA s t = rhoD cfg w φ t := by
  obtain ⟨s, he⟩ := evalAlg_ok_partial cfg hs w φ hsup hia hnp hw h0
  obtain ⟨hwf, hv⟩ := evalAlg_denotes_partial cfg hs w φ hsup hia hw h0 hsub he
  rw [MainAux.dom_zero w φ h0]
  exact ⟨s, he, hwf.sorted, hwf.start, hv⟩

/-- Non-vacuity: the hypotheses of the three theorems hold for a concrete environment and formula
    (`once[0,1] x` over the two-sample signal `x = [(0, c1), (1, c2)]`), for every value type. -/
example (c1 c2 : α) :
    let w : DEnv α := [("x", [(0, c1), (1, c2)])]
    let φ : F α := .tb1 .once 0 1 (.var "x")
    supported φ = true ∧ noIA φ = true ∧ noPartialOps φ = true ∧ w.WF φ.vars ∧ StartsAt0 w φ.vars := by
  intro w φ
  refine ⟨by simp [φ, supported], by simp [φ, noIA], by simp [φ, noPartialOps], ?_, ?_⟩
  · intro x hx
    have hx' : x = "x" := by simpa [φ, F.vars] using hx
    subst hx'
    simp [w, DEnv.sig, DSig.times, List.lookup]
  · intro x hx
    have hx' : x = "x" := by simpa [φ, F.vars] using hx
    subst hx'
    simp [w, DEnv.sig, DSig.times, List.lookup]

/-- … so the conclusion of `C04_alg_eq_rhoD_partial` holds for it (given `hsub`). -/
example (c1 c2 : α) (hsub : ∀ a b : α, Val.neg (Val.sub a b) = Val.sub b a) :
    let w : DEnv α := [("x", [(0, c1), (1, c2)])]
    let φ : F α := .tb1 .once 0 1 (.var "x")
    ∃ s, evalAlg {} w φ = .ok s ∧ Sorted s ∧ (times s).head? = some (Tm.fin (dom w φ)) ∧
      ∀ t, dom w φ ≤ t → valAtA s t = rhoD {} w φ t := by
  intro w φ
  have hx : ∀ x, x ∈ φ.vars → x = "x" := fun x hx => by simpa [φ, F.vars] using hx
  refine C04_alg_eq_rhoD_partial {} (by decide) w φ (by simp [φ, supported]) (by simp [φ, noIA])
    (by simp [φ, noPartialOps]) ?_ ?_ hsub
  · intro x h
    rw [hx x h]
    simp [w, DEnv.sig, DSig.times, List.lookup]
  · intro x h
    rw [hx x h]
    simp [w, DEnv.sig, DSig.times, List.lookup]

end Rtamt.Dense.Alg
