/-
  C06 on the dense offline algorithm: the interface-aware (IA) robustness semantics.  The IA visitors override
  `visitPredicate`: an insensitive predicate evaluates to `+inf` / `-inf` by the satisfaction of the comparison, computed from
  the difference `left - right` (`satOfDiff`), at the positions where the ROBUSTNESS value changes (`predicateIA`,
  `Rtamt/Dense/Alg.lean`).  On the formula with the insensitive predicates replaced (`iaT`, `Bin.predSat`) the mirror of
  the dense offline visitor returns the dense semantics of that formula.

  `hcmp` relates the satisfaction computed from the difference to the comparison of the operands (`Cmp.holds`): true of
  reals and of doubles unless `l - r` is NaN.
-/
import RtamtProofs.Dense.AlgMain
import Rtamt.Discrete.IA

namespace Rtamt.Dense.Alg
open Rtamt Val Rtamt.Dense
variable {α : Type} [Val α] [LawfulVal α]

/-- No vacuity form (`predZero`: its positions depend on the comparison operator, which the constructor does not carry). -/
def noVac : F α → Bool
  | .var _ => true
  | .const _ => true
  | .un _ φ => noVac φ
  | .bin op φ ψ => (match op with | .predZero => false | _ => true) && noVac φ && noVac ψ
  | .tmp1 _ φ => noVac φ
  | .tmp2 _ φ ψ => noVac φ && noVac ψ
  | .tb1 _ _ _ φ => noVac φ
  | .tb2 _ _ _ φ ψ => noVac φ && noVac ψ

namespace IAAux
open InterAux
attribute [local instance] InterAux.tmOrder
set_option linter.unusedSectionVars false

variable {β γ : Type}

/-! ### the keyed output loop `dedupGoK` -/

omit [LawfulVal α] in
theorem dedupGoK_cons2 (key : γ → α) (prev : Option α) (p q : Tm × γ) (rest : List (Tm × γ)) :
    dedupGoK key prev (p :: q :: rest) =
      (if (match prev with | none => true | some x => vne (key p.2) x) then [p] else []) ++
        dedupGoK key (some (key p.2)) (q :: rest) := rfl

omit [LawfulVal α] in
/-- The loop commutes with a map of the payload. -/
theorem dedupGoK_map {δ : Type} (key : γ → α) (f : δ → γ) (prev : Option α) (s : List (Tm × δ)) :
    dedupGoK key prev (s.map (fun p => (p.1, f p.2))) =
      (dedupGoK (fun x => key (f x)) prev s).map (fun p => (p.1, f p.2)) := by
  induction s generalizing prev with
  | nil => rfl
  | cons a l ih =>
    cases l with
    | nil => rfl
    | cons b l =>
      have ih' := ih (some (key (f a.2)))
      simp only [List.map_cons] at ih' ⊢
      rw [dedupGoK_cons2, dedupGoK_cons2, ih', List.map_append]
      split_ifs <;> rfl

omit [LawfulVal α] in
theorem dedupGoK_ne_nil (key : γ → α) (prev : Option α) (a : Tm × γ) (l : List (Tm × γ)) :
    dedupGoK key prev (a :: l) ≠ [] := by
  induction l generalizing prev a with
  | nil => simp [dedupGoK]
  | cons b l ih =>
    rw [dedupGoK_cons2]
    intro h
    exact ih _ _ (List.append_eq_nil_iff.1 h).2

omit [LawfulVal α] in
theorem dedupGoK_sublist (key : γ → α) (prev : Option α) (s : List (Tm × γ)) :
    (dedupGoK key prev s).Sublist s := by
  induction s generalizing prev with
  | nil => simp [dedupGoK]
  | cons a l ih =>
    cases l with
    | nil => simp [dedupGoK]
    | cons b l =>
      rw [dedupGoK_cons2]
      split_ifs
      · exact (ih _).cons_cons a
      · exact (ih _).cons a

/-- Dropping the samples whose KEY repeats does not change the function `o ∘ value`, provided equal keys give equal
    `o` (on the values `P` that occur). -/
theorem dedupGoK_val (key : γ → α) (o : γ → β) (P : γ → Prop)
    (hko : ∀ x y, P x → P y → key x = key y → o x = o y) (x : γ) (hx : P x) (s : List (Tm × γ))
    (hs : Sorted s) (hP : ∀ p ∈ s, P p.2) (t : Rat) :
    o ((valAtA (dedupGoK key (some (key x)) s) t).getD x) = o ((valAtA s t).getD x) := by
  induction s generalizing x with
  | nil => simp [dedupGoK]
  | cons a l ih =>
    cases l with
    | nil => simp [dedupGoK]
    | cons b l =>
      obtain ⟨τ, v⟩ := a
      have hv : P v := hP (τ, v) (by simp)
      rw [dedupGoK_cons2]
      have ih' := ih v hv (sorted_tail hs) (fun p hp => hP p (List.mem_cons_of_mem _ hp))
      by_cases hk : vne (key v) (key x) = true
      · simp only [hk, if_true, List.singleton_append, valAtA_cons τ]
        by_cases hτ : Tm.fin t < τ
        · simp only [if_pos hτ]
        · simp only [if_neg hτ, Option.getD_some]
          exact ih'
      · have hkx : key v = key x := (vne_eq_false_iff _ _).1 (by simpa using hk)
        have hvx : o v = o x := hko v x hv hx hkx
        simp only [hk, Bool.false_eq_true, if_false, List.nil_append]
        rw [valAtA_cons τ]
        by_cases hτ : Tm.fin t < τ
        · rw [if_pos hτ]
          obtain ⟨c, w⟩ := b
          have hnone : valAtA ((c, w) :: l) t = none := by
            rw [valAtA_cons c, if_pos (lt_trans hτ (sorted_head_lt hs))]
          have e := ih'
          rw [hnone] at e
          -- both sides fall back to the default
          have e1 : ∀ (z : Option γ), o (z.getD v) = o (none.getD v) → o (z.getD x) = o (none.getD x) := by
            intro z hz
            cases z with
            | none => rfl
            | some y => simpa [hvx] using hz
          exact e1 _ e
        · rw [if_neg hτ]
          simp only [Option.getD_some]
          have e2 : ∀ (z : Option γ), o (z.getD v) = o ((valAtA (b :: l) t).getD v) →
              o (z.getD x) = o ((valAtA (b :: l) t).getD v) := by
            intro z hz
            cases z with
            | none => simpa [hvx] using hz
            | some y => simpa using hz
          exact e2 _ ih'

theorem dedupGoK_infOK (key : γ → α) (o : γ → β) (P : γ → Prop)
    (hko : ∀ x y, P x → P y → key x = key y → o x = o y) (τ0 : Tm) (x : γ) (hx : P x)
    (s : List (Tm × γ)) (hP : ∀ p ∈ s, P p.2)
    (h : InfOK (((τ0, x) :: s).map (fun p => (p.1, o p.2)))) :
    InfOK (((τ0, x) :: dedupGoK key (some (key x)) s).map (fun p => (p.1, o p.2))) := by
  induction s generalizing τ0 x with
  | nil => simpa [dedupGoK] using h
  | cons a l ih =>
    cases l with
    | nil => simpa [dedupGoK] using h
    | cons b l =>
      obtain ⟨τ, v⟩ := a
      have hv : P v := hP (τ, v) (by simp)
      have hP' : ∀ p ∈ b :: l, P p.2 := fun p hp => hP p (List.mem_cons_of_mem _ hp)
      rw [dedupGoK_cons2]
      simp only [List.map_cons] at h
      rw [infOK_cons3] at h
      by_cases hk : vne (key v) (key x) = true
      · simp only [hk, if_true, List.singleton_append]
        have := ih τ v hv hP' (by simpa only [List.map_cons] using h)
        cases hd : dedupGoK key (some (key v)) (b :: l) with
        | nil => exact absurd hd (dedupGoK_ne_nil _ _ _ _)
        | cons c r =>
          rw [hd] at this
          simp only [List.map_cons] at this ⊢
          rw [infOK_cons3]; exact this
      · have hkx : key v = key x := (vne_eq_false_iff _ _).1 (by simpa using hk)
        have hvx : o v = o x := hko v x hv hx hkx
        simp only [hk, Bool.false_eq_true, if_false, List.nil_append]
        have := ih τ0 v hv hP' (by
          simp only [List.map_cons]
          exact (infOK_head_congr τ τ0 (o v) _).1 h)
        simp only [List.map_cons] at this ⊢
        rw [← hvx]; exact this

/-! ### the values of a sample list are values of the function it denotes -/

omit [Val α] [LawfulVal α] in
theorem valAtA_none_of_lt (s : ASig β) (hs : Sorted s) (t : Rat) (h : ∀ τ ∈ times s, Tm.fin t < τ) :
    valAtA s t = none := by
  cases s with
  | nil => rfl
  | cons a l =>
    obtain ⟨τ, v⟩ := a
    rw [valAtA_cons, if_pos (h τ (by simp [times]))]

omit [Val α] [LawfulVal α] in
/-- A sorted list has, at a finite stamp of its own, the value of that sample. -/
theorem valAtA_at_stamp (s : ASig β) (hs : Sorted s) (τ : Rat) (v : β) (hm : (Tm.fin τ, v) ∈ s) :
    valAtA s τ = some v := by
  induction s with
  | nil => simp at hm
  | cons a l ih =>
    obtain ⟨τ0, v0⟩ := a
    have hp := (sorted_iff _).1 hs
    rw [times_cons, List.pairwise_cons] at hp
    rcases List.mem_cons.1 hm with e | hm'
    · obtain ⟨rfl, rfl⟩ := Prod.mk.inj e
      rw [valAtA_cons, if_neg (lt_irrefl _), valAtA_none_of_lt l (sorted_tail hs) τ hp.1]
      rfl
    · have hlt : τ0 < Tm.fin τ := hp.1 _ (by simp only [times, List.mem_map]; exact ⟨_, hm', rfl⟩)
      rw [valAtA_cons, if_neg (not_lt.2 hlt.le), ih (sorted_tail hs) hm']
      rfl

omit [Val α] [LawfulVal α] in
theorem mem_values_of_denotes {s : ASig β} {d : Rat} {g : Rat → Option β} (h : Denotes s d g) (p : Tm × β)
    (hp : p ∈ s) : ∃ t, g t = some p.2 := by
  obtain ⟨⟨hs, hst, hi⟩, hval⟩ := h
  -- a sample with a finite stamp
  have fin_case : ∀ (τ : Rat) (v : β), (Tm.fin τ, v) ∈ s → ∃ t, g t = some v := by
    intro τ v hm
    have hd : d ≤ τ := by
      cases s with
      | nil => simp at hm
      | cons a l =>
        obtain ⟨τ0, v0⟩ := a
        have e0 : τ0 = Tm.fin d := by simpa [times] using hst
        subst e0
        rcases List.mem_cons.1 hm with e | hm'
        · cases e; exact le_rfl
        · have hp' := (sorted_iff _).1 hs
          rw [times_cons, List.pairwise_cons] at hp'
          have := hp'.1 (Tm.fin τ) (by simp only [times, List.mem_map]; exact ⟨_, hm', rfl⟩)
          exact ((fin_lt_fin _ _).1 this).le
    exact ⟨τ, by rw [← hval τ hd, valAtA_at_stamp s hs τ v hm]⟩
  obtain ⟨τp, v⟩ := p
  cases τp with
  | fin τ => exact fin_case τ v hp
  | inf =>
    -- the sample stamped `inf` is the last one, and not the first: it repeats the sample before it
    obtain ⟨l1, l2, rfl⟩ := List.append_of_mem hp
    have hp' := (sorted_iff _).1 hs
    have hl2 : l2 = [] := by
      cases l2 with
      | nil => rfl
      | cons b l2 =>
        exfalso
        rw [times_append, List.pairwise_append] at hp'
        have := hp'.2.1
        rw [times_cons, List.pairwise_cons] at this
        have h' := this.1 b.1 (by simp [times])
        exact absurd h' (not_lt.2 (le_inf _))
    subst hl2
    rcases List.eq_nil_or_concat l1 with rfl | ⟨init, a, rfl⟩
    · simp [times] at hst
    · rw [List.concat_eq_append] at hi hp' hp fin_case
      have hav : a.2 = v := hi init a v (by simp)
      obtain ⟨τa, va⟩ := a
      simp only at hav
      subst hav
      cases τa with
      | fin τ => exact fin_case τ va (by simp)
      | inf =>
        exfalso
        rw [times_append, List.pairwise_append] at hp'
        have := hp'.2.2 Tm.inf (by simp [times]) Tm.inf (by simp [times])
        exact lt_irrefl _ this

/-! ### equal robustness, equal satisfaction -/

omit [LawfulVal α] in
theorem satOfDiff_eq_of_hcmp (hcmp : ∀ (c : Cmp) (a b : α), satOfDiff c (Val.sub a b) = c.holds a b) (a b : α) :
    satOfDiff .eq (Val.sub a b) = !Val.lt Val.zero (Val.abs (Val.sub a b)) := by
  have h1 := hcmp .eq a b
  have h2 := hcmp .ne a b
  simp only [Cmp.holds] at h1 h2
  have h3 : satOfDiff .ne (Val.sub a b) = Val.lt Val.zero (Val.abs (Val.sub a b)) := rfl
  rw [h1, ← h3, h2, Bool.not_or]

/-- `hcmp` gives: on differences, the robustness value determines the satisfaction. -/
theorem hkey_of_hcmp (hcmp : ∀ (c : Cmp) (a b : α), satOfDiff c (Val.sub a b) = c.holds a b) (c : Cmp)
    (a b a' b' : α) (h : cmpOfDiff c (Val.sub a b) = cmpOfDiff c (Val.sub a' b')) :
    satOfDiff c (Val.sub a b) = satOfDiff c (Val.sub a' b') := by
  have hneg : ∀ x y : α, Val.neg x = Val.neg y → x = y := by
    intro x y hxy
    rw [← LawfulVal.neg_neg x, hxy, LawfulVal.neg_neg]
  cases c with
  | eq =>
    simp only [cmpOfDiff] at h
    rw [satOfDiff_eq_of_hcmp hcmp, satOfDiff_eq_of_hcmp hcmp, hneg _ _ h]
  | ne =>
    simp only [cmpOfDiff] at h
    simp only [satOfDiff, h]
  | le => simp only [cmpOfDiff] at h; rw [hneg _ _ h]
  | lt => simp only [cmpOfDiff] at h; rw [hneg _ _ h]
  | ge => simp only [cmpOfDiff] at h; rw [h]
  | gt => simp only [cmpOfDiff] at h; rw [h]

/-- `iaT` under a robustness semantics never produces the vacuity form. -/
theorem noVac_iaT (sem : Sem) (inputs : List String) (hsem : sem = .outRob ∨ sem = .inRob ∨ sem = .standard)
    (φ : F α) (hv : noVac φ = true) : noVac (iaT sem inputs φ) = true := by
  induction φ with
  | var x => rfl
  | const c => rfl
  | un op φ ih => simp only [noVac] at hv; simpa only [iaT, noVac] using ih hv
  | bin op φ ψ ih1 ih2 =>
    simp only [noVac, Bool.and_eq_true] at hv
    have i1 := ih1 hv.1.2
    have i2 := ih2 hv.2
    cases op with
    | pred c =>
      simp only [iaT]
      split_ifs with hins
      · rcases hsem with rfl | rfl | rfl
        · simp only [noVac, i1, i2, Bool.and_self]
        · simp only [noVac, i1, i2, Bool.and_self]
        · simp [insensitive] at hins
      · simp only [noVac, i1, i2, Bool.and_self]
    | predZero => exact absurd hv.1.1 (by simp)
    | _ => simp only [iaT, noVac, i1, i2, Bool.and_self]
  | tmp1 op φ ih => simp only [noVac] at hv; simpa only [iaT, noVac] using ih hv
  | tmp2 op φ ψ ih1 ih2 =>
    simp only [noVac, Bool.and_eq_true] at hv
    simp only [iaT, noVac, ih1 hv.1, ih2 hv.2, Bool.and_self]
  | tb1 op a b φ ih => simp only [noVac] at hv; simpa only [iaT, noVac] using ih hv
  | tb2 op a b φ ψ ih1 ih2 =>
    simp only [noVac, Bool.and_eq_true] at hv
    simp only [iaT, noVac, ih1 hv.1, ih2 hv.2, Bool.and_self]

end IAAux

section
open InterAux
attribute [local instance] InterAux.tmOrder

/-- The interface-aware `visitPredicate` for an insensitive predicate (robustness semantics).  `hkey`: on differences
    `l - r`, equal robustness values have equal satisfaction (the output loop is keyed by the robustness); it follows from
    `hcmp` (`IAAux.hkey_of_hcmp`), and is needed for `==` only (an arbitrary `Val.abs` may identify `0` with another
    difference). -/
theorem predicateIA_spec (c : Cmp) {l r : ASig α} {d1 d2 : Rat} {g1 g2 : Rat → Option α}
    (hkey : ∀ a b a' b' : α, cmpOfDiff c (Val.sub a b) = cmpOfDiff c (Val.sub a' b') →
      satOfDiff c (Val.sub a b) = satOfDiff c (Val.sub a' b'))
    (h1 : Denotes l d1 g1) (h2 : Denotes r d2 g2) :
    ∃ out, predicateIA c (fun b => if b then Val.pinf else Val.ninf) l r = .ok out ∧
      Denotes out (max d1 d2)
        (lift2 (fun a b => if satOfDiff c (Val.sub a b) then (Val.pinf : α) else Val.ninf) g1 g2) := by
  obtain ⟨dd, hd, hden⟩ := inter_denotes (fun a b : α => Val.sub a b) vne
    (fun a b => (vne_eq_false_iff a b).1) h1 h2
  let o : α → α := fun v => if satOfDiff c v then (Val.pinf : α) else Val.ninf
  let P : α → Prop := fun v => ∃ a b, v = Val.sub a b
  have hko : ∀ x y, P x → P y → cmpOfDiff c x = cmpOfDiff c y → o x = o y := by
    rintro x y ⟨a, b, rfl⟩ ⟨a', b', rfl⟩ hxy
    show (if _ then _ else _) = (if _ then _ else _)
    rw [hkey a b a' b' hxy]
  have hP : ∀ p ∈ dd, P p.2 := by
    intro p hp
    obtain ⟨t, ht⟩ := IAAux.mem_values_of_denotes hden p hp
    unfold lift2 at ht
    cases e1 : g1 t with
    | none => simp [e1] at ht
    | some a =>
      cases e2 : g2 t with
      | none => simp [e1, e2] at ht
      | some b =>
        simp only [e1, e2, Option.some.injEq] at ht
        exact ⟨a, b, ht.symm⟩
  -- the output list
  have eout : predicateIA c (fun b => if b then Val.pinf else Val.ninf) l r =
      .ok ((dedupGoK (cmpOfDiff c) none dd).map (fun p => (p.1, o p.2))) := by
    unfold predicateIA
    rw [hd]
    show Except.ok _ = Except.ok _
    congr 1
    rw [IAAux.dedupGoK_map (fun x : α × Bool => x.1) (fun v => (cmpOfDiff c v, satOfDiff c v)), List.map_map]
    rfl
  refine ⟨_, eout, ?_⟩
  -- the un-deduplicated list denotes the function
  have hfull : Denotes (dd.map (fun p => (p.1, o p.2))) (max d1 d2)
      (lift2 (fun a b => if satOfDiff c (Val.sub a b) then (Val.pinf : α) else Val.ninf) g1 g2) := by
    refine denotes_congr (map_spec o hden) ?_
    intro t _
    unfold lift2
    cases g1 t <;> cases g2 t <;> rfl
  obtain ⟨⟨hs, hst, hi⟩, hval⟩ := hfull
  obtain ⟨⟨hsd, _, _⟩, _⟩ := hden
  cases dd with
  | nil => exact ⟨⟨hs, hst, hi⟩, hval⟩
  | cons a l' =>
    cases l' with
    | nil => exact ⟨⟨hs, hst, hi⟩, hval⟩
    | cons b l' =>
      obtain ⟨τ, v⟩ := a
      have hv : P v := hP (τ, v) (by simp)
      have hP' : ∀ p ∈ b :: l', P p.2 := fun p hp => hP p (List.mem_cons_of_mem _ hp)
      have e : dedupGoK (cmpOfDiff c) none ((τ, v) :: b :: l') =
          (τ, v) :: dedupGoK (cmpOfDiff c) (some (cmpOfDiff c v)) (b :: l') := by
        rw [IAAux.dedupGoK_cons2]; rfl
      rw [e]
      refine ⟨⟨?_, ?_, IAAux.dedupGoK_infOK (cmpOfDiff c) o P hko τ v hv _ hP' hi⟩, ?_⟩
      · have : (((τ, v) :: dedupGoK (cmpOfDiff c) (some (cmpOfDiff c v)) (b :: l')).map
            (fun p => (p.1, o p.2))).Sublist (((τ, v) :: b :: l').map (fun p => (p.1, o p.2))) :=
          ((IAAux.dedupGoK_sublist _ _ _).cons_cons _).map _
        exact List.Pairwise.sublist (this.map _) hs
      · exact hst
      · intro t ht
        have e1 : ∀ L : ASig α, valAtA (((τ, v) :: L).map (fun p => (p.1, o p.2))) t =
            if Tm.fin t < τ then none else some (o ((valAtA L t).getD v)) := by
          intro L
          rw [List.map_cons, valAtA_cons, valAtA_map, Option.getD_map]
        rw [← hval t ht, e1, e1, IAAux.dedupGoK_val (cmpOfDiff c) o P hko v hv _ (sorted_tail hsd) hP' t]

end

/-- `evalAlg_denotes_partial` with insensitive predicates (`predSat`) allowed. -/
theorem evalAlg_denotes_ia_partial (cfg : DCfg) (hs : 0 ≤ cfg.scale) (w : DEnv α) (φ : F α)
    (hsup : supported φ = true) (hv : noVac φ = true) (hw : w.WF φ.vars) (h0 : StartsAt0 w φ.vars)
    (hsub : ∀ a b : α, Val.neg (Val.sub a b) = Val.sub b a)
    (hcmp : ∀ (c : Cmp) (a b : α), satOfDiff c (Val.sub a b) = c.holds a b)
    {s : ASig α} (he : evalAlg cfg w φ = .ok s) : Denotes s 0 (rhoD cfg w φ) := by
  induction φ generalizing s with
  | var x =>
    obtain ⟨hne, hp⟩ := hw x (by simp [F.vars])
    have h0x := h0 x (by simp [F.vars])
    simp only [evalAlg] at he
    cases hl : w.lookup x with
    | none => rw [hl] at he; cases he
    | some s' =>
      rw [hl] at he
      cases he
      have e : w.sig x = s' := by simp [DEnv.sig, hl]
      rw [e] at hp h0x
      have hD := MainAux.ofDSig_denotes s' hp h0x
      have e2 : rhoD cfg w (.var x) = DSig.valAt s' := by
        funext t; simp only [rhoD, e]
      rw [e2]; exact hD
  | const c =>
    simp only [evalAlg] at he
    cases he
    exact MainAux.const_denotes c
  | un op φ ih =>
    simp only [supported] at hsup
    simp only [noVac] at hv
    simp only [F.vars] at hw h0
    simp only [evalAlg] at he
    obtain ⟨s1, e1, he⟩ := MainAux.bind_ok he
    exact MainAux.un_denotes cfg w op φ (ih hsup hv hw h0 e1) he
  | bin op φ ψ ih1 ih2 =>
    simp only [supported, Bool.and_eq_true] at hsup
    simp only [noVac, Bool.and_eq_true] at hv
    simp only [F.vars] at hw h0
    simp only [evalAlg] at he
    obtain ⟨l, e1, he⟩ := MainAux.bind_ok he
    obtain ⟨r, e2, he⟩ := MainAux.bind_ok he
    have h1 := ih1 hsup.1 hv.1.2 (MainAux.wf_left hw) (MainAux.startsAt0_left h0) e1
    have h2 := ih2 hsup.2 hv.2 (MainAux.wf_right hw) (MainAux.startsAt0_right h0) e2
    by_cases hp : ∃ c, op = .pred c
    · obtain ⟨c, rfl⟩ := hp
      obtain ⟨out, ho, hD⟩ := MainAux.pred_denotes cfg w hsub c φ ψ h1 h2
      cases (ho.symm.trans he); exact hD
    by_cases hp2 : ∃ c, op = .predSat c
    · obtain ⟨c, rfl⟩ := hp2
      obtain ⟨out, ho, hD⟩ := predicateIA_spec c (IAAux.hkey_of_hcmp hcmp c) h1 h2
      have e : (fun a b : α => if satOfDiff c (Val.sub a b) then (Val.pinf : α) else Val.ninf) =
          (Bin.predSat c).app := by
        funext a b; simp only [Bin.app, hcmp]
      rw [max_self, e, MainAux.lift2_bin] at hD
      cases (ho.symm.trans he); exact hD
    · have hop : ∀ c, op ≠ .pred c := fun c h => hp ⟨c, h⟩
      have hop2 : ∀ c, op ≠ .predSat c := fun c h => hp2 ⟨c, h⟩
      obtain ⟨out, ho, hD⟩ := MainAux.bin_denotes cfg w op hop φ ψ h1 h2
      have he' : inter (binMethod op) vne l r = .ok s := by
        cases op <;>
          (first | exact he | exact absurd rfl (hop _) | exact absurd rfl (hop2 _) | exact absurd hv.1.1 (by simp))
      cases (ho.symm.trans he'); exact hD
  | tmp1 op φ ih =>
    simp only [supported, Bool.and_eq_true] at hsup
    simp only [noVac] at hv
    simp only [F.vars] at hw h0
    simp only [evalAlg] at he
    obtain ⟨s1, e1, he⟩ := MainAux.bind_ok he
    have h1 := ih hsup.2 hv hw h0 e1
    have hd := MainAux.dom_zero w φ h0
    cases op with
    | once => cases he; exact MainAux.once_denotes cfg hs w φ hsup.2 hw hd h1
    | hist => cases he; exact MainAux.hist_denotes cfg hs w φ hsup.2 hw hd h1
    | ev => cases he; exact MainAux.ev_denotes cfg hs w φ hsup.2 hw hd h1
    | alw => cases he; exact MainAux.alw_denotes cfg hs w φ hsup.2 hw hd h1
    | _ => exact absurd hsup.1 (by simp)
  | tmp2 op φ ψ ih1 ih2 =>
    simp only [supported, Bool.and_eq_true] at hsup
    simp only [noVac, Bool.and_eq_true] at hv
    simp only [F.vars] at hw h0
    simp only [evalAlg] at he
    obtain ⟨l, e1, he⟩ := MainAux.bind_ok he
    obtain ⟨r, e2, he⟩ := MainAux.bind_ok he
    have h1 := ih1 hsup.1 hv.1 (MainAux.wf_left hw) (MainAux.startsAt0_left h0) e1
    have h2 := ih2 hsup.2 hv.2 (MainAux.wf_right hw) (MainAux.startsAt0_right h0) e2
    have hd1 := MainAux.dom_zero w φ (MainAux.startsAt0_left h0)
    have hd2 := MainAux.dom_zero w ψ (MainAux.startsAt0_right h0)
    cases op with
    | since =>
      obtain ⟨out, ho, hD⟩ := MainAux.since_denotes cfg hs w φ ψ hsup.1 hsup.2 hw hd1 hd2 h1 h2
      cases (ho.symm.trans he); exact hD
    | «until» =>
      obtain ⟨out, ho, hD⟩ := MainAux.until_denotes cfg hs w φ ψ hsup.1 hsup.2 hw hd1 hd2 h1 h2
      cases (ho.symm.trans he); exact hD
  | tb1 op a b φ ih =>
    simp only [supported, Bool.and_eq_true, decide_eq_true_eq] at hsup
    simp only [noVac] at hv
    simp only [F.vars] at hw h0
    simp only [evalAlg] at he
    obtain ⟨s1, e1, he⟩ := MainAux.bind_ok he
    have h1 := ih hsup.2 hv hw h0 e1
    have hd := MainAux.dom_zero w φ h0
    cases op with
    | once =>
      obtain ⟨out, ho, hD⟩ := MainAux.onceT_denotes cfg hs w a b hsup.1 φ hsup.2 hw hd h1
      cases (ho.symm.trans he); exact hD
    | hist =>
      obtain ⟨out, ho, hD⟩ := MainAux.histT_denotes cfg hs w a b hsup.1 φ hsup.2 hw hd h1
      cases (ho.symm.trans he); exact hD
    | ev =>
      obtain ⟨out, ho, hD⟩ := MainAux.evT_denotes cfg hs w a b hsup.1 φ hsup.2 hw hd h1
      cases (ho.symm.trans he); exact hD
    | alw =>
      obtain ⟨out, ho, hD⟩ := MainAux.alwT_denotes cfg hs w a b hsup.1 φ hsup.2 hw hd h1
      cases (ho.symm.trans he); exact hD
  | tb2 op a b φ ψ ih1 ih2 =>
    simp only [supported, Bool.and_eq_true, decide_eq_true_eq] at hsup
    simp only [noVac, Bool.and_eq_true] at hv
    simp only [F.vars] at hw h0
    simp only [evalAlg] at he
    obtain ⟨l, e1, he⟩ := MainAux.bind_ok he
    obtain ⟨r, e2, he⟩ := MainAux.bind_ok he
    obtain ⟨⟨⟨hop, hab⟩, hs1⟩, hs2⟩ := hsup
    have h1 := ih1 hs1 hv.1 (MainAux.wf_left hw) (MainAux.startsAt0_left h0) e1
    have h2 := ih2 hs2 hv.2 (MainAux.wf_right hw) (MainAux.startsAt0_right h0) e2
    have hd1 := MainAux.dom_zero w φ (MainAux.startsAt0_left h0)
    have hd2 := MainAux.dom_zero w ψ (MainAux.startsAt0_right h0)
    cases op with
    | since =>
      obtain ⟨out, ho, hD⟩ := MainAux.sinceT_denotes cfg hs w a b hab φ ψ hs1 hs2 hw hd1 hd2 h1 h2
      cases (ho.symm.trans he); exact hD
    | «until» =>
      obtain ⟨out, ho, hD⟩ := MainAux.untilT_denotes cfg hs w a b hab φ ψ hs1 hs2 hw hd1 hd2 h1 h2
      cases (ho.symm.trans he); exact hD
    | precedes => exact absurd hop (by simp)

/-- C06, dense offline, robustness semantics: the algorithm on the transformed formula returns its dense semantics. -/
theorem C06_alg_dense_offline_partial (cfg : DCfg) (hs : 0 ≤ cfg.scale) (w : DEnv α) (sem : Sem) (inputs : List String)
    (φ : F α) (hsem : sem = .outRob ∨ sem = .inRob ∨ sem = .standard)
    (hsup : supported (iaT sem inputs φ) = true) (hv : noVac φ = true)
    (hw : w.WF (iaT sem inputs φ).vars) (h0 : StartsAt0 w (iaT sem inputs φ).vars)
    (hsub : ∀ a b : α, Val.neg (Val.sub a b) = Val.sub b a)
    (hcmp : ∀ (c : Cmp) (a b : α), satOfDiff c (Val.sub a b) = c.holds a b)
    {s : ASig α} (he : evalAlg cfg w (iaT sem inputs φ) = .ok s) :
    Denotes s 0 (rhoD cfg w (iaT sem inputs φ)) :=
  evalAlg_denotes_ia_partial cfg hs w (iaT sem inputs φ) hsup (IAAux.noVac_iaT sem inputs hsem φ hv) hw h0 hsub hcmp he

end Rtamt.Dense.Alg
