/-
  Dense time, M-alg = M-spec: the running-extremum loops (`fwdScan`, `backScan`) and the unbounded
  `since` / `until` (`sinceOp`, `untilOp`) of `Rtamt/Dense/Alg.lean`.
-/
import RtamtProofs.Dense.AlgDefs
import RtamtProofs.Dense.AlgInter
import Mathlib.Order.Bounds.Basic
import Mathlib.Tactic.Linarith
import Mathlib.Tactic.Tauto

namespace Rtamt.Dense.Alg
open Rtamt Val

namespace ScanAux

variable {β : Type}

/-! ### time stamps -/

theorem lt_fin_fin (a b : Rat) : Tm.lt (.fin a) (.fin b) = true ↔ a < b := by simp [Tm.lt]

theorem lt_inf_left (x : Tm) : Tm.lt .inf x = false := by cases x <;> rfl

theorem lt_fin_inf (a : Rat) : Tm.lt (.fin a) .inf = true := rfl

theorem lt_self (x : Tm) : Tm.lt x x = false := by cases x <;> simp [Tm.lt]

theorem fin_of_lt {a b : Tm} (h : Tm.lt a b = true) : ∃ q, a = .fin q := by
  cases a with
  | fin q => exact ⟨q, rfl⟩
  | inf => rw [lt_inf_left] at h; cases h

theorem lt_trans {a b c : Tm} (h1 : Tm.lt a b = true) (h2 : Tm.lt b c = true) : Tm.lt a c = true := by
  cases a with
  | inf => rw [lt_inf_left] at h1; cases h1
  | fin x =>
    cases b with
    | inf => rw [lt_inf_left] at h2; cases h2
    | fin y =>
      cases c with
      | inf => rfl
      | fin z => rw [lt_fin_fin] at *; linarith

/-- `t < τ` is downward closed in `t`. -/
theorem lt_fin_mono {s s' : Rat} {τ : Tm} (h : Tm.lt (.fin s) τ = true) (hs : s' ≤ s) :
    Tm.lt (.fin s') τ = true := by
  cases τ with
  | inf => rfl
  | fin z => rw [lt_fin_fin] at *; linarith

/-- a stamp that is not after a finite time is finite -/
theorem fin_of_not_lt {t : Rat} {τ : Tm} (h : ¬ Tm.lt (.fin t) τ = true) : ∃ d, τ = .fin d ∧ d ≤ t := by
  cases τ with
  | inf => exact absurd rfl h
  | fin d => exact ⟨d, rfl, by rw [lt_fin_fin] at h; linarith⟩

/-! ### `valAtA` on a list -/

theorem valAtA_cons (τ : Tm) (v : β) (rest : ASig β) (t : Rat) :
    valAtA ((τ, v) :: rest) t = if Tm.lt (.fin t) τ = true then none else some ((valAtA rest t).getD v) := by
  simp only [valAtA]
  split
  · rfl
  · cases valAtA rest t <;> rfl

theorem valAtA_nil (t : Rat) : valAtA ([] : ASig β) t = none := rfl

/-- Whether the list is defined at `t` depends on the first stamp only. -/
theorem valAtA_cons_none_iff (τ : Tm) (v : β) (rest : ASig β) (t : Rat) :
    valAtA ((τ, v) :: rest) t = none ↔ Tm.lt (.fin t) τ = true := by
  rw [valAtA_cons]; split <;> simp [*]

theorem sorted_cons {τ : Tm} {v : β} {rest : ASig β} :
    Sorted ((τ, v) :: rest) ↔ (∀ p ∈ rest, Tm.lt τ p.1 = true) ∧ Sorted rest := by
  simp [Sorted, times, List.pairwise_cons]

theorem sorted_nil : Sorted ([] : ASig β) := by simp [Sorted, times]

/-- K4: undefined at `s`, undefined before. -/
theorem none_mono {l : ASig β} {s s' : Rat} (h : valAtA l s = none) (hs : s' ≤ s) : valAtA l s' = none := by
  cases l with
  | nil => rfl
  | cons p rest =>
    obtain ⟨τ, v⟩ := p
    rw [valAtA_cons_none_iff] at *
    exact lt_fin_mono h hs

theorem some_mono {l : ASig β} {s s' : Rat} (h : valAtA l s ≠ none) (hs : s ≤ s') : valAtA l s' ≠ none :=
  fun h' => h (none_mono h' hs)

/-- K1 -/
theorem cons_of_some {τ : Tm} {q : β} {rest : ASig β} (hs : Sorted ((τ, q) :: rest)) {s : Rat} {p : β}
    (h : valAtA rest s = some p) : valAtA ((τ, q) :: rest) s = some p := by
  cases rest with
  | nil => cases h
  | cons x r =>
    obtain ⟨τ', q'⟩ := x
    have h1 : ¬ Tm.lt (.fin s) τ' = true := by
      intro hh; rw [← valAtA_cons_none_iff τ' q' r] at hh; rw [hh] at h; cases h
    have h2 : Tm.lt τ τ' = true := (sorted_cons.1 hs).1 (τ', q') (by simp)
    have h3 : ¬ Tm.lt (.fin s) τ = true := fun hh => h1 (lt_trans hh h2)
    rw [valAtA_cons, if_neg h3, h]; rfl

/-- K2 -/
theorem cons_of_none {τ : Tm} {q : β} {rest : ASig β} {s : Rat}
    (h : valAtA rest s = none) (hτ : ¬ Tm.lt (.fin s) τ = true) : valAtA ((τ, q) :: rest) s = some q := by
  rw [valAtA_cons, if_neg hτ, h]; rfl

/-- K3 -/
theorem cons_cases {τ : Tm} {q : β} {rest : ASig β} {s : Rat} {p : β}
    (h : valAtA ((τ, q) :: rest) s = some p) :
    valAtA rest s = some p ∨ (valAtA rest s = none ∧ p = q) := by
  rw [valAtA_cons] at h
  split at h
  · cases h
  · cases hr : valAtA rest s with
    | none => rw [hr] at h; right; exact ⟨rfl, by simpa using h.symm⟩
    | some w => rw [hr] at h; left; simpa using h

theorem not_lt_of_some {τ : Tm} {q : β} {rest : ASig β} {s : Rat}
    (h : valAtA ((τ, q) :: rest) s ≠ none) : ¬ Tm.lt (.fin s) τ = true :=
  fun hh => h ((valAtA_cons_none_iff τ q rest s).2 hh)

/-- K6 -/
theorem rest_none_at_head {d : Rat} {q : β} {rest : ASig β} (hs : Sorted ((Tm.fin d, q) :: rest)) :
    valAtA rest d = none := by
  cases rest with
  | nil => rfl
  | cons x r =>
    obtain ⟨τ', q'⟩ := x
    rw [valAtA_cons_none_iff]
    exact (sorted_cons.1 hs).1 (τ', q') (by simp)

theorem head_at_head {d : Rat} {q : β} {rest : ASig β} (hs : Sorted ((Tm.fin d, q) :: rest)) :
    valAtA ((Tm.fin d, q) :: rest) d = some q :=
  cons_of_none (rest_none_at_head hs) (by rw [lt_self]; simp)

/-- If the tail is defined at `s`, the list agrees with the tail at `s`. -/
theorem cons_eq_rest {τ : Tm} {q : β} {rest : ASig β} (hs : Sorted ((τ, q) :: rest)) {s : Rat}
    (h : valAtA rest s ≠ none) : valAtA ((τ, q) :: rest) s = valAtA rest s := by
  cases hr : valAtA rest s with
  | none => exact absurd hr h
  | some w => exact cons_of_some hs hr

theorem valAtA_mem {l : ASig β} {s : Rat} {p : β} (h : valAtA l s = some p) : ∃ τ, (τ, p) ∈ l := by
  induction l with
  | nil => cases h
  | cons x rest ih =>
    obtain ⟨τ, q⟩ := x
    rcases cons_cases h with h1 | ⟨_, rfl⟩
    · obtain ⟨τ', hm⟩ := ih h1
      exact ⟨τ', List.mem_cons_of_mem _ hm⟩
    · exact ⟨τ, by simp⟩

theorem wfa_cons {l : ASig β} {d : Rat} (h : WFA l d) : ∃ q rest, l = (Tm.fin d, q) :: rest := by
  cases l with
  | nil => have := h.start; simp [times] at this
  | cons x rest =>
    obtain ⟨τ, q⟩ := x
    have := h.start
    simp only [times, List.map_cons, List.head?_cons, Option.some.injEq] at this
    subst this
    exact ⟨q, rest, rfl⟩

theorem wfa_some {l : ASig β} {d : Rat} (h : WFA l d) {t : Rat} (ht : d ≤ t) : valAtA l t ≠ none := by
  obtain ⟨q, rest, rfl⟩ := wfa_cons h
  rw [Ne, valAtA_cons_none_iff, lt_fin_fin]
  intro hh; linarith

theorem wfa_none {l : ASig β} {d : Rat} (h : WFA l d) {t : Rat} (ht : t < d) : valAtA l t = none := by
  obtain ⟨q, rest, rfl⟩ := wfa_cons h
  rw [valAtA_cons_none_iff, lt_fin_fin]
  exact ht

/-- `Denotes` with the function read off the list. -/
theorem denotes_self {l : ASig β} {d : Rat} (h : WFA l d) : Denotes l d (valAtA l) := ⟨h, fun _ _ => rfl⟩

/-! ### `InfOK` -/

/-- Recursive form of `InfOK` (for sorted lists): a sample stamped `inf` repeats the value of the sample before it. -/
def InfOKr : ASig β → Prop
  | a :: b :: rest => (b.1 = Tm.inf → a.2 = b.2) ∧ InfOKr (b :: rest)
  | _ => True

theorem infOKr_tail {a : Tm × β} {rest : ASig β} (h : InfOKr (a :: rest)) : InfOKr rest := by
  cases rest with
  | nil => trivial
  | cons b r => exact h.2

theorem infOK_of_infOKr : ∀ {l : ASig β}, InfOKr l → InfOK l := by
  intro l h pre
  induction pre generalizing l with
  | nil => intro a v e; subst e; exact h.1 rfl
  | cons x pre ih =>
    intro a v e
    subst e
    exact ih (infOKr_tail h) a v rfl

theorem sorted_inf_last {τ : Tm} {q : β} {v : β} {r : ASig β} (hs : Sorted ((τ, q) :: (Tm.inf, v) :: r)) : r = [] := by
  rw [List.eq_nil_iff_forall_not_mem]
  intro p hp
  have := (sorted_cons.1 (sorted_cons.1 hs).2).1 p hp
  rw [lt_inf_left] at this; cases this

theorem infOKr_of_infOK : ∀ {l : ASig β}, Sorted l → InfOK l → InfOKr l
  | [], _, _ => trivial
  | [_], _, _ => trivial
  | (τ, q) :: (τ', v) :: rest, hs, h => by
    refine ⟨fun e => ?_, infOKr_of_infOK (l := (τ', v) :: rest) (sorted_cons.1 hs).2
      (fun pre a w e => h ((τ, q) :: pre) a w (by rw [e]; rfl))⟩
    simp only at e
    subst e
    have hr := sorted_inf_last hs
    subst hr
    exact h [] (τ, q) v rfl

/-- Lists without a stamp `inf`. -/
theorem infOK_of_fin {l : ASig β} (h : ∀ p ∈ l, p.1 ≠ Tm.inf) : InfOK l := by
  intro pre a v e
  exact absurd rfl (h (Tm.inf, v) (by rw [e]; simp))

/-- A list with the same time stamps is well formed too. -/
theorem wfa_of_times {γ : Type} {l : ASig β} {l' : ASig γ} {d : Rat} (h : WFA l d) (e : times l' = times l)
    (hi : InfOK l') : WFA l' d :=
  ⟨by unfold Sorted; rw [e]; exact h.sorted, by rw [e]; exact h.start, hi⟩

variable {α : Type}

/-! ### the forward running extremum -/

theorem go_cons (comb : α → α → α) (acc : α) (τ : Tm) (v : α) (rest : ASig α) :
    fwdScan.go comb acc ((τ, v) :: rest) = (τ, comb v acc) :: fwdScan.go comb (comb v acc) rest := rfl

theorem times_go (comb : α → α → α) (acc : α) (l : ASig α) : times (fwdScan.go comb acc l) = times l := by
  induction l generalizing acc with
  | nil => rfl
  | cons x rest ih =>
    obtain ⟨τ, v⟩ := x
    rw [go_cons]
    simp only [times, List.map_cons] at *
    rw [ih]

theorem go_none_iff (comb : α → α → α) (acc : α) (l : ASig α) (t : Rat) :
    valAtA (fwdScan.go comb acc l) t = none ↔ valAtA l t = none := by
  cases l with
  | nil => exact Iff.rfl
  | cons x rest =>
    obtain ⟨τ, v⟩ := x
    rw [go_cons, valAtA_cons_none_iff, valAtA_cons_none_iff]

theorem infOKr_go (comb : α → α → α) (hidem : ∀ a b, comb a (comb a b) = comb a b) :
    ∀ (l : ASig α) (acc : α), InfOKr l → InfOKr (fwdScan.go comb acc l)
  | [], _, _ => trivial
  | [_], _, _ => trivial
  | (τ, a) :: (τ', b) :: rest, acc, h => by
    refine ⟨fun e => ?_, infOKr_go comb hidem ((τ', b) :: rest) (comb a acc) h.2⟩
    have : a = b := h.1 e
    subst this
    exact (hidem a acc).symm

theorem wfa_go (comb : α → α → α) (hidem : ∀ a b, comb a (comb a b) = comb a b) (acc : α) {l : ASig α} {d : Rat}
    (h : WFA l d) : WFA (fwdScan.go comb acc l) d :=
  wfa_of_times h (times_go _ _ _) (infOK_of_infOKr (infOKr_go comb hidem l acc (infOKr_of_infOK h.sorted h.infok)))

/-- The running `comb`: at `t` its value is bounded (in the sense of `R`) exactly by the bounds of `acc` and of all
    values taken up to `t`. -/
theorem fwd_char (R : α → α → Prop) (comb : α → α → α) (hcomb : ∀ c a b, R c (comb a b) ↔ R c a ∧ R c b) :
    ∀ (l : ASig α), Sorted l → ∀ (acc : α) (t : Rat), valAtA l t ≠ none →
      ∃ v, valAtA (fwdScan.go comb acc l) t = some v ∧
        ∀ c, R c v ↔ R c acc ∧ ∀ s y, s ≤ t → valAtA l s = some y → R c y := by
  intro l
  induction l with
  | nil => intro _ acc t h; exact absurd rfl h
  | cons x rest ih =>
    obtain ⟨τ, x⟩ := x
    intro hs acc t hne
    have hτ := not_lt_of_some hne
    obtain ⟨d, rfl, hdt⟩ := fin_of_not_lt hτ
    cases hr : valAtA rest t with
    | none =>
      refine ⟨comb x acc, ?_, ?_⟩
      · rw [go_cons]
        exact cons_of_none ((go_none_iff _ _ _ _).2 hr) hτ
      · intro c
        rw [hcomb]
        constructor
        · rintro ⟨h1, h2⟩
          refine ⟨h2, fun s y hst hy => ?_⟩
          rcases cons_cases hy with h3 | ⟨_, rfl⟩
          · rw [none_mono hr hst] at h3; cases h3
          · exact h1
        · rintro ⟨h1, h2⟩
          exact ⟨h2 t x le_rfl (cons_of_none hr hτ), h1⟩
    | some w =>
      have hrn : valAtA rest t ≠ none := by rw [hr]; simp
      obtain ⟨v, hv, hc⟩ := ih (sorted_cons.1 hs).2 (comb x acc) t hrn
      refine ⟨v, ?_, ?_⟩
      · rw [go_cons]
        apply cons_of_some _ hv
        rw [sorted_cons]
        refine ⟨?_, ?_⟩
        · intro p hp
          have : p.1 ∈ times rest := by
            rw [← times_go comb (comb x acc)]; exact List.mem_map_of_mem hp
          obtain ⟨p', hp', e⟩ := List.mem_map.1 this
          rw [← e]; exact (sorted_cons.1 hs).1 p' hp'
        · unfold Sorted; rw [times_go]; exact (sorted_cons.1 hs).2
      · intro c
        rw [hc, hcomb]
        constructor
        · rintro ⟨⟨h1, h2⟩, h3⟩
          refine ⟨h2, fun s y hst hy => ?_⟩
          rcases cons_cases hy with h4 | ⟨_, rfl⟩
          · exact h3 s y hst h4
          · exact h1
        · rintro ⟨h1, h2⟩
          exact ⟨⟨h2 d x hdt (head_at_head hs), h1⟩, fun s y hst hy => h2 s y hst (cons_of_some hs hy)⟩

/-- Under `Denotes`, the values of `g` on `[d, t]` are the values the list takes up to `t`. -/
theorem valuesOn_iff {l : ASig α} {d : Rat} {g : Rat → Option α} (h : Denotes l d g) (t : Rat) (P : α → Prop) :
    (∀ y ∈ valuesOn g d t, P y) ↔ ∀ s y, s ≤ t → valAtA l s = some y → P y := by
  constructor
  · intro hh s y hst hy
    by_cases hds : d ≤ s
    · exact hh y ⟨s, hds, hst, by rw [← h.2 s hds]; exact hy⟩
    · rw [wfa_none h.1 (not_le.1 hds)] at hy; cases hy
  · rintro hh y ⟨s, hds, hst, hy⟩
    exact hh s y hst (by rw [h.2 s hds]; exact hy)

/-! ### the backward loop as a structural recursion -/

section back
variable {γ : Type} [Val α]

/-- the value `prev` after the samples of the suffix have been processed -/
def sufAcc (g : α → γ → α) (init : α) : List (Tm × γ) → α
  | [] => init
  | p :: rest => g (sufAcc g init rest) p.2

/-- all suffix values, nothing removed -/
def sufFull (g : α → γ → α) (init : α) : List (Tm × γ) → ASig α
  | [] => []
  | p :: rest => (p.1, g (sufAcc g init rest) p.2) :: sufFull g init rest

/-- the result list of `backScanG` for a suffix -/
def sufOut (g : α → γ → α) (init : α) : List (Tm × γ) → ASig α
  | [] => []
  | p :: rest =>
    (p.1, g (sufAcc g init rest) p.2) ::
      (if (!vne (g (sufAcc g init rest) p.2) (sufAcc g init rest) && decide (2 ≤ rest.length)) = true
        then (sufOut g init rest).tail else sufOut g init rest)

/-- the loop body of `backScanG` -/
def bstep (g : α → γ → α) (n : Nat) (st : α × Option α × ASig α × Nat) (p : Tm × γ) :
    α × Option α × ASig α × Nat :=
  let ov := g st.1 p.2
  let eqNext := match st.2.1 with
    | none => false
    | some x => !vne ov x
  let out' := if eqNext && decide (st.2.2.2 + 2 < n) then st.2.2.1.tail else st.2.2.1
  (ov, some ov, (p.1, ov) :: out', st.2.2.2 - 1)

theorem backScanG_unfold (g : α → γ → α) (init : α) (nx0 : Option α) (s : List (Tm × γ)) :
    backScanG g init nx0 s =
      (s.reverse.foldl (bstep g s.length) (init, nx0, [], s.length - 1)).2.2.1 := rfl

theorem foldr_bstep (g : α → γ → α) (init : α) (nx0 : Option α) (n : Nat) :
    ∀ l : List (Tm × γ), l.length ≤ n →
      l.foldr (fun p st => bstep g n st p) (init, nx0, [], n - 1) =
        (sufAcc g init l, (if l = [] then nx0 else some (sufAcc g init l)), sufOut g init l, n - 1 - l.length) := by
  intro l
  induction l with
  | nil => intro _; simp [sufAcc, sufOut]
  | cons p rest ih =>
    intro hl
    simp only [List.length_cons] at hl
    rw [List.foldr_cons, ih (by omega)]
    cases rest with
    | nil =>
      simp [bstep, sufAcc, sufOut]
    | cons q r =>
      simp only [List.length_cons] at hl
      have e : (n - 1 - (r.length + 1) + 2 < n) ↔ 2 ≤ r.length + 1 := by omega
      have e2 : n - 1 - (r.length + 1) - 1 = n - 1 - (r.length + 1 + 1) := by omega
      simp [bstep, sufAcc, sufOut, e, e2]

theorem backScanG_eq (g : α → γ → α) (init : α) (nx0 : Option α) (s : List (Tm × γ)) :
    backScanG g init nx0 s = sufOut g init s := by
  rw [backScanG_unfold, List.foldl_reverse, foldr_bstep g init nx0 s.length s le_rfl]

omit [Val α] in
theorem times_sufFull (g : α → γ → α) (init : α) (l : List (Tm × γ)) : times (sufFull g init l) = times l := by
  induction l with
  | nil => rfl
  | cons p rest ih =>
    simp only [sufFull, times, List.map_cons] at *
    rw [ih]

omit [Val α] in
theorem sufFull_none_iff (g : α → γ → α) (init : α) (l : List (Tm × γ)) (t : Rat) :
    valAtA (sufFull g init l) t = none ↔ valAtA l t = none := by
  cases l with
  | nil => simp [sufFull, valAtA]
  | cons x rest =>
    obtain ⟨τ, v⟩ := x
    simp only [sufFull]
    rw [valAtA_cons_none_iff, valAtA_cons_none_iff]

theorem sorted_of_times {β' γ' : Type} {l : ASig β'} {l' : ASig γ'} (h : Sorted l) (e : times l' = times l) :
    Sorted l' := by
  unfold Sorted; rw [e]; exact h

theorem sorted_of_sublist {β' γ' : Type} {l : ASig β'} {l' : ASig γ'} (h : Sorted l)
    (e : (times l').Sublist (times l)) : Sorted l' :=
  List.Pairwise.sublist e h

theorem times_tail {β' : Type} (l : ASig β') : times l.tail = (times l).tail := by
  cases l <;> rfl

theorem times_sufOut (g : α → γ → α) (init : α) (l : List (Tm × γ)) :
    (times (sufOut g init l)).Sublist (times l) ∧ (times (sufOut g init l)).head? = (times l).head? := by
  induction l with
  | nil => exact ⟨List.Sublist.refl _, rfl⟩
  | cons p rest ih =>
    refine ⟨?_, rfl⟩
    simp only [sufOut, times, List.map_cons]
    apply List.Sublist.cons_cons
    split
    · have := times_tail (sufOut g init rest)
      simp only [times] at this ih
      rw [this]
      exact (List.tail_sublist _).trans ih.1
    · exact ih.1

/-- In a sorted list the tail is undefined before the first stamp. -/
theorem none_of_lt_head {τ : Tm} {q : β} {X : ASig β} (hs : Sorted ((τ, q) :: X)) {t : Rat}
    (h : Tm.lt (.fin t) τ = true) : valAtA X t = none := by
  cases X with
  | nil => rfl
  | cons x r =>
    obtain ⟨τ', q'⟩ := x
    rw [valAtA_cons_none_iff]
    exact lt_trans h ((sorted_cons.1 hs).1 (τ', q') (by simp))

/-- A repeated value can be dropped. -/
theorem valAtA_drop_dup {τ τ' : Tm} {a : β} {X : ASig β} (hs : Sorted ((τ', a) :: X)) (t : Rat) :
    valAtA ((τ, a) :: X) t = valAtA ((τ, a) :: (τ', a) :: X) t := by
  rw [valAtA_cons, valAtA_cons τ a, valAtA_cons τ' a]
  split
  · rfl
  · split
    · rename_i h
      rw [none_of_lt_head hs h]
    · rfl

end back

section back2
variable {γ : Type} [Val α] [LawfulVal α]

/-- `vne` is inequality (own proof, so that the backward-scan theorems do not depend on other groups). -/
theorem vne_false_iff (a b : α) : vne a b = false ↔ a = b := by
  unfold vne
  rw [Bool.or_eq_false_iff]
  constructor
  · rintro ⟨h1, h2⟩
    have n1 : ¬ a < b := fun h => by rw [(LawfulVal.lt_iff a b).2 h] at h1; cases h1
    have n2 : ¬ b < a := fun h => by rw [(LawfulVal.lt_iff b a).2 h] at h2; cases h2
    exact le_antisymm (not_lt.1 n2) (not_lt.1 n1)
  · rintro rfl
    have : Val.lt a a = false := by
      cases h : Val.lt a a with
      | false => rfl
      | true => exact absurd ((LawfulVal.lt_iff a a).1 h) (lt_irrefl a)
    exact ⟨this, this⟩

/-- Removing the repeated heads does not change the function. -/
theorem valAtA_sufOut (g : α → γ → α) (init : α) :
    ∀ l : List (Tm × γ), Sorted l → ∀ t, valAtA (sufOut g init l) t = valAtA (sufFull g init l) t := by
  intro l
  induction l with
  | nil => intro _ _; rfl
  | cons p rest ih =>
    intro hs t
    obtain ⟨τ, x⟩ := p
    have hsr : Sorted rest := (sorted_cons.1 hs).2
    have ih' := ih hsr
    simp only [sufOut, sufFull]
    split
    · rename_i hc
      simp only [Bool.and_eq_true, Bool.not_eq_true', decide_eq_true_eq] at hc
      obtain ⟨he, hlen⟩ := hc
      rw [vne_false_iff] at he
      cases rest with
      | nil => simp at hlen
      | cons p' rest' =>
        obtain ⟨τ', x'⟩ := p'
        have hso : Sorted (sufOut g init ((τ', x') :: rest')) := sorted_of_sublist hsr (times_sufOut g init _).1
        have e1 : sufOut g init ((τ', x') :: rest') =
            (τ', sufAcc g init ((τ', x') :: rest')) :: (sufOut g init ((τ', x') :: rest')).tail := by
          simp only [sufOut, sufAcc, List.tail_cons]
        rw [e1] at hso
        rw [he, valAtA_drop_dup hso t, ← e1]
        rw [valAtA_cons, valAtA_cons, ih' t]
    · rw [valAtA_cons, valAtA_cons, ih' t]

end back2

/-! ### the backward running extremum -/

section backChar
variable (R : α → α → Prop) (comb : α → α → α) (hcomb : ∀ c a b, R c (comb a b) ↔ R c a ∧ R c b) (init : α)
include hcomb

/-- The value at the head is bounded exactly by the bounds of `init` and of all values the list takes. -/
theorem back_head : ∀ (l : ASig α), Sorted l → InfOKr l → ∀ d x rest, l = (Tm.fin d, x) :: rest →
    ∀ c, R c (sufAcc (fun acc v => comb v acc) init l) ↔ R c init ∧ ∀ s y, valAtA l s = some y → R c y := by
  intro l
  induction l with
  | nil => intro _ _ d x rest e; cases e
  | cons p rest ih =>
    intro hs hi d x rest' e c
    injection e with e1 e2
    subst e1 e2
    simp only [sufAcc]
    rw [hcomb]
    cases rest with
    | nil =>
      simp only [sufAcc]
      constructor
      · rintro ⟨h1, h2⟩
        refine ⟨h2, fun s y hy => ?_⟩
        rcases cons_cases hy with h3 | ⟨_, rfl⟩
        · cases h3
        · exact h1
      · rintro ⟨h1, h2⟩
        exact ⟨h2 d x (head_at_head hs), h1⟩
    | cons p' r =>
      obtain ⟨τ', x'⟩ := p'
      cases τ' with
      | inf =>
        have hr : r = [] := sorted_inf_last hs
        subst hr
        have hx : x = x' := hi.1 rfl
        subst hx
        simp only [sufAcc]
        rw [hcomb]
        constructor
        · rintro ⟨h1, _, h2⟩
          refine ⟨h2, fun s y hy => ?_⟩
          rcases cons_cases hy with h3 | ⟨_, rfl⟩
          · rw [(valAtA_cons_none_iff _ _ _ _).2 (lt_fin_inf s)] at h3; cases h3
          · exact h1
        · rintro ⟨h1, h2⟩
          exact ⟨h2 d x (head_at_head hs), h2 d x (head_at_head hs), h1⟩
      | fin d' =>
        rw [ih (sorted_cons.1 hs).2 (infOKr_tail hi) d' x' r rfl c]
        constructor
        · rintro ⟨h1, h2, h3⟩
          refine ⟨h2, fun s y hy => ?_⟩
          rcases cons_cases hy with h4 | ⟨_, rfl⟩
          · exact h3 s y h4
          · exact h1
        · rintro ⟨h1, h2⟩
          exact ⟨h2 d x (head_at_head hs), h1, fun s y hy => h2 s y (cons_of_some hs hy)⟩

/-- The list of all suffix values: at `t` its value is bounded exactly by the bounds of `init` and of all values
    taken from `t` on. -/
theorem back_char : ∀ (l : ASig α), Sorted l → InfOKr l → ∀ t, valAtA l t ≠ none →
    ∃ v, valAtA (sufFull (fun acc v => comb v acc) init l) t = some v ∧
      ∀ c, R c v ↔ R c init ∧ ∀ s y, t ≤ s → valAtA l s = some y → R c y := by
  intro l
  induction l with
  | nil => intro _ _ t h; exact absurd rfl h
  | cons p rest ih =>
    obtain ⟨τ, x⟩ := p
    intro hs hi t hne
    have hτ := not_lt_of_some hne
    obtain ⟨d, rfl, hdt⟩ := fin_of_not_lt hτ
    cases hr : valAtA rest t with
    | none =>
      refine ⟨_, cons_of_none ((sufFull_none_iff _ _ _ _).2 hr) hτ, fun c => ?_⟩
      have := back_head R comb hcomb init _ hs hi d x rest rfl c
      simp only [sufAcc] at this
      rw [this]
      constructor
      · rintro ⟨h1, h2⟩
        exact ⟨h1, fun s y _ hy => h2 s y hy⟩
      · rintro ⟨h1, h2⟩
        refine ⟨h1, fun s y hy => ?_⟩
        by_cases hts : t ≤ s
        · exact h2 s y hts hy
        · rcases cons_cases hy with h3 | ⟨_, rfl⟩
          · rw [none_mono hr (le_of_lt (not_le.1 hts))] at h3; cases h3
          · exact h2 t y le_rfl (cons_of_none hr hτ)
    | some w =>
      have hrn : valAtA rest t ≠ none := by rw [hr]; simp
      obtain ⟨v, hv, hc⟩ := ih (sorted_cons.1 hs).2 (infOKr_tail hi) t hrn
      refine ⟨v, ?_, fun c => ?_⟩
      · have hsf : Sorted (sufFull (fun acc v => comb v acc) init ((Tm.fin d, x) :: rest)) :=
          sorted_of_times hs (times_sufFull _ _ _)
        exact cons_of_some hsf hv
      · rw [hc]
        constructor
        · rintro ⟨h1, h2⟩
          exact ⟨h1, fun s y hts hy => h2 s y hts (by rw [← cons_eq_rest hs (some_mono hrn hts)]; exact hy)⟩
        · rintro ⟨h1, h2⟩
          exact ⟨h1, fun s y hts hy => h2 s y hts (cons_of_some hs hy)⟩

end backChar

/-- Under `Denotes`, the values of `g` on `[t, ∞)` are the values the list takes from `t` on. -/
theorem valuesFrom_iff {l : ASig α} {d : Rat} {g : Rat → Option α} (h : Denotes l d g) {t : Rat} (ht : d ≤ t)
    (P : α → Prop) : (∀ y ∈ valuesFrom g t, P y) ↔ ∀ s y, t ≤ s → valAtA l s = some y → P y := by
  constructor
  · intro hh s y hts hy
    exact hh y ⟨s, hts, by rw [← h.2 s (le_trans ht hts)]; exact hy⟩
  · rintro hh y ⟨s, hts, hy⟩
    exact hh s y hts (by rw [h.2 s (le_trans ht hts)]; exact hy)

theorem wfa_sufOut {γ : Type} [Val α] (g : α → γ → α) (init : α) {l : List (Tm × γ)} {d : Rat} (h : WFA l d)
    (hi : InfOK (sufOut g init l)) : WFA (sufOut g init l) d :=
  ⟨sorted_of_sublist h.sorted (times_sufOut g init l).1, by rw [(times_sufOut g init l).2]; exact h.start, hi⟩

section sufOutInf
variable {γ : Type} [Val α] [LawfulVal α] (g : α → γ → α) (init : α)

omit [LawfulVal α] in
theorem sufOut_cons_eq (p : Tm × γ) (rest : List (Tm × γ)) :
    sufOut g init (p :: rest) = (p.1, sufAcc g init (p :: rest)) :: (sufOut g init (p :: rest)).tail := by
  simp only [sufOut, sufAcc, List.tail_cons]

theorem sufOut_cons_cases (p : Tm × γ) (rest : List (Tm × γ)) :
    sufOut g init (p :: rest) = (p.1, sufAcc g init (p :: rest)) :: sufOut g init rest ∨
    (sufAcc g init (p :: rest) = sufAcc g init rest ∧ 2 ≤ rest.length ∧
      sufOut g init (p :: rest) = (p.1, sufAcc g init (p :: rest)) :: (sufOut g init rest).tail) := by
  simp only [sufOut, sufAcc]
  split
  · rename_i hc
    simp only [Bool.and_eq_true, Bool.not_eq_true', decide_eq_true_eq] at hc
    exact Or.inr ⟨(vne_false_iff _ _).1 hc.1, hc.2, rfl⟩
  · exact Or.inl rfl

/-- the result keeps `InfOK` when the step function is idempotent in the sample -/
theorem infOKr_sufOut (hidem : ∀ a v, g (g a v) v = g a v) :
    ∀ l : List (Tm × γ), Sorted l → InfOKr l → InfOKr (sufOut g init l) := by
  intro l
  induction l with
  | nil => intro _ _; trivial
  | cons p rest ih =>
    intro hs hi
    have ih' := ih (sorted_cons.1 hs).2 (infOKr_tail hi)
    rcases sufOut_cons_cases g init p rest with e | ⟨heq, hlen, e⟩
    · rw [e]
      cases rest with
      | nil => trivial
      | cons p' rest' =>
        rw [sufOut_cons_eq g init p' rest']
        refine ⟨fun e' => ?_, by rw [← sufOut_cons_eq]; exact ih'⟩
        obtain ⟨τ, x⟩ := p
        obtain ⟨τ', x'⟩ := p'
        simp only at e'
        subst e'
        have hr := sorted_inf_last hs
        subst hr
        have hx : x = x' := hi.1 rfl
        subst hx
        simp only [sufAcc]
        exact hidem init x
    · rw [e]
      cases rest with
      | nil => simp at hlen
      | cons p' rest' =>
        rw [sufOut_cons_eq g init p' rest'] at ih'
        rw [heq]
        generalize (sufOut g init (p' :: rest')).tail = T at ih' ⊢
        cases T with
        | nil => trivial
        | cons b T' => exact ⟨ih'.1, ih'.2⟩

omit [LawfulVal α] in
theorem fin_sufOut {l : List (Tm × γ)} (h : ∀ p ∈ l, p.1 ≠ Tm.inf) : ∀ p ∈ sufOut g init l, p.1 ≠ Tm.inf := by
  intro p hp
  have h1 : p.1 ∈ times (sufOut g init l) := List.mem_map_of_mem hp
  have h2 : p.1 ∈ times l := (times_sufOut g init l).1.subset h1
  obtain ⟨p', hp', e⟩ := List.mem_map.1 h2
  rw [← e]; exact h p' hp'

end sufOutInf

/-- `backScan` with a general combination. -/
theorem backScan_char [Val α] [LawfulVal α] (R : α → α → Prop) (comb : α → α → α)
    (hcomb : ∀ c a b, R c (comb a b) ↔ R c a ∧ R c b) (hidem : ∀ a b, comb a (comb a b) = comb a b) (init : α)
    {s : ASig α} {d : Rat} {g : Rat → Option α} (h : Denotes s d g) :
    WFA (backScan comb init s) d ∧
    ∀ t, d ≤ t → ∃ v, valAtA (backScan comb init s) t = some v ∧
      ∀ c, R c v ↔ R c init ∧ ∀ y ∈ valuesFrom g t, R c y := by
  have e : backScan comb init s = sufOut (fun acc v => comb v acc) init s := backScanG_eq _ _ _ _
  rw [e]
  have hi : InfOKr s := infOKr_of_infOK h.1.sorted h.1.infok
  refine ⟨wfa_sufOut _ _ h.1 (infOK_of_infOKr
    (infOKr_sufOut _ init (fun a v => hidem v a) s h.1.sorted hi)), fun t ht => ?_⟩
  obtain ⟨v, hv, hc⟩ := back_char R comb hcomb init s h.1.sorted hi t (wfa_some h.1 ht)
  refine ⟨v, by rw [valAtA_sufOut _ _ _ h.1.sorted]; exact hv, fun c => ?_⟩
  rw [hc, valuesFrom_iff h ht]

theorem max_idem [LinearOrder α] (a b : α) : max a (max a b) = max a b := by
  rw [← max_assoc, max_self]

theorem min_idem [LinearOrder α] (a b : α) : min a (min a b) = min a b := by
  rw [← min_assoc, min_self]

/-! ### a set of values drawn from a list has a least element -/

theorem exists_least_of_subset_list [LinearOrder α] :
    ∀ (L : List α) (S : Set α), (∀ x ∈ S, x ∈ L) → S.Nonempty → ∃ m ∈ S, ∀ x ∈ S, m ≤ x := by
  intro L
  induction L with
  | nil => rintro S hS ⟨x, hx⟩; exact absurd (hS x hx) (by simp)
  | cons a L ih =>
    intro S hS hne
    by_cases hall : ∀ x ∈ S, x ∈ L
    · exact ih S hall hne
    · have haS : a ∈ S := by
        by_contra hn
        apply hall
        intro x hx
        rcases List.mem_cons.1 (hS x hx) with rfl | h
        · exact absurd hx hn
        · exact h
      by_cases hlt : ∃ x ∈ S, x < a
      · have hS' : ∀ x ∈ {x | x ∈ S ∧ x < a}, x ∈ L := by
          rintro x ⟨hx, hxa⟩
          rcases List.mem_cons.1 (hS x hx) with rfl | h
          · exact absurd hxa (lt_irrefl _)
          · exact h
        obtain ⟨x0, hx0, hx0a⟩ := hlt
        obtain ⟨m, ⟨hmS, hma⟩, hmin⟩ := ih {x | x ∈ S ∧ x < a} hS' ⟨x0, hx0, hx0a⟩
        refine ⟨m, hmS, fun x hx => ?_⟩
        by_cases hxa : x < a
        · exact hmin x ⟨hx, hxa⟩
        · exact le_trans (le_of_lt hma) (not_lt.1 hxa)
      · refine ⟨a, haS, fun x hx => ?_⟩
        by_contra hn
        exact hlt ⟨x, hx, not_le.1 hn⟩

/-! ### unbounded since -/

section since
variable [Val α] [LawfulVal α]

theorem sinceVal_le (acc : α) (p : α × α) (c : α) :
    sinceVal acc p ≤ c ↔ (p.1 ≤ c ∨ p.2 ≤ c) ∧ (p.1 ≤ c ∨ acc ≤ c) := by
  simp only [sinceVal, pmax_eq, pmin_eq, max_le_iff, min_le_iff]

omit [LawfulVal α] in
theorem sgo_cons (acc : α) (τ : Tm) (p : α × α) (rest : List (Tm × (α × α))) :
    sinceOp.go acc ((τ, p) :: rest) = (τ, sinceVal acc p) :: sinceOp.go (sinceVal acc p) rest := rfl

omit [LawfulVal α] in
theorem times_sgo (acc : α) (l : List (Tm × (α × α))) : times (sinceOp.go acc l) = times l := by
  induction l generalizing acc with
  | nil => rfl
  | cons x rest ih =>
    obtain ⟨τ, v⟩ := x
    rw [sgo_cons]
    simp only [times, List.map_cons] at *
    rw [ih]

omit [LawfulVal α] in
theorem sgo_none_iff (acc : α) (l : List (Tm × (α × α))) (t : Rat) :
    valAtA (sinceOp.go acc l) t = none ↔ valAtA l t = none := by
  cases l with
  | nil => simp [sinceOp.go, valAtA]
  | cons x rest =>
    obtain ⟨τ, v⟩ := x
    rw [sgo_cons, valAtA_cons_none_iff, valAtA_cons_none_iff]

/-- some left value on `[lo, hi]` is at most `c` -/
def lowφ (l : List (Tm × (α × α))) (lo hi : Rat) (c : α) : Prop :=
  ∃ s p, lo ≤ s ∧ s ≤ hi ∧ valAtA l s = some p ∧ p.1 ≤ c

/-- some left value up to `hi` is at most `c` -/
def lowB (l : List (Tm × (α × α))) (hi : Rat) (c : α) : Prop :=
  ∃ s p, s ≤ hi ∧ valAtA l s = some p ∧ p.1 ≤ c

/-- `c` bounds every `min (inf φ[t', t]) (ψ t')`, `t' ≤ t` -/
def ubS (l : List (Tm × (α × α))) (t : Rat) (c : α) : Prop :=
  ∀ t' p, t' ≤ t → valAtA l t' = some p → p.2 ≤ c ∨ lowφ l t' t c

variable {d t : Rat} {q : α × α} {rest : List (Tm × (α × α))} {c : α}

theorem lowB_none (hdt : d ≤ t) (hr : valAtA rest t = none) :
    lowB ((Tm.fin d, q) :: rest) t c ↔ q.1 ≤ c := by
  have hτ : ¬ Tm.lt (.fin t) (.fin d) = true := by rw [lt_fin_fin]; linarith
  constructor
  · rintro ⟨s, p, hst, hp, hpc⟩
    rcases cons_cases hp with h | ⟨_, rfl⟩
    · rw [none_mono hr hst] at h; cases h
    · exact hpc
  · intro h
    exact ⟨t, q, le_rfl, cons_of_none hr hτ, h⟩

theorem ubS_none (hdt : d ≤ t) (hr : valAtA rest t = none) :
    ubS ((Tm.fin d, q) :: rest) t c ↔ (q.2 ≤ c ∨ q.1 ≤ c) := by
  have hτ : ¬ Tm.lt (.fin t) (.fin d) = true := by rw [lt_fin_fin]; linarith
  constructor
  · intro h
    rcases h t q le_rfl (cons_of_none hr hτ) with h1 | ⟨s, p, _, hst, hp, hpc⟩
    · exact Or.inl h1
    · rcases cons_cases hp with h | ⟨_, rfl⟩
      · rw [none_mono hr hst] at h; cases h
      · exact Or.inr hpc
  · intro h t' p ht' hp
    rcases cons_cases hp with h3 | ⟨_, rfl⟩
    · rw [none_mono hr ht'] at h3; cases h3
    · rcases h with h | h
      · exact Or.inl h
      · exact Or.inr ⟨t', p, le_rfl, ht', hp, h⟩

theorem lowB_some (hs : Sorted ((Tm.fin d, q) :: rest)) (hdt : d ≤ t) :
    lowB ((Tm.fin d, q) :: rest) t c ↔ (q.1 ≤ c ∨ lowB rest t c) := by
  constructor
  · rintro ⟨s, p, hst, hp, hpc⟩
    rcases cons_cases hp with h | ⟨_, rfl⟩
    · exact Or.inr ⟨s, p, hst, h, hpc⟩
    · exact Or.inl hpc
  · rintro (h | ⟨s, p, hst, hp, hpc⟩)
    · exact ⟨d, q, hdt, head_at_head hs, h⟩
    · exact ⟨s, p, hst, cons_of_some hs hp, hpc⟩

theorem ubS_some (hs : Sorted ((Tm.fin d, q) :: rest)) (hdt : d ≤ t) :
    ubS ((Tm.fin d, q) :: rest) t c ↔ (ubS rest t c ∧ (q.2 ≤ c ∨ q.1 ≤ c ∨ lowB rest t c)) := by
  constructor
  · intro h
    constructor
    · intro t' p ht' hp
      rcases h t' p ht' (cons_of_some hs hp) with h1 | ⟨s, p', h1, h2, h3, h4⟩
      · exact Or.inl h1
      · refine Or.inr ⟨s, p', h1, h2, ?_, h4⟩
        have : valAtA rest s ≠ none := some_mono (by rw [hp]; simp) h1
        rw [← cons_eq_rest hs this]; exact h3
    · rcases h d q hdt (head_at_head hs) with h1 | ⟨s, p, _, hst, hp, hpc⟩
      · exact Or.inl h1
      · rcases cons_cases hp with h | ⟨_, rfl⟩
        · exact Or.inr (Or.inr ⟨s, p, hst, h, hpc⟩)
        · exact Or.inr (Or.inl hpc)
  · rintro ⟨h1, h2⟩ t' p ht' hp
    rcases cons_cases hp with h3 | ⟨h3, rfl⟩
    · rcases h1 t' p ht' h3 with h | ⟨s, p', h4, h5, h6, h7⟩
      · exact Or.inl h
      · exact Or.inr ⟨s, p', h4, h5, cons_of_some hs h6, h7⟩
    · rcases h2 with h | h | ⟨s, p', hst, hp', hpc⟩
      · exact Or.inl h
      · exact Or.inr ⟨t', p, le_rfl, ht', hp, h⟩
      · refine Or.inr ⟨s, p', ?_, hst, cons_of_some hs hp', hpc⟩
        by_contra hn
        rw [none_mono h3 (le_of_lt (not_le.1 hn))] at hp'; cases hp'

theorem since_char : ∀ (l : List (Tm × (α × α))), Sorted l → ∀ (acc : α) (t : Rat), valAtA l t ≠ none →
    ∃ v, valAtA (sinceOp.go acc l) t = some v ∧ ∀ c, v ≤ c ↔ ubS l t c ∧ (acc ≤ c ∨ lowB l t c) := by
  intro l
  induction l with
  | nil => intro _ acc t h; exact absurd rfl h
  | cons x rest ih =>
    obtain ⟨τ, q⟩ := x
    intro hs acc t hne
    have hτ := not_lt_of_some hne
    obtain ⟨d, rfl, hdt⟩ := fin_of_not_lt hτ
    cases hr : valAtA rest t with
    | none =>
      refine ⟨sinceVal acc q, ?_, fun c => ?_⟩
      · rw [sgo_cons]
        exact cons_of_none ((sgo_none_iff _ _ _).2 hr) hτ
      · rw [sinceVal_le, ubS_none hdt hr, lowB_none hdt hr]
        tauto
    | some w =>
      have hrn : valAtA rest t ≠ none := by rw [hr]; simp
      obtain ⟨v, hv, hc⟩ := ih (sorted_cons.1 hs).2 (sinceVal acc q) t hrn
      refine ⟨v, ?_, fun c => ?_⟩
      · rw [sgo_cons]
        have hsf : Sorted ((Tm.fin d, sinceVal acc q) :: sinceOp.go (sinceVal acc q) rest) := by
          apply sorted_of_times hs
          simp only [times, List.map_cons]
          have := times_sgo (sinceVal acc q) rest
          simp only [times] at this
          rw [this]
        exact cons_of_some hsf hv
      · rw [hc, sinceVal_le, ubS_some hs hdt, lowB_some hs hdt]
        tauto

end since

/-! ### unbounded until -/

section until_
variable [Val α] [LawfulVal α]

/-- `c` bounds every `min (inf φ[t, t']) (ψ t')`, `t ≤ t'` -/
def ubU (l : List (Tm × (α × α))) (t : Rat) (c : α) : Prop :=
  ∀ t' p, t ≤ t' → valAtA l t' = some p → p.2 ≤ c ∨ lowφ l t t' c

theorem some_ge_head {β : Type} {d s : Rat} {q : β} {r : ASig β} (h : valAtA ((Tm.fin d, q) :: r) s ≠ none) :
    d ≤ s := by
  have := not_lt_of_some h
  rw [lt_fin_fin] at this
  linarith

/-- In the first piece the head value of the backward recursion is the bound of the `until` set. -/
theorem until_head : ∀ (l : List (Tm × (α × α))), Sorted l → (∀ p ∈ l, p.1 ≠ Tm.inf) →
    ∀ τ q rest, l = (τ, q) :: rest → ∀ t, ¬ Tm.lt (.fin t) τ = true → valAtA rest t = none →
    ∀ c, sufAcc sinceVal Val.ninf l ≤ c ↔ ubU l t c := by
  intro l
  induction l with
  | nil => intro _ _ τ q rest e; cases e
  | cons p rest ih =>
    intro hs hfin τ q rest' e t hτ hr c
    injection e with e1 e2
    subst e1 e2
    simp only [sufAcc]
    rw [sinceVal_le]
    have hhead : valAtA ((τ, q) :: rest) t = some q := cons_of_none hr hτ
    cases rest with
    | nil =>
      simp only [sufAcc, LawfulVal.ninf_bot, bot_le, or_true, and_true]
      constructor
      · intro h t' p htt' hp
        rcases cons_cases hp with h3 | ⟨_, rfl⟩
        · cases h3
        · rcases h with h | h
          · exact Or.inr ⟨t, p, le_rfl, htt', hhead, h⟩
          · exact Or.inl h
      · intro h
        rcases h t q le_rfl hhead with h1 | ⟨s, p, _, _, hp, hpc⟩
        · exact Or.inr h1
        · rcases cons_cases hp with h3 | ⟨_, rfl⟩
          · cases h3
          · exact Or.inl hpc
    | cons p' r =>
      obtain ⟨τ', q'⟩ := p'
      cases τ' with
      | inf => exact absurd rfl (hfin (Tm.inf, q') (by simp))
      | fin d' =>
        have hsr : Sorted ((Tm.fin d', q') :: r) := (sorted_cons.1 hs).2
        have htd : t < d' := by
          rw [valAtA_cons_none_iff, lt_fin_fin] at hr; exact hr
        rw [ih hsr (fun p hp => hfin p (List.mem_cons_of_mem _ hp)) (Tm.fin d') q' r rfl d'
          (by rw [lt_self]; simp) (rest_none_at_head hsr) c]
        constructor
        · rintro ⟨h1, h2⟩ t' p htt' hp
          by_cases hq : q.1 ≤ c
          · exact Or.inr ⟨t, q, le_rfl, htt', hhead, hq⟩
          · have h1' : q.2 ≤ c := h1.resolve_left hq
            have h2' := h2.resolve_left hq
            rcases cons_cases hp with h3 | ⟨_, rfl⟩
            · have hd't' : d' ≤ t' := some_ge_head (by rw [h3]; simp)
              rcases h2' t' p hd't' h3 with h | ⟨s, p', h4, h5, h6, h7⟩
              · exact Or.inl h
              · exact Or.inr ⟨s, p', by linarith, h5, cons_of_some hs h6, h7⟩
            · exact Or.inl h1'
        · intro h
          constructor
          · rcases h t q le_rfl hhead with h1 | ⟨s, p, h1, h2, hp, hpc⟩
            · exact Or.inr h1
            · have : s = t := le_antisymm h2 h1
              subst this
              rw [hhead] at hp
              injection hp with hp
              subst hp
              exact Or.inl hpc
          · by_cases hq : q.1 ≤ c
            · exact Or.inl hq
            · refine Or.inr (fun t' p hd't' hp => ?_)
              rcases h t' p (by linarith) (cons_of_some hs hp) with h1 | ⟨s, p', h1, h2, h3, h4⟩
              · exact Or.inl h1
              · rcases cons_cases h3 with h5 | ⟨_, rfl⟩
                · exact Or.inr ⟨s, p', some_ge_head (by rw [h5]; simp), h2, h5, h4⟩
                · exact absurd h4 hq

theorem until_char : ∀ (l : List (Tm × (α × α))), Sorted l → (∀ p ∈ l, p.1 ≠ Tm.inf) →
    ∀ t, valAtA l t ≠ none →
    ∃ v, valAtA (sufFull sinceVal Val.ninf l) t = some v ∧ ∀ c, v ≤ c ↔ ubU l t c := by
  intro l
  induction l with
  | nil => intro _ _ t h; exact absurd rfl h
  | cons p rest ih =>
    obtain ⟨τ, q⟩ := p
    intro hs hfin t hne
    have hτ := not_lt_of_some hne
    cases hr : valAtA rest t with
    | none =>
      refine ⟨_, cons_of_none ((sufFull_none_iff _ _ _ _).2 hr) hτ, fun c => ?_⟩
      have := until_head _ hs hfin τ q rest rfl t hτ hr c
      simp only [sufAcc] at this
      exact this
    | some w =>
      have hrn : valAtA rest t ≠ none := by rw [hr]; simp
      obtain ⟨v, hv, hc⟩ := ih (sorted_cons.1 hs).2 (fun p hp => hfin p (List.mem_cons_of_mem _ hp)) t hrn
      refine ⟨v, ?_, fun c => ?_⟩
      · have hsf : Sorted (sufFull sinceVal Val.ninf ((τ, q) :: rest)) :=
          sorted_of_times hs (times_sufFull _ _ _)
        exact cons_of_some hsf hv
      · rw [hc]
        have key : ∀ s, t ≤ s → valAtA ((τ, q) :: rest) s = valAtA rest s :=
          fun s hts => cons_eq_rest hs (some_mono hrn hts)
        constructor
        · intro h t' p htt' hp
          rw [key t' htt'] at hp
          rcases h t' p htt' hp with h1 | ⟨s, p', h1, h2, h3, h4⟩
          · exact Or.inl h1
          · exact Or.inr ⟨s, p', h1, h2, by rw [key s h1]; exact h3, h4⟩
        · intro h t' p htt' hp
          rw [← key t' htt'] at hp
          rcases h t' p htt' hp with h1 | ⟨s, p', h1, h2, h3, h4⟩
          · exact Or.inl h1
          · exact Or.inr ⟨s, p', h1, h2, by rw [← key s h1]; exact h3, h4⟩

end until_

/-! ### the merge never emits a stamp `inf` -/

section interFin
variable {β' : Type}

theorem ne_inf_of_lt {a b : Tm} (h : Tm.lt a b = true) : a ≠ Tm.inf := by
  rintro rfl; rw [lt_inf_left] at h; cases h

theorem appendD_fin (ne : β' → β' → Bool) (out : ASig β') (item : Tm × β')
    (ho : ∀ p ∈ out, p.1 ≠ Tm.inf) (hi : item.1 ≠ Tm.inf) : ∀ p ∈ appendD ne out item, p.1 ≠ Tm.inf := by
  unfold appendD
  split
  · intro p hp; simp at hp; subst hp; exact hi
  · split
    · intro p hp
      rcases List.mem_append.1 hp with h | h
      · exact ho p h
      · simp at h; subst h; exact hi
    · exact ho

theorem interLoop_fin (f : α → α → β') (ne : β' → β' → Bool) (l1 l2 : ASig α) (out : ASig β') :
    ∀ res, interLoop f ne l1 l2 out = .ok res → (∀ p ∈ out, p.1 ≠ Tm.inf) → ∀ p ∈ res, p.1 ≠ Tm.inf := by
  fun_induction interLoop f ne l1 l2 out
  all_goals intro res h ho
  all_goals first
    | (rename_i ih; exact ih res h ho)
    | (rename_i hg ih
       refine ih res h (appendD_fin ne _ _ ho ?_)
       simp only [Bool.and_eq_true, beq_iff_eq] at hg
       obtain ⟨⟨h1, h2⟩, h3⟩ := hg
       first
         | exact ne_inf_of_lt h1
         | exact ne_inf_of_lt h2
         | exact ne_inf_of_lt h3
         | (subst h1; exact ne_inf_of_lt h2))
    | (cases h; first | done | exact ho)

theorem inter_fin [Val α] (f : α → α → β') (ne : β' → β' → Bool) (s1 s2 : ASig α) (res : ASig β')
    (h : inter f ne s1 s2 = .ok res) : ∀ p ∈ res, p.1 ≠ Tm.inf := by
  unfold inter at h
  split at h
  · injection h with h; subst h; simp
  · exact interLoop_fin f ne _ _ _ res h (by simp)

theorem fin_of_times {γ' : Type} {l : ASig β} {l' : ASig γ'} (e : times l' = times l)
    (h : ∀ p ∈ l, p.1 ≠ Tm.inf) : ∀ p ∈ l', p.1 ≠ Tm.inf := by
  intro p hp
  have h1 : p.1 ∈ times l' := List.mem_map_of_mem hp
  rw [e] at h1
  obtain ⟨p', hp', e'⟩ := List.mem_map.1 h1
  rw [← e']; exact h p' hp'

end interFin

/-! ### from the bounds on the merged list to the `since` / `until` sets -/

section sets
variable [Val α] [LawfulVal α]

theorem pairNe_false (a b : α × α) (h : pairNe a b = false) : a = b := by
  unfold pairNe at h
  rw [Bool.or_eq_false_iff, vne_false_iff, vne_false_iff] at h
  exact Prod.ext h.1 h.2

variable {io : List (Tm × (α × α))} {D : Rat} {g1 g2 : Rat → Option α}

omit [Val α] [LawfulVal α] in
theorem io_some_iff (hden : Denotes io D (lift2 (fun a b => (a, b)) g1 g2)) (s : Rat) (p : α × α) :
    valAtA io s = some p ↔ D ≤ s ∧ g1 s = some p.1 ∧ g2 s = some p.2 := by
  by_cases h : D ≤ s
  · rw [hden.2 s h]
    simp only [lift2]
    cases g1 s <;> cases g2 s <;> simp [h, Prod.ext_iff]
  · rw [wfa_none hden.1 (not_le.1 h)]
    simp [h]

omit [Val α] [LawfulVal α] in
theorem exists_of_ne_none {o : Option α} (h : o ≠ none) : ∃ a, o = some a := by
  cases o with
  | none => exact absurd rfl h
  | some a => exact ⟨a, rfl⟩

/-- the values of the left operand on a window inside the domain have a least element -/
theorem least_valuesOn (hden : Denotes io D (lift2 (fun a b => (a, b)) g1 g2))
    (hg2 : ∀ s, D ≤ s → g2 s ≠ none) {lo hi : Rat} (hlo : D ≤ lo) (hne : (valuesOn g1 lo hi).Nonempty) :
    ∃ m, m ∈ valuesOn g1 lo hi ∧ IsGLB (valuesOn g1 lo hi) m := by
  have hsub : ∀ x ∈ valuesOn g1 lo hi, x ∈ io.map (fun e => e.2.1) := by
    rintro x ⟨s, h1, h2, h3⟩
    obtain ⟨b, hb⟩ := exists_of_ne_none (hg2 s (le_trans hlo h1))
    have : valAtA io s = some (x, b) := (io_some_iff hden s (x, b)).2 ⟨le_trans hlo h1, h3, hb⟩
    obtain ⟨τ, hm⟩ := valAtA_mem this
    exact List.mem_map.2 ⟨(τ, (x, b)), hm, rfl⟩
  obtain ⟨m, hmS, hmin⟩ := exists_least_of_subset_list _ _ hsub hne
  exact ⟨m, hmS, fun x hx => hmin x hx, fun b hb => hb hmS⟩

theorem ubS_iff (hden : Denotes io D (lift2 (fun a b => (a, b)) g1 g2))
    (hg1 : ∀ s, D ≤ s → g1 s ≠ none) (hg2 : ∀ s, D ≤ s → g2 s ≠ none) (t : Rat) (c : α) :
    ubS io t c ↔ c ∈ upperBounds (sinceSet g1 g2 D t t) := by
  constructor
  · rintro h y ⟨t', m, r, hDt', ht't, hr, hglb, rfl⟩
    obtain ⟨a, ha⟩ := exists_of_ne_none (hg1 t' hDt')
    have hp : valAtA io t' = some (a, r) := (io_some_iff hden t' (a, r)).2 ⟨hDt', ha, hr⟩
    rcases h t' (a, r) ht't hp with h1 | ⟨s, p, h1, h2, h3, h4⟩
    · exact le_trans (min_le_right _ _) h1
    · have hs := (io_some_iff hden s p).1 h3
      have : m ≤ p.1 := hglb.1 ⟨s, h1, h2, hs.2.1⟩
      exact le_trans (min_le_left _ _) (le_trans this h4)
  · intro h t' p ht't hp
    obtain ⟨hDt', hp1, hp2⟩ := (io_some_iff hden t' p).1 hp
    obtain ⟨m, ⟨s, h1, h2, h3⟩, hglb⟩ := least_valuesOn hden hg2 hDt' ⟨p.1, t', le_rfl, ht't, hp1⟩
    have hy : min m p.2 ≤ c := h ⟨t', m, p.2, hDt', ht't, hp2, hglb, rfl⟩
    rcases min_le_iff.1 hy with hm | hm
    · obtain ⟨b, hb⟩ := exists_of_ne_none (hg2 s (le_trans hDt' h1))
      exact Or.inr ⟨s, (m, b), h1, h2, (io_some_iff hden s (m, b)).2 ⟨le_trans hDt' h1, h3, hb⟩, hm⟩
    · exact Or.inl hm

theorem ubU_iff (hden : Denotes io D (lift2 (fun a b => (a, b)) g1 g2))
    (hg1 : ∀ s, D ≤ s → g1 s ≠ none) (hg2 : ∀ s, D ≤ s → g2 s ≠ none) {t : Rat} (ht : D ≤ t) (c : α) :
    ubU io t c ↔ c ∈ upperBounds (untilSet g1 g2 t none t) := by
  constructor
  · rintro h y ⟨t', m, r, htt', _, hr, hglb, rfl⟩
    have hDt' : D ≤ t' := le_trans ht htt'
    obtain ⟨a, ha⟩ := exists_of_ne_none (hg1 t' hDt')
    have hp : valAtA io t' = some (a, r) := (io_some_iff hden t' (a, r)).2 ⟨hDt', ha, hr⟩
    rcases h t' (a, r) htt' hp with h1 | ⟨s, p, h1, h2, h3, h4⟩
    · exact le_trans (min_le_right _ _) h1
    · have hs := (io_some_iff hden s p).1 h3
      have : m ≤ p.1 := hglb.1 ⟨s, h1, h2, hs.2.1⟩
      exact le_trans (min_le_left _ _) (le_trans this h4)
  · intro h t' p htt' hp
    obtain ⟨hDt', hp1, hp2⟩ := (io_some_iff hden t' p).1 hp
    obtain ⟨a, ha⟩ := exists_of_ne_none (hg1 t ht)
    obtain ⟨m, ⟨s, h1, h2, h3⟩, hglb⟩ := least_valuesOn hden hg2 ht ⟨a, t, le_rfl, htt', ha⟩
    have hy : min m p.2 ≤ c := h ⟨t', m, p.2, htt', trivial, hp2, hglb, rfl⟩
    rcases min_le_iff.1 hy with hm | hm
    · obtain ⟨b, hb⟩ := exists_of_ne_none (hg2 s (le_trans ht h1))
      exact Or.inr ⟨s, (m, b), h1, h2, (io_some_iff hden s (m, b)).2 ⟨le_trans ht h1, h3, hb⟩, hm⟩
    · exact Or.inl hm

omit [Val α] [LawfulVal α] in
theorem defined_of_denotes {β : Type} {l : ASig β} {d D : Rat} {g : Rat → Option β} (h : Denotes l d g) (hd : d ≤ D) :
    ∀ s, D ≤ s → g s ≠ none := by
  intro s hs
  rw [← h.2 s (le_trans hd hs)]
  exact wfa_some h.1 (le_trans hd hs)

end sets

end ScanAux

open ScanAux

variable {α : Type} [Val α] [LawfulVal α]

/-- `visitOnce`: running maximum = supremum over `[d, t]`. -/
theorem fwdScan_max_spec {s : ASig α} {d : Rat} {g : Rat → Option α} (h : Denotes s d g) :
    WFA (fwdScan pmax Val.ninf s) d ∧
    ∀ t, d ≤ t → ∃ v, valAtA (fwdScan pmax Val.ninf s) t = some v ∧ IsLUB (valuesOn g d t) v := by
  have hw : WFA (fwdScan.go pmax Val.ninf s) d :=
    wfa_go pmax (fun a b => by rw [pmax_eq, pmax_eq]; exact max_idem a b) _ h.1
  have hd := dedup_spec (denotes_self hw)
  refine ⟨hd.1, fun t ht => ?_⟩
  obtain ⟨v, hv, hc⟩ := fwd_char (fun c y => y ≤ c) pmax (fun c a b => by rw [pmax_eq]; exact max_le_iff)
    s h.1.sorted Val.ninf t (wfa_some h.1 ht)
  refine ⟨v, ?_, ?_⟩
  · show valAtA (dedup (fwdScan.go pmax Val.ninf s)) t = some v
    rw [hd.2 t ht]; exact hv
  · rw [isLUB_iff_le_iff]
    intro c
    rw [hc c, ← valuesOn_iff h t (fun y => y ≤ c)]
    simp only [LawfulVal.ninf_bot, bot_le, true_and]
    rfl

/-- `visitHistorically`. -/
theorem fwdScan_min_spec {s : ASig α} {d : Rat} {g : Rat → Option α} (h : Denotes s d g) :
    WFA (fwdScan pmin Val.pinf s) d ∧
    ∀ t, d ≤ t → ∃ v, valAtA (fwdScan pmin Val.pinf s) t = some v ∧ IsGLB (valuesOn g d t) v := by
  have hw : WFA (fwdScan.go pmin Val.pinf s) d :=
    wfa_go pmin (fun a b => by rw [pmin_eq, pmin_eq]; exact min_idem a b) _ h.1
  have hd := dedup_spec (denotes_self hw)
  refine ⟨hd.1, fun t ht => ?_⟩
  obtain ⟨v, hv, hc⟩ := fwd_char (fun c y => c ≤ y) pmin (fun c a b => by rw [pmin_eq]; exact le_min_iff)
    s h.1.sorted Val.pinf t (wfa_some h.1 ht)
  refine ⟨v, ?_, ?_⟩
  · show valAtA (dedup (fwdScan.go pmin Val.pinf s)) t = some v
    rw [hd.2 t ht]; exact hv
  · rw [isGLB_iff_le_iff]
    intro c
    rw [hc c, ← valuesOn_iff h t (fun y => c ≤ y)]
    simp only [LawfulVal.pinf_top, le_top, true_and]
    rfl

/-- `visitEventually`: supremum over `[t, ∞)` (last value held).  `InfOK s` (part of `WFA`: a final sample stamped `inf`
    repeats the previous value) is necessary: `[(0, 1), (inf, 5)]` denotes the constant 1, but the loop returns 5. -/
theorem backScan_max_spec {s : ASig α} {d : Rat} {g : Rat → Option α} (h : Denotes s d g) :
    WFA (backScan pmax Val.ninf s) d ∧
    ∀ t, d ≤ t → ∃ v, valAtA (backScan pmax Val.ninf s) t = some v ∧ IsLUB (valuesFrom g t) v := by
  obtain ⟨hw, hv⟩ := backScan_char (fun c y => y ≤ c) pmax (fun c a b => by rw [pmax_eq]; exact max_le_iff)
    (fun a b => by rw [pmax_eq, pmax_eq]; exact max_idem a b) Val.ninf h
  refine ⟨hw, fun t ht => ?_⟩
  obtain ⟨v, h1, h2⟩ := hv t ht
  refine ⟨v, h1, ?_⟩
  rw [isLUB_iff_le_iff]
  intro c
  rw [h2 c]
  simp only [LawfulVal.ninf_bot, bot_le, true_and]
  rfl

/-- `visitAlways`. -/
theorem backScan_min_spec {s : ASig α} {d : Rat} {g : Rat → Option α} (h : Denotes s d g) :
    WFA (backScan pmin Val.pinf s) d ∧
    ∀ t, d ≤ t → ∃ v, valAtA (backScan pmin Val.pinf s) t = some v ∧ IsGLB (valuesFrom g t) v := by
  obtain ⟨hw, hv⟩ := backScan_char (fun c y => c ≤ y) pmin (fun c a b => by rw [pmin_eq]; exact le_min_iff)
    (fun a b => by rw [pmin_eq, pmin_eq]; exact min_idem a b) Val.pinf h
  refine ⟨hw, fun t ht => ?_⟩
  obtain ⟨v, h1, h2⟩ := hv t ht
  refine ⟨v, h1, ?_⟩
  rw [isGLB_iff_le_iff]
  intro c
  rw [h2 c]
  simp only [LawfulVal.pinf_top, le_top, true_and]
  rfl

/-- `since_operation`: non-strict since, witness in `[max d1 d2, t]`, left operand on the closed `[t', t]`. -/
theorem sinceOp_spec {l r : ASig α} {d1 d2 : Rat} {g1 g2 : Rat → Option α}
    (h1 : Denotes l d1 g1) (h2 : Denotes r d2 g2) :
    ∃ out, sinceOp l r = .ok out ∧ WFA out (max d1 d2) ∧
      ∀ t, max d1 d2 ≤ t → ∃ v, valAtA out t = some v ∧ IsLUB (sinceSet g1 g2 (max d1 d2) t t) v := by
  obtain ⟨io, hio, hden⟩ := inter_denotes (fun a b => (a, b)) pairNe pairNe_false h1 h2
  have hfin := inter_fin _ _ _ _ io hio
  have hw : WFA (sinceOp.go Val.ninf io) (max d1 d2) :=
    wfa_of_times hden.1 (times_sgo _ _) (infOK_of_fin (fin_of_times (times_sgo _ _) hfin))
  have hd := dedup_spec (denotes_self hw)
  refine ⟨dedup (sinceOp.go Val.ninf io), ?_, hd.1, fun t ht => ?_⟩
  · unfold sinceOp; rw [hio]; rfl
  · obtain ⟨v, hv, hc⟩ := since_char io hden.1.sorted Val.ninf t (wfa_some hden.1 ht)
    refine ⟨v, by rw [hd.2 t ht]; exact hv, ?_⟩
    rw [isLUB_iff_le_iff]
    intro c
    rw [hc c, ubS_iff hden (defined_of_denotes h1 (le_max_left _ _)) (defined_of_denotes h2 (le_max_right _ _))]
    simp only [LawfulVal.ninf_bot, bot_le, true_or, and_true]

/-- `until_operation`. -/
theorem untilOp_spec {l r : ASig α} {d1 d2 : Rat} {g1 g2 : Rat → Option α}
    (h1 : Denotes l d1 g1) (h2 : Denotes r d2 g2) :
    ∃ out, untilOp l r = .ok out ∧ WFA out (max d1 d2) ∧
      ∀ t, max d1 d2 ≤ t → ∃ v, valAtA out t = some v ∧ IsLUB (untilSet g1 g2 t none t) v := by
  obtain ⟨io, hio, hden⟩ := inter_denotes (fun a b => (a, b)) pairNe pairNe_false h1 h2
  have hfin := inter_fin _ _ _ _ io hio
  refine ⟨sufOut sinceVal Val.ninf io, ?_,
    wfa_sufOut _ _ hden.1 (infOK_of_fin (fin_sufOut _ _ hfin)), fun t ht => ?_⟩
  · unfold untilOp; rw [hio]
    show Except.ok (backScanG sinceVal Val.ninf (some Val.ninf) io) = _
    rw [backScanG_eq]
  · obtain ⟨v, hv, hc⟩ := until_char io hden.1.sorted hfin t (wfa_some hden.1 ht)
    refine ⟨v, by rw [valAtA_sufOut _ _ _ hden.1.sorted]; exact hv, ?_⟩
    rw [isLUB_iff_le_iff]
    intro c
    rw [hc c, ubU_iff hden (defined_of_denotes h1 (le_max_left _ _)) (defined_of_denotes h2 (le_max_right _ _)) ht]

end Rtamt.Dense.Alg
