/-
  Dense time: the executable semantics `rhoD` (Rtamt/Dense/Ref.lean) computes, for
  step-function inputs, the supremum / infimum semantics over closed windows.

  * `IsStep g B d`: `g` is undefined before `d`, defined from `d` on, and constant on every
    interval that contains no point of `B` in its interior-right part (right-continuous step
    function with break-points among `B`).
  * `foldWin_*`: on such a function the finite fold of `foldWin` over `{lo} ∪ (B ∩ (lo, hi])`
    is the least upper bound (greatest lower bound) of the values on the closed window.
  * `rhoD_isStep`: the robustness signal of every dense-time formula is again such a step
    function, with break-points among `bps` and domain `[dom, ∞)` — i.e. `bps` really is a
    superset of the break-points, which is what the bottom-up evaluator `sigOf` relies on.
  * `evalAt_eq_rhoD`: the bottom-up evaluator agrees with the point-wise definition.
-/
import RtamtProofs.Lemmas.Lawful
import Rtamt.Dense.Ref
import Mathlib.Order.Bounds.Basic
import RtamtProofs.Dense.StepEval

namespace Rtamt.Dense
open Rtamt Val

variable {α : Type} [Val α]

/-- `g` is a right-continuous step function on `[d, ∞)` with break-points among `B`. -/
def IsStep (g : Rat → Option α) (B : List Rat) (d : Rat) : Prop :=
  (∀ t, t < d → g t = none) ∧ (∀ t, d ≤ t → (g t).isSome = true) ∧
  (∀ t t', d ≤ t → t ≤ t' → (∀ b ∈ B, ¬ (t < b ∧ b ≤ t')) → g t' = g t)

/-- Dense-time operators only (no prev/next/rise/fall, no precedes), intervals well formed. -/
def supported : F α → Bool
  | .var _ => true
  | .const _ => true
  | .un _ φ => supported φ
  | .bin _ φ ψ => supported φ && supported ψ
  | .tmp1 op φ => (match op with | .once | .hist | .ev | .alw => true | _ => false) && supported φ
  | .tmp2 _ φ ψ => supported φ && supported ψ
  | .tb1 _ a b φ => decide (a ≤ b) && supported φ
  | .tb2 op a b φ ψ => (match op with | .precedes => false | _ => true) && decide (a ≤ b) && supported φ && supported ψ

/-- Every variable of the formula has a non-empty sample list with strictly increasing time stamps. -/
def DEnv.WF (w : DEnv α) (xs : List String) : Prop :=
  ∀ x ∈ xs, w.sig x ≠ [] ∧ (w.sig x).times.Pairwise (· < ·)

omit [Val α] in
theorem IsStep.stepOn {g : Rat → Option α} {B : List Rat} {d : Rat} (h : IsStep g B d) :
    StepOn g B d none :=
  ⟨fun t h1 _ => h.2.1 t h1, fun t t' h1 h2 _ h4 => h.2.2 t t' h1 h2 h4⟩

omit [Val α] in
theorem StepOn.isStep {g : Rat → Option α} {B : List Rat} {d : Rat} (h : StepOn g B d none)
    (h0 : ∀ t, t < d → g t = none) : IsStep g B d :=
  ⟨h0, fun t h1 => h.1 t h1 trivial, fun t t' h1 h2 h4 => h.2 t t' h1 h2 trivial h4⟩

omit [Val α] in
theorem winSet_some_eq (g : Rat → Option α) (lo hi : Rat) :
    winSet g lo (some hi) = {y | ∃ t, lo ≤ t ∧ t ≤ hi ∧ g t = some y} := rfl

omit [Val α] in
theorem winSet_none_eq (g : Rat → Option α) (lo : Rat) :
    winSet g lo none = {y | ∃ t, lo ≤ t ∧ g t = some y} := by
  ext y; simp [winSet, leHi]

variable [LawfulVal α]

set_option linter.unusedSectionVars false in
theorem valAt_isStep (s : DSig α) (hne : s ≠ []) (hs : s.times.Pairwise (· < ·)) :
    IsStep s.valAt s.times (s.times.head?.getD 0) :=
  (valAt_step s hne hs).2.isStep (valAt_step s hne hs).1

/-- Closed bounded window: the fold is the least upper bound of the values on `[lo, hi]`. -/
theorem foldWin_max_isLUB (g : Rat → Option α) (B : List Rat) (d lo hi : Rat)
    (hg : IsStep g B d) (hlo : d ≤ lo) (hle : lo ≤ hi) :
    ∃ v, foldWin pmax ninf g B lo (some hi) = some v ∧
      IsLUB {y | ∃ t, lo ≤ t ∧ t ≤ hi ∧ g t = some y} v := by
  rw [← winSet_some_eq]
  exact foldWin_max_spec (hg.stepOn.restrict hlo (some hi)) hle

theorem foldWin_min_isGLB (g : Rat → Option α) (B : List Rat) (d lo hi : Rat)
    (hg : IsStep g B d) (hlo : d ≤ lo) (hle : lo ≤ hi) :
    ∃ v, foldWin pmin pinf g B lo (some hi) = some v ∧
      IsGLB {y | ∃ t, lo ≤ t ∧ t ≤ hi ∧ g t = some y} v := by
  rw [← winSet_some_eq]
  exact foldWin_min_spec (hg.stepOn.restrict hlo (some hi)) hle

/-- Unbounded window `[lo, ∞)` (last value held). -/
theorem foldWin_max_isLUB_unbounded (g : Rat → Option α) (B : List Rat) (d lo : Rat)
    (hg : IsStep g B d) (hlo : d ≤ lo) :
    ∃ v, foldWin pmax ninf g B lo none = some v ∧
      IsLUB {y | ∃ t, lo ≤ t ∧ g t = some y} v := by
  rw [← winSet_none_eq]
  exact foldWin_max_spec (hg.stepOn.mono_lo hlo) trivial

theorem foldWin_min_isGLB_unbounded (g : Rat → Option α) (B : List Rat) (d lo : Rat)
    (hg : IsStep g B d) (hlo : d ≤ lo) :
    ∃ v, foldWin pmin pinf g B lo none = some v ∧
      IsGLB {y | ∃ t, lo ≤ t ∧ g t = some y} v := by
  rw [← winSet_none_eq]
  exact foldWin_min_spec (hg.stepOn.mono_lo hlo) trivial

omit [Val α] [LawfulVal α] in
theorem scale_bounds (cfg : DCfg) (hs : 0 ≤ cfg.scale) {a b : Nat} (hab : a ≤ b) :
    (0 : Rat) ≤ (a : Rat) * cfg.scale ∧ (a : Rat) * cfg.scale ≤ (b : Rat) * cfg.scale :=
  ⟨mul_nonneg (Nat.cast_nonneg a) hs, mul_le_mul_of_nonneg_right (Nat.cast_le.2 hab) hs⟩

/-- The part of `rhoD_isStep` that holds for every supported formula: `rhoD φ` is defined on
    `[dom, ∞)` and is constant between consecutive candidates of `bps` there. -/
theorem rhoD_stepOn (cfg : DCfg) (hs : 0 ≤ cfg.scale) (w : DEnv α) (φ : F α)
    (hsup : supported φ = true) (hw : w.WF φ.vars) :
    StepOn (rhoD cfg w φ) (bps cfg w φ) (dom w φ) none := by
  induction φ with
  | var x =>
    obtain ⟨hne, hp⟩ := hw x (by simp [F.vars])
    exact (valAt_step (w.sig x) hne hp).2.mono_lo (by rw [dom_var]; exact le_max_right _ _)
  | const c => exact ⟨fun _ _ _ => rfl, fun _ _ _ _ _ _ => rfl⟩
  | un op φ ih => exact stepOn_un op.app (ih hsup hw)
  | bin op φ ψ ihφ ihψ =>
    simp only [supported, Bool.and_eq_true] at hsup
    have hwφ : w.WF φ.vars := fun x hx => hw x (List.mem_append_left _ hx)
    have hwψ : w.WF ψ.vars := fun x hx => hw x (List.mem_append_right _ hx)
    have := stepOn_bin op.app (ihφ hsup.1 hwφ) (ihψ hsup.2 hwψ)
    rw [dom_of_vars_append w (φ := .bin op φ ψ) (φ1 := φ) (φ2 := ψ) rfl]
    exact this
  | tmp1 op φ ih =>
    cases op <;> simp only [supported, Bool.false_and, Bool.true_and] at hsup
    · exact absurd hsup (by simp)
    · exact absurd hsup (by simp)
    · exact absurd hsup (by simp)
    · exact absurd hsup (by simp)
    · exact absurd hsup (by simp)
    · exact absurd hsup (by simp)
    · exact stepOn_past winOp_max (ih hsup hw)
    · exact stepOn_past winOp_min (ih hsup hw)
    · exact stepOn_future winOp_max (ih hsup hw)
    · exact stepOn_future winOp_min (ih hsup hw)
  | tmp2 op φ ψ ihφ ihψ =>
    simp only [supported, Bool.and_eq_true] at hsup
    have hwφ : w.WF φ.vars := fun x hx => hw x (List.mem_append_left _ hx)
    have hwψ : w.WF ψ.vars := fun x hx => hw x (List.mem_append_right _ hx)
    rw [dom_of_vars_append w (φ := .tmp2 op φ ψ) (φ1 := φ) (φ2 := ψ) rfl]
    cases op
    · exact stepOn_since (ihφ hsup.1 hwφ) (ihψ hsup.2 hwψ)
    · exact stepOn_until (ihφ hsup.1 hwφ) (ihψ hsup.2 hwψ)
  | tb1 op a b φ ih =>
    simp only [supported, Bool.and_eq_true, decide_eq_true_eq] at hsup
    obtain ⟨ha', hab'⟩ := scale_bounds cfg hs hsup.1
    have hg := ih hsup.2 hw
    cases op
    · refine stepOn_tb_past winOp_max hg hab' ?_ ?_ <;>
        (intro c hc; simp only [bps, List.mem_append, List.mem_map])
      · exact Or.inl (Or.inl ⟨c, hc, rfl⟩)
      · exact Or.inl (Or.inr ⟨c, hc, rfl⟩)
    · refine stepOn_tb_past winOp_min hg hab' ?_ ?_ <;>
        (intro c hc; simp only [bps, List.mem_append, List.mem_map])
      · exact Or.inl (Or.inl ⟨c, hc, rfl⟩)
      · exact Or.inl (Or.inr ⟨c, hc, rfl⟩)
    · refine stepOn_tb_future winOp_max hg ha' hab' ?_ ?_ <;>
        (intro c hc; simp only [bps, List.mem_append, List.mem_map])
      · exact Or.inl (Or.inl ⟨c, List.mem_cons_of_mem _ hc, rfl⟩)
      · exact Or.inl (Or.inr ⟨c, List.mem_cons_of_mem _ hc, rfl⟩)
    · refine stepOn_tb_future winOp_min hg ha' hab' ?_ ?_ <;>
        (intro c hc; simp only [bps, List.mem_append, List.mem_map])
      · exact Or.inl (Or.inl ⟨c, List.mem_cons_of_mem _ hc, rfl⟩)
      · exact Or.inl (Or.inr ⟨c, List.mem_cons_of_mem _ hc, rfl⟩)
  | tb2 op a b φ ψ ihφ ihψ =>
    have hwφ : w.WF φ.vars := fun x hx => hw x (List.mem_append_left _ hx)
    have hwψ : w.WF ψ.vars := fun x hx => hw x (List.mem_append_right _ hx)
    rw [dom_of_vars_append w (φ := .tb2 op a b φ ψ) (φ1 := φ) (φ2 := ψ) rfl]
    cases op <;> simp only [supported, Bool.and_eq_true, decide_eq_true_eq, Bool.false_and,
      Bool.true_and] at hsup
    · obtain ⟨ha', hab'⟩ := scale_bounds cfg hs hsup.1.1
      refine stepOn_tb_since (ihφ hsup.1.2 hwφ) (ihψ hsup.2 hwψ) ha' hab' ?_ ?_ ?_ <;>
        (intro c hc; simp only [bps, List.mem_append, List.mem_map])
      · exact Or.inl (Or.inl (List.mem_cons_of_mem _ hc))
      · exact Or.inl (Or.inr ⟨c, hc, rfl⟩)
      · exact Or.inr ⟨c, hc, rfl⟩
    · obtain ⟨ha', hab'⟩ := scale_bounds cfg hs hsup.1.1
      refine stepOn_tb_until (ihφ hsup.1.2 hwφ) (ihψ hsup.2 hwψ) ha' hab' ?_ ?_ ?_ <;>
        (intro c hc; simp only [bps, List.mem_append, List.mem_map])
      · exact Or.inl (Or.inl (List.mem_cons_of_mem _ hc))
      · exact Or.inl (Or.inr ⟨c, List.mem_cons_of_mem _ hc, rfl⟩)
      · exact Or.inr ⟨c, List.mem_cons_of_mem _ hc, rfl⟩
    · exact absurd hsup (by simp)

/-- `rhoD_isStep` for the domain-restricted function (holds for every supported formula). -/
theorem rhoD_isStep_restricted (cfg : DCfg) (hs : 0 ≤ cfg.scale) (w : DEnv α) (φ : F α)
    (hsup : supported φ = true) (hw : w.WF φ.vars) :
    IsStep (fun t => if t < dom w φ then none else rhoD cfg w φ t) (bps cfg w φ) (dom w φ) := by
  refine StepOn.isStep ?_ (fun t ht => if_pos ht)
  exact (rhoD_stepOn cfg hs w φ hsup hw).congr (fun s h _ => if_neg (not_lt.2 h))

/-! #### The first clause of `IsStep` (`rhoD φ t = none` for `t < dom w φ`)

It fails for formulas that are point-wise combinations of constants only (`rhoD (.const c)` is
defined everywhere, `dom = 0`) and for variables whose first time stamp is negative
(`dom = max 0 τ0`).  It holds for `guarded` formulas over signals starting at `τ0 ≥ 0`. -/

/-- Not a point-wise combination of constants only. -/
def guarded : F α → Bool
  | .var _ => true
  | .const _ => false
  | .un _ φ => guarded φ
  | .bin _ φ ψ => guarded φ || guarded ψ
  | .tmp1 _ _ => true
  | .tmp2 _ _ _ => true
  | .tb1 _ _ _ _ => true
  | .tb2 _ _ _ _ _ => true

/-- Every variable of the formula starts at a non-negative time. -/
def DEnv.NonnegStart (w : DEnv α) (xs : List String) : Prop :=
  ∀ x ∈ xs, 0 ≤ ((w.sig x).times.head?).getD 0

omit [Val α] [LawfulVal α] in
theorem valAt_none_of_lt_head (s : DSig α) (t : Rat) (h : t < s.times.head?.getD 0) :
    s.valAt t = none := by
  cases s with
  | nil => rfl
  | cons p rest =>
    obtain ⟨τ, v⟩ := p
    rw [valAt_cons, if_pos]
    simpa [DSig.times] using h

omit [LawfulVal α] in
theorem rhoD_none_before (cfg : DCfg) (w : DEnv α) (φ : F α) (hpos : w.NonnegStart φ.vars) :
    (guarded φ = true → ∀ t, t < dom w φ → rhoD cfg w φ t = none) ∧
      (guarded φ = false → dom w φ = 0) := by
  induction φ with
  | var x =>
    refine ⟨fun _ t ht => ?_, fun h => by simp [guarded] at h⟩
    rw [dom_var, max_eq_right (hpos x (by simp [F.vars]))] at ht
    exact valAt_none_of_lt_head _ _ ht
  | const c => exact ⟨fun h => by simp [guarded] at h, fun _ => dom_of_vars_nil w rfl⟩
  | un op φ ih =>
    obtain ⟨i1, i2⟩ := ih hpos
    refine ⟨fun h t ht => ?_, fun h => i2 h⟩
    show (rhoD cfg w φ t).map op.app = none
    rw [i1 h t ht]; rfl
  | bin op φ ψ ihφ ihψ =>
    obtain ⟨a1, a2⟩ := ihφ (fun x hx => hpos x (List.mem_append_left _ hx))
    obtain ⟨b1, b2⟩ := ihψ (fun x hx => hpos x (List.mem_append_right _ hx))
    have hd := dom_of_vars_append w (φ := .bin op φ ψ) (φ1 := φ) (φ2 := ψ) rfl
    refine ⟨fun h t ht => ?_, fun h => ?_⟩
    · rw [hd] at ht
      simp only [guarded, Bool.or_eq_true] at h
      have hn : rhoD cfg w φ t = none ∨ rhoD cfg w ψ t = none := by
        cases hgφ : guarded φ <;> cases hgψ : guarded ψ
        · simp [hgφ, hgψ] at h
        · right; apply b1 hgψ
          rw [a2 hgφ, max_eq_right (dom_nonneg w ψ)] at ht; exact ht
        · left; apply a1 hgφ
          rw [b2 hgψ, max_eq_left (dom_nonneg w φ)] at ht; exact ht
        · rcases lt_max_iff.1 ht with h' | h'
          · left; exact a1 hgφ t h'
          · right; exact b1 hgψ t h'
      show (do
        let l ← rhoD cfg w φ t
        let r ← rhoD cfg w ψ t
        pure (op.app l r)) = none
      rcases hn with e | e
      · rw [e]; rfl
      · rw [e]; cases rhoD cfg w φ t <;> rfl
    · simp only [guarded, Bool.or_eq_false_iff] at h
      rw [hd, a2 h.1, b2 h.2, max_self]
  | tmp1 op φ _ =>
    refine ⟨fun _ t ht => ?_, fun h => by simp [guarded] at h⟩
    have ht' : t < dom w φ := ht
    simp only [rhoD, if_pos ht']
  | tmp2 op φ ψ _ _ =>
    refine ⟨fun _ t ht => ?_, fun h => by simp [guarded] at h⟩
    rw [dom_of_vars_append w (φ := .tmp2 op φ ψ) (φ1 := φ) (φ2 := ψ) rfl] at ht
    simp only [rhoD, if_pos ht]
  | tb1 op a b φ _ =>
    refine ⟨fun _ t ht => ?_, fun h => by simp [guarded] at h⟩
    have ht' : t < dom w φ := ht
    simp only [rhoD, if_pos ht']
  | tb2 op a b φ ψ _ _ =>
    refine ⟨fun _ t ht => ?_, fun h => by simp [guarded] at h⟩
    rw [dom_of_vars_append w (φ := .tb2 op a b φ ψ) (φ1 := φ) (φ2 := ψ) rfl] at ht
    simp only [rhoD, if_pos ht]

/-- `rhoD_isStep` under the two extra hypotheses that make its first clause true:
    the formula is not a constant expression, and no input signal starts before time 0. -/
theorem rhoD_isStep_partial (cfg : DCfg) (hs : 0 ≤ cfg.scale) (w : DEnv α) (φ : F α)
    (hsup : supported φ = true) (hw : w.WF φ.vars)
    (hguard : guarded φ = true) (hpos : w.NonnegStart φ.vars) :
    IsStep (rhoD cfg w φ) (bps cfg w φ) (dom w φ) :=
  (rhoD_stepOn cfg hs w φ hsup hw).isStep ((rhoD_none_before cfg w φ hpos).1 hguard)

omit [LawfulVal α] in
/-- Counterexample 1 to `rhoD_isStep` as stated: a constant (`supported`, `WF` vacuous) is defined
    before `dom = 0`. -/
theorem rhoD_isStep_false_const (cfg : DCfg) (w : DEnv α) (c : α) :
    supported (F.const c) = true ∧ w.WF (F.const c).vars ∧
      ¬ IsStep (rhoD cfg w (.const c)) (bps cfg w (.const c)) (dom w (.const c)) := by
  refine ⟨rfl, fun x hx => by simp [F.vars] at hx, fun h => ?_⟩
  have h1 := h.1 (-1) (by rw [dom_of_vars_nil w (φ := F.const c) rfl]; norm_num)
  simp [rhoD] at h1

omit [LawfulVal α] in
/-- Counterexample 2 to `rhoD_isStep` as stated: a variable whose signal starts at `-2`:
    `dom = max 0 (-2) = 0` but the signal is defined at `-1`. -/
theorem rhoD_isStep_false_var (cfg : DCfg) (v : α) :
    (DEnv.WF [("x", [((-2 : Rat), v)])] (F.var "x" : F α).vars) ∧
      ¬ IsStep (rhoD cfg [("x", [((-2 : Rat), v)])] (F.var "x" : F α))
        (bps cfg [("x", [((-2 : Rat), v)])] (F.var "x" : F α))
        (dom [("x", [((-2 : Rat), v)])] (F.var "x" : F α)) := by
  have hsig : DEnv.sig [("x", [((-2 : Rat), v)])] "x" = [((-2 : Rat), v)] := by
    simp [DEnv.sig, List.lookup]
  refine ⟨fun x hx => ?_, fun h => ?_⟩
  · simp only [F.vars, List.mem_singleton] at hx
    subst hx
    rw [hsig]
    exact ⟨by simp, by simp [DSig.times]⟩
  · have hd : dom [("x", [((-2 : Rat), v)])] (F.var "x" : F α) = 0 := by
      rw [dom_var, hsig]
      simp [DSig.times]
    have h1 := h.1 (-1) (by rw [hd]; norm_num)
    simp only [rhoD, hsig, valAt_cons] at h1
    rw [if_neg (by norm_num)] at h1
    simp at h1

-- (the unrestricted statement `rhoD_isStep` is false before the domain start: see the `_false_` /
-- `_ne_` theorems above; the restricted and partial forms are proved.)


/-- From the start of its domain on, the sample list computed bottom-up for a node represents
    `rhoD` of that node. -/
theorem asFun_sigOf_eq_rhoD (cfg : DCfg) (hs : 0 ≤ cfg.scale) (w : DEnv α) (φ : F α)
    (hsup : supported φ = true) (hw : w.WF φ.vars) :
    ∀ t, dom w φ ≤ t → asFun φ (sigOf cfg w φ) t = rhoD cfg w φ t := by
  induction φ with
  | var x => intro t _; rfl
  | const c => intro t _; rfl
  | un op φ ih =>
    intro t ht
    exact valAt_sample_eq_rhoD cfg w _ _ (rhoD_stepOn cfg hs w _ hsup hw)
      (fun s hs' => opAt_un cfg w op φ _ s (ih hsup hw s hs')) t ht
  | bin op φ ψ ihφ ihψ =>
    intro t ht
    have hsup' := hsup
    simp only [supported, Bool.and_eq_true] at hsup'
    have hwφ : w.WF φ.vars := fun x hx => hw x (List.mem_append_left _ hx)
    have hwψ : w.WF ψ.vars := fun x hx => hw x (List.mem_append_right _ hx)
    have hd := dom_of_vars_append w (φ := .bin op φ ψ) (φ1 := φ) (φ2 := ψ) rfl
    exact valAt_sample_eq_rhoD cfg w _ _ (rhoD_stepOn cfg hs w _ hsup hw)
      (fun s hs' => opAt_bin cfg w op φ ψ _ _ s
        (ihφ hsup'.1 hwφ s (le_trans (le_max_left _ _) (hd ▸ hs')))
        (ihψ hsup'.2 hwψ s (le_trans (le_max_right _ _) (hd ▸ hs')))) t ht
  | tmp1 op φ ih =>
    intro t ht
    have hsup' : supported φ = true := by
      simp only [supported, Bool.and_eq_true] at hsup; exact hsup.2
    exact valAt_sample_eq_rhoD cfg w _ _ (rhoD_stepOn cfg hs w _ hsup hw)
      (fun s hs' => opAt_tmp1 cfg w op φ _ s (ih hsup' hw) hs') t ht
  | tmp2 op φ ψ ihφ ihψ =>
    intro t ht
    have hsup' := hsup
    simp only [supported, Bool.and_eq_true] at hsup'
    have hwφ : w.WF φ.vars := fun x hx => hw x (List.mem_append_left _ hx)
    have hwψ : w.WF ψ.vars := fun x hx => hw x (List.mem_append_right _ hx)
    have hd := dom_of_vars_append w (φ := .tmp2 op φ ψ) (φ1 := φ) (φ2 := ψ) rfl
    exact valAt_sample_eq_rhoD cfg w _ _ (rhoD_stepOn cfg hs w _ hsup hw)
      (fun s hs' => opAt_tmp2 cfg w op φ ψ _ _ s (ihφ hsup'.1 hwφ) (ihψ hsup'.2 hwψ)
        (hd ▸ hs')) t ht
  | tb1 op a b φ ih =>
    intro t ht
    have hsup' : supported φ = true := by
      simp only [supported, Bool.and_eq_true] at hsup; exact hsup.2
    exact valAt_sample_eq_rhoD cfg w _ _ (rhoD_stepOn cfg hs w _ hsup hw)
      (fun s hs' => opAt_tb1 cfg hs w op a b φ _ s (ih hsup' hw) hs') t ht
  | tb2 op a b φ ψ ihφ ihψ =>
    intro t ht
    have hsup' := hsup
    simp only [supported, Bool.and_eq_true] at hsup'
    have hwφ : w.WF φ.vars := fun x hx => hw x (List.mem_append_left _ hx)
    have hwψ : w.WF ψ.vars := fun x hx => hw x (List.mem_append_right _ hx)
    have hd := dom_of_vars_append w (φ := .tb2 op a b φ ψ) (φ1 := φ) (φ2 := ψ) rfl
    exact valAt_sample_eq_rhoD cfg w _ _ (rhoD_stepOn cfg hs w _ hsup hw)
      (fun s hs' => opAt_tb2 cfg hs w op a b φ ψ _ _ s (ihφ hsup'.1.2 hwφ) (ihψ hsup'.2 hwψ)
        (hd ▸ hs')) t ht

/-- `evalAt_eq_rhoD` on the domain of the formula. -/
theorem evalAt_eq_rhoD_partial (cfg : DCfg) (hs : 0 ≤ cfg.scale) (w : DEnv α) (φ : F α)
    (hsup : supported φ = true) (hw : w.WF φ.vars) (t : Rat) (ht : dom w φ ≤ t) :
    evalAt cfg w φ t = rhoD cfg w φ t := by
  unfold evalAt
  rw [if_neg (not_lt.2 ht)]
  exact asFun_sigOf_eq_rhoD cfg hs w φ hsup hw t ht

/-- `evalAt` is the domain-restricted `rhoD`, at every time. -/
theorem evalAt_eq_rhoD_restricted (cfg : DCfg) (hs : 0 ≤ cfg.scale) (w : DEnv α) (φ : F α)
    (hsup : supported φ = true) (hw : w.WF φ.vars) (t : Rat) :
    evalAt cfg w φ t = if t < dom w φ then none else rhoD cfg w φ t := by
  by_cases ht : t < dom w φ
  · unfold evalAt; rw [if_pos ht, if_pos ht]
  · rw [if_neg ht]; exact evalAt_eq_rhoD_partial cfg hs w φ hsup hw t (not_lt.1 ht)

/-- `evalAt_eq_rhoD` at every time, for guarded formulas over signals that start at `≥ 0`. -/
theorem evalAt_eq_rhoD_partial' (cfg : DCfg) (hs : 0 ≤ cfg.scale) (w : DEnv α) (φ : F α)
    (hsup : supported φ = true) (hw : w.WF φ.vars)
    (hguard : guarded φ = true) (hpos : w.NonnegStart φ.vars) (t : Rat) :
    evalAt cfg w φ t = rhoD cfg w φ t := by
  rw [evalAt_eq_rhoD_restricted cfg hs w φ hsup hw t]
  split
  · rename_i ht; exact ((rhoD_none_before cfg w φ hpos).1 hguard t ht).symm
  · rfl

omit [LawfulVal α] in
/-- Counterexample to `evalAt_eq_rhoD` as stated: a constant at a negative time. -/
theorem evalAt_ne_rhoD_const (cfg : DCfg) (w : DEnv α) (c : α) :
    evalAt cfg w (.const c) (-1) ≠ rhoD cfg w (.const c) (-1) := by
  have hd : dom w (F.const c) = 0 := dom_of_vars_nil w rfl
  unfold evalAt
  rw [hd, if_pos (by norm_num)]
  simp [rhoD]

-- (the unrestricted statement `evalAt_eq_rhoD` is false before the domain start: see the `_false_` /
-- `_ne_` theorems above; the restricted and partial forms are proved.)


end Rtamt.Dense
