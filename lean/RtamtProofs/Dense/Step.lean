/-
  Dense time: the executable semantics `rhoD` (Rtamt/Dense/Ref.lean) computes, for
  step-function inputs, the supremum / infimum semantics over closed windows.

  * `IsStep g B d`: `g` is undefined before `d`, defined from `d` on, and constant on every
    interval that contains no point of `B` in its interior-right part (right-continuous step
    function with break-points among `B`).
  * `foldWin_*`: on such a function the finite fold of `foldWin` over `{lo} ∪ (B ∩ (lo, hi])`
    is the least upper bound (greatest lower bound) of the values on the closed window.
  * `rhoD_isStep`: the robustness signal of every dense-time formula is again such a step
    function, with break-points among `bps` and domain `[dom, ∞)` — i.e. `bps` really is a
    superset of the break-points, which is what the bottom-up evaluator `sigOf` relies on.
  * `evalAt_eq_rhoD`: the bottom-up evaluator agrees with the point-wise definition.
-/
import RtamtProofs.Lemmas.Lawful
import Rtamt.Dense.Ref
import Mathlib.Order.Bounds.Basic

namespace Rtamt.Dense
open Rtamt Val

variable {α : Type} [Val α]

/-- `g` is a right-continuous step function on `[d, ∞)` with break-points among `B`. -/
def IsStep (g : Rat → Option α) (B : List Rat) (d : Rat) : Prop :=
  (∀ t, t < d → g t = none) ∧ (∀ t, d ≤ t → (g t).isSome = true) ∧
  (∀ t t', d ≤ t → t ≤ t' → (∀ b ∈ B, ¬ (t < b ∧ b ≤ t')) → g t' = g t)

/-- Dense-time operators only (no prev/next/rise/fall, no precedes), intervals well formed. -/
def supported : F α → Bool
  | .var _ => true
  | .const _ => true
  | .un _ φ => supported φ
  | .bin _ φ ψ => supported φ && supported ψ
  | .tmp1 op φ => (match op with | .once | .hist | .ev | .alw => true | _ => false) && supported φ
  | .tmp2 _ φ ψ => supported φ && supported ψ
  | .tb1 _ a b φ => decide (a ≤ b) && supported φ
  | .tb2 op a b φ ψ => (match op with | .precedes => false | _ => true) && decide (a ≤ b) && supported φ && supported ψ

/-- Every variable of the formula has a non-empty sample list with strictly increasing time stamps. -/
def DEnv.WF (w : DEnv α) (xs : List String) : Prop :=
  ∀ x ∈ xs, w.sig x ≠ [] ∧ (w.sig x).times.Pairwise (· < ·)

variable [LawfulVal α]

theorem valAt_isStep (s : DSig α) (hne : s ≠ []) (hs : s.times.Pairwise (· < ·)) :
    IsStep s.valAt s.times (s.times.head?.getD 0) := by
  sorry

/-- Closed bounded window: the fold is the least upper bound of the values on `[lo, hi]`. -/
theorem foldWin_max_isLUB (g : Rat → Option α) (B : List Rat) (d lo hi : Rat)
    (hg : IsStep g B d) (hlo : d ≤ lo) (hle : lo ≤ hi) :
    ∃ v, foldWin pmax ninf g B lo (some hi) = some v ∧
      IsLUB {y | ∃ t, lo ≤ t ∧ t ≤ hi ∧ g t = some y} v := by
  sorry

theorem foldWin_min_isGLB (g : Rat → Option α) (B : List Rat) (d lo hi : Rat)
    (hg : IsStep g B d) (hlo : d ≤ lo) (hle : lo ≤ hi) :
    ∃ v, foldWin pmin pinf g B lo (some hi) = some v ∧
      IsGLB {y | ∃ t, lo ≤ t ∧ t ≤ hi ∧ g t = some y} v := by
  sorry

/-- Unbounded window `[lo, ∞)` (last value held). -/
theorem foldWin_max_isLUB_unbounded (g : Rat → Option α) (B : List Rat) (d lo : Rat)
    (hg : IsStep g B d) (hlo : d ≤ lo) :
    ∃ v, foldWin pmax ninf g B lo none = some v ∧
      IsLUB {y | ∃ t, lo ≤ t ∧ g t = some y} v := by
  sorry

theorem foldWin_min_isGLB_unbounded (g : Rat → Option α) (B : List Rat) (d lo : Rat)
    (hg : IsStep g B d) (hlo : d ≤ lo) :
    ∃ v, foldWin pmin pinf g B lo none = some v ∧
      IsGLB {y | ∃ t, lo ≤ t ∧ g t = some y} v := by
  sorry

/-- The robustness signal of a dense-time formula on step-function inputs is a step function
    on `[dom, ∞)` whose break-points are among the candidates `bps`. -/
theorem rhoD_isStep (cfg : DCfg) (hs : 0 ≤ cfg.scale) (w : DEnv α) (φ : F α) (hsup : supported φ = true)
    (hw : w.WF φ.vars) :
    IsStep (rhoD cfg w φ) (bps cfg w φ) (dom w φ) := by
  sorry

/-- The bottom-up evaluator (what the driver runs) computes `rhoD`. -/
theorem evalAt_eq_rhoD (cfg : DCfg) (hs : 0 ≤ cfg.scale) (w : DEnv α) (φ : F α) (hsup : supported φ = true)
    (hw : w.WF φ.vars) (t : Rat) :
    evalAt cfg w φ t = rhoD cfg w φ t := by
  sorry

end Rtamt.Dense
