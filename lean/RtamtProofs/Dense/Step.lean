/-
  Dense time: the executable semantics `rhoD` (Rtamt/Dense/Ref.lean) computes, for
  step-function inputs, the supremum / infimum semantics over closed windows.

  * `IsStep g B d`: `g` is undefined before `d`, defined from `d` on, and constant on every
    interval that contains no point of `B` in its interior-right part (right-continuous step
    function with break-points among `B`).
  * `foldWin_*`: on such a function the finite fold of `foldWin` over `{lo} ∪ (B ∩ (lo, hi])`
    is the least upper bound (greatest lower bound) of the values on the closed window.
  * `rhoD_isStep`: the robustness signal of every dense-time formula is again such a step
    function, with break-points among `bps` and domain `[dom, ∞)` — i.e. `bps` really is a
    superset of the break-points, which is what the bottom-up evaluator `sigOf` relies on.
  * `evalAt_eq_rhoD`: the bottom-up evaluator agrees with the point-wise definition.
-/
import RtamtProofs.Lemmas.Lawful
import Rtamt.Dense.Ref
import Mathlib.Order.Bounds.Basic
import RtamtProofs.Dense.StepNodes

namespace Rtamt.Dense
open Rtamt Val

variable {α : Type} [Val α]

/-- `g` is a right-continuous step function on `[d, ∞)` with break-points among `B`. -/
def IsStep (g : Rat → Option α) (B : List Rat) (d : Rat) : Prop :=
  (∀ t, t < d → g t = none) ∧ (∀ t, d ≤ t → (g t).isSome = true) ∧
  (∀ t t', d ≤ t → t ≤ t' → (∀ b ∈ B, ¬ (t < b ∧ b ≤ t')) → g t' = g t)

/-- Dense-time operators only (no prev/next/rise/fall, no precedes), intervals well formed. -/
def supported : F α → Bool
  | .var _ => true
  | .const _ => true
  | .un _ φ => supported φ
  | .bin _ φ ψ => supported φ && supported ψ
  | .tmp1 op φ => (match op with | .once | .hist | .ev | .alw => true | _ => false) && supported φ
  | .tmp2 _ φ ψ => supported φ && supported ψ
  | .tb1 _ a b φ => decide (a ≤ b) && supported φ
  | .tb2 op a b φ ψ => (match op with | .precedes => false | _ => true) && decide (a ≤ b) && supported φ && supported ψ

/-- Every variable of the formula has a non-empty sample list with strictly increasing time stamps. -/
def DEnv.WF (w : DEnv α) (xs : List String) : Prop :=
  ∀ x ∈ xs, w.sig x ≠ [] ∧ (w.sig x).times.Pairwise (· < ·)

omit [Val α] in
theorem IsStep.stepOn {g : Rat → Option α} {B : List Rat} {d : Rat} (h : IsStep g B d) :
    StepOn g B d none :=
  ⟨fun t h1 _ => h.2.1 t h1, fun t t' h1 h2 _ h4 => h.2.2 t t' h1 h2 h4⟩

omit [Val α] in
theorem StepOn.isStep {g : Rat → Option α} {B : List Rat} {d : Rat} (h : StepOn g B d none)
    (h0 : ∀ t, t < d → g t = none) : IsStep g B d :=
  ⟨h0, fun t h1 => h.1 t h1 trivial, fun t t' h1 h2 h4 => h.2 t t' h1 h2 trivial h4⟩

omit [Val α] in
theorem winSet_some_eq (g : Rat → Option α) (lo hi : Rat) :
    winSet g lo (some hi) = {y | ∃ t, lo ≤ t ∧ t ≤ hi ∧ g t = some y} := rfl

omit [Val α] in
theorem winSet_none_eq (g : Rat → Option α) (lo : Rat) :
    winSet g lo none = {y | ∃ t, lo ≤ t ∧ g t = some y} := by
  ext y; simp [winSet, leHi]

variable [LawfulVal α]

set_option linter.unusedSectionVars false in
theorem valAt_isStep (s : DSig α) (hne : s ≠ []) (hs : s.times.Pairwise (· < ·)) :
    IsStep s.valAt s.times (s.times.head?.getD 0) :=
  (valAt_step s hne hs).2.isStep (valAt_step s hne hs).1

/-- Closed bounded window: the fold is the least upper bound of the values on `[lo, hi]`. -/
theorem foldWin_max_isLUB (g : Rat → Option α) (B : List Rat) (d lo hi : Rat)
    (hg : IsStep g B d) (hlo : d ≤ lo) (hle : lo ≤ hi) :
    ∃ v, foldWin pmax ninf g B lo (some hi) = some v ∧
      IsLUB {y | ∃ t, lo ≤ t ∧ t ≤ hi ∧ g t = some y} v := by
  rw [← winSet_some_eq]
  exact foldWin_max_spec (hg.stepOn.restrict hlo (some hi)) hle

theorem foldWin_min_isGLB (g : Rat → Option α) (B : List Rat) (d lo hi : Rat)
    (hg : IsStep g B d) (hlo : d ≤ lo) (hle : lo ≤ hi) :
    ∃ v, foldWin pmin pinf g B lo (some hi) = some v ∧
      IsGLB {y | ∃ t, lo ≤ t ∧ t ≤ hi ∧ g t = some y} v := by
  rw [← winSet_some_eq]
  exact foldWin_min_spec (hg.stepOn.restrict hlo (some hi)) hle

/-- Unbounded window `[lo, ∞)` (last value held). -/
theorem foldWin_max_isLUB_unbounded (g : Rat → Option α) (B : List Rat) (d lo : Rat)
    (hg : IsStep g B d) (hlo : d ≤ lo) :
    ∃ v, foldWin pmax ninf g B lo none = some v ∧
      IsLUB {y | ∃ t, lo ≤ t ∧ g t = some y} v := by
  rw [← winSet_none_eq]
  exact foldWin_max_spec (hg.stepOn.mono_lo hlo) trivial

theorem foldWin_min_isGLB_unbounded (g : Rat → Option α) (B : List Rat) (d lo : Rat)
    (hg : IsStep g B d) (hlo : d ≤ lo) :
    ∃ v, foldWin pmin pinf g B lo none = some v ∧
      IsGLB {y | ∃ t, lo ≤ t ∧ g t = some y} v := by
  rw [← winSet_none_eq]
  exact foldWin_min_spec (hg.stepOn.mono_lo hlo) trivial

omit [Val α] [LawfulVal α] in
theorem scale_bounds (cfg : DCfg) (hs : 0 ≤ cfg.scale) {a b : Nat} (hab : a ≤ b) :
    (0 : Rat) ≤ (a : Rat) * cfg.scale ∧ (a : Rat) * cfg.scale ≤ (b : Rat) * cfg.scale :=
  ⟨mul_nonneg (Nat.cast_nonneg a) hs, mul_le_mul_of_nonneg_right (Nat.cast_le.2 hab) hs⟩

/-- The part of `rhoD_isStep` that holds for every supported formula: `rhoD φ` is defined on
    `[dom, ∞)` and is constant between consecutive candidates of `bps` there. -/
theorem rhoD_stepOn (cfg : DCfg) (hs : 0 ≤ cfg.scale) (w : DEnv α) (φ : F α)
    (hsup : supported φ = true) (hw : w.WF φ.vars) :
    StepOn (rhoD cfg w φ) (bps cfg w φ) (dom w φ) none := by
  induction φ with
  | var x =>
    obtain ⟨hne, hp⟩ := hw x (by simp [F.vars])
    exact (valAt_step (w.sig x) hne hp).2.mono_lo (by rw [dom_var]; exact le_max_right _ _)
  | const c => exact ⟨fun _ _ _ => rfl, fun _ _ _ _ _ _ => rfl⟩
  | un op φ ih => exact stepOn_un op.app (ih hsup hw)
  | bin op φ ψ ihφ ihψ =>
    simp only [supported, Bool.and_eq_true] at hsup
    have hwφ : w.WF φ.vars := fun x hx => hw x (List.mem_append_left _ hx)
    have hwψ : w.WF ψ.vars := fun x hx => hw x (List.mem_append_right _ hx)
    have := stepOn_bin op.app (ihφ hsup.1 hwφ) (ihψ hsup.2 hwψ)
    rw [dom_of_vars_append w (φ := .bin op φ ψ) (φ1 := φ) (φ2 := ψ) rfl]
    exact this
  | tmp1 op φ ih =>
    cases op <;> simp only [supported, Bool.false_and, Bool.true_and] at hsup
    · exact absurd hsup (by simp)
    · exact absurd hsup (by simp)
    · exact absurd hsup (by simp)
    · exact absurd hsup (by simp)
    · exact absurd hsup (by simp)
    · exact absurd hsup (by simp)
    · exact stepOn_past winOp_max (ih hsup hw)
    · exact stepOn_past winOp_min (ih hsup hw)
    · exact stepOn_future winOp_max (ih hsup hw)
    · exact stepOn_future winOp_min (ih hsup hw)
  | tmp2 op φ ψ ihφ ihψ =>
    simp only [supported, Bool.and_eq_true] at hsup
    have hwφ : w.WF φ.vars := fun x hx => hw x (List.mem_append_left _ hx)
    have hwψ : w.WF ψ.vars := fun x hx => hw x (List.mem_append_right _ hx)
    rw [dom_of_vars_append w (φ := .tmp2 op φ ψ) (φ1 := φ) (φ2 := ψ) rfl]
    cases op
    · exact stepOn_since (ihφ hsup.1 hwφ) (ihψ hsup.2 hwψ)
    · exact stepOn_until (ihφ hsup.1 hwφ) (ihψ hsup.2 hwψ)
  | tb1 op a b φ ih =>
    simp only [supported, Bool.and_eq_true, decide_eq_true_eq] at hsup
    obtain ⟨ha', hab'⟩ := scale_bounds cfg hs hsup.1
    have hg := ih hsup.2 hw
    cases op
    · refine stepOn_tb_past winOp_max hg hab' ?_ ?_ <;>
        (intro c hc; simp only [bps, List.mem_append, List.mem_map])
      · exact Or.inl (Or.inl ⟨c, hc, rfl⟩)
      · exact Or.inl (Or.inr ⟨c, hc, rfl⟩)
    · refine stepOn_tb_past winOp_min hg hab' ?_ ?_ <;>
        (intro c hc; simp only [bps, List.mem_append, List.mem_map])
      · exact Or.inl (Or.inl ⟨c, hc, rfl⟩)
      · exact Or.inl (Or.inr ⟨c, hc, rfl⟩)
    · refine stepOn_tb_future winOp_max hg ha' hab' ?_ ?_ <;>
        (intro c hc; simp only [bps, List.mem_append, List.mem_map])
      · exact Or.inl (Or.inl ⟨c, List.mem_cons_of_mem _ hc, rfl⟩)
      · exact Or.inl (Or.inr ⟨c, List.mem_cons_of_mem _ hc, rfl⟩)
    · refine stepOn_tb_future winOp_min hg ha' hab' ?_ ?_ <;>
        (intro c hc; simp only [bps, List.mem_append, List.mem_map])
      · exact Or.inl (Or.inl ⟨c, List.mem_cons_of_mem _ hc, rfl⟩)
      · exact Or.inl (Or.inr ⟨c, List.mem_cons_of_mem _ hc, rfl⟩)
  | tb2 op a b φ ψ ihφ ihψ =>
    have hwφ : w.WF φ.vars := fun x hx => hw x (List.mem_append_left _ hx)
    have hwψ : w.WF ψ.vars := fun x hx => hw x (List.mem_append_right _ hx)
    rw [dom_of_vars_append w (φ := .tb2 op a b φ ψ) (φ1 := φ) (φ2 := ψ) rfl]
    cases op <;> simp only [supported, Bool.and_eq_true, decide_eq_true_eq, Bool.false_and,
      Bool.true_and] at hsup
    · obtain ⟨ha', hab'⟩ := scale_bounds cfg hs hsup.1.1
      refine stepOn_tb_since (ihφ hsup.1.2 hwφ) (ihψ hsup.2 hwψ) ha' hab' ?_ ?_ ?_ <;>
        (intro c hc; simp only [bps, List.mem_append, List.mem_map])
      · exact Or.inl (Or.inl (List.mem_cons_of_mem _ hc))
      · exact Or.inl (Or.inr ⟨c, hc, rfl⟩)
      · exact Or.inr ⟨c, hc, rfl⟩
    · obtain ⟨ha', hab'⟩ := scale_bounds cfg hs hsup.1.1
      refine stepOn_tb_until (ihφ hsup.1.2 hwφ) (ihψ hsup.2 hwψ) ha' hab' ?_ ?_ ?_ <;>
        (intro c hc; simp only [bps, List.mem_append, List.mem_map])
      · exact Or.inl (Or.inl (List.mem_cons_of_mem _ hc))
      · exact Or.inl (Or.inr ⟨c, List.mem_cons_of_mem _ hc, rfl⟩)
      · exact Or.inr ⟨c, List.mem_cons_of_mem _ hc, rfl⟩
    · exact absurd hsup (by simp)

/-- The robustness signal of a dense-time formula on step-function inputs is a step function
    on `[dom, ∞)` whose break-points are among the candidates `bps`. -/
theorem rhoD_isStep (cfg : DCfg) (hs : 0 ≤ cfg.scale) (w : DEnv α) (φ : F α) (hsup : supported φ = true)
    (hw : w.WF φ.vars) :
    IsStep (rhoD cfg w φ) (bps cfg w φ) (dom w φ) := by
  sorry

/-- The bottom-up evaluator (what the driver runs) computes `rhoD`. -/
theorem evalAt_eq_rhoD (cfg : DCfg) (hs : 0 ≤ cfg.scale) (w : DEnv α) (φ : F α) (hsup : supported φ = true)
    (hw : w.WF φ.vars) (t : Rat) :
    evalAt cfg w φ t = rhoD cfg w φ t := by
  sorry

end Rtamt.Dense
