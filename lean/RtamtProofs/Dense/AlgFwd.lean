import RtamtProofs.Dense.AlgDefs
import RtamtProofs.Dense.AlgInter
import Mathlib.Tactic.Linarith
import Mathlib.Tactic.Order
import Mathlib.Order.WithBot
import Mathlib.Order.Bounds.Basic

namespace Rtamt.Dense.Alg
open Rtamt Val

namespace FwdAux

/-! ### `Tm` as a linear order -/

def toW : Tm → WithTop ℚ
  | .fin q => (q : WithTop ℚ)
  | .inf => ⊤

theorem toW_inj : Function.Injective toW := by
  intro x y h
  cases x <;> cases y <;> simp [toW] at h <;> simp [h]

scoped instance tmOrder : LinearOrder Tm := LinearOrder.lift' toW toW_inj

theorem tm_le_def (x y : Tm) : x ≤ y ↔ toW x ≤ toW y := Iff.rfl
theorem tm_lt_def (x y : Tm) : x < y ↔ toW x < toW y := Iff.rfl

@[simp] theorem fin_le_fin (p q : ℚ) : Tm.fin p ≤ Tm.fin q ↔ p ≤ q := by simp [tm_le_def, toW]
@[simp] theorem fin_lt_fin (p q : ℚ) : Tm.fin p < Tm.fin q ↔ p < q := by simp [tm_lt_def, toW]
@[simp] theorem le_inf (x : Tm) : x ≤ Tm.inf := by simp [tm_le_def, toW]
@[simp] theorem fin_lt_inf (p : ℚ) : Tm.fin p < Tm.inf := by simp [tm_lt_def, toW]
@[simp] theorem not_inf_lt (x : Tm) : ¬ Tm.inf < x := by simp [tm_lt_def, toW]
@[simp] theorem not_inf_le_fin (p : ℚ) : ¬ Tm.inf ≤ Tm.fin p := by simp [tm_le_def, toW]

theorem lt_iff (x y : Tm) : Tm.lt x y = true ↔ x < y := by
  cases x <;> cases y <;> simp [Tm.lt]
theorem lt_false_iff (x y : Tm) : Tm.lt x y = false ↔ y ≤ x := by
  cases x <;> cases y <;> simp [Tm.lt]
theorem le_iff (x y : Tm) : Tm.le x y = true ↔ x ≤ y := by
  simp [Tm.le, lt_false_iff]

theorem exists_fin_of_lt {x y : Tm} (h : x < y) : ∃ q, x = Tm.fin q := by
  cases x with
  | fin q => exact ⟨q, rfl⟩
  | inf => exact absurd h (not_inf_lt y)

theorem exists_fin_of_le_fin {x : Tm} {t : ℚ} (h : x ≤ Tm.fin t) : ∃ q, x = Tm.fin q := by
  cases x with
  | fin q => exact ⟨q, rfl⟩
  | inf => exact absurd h (not_inf_le_fin t)

@[simp] theorem add_fin (p q : ℚ) : Tm.add (Tm.fin p) q = Tm.fin (p + q) := rfl
@[simp] theorem add_inf (q : ℚ) : Tm.add Tm.inf q = Tm.inf := rfl
@[simp] theorem zero_eq : Tm.zero = Tm.fin 0 := rfl


/-! ### segments, the value function of a stack -/

section core
variable {α : Type}

/-- `t ∈ [lo, hi)`. -/
def Has (x : Seg α) (t : ℚ) : Prop := x.lo ≤ Tm.fin t ∧ Tm.fin t < x.hi

/-- The sample list read off the stack (before `dedup`). -/
def pre (stk : List (Seg α)) : ASig α := stk.reverse.map (fun g => (g.lo, g.v))

/-- Consecutive non-degenerate segments starting at 0 (top first). -/
def Chain : List (Seg α) → Prop
  | [] => False
  | [x] => x.lo = Tm.fin 0 ∧ x.lo < x.hi
  | x :: y :: r => y.hi = x.lo ∧ x.lo < x.hi ∧ Chain (y :: r)

theorem Chain.top_lt {x : Seg α} {r : List (Seg α)} (h : Chain (x :: r)) : x.lo < x.hi := by
  cases r with
  | nil => exact h.2
  | cons y r => exact h.2.1

theorem Chain.zero_le {x : Seg α} {r : List (Seg α)} (h : Chain (x :: r)) : Tm.fin 0 ≤ x.lo := by
  induction r generalizing x with
  | nil => exact le_of_eq h.1.symm
  | cons y r ih =>
    have h1 := ih h.2.2
    have h2 := h.2.2.top_lt
    have h3 := h.1
    order

/-- Cutting the top segment. -/
theorem Chain.cut {x : Seg α} {r : List (Seg α)} (h : Chain (x :: r)) {c : Tm} (hc : x.lo < c) :
    Chain (⟨x.lo, c, x.v⟩ :: r) := by
  cases r with
  | nil => exact ⟨h.1, hc⟩
  | cons y r => exact ⟨h.1, hc, h.2.2⟩

/-- Replacing the top segment by one with the same start. -/
theorem Chain.replace {x : Seg α} {r : List (Seg α)} (h : Chain (x :: r)) {z : Seg α} (hlo : z.lo = x.lo)
    (hz : z.lo < z.hi) : Chain (z :: r) := by
  cases r with
  | nil => exact ⟨hlo.trans h.1, hz⟩
  | cons y r => exact ⟨h.1.trans hlo.symm, hz, h.2.2⟩


theorem Chain.lo_lt {x : Seg α} {r : List (Seg α)} (h : Chain (x :: r)) : ∀ y ∈ r, y.lo < x.lo := by
  induction r generalizing x with
  | nil => intro y hy; cases hy
  | cons z r ih =>
    intro y hy
    have h1 := h.1
    have h2 := h.2.2.top_lt
    rcases List.mem_cons.1 hy with rfl | hy
    · order
    · have := ih h.2.2 y hy; order

theorem pre_cons (x : Seg α) (r : List (Seg α)) : pre (x :: r) = pre r ++ [(x.lo, x.v)] := by
  simp [pre]

theorem mem_pre {p : Tm × α} {stk : List (Seg α)} (h : p ∈ pre stk) : ∃ y ∈ stk, y.lo = p.1 := by
  simp only [pre, List.mem_map, List.mem_reverse] at h
  obtain ⟨y, hy, rfl⟩ := h
  exact ⟨y, hy, rfl⟩

theorem valAtA_snoc_lt {β : Type} (l : ASig β) (τ : Tm) (v : β) (t : ℚ) (h : Tm.fin t < τ) :
    valAtA (l ++ [(τ, v)]) t = valAtA l t := by
  induction l with
  | nil => simp [valAtA, (lt_iff _ _).2 h]
  | cons p l ih =>
    obtain ⟨σ, w⟩ := p
    simp only [List.cons_append, valAtA, ih]

theorem valAtA_snoc_ge {β : Type} (l : ASig β) (τ : Tm) (v : β) (t : ℚ) (hl : ∀ p ∈ l, p.1 ≤ Tm.fin t)
    (h : τ ≤ Tm.fin t) : valAtA (l ++ [(τ, v)]) t = some v := by
  induction l with
  | nil => simp [valAtA, (lt_false_iff _ _).2 h]
  | cons p l ih =>
    obtain ⟨σ, w⟩ := p
    have h1 : Tm.lt (Tm.fin t) σ = false := (lt_false_iff _ _).2 (hl (σ, w) (List.mem_cons_self ..))
    simp only [List.cons_append, valAtA, ih (fun p hp => hl p (List.mem_cons_of_mem _ hp)), h1]
    simp

theorem sorted_snoc {β : Type} {l : ASig β} {τ : Tm} {v : β} (h : Sorted l) (hl : ∀ p ∈ l, p.1 < τ) :
    Sorted (l ++ [(τ, v)]) := by
  unfold Sorted times at *
  rw [List.map_append, List.pairwise_append]
  refine ⟨h, by simp, ?_⟩
  intro a ha b hb
  simp only [List.map_cons, List.map_nil, List.mem_singleton] at hb
  subst hb
  obtain ⟨p, hp, rfl⟩ := List.mem_map.1 ha
  exact (lt_iff _ _).2 (hl p hp)

theorem infOK_of_fin {β : Type} {l : ASig β} (hl : ∀ p ∈ l, p.1 < Tm.inf) : InfOK l := by
  intro p a v e
  have : (Tm.inf, v) ∈ l := by rw [e]; simp
  exact absurd (hl _ this) (lt_irrefl _)

theorem infOK_snoc {β : Type} (l : ASig β) (a : Tm × β) (τ : Tm) : InfOK (l ++ [a, (τ, a.2)]) := by
  intro p a' v e
  have := (List.append_inj' e (by simp)).2
  simp only [List.cons.injEq, and_true, Prod.mk.injEq] at this
  rw [← this.1, this.2.2]

theorem wfa_snoc {β : Type} {l : ASig β} {τ : Tm} {v : β} {d : ℚ} (h : WFA l d) (hl : ∀ p ∈ l, p.1 < τ)
    (hi : InfOK (l ++ [(τ, v)])) : WFA (l ++ [(τ, v)]) d := by
  refine ⟨sorted_snoc h.sorted hl, ?_, hi⟩
  have := h.start
  unfold times at *
  cases l with
  | nil => simp at this
  | cons p l => simpa using this

theorem Chain.wfa_pre {x : Seg α} {r : List (Seg α)} (h : Chain (x :: r)) : WFA (pre (x :: r)) 0 := by
  induction r generalizing x with
  | nil =>
    refine ⟨by simp [Sorted, times, pre], ?_, ?_⟩
    · simp [times, pre, h.1]
    · refine infOK_of_fin (fun p hp => ?_)
      obtain ⟨z, hz, hzp⟩ := mem_pre hp
      simp only [List.mem_singleton] at hz
      subst hz
      rw [← hzp]
      exact lt_of_lt_of_le h.2 (le_inf _)
  | cons y r ih =>
    rw [pre_cons]
    refine wfa_snoc (ih h.2.2) (fun p hp => ?_) ?_
    rotate_left
    · refine infOK_of_fin (fun p hp => ?_)
      rw [← pre_cons] at hp
      obtain ⟨z, hz, hzp⟩ := mem_pre hp
      rw [← hzp]
      rcases List.mem_cons.1 hz with rfl | hz
      · exact lt_of_lt_of_le h.top_lt (le_inf _)
      · exact lt_of_lt_of_le (h.lo_lt z hz) (le_inf _)
    obtain ⟨z, hz, hzp⟩ := mem_pre hp
    rw [← hzp]
    exact h.lo_lt z hz


/-! ### the segments of a sample list -/

theorem sorted_cons {β : Type} {p : Tm × β} {l : ASig β} (h : Sorted (p :: l)) :
    (∀ p' ∈ l, p.1 < p'.1) ∧ Sorted l := by
  unfold Sorted times at *
  rw [List.map_cons, List.pairwise_cons] at h
  exact ⟨fun p' hp' => (lt_iff _ _).1 (h.1 _ (List.mem_map_of_mem hp')), h.2⟩

theorem infOK_tail {β : Type} {p : Tm × β} {l : ASig β} (h : InfOK (p :: l)) : InfOK l := by
  intro q a v e
  exact h (p :: q) a v (by rw [e]; rfl)

theorem valAtA_cons_none {β : Type} (τ : Tm) (v : β) (l : ASig β) (u : ℚ) :
    valAtA ((τ, v) :: l) u = none ↔ Tm.fin u < τ := by
  rw [valAtA]
  by_cases h : Tm.fin u < τ
  · simp [(lt_iff _ _).2 h, h]
  · have : Tm.lt (Tm.fin u) τ = false := (lt_false_iff _ _).2 (not_lt.1 h)
    simp only [this, h, iff_false]
    cases valAtA l u <;> simp

theorem valAtA_cons_some {β : Type} {τ : Tm} {v : β} {l : ASig β} {u : ℚ} (h : τ ≤ Tm.fin u) :
    valAtA ((τ, v) :: l) u = some ((valAtA l u).getD v) := by
  rw [valAtA, (lt_false_iff _ _).2 h]
  cases valAtA l u <;> simp

theorem valAtA_some_ge {β : Type} {τ : Tm} {v y : β} {l : ASig β} {u : ℚ}
    (h : valAtA ((τ, v) :: l) u = some y) : τ ≤ Tm.fin u := by
  by_contra hc
  rw [(valAtA_cons_none τ v l u).2 (not_le.1 hc)] at h
  cases h

theorem wfa_some_ge {β : Type} {l : ASig β} {d : ℚ} (h : WFA l d) {u : ℚ} {y : β} (hu : valAtA l u = some y) :
    d ≤ u := by
  cases l with
  | nil => simp [valAtA] at hu
  | cons p l =>
    obtain ⟨τ, v⟩ := p
    have h1 := h.start
    simp only [times, List.map_cons, List.head?_cons, Option.some.injEq] at h1
    have := valAtA_some_ge hu
    rw [h1] at this
    exact (fin_le_fin _ _).1 this

theorem fwdSegs_cons2 (a b : ℚ) (τ τ' : Tm) (v v' : α) (l : ASig α) :
    fwdSegs a b ((τ, v) :: (τ', v') :: l) = ⟨τ.add a, τ'.add b, v⟩ :: fwdSegs a b ((τ', v') :: l) := rfl

theorem fwdSegs_one (a b : ℚ) (τ : Tm) (v : α) : fwdSegs a b [(τ, v)] = [⟨τ.add a, Tm.inf, v⟩] := rfl

/-- Every segment containing `t` carries a value the signal takes in the window `[t-b, t-a]`. -/
theorem seg_sound {a b : ℚ} (hab : a ≤ b) {s : ASig α} (hs : Sorted s) {seg : Seg α}
    (hseg : seg ∈ fwdSegs a b s) {t : ℚ} (ht : Has seg t) :
    ∃ u, u + a ≤ t ∧ t ≤ u + b ∧ valAtA s u = some seg.v := by
  induction s with
  | nil => simp [fwdSegs] at hseg
  | cons p s ih =>
    obtain ⟨τ, v⟩ := p
    cases s with
    | nil =>
      rw [fwdSegs_one, List.mem_singleton] at hseg
      subst hseg
      obtain ⟨q, rfl⟩ : ∃ q, τ = Tm.fin q := by
        cases τ with
        | fin q => exact ⟨q, rfl⟩
        | inf => exact absurd ht.1 (not_inf_le_fin t)
      have h1 : q + a ≤ t := (fin_le_fin _ _).1 ht.1
      have hm : max (t - b) q ≤ t - a := max_le (by linarith) (by linarith)
      refine ⟨max (t - b) q, by linarith, by have := le_max_left (t - b) q; linarith, ?_⟩
      rw [valAtA_cons_some ((fin_le_fin _ _).2 (le_max_right _ _))]
      simp [valAtA]
    | cons p' s =>
      obtain ⟨τ', v'⟩ := p'
      obtain ⟨hs1, hs2⟩ := sorted_cons hs
      have hττ' : τ < τ' := hs1 _ (List.mem_cons_self ..)
      rw [fwdSegs_cons2, List.mem_cons] at hseg
      rcases hseg with rfl | hseg
      · obtain ⟨q, rfl⟩ : ∃ q, τ = Tm.fin q := exists_fin_of_lt hττ'
        have h1 : q + a ≤ t := (fin_le_fin _ _).1 ht.1
        have h2 : Tm.fin t < τ'.add b := ht.2
        have hm : max (t - b) q ≤ t - a := max_le (by linarith) (by linarith)
        refine ⟨max (t - b) q, by linarith, by have := le_max_left (t - b) q; linarith, ?_⟩
        have h3 : Tm.fin (max (t - b) q) < τ' := by
          cases τ' with
          | inf => exact fin_lt_inf _
          | fin q' =>
            have h4 : t < q' + b := (fin_lt_fin _ _).1 h2
            have h5 : q < q' := (fin_lt_fin _ _).1 hττ'
            exact (fin_lt_fin _ _).2 (max_lt (by linarith) h5)
        rw [valAtA_cons_some ((fin_le_fin _ _).2 (le_max_right _ _)), (valAtA_cons_none τ' v' s _).2 h3]
        rfl
      · obtain ⟨u, u1, u2, u3⟩ := ih hs2 hseg
        refine ⟨u, u1, u2, ?_⟩
        have := valAtA_some_ge u3
        rw [valAtA_cons_some (le_trans (le_of_lt hττ') this), u3]
        rfl

/-- Every value of the signal is carried by a segment. -/
theorem seg_complete {a b : ℚ} {s : ASig α} {u : ℚ} {y : α} (hy : valAtA s u = some y) :
    ∃ seg ∈ fwdSegs a b s, seg.v = y ∧ seg.lo ≤ Tm.fin (u + a) ∧ Tm.fin (u + b) < seg.hi := by
  induction s generalizing y with
  | nil => simp [valAtA] at hy
  | cons p s ih =>
    obtain ⟨τ, v⟩ := p
    have hτ := valAtA_some_ge hy
    obtain ⟨q, rfl⟩ := exists_fin_of_le_fin hτ
    have hq : q ≤ u := (fin_le_fin _ _).1 hτ
    rw [valAtA_cons_some hτ] at hy
    cases s with
    | nil =>
      refine ⟨_, by rw [fwdSegs_one]; exact List.mem_singleton.2 rfl, ?_, ?_, fin_lt_inf _⟩
      · simpa [valAtA] using hy
      · exact (fin_le_fin _ _).2 (by linarith)
    | cons p' s =>
      obtain ⟨τ', v'⟩ := p'
      rw [fwdSegs_cons2]
      cases hv : valAtA ((τ', v') :: s) u with
      | some y' =>
        rw [hv] at hy
        obtain ⟨seg, m1, m2, m3, m4⟩ := ih hv
        refine ⟨seg, List.mem_cons_of_mem _ m1, ?_, m3, m4⟩
        rw [m2]; simpa using hy
      | none =>
        rw [hv] at hy
        refine ⟨_, List.mem_cons_self .., by simpa using hy, (fin_le_fin _ _).2 (by linarith), ?_⟩
        have := (valAtA_cons_none τ' v' s u).1 hv
        cases τ' with
        | inf => exact fin_lt_inf _
        | fin q' => exact (fin_lt_fin _ _).2 (by have := (fin_lt_fin _ _).1 this; linarith)

variable [LinearOrder α] [OrderBot α]

open Classical in
/-- The value of the (topmost) segment containing `t`; `⊥` if there is none. -/
noncomputable def segval : List (Seg α) → ℚ → α
  | [], _ => ⊥
  | x :: r, t => if Has x t then x.v else segval r t

/-- Beyond the top end the value function is `⊥`. -/
theorem Chain.segval_bot {x : Seg α} {r : List (Seg α)} (h : Chain (x :: r)) {t : ℚ} (ht : x.hi ≤ Tm.fin t) :
    segval (x :: r) t = ⊥ := by
  induction r generalizing x with
  | nil =>
    have : ¬ Has x t := fun hh => absurd hh.2 (not_lt.2 ht)
    simp [segval, this]
  | cons y r ih =>
    have : ¬ Has x t := fun hh => absurd hh.2 (not_lt.2 ht)
    have h1 := h.1
    have h2 := h.2.1
    have := ih h.2.2 (by order)
    rw [segval, if_neg ‹¬ Has x t›, this]

theorem segval_bot_tail {x : Seg α} {r : List (Seg α)} (h : Chain (x :: r)) {t : ℚ} (ht : x.lo ≤ Tm.fin t) :
    segval r t = ⊥ := by
  cases r with
  | nil => rfl
  | cons y r =>
    have h1 := h.1
    exact h.2.2.segval_bot (by order)


theorem segval_cons_of_lt (x : Seg α) (r : List (Seg α)) {t : ℚ} (ht : Tm.fin t < x.lo) :
    segval (x :: r) t = segval r t := by
  have : ¬ Has x t := fun hh => absurd hh.1 (not_le.2 ht)
  rw [segval, if_neg this]


theorem segval_cons_has {x : Seg α} (r : List (Seg α)) {t : ℚ} (h : Has x t) : segval (x :: r) t = x.v := by
  rw [segval, if_pos h]

theorem segval_cons_not {x : Seg α} (r : List (Seg α)) {t : ℚ} (h : ¬ Has x t) :
    segval (x :: r) t = segval r t := by
  rw [segval, if_neg h]

/-- The stack invariant: a chain with top end `H` whose value function is antitone from `L` on. -/
structure Inv (stk : List (Seg α)) (L H : Tm) : Prop where
  chain : Chain stk
  top : ∃ x r, stk = x :: r ∧ x.hi = H
  anti : ∀ t t', L ≤ Tm.fin t → t ≤ t' → segval stk t' ≤ segval stk t

/-- The next segment fits the stack `(L, H)`. -/
def Good (L H : Tm) (b : Seg α) : Prop := L ≤ b.lo ∧ b.lo ≤ H ∧ H < b.hi ∧ b.lo < b.hi

open Classical in
/-- The effect of a segment on the ideal value at `t`. -/
noncomputable def stepF (t : ℚ) (acc : α) (b : Seg α) : α := if Has b t then max acc b.v else acc

theorem anti_step {F F' : ℚ → α} {b : Seg α} {L : Tm} (hF' : ∀ t, F' t = stepF t (F t) b)
    (hF : ∀ t t', L ≤ Tm.fin t → t ≤ t' → F t' ≤ F t) (hL : L ≤ b.lo)
    (hbot : ∀ t, b.hi ≤ Tm.fin t → F t = ⊥) :
    ∀ t t', b.lo ≤ Tm.fin t → t ≤ t' → F' t' ≤ F' t := by
  intro t t' h1 h2
  have h3 : Tm.fin t ≤ Tm.fin t' := (fin_le_fin _ _).2 h2
  rw [hF', hF']
  unfold stepF
  by_cases hb' : Has b t'
  · have hb : Has b t := ⟨h1, lt_of_le_of_lt h3 hb'.2⟩
    rw [if_pos hb', if_pos hb]
    exact max_le_max (hF t t' (by order) h2) (le_refl _)
  · have : b.hi ≤ Tm.fin t' := by
      by_contra hcon
      exact hb' ⟨by order, not_le.1 hcon⟩
    rw [if_neg hb', hbot t' this]
    exact bot_le

variable (worse : α → α → Bool) (hw : ∀ x y, worse x y = true ↔ x < y)
include hw

/-- `popWhile` on a chain: it stops at some segment `a`; below `a.hi` nothing has changed, everything removed
    was at most `b.v`. -/
theorem popWhile_spec (b : Seg α) (hb : Tm.fin 0 ≤ b.lo) (x : Seg α) (r : List (Seg α)) (h : Chain (x :: r)) :
    ∃ a rest, popWhile worse b (x :: r) = .ok (a :: rest) ∧ Chain (a :: rest) ∧
      (¬ a.v < b.v ∨ a.lo ≤ b.lo) ∧
      (∀ t, Tm.fin t < a.hi → segval (x :: r) t = segval (a :: rest) t) ∧
      (∀ t, a.hi ≤ Tm.fin t → segval (x :: r) t ≤ b.v) ∧
      (a.hi = x.hi ∨ b.lo < a.hi) ∧ a.hi ≤ x.hi := by
  induction r generalizing x with
  | nil =>
    refine ⟨x, [], ?_, h, ?_, fun t _ => rfl, fun t ht => ?_, Or.inl rfl, le_refl _⟩
    · have h1 := h.1
      have : Tm.lt b.lo x.lo = false := by rw [lt_false_iff]; order
      rw [popWhile, this]; simp
    · right; have h1 := h.1; order
    · rw [h.segval_bot ht]; exact bot_le
  | cons y r ih =>
    by_cases hc : x.v < b.v ∧ b.lo < x.lo
    · obtain ⟨a, rest, e1, e2, e3, e4, e5, e6, e7⟩ := ih y h.2.2
      have h1 := h.1
      have h2 := h.2.1
      refine ⟨a, rest, ?_, e2, e3, fun t ht => ?_, fun t ht => ?_, Or.inr ?_, by order⟩
      · have c1 : worse x.v b.v = true := (hw _ _).2 hc.1
        have c2 : Tm.lt b.lo x.lo = true := (lt_iff _ _).2 hc.2
        rw [popWhile, c1, c2]; simpa using e1
      · rw [segval_cons_of_lt x (y :: r) (by order)]; exact e4 t ht
      · rw [segval]
        split
        · exact le_of_lt hc.1
        · exact e5 t ht
      · rcases e6 with e6 | e6
        · have := hc.2; order
        · exact e6
    · refine ⟨x, y :: r, ?_, h, ?_, fun t _ => rfl, fun t ht => ?_, Or.inl rfl, le_refl _⟩
      · have : (worse x.v b.v && Tm.lt b.lo x.lo) = false := by
          rw [Bool.and_eq_false_iff]
          by_cases c : x.v < b.v
          · right; rw [lt_false_iff]; exact not_lt.1 (fun c' => hc ⟨c, c'⟩)
          · left; rw [Bool.eq_false_iff]; intro c'; exact c ((hw _ _).1 c')
        rw [popWhile, this]; rfl
      · by_cases c : x.v < b.v
        · right; exact not_lt.1 (fun c' => hc ⟨c, c'⟩)
        · left; exact c
      · rw [h.segval_bot ht]; exact bot_le


omit hw [LinearOrder α] [OrderBot α] in
theorem pushSeg_eq (x : Seg α) (r : List (Seg α)) (b a : Seg α) (rest : List (Seg α))
    (e : popWhile worse b (x :: r) = .ok (a :: rest)) :
    pushSeg worse (x :: r) b =
      if !intersects a.lo a.hi b.lo b.hi then .ok (b :: a :: rest)
      else if !worse a.v b.v then .ok (⟨a.hi, b.hi, b.v⟩ :: a :: rest)
      else .ok (⟨b.lo, b.hi, b.v⟩ :: (if Tm.lt a.lo b.lo then ⟨a.lo, b.lo, a.v⟩ :: rest else rest)) := by
  simp only [pushSeg, e]
  rfl


theorem pushSeg_spec {stk : List (Seg α)} {L H : Tm} (hI : Inv stk L H) (hL : Tm.fin 0 ≤ L) {b : Seg α}
    (hg : Good L H b) :
    ∃ stk', pushSeg worse stk b = .ok stk' ∧ Inv stk' b.lo b.hi ∧ (∃ y r', stk' = y :: r' ∧ y.v = b.v) ∧
      ∀ t, segval stk' t = stepF t (segval stk t) b := by
  obtain ⟨x, r, rfl, hxH⟩ := hI.top
  obtain ⟨g1, g2, g3, g4⟩ := hg
  have hch := hI.chain
  obtain ⟨a, rest, e1, e2, e3, e4, e5, e6, e7⟩ := popWhile_spec worse hw b (by order) x r hch
  have hbot : ∀ t, b.hi ≤ Tm.fin t → segval (x :: r) t = ⊥ := fun t ht => hch.segval_bot (by order)
  have halo := e2.top_lt
  have hbahi : b.lo ≤ a.hi := by rcases e6 with e6 | e6 <;> order
  have hint : intersects a.lo a.hi b.lo b.hi = true := by
    simp only [intersects, Bool.and_eq_true, le_iff]
    exact ⟨by order, hbahi⟩
  suffices hs : ∃ stk', pushSeg worse (x :: r) b = .ok stk' ∧ Chain stk' ∧
      (∃ y r', stk' = y :: r' ∧ y.hi = b.hi ∧ y.v = b.v) ∧
      ∀ t, segval stk' t = stepF t (segval (x :: r) t) b by
    obtain ⟨stk', p1, p2, ⟨y, r', p3, p3', p3''⟩, p4⟩ := hs
    exact ⟨stk', p1, ⟨p2, ⟨y, r', p3, p3'⟩, anti_step p4 hI.anti g1 hbot⟩, ⟨y, r', p3, p3''⟩, p4⟩
  rw [pushSeg_eq worse x r b a rest e1, hint]
  by_cases hwv : a.v < b.v
  · have c1 : worse a.v b.v = true := (hw _ _).2 hwv
    have hle : a.lo ≤ b.lo := by
      rcases e3 with e3 | e3
      · exact absurd hwv e3
      · exact e3
    simp only [c1, Bool.not_true, Bool.false_eq_true, if_false]
    have hbv : ∀ t, Has b t → segval (x :: r) t ≤ b.v := by
      intro t hb
      by_cases h1 : Tm.fin t < a.hi
      · have ha : Has a t := ⟨by have := hb.1; order, h1⟩
        rw [e4 t h1, segval_cons_has _ ha]; exact le_of_lt hwv
      · exact e5 t (not_lt.1 h1)
    by_cases hlt : a.lo < b.lo
    · have c2 : Tm.lt a.lo b.lo = true := (lt_iff _ _).2 hlt
      simp only [c2, if_true]
      refine ⟨_, rfl, ⟨rfl, g4, e2.cut hlt⟩, ⟨_, _, rfl, rfl, rfl⟩, fun t => ?_⟩
      unfold stepF
      by_cases hb : Has b t
      · have hn : Has (⟨b.lo, b.hi, b.v⟩ : Seg α) t := hb
        rw [segval_cons_has _ hn, if_pos hb, max_eq_right (hbv t hb)]
      · have hn : ¬ Has (⟨b.lo, b.hi, b.v⟩ : Seg α) t := hb
        rw [segval_cons_not _ hn, if_neg hb]
        by_cases h1 : Tm.fin t < b.lo
        · rw [e4 t (by order)]
          by_cases ha : a.lo ≤ Tm.fin t
          · have ha1 : Has a t := ⟨ha, by order⟩
            have ha2 : Has (⟨a.lo, b.lo, a.v⟩ : Seg α) t := ⟨ha, h1⟩
            rw [segval_cons_has _ ha1, segval_cons_has _ ha2]
          · have ha1 : ¬ Has a t := fun hh => ha hh.1
            have ha2 : ¬ Has (⟨a.lo, b.lo, a.v⟩ : Seg α) t := fun hh => ha hh.1
            rw [segval_cons_not _ ha1, segval_cons_not _ ha2]
        · have h2 : b.hi ≤ Tm.fin t := by
            by_contra hcon; exact hb ⟨not_lt.1 h1, not_le.1 hcon⟩
          have ha2 : ¬ Has (⟨a.lo, b.lo, a.v⟩ : Seg α) t := fun hh => h1 hh.2
          rw [segval_cons_not _ ha2, hbot t h2, segval_bot_tail e2 (by order)]
    · have heq : a.lo = b.lo := le_antisymm hle (not_lt.1 hlt)
      have c2 : Tm.lt a.lo b.lo = false := (lt_false_iff _ _).2 (not_lt.1 hlt)
      simp only [c2, Bool.false_eq_true, if_false]
      refine ⟨_, rfl, e2.replace (z := ⟨b.lo, b.hi, b.v⟩) heq.symm g4, ⟨_, _, rfl, rfl, rfl⟩, fun t => ?_⟩
      unfold stepF
      by_cases hb : Has b t
      · have hn : Has (⟨b.lo, b.hi, b.v⟩ : Seg α) t := hb
        rw [segval_cons_has _ hn, if_pos hb, max_eq_right (hbv t hb)]
      · have hn : ¬ Has (⟨b.lo, b.hi, b.v⟩ : Seg α) t := hb
        rw [segval_cons_not _ hn, if_neg hb]
        by_cases h1 : Tm.fin t < b.lo
        · have ha1 : ¬ Has a t := fun hh => by have := hh.1; order
          rw [e4 t (by order), segval_cons_not _ ha1]
        · have h2 : b.hi ≤ Tm.fin t := by
            by_contra hcon; exact hb ⟨not_lt.1 h1, not_le.1 hcon⟩
          rw [hbot t h2, segval_bot_tail e2 (by order)]
  · have c1 : worse a.v b.v = false := by rw [Bool.eq_false_iff]; exact fun c => hwv ((hw _ _).1 c)
    have hva : b.v ≤ a.v := not_lt.1 hwv
    simp only [c1, Bool.not_true, Bool.not_false, Bool.false_eq_true, if_false, if_true]
    refine ⟨_, rfl, ⟨rfl, by show a.hi < b.hi; order, e2⟩, ⟨_, _, rfl, rfl, rfl⟩, fun t => ?_⟩
    unfold stepF
    by_cases h1 : Tm.fin t < a.hi
    · have hn : ¬ Has (⟨a.hi, b.hi, b.v⟩ : Seg α) t := fun hh => absurd hh.1 (not_le.2 h1)
      rw [segval_cons_not _ hn, e4 t h1]
      by_cases hb : Has b t
      · rw [if_pos hb]
        refine (max_eq_left ?_).symm
        by_cases ha : Has a t
        · rw [segval_cons_has _ ha]; exact hva
        · obtain ⟨q, hq⟩ := exists_fin_of_lt halo
          have hqt : Tm.fin t < Tm.fin q := by
            rw [← hq]; by_contra hcon; exact ha ⟨not_lt.1 hcon, h1⟩
          have hqa : Has a q := ⟨le_of_eq hq, by rw [← hq]; exact halo⟩
          have := hI.anti t q (by have := hb.1; order) (le_of_lt ((fin_lt_fin _ _).1 hqt))
          rw [e4 q hqa.2, e4 t h1, segval_cons_has _ hqa] at this
          exact le_trans hva this
      · rw [if_neg hb]
    · have h1' : a.hi ≤ Tm.fin t := not_lt.1 h1
      by_cases hb : Has b t
      · have hn : Has (⟨a.hi, b.hi, b.v⟩ : Seg α) t := ⟨h1', hb.2⟩
        rw [segval_cons_has _ hn, if_pos hb, max_eq_right (e5 t h1')]
      · have h2 : b.hi ≤ Tm.fin t := by
          by_contra hcon; exact hb ⟨by order, not_le.1 hcon⟩
        have hn : ¬ Has (⟨a.hi, b.hi, b.v⟩ : Seg α) t := fun hh => absurd hh.2 (not_lt.2 h2)
        rw [segval_cons_not _ hn, if_neg hb, e2.segval_bot h1', hbot t h2]


omit hw in
/-- Reading the sample list of a chain below its top end. -/
theorem Chain.valAtA_pre {x : Seg α} {r : List (Seg α)} (h : Chain (x :: r)) {t : ℚ} (h0 : 0 ≤ t)
    (ht : Tm.fin t < x.hi) : valAtA (pre (x :: r)) t = some (segval (x :: r) t) := by
  induction r generalizing x with
  | nil =>
    have hx : Has x t := ⟨by rw [h.1]; exact (fin_le_fin _ _).2 h0, ht⟩
    rw [pre_cons, segval_cons_has _ hx]
    exact valAtA_snoc_ge _ _ _ _ (fun p hp => by simp [pre] at hp) hx.1
  | cons y r ih =>
    rw [pre_cons]
    by_cases hx : x.lo ≤ Tm.fin t
    · rw [segval_cons_has _ ⟨hx, ht⟩]
      refine valAtA_snoc_ge _ _ _ _ (fun p hp => ?_) hx
      obtain ⟨z, hz, hzp⟩ := mem_pre hp
      rw [← hzp]
      have := h.lo_lt z hz
      order
    · have hx' : Tm.fin t < x.lo := not_le.1 hx
      rw [valAtA_snoc_lt _ _ _ _ hx', segval_cons_of_lt _ _ hx']
      exact ih h.2.2 (by rw [h.1]; exact hx')

/-- The remaining segments fit: each is `Good` for the stack left by the previous one; the last end is `inf`; a
    final degenerate segment `(inf, inf, v)` repeats the value `V` of the segment before it. -/
def SegsOK : Tm → Tm → Option α → List (Seg α) → Prop
  | _, H, _, [] => H = Tm.inf
  | L, H, V, b :: bs =>
      (Good L H b ∧ SegsOK b.lo b.hi (some b.v) bs) ∨
      (H = Tm.inf ∧ b.lo = Tm.inf ∧ b.hi = Tm.inf ∧ V = some b.v ∧ bs = [])

omit [LinearOrder α] [OrderBot α] hw in
/-- The final degenerate segment of an input whose last stamp is `inf`. -/
theorem push_inf {x : Seg α} {r : List (Seg α)} (h : Chain (x :: r)) (hx : x.hi = Tm.inf) {b : Seg α}
    (hlo : b.lo = Tm.inf) (hhi : b.hi = Tm.inf) :
    ∃ stk', pushSeg worse (x :: r) b = .ok stk' ∧ pre stk' = pre (x :: r) ++ [(Tm.inf, b.v)] := by
  have hxlo : x.lo < Tm.inf := by have := h.top_lt; rw [hx] at this; exact this
  have e1 : popWhile worse b (x :: r) = .ok (x :: r) := by
    have : Tm.lt b.lo x.lo = false := by rw [lt_false_iff, hlo]; exact le_inf _
    rw [popWhile, this]; simp
  have hint : intersects x.lo x.hi b.lo b.hi = true := by
    simp only [intersects, Bool.and_eq_true, le_iff, hx, hlo, hhi]
    exact ⟨le_inf _, le_refl _⟩
  rw [pushSeg_eq worse x r b x r e1, hint]
  by_cases c : worse x.v b.v = true
  · have c2 : Tm.lt x.lo b.lo = true := by rw [lt_iff, hlo]; exact hxlo
    simp only [c, c2, Bool.not_true, Bool.false_eq_true, if_false, if_true]
    exact ⟨_, rfl, by simp [pre, hlo]⟩
  · have c' : worse x.v b.v = false := by simpa using c
    simp only [c', Bool.not_true, Bool.not_false, Bool.false_eq_true, if_false, if_true]
    exact ⟨_, rfl, by simp [pre, hx]⟩

theorem fold_spec (bs : List (Seg α)) : ∀ (stk : List (Seg α)) (L H : Tm) (V : Option α), Inv stk L H →
    Tm.fin 0 ≤ L → (∀ v, V = some v → ∃ y r', stk = y :: r' ∧ y.v = v) → SegsOK L H V bs →
    ∃ stk', bs.foldlM (pushSeg worse) stk = .ok stk' ∧ WFA (pre stk') 0 ∧
      ∀ t, 0 ≤ t → valAtA (pre stk') t = some (bs.foldl (stepF t) (segval stk t)) := by
  induction bs with
  | nil =>
    intro stk L H V hI hL hV hok
    obtain ⟨x, r, rfl, hxH⟩ := hI.top
    refine ⟨x :: r, rfl, hI.chain.wfa_pre, fun t h0 => ?_⟩
    have hH : H = Tm.inf := hok
    exact hI.chain.valAtA_pre h0 (by rw [hxH, hH]; exact fin_lt_inf t)
  | cons b bs ih =>
    intro stk L H V hI hL hV hok
    rcases hok with ⟨hg, hok⟩ | ⟨hH, hlo, hhi, hVb, rfl⟩
    · obtain ⟨stk', e1, hI', hV', hs⟩ := pushSeg_spec worse hw hI hL hg
      obtain ⟨stk'', e2, hw2, hv2⟩ := ih stk' b.lo b.hi (some b.v) hI' (le_trans hL hg.1)
        (fun v hv => by cases hv; exact hV') hok
      refine ⟨stk'', ?_, hw2, fun t h0 => ?_⟩
      · rw [List.foldlM_cons, e1]; exact e2
      · rw [hv2 t h0, hs t]; rfl
    · obtain ⟨x, r, rfl, hxH⟩ := hI.top
      obtain ⟨stk', e1, e2⟩ := push_inf worse hI.chain (hxH.trans hH) hlo hhi
      refine ⟨stk', ?_, ?_, fun t h0 => ?_⟩
      · rw [List.foldlM_cons, e1]; rfl
      · rw [e2]
        obtain ⟨y, r', e3, e4⟩ := hV b.v hVb
        cases e3
        refine wfa_snoc hI.chain.wfa_pre (fun p hp => ?_) ?_
        · obtain ⟨z, hz, hzp⟩ := mem_pre hp
          rw [← hzp]
          rcases List.mem_cons.1 hz with rfl | hz
          · exact lt_of_lt_of_le hI.chain.top_lt (le_inf _)
          · exact lt_of_lt_of_le (hI.chain.lo_lt z hz) (le_inf _)
        · rw [pre_cons, List.append_assoc]
          have := infOK_snoc (pre r) (x.lo, x.v) Tm.inf
          simpa [e4] using this
      · rw [e2, valAtA_snoc_lt _ _ _ _ (fin_lt_inf t)]
        have hnb : ¬ Has b t := fun hh => by have := hh.1; rw [hlo] at this; exact not_inf_le_fin t this
        simp only [List.foldl_cons, List.foldl_nil, stepF, if_neg hnb]
        exact hI.chain.valAtA_pre h0 (by rw [hxH, hH]; exact fin_lt_inf t)


omit [LinearOrder α] [OrderBot α] hw in
theorem segsOK_fwdSegs {a b : ℚ} (hab : a ≤ b) (rest : ASig α) : ∀ (q : ℚ) (v : α) (L H : Tm) (V : Option α),
    Sorted ((Tm.fin q, v) :: rest) → InfOK ((Tm.fin q, v) :: rest) → L ≤ Tm.fin (q + a) →
    Tm.fin (q + a) ≤ H → H ≤ Tm.fin (q + b) → SegsOK L H V (fwdSegs a b ((Tm.fin q, v) :: rest)) := by
  induction rest with
  | nil =>
    intro q v L H V hs hi h1 h2 h3
    rw [fwdSegs_one]
    exact Or.inl ⟨⟨h1, h2, lt_of_le_of_lt h3 (fin_lt_inf _), fin_lt_inf _⟩, rfl⟩
  | cons p rest ih =>
    intro q v L H V hs hi h1 h2 h3
    obtain ⟨τ', v'⟩ := p
    obtain ⟨hs1, hs2⟩ := sorted_cons hs
    rw [fwdSegs_cons2]
    cases τ' with
    | inf =>
      have : rest = [] := by
        cases rest with
        | nil => rfl
        | cons p'' _ => exact absurd ((sorted_cons hs2).1 p'' (List.mem_cons_self ..)) (not_inf_lt _)
      subst this
      have hv : v = v' := hi [] (Tm.fin q, v) v' rfl
      rw [fwdSegs_one]
      refine Or.inl ⟨⟨h1, h2, ?_, ?_⟩, Or.inr ⟨rfl, rfl, rfl, by rw [hv], rfl⟩⟩
      · exact lt_of_le_of_lt h3 (fin_lt_inf _)
      · exact fin_lt_inf _
    | fin q' =>
      have hqq : q < q' := (fin_lt_fin _ _).1 (hs1 _ (List.mem_cons_self ..))
      refine Or.inl ⟨⟨h1, h2, ?_, ?_⟩, ih q' v' _ _ _ hs2 (infOK_tail hi) ?_ ?_ ?_⟩
      · exact lt_of_le_of_lt h3 ((fin_lt_fin _ _).2 (by linarith))
      · exact (fin_lt_fin _ _).2 (by linarith)
      · exact (fin_le_fin _ _).2 (by linarith)
      · exact (fin_le_fin _ _).2 (by linarith)
      · exact le_refl _

omit [OrderBot α] hw in
theorem foldl_stepF_le_iff (t : ℚ) (bs : List (Seg α)) (acc z : α) :
    bs.foldl (stepF t) acc ≤ z ↔ acc ≤ z ∧ ∀ b ∈ bs, Has b t → b.v ≤ z := by
  induction bs generalizing acc with
  | nil => simp
  | cons b bs ih =>
    rw [List.foldl_cons, ih]
    unfold stepF
    by_cases hb : Has b t
    · rw [if_pos hb, max_le_iff]
      constructor
      · rintro ⟨⟨h1, h2⟩, h3⟩
        refine ⟨h1, fun c hc hct => ?_⟩
        rcases List.mem_cons.1 hc with rfl | hc
        · exact h2
        · exact h3 c hc hct
      · rintro ⟨h1, h2⟩
        exact ⟨⟨h1, h2 b (List.mem_cons_self ..) hb⟩, fun c hc => h2 c (List.mem_cons_of_mem _ hc)⟩
    · rw [if_neg hb]
      constructor
      · rintro ⟨h1, h3⟩
        refine ⟨h1, fun c hc hct => ?_⟩
        rcases List.mem_cons.1 hc with rfl | hc
        · exact absurd hct hb
        · exact h3 c hc hct
      · rintro ⟨h1, h2⟩
        exact ⟨h1, fun c hc => h2 c (List.mem_cons_of_mem _ hc)⟩

omit hw in
/-- The ideal value is `⊥` before `a` and the supremum over the clipped window afterwards. -/
theorem ideal_spec {s : ASig α} {g : ℚ → Option α} (h : Denotes s 0 g) {a b : ℚ} (hab : a ≤ b) (t : ℚ) :
    (t - a < 0 → (fwdSegs a b s).foldl (stepF t) ⊥ = ⊥) ∧
    (0 ≤ t - a → IsLUB (valuesOn g (max (t - b) 0) (t - a)) ((fwdSegs a b s).foldl (stepF t) ⊥)) := by
  have hsound : ∀ seg ∈ fwdSegs a b s, Has seg t →
      ∃ u, 0 ≤ u ∧ u + a ≤ t ∧ t ≤ u + b ∧ g u = some seg.v := by
    intro seg hseg ht
    obtain ⟨u, u1, u2, u3⟩ := seg_sound hab h.1.sorted hseg ht
    have u0 := wfa_some_ge h.1 u3
    exact ⟨u, u0, u1, u2, by rw [← h.2 u u0]; exact u3⟩
  constructor
  · intro hta
    rw [← le_bot_iff, foldl_stepF_le_iff]
    refine ⟨le_refl _, fun seg hseg ht => ?_⟩
    obtain ⟨u, u0, u1, _, _⟩ := hsound seg hseg ht
    linarith
  · intro hta
    constructor
    · rintro y ⟨u, u1, u2, u3⟩
      have u0 : 0 ≤ u := le_trans (le_max_right _ _) u1
      have ub : t - b ≤ u := le_trans (le_max_left _ _) u1
      rw [← h.2 u u0] at u3
      obtain ⟨seg, m1, m2, m3, m4⟩ := seg_complete (a := a) (b := b) u3
      have hst : Has seg t := ⟨le_trans m3 ((fin_le_fin _ _).2 (by linarith)),
        lt_of_le_of_lt ((fin_le_fin _ _).2 (by linarith)) m4⟩
      rw [← m2]
      exact ((foldl_stepF_le_iff t _ ⊥ _).1 (le_refl _)).2 seg m1 hst
    · intro z hz
      rw [foldl_stepF_le_iff]
      refine ⟨bot_le, fun seg hseg ht => ?_⟩
      obtain ⟨u, u0, u1, u2, u3⟩ := hsound seg hseg ht
      exact hz ⟨u, max_le (by linarith) u0, by linarith, u3⟩


omit hw in
theorem segval_single (b0 : Seg α) (t : ℚ) : segval [b0] t = stepF t ⊥ b0 := by
  unfold stepF
  by_cases hb : Has b0 t
  · rw [segval_cons_has _ hb, if_pos hb, max_eq_right bot_le]
  · rw [segval_cons_not _ hb, if_neg hb]; rfl

omit hw in
theorem segval_init (lo hi : Tm) (t : ℚ) : segval [(⟨lo, hi, ⊥⟩ : Seg α)] t = ⊥ := by
  rw [segval]
  split <;> rfl

/-- The stack loop of `fwdTimed` on a well-formed input: no exception, and the sample list read off the stack is
    well formed and takes the ideal value everywhere. -/
theorem fwd_core {s : ASig α} (hs : WFA s 0) {a b : ℚ} (ha : 0 ≤ a) (hab : a ≤ b) :
    ∃ t0 v0 rest, s = (t0, v0) :: rest ∧ ∃ stk,
      (fwdSegs a b s).foldlM (pushSeg worse)
        (if decide (0 < a) = true then [(⟨Tm.zero, t0.add a, ⊥⟩ : Seg α)] else []) = .ok stk ∧
      WFA (pre stk) 0 ∧ ∀ t, 0 ≤ t → valAtA (pre stk) t = some ((fwdSegs a b s).foldl (stepF t) ⊥) := by
  cases s with
  | nil => have := hs.start; simp [times] at this
  | cons p rest =>
    obtain ⟨τ, v0⟩ := p
    have h1 := hs.start
    simp only [times, List.map_cons, List.head?_cons, Option.some.injEq] at h1
    subst h1
    refine ⟨Tm.fin 0, v0, rest, rfl, ?_⟩
    have hok := fun L H V => segsOK_fwdSegs hab rest 0 v0 L H V hs.sorted hs.infok
    by_cases h0 : 0 < a
    · rw [decide_eq_true h0, if_pos rfl]
      have hI : Inv [(⟨Tm.zero, (Tm.fin 0).add a, ⊥⟩ : Seg α)] (Tm.fin 0) (Tm.fin (0 + a)) :=
        ⟨⟨rfl, (fin_lt_fin _ _).2 (by linarith)⟩, ⟨_, _, rfl, rfl⟩, fun t t' _ _ => by
          rw [segval_init, segval_init]⟩
      obtain ⟨stk, e, w, hv⟩ := fold_spec worse hw _ _ _ _ none hI (le_refl _) (by intro v hv; cases hv)
        (hok (Tm.fin 0) (Tm.fin (0 + a)) none ((fin_le_fin _ _).2 (by linarith)) (le_refl _)
          ((fin_le_fin _ _).2 (by linarith)))
      refine ⟨stk, e, w, fun t ht => ?_⟩
      rw [hv t ht, segval_init]
    · have ha0 : a = 0 := le_antisymm (not_lt.1 h0) ha
      rw [decide_eq_false h0]
      obtain ⟨b0, bs, hb, hblo⟩ : ∃ b0 bs, fwdSegs a b ((Tm.fin 0, v0) :: rest) = b0 :: bs ∧
          b0.lo = Tm.fin (0 + a) := by
        cases rest with
        | nil => exact ⟨_, _, rfl, rfl⟩
        | cons p' rest' => obtain ⟨τ', v'⟩ := p'; exact ⟨_, _, rfl, rfl⟩
      have hok' := hok (Tm.fin 0) (Tm.fin 0) none ((fin_le_fin _ _).2 (by linarith))
        ((fin_le_fin _ _).2 (by linarith)) ((fin_le_fin _ _).2 (by linarith))
      rw [hb] at hok' ⊢
      rcases hok' with ⟨hg, hok'⟩ | ⟨_, hlo, _⟩
      · have hI : Inv [b0] b0.lo b0.hi :=
          ⟨⟨by rw [hblo, ha0]; simp, hg.2.2.2⟩, ⟨_, _, rfl, rfl⟩,
            anti_step (F := fun _ => ⊥) (fun t => segval_single b0 t) (fun _ _ _ _ => le_refl _) (le_refl _)
              (fun _ _ => rfl)⟩
        obtain ⟨stk, e, w, hv⟩ := fold_spec worse hw bs [b0] b0.lo b0.hi (some b0.v) hI
          (by rw [hblo]; exact (fin_le_fin _ _).2 (by linarith)) (fun v hv => ⟨b0, [], rfl, by cases hv; rfl⟩) hok'
        refine ⟨stk, ?_, w, fun t ht => ?_⟩
        · rw [List.foldlM_cons]; exact e
        · rw [hv t ht, segval_single]; rfl
      · rw [hblo] at hlo; cases hlo

end core

end FwdAux

open FwdAux

variable {α : Type} [Val α] [LawfulVal α]

namespace FwdAux

/-- From the stack loop to `fwdTimed`: the output loop is `dedup`. -/
theorem fwdTimed_assemble (worse : α → α → Bool) (neutral : α) (s : ASig α) (a b : ℚ) (W : ℚ → α)
    (hcore : ∃ t0 v0 rest, s = (t0, v0) :: rest ∧ ∃ stk,
      (fwdSegs a b s).foldlM (pushSeg worse)
        (if decide (0 < a) = true then [(⟨Tm.zero, t0.add a, neutral⟩ : Seg α)] else []) = .ok stk ∧
      WFA (pre stk) 0 ∧ ∀ t, 0 ≤ t → valAtA (pre stk) t = some (W t)) :
    ∃ out, fwdTimed worse neutral s a b = .ok out ∧ WFA out 0 ∧ ∀ t, 0 ≤ t → valAtA out t = some (W t) := by
  obtain ⟨t0, v0, rest, rfl, stk, e, w, hv⟩ := hcore
  have hd := dedup_spec (s := pre stk) (d := 0) (g := valAtA (pre stk)) ⟨w, fun _ _ => rfl⟩
  refine ⟨dedup (pre stk), ?_, hd.1, fun t ht => by rw [hd.2 t ht]; exact hv t ht⟩
  unfold fwdTimed
  simp only [e]
  rfl

end FwdAux

/-- `once_timed_operation` on an operand that starts at time 0: `-inf` while the window `[t-b, t-a]` lies before the
    start, otherwise the supremum over the window clipped to the domain. -/
theorem onceTimed_spec {s : ASig α} {g : Rat → Option α} (h : Denotes s 0 g) (a b : Rat) (ha : 0 ≤ a) (hab : a ≤ b) :
    ∃ out, onceTimed s a b = .ok out ∧ WFA out 0 ∧
      ∀ t, 0 ≤ t →
        (t - a < 0 → valAtA out t = some Val.ninf) ∧
        (0 ≤ t - a → ∃ v, valAtA out t = some v ∧ IsLUB (valuesOn g (max (t - b) 0) (t - a)) v) := by
  have hc := fwd_core (ltW (α := α)) (fun x y => LawfulVal.lt_iff x y) h.1 ha hab
  rw [← LawfulVal.ninf_bot] at hc
  obtain ⟨out, e, w, hv⟩ := fwdTimed_assemble ltW Val.ninf s a b _ hc
  refine ⟨out, e, w, fun t ht => ?_⟩
  have hi := ideal_spec h hab t
  rw [← LawfulVal.ninf_bot] at hi
  refine ⟨fun hta => ?_, fun hta => ⟨_, hv t ht, hi.2 hta⟩⟩
  rw [hv t ht, hi.1 hta]

/-- `historically_timed_operation`. -/
theorem histTimed_spec {s : ASig α} {g : Rat → Option α} (h : Denotes s 0 g) (a b : Rat) (ha : 0 ≤ a) (hab : a ≤ b) :
    ∃ out, histTimed s a b = .ok out ∧ WFA out 0 ∧
      ∀ t, 0 ≤ t →
        (t - a < 0 → valAtA out t = some Val.pinf) ∧
        (0 ≤ t - a → ∃ v, valAtA out t = some v ∧ IsGLB (valuesOn g (max (t - b) 0) (t - a)) v) := by
  have hc := fwd_core (α := αᵒᵈ) (gtW (α := α))
    (fun x y => LawfulVal.lt_iff (OrderDual.ofDual y) (OrderDual.ofDual x)) (s := s) h.1 ha hab
  have hbot : (⊥ : αᵒᵈ) = OrderDual.toDual (Val.pinf : α) :=
    congrArg OrderDual.toDual (LawfulVal.pinf_top (α := α)).symm
  rw [hbot] at hc
  obtain ⟨out, e, w, hv⟩ := fwdTimed_assemble gtW Val.pinf s a b _ hc
  refine ⟨out, e, w, fun t ht => ?_⟩
  have hi := ideal_spec (α := αᵒᵈ) (s := s) (g := g) h hab t
  rw [hbot] at hi
  refine ⟨fun hta => ?_, fun hta => ⟨_, hv t ht, hi.2 hta⟩⟩
  rw [hv t ht]
  exact congrArg some (hi.1 hta)

end Rtamt.Dense.Alg
