/-
  Dense time: the decomposition the online monitor uses for bounded since, proved on the semantics `rhoD`:
  `φ since[a,b] ψ = once[a,b] ψ and historically[0,a] (φ since ψ)` at every time of the domain (signals starting at 0).

  The lattice identity is `Timed2Aux.since_core`; what is added here is the attainment of infima of a step function
  over a bounded window (`DecompAux.attain_step`: finitely many values) and the instantiation with the declarative
  clauses of `RtamtProofs/C04.lean`.
-/
import RtamtProofs.Dense.AlgMain

namespace Rtamt.Dense.Alg
open Rtamt Val Rtamt.Dense
variable {α : Type} [Val α] [LawfulVal α]

namespace DecompAux

/-- The values of a step function over a bounded window have a least element (there are finitely many of them:
    the value at the left end and the values at the break-points inside the window). -/
theorem attain_step {g : Rat → Option α} {B : List Rat} {lo hi : Rat}
    (hg : StepOn g B lo (some hi)) (hl : lo ≤ hi) : ∃ m, IsLeast (valuesOn g lo hi) m := by
  have hfin : (valuesOn g lo hi).Finite := by
    apply Set.Finite.subset (List.finite_toSet ((winPts B lo (some hi)).filterMap g))
    intro y hy
    exact winSet_subset_read hg hy
  have hne : (valuesOn g lo hi).Nonempty := by
    obtain ⟨v, hv⟩ := Option.isSome_iff_exists.1 (hg.1 lo le_rfl hl)
    exact ⟨v, lo, le_rfl, hl, hv⟩
  obtain ⟨m, hm, hmin⟩ := Set.exists_min_image _ id hfin hne
  exact ⟨m, hm, fun y hy => hmin y hy⟩

/-- Attained infima of `rhoD φ` on every window of the domain. -/
theorem attain_rhoD (cfg : DCfg) (hs : 0 ≤ cfg.scale) (w : DEnv α) (φ : F α) (hsup : supported φ = true)
    (hw : w.WF φ.vars) (hd : dom w φ = 0) (lo hi : Rat) (h0 : 0 ≤ lo) (hl : lo ≤ hi) :
    ∃ m, IsLeast (valuesOn (rhoD cfg w φ) lo hi) m :=
  attain_step ((rhoD_stepOn cfg hs w φ hsup hw).restrict (by rw [hd]; exact h0) (some hi)) hl

/-- The unbounded since as the supremum of `sinceSet` (signals starting at 0). -/
theorem since_lub (cfg : DCfg) (hs : 0 ≤ cfg.scale) (w : DEnv α) (φ ψ : F α)
    (hsφ : supported φ = true) (hsψ : supported ψ = true) (hw : w.WF (φ.vars ++ ψ.vars))
    (hdφ : dom w φ = 0) (hdψ : dom w ψ = 0) (u : Rat) (hu : 0 ≤ u) :
    ∃ v, rhoD cfg w (.tmp2 .since φ ψ) u = some v ∧
      IsLUB (sinceSet (rhoD cfg w φ) (rhoD cfg w ψ) 0 u u) v := by
  have C := (C04_until_since cfg hs w φ ψ hsφ hsψ hw u (by rw [hdφ, hdψ, max_self]; exact hu)).2
  rw [hdφ, hdψ, max_self] at C
  exact C

end DecompAux

open DecompAux

/-- The decomposition the online monitor uses for bounded since, on the semantics:
    `φ since[a,b] ψ = once[a,b] ψ and historically[0,a] (φ since ψ)` at every time of the domain (signals starting at 0). -/
theorem rhoD_since_bounded_decomp (cfg : DCfg) (hs : 0 ≤ cfg.scale) (w : DEnv α) (φ ψ : F α) (a b : Nat) (hab : a ≤ b)
    (hsφ : supported φ = true) (hsψ : supported ψ = true)
    (hw : w.WF (φ.vars ++ ψ.vars)) (h0 : StartsAt0 w (φ.vars ++ ψ.vars)) (t : Rat) (ht : 0 ≤ t) :
    rhoD cfg w (.tb2 .since a b φ ψ) t =
      rhoD cfg w (.bin .and (.tb1 .once a b ψ) (.tb1 .hist 0 a (.tmp2 .since φ ψ))) t := by
  have hwφ : w.WF φ.vars := MainAux.wf_left hw
  have hwψ : w.WF ψ.vars := MainAux.wf_right hw
  have hdφ : dom w φ = 0 := MainAux.dom_zero w φ (MainAux.startsAt0_left h0)
  have hdψ : dom w ψ = 0 := MainAux.dom_zero w ψ (MainAux.startsAt0_right h0)
  have hsS : supported (F.tmp2 T2.since φ ψ) = true := by
    simp only [supported, hsφ, hsψ, Bool.and_self]
  have hvS : (F.tmp2 T2.since φ ψ).vars = φ.vars ++ ψ.vars := rfl
  have hdS : dom w (F.tmp2 T2.since φ ψ) = 0 := MainAux.dom_zero w _ (by rw [hvS]; exact h0)
  obtain ⟨ha', hab'⟩ := scale_bounds cfg hs hab
  -- the three declarative clauses
  have C := C04_until_since_bounded cfg hs w a b hab φ ψ hsφ hsψ hw t (by rw [hdφ, hdψ, max_self]; exact ht)
  rw [hdφ, hdψ, max_self] at C
  obtain ⟨_, c1, c2⟩ := C
  have CO := C04_once_bounded cfg hs w a b hab ψ hsψ hwψ t (by rw [hdψ]; exact ht)
  rw [hdψ] at CO
  have CH := C04_once_bounded cfg hs w 0 a (Nat.zero_le a) (F.tmp2 T2.since φ ψ) hsS (by rw [hvS]; exact hw) t
    (by rw [hdS]; exact ht)
  rw [hdS] at CH
  simp only [Nat.cast_zero, zero_mul, sub_zero] at CH
  obtain ⟨_, ⟨H, eH, hH⟩⟩ := CH.2 ht
  rw [(C04_pointwise cfg w Un.not Bin.and _ _ t).2]
  by_cases h : t - (a : Rat) * cfg.scale < 0
  · rw [c1 h, (CO.1 h).1, eH]
    show some ninf = some (pmin ninf H)
    rw [pmin_eq, LawfulVal.ninf_bot, min_eq_left bot_le]
  · have h' : 0 ≤ t - (a : Rat) * cfg.scale := not_lt.1 h
    obtain ⟨⟨O, eO, hO⟩, _⟩ := CO.2 h'
    obtain ⟨v, ev, hv⟩ := c2 h'
    rw [ev, eO, eH]
    show some v = some (pmin O H)
    rw [pmin_eq]
    rw [max_eq_left h'] at hH
    have key := Timed2Aux.since_core (rhoD cfg w φ) (rhoD cfg w ψ) (rhoD cfg w (F.tmp2 T2.since φ ψ))
      (attain_rhoD cfg hs w φ hsφ hwφ hdφ)
      (since_lub cfg hs w φ ψ hsφ hsψ hw hdφ hdψ)
      t ((a : Rat) * cfg.scale) ((b : Rat) * cfg.scale) ha' h' O H hO hH
    exact congrArg some (IsLUB.unique hv key)

end Rtamt.Dense.Alg
