/-
  Dense time, online: `OnceTimedOperation` / `HistoricallyTimedOperation` (`timedUpdateCore`) over a stream.

  The stream theorems are FALSE for `timedUpdateCore` over arbitrary `Shape` streams (finding F48; the code was repaired,
  `timedUpdate = timedUpdateCore ∘ dropRepeat`, and `OnTimed.lean` proves them for `timedUpdate`): an operand
  stream in which a batch repeats the sample the previous batch ended with (allowed by `Shape`, and what the bounded
  operations themselves return) can make ONE returned batch contain the same time stamp twice, with different values:
  `once[0,1]` on `[[(0,9),(1,5)], [(1,5),(2,7)]]` returns `[(0,9),(1,9)]` and then `[(1,9),(2,5),(2,7)]`
  (`#eval` of `runUn (timedUpdateCore ltW Val.ninf 0 1) {}` on `Float`, and the real `OnceTimedOperation(0,1)`), so
  `Shape.batch_sorted` fails (the values read by `valAtA` are still right).  Reason: the own segment
  `(t_n+a, t_n+b, v_n)` of the last sample of a batch, pushed on a top segment with a larger value that ends at
  `t_n+b`, leaves a degenerate segment `(t_n+b, t_n+b, v_n)`; a new first stamp re-ends it, a repeated sample does
  not, and a later sample with stamp `t_n+(b-a)` and a larger value then puts a second segment at the same start.

  Proved here (`timedStream_once_core`, `timedStream_hist_core`, and `timedStream_once'` / `timedStream_hist'` without the
  state fact): the statements with the additional hypothesis `Sorted Bs.flatten` (no repeated sample in the operand
  stream), plus the fact that the state's `rs` is the last operand stamp; `timedStream_once_covered'` / `timedStream_hist_covered'`: the returned stream covers exactly what
  the operand stream covers.

  Structure (helper namespace `TimedAux`): chains of segments from an arbitrary base `c` (`ChainC`, `InvC`,
  `popWhile_specC`, `pushSeg_specC`: the offline proofs of `AlgFwd` with `0` replaced by `c`); the own segment of the
  last sample versus the same segment ending at infinity (`pushSeg_reend`, `fold_batch`); the output loop as pure
  functions (`timedEmit_eq`) and its result on a chain (`emit_spec`, `emit_stack`); cutting the stack at the last
  stamp (`cut_chain`); the ideal value `Wn` of the samples seen so far and how a batch changes it (`Wn_step`,
  `Wn_stable`, `Wn_const`); one update (`step_first`, `step_next`, `step_empty`), the concatenated output
  (`FlatOK`, `flat_append`), the run (`inv_step`, `run_inv`, `timed_core`, `timed_final`).  `historically` is the
  same for the dual order.
-/
import RtamtProofs.Dense.OnDefs
import RtamtProofs.Dense.AlgFwd

namespace Rtamt.Dense.AlgOn
open Rtamt Val Rtamt.Dense.Alg
open Rtamt.Dense.Alg.FwdAux

namespace TimedAux

/-! ### chains of segments that start at an arbitrary time `c` (top first) -/

section core
variable {α : Type}

/-- Consecutive non-degenerate segments starting at `c` (top first). -/
def ChainC (c : Tm) : List (Seg α) → Prop
  | [] => False
  | [x] => x.lo = c ∧ x.lo < x.hi
  | x :: y :: r => y.hi = x.lo ∧ x.lo < x.hi ∧ ChainC c (y :: r)

theorem ChainC.top_lt {c : Tm} {x : Seg α} {r : List (Seg α)} (h : ChainC c (x :: r)) : x.lo < x.hi := by
  cases r with
  | nil => exact h.2
  | cons y r => exact h.2.1

theorem ChainC.base_le {c : Tm} {x : Seg α} {r : List (Seg α)} (h : ChainC c (x :: r)) : c ≤ x.lo := by
  induction r generalizing x with
  | nil => exact le_of_eq h.1.symm
  | cons y r ih =>
    have h1 := ih h.2.2
    have h2 := h.2.2.top_lt
    have h3 := h.1
    order

theorem ChainC.cut {c : Tm} {x : Seg α} {r : List (Seg α)} (h : ChainC c (x :: r)) {e : Tm} (hc : x.lo < e) :
    ChainC c (⟨x.lo, e, x.v⟩ :: r) := by
  cases r with
  | nil => exact ⟨h.1, hc⟩
  | cons y r => exact ⟨h.1, hc, h.2.2⟩

theorem ChainC.replace {c : Tm} {x : Seg α} {r : List (Seg α)} (h : ChainC c (x :: r)) {z : Seg α}
    (hlo : z.lo = x.lo) (hz : z.lo < z.hi) : ChainC c (z :: r) := by
  cases r with
  | nil => exact ⟨hlo.trans h.1, hz⟩
  | cons y r => exact ⟨h.1.trans hlo.symm, hz, h.2.2⟩

theorem ChainC.hi_le {c : Tm} {x : Seg α} {r : List (Seg α)} (h : ChainC c (x :: r)) : ∀ y ∈ r, y.hi ≤ x.lo := by
  induction r generalizing x with
  | nil => intro y hy; cases hy
  | cons z r ih =>
    intro y hy
    have h1 := h.1
    have h2 := h.2.2.top_lt
    rcases List.mem_cons.1 hy with rfl | hy
    · order
    · have := ih h.2.2 y hy; order

theorem ChainC.lo_lt {c : Tm} {x : Seg α} {r : List (Seg α)} (h : ChainC c (x :: r)) : ∀ y ∈ r, y.lo < x.lo := by
  induction r generalizing x with
  | nil => intro y hy; cases hy
  | cons z r ih =>
    intro y hy
    have h1 := h.1
    have h2 := h.2.2.top_lt
    rcases List.mem_cons.1 hy with rfl | hy
    · order
    · have := ih h.2.2 y hy; order

variable [LinearOrder α] [OrderBot α]

theorem ChainC.segval_bot {c : Tm} {x : Seg α} {r : List (Seg α)} (h : ChainC c (x :: r)) {t : ℚ}
    (ht : x.hi ≤ Tm.fin t) : segval (x :: r) t = ⊥ := by
  induction r generalizing x with
  | nil =>
    have : ¬ Has x t := fun hh => absurd hh.2 (not_lt.2 ht)
    simp [segval, this]
  | cons y r ih =>
    have : ¬ Has x t := fun hh => absurd hh.2 (not_lt.2 ht)
    have h1 := h.1
    have h2 := h.2.1
    have := ih h.2.2 (by order)
    rw [segval, if_neg ‹¬ Has x t›, this]

theorem segval_bot_tailC {c : Tm} {x : Seg α} {r : List (Seg α)} (h : ChainC c (x :: r)) {t : ℚ}
    (ht : x.lo ≤ Tm.fin t) : segval r t = ⊥ := by
  cases r with
  | nil => rfl
  | cons y r =>
    have h1 := h.1
    exact h.2.2.segval_bot (by order)

/-- Below the base the value function is `⊥`. -/
theorem ChainC.segval_below {c : Tm} {x : Seg α} {r : List (Seg α)} (h : ChainC c (x :: r)) {t : ℚ}
    (ht : Tm.fin t < c) : segval (x :: r) t = ⊥ := by
  induction r generalizing x with
  | nil =>
    have : ¬ Has x t := fun hh => by have := hh.1; have := h.1; order
    simp [segval, this]
  | cons y r ih =>
    have hb := h.base_le
    have : ¬ Has x t := fun hh => by have := hh.1; order
    rw [segval, if_neg this, ih h.2.2]

/-- The stack invariant: a chain from `c` with top end `H` whose value function is antitone from `L` on. -/
structure InvC (stk : List (Seg α)) (c L H : Tm) : Prop where
  chain : ChainC c stk
  top : ∃ x r, stk = x :: r ∧ x.hi = H
  anti : ∀ t t', L ≤ Tm.fin t → t ≤ t' → segval stk t' ≤ segval stk t

variable (worse : α → α → Bool) (hw : ∀ x y, worse x y = true ↔ x < y)
include hw

theorem popWhile_specC {c : Tm} (b : Seg α) (hb : c ≤ b.lo) (x : Seg α) (r : List (Seg α))
    (h : ChainC c (x :: r)) :
    ∃ a rest, popWhile worse b (x :: r) = .ok (a :: rest) ∧ ChainC c (a :: rest) ∧
      (¬ a.v < b.v ∨ a.lo ≤ b.lo) ∧
      (∀ t, Tm.fin t < a.hi → segval (x :: r) t = segval (a :: rest) t) ∧
      (∀ t, a.hi ≤ Tm.fin t → segval (x :: r) t ≤ b.v) ∧
      (a.hi = x.hi ∨ b.lo < a.hi) ∧ a.hi ≤ x.hi := by
  induction r generalizing x with
  | nil =>
    refine ⟨x, [], ?_, h, ?_, fun t _ => rfl, fun t ht => ?_, Or.inl rfl, le_refl _⟩
    · have h1 := h.1
      have : Tm.lt b.lo x.lo = false := by rw [lt_false_iff]; order
      rw [popWhile, this]; simp
    · right; have h1 := h.1; order
    · rw [h.segval_bot ht]; exact bot_le
  | cons y r ih =>
    by_cases hc : x.v < b.v ∧ b.lo < x.lo
    · obtain ⟨a, rest, e1, e2, e3, e4, e5, e6, e7⟩ := ih y h.2.2
      have h1 := h.1
      have h2 := h.2.1
      refine ⟨a, rest, ?_, e2, e3, fun t ht => ?_, fun t ht => ?_, Or.inr ?_, by order⟩
      · have c1 : worse x.v b.v = true := (hw _ _).2 hc.1
        have c2 : Tm.lt b.lo x.lo = true := (lt_iff _ _).2 hc.2
        rw [popWhile, c1, c2]; simpa using e1
      · rw [segval_cons_of_lt x (y :: r) (by order)]; exact e4 t ht
      · rw [segval]
        split
        · exact le_of_lt hc.1
        · exact e5 t ht
      · rcases e6 with e6 | e6
        · have := hc.2; order
        · exact e6
    · refine ⟨x, y :: r, ?_, h, ?_, fun t _ => rfl, fun t ht => ?_, Or.inl rfl, le_refl _⟩
      · have : (worse x.v b.v && Tm.lt b.lo x.lo) = false := by
          rw [Bool.and_eq_false_iff]
          by_cases c' : x.v < b.v
          · right; rw [lt_false_iff]; exact not_lt.1 (fun c'' => hc ⟨c', c''⟩)
          · left; rw [Bool.eq_false_iff]; intro c''; exact c' ((hw _ _).1 c'')
        rw [popWhile, this]; rfl
      · by_cases c' : x.v < b.v
        · right; exact not_lt.1 (fun c'' => hc ⟨c', c''⟩)
        · left; exact c'
      · rw [h.segval_bot ht]; exact bot_le

theorem pushSeg_specC {stk : List (Seg α)} {c L H : Tm} (hI : InvC stk c L H) (hL : c ≤ L) {b : Seg α}
    (hg : Good L H b) :
    ∃ stk', pushSeg worse stk b = .ok stk' ∧ InvC stk' c b.lo b.hi ∧ (∃ y r', stk' = y :: r' ∧ y.v = b.v) ∧
      ∀ t, segval stk' t = stepF t (segval stk t) b := by
  obtain ⟨x, r, rfl, hxH⟩ := hI.top
  obtain ⟨g1, g2, g3, g4⟩ := hg
  have hch := hI.chain
  obtain ⟨a, rest, e1, e2, e3, e4, e5, e6, e7⟩ := popWhile_specC worse hw b (by order) x r hch
  have hbot : ∀ t, b.hi ≤ Tm.fin t → segval (x :: r) t = ⊥ := fun t ht => hch.segval_bot (by order)
  have halo := e2.top_lt
  have hbahi : b.lo ≤ a.hi := by rcases e6 with e6 | e6 <;> order
  have hint : intersects a.lo a.hi b.lo b.hi = true := by
    simp only [intersects, Bool.and_eq_true, le_iff]
    exact ⟨by order, hbahi⟩
  suffices hs : ∃ stk', pushSeg worse (x :: r) b = .ok stk' ∧ ChainC c stk' ∧
      (∃ y r', stk' = y :: r' ∧ y.hi = b.hi ∧ y.v = b.v) ∧
      ∀ t, segval stk' t = stepF t (segval (x :: r) t) b by
    obtain ⟨stk', p1, p2, ⟨y, r', p3, p3', p3''⟩, p4⟩ := hs
    exact ⟨stk', p1, ⟨p2, ⟨y, r', p3, p3'⟩, anti_step p4 hI.anti g1 hbot⟩, ⟨y, r', p3, p3''⟩, p4⟩
  rw [pushSeg_eq worse x r b a rest e1, hint]
  by_cases hwv : a.v < b.v
  · have c1 : worse a.v b.v = true := (hw _ _).2 hwv
    have hle : a.lo ≤ b.lo := by
      rcases e3 with e3 | e3
      · exact absurd hwv e3
      · exact e3
    simp only [c1, Bool.not_true, Bool.false_eq_true, if_false]
    have hbv : ∀ t, Has b t → segval (x :: r) t ≤ b.v := by
      intro t hb
      by_cases h1 : Tm.fin t < a.hi
      · have ha : Has a t := ⟨by have := hb.1; order, h1⟩
        rw [e4 t h1, segval_cons_has _ ha]; exact le_of_lt hwv
      · exact e5 t (not_lt.1 h1)
    by_cases hlt : a.lo < b.lo
    · have c2 : Tm.lt a.lo b.lo = true := (lt_iff _ _).2 hlt
      simp only [c2, if_true]
      refine ⟨_, rfl, ⟨rfl, g4, e2.cut hlt⟩, ⟨_, _, rfl, rfl, rfl⟩, fun t => ?_⟩
      unfold stepF
      by_cases hb : Has b t
      · have hn : Has (⟨b.lo, b.hi, b.v⟩ : Seg α) t := hb
        rw [segval_cons_has _ hn, if_pos hb, max_eq_right (hbv t hb)]
      · have hn : ¬ Has (⟨b.lo, b.hi, b.v⟩ : Seg α) t := hb
        rw [segval_cons_not _ hn, if_neg hb]
        by_cases h1 : Tm.fin t < b.lo
        · rw [e4 t (by order)]
          by_cases ha : a.lo ≤ Tm.fin t
          · have ha1 : Has a t := ⟨ha, by order⟩
            have ha2 : Has (⟨a.lo, b.lo, a.v⟩ : Seg α) t := ⟨ha, h1⟩
            rw [segval_cons_has _ ha1, segval_cons_has _ ha2]
          · have ha1 : ¬ Has a t := fun hh => ha hh.1
            have ha2 : ¬ Has (⟨a.lo, b.lo, a.v⟩ : Seg α) t := fun hh => ha hh.1
            rw [segval_cons_not _ ha1, segval_cons_not _ ha2]
        · have h2 : b.hi ≤ Tm.fin t := by
            by_contra hcon; exact hb ⟨not_lt.1 h1, not_le.1 hcon⟩
          have ha2 : ¬ Has (⟨a.lo, b.lo, a.v⟩ : Seg α) t := fun hh => h1 hh.2
          rw [segval_cons_not _ ha2, hbot t h2, segval_bot_tailC e2 (by order)]
    · have heq : a.lo = b.lo := le_antisymm hle (not_lt.1 hlt)
      have c2 : Tm.lt a.lo b.lo = false := (lt_false_iff _ _).2 (not_lt.1 hlt)
      simp only [c2, Bool.false_eq_true, if_false]
      refine ⟨_, rfl, e2.replace (z := ⟨b.lo, b.hi, b.v⟩) heq.symm g4, ⟨_, _, rfl, rfl, rfl⟩, fun t => ?_⟩
      unfold stepF
      by_cases hb : Has b t
      · have hn : Has (⟨b.lo, b.hi, b.v⟩ : Seg α) t := hb
        rw [segval_cons_has _ hn, if_pos hb, max_eq_right (hbv t hb)]
      · have hn : ¬ Has (⟨b.lo, b.hi, b.v⟩ : Seg α) t := hb
        rw [segval_cons_not _ hn, if_neg hb]
        by_cases h1 : Tm.fin t < b.lo
        · have ha1 : ¬ Has a t := fun hh => by have := hh.1; order
          rw [e4 t (by order), segval_cons_not _ ha1]
        · have h2 : b.hi ≤ Tm.fin t := by
            by_contra hcon; exact hb ⟨not_lt.1 h1, not_le.1 hcon⟩
          rw [hbot t h2, segval_bot_tailC e2 (by order)]
  · have c1 : worse a.v b.v = false := by rw [Bool.eq_false_iff]; exact fun c' => hwv ((hw _ _).1 c')
    have hva : b.v ≤ a.v := not_lt.1 hwv
    simp only [c1, Bool.not_true, Bool.not_false, Bool.false_eq_true, if_false, if_true]
    refine ⟨_, rfl, ⟨rfl, by show a.hi < b.hi; order, e2⟩, ⟨_, _, rfl, rfl, rfl⟩, fun t => ?_⟩
    unfold stepF
    by_cases h1 : Tm.fin t < a.hi
    · have hn : ¬ Has (⟨a.hi, b.hi, b.v⟩ : Seg α) t := fun hh => absurd hh.1 (not_le.2 h1)
      rw [segval_cons_not _ hn, e4 t h1]
      by_cases hb : Has b t
      · rw [if_pos hb]
        refine (max_eq_left ?_).symm
        by_cases ha : Has a t
        · rw [segval_cons_has _ ha]; exact hva
        · obtain ⟨q, hq⟩ := exists_fin_of_lt halo
          have hqt : Tm.fin t < Tm.fin q := by
            rw [← hq]; by_contra hcon; exact ha ⟨not_lt.1 hcon, h1⟩
          have hqa : Has a q := ⟨le_of_eq hq, by rw [← hq]; exact halo⟩
          have := hI.anti t q (by have := hb.1; order) (le_of_lt ((fin_lt_fin _ _).1 hqt))
          rw [e4 q hqa.2, e4 t h1, segval_cons_has _ hqa] at this
          exact le_trans hva this
      · rw [if_neg hb]
    · have h1' : a.hi ≤ Tm.fin t := not_lt.1 h1
      by_cases hb : Has b t
      · have hn : Has (⟨a.hi, b.hi, b.v⟩ : Seg α) t := ⟨h1', hb.2⟩
        rw [segval_cons_has _ hn, if_pos hb, max_eq_right (e5 t h1')]
      · have h2 : b.hi ≤ Tm.fin t := by
          by_contra hcon; exact hb ⟨by order, not_le.1 hcon⟩
        have hn : ¬ Has (⟨a.hi, b.hi, b.v⟩ : Seg α) t := fun hh => absurd hh.2 (not_lt.2 h2)
        rw [segval_cons_not _ hn, if_neg hb, e2.segval_bot h1', hbot t h2]

omit [LinearOrder α] [OrderBot α] hw in
theorem popWhile_congr (b b' : Seg α) (hlo : b.lo = b'.lo) (hv : b.v = b'.v) (l : List (Seg α)) :
    popWhile worse b l = popWhile worse b' l := by
  induction l with
  | nil => rfl
  | cons x r ih => rw [popWhile, popWhile, ih, hlo, hv]

/-- Pushing a segment that ends exactly at the top end `H` (the own segment of the last sample of a batch) gives the
    stack that pushing the same segment with any later end gives, up to the end of the top segment. -/
theorem pushSeg_reend {stk : List (Seg α)} {c L H : Tm} (hI : InvC stk c L H) (hL : c ≤ L) {b : Seg α}
    (h1 : L ≤ b.lo) (h2 : b.lo ≤ H) (h3 : H ≤ b.hi) (e : Tm) (he : H < e) :
    ∃ x r', pushSeg worse stk b = .ok (x :: r') ∧ x.hi = b.hi ∧ b.lo ≤ x.lo ∧ x.lo ≤ x.hi ∧
      pushSeg worse stk ⟨b.lo, e, b.v⟩ = .ok (⟨x.lo, e, x.v⟩ :: r') := by
  obtain ⟨x0, r0, rfl, hxH⟩ := hI.top
  have hch := hI.chain
  obtain ⟨a, rest, e1, e2, e3, e4, e5, e6, e7⟩ := popWhile_specC worse hw b (by order) x0 r0 hch
  have e1' : popWhile worse ⟨b.lo, e, b.v⟩ (x0 :: r0) = .ok (a :: rest) := by
    rw [← popWhile_congr worse b ⟨b.lo, e, b.v⟩ rfl rfl]; exact e1
  have halo := e2.top_lt
  have hbahi : b.lo ≤ a.hi := by rcases e6 with e6 | e6 <;> order
  have hint : intersects a.lo a.hi b.lo b.hi = true := by
    simp only [intersects, Bool.and_eq_true, le_iff]
    exact ⟨by order, hbahi⟩
  have hint' : intersects a.lo a.hi b.lo e = true := by
    simp only [intersects, Bool.and_eq_true, le_iff]
    exact ⟨by order, hbahi⟩
  rw [pushSeg_eq worse x0 r0 b a rest e1, pushSeg_eq worse x0 r0 _ a rest e1', hint, hint']
  by_cases c1 : worse a.v b.v = true
  · simp only [c1, Bool.not_true, Bool.false_eq_true, if_false]
    exact ⟨_, _, rfl, rfl, le_refl _, by show b.lo ≤ b.hi; order, rfl⟩
  · have c1' : worse a.v b.v = false := by simpa using c1
    simp only [c1', Bool.not_true, Bool.not_false, Bool.false_eq_true, if_false, if_true]
    exact ⟨_, _, rfl, rfl, hbahi, by show a.hi ≤ b.hi; order, rfl⟩

omit [LinearOrder α] [OrderBot α] hw in
theorem onSegs_cons2 (a b : ℚ) (τ τ' : Tm) (v v' : α) (l : ASig α) :
    onSegs a b ((τ, v) :: (τ', v') :: l) = ⟨τ.add a, τ'.add b, v⟩ :: onSegs a b ((τ', v') :: l) := rfl

omit [LinearOrder α] [OrderBot α] hw in
theorem onSegs_one (a b : ℚ) (τ : Tm) (v : α) : onSegs a b [(τ, v)] = [⟨τ.add a, τ.add b, v⟩] := rfl

/-- All the segments of one batch pushed on a stack they fit on: the result, with its top segment re-ended at
    infinity, is the stack the offline segments give. -/
theorem fold_batch {a b : ℚ} (hab : a ≤ b) (rest : ASig α) : ∀ (q : ℚ) (v : α) (stk : List (Seg α)) (c L H : Tm),
    Sorted ((Tm.fin q, v) :: rest) → (∀ p ∈ rest, p.1 ≠ Tm.inf) → InvC stk c L H → c ≤ L →
    L ≤ Tm.fin (q + a) → Tm.fin (q + a) ≤ H → H ≤ Tm.fin (q + b) →
    ∃ x r' τ vn, ((Tm.fin q, v) :: rest).getLast? = some (Tm.fin τ, vn) ∧
      (onSegs a b ((Tm.fin q, v) :: rest)).foldlM (pushSeg worse) stk = .ok (x :: r') ∧ x.hi = Tm.fin (τ + b) ∧
      Tm.fin (τ + a) ≤ x.lo ∧ x.lo ≤ x.hi ∧
      InvC (⟨x.lo, Tm.inf, x.v⟩ :: r') c (Tm.fin (τ + a)) Tm.inf ∧
      ∀ t, segval (⟨x.lo, Tm.inf, x.v⟩ :: r') t =
        (fwdSegs a b ((Tm.fin q, v) :: rest)).foldl (stepF t) (segval stk t) := by
  induction rest with
  | nil =>
    intro q v stk c L H hs hf hI hL h1 h2 h3
    have hg : Good L H (⟨Tm.fin (q + a), Tm.inf, v⟩ : Seg α) :=
      ⟨h1, h2, lt_of_le_of_lt h3 (fin_lt_inf _), fin_lt_inf _⟩
    obtain ⟨stk', p1, p2, _, p4⟩ := pushSeg_specC worse hw hI hL hg
    obtain ⟨x, r', q1, q2, q4, q5, q3⟩ := pushSeg_reend worse hw hI hL
      (b := ⟨Tm.fin (q + a), Tm.fin (q + b), v⟩) h1 h2 h3 Tm.inf (lt_of_le_of_lt h3 (fin_lt_inf _))
    have : stk' = ⟨x.lo, Tm.inf, x.v⟩ :: r' := by
      have := p1.symm.trans q3
      exact Except.ok.inj this
    subst this
    refine ⟨x, r', q, v, rfl, ?_, q2, q4, q5, p2, fun t => ?_⟩
    · rw [onSegs_one, List.foldlM_cons, add_fin, add_fin, q1]; rfl
    · rw [p4 t]; rfl
  | cons p rest ih =>
    intro q v stk c L H hs hf hI hL h1 h2 h3
    obtain ⟨τ', v'⟩ := p
    obtain ⟨hs1, hs2⟩ := sorted_cons hs
    cases τ' with
    | inf => exact absurd rfl (hf (Tm.inf, v') (List.mem_cons_self ..))
    | fin q' =>
      have hqq : q < q' := (fin_lt_fin _ _).1 (hs1 _ (List.mem_cons_self ..))
      have hg : Good L H (⟨Tm.fin (q + a), Tm.fin (q' + b), v⟩ : Seg α) :=
        ⟨h1, h2, lt_of_le_of_lt h3 ((fin_lt_fin _ _).2 (by linarith)), (fin_lt_fin _ _).2 (by linarith)⟩
      obtain ⟨stk', p1, p2, _, p4⟩ := pushSeg_specC worse hw hI hL hg
      obtain ⟨x, r', τ, vn, i1, i2, i3, i6, i7, i4, i5⟩ := ih q' v' stk' c _ _ hs2
        (fun p hp => hf p (List.mem_cons_of_mem _ hp)) p2 (le_trans hL h1)
        ((fin_le_fin _ _).2 (by linarith)) ((fin_le_fin _ _).2 (by linarith)) (le_refl _)
      refine ⟨x, r', τ, vn, ?_, ?_, i3, i6, i7, i4, fun t => ?_⟩
      · rw [List.getLast?_cons_cons]; exact i1
      · rw [onSegs_cons2, List.foldlM_cons, add_fin, add_fin, p1]; exact i2
      · rw [i5 t, p4 t, fwdSegs_cons2]; rfl

omit hw in
theorem inv_single (b0 : Seg α) (h : b0.lo < b0.hi) : InvC [b0] b0.lo b0.lo b0.hi :=
  ⟨⟨rfl, h⟩, ⟨_, _, rfl, rfl⟩,
    anti_step (b := b0) (F := fun _ => ⊥) (fun t => segval_single b0 t) (fun _ _ _ _ => le_refl _) (le_refl _)
      (fun _ _ => rfl)⟩

/-- The same from the empty stack. -/
theorem fold_batch_empty {a b : ℚ} (hab : a ≤ b) (rest : ASig α) (q : ℚ) (v : α)
    (hs : Sorted ((Tm.fin q, v) :: rest)) (hf : ∀ p ∈ rest, p.1 ≠ Tm.inf) :
    ∃ x r' τ vn, ((Tm.fin q, v) :: rest).getLast? = some (Tm.fin τ, vn) ∧
      (onSegs a b ((Tm.fin q, v) :: rest)).foldlM (pushSeg worse) [] = .ok (x :: r') ∧ x.hi = Tm.fin (τ + b) ∧
      Tm.fin (τ + a) ≤ x.lo ∧ x.lo ≤ x.hi ∧
      InvC (⟨x.lo, Tm.inf, x.v⟩ :: r') (Tm.fin (q + a)) (Tm.fin (τ + a)) Tm.inf ∧
      ∀ t, segval (⟨x.lo, Tm.inf, x.v⟩ :: r') t =
        (fwdSegs a b ((Tm.fin q, v) :: rest)).foldl (stepF t) ⊥ := by
  cases rest with
  | nil =>
    refine ⟨⟨Tm.fin (q + a), Tm.fin (q + b), v⟩, [], q, v, rfl, rfl, rfl, le_refl _,
      (fin_le_fin _ _).2 (by linarith), ?_, fun t => ?_⟩
    · exact inv_single (⟨Tm.fin (q + a), Tm.inf, v⟩ : Seg α) (fin_lt_inf _)
    · rw [segval_single]; rfl
  | cons p rest =>
    obtain ⟨τ', v'⟩ := p
    obtain ⟨hs1, hs2⟩ := sorted_cons hs
    cases τ' with
    | inf => exact absurd rfl (hf (Tm.inf, v') (List.mem_cons_self ..))
    | fin q' =>
      have hqq : q < q' := (fin_lt_fin _ _).1 (hs1 _ (List.mem_cons_self ..))
      have hI : InvC [(⟨Tm.fin (q + a), Tm.fin (q' + b), v⟩ : Seg α)] (Tm.fin (q + a)) (Tm.fin (q + a))
          (Tm.fin (q' + b)) :=
        inv_single (⟨Tm.fin (q + a), Tm.fin (q' + b), v⟩ : Seg α) ((fin_lt_fin _ _).2 (by linarith))
      obtain ⟨x, r', τ, vn, i1, i2, i3, i6, i7, i4, i5⟩ := fold_batch worse hw hab rest q' v' _ _ _ _ hs2
        (fun p hp => hf p (List.mem_cons_of_mem _ hp)) hI (le_refl _)
        ((fin_le_fin _ _).2 (by linarith)) ((fin_le_fin _ _).2 (by linarith)) (le_refl _)
      refine ⟨x, r', τ, vn, ?_, ?_, i3, i6, i7, i4, fun t => ?_⟩
      · rw [List.getLast?_cons_cons]; exact i1
      · rw [onSegs_cons2, List.foldlM_cons]; exact i2
      · rw [i5 t, segval_single, fwdSegs_cons2]; rfl

end core

/-! ### the output loop -/

section emit
variable {α : Type} [Val α]

/-- What the output loop keeps of one segment. -/
def cutF (r : Tm) (b : Seg α) : Option (Seg α) :=
  if Tm.le b.hi r then none
  else if Tm.le b.lo r && Tm.lt r b.hi then some ⟨r, b.hi, b.v⟩ else some b

/-- What the output loop keeps of the list of segments (bottom first). -/
def cutB (r : Tm) (L : List (Seg α)) : List (Seg α) := L.filterMap (cutF r)

/-- The samples the output loop appends. -/
def emR (r : Tm) : Option α → List (Seg α) → ASig α
  | _, [] => []
  | prev, b :: rest =>
      (if (Tm.le b.hi r || (Tm.le b.lo r && Tm.lt r b.hi)) &&
          ((match prev with | none => true | some x => vne b.v x) || rest.isEmpty)
        then [(b.lo, b.v)] else []) ++ emR r (some b.v) rest

/-- The pending sample `last` after the output loop. -/
def emLast (r : Tm) : Option (Tm × α) → List (Seg α) → Option (Tm × α)
  | last, [] => last
  | last, b :: rest =>
      emLast r (if Tm.le b.hi r then some (b.lo, b.v)
        else if Tm.le b.lo r && Tm.lt r b.hi then (if Tm.lt b.lo r then some (r, b.v) else some (b.lo, b.v))
        else last) rest

theorem timedEmit_eq (r : Tm) (L : List (Seg α)) : ∀ (prev : Option α) (res : ASig α) (last : Option (Tm × α))
    (keep : List (Seg α)),
    timedEmit (some r) L prev res last keep = (res ++ emR r prev L, emLast r last L, keep ++ cutB r L) := by
  induction L with
  | nil => intro prev res last keep; simp [timedEmit, emR, emLast, cutB]
  | cons b rest ih =>
    intro prev res last keep
    simp only [timedEmit, ih, emR, emLast, cutB, cutF, List.filterMap_cons]
    by_cases h1 : Tm.le b.hi r = true
    · simp only [h1, Bool.true_or, Bool.true_and, if_true]
      split <;> (try split) <;> simp
    · have h1' : Tm.le b.hi r = false := by simpa using h1
      by_cases h2 : (Tm.le b.lo r && Tm.lt r b.hi) = true
      · simp only [h1', h2, Bool.false_or, Bool.true_and, if_true, Bool.false_eq_true, if_false]
        split <;> (try split) <;> simp
      · have h2' : (Tm.le b.lo r && Tm.lt r b.hi) = false := by simpa using h2
        simp [h1', h2']

/-- The end of `update`: the pending sample is appended when it is later than the last sample. -/
def finalize (res : ASig α) (last : Option (Tm × α)) : ASig α :=
  match last with
  | none => res
  | some (t, v) =>
      match res.getLast? with
      | none => [(t, v)]
      | some (t', _) => if Tm.lt t' t then res ++ [(t, v)] else res

/-- Consecutive segments, bottom first; only the last one may be degenerate. -/
def BChain : List (Seg α) → Prop
  | [] => True
  | [x] => x.lo ≤ x.hi
  | x :: y :: r => x.lo < x.hi ∧ x.hi = y.lo ∧ BChain (y :: r)

/-- The sample list of a list of segments. -/
def smp (L : List (Seg α)) : ASig α := L.map (fun g => (g.lo, g.v))

omit [Val α] in
theorem BChain.head_le {x : Seg α} {L : List (Seg α)} (h : BChain (x :: L)) : x.lo ≤ x.hi := by
  cases L with
  | nil => exact h
  | cons y r => exact le_of_lt h.1

/-- Segments that start after `r` are kept as they are. -/
theorem emit_after (r : Tm) (L : List (Seg α)) : ∀ (x : Seg α) (prev : Option α) (last : Option (Tm × α)),
    BChain (x :: L) → r < x.lo →
    emR r prev (x :: L) = [] ∧ emLast r last (x :: L) = last ∧ cutB r (x :: L) = x :: L := by
  induction L with
  | nil =>
    intro x prev last hc hr
    have h1 : Tm.le x.hi r = false := by
      rw [Bool.eq_false_iff, Ne, le_iff]; have := hc.head_le; intro h; order
    have h2 : Tm.le x.lo r = false := by rw [Bool.eq_false_iff, Ne, le_iff]; intro h; order
    simp [emR, emLast, cutB, cutF, h1, h2]
  | cons y L ih =>
    intro x prev last hc hr
    have h1 : Tm.le x.hi r = false := by
      rw [Bool.eq_false_iff, Ne, le_iff]; have := hc.head_le; intro h; order
    have h2 : Tm.le x.lo r = false := by rw [Bool.eq_false_iff, Ne, le_iff]; intro h; order
    have hy : r < y.lo := by have := hc.1; have := hc.2.1; order
    obtain ⟨i1, i2, i3⟩ := ih y (some x.v) last hc.2.2 hy
    refine ⟨?_, ?_, ?_⟩
    · rw [show emR r prev (x :: y :: L) = _ ++ emR r (some x.v) (y :: L) from rfl, i1]; simp [h1, h2]
    · rw [show emLast r last (x :: y :: L) = emLast r _ (y :: L) from rfl]; simp only [h1, h2]; exact i2
    · have : cutB r (x :: y :: L) = x :: cutB r (y :: L) := by
        simp [cutB, cutF, List.filterMap_cons, h1, h2]
      rw [this, i3]

/-- `o`, or `prev` where `o` is undefined. -/
def orP {β : Type} (o prev : Option β) : Option β :=
  match o with
  | some v => some v
  | none => prev

omit [Val α] in
theorem valAtA_none_of_lt {β : Type} (l : ASig β) (t : ℚ) (h : ∀ p ∈ l, Tm.fin t < p.1) : valAtA l t = none := by
  cases l with
  | nil => rfl
  | cons p l =>
    obtain ⟨τ, v⟩ := p
    exact (valAtA_cons_none τ v l t).2 (h _ (List.mem_cons_self ..))

omit [Val α] in
theorem sorted_cons_iff {β : Type} (τ : Tm) (v : β) (l : ASig β) :
    Sorted ((τ, v) :: l) ↔ (∀ p ∈ l, τ < p.1) ∧ Sorted l := by
  unfold Sorted times
  rw [List.map_cons, List.pairwise_cons]
  constructor
  · rintro ⟨h1, h2⟩
    exact ⟨fun p hp => (lt_iff _ _).1 (h1 _ (List.mem_map_of_mem hp)), h2⟩
  · rintro ⟨h1, h2⟩
    refine ⟨fun a ha => ?_, h2⟩
    obtain ⟨p, hp, rfl⟩ := List.mem_map.1 ha
    exact (lt_iff _ _).2 (h1 p hp)

omit [Val α] in
theorem finalize_append (ex R : ASig α) (l : Option (Tm × α))
    (h : R = [] → ∀ tv, l = some tv → ∀ p ∈ ex, p.1 < tv.1) :
    finalize (ex ++ R) l = ex ++ finalize R l := by
  cases l with
  | none => rfl
  | some tv =>
    obtain ⟨t, v⟩ := tv
    cases R using List.reverseRecOn with
    | nil =>
      cases ex using List.reverseRecOn with
      | nil => rfl
      | append_singleton ex' p _ =>
        have hp := h rfl (t, v) rfl p (by simp)
        simp only [finalize, List.append_nil, List.getLast?_append, List.getLast?_singleton, List.getLast?_nil,
          Option.some_or]
        rw [(lt_iff _ _).2 hp]; simp
    | append_singleton R' q _ =>
      simp only [finalize, ← List.append_assoc, List.getLast?_append, List.getLast?_singleton, Option.some_or]
      split <;> simp

theorem ex_cases (hv : ∀ a b : α, vne a b = false → a = b) (prev : Option α) (τ : Tm) (v : α) (e : Bool) :
    (if ((match prev with | none => true | some w => vne v w) || e) = true then [(τ, v)] else []) = [(τ, v)] ∨
    ((if ((match prev with | none => true | some w => vne v w) || e) = true then [(τ, v)] else []) = [] ∧
      prev = some v) := by
  cases prev with
  | none => left; simp
  | some w =>
    by_cases h : vne v w = true
    · left; simp [h]
    · have h' : vne v w = false := by simpa using h
      cases e with
      | true => left; simp
      | false =>
        right
        refine ⟨by simp [h'], ?_⟩
        rw [hv v w h']

omit [Val α] in
theorem valAtA_smp_cons (x : Seg α) (L : List (Seg α)) (t : ℚ) (h : x.lo ≤ Tm.fin t) :
    valAtA (smp (x :: L)) t = some ((valAtA (smp L) t).getD x.v) := by
  rw [smp, List.map_cons]; exact valAtA_cons_some h

omit [Val α] in
theorem valAtA_smp_none (x : Seg α) (L : List (Seg α)) (t : ℚ) (h : Tm.fin t < x.lo) :
    valAtA (smp (x :: L)) t = none := by
  rw [smp, List.map_cons]; exact (valAtA_cons_none _ _ _ _).2 h

/-- The result of the output loop on a chain that starts at `c ≤ r` and whose last segment starts at or after `r`:
    a strictly increasing sample list from `c` to `r` that reads as the chain does. -/
theorem emit_spec (hv : ∀ a b : α, vne a b = false → a = b) (r : ℚ) (L : List (Seg α)) : ∀ (x : Seg α) (c : ℚ) (prev : Option α)
    (last0 : Option (Tm × α)),
    BChain (x :: L) → x.lo = Tm.fin c → c ≤ r → (∀ z, (x :: L).getLast? = some z → Tm.fin r ≤ z.lo) →
    Sorted (finalize (emR (Tm.fin r) prev (x :: L)) (emLast (Tm.fin r) last0 (x :: L))) ∧
    (∀ p ∈ finalize (emR (Tm.fin r) prev (x :: L)) (emLast (Tm.fin r) last0 (x :: L)),
      Tm.fin c ≤ p.1 ∧ p.1 ≤ Tm.fin r) ∧
    (∃ vr, (finalize (emR (Tm.fin r) prev (x :: L)) (emLast (Tm.fin r) last0 (x :: L))).getLast? =
      some (Tm.fin r, vr)) ∧
    (prev = none → (finalize (emR (Tm.fin r) prev (x :: L)) (emLast (Tm.fin r) last0 (x :: L))).head? =
      some (Tm.fin c, x.v)) ∧
    ∀ t, c ≤ t → t ≤ r →
      orP (valAtA (finalize (emR (Tm.fin r) prev (x :: L)) (emLast (Tm.fin r) last0 (x :: L))) t) prev =
        valAtA (smp (x :: L)) t := by
  induction L with
  | nil =>
    intro x c prev last0 hc hx hcr hlast
    have h1 : Tm.fin r ≤ x.lo := hlast x rfl
    have hrc : c = r := by
      rw [hx] at h1; exact le_antisymm hcr ((fin_le_fin _ _).1 h1)
    subst hrc
    have hle : Tm.le x.lo (Tm.fin c) = true := by rw [le_iff, hx]
    have hnlt : Tm.lt x.lo (Tm.fin c) = false := by rw [lt_false_iff, hx]
    have hR : emR (Tm.fin c) prev [x] = [(x.lo, x.v)] := by
      by_cases h2 : Tm.le x.hi (Tm.fin c) = true
      · simp [emR, h2]
      · have h2' : Tm.le x.hi (Tm.fin c) = false := by simpa using h2
        have h3 : Tm.lt (Tm.fin c) x.hi = true := by
          rw [lt_iff]; rw [Bool.eq_false_iff, Ne, le_iff] at h2'; exact not_le.1 h2'
        simp [emR, h2', hle, h3]
    have hLst : emLast (Tm.fin c) last0 [x] = some (x.lo, x.v) := by
      by_cases h2 : Tm.le x.hi (Tm.fin c) = true
      · simp [emLast, h2]
      · have h2' : Tm.le x.hi (Tm.fin c) = false := by simpa using h2
        have h3 : Tm.lt (Tm.fin c) x.hi = true := by
          rw [lt_iff]; rw [Bool.eq_false_iff, Ne, le_iff] at h2'; exact not_le.1 h2'
        simp [emLast, h2', hle, h3, hnlt]
    have hout : finalize (emR (Tm.fin c) prev [x]) (emLast (Tm.fin c) last0 [x]) = [(Tm.fin c, x.v)] := by
      rw [hR, hLst, hx]
      simp [finalize, Tm.lt]
    rw [hout]
    refine ⟨by simp [Sorted, times], ?_, ⟨x.v, rfl⟩, fun _ => rfl, fun t h1 h2 => ?_⟩
    · intro p hp
      rw [List.mem_singleton] at hp; subst hp
      exact ⟨le_refl _, le_refl _⟩
    · have ht : Tm.fin c ≤ Tm.fin t := (fin_le_fin _ _).2 h1
      rw [valAtA_smp_cons x [] t (by rw [hx]; exact ht), valAtA_cons_some ht]
      simp [smp, valAtA, orP]
  | cons y L ih =>
    intro x c prev last0 hc hx hcr hlast
    obtain ⟨hxlt, hxy, hcy⟩ := hc
    by_cases hA : x.hi ≤ Tm.fin r
    · -- the segment ends before `r`: emitted and dropped
      obtain ⟨c', hc'⟩ := exists_fin_of_le_fin hA
      have hcc' : c < c' := by rw [hx, hc'] at hxlt; exact (fin_lt_fin _ _).1 hxlt
      have hc'r : c' ≤ r := by rw [hc'] at hA; exact (fin_le_fin _ _).1 hA
      have hle : Tm.le x.hi (Tm.fin r) = true := (le_iff _ _).2 hA
      obtain ⟨i1, i2, i3, _, i5⟩ := ih y c' (some x.v) (some (x.lo, x.v)) hcy (hxy.symm.trans hc') hc'r
        (fun z hz => hlast z (by rw [List.getLast?_cons_cons]; exact hz))
      have eR : emR (Tm.fin r) prev (x :: y :: L) =
          (if ((match prev with | none => true | some w => vne x.v w) || false) = true then [(x.lo, x.v)] else []) ++
            emR (Tm.fin r) (some x.v) (y :: L) := by
        rw [show emR (Tm.fin r) prev (x :: y :: L) = _ ++ emR (Tm.fin r) (some x.v) (y :: L) from rfl]
        simp [hle]
      have eL : emLast (Tm.fin r) last0 (x :: y :: L) = emLast (Tm.fin r) (some (x.lo, x.v)) (y :: L) := by
        rw [show emLast (Tm.fin r) last0 (x :: y :: L) = emLast (Tm.fin r) _ (y :: L) from rfl]
        simp [hle]
      have hexc := ex_cases hv prev x.lo x.v false
      have hfa : ∀ ex : ASig α, (∀ p ∈ ex, p.1 = x.lo) →
          finalize (ex ++ emR (Tm.fin r) (some x.v) (y :: L))
            (emLast (Tm.fin r) (some (x.lo, x.v)) (y :: L)) =
          ex ++ finalize (emR (Tm.fin r) (some x.v) (y :: L)) (emLast (Tm.fin r) (some (x.lo, x.v)) (y :: L)) := by
        intro ex hexp
        rw [finalize_append]
        intro hRnil tv htv p hp
        have : tv ∈ finalize (emR (Tm.fin r) (some x.v) (y :: L))
            (emLast (Tm.fin r) (some (x.lo, x.v)) (y :: L)) := by
          rw [hRnil, htv]
          obtain ⟨t, v⟩ := tv
          simp [finalize]
        have := (i2 tv this).1
        rw [hexp p hp, hx]
        exact lt_of_lt_of_le ((fin_lt_fin _ _).2 hcc') this
      have hvsm : ∀ t, c ≤ t → valAtA (smp (x :: y :: L)) t = some ((valAtA (smp (y :: L)) t).getD x.v) :=
        fun t ht => valAtA_smp_cons x _ t (by rw [hx]; exact (fin_le_fin _ _).2 ht)
      rw [eR, eL]
      rcases hexc with e | ⟨e, hprev⟩
      · -- the sample is emitted
        rw [e, hfa _ (fun p hp => by rw [List.mem_singleton] at hp; rw [hp])]
        generalize finalize (emR (Tm.fin r) (some x.v) (y :: L))
          (emLast (Tm.fin r) (some (x.lo, x.v)) (y :: L)) = out' at i1 i2 i3 i5 ⊢
        rw [hx]
        have hne : out' ≠ [] := by
          obtain ⟨vr, hvr⟩ := i3
          intro h; rw [h] at hvr; cases hvr
        refine ⟨?_, ?_, ?_, fun _ => rfl, fun t h1 h2 => ?_⟩
        · rw [List.singleton_append, sorted_cons_iff]
          exact ⟨fun p hp => lt_of_lt_of_le ((fin_lt_fin _ _).2 hcc') (i2 p hp).1, i1⟩
        · intro p hp
          rcases List.mem_cons.1 hp with rfl | hp
          · exact ⟨le_refl _, (fin_le_fin _ _).2 hcr⟩
          · exact ⟨le_trans ((fin_le_fin _ _).2 (le_of_lt hcc')) (i2 p hp).1, (i2 p hp).2⟩
        · obtain ⟨vr, hvr⟩ := i3
          exact ⟨vr, by rw [List.getLast?_append_of_ne_nil _ hne]; exact hvr⟩
        · rw [List.singleton_append, valAtA_cons_some ((fin_le_fin _ _).2 h1), hvsm t h1]
          by_cases ht : c' ≤ t
          · have := i5 t ht h2
            cases hv : valAtA out' t with
            | some w => rw [hv] at this; simp only [orP] at this ⊢; rw [← this]
            | none => rw [hv] at this; simp only [orP] at this ⊢; rw [← this]; rfl
          · have hlt : Tm.fin t < Tm.fin c' := (fin_lt_fin _ _).2 (not_le.1 ht)
            rw [valAtA_none_of_lt out' t (fun p hp => lt_of_lt_of_le hlt (i2 p hp).1),
              valAtA_smp_none y L t (by rw [← hxy, hc']; exact hlt)]
            rfl
      · -- the sample is not emitted: the value is the previous one
        rw [e, List.nil_append]
        generalize finalize (emR (Tm.fin r) (some x.v) (y :: L))
          (emLast (Tm.fin r) (some (x.lo, x.v)) (y :: L)) = out' at i1 i2 i3 i5 ⊢
        refine ⟨i1, fun p hp => ⟨le_trans ((fin_le_fin _ _).2 (le_of_lt hcc')) (i2 p hp).1, (i2 p hp).2⟩, i3,
          (fun h => by rw [hprev] at h; cases h), fun t h1 h2 => ?_⟩
        rw [hvsm t h1, hprev]
        by_cases ht : c' ≤ t
        · have := i5 t ht h2
          rw [this]
          cases hv : valAtA (smp (y :: L)) t with
          | some w => rfl
          | none =>
            have := (valAtA_cons_none y.lo y.v (smp L) t).1 hv
            rw [← hxy, hc'] at this
            exact absurd ((fin_lt_fin _ _).1 this) (not_lt.2 ht)
        · have hlt : Tm.fin t < Tm.fin c' := (fin_lt_fin _ _).2 (not_le.1 ht)
          rw [valAtA_none_of_lt out' t (fun p hp => lt_of_lt_of_le hlt (i2 p hp).1),
            valAtA_smp_none y L t (by rw [← hxy, hc']; exact hlt)]
          rfl
    · -- the segment contains `r`: the rest is kept
      have hB : Tm.fin r < x.hi := not_le.1 hA
      have hle : Tm.le x.hi (Tm.fin r) = false := by rw [Bool.eq_false_iff, Ne, le_iff]; exact hA
      have hle2 : Tm.le x.lo (Tm.fin r) = true := by rw [le_iff, hx]; exact (fin_le_fin _ _).2 hcr
      have hlt2 : Tm.lt (Tm.fin r) x.hi = true := (lt_iff _ _).2 hB
      obtain ⟨a1, a2, _⟩ := emit_after (Tm.fin r) L y (some x.v)
        (if Tm.lt x.lo (Tm.fin r) then some (Tm.fin r, x.v) else some (x.lo, x.v)) hcy (by rw [← hxy]; exact hB)
      have eR : emR (Tm.fin r) prev (x :: y :: L) =
          (if ((match prev with | none => true | some w => vne x.v w) || false) = true then [(x.lo, x.v)] else []) := by
        rw [show emR (Tm.fin r) prev (x :: y :: L) = _ ++ emR (Tm.fin r) (some x.v) (y :: L) from rfl, a1]
        simp [hle, hle2, hlt2]
      have eL : emLast (Tm.fin r) last0 (x :: y :: L) =
          (if Tm.lt x.lo (Tm.fin r) then some (Tm.fin r, x.v) else some (x.lo, x.v)) := by
        rw [show emLast (Tm.fin r) last0 (x :: y :: L) = emLast (Tm.fin r) _ (y :: L) from rfl]
        simp only [hle, hle2, hlt2, Bool.and_self, if_true, Bool.false_eq_true, if_false]
        exact a2
      rw [eR, eL]
      have hexc := ex_cases hv prev x.lo x.v false
      have hvsm : ∀ t, c ≤ t → t ≤ r → valAtA (smp (x :: y :: L)) t = some x.v := by
        intro t h1 h2
        rw [valAtA_smp_cons x _ t (by rw [hx]; exact (fin_le_fin _ _).2 h1),
          valAtA_smp_none y L t (by rw [← hxy]; exact lt_of_le_of_lt ((fin_le_fin _ _).2 h2) hB)]
        rfl
      by_cases hcr' : c < r
      · have hl : Tm.lt (Tm.fin c) (Tm.fin r) = true := (lt_iff _ _).2 ((fin_lt_fin _ _).2 hcr')
        have eL' : (if Tm.lt x.lo (Tm.fin r) = true then some (Tm.fin r, x.v) else some (x.lo, x.v)) =
            some (Tm.fin r, x.v) := by rw [hx, hl, if_pos rfl]
        rw [eL']
        rcases hexc with e | ⟨e, hprev⟩
        · have ho : finalize [(x.lo, x.v)] (some (Tm.fin r, x.v)) = [(Tm.fin c, x.v), (Tm.fin r, x.v)] := by
            rw [hx]; simp [finalize, hl]
          rw [e, ho]
          refine ⟨?_, ?_, ⟨x.v, rfl⟩, fun _ => rfl, fun t h1 h2 => ?_⟩
          · rw [sorted_cons_iff]
            refine ⟨fun p hp => ?_, by simp [Sorted, times]⟩
            rw [List.mem_singleton] at hp; subst hp; exact (fin_lt_fin _ _).2 hcr'
          · intro p hp
            simp only [List.mem_cons, List.not_mem_nil, or_false] at hp
            rcases hp with rfl | rfl
            · exact ⟨le_refl _, (fin_le_fin _ _).2 hcr⟩
            · exact ⟨(fin_le_fin _ _).2 hcr, le_refl _⟩
          · rw [hvsm t h1 h2, valAtA_cons_some ((fin_le_fin _ _).2 h1)]
            by_cases htr : r ≤ t
            · rw [valAtA_cons_some ((fin_le_fin _ _).2 htr)]; rfl
            · rw [(valAtA_cons_none _ _ _ _).2 ((fin_lt_fin _ _).2 (not_le.1 htr))]; rfl
        · have ho : finalize ([] : ASig α) (some (Tm.fin r, x.v)) = [(Tm.fin r, x.v)] := rfl
          rw [e, ho]
          refine ⟨by simp [Sorted, times], ?_, ⟨x.v, rfl⟩, (fun h => by rw [hprev] at h; cases h),
            fun t h1 h2 => ?_⟩
          · intro p hp
            rw [List.mem_singleton] at hp; subst hp
            exact ⟨(fin_le_fin _ _).2 hcr, le_refl _⟩
          · rw [hvsm t h1 h2, hprev]
            by_cases htr : r ≤ t
            · rw [valAtA_cons_some ((fin_le_fin _ _).2 htr)]; rfl
            · rw [(valAtA_cons_none _ _ _ _).2 ((fin_lt_fin _ _).2 (not_le.1 htr))]; rfl
      · have hrc : c = r := le_antisymm hcr (not_lt.1 hcr')
        subst hrc
        have hl : Tm.lt (Tm.fin c) (Tm.fin c) = false := by simp [Tm.lt]
        have eL' : (if Tm.lt x.lo (Tm.fin c) = true then some (Tm.fin c, x.v) else some (x.lo, x.v)) =
            some (Tm.fin c, x.v) := by rw [hx, hl]; rfl
        rw [eL']
        have hfin : Sorted [(Tm.fin c, x.v)] ∧ (∀ p ∈ [(Tm.fin c, x.v)], Tm.fin c ≤ p.1 ∧ p.1 ≤ Tm.fin c) ∧
            (∃ vr, [(Tm.fin c, x.v)].getLast? = some (Tm.fin c, vr)) ∧
            (prev = none → [(Tm.fin c, x.v)].head? = some (Tm.fin c, x.v)) ∧
            ∀ t, c ≤ t → t ≤ c → orP (valAtA [(Tm.fin c, x.v)] t) prev = valAtA (smp (x :: y :: L)) t := by
          refine ⟨by simp [Sorted, times], ?_, ⟨x.v, rfl⟩, fun _ => rfl, fun t h1 h2 => ?_⟩
          · intro p hp
            rw [List.mem_singleton] at hp; subst hp
            exact ⟨le_refl _, le_refl _⟩
          · rw [hvsm t h1 h2, valAtA_cons_some ((fin_le_fin _ _).2 h1)]; rfl
        rcases hexc with e | ⟨e, _⟩
        · rw [e, show finalize [(x.lo, x.v)] (some (Tm.fin c, x.v)) = [(Tm.fin c, x.v)] from by
            rw [hx]; simp [finalize, hl]]
          exact hfin
        · rw [e, show finalize ([] : ASig α) (some (Tm.fin c, x.v)) = [(Tm.fin c, x.v)] from rfl]
          exact hfin

end emit

/-! ### from stacks (top first) to lists of segments (bottom first) -/

section stack
variable {α : Type}

theorem cutB_reverse (r : Tm) (L : List (Seg α)) : (cutB r L).reverse = L.reverse.filterMap (cutF r) := by
  rw [cutB, List.filterMap_reverse]

theorem rev_bchain_aux {c : Tm} : ∀ (r : List (Seg α)) (x : Seg α) (M : List (Seg α)), ChainC c (x :: r) →
    BChain (x :: M) → ∃ z N, (x :: r).reverse ++ M = z :: N ∧ z.lo = c ∧ BChain (z :: N) := by
  intro r
  induction r with
  | nil =>
    intro x M h hM
    exact ⟨x, M, by simp, h.1, hM⟩
  | cons y r ih =>
    intro x M h hM
    obtain ⟨z, N, e1, e2, e3⟩ := ih y (x :: M) h.2.2 ⟨h.2.2.top_lt, h.1, hM⟩
    refine ⟨z, N, ?_, e2, e3⟩
    rw [← e1]; simp

/-- The actual stack (its top segment may be degenerate) read bottom first. -/
theorem rev_bchain {c : Tm} {xv x : Seg α} {r' : List (Seg α)} (h : ChainC c (xv :: r')) (hlo : x.lo = xv.lo)
    (hle : x.lo ≤ x.hi) :
    ∃ z N, (x :: r').reverse = z :: N ∧ z.lo = c ∧ BChain (z :: N) ∧ (z :: N).getLast? = some x := by
  have hl : ((x :: r').reverse).getLast? = some x := by simp
  cases r' with
  | nil => exact ⟨x, [], rfl, hlo.trans h.1, hle, rfl⟩
  | cons y r'' =>
    obtain ⟨z, N, e1, e2, e3⟩ := rev_bchain_aux r'' y [x] h.2.2 ⟨h.2.2.top_lt, h.1.trans hlo.symm, hle⟩
    have e : (x :: y :: r'').reverse = z :: N := by rw [← e1]; simp
    exact ⟨z, N, e, e2, e3, by rw [← e]; exact hl⟩

theorem smp_reverse_congr (x xv : Seg α) (r' : List (Seg α)) (hlo : x.lo = xv.lo) (hv : x.v = xv.v) :
    smp (x :: r').reverse = smp (xv :: r').reverse := by
  simp [smp, hlo, hv]

variable [LinearOrder α] [OrderBot α]

/-- Reading the sample list of a chain between its base and its top end. -/
theorem ChainC.valAtA_smp {c : Tm} {x : Seg α} {r : List (Seg α)} (h : ChainC c (x :: r)) {t : ℚ}
    (h0 : c ≤ Tm.fin t) (ht : Tm.fin t < x.hi) :
    valAtA (smp (x :: r).reverse) t = some (segval (x :: r) t) := by
  induction r generalizing x with
  | nil =>
    have hx : Has x t := ⟨by rw [h.1]; exact h0, ht⟩
    rw [segval_cons_has _ hx]
    simp only [smp, List.reverse_cons, List.reverse_nil, List.nil_append, List.map_cons, List.map_nil]
    exact valAtA_cons_some hx.1
  | cons y r ih =>
    have e : smp (x :: y :: r).reverse = smp (y :: r).reverse ++ [(x.lo, x.v)] := by simp [smp]
    rw [e]
    by_cases hx : x.lo ≤ Tm.fin t
    · rw [segval_cons_has _ ⟨hx, ht⟩]
      refine valAtA_snoc_ge _ _ _ _ (fun p hp => ?_) hx
      simp only [smp, List.mem_map, List.mem_reverse] at hp
      obtain ⟨z, hz, rfl⟩ := hp
      have := h.lo_lt z hz
      show z.lo ≤ Tm.fin t
      order
    · have hx' : Tm.fin t < x.lo := not_le.1 hx
      rw [valAtA_snoc_lt _ _ _ _ hx', segval_cons_of_lt _ _ hx']
      exact ih h.2.2 (by rw [h.1]; exact hx')

/-- Cutting a chain at a time `r` inside it. -/
theorem cut_chain {c : Tm} (r : Tm) (rest : List (Seg α)) : ∀ (x : Seg α), ChainC c (x :: rest) → c ≤ r → r < x.hi →
    ∃ x' rest', (x :: rest).filterMap (cutF r) = x' :: rest' ∧ x'.hi = x.hi ∧ x'.v = x.v ∧
      x'.lo = (if x.lo ≤ r then r else x.lo) ∧ rest' = rest.filterMap (cutF r) ∧ ChainC r (x' :: rest') ∧
      ∀ t, r ≤ Tm.fin t → segval (x' :: rest') t = segval (x :: rest) t := by
  induction rest with
  | nil =>
    intro x h hc hr
    have hxlo : x.lo ≤ r := by rw [h.1]; exact hc
    have h1 : Tm.le x.hi r = false := by rw [Bool.eq_false_iff, Ne, le_iff]; exact not_le.2 hr
    have h2 : Tm.le x.lo r = true := (le_iff _ _).2 hxlo
    have h3 : Tm.lt r x.hi = true := (lt_iff _ _).2 hr
    refine ⟨⟨r, x.hi, x.v⟩, [], by simp [cutF, h1, h2, h3], rfl, rfl, by rw [if_pos hxlo], rfl, ⟨rfl, hr⟩,
      fun t ht => ?_⟩
    by_cases hx : Has x t
    · rw [segval_cons_has _ hx, segval_cons_has _ (show Has (⟨r, x.hi, x.v⟩ : Seg α) t from ⟨ht, hx.2⟩)]
    · have : ¬ Has (⟨r, x.hi, x.v⟩ : Seg α) t := fun hh => hx ⟨le_trans hxlo hh.1, hh.2⟩
      rw [segval_cons_not _ hx, segval_cons_not _ this]
  | cons y rest ih =>
    intro x h hc hr
    have h1 : Tm.le x.hi r = false := by rw [Bool.eq_false_iff, Ne, le_iff]; exact not_le.2 hr
    have h3 : Tm.lt r x.hi = true := (lt_iff _ _).2 hr
    by_cases hxlo : x.lo ≤ r
    · have h2 : Tm.le x.lo r = true := (le_iff _ _).2 hxlo
      have hnil : (y :: rest).filterMap (cutF r) = [] := by
        rw [List.filterMap_eq_nil_iff]
        intro z hz
        have := h.hi_le z hz
        have : Tm.le z.hi r = true := by rw [le_iff]; order
        simp [cutF, this]
      refine ⟨⟨r, x.hi, x.v⟩, [], ?_, rfl, rfl, by rw [if_pos hxlo], hnil.symm, ⟨rfl, hr⟩, fun t ht => ?_⟩
      · rw [List.filterMap_cons, hnil]; simp [cutF, h1, h2, h3]
      · by_cases hx : Has x t
        · rw [segval_cons_has _ hx, segval_cons_has _ (show Has (⟨r, x.hi, x.v⟩ : Seg α) t from ⟨ht, hx.2⟩)]
        · have : ¬ Has (⟨r, x.hi, x.v⟩ : Seg α) t := fun hh => hx ⟨le_trans hxlo hh.1, hh.2⟩
          rw [segval_cons_not _ hx, segval_cons_not _ this]
          have hb := segval_bot_tailC h (t := t) (by order)
          rw [hb]; rfl
    · have hxlo' : r < x.lo := not_le.1 hxlo
      have h2 : Tm.le x.lo r = false := by rw [Bool.eq_false_iff, Ne, le_iff]; exact hxlo
      obtain ⟨y', rest', e1, e2, e3, e4, e5, e6, e7⟩ := ih y h.2.2 hc (by rw [h.1]; exact hxlo')
      refine ⟨x, y' :: rest', ?_, rfl, rfl, by rw [if_neg hxlo], ?_, ⟨e2.trans h.1, h.2.1, e6⟩, fun t ht => ?_⟩
      · rw [List.filterMap_cons, e1]; simp [cutF, h1, h2]
      · rw [e1]
      · by_cases hx : Has x t
        · rw [segval_cons_has _ hx, segval_cons_has _ hx]
        · rw [segval_cons_not _ hx, segval_cons_not _ hx, e7 t ht]

end stack

/-! ### the ideal value function of the samples seen so far -/

section ideal
variable {α : Type} [LinearOrder α] [OrderBot α]

/-- The value the offline algorithm computes at `t` for the sample list `I` (its last sample extended to infinity). -/
noncomputable def Wn (a b : ℚ) (I : ASig α) (t : ℚ) : α := (fwdSegs a b I).foldl (stepF t) ⊥

theorem Wn_le_iff (a b : ℚ) (I : ASig α) (t : ℚ) (z : α) :
    Wn a b I t ≤ z ↔ ∀ s ∈ fwdSegs a b I, Has s t → s.v ≤ z := by
  rw [Wn, foldl_stepF_le_iff]
  simp

/-- A segment cut at `e`. -/
def cap (e : Tm) (s : Seg α) : Seg α := ⟨s.lo, min s.hi e, s.v⟩

omit [LinearOrder α] [OrderBot α] in
theorem has_cap (e : Tm) (s : Seg α) (t : ℚ) : Has (cap e s) t ↔ Has s t ∧ Tm.fin t < e := by
  simp only [Has, cap, lt_min_iff]
  tauto

theorem add_mono {x y : Tm} (h : x ≤ y) (q : ℚ) : x.add q ≤ y.add q := by
  cases x with
  | inf =>
    cases y with
    | inf => exact le_refl _
    | fin _ => exact absurd h (not_inf_le_fin _)
  | fin p =>
    cases y with
    | inf => exact le_inf _
    | fin p' => exact (fin_le_fin _ _).2 (by have := (fin_le_fin _ _).1 h; linarith)

omit [LinearOrder α] [OrderBot α] in
theorem fwdSegs_append (a b : ℚ) (q : ℚ) (v : α) (rest : ASig α) : ∀ (I : ASig α), (∀ p ∈ I, p.1 ≤ Tm.fin q) →
    fwdSegs a b (I ++ (Tm.fin q, v) :: rest) =
      (fwdSegs a b I).map (cap (Tm.fin (q + b))) ++ fwdSegs a b ((Tm.fin q, v) :: rest) := by
  intro I
  induction I with
  | nil => intro _; rfl
  | cons p I ih =>
    intro h
    obtain ⟨τ, w⟩ := p
    cases I with
    | nil =>
      rw [List.singleton_append, fwdSegs_cons2, fwdSegs_one]
      simp [cap]
    | cons p' I' =>
      obtain ⟨τ', w'⟩ := p'
      have h' : τ' ≤ Tm.fin q := h (τ', w') (by simp)
      have := ih (fun p hp => h p (List.mem_cons_of_mem _ hp))
      rw [List.cons_append, List.cons_append, fwdSegs_cons2, ← List.cons_append, this, fwdSegs_cons2, List.map_cons,
        List.cons_append]
      congr 1
      have : τ'.add b ≤ Tm.fin (q + b) := add_mono h' b
      simp [cap, min_eq_left this]

theorem Wn_append_le_iff (a b : ℚ) (q : ℚ) (v : α) (rest I : ASig α) (h : ∀ p ∈ I, p.1 ≤ Tm.fin q) (t : ℚ) (z : α) :
    Wn a b (I ++ (Tm.fin q, v) :: rest) t ≤ z ↔
      (t < q + b → Wn a b I t ≤ z) ∧ ∀ s ∈ fwdSegs a b ((Tm.fin q, v) :: rest), Has s t → s.v ≤ z := by
  rw [Wn_le_iff, fwdSegs_append a b q v rest I h, Wn_le_iff]
  constructor
  · intro H
    refine ⟨fun ht s hs hst => ?_, fun s hs hst => H s (List.mem_append_right _ hs) hst⟩
    exact H (cap (Tm.fin (q + b)) s) (List.mem_append_left _ (List.mem_map_of_mem hs))
      ((has_cap _ _ _).2 ⟨hst, (fin_lt_fin _ _).2 ht⟩)
  · rintro ⟨H1, H2⟩ s hs hst
    rcases List.mem_append.1 hs with hs | hs
    · obtain ⟨s', hs', rfl⟩ := List.mem_map.1 hs
      obtain ⟨h1, h2⟩ := (has_cap _ _ _).1 hst
      exact H1 ((fin_lt_fin _ _).1 h2) s' hs' h1
    · exact H2 s hs hst

omit [LinearOrder α] [OrderBot α] in
theorem fwdSegs_lo_ge (a b : ℚ) (rest : ASig α) : ∀ (q : ℚ) (v : α), Sorted ((Tm.fin q, v) :: rest) →
    ∀ s ∈ fwdSegs a b ((Tm.fin q, v) :: rest), Tm.fin (q + a) ≤ s.lo := by
  induction rest with
  | nil =>
    intro q v _ s hs
    rw [fwdSegs_one, List.mem_singleton] at hs; subst hs; exact le_refl _
  | cons p rest ih =>
    intro q v hsrt s hs
    obtain ⟨τ', v'⟩ := p
    obtain ⟨hs1, hs2⟩ := sorted_cons hsrt
    rw [fwdSegs_cons2, List.mem_cons] at hs
    rcases hs with rfl | hs
    · exact le_refl _
    · have hlt : Tm.fin q < τ' := hs1 _ (List.mem_cons_self ..)
      cases τ' with
      | inf =>
        have : rest = [] := by
          cases rest with
          | nil => rfl
          | cons p'' _ => exact absurd ((sorted_cons hs2).1 p'' (List.mem_cons_self ..)) (not_inf_lt _)
        subst this
        rw [fwdSegs_one, List.mem_singleton] at hs; subst hs
        exact le_inf _
      | fin q' =>
        have := ih q' v' hs2 s hs
        have h2 : q < q' := (fin_lt_fin _ _).1 hlt
        exact le_trans ((fin_le_fin _ _).2 (by linarith)) this

/-- New samples do not change the value before their first segment starts. -/
theorem Wn_stable {a b : ℚ} (hab : a ≤ b) (q : ℚ) (v : α) (rest I : ASig α) (h : ∀ p ∈ I, p.1 ≤ Tm.fin q)
    (hs : Sorted ((Tm.fin q, v) :: rest)) (t : ℚ) (ht : t < q + a) :
    Wn a b (I ++ (Tm.fin q, v) :: rest) t = Wn a b I t := by
  apply eq_of_forall_ge_iff
  intro z
  rw [Wn_append_le_iff a b q v rest I h]
  constructor
  · rintro ⟨H, _⟩; exact H (by linarith)
  · intro H
    refine ⟨fun _ => H, fun s hs' hst => ?_⟩
    have := fwdSegs_lo_ge a b rest q v hs s hs'
    have h2 := hst.1
    have : Tm.fin (q + a) ≤ Tm.fin t := le_trans this h2
    exact absurd ((fin_le_fin _ _).1 this) (not_le.2 ht)

/-- The stack values after a batch. -/
theorem Wn_step (a b : ℚ) (q : ℚ) (v : α) (rest I : ASig α) (h : ∀ p ∈ I, p.1 ≤ Tm.fin q) (t : ℚ) (X : α)
    (hX : X = if t < q + b then Wn a b I t else ⊥) :
    (fwdSegs a b ((Tm.fin q, v) :: rest)).foldl (stepF t) X = Wn a b (I ++ (Tm.fin q, v) :: rest) t := by
  apply eq_of_forall_ge_iff
  intro z
  rw [Wn_append_le_iff a b q v rest I h, foldl_stepF_le_iff, hX]
  by_cases ht : t < q + b
  · simp [ht]
  · simp [ht]

omit [LinearOrder α] [OrderBot α] in
theorem fwdSegs_hi (a b : ℚ) (rest : ASig α) : ∀ (p : Tm × α) (τ : ℚ) (vn : α), Sorted (p :: rest) →
    (p :: rest).getLast? = some (Tm.fin τ, vn) →
    ∀ s ∈ fwdSegs a b (p :: rest), s.hi ≤ Tm.fin (τ + b) ∨ (s.hi = Tm.inf ∧ s.lo = Tm.fin (τ + a)) := by
  induction rest with
  | nil =>
    intro p τ vn _ hl s hs
    obtain ⟨σ, w⟩ := p
    simp only [List.getLast?_singleton, Option.some.injEq, Prod.mk.injEq] at hl
    obtain ⟨rfl, rfl⟩ := hl
    rw [fwdSegs_one, List.mem_singleton] at hs; subst hs
    exact Or.inr ⟨rfl, rfl⟩
  | cons p' rest ih =>
    intro p τ vn hsrt hl s hs
    obtain ⟨σ, w⟩ := p
    obtain ⟨σ', w'⟩ := p'
    obtain ⟨_, hs2⟩ := sorted_cons hsrt
    rw [List.getLast?_cons_cons] at hl
    rw [fwdSegs_cons2, List.mem_cons] at hs
    rcases hs with rfl | hs
    · left
      show σ'.add b ≤ Tm.fin (τ + b)
      have : σ' ≤ Tm.fin τ := by
        cases rest with
        | nil =>
          simp only [List.getLast?_singleton, Option.some.injEq, Prod.mk.injEq] at hl
          rw [hl.1]
        | cons p'' rest' =>
          have hm : (Tm.fin τ, vn) ∈ p'' :: rest' := by
            rw [List.getLast?_cons_cons] at hl
            exact List.mem_of_getLast? hl
          exact le_of_lt ((sorted_cons hs2).1 _ hm)
      exact add_mono this b
    · exact ih (σ', w') τ vn hs2 hl s hs

/-- With `b = 0` the value from the last stamp on is constant. -/
theorem Wn_const {a b : ℚ} (ha : 0 ≤ a) (hab : a ≤ b) (hb : b = 0) (I : ASig α) (hs : Sorted I) (τ : ℚ) (vn : α)
    (hl : I.getLast? = some (Tm.fin τ, vn)) (t : ℚ) (ht : τ ≤ t) : Wn a b I t = Wn a b I τ := by
  have ha0 : a = 0 := le_antisymm (by linarith) ha
  cases I with
  | nil => cases hl
  | cons p rest =>
    apply eq_of_forall_ge_iff
    intro z
    rw [Wn_le_iff, Wn_le_iff]
    have key : ∀ s ∈ fwdSegs a b (p :: rest), Has s t ↔ Has s τ := by
      intro s hs'
      rcases fwdSegs_hi a b rest p τ vn hs hl s hs' with h1 | ⟨h1, h2⟩
      · rw [hb, add_zero] at h1
        constructor
        · intro hh; have := hh.2; have := (fin_le_fin _ _).2 ht; order
        · intro hh; have := hh.2; order
      · rw [ha0, add_zero] at h2
        constructor
        · intro _; exact ⟨le_of_eq h2, by rw [h1]; exact fin_lt_inf _⟩
        · intro _; exact ⟨by rw [h2]; exact (fin_le_fin _ _).2 ht, by rw [h1]; exact fin_lt_inf _⟩
    constructor
    · intro H s hs' hst; exact H s hs' ((key s hs').2 hst)
    · intro H s hs' hst; exact H s hs' ((key s hs').1 hst)

/-- Re-ending the top segment of a stack whose top segment ends at infinity. -/
theorem reend_inv {c L : Tm} {lo : Tm} {v : α} {r' : List (Seg α)} (hI : InvC (⟨lo, Tm.inf, v⟩ :: r') c L Tm.inf)
    {e : Tm} (he : lo < e) :
    InvC (⟨lo, e, v⟩ :: r') c L e ∧
      ∀ t, segval (⟨lo, e, v⟩ :: r') t = if Tm.fin t < e then segval (⟨lo, Tm.inf, v⟩ :: r') t else ⊥ := by
  have hch : ChainC c (⟨lo, e, v⟩ :: r') := hI.chain.cut (e := e) he
  have hv : ∀ t, segval (⟨lo, e, v⟩ :: r') t = if Tm.fin t < e then segval (⟨lo, Tm.inf, v⟩ :: r') t else ⊥ := by
    intro t
    by_cases ht : Tm.fin t < e
    · rw [if_pos ht]
      by_cases hx : lo ≤ Tm.fin t
      · rw [segval_cons_has _ (show Has (⟨lo, e, v⟩ : Seg α) t from ⟨hx, ht⟩),
          segval_cons_has _ (show Has (⟨lo, Tm.inf, v⟩ : Seg α) t from ⟨hx, fin_lt_inf _⟩)]
      · rw [segval_cons_not _ (show ¬ Has (⟨lo, e, v⟩ : Seg α) t from fun hh => hx hh.1),
          segval_cons_not _ (show ¬ Has (⟨lo, Tm.inf, v⟩ : Seg α) t from fun hh => hx hh.1)]
    · rw [if_neg ht]
      exact hch.segval_bot (not_lt.1 ht)
  refine ⟨⟨hch, ⟨_, _, rfl, rfl⟩, fun t t' h1 h2 => ?_⟩, hv⟩
  rw [hv t, hv t']
  by_cases ht' : Tm.fin t' < e
  · have ht : Tm.fin t < e := lt_of_le_of_lt ((fin_le_fin _ _).2 h2) ht'
    rw [if_pos ht, if_pos ht']
    exact hI.anti t t' h1 h2
  · rw [if_neg ht']; exact bot_le

end ideal

/-! ### one update -/

section step
variable {α : Type} [Val α]

/-- `update` on a non-empty batch when segments are pending. -/
theorem timedUpdate_cons (worse : α → α → Bool) (neutral : α) (a b : ℚ) (st : TimedSt α) (q : ℚ) (v : α)
    (rest : ASig α) (x : Seg α) (r' : List (Seg α)) (h : st.segs.reverse = x :: r') (hst : st.started = true)
    (stk : List (Seg α)) (τ' : ℚ) (vn : α) (hl : ((Tm.fin q, v) :: rest).getLast? = some (Tm.fin τ', vn))
    (hf : (onSegs a b ((Tm.fin q, v) :: rest)).foldlM (pushSeg worse) (⟨x.lo, Tm.fin (q + b), x.v⟩ :: r') = .ok stk) :
    timedUpdateCore worse neutral a b st ((Tm.fin q, v) :: rest) =
      .ok ({ segs := (timedEmit (some (Tm.fin τ')) stk.reverse none [] none []).2.2, rs := some (Tm.fin τ'),
             started := true },
        finalize (timedEmit (some (Tm.fin τ')) stk.reverse none [] none []).1
          (timedEmit (some (Tm.fin τ')) stk.reverse none [] none []).2.1) := by
  simp only [timedUpdateCore, h, hst, hl]
  simp only [Bool.not_true, Bool.and_false, Bool.false_eq_true, if_false, List.reverse_reverse, add_fin, hf, bind,
    Except.bind, pure, Except.pure, Bool.true_or]
  rfl

/-- `update` on a non-empty batch when no segment is pending. -/
theorem timedUpdate_cons_nil (worse : α → α → Bool) (neutral : α) (a b : ℚ) (st : TimedSt α) (q : ℚ) (v : α)
    (rest : ASig α) (h : st.segs = [])
    (stk : List (Seg α)) (τ' : ℚ) (vn : α) (hl : ((Tm.fin q, v) :: rest).getLast? = some (Tm.fin τ', vn))
    (hf : (onSegs a b ((Tm.fin q, v) :: rest)).foldlM (pushSeg worse)
      (if (Tm.fin q == Tm.zero && decide (0 < a) && !st.started) = true
        then [⟨Tm.zero, Tm.fin (q + a), neutral⟩] else []) = .ok stk) :
    timedUpdateCore worse neutral a b st ((Tm.fin q, v) :: rest) =
      .ok ({ segs := (timedEmit (some (Tm.fin τ')) stk.reverse none [] none []).2.2, rs := some (Tm.fin τ'),
             started := true },
        finalize (timedEmit (some (Tm.fin τ')) stk.reverse none [] none []).1
          (timedEmit (some (Tm.fin τ')) stk.reverse none [] none []).2.1) := by
  have e : (if (Tm.fin q == Tm.zero && decide (0 < a) && !st.started) = true
      then ([] : List (Seg α)) ++ [⟨Tm.zero, (Tm.fin q).add a, neutral⟩] else []).reverse =
      (if (Tm.fin q == Tm.zero && decide (0 < a) && !st.started) = true
        then [⟨Tm.zero, Tm.fin (q + a), neutral⟩] else []) := by
    split <;> simp
  simp only [timedUpdateCore, h, hl, List.reverse_nil]
  rw [e, hf]
  simp only [bind, Except.bind, pure, Except.pure, List.isEmpty_cons, Bool.not_false, Bool.or_true]
  rfl

/-- `update` on an empty batch. -/
theorem timedUpdate_nil (worse : α → α → Bool) (neutral : α) (a b : ℚ) (st : TimedSt α) :
    timedUpdateCore worse neutral a b st [] =
      .ok ({ segs := (timedEmit st.rs st.segs none [] none []).2.2, rs := st.rs, started := st.started },
        finalize (timedEmit st.rs st.segs none [] none []).1 (timedEmit st.rs st.segs none [] none []).2.1) := by
  simp only [timedUpdateCore, onSegs, List.foldlM_nil, List.getLast?_nil, List.reverse_reverse, bind, Except.bind, pure,
    Except.pure, List.isEmpty_nil, Bool.not_true, Bool.or_false]
  rfl

end step

section step2
variable {α : Type} [Val α] [LinearOrder α] [OrderBot α]

/-- What one returned batch looks like: strictly increasing stamps from `c` to `r`, read as `V` in between. -/
structure OutOK (out : ASig α) (c r : ℚ) (V : ℚ → α) : Prop where
  sorted : Sorted out
  stamps : ∀ p ∈ out, Tm.fin c ≤ p.1 ∧ p.1 ≤ Tm.fin r
  last : ∃ vr, out.getLast? = some (Tm.fin r, vr)
  head : ∃ v0, out.head? = some (Tm.fin c, v0)
  val : ∀ t, c ≤ t → t ≤ r → valAtA out t = some (V t)

/-- The output loop on the actual stack (whose top segment, re-ended at infinity, makes it a chain). -/
theorem emit_stack (hv : ∀ a b : α, vne a b = false → a = b) {c r : ℚ} {x : Seg α} {r' : List (Seg α)}
    (hch : ChainC (Tm.fin c) (⟨x.lo, Tm.inf, x.v⟩ :: r')) (hle : x.lo ≤ x.hi) (hrx : Tm.fin r ≤ x.lo)
    (hcr : c ≤ r) :
    (timedEmit (some (Tm.fin r)) (x :: r').reverse none [] none []).2.2.reverse =
        (x :: r').filterMap (cutF (Tm.fin r)) ∧
      OutOK (finalize (timedEmit (some (Tm.fin r)) (x :: r').reverse none [] none []).1
        (timedEmit (some (Tm.fin r)) (x :: r').reverse none [] none []).2.1) c r
        (segval (⟨x.lo, Tm.inf, x.v⟩ :: r')) := by
  rw [timedEmit_eq]
  obtain ⟨z, N, e1, e2, e3, e4⟩ := rev_bchain (x := x) hch rfl hle
  constructor
  · show ([] ++ cutB (Tm.fin r) (x :: r').reverse).reverse = _
    rw [List.nil_append, cutB_reverse, List.reverse_reverse]
  · show OutOK (finalize ([] ++ emR (Tm.fin r) none (x :: r').reverse) (emLast (Tm.fin r) none (x :: r').reverse)) c r _
    rw [List.nil_append]
    have hsm : smp (x :: r').reverse = smp ((⟨x.lo, Tm.inf, x.v⟩ : Seg α) :: r').reverse :=
      smp_reverse_congr x ⟨x.lo, Tm.inf, x.v⟩ r' rfl rfl
    rw [e1] at hsm ⊢
    obtain ⟨s1, s2, s3, s4, s5⟩ := emit_spec hv r N z c none none e3 e2 hcr
      (fun w hw => by rw [e4] at hw; cases hw; exact hrx)
    refine ⟨s1, s2, s3, ⟨z.v, s4 rfl⟩, fun t h1 h2 => ?_⟩
    have := s5 t h1 h2
    rw [hsm, hch.valAtA_smp ((fin_le_fin _ _).2 h1) (fin_lt_inf _)] at this
    cases hval : valAtA (finalize (emR (Tm.fin r) none (z :: N)) (emLast (Tm.fin r) none (z :: N))) t with
    | some w => rw [hval] at this; exact this
    | none => rw [hval] at this; cases this

omit [Val α] [LinearOrder α] [OrderBot α] in
/-- Cutting the actual stack and the stack with its top re-ended at infinity. -/
theorem cut_actual (r : ℚ) (x : Seg α) (r' : List (Seg α)) (hr : Tm.fin r < x.hi) :
    (x :: r').filterMap (cutF (Tm.fin r)) =
        ⟨if x.lo ≤ Tm.fin r then Tm.fin r else x.lo, x.hi, x.v⟩ :: r'.filterMap (cutF (Tm.fin r)) ∧
    ((⟨x.lo, Tm.inf, x.v⟩ : Seg α) :: r').filterMap (cutF (Tm.fin r)) =
        ⟨if x.lo ≤ Tm.fin r then Tm.fin r else x.lo, Tm.inf, x.v⟩ :: r'.filterMap (cutF (Tm.fin r)) := by
  have h1 : Tm.le x.hi (Tm.fin r) = false := by rw [Bool.eq_false_iff, Ne, le_iff]; exact not_le.2 hr
  have h3 : Tm.lt (Tm.fin r) x.hi = true := (lt_iff _ _).2 hr
  have h1' : Tm.le Tm.inf (Tm.fin r) = false := by rw [Bool.eq_false_iff, Ne, le_iff]; exact not_inf_le_fin _
  have h3' : Tm.lt (Tm.fin r) Tm.inf = true := (lt_iff _ _).2 (fin_lt_inf _)
  by_cases hx : x.lo ≤ Tm.fin r
  · have h2 : Tm.le x.lo (Tm.fin r) = true := (le_iff _ _).2 hx
    simp [cutF, h1, h2, h3, h1', h3', hx]
  · have h2 : Tm.le x.lo (Tm.fin r) = false := by rw [Bool.eq_false_iff, Ne, le_iff]; exact hx
    simp [cutF, h1, h2, h1', hx]

omit [Val α] [LinearOrder α] [OrderBot α] in
/-- With `b = 0` nothing is kept. -/
theorem cut_all {c : Tm} (r : ℚ) (x : Seg α) (r' : List (Seg α)) (hch : ChainC c (⟨x.lo, Tm.inf, x.v⟩ :: r'))
    (hle : x.lo ≤ x.hi) (hr : x.hi = Tm.fin r) : (x :: r').filterMap (cutF (Tm.fin r)) = [] := by
  rw [List.filterMap_eq_nil_iff]
  intro z hz
  have : Tm.le z.hi (Tm.fin r) = true := by
    rw [le_iff]
    rcases List.mem_cons.1 hz with rfl | hz
    · exact le_of_eq hr
    · have := hch.hi_le z hz
      have h2 : z.hi ≤ x.lo := this
      rw [← hr]; order
  simp [cutF, this]

/-- The state of the operation after samples up to `τ` whose ideal value function is `W`. -/
structure StOK (a b : ℚ) (st : TimedSt α) (τ : ℚ) (W : ℚ → α) : Prop where
  rs : st.rs = some (Tm.fin τ)
  started : st.started = true
  segs : (b = 0 ∧ st.segs = []) ∨ (0 < b ∧ ∃ x r', st.segs.reverse = x :: r' ∧ x.hi = Tm.fin (τ + b) ∧
    Tm.fin (τ + a) ≤ x.lo ∧ x.lo ≤ x.hi ∧
    InvC (⟨x.lo, Tm.inf, x.v⟩ :: r') (Tm.fin τ) (Tm.fin (τ + a)) Tm.inf ∧
    ∀ t, τ ≤ t → segval (⟨x.lo, Tm.inf, x.v⟩ :: r') t = W t)

/-- Output loop and new state, from the stack after the pushes (`0 < b`). -/
theorem emit_state (hv : ∀ a b : α, vne a b = false → a = b) {a b : ℚ} (ha : 0 ≤ a) (hb : 0 < b) {c τ' : ℚ}
    {x : Seg α} {r' : List (Seg α)} (hcr : c ≤ τ') (hxhi : x.hi = Tm.fin (τ' + b)) (hxlo : Tm.fin (τ' + a) ≤ x.lo)
    (hle : x.lo ≤ x.hi) (hI : InvC (⟨x.lo, Tm.inf, x.v⟩ :: r') (Tm.fin c) (Tm.fin (τ' + a)) Tm.inf)
    (W : ℚ → α) (hW : ∀ t, c ≤ t → segval (⟨x.lo, Tm.inf, x.v⟩ :: r') t = W t) :
    StOK a b { segs := (timedEmit (some (Tm.fin τ')) (x :: r').reverse none [] none []).2.2,
               rs := some (Tm.fin τ'), started := true } τ' W ∧
      OutOK (finalize (timedEmit (some (Tm.fin τ')) (x :: r').reverse none [] none []).1
        (timedEmit (some (Tm.fin τ')) (x :: r').reverse none [] none []).2.1) c τ' W := by
  have hrx : Tm.fin τ' ≤ x.lo := le_trans ((fin_le_fin _ _).2 (by linarith)) hxlo
  obtain ⟨k1, k2⟩ := emit_stack hv hI.chain hle hrx hcr
  refine ⟨⟨rfl, rfl, Or.inr ⟨hb, ?_⟩⟩, ⟨k2.sorted, k2.stamps, k2.last, k2.head, fun t h1 h2 => ?_⟩⟩
  · have hr : Tm.fin τ' < x.hi := by rw [hxhi]; exact (fin_lt_fin _ _).2 (by linarith)
    obtain ⟨c1, c2⟩ := cut_actual τ' x r' hr
    obtain ⟨x', rest', d1, d2, d3, d4, d5, d6, d7⟩ := cut_chain (Tm.fin τ') r' ⟨x.lo, Tm.inf, x.v⟩ hI.chain
      ((fin_le_fin _ _).2 hcr) (fin_lt_inf _)
    rw [c2] at d1
    have hx' : x' = ⟨if x.lo ≤ Tm.fin τ' then Tm.fin τ' else x.lo, Tm.inf, x.v⟩ := (List.cons.inj d1).1.symm
    have hrest' : rest' = r'.filterMap (cutF (Tm.fin τ')) := d5
    subst hx'
    refine ⟨⟨if x.lo ≤ Tm.fin τ' then Tm.fin τ' else x.lo, x.hi, x.v⟩, rest', ?_, hxhi, ?_, ?_, ?_, ?_⟩
    · show (timedEmit (some (Tm.fin τ')) (x :: r').reverse none [] none []).2.2.reverse = _
      rw [k1, c1, hrest']
    · show Tm.fin (τ' + a) ≤ (if x.lo ≤ Tm.fin τ' then Tm.fin τ' else x.lo)
      split
      · rename_i h; exact le_trans hxlo h
      · exact hxlo
    · show (if x.lo ≤ Tm.fin τ' then Tm.fin τ' else x.lo) ≤ x.hi
      split
      · exact le_of_lt hr
      · exact hle
    · refine ⟨d6, ⟨_, _, rfl, rfl⟩, fun t t' h1 h2 => ?_⟩
      have ht : Tm.fin τ' ≤ Tm.fin t := le_trans ((fin_le_fin _ _).2 (by linarith)) h1
      have ht' : Tm.fin τ' ≤ Tm.fin t' := le_trans ht ((fin_le_fin _ _).2 h2)
      have e1 := d7 t ht
      have e2 := d7 t' ht'
      rw [e1, e2]
      exact hI.anti t t' h1 h2
    · intro t ht
      have e1 := d7 t ((fin_le_fin _ _).2 ht)
      rw [e1]
      exact hW t (le_trans hcr ht)
  · rw [k2.val t h1 h2, hW t h1]

/-- Output loop and new state, from the stack after the pushes (`b = 0`: nothing is kept). -/
theorem emit_state0 (hv : ∀ a b : α, vne a b = false → a = b) {a b : ℚ} (ha : 0 ≤ a) (hb : b = 0)
    {c τ' : ℚ} {x : Seg α} {r' : List (Seg α)} (hcr : c ≤ τ') (hxhi : x.hi = Tm.fin (τ' + b))
    (hxlo : Tm.fin (τ' + a) ≤ x.lo)
    (hle : x.lo ≤ x.hi) (hI : InvC (⟨x.lo, Tm.inf, x.v⟩ :: r') (Tm.fin c) (Tm.fin (τ' + a)) Tm.inf)
    (W : ℚ → α) (hW : ∀ t, c ≤ t → segval (⟨x.lo, Tm.inf, x.v⟩ :: r') t = W t) :
    StOK a b { segs := (timedEmit (some (Tm.fin τ')) (x :: r').reverse none [] none []).2.2,
               rs := some (Tm.fin τ'), started := true } τ' W ∧
      OutOK (finalize (timedEmit (some (Tm.fin τ')) (x :: r').reverse none [] none []).1
        (timedEmit (some (Tm.fin τ')) (x :: r').reverse none [] none []).2.1) c τ' W := by
  have hrx : Tm.fin τ' ≤ x.lo := le_trans ((fin_le_fin _ _).2 (by linarith)) hxlo
  obtain ⟨k1, k2⟩ := emit_stack hv hI.chain hle hrx hcr
  refine ⟨⟨rfl, rfl, Or.inl ⟨hb, ?_⟩⟩, ⟨k2.sorted, k2.stamps, k2.last, k2.head, fun t h1 h2 => ?_⟩⟩
  · show (timedEmit (some (Tm.fin τ')) (x :: r').reverse none [] none []).2.2 = []
    have := cut_all τ' x r' hI.chain hle (by rw [hxhi, hb, add_zero])
    rw [this] at k1
    exact List.reverse_eq_nil_iff.1 k1
  · rw [k2.val t h1 h2, hW t h1]

variable (worse : α → α → Bool) (hw : ∀ x y, worse x y = true ↔ x < y)
include hw

/-- The first non-empty batch. -/
theorem step_first (hv : ∀ a b : α, vne a b = false → a = b) {a b : ℚ} (ha : 0 ≤ a) (hab : a ≤ b) (v : α)
    (rest : ASig α) (hs : Sorted ((Tm.fin 0, v) :: rest)) (hf : ∀ p ∈ rest, p.1 ≠ Tm.inf) :
    ∃ st' out τ' vn, ((Tm.fin 0, v) :: rest).getLast? = some (Tm.fin τ', vn) ∧
      timedUpdateCore worse ⊥ a b {} ((Tm.fin 0, v) :: rest) = .ok (st', out) ∧
      StOK a b st' τ' (Wn a b ((Tm.fin 0, v) :: rest)) ∧ OutOK out 0 τ' (Wn a b ((Tm.fin 0, v) :: rest)) := by
  have key : ∃ x r' τ' vn, ((Tm.fin 0, v) :: rest).getLast? = some (Tm.fin τ', vn) ∧
      (onSegs a b ((Tm.fin 0, v) :: rest)).foldlM (pushSeg worse)
        (if (Tm.fin 0 == Tm.zero && decide (0 < a) && !({} : TimedSt α).started) = true
          then [⟨Tm.zero, Tm.fin (0 + a), ⊥⟩] else []) = .ok (x :: r') ∧ x.hi = Tm.fin (τ' + b) ∧
      Tm.fin (τ' + a) ≤ x.lo ∧ x.lo ≤ x.hi ∧
      InvC (⟨x.lo, Tm.inf, x.v⟩ :: r') (Tm.fin 0) (Tm.fin (τ' + a)) Tm.inf ∧
      ∀ t, segval (⟨x.lo, Tm.inf, x.v⟩ :: r') t = Wn a b ((Tm.fin 0, v) :: rest) t := by
    by_cases h0 : 0 < a
    · have hc : (Tm.fin 0 == Tm.zero && decide (0 < a) && !({} : TimedSt α).started) = true := by
        simp [h0, Tm.zero]
      rw [if_pos hc]
      have hI : InvC [(⟨Tm.zero, Tm.fin (0 + a), ⊥⟩ : Seg α)] (Tm.fin 0) (Tm.fin 0) (Tm.fin (0 + a)) :=
        ⟨⟨rfl, (fin_lt_fin _ _).2 (by linarith)⟩, ⟨_, _, rfl, rfl⟩, fun t t' _ _ => by
          rw [segval_init, segval_init]⟩
      obtain ⟨x, r', τ', vn, i1, i2, i3, i4, i5, i6, i7⟩ := fold_batch worse hw hab rest 0 v _ _ _ _ hs hf hI
        (le_refl _) ((fin_le_fin _ _).2 (by linarith)) (le_refl _) ((fin_le_fin _ _).2 (by linarith))
      refine ⟨x, r', τ', vn, i1, i2, i3, i4, i5, i6, fun t => ?_⟩
      rw [i7 t, segval_init]; rfl
    · have ha0 : a = 0 := le_antisymm (not_lt.1 h0) ha
      have hc : (Tm.fin 0 == Tm.zero && decide (0 < a) && !({} : TimedSt α).started) = false := by
        simp [h0]
      rw [hc]
      obtain ⟨x, r', τ', vn, i1, i2, i3, i4, i5, i6, i7⟩ := fold_batch_empty worse hw hab rest 0 v hs hf
      refine ⟨x, r', τ', vn, i1, i2, i3, i4, i5, ?_, fun t => ?_⟩
      · rw [ha0, add_zero] at i6; rw [ha0]; exact i6
      · rw [i7 t]; rfl
  obtain ⟨x, r', τ', vn, i1, i2, i3, i4, i5, i6, i7⟩ := key
  have e := timedUpdate_cons_nil worse ⊥ a b {} 0 v rest rfl (x :: r') τ' vn i1 i2
  have h0τ : (0 : ℚ) ≤ τ' := by
    have hm : (Tm.fin τ', vn) ∈ (Tm.fin 0, v) :: rest := List.mem_of_getLast? i1
    rcases List.mem_cons.1 hm with h | h
    · cases h; exact le_refl _
    · exact le_of_lt ((fin_lt_fin _ _).1 ((sorted_cons hs).1 _ h))
  by_cases hb : 0 < b
  · obtain ⟨k1, k2⟩ := emit_state hv ha hb h0τ i3 i4 i5 i6 _ (fun t _ => i7 t)
    exact ⟨_, _, τ', vn, i1, e, k1, k2⟩
  · have hb0 : b = 0 := le_antisymm (not_lt.1 hb) (le_trans ha hab)
    obtain ⟨k1, k2⟩ := emit_state0 hv ha hb0 h0τ i3 i4 i5 i6 _ (fun t _ => i7 t)
    exact ⟨_, _, τ', vn, i1, e, k1, k2⟩

/-- A later non-empty batch. -/
theorem step_next (hv : ∀ a b : α, vne a b = false → a = b) {a b : ℚ} (ha : 0 ≤ a) (hab : a ≤ b)
    {st : TimedSt α} {τ : ℚ} (I : ASig α) (hI : ∀ p ∈ I, p.1 ≤ Tm.fin τ) (hst : StOK a b st τ (Wn a b I))
    (q : ℚ) (v : α) (rest : ASig α) (hq : τ < q) (hs : Sorted ((Tm.fin q, v) :: rest))
    (hf : ∀ p ∈ rest, p.1 ≠ Tm.inf) :
    ∃ st' out τ' vn, ((Tm.fin q, v) :: rest).getLast? = some (Tm.fin τ', vn) ∧
      timedUpdateCore worse ⊥ a b st ((Tm.fin q, v) :: rest) = .ok (st', out) ∧
      StOK a b st' τ' (Wn a b (I ++ (Tm.fin q, v) :: rest)) ∧
      OutOK out (if 0 < b then τ else q) τ' (Wn a b (I ++ (Tm.fin q, v) :: rest)) := by
  have hI' : ∀ p ∈ I, p.1 ≤ Tm.fin q := fun p hp => le_trans (hI p hp) ((fin_le_fin _ _).2 (le_of_lt hq))
  have hqτ' : ∀ τ' vn, ((Tm.fin q, v) :: rest).getLast? = some (Tm.fin τ', vn) → q ≤ τ' := by
    intro τ' vn i1
    have hm : (Tm.fin τ', vn) ∈ (Tm.fin q, v) :: rest := List.mem_of_getLast? i1
    rcases List.mem_cons.1 hm with h | h
    · cases h; exact le_refl _
    · exact le_of_lt ((fin_lt_fin _ _).1 ((sorted_cons hs).1 _ h))
  rcases hst.segs with ⟨hb0, hsegs⟩ | ⟨hb, x, r', e1, e2, e3, e4, e5, e6⟩
  · -- `b = 0`: nothing pending
    have ha0 : a = 0 := le_antisymm (by linarith) ha
    have hc : (Tm.fin q == Tm.zero && decide (0 < a) && !st.started) = false := by
      rw [hst.started]; simp
    obtain ⟨x, r', τ', vn, i1, i2, i3, i4, i5, i6, i7⟩ := fold_batch_empty worse hw hab rest q v hs hf
    have e := timedUpdate_cons_nil worse ⊥ a b st q v rest hsegs (x :: r') τ' vn i1 (by rw [hc]; exact i2)
    have hW : ∀ t, q ≤ t → segval (⟨x.lo, Tm.inf, x.v⟩ :: r') t = Wn a b (I ++ (Tm.fin q, v) :: rest) t := by
      intro t ht
      rw [i7 t]
      exact Wn_step a b q v rest I hI' t ⊥ (by rw [if_neg]; rw [hb0]; linarith)
    rw [ha0, add_zero] at i6
    obtain ⟨k1, k2⟩ := emit_state0 hv ha hb0 (hqτ' τ' vn i1) i3 i4 i5 (by rw [ha0]; exact i6) _ hW
    refine ⟨_, _, τ', vn, i1, e, k1, ?_⟩
    rw [if_neg (by rw [hb0]; exact lt_irrefl _)]
    exact k2
  · -- `0 < b`: the last pending segment is re-ended
    have hlt : x.lo < Tm.fin (q + b) := by
      have : x.hi < Tm.fin (q + b) := by rw [e2]; exact (fin_lt_fin _ _).2 (by linarith)
      order
    obtain ⟨j1, j2⟩ := reend_inv e5 hlt
    obtain ⟨y, s', τ', vn, i1, i2, i3, i4, i5, i6, i7⟩ := fold_batch worse hw hab rest q v _ _ _ _ hs hf j1
      ((fin_le_fin _ _).2 (by linarith)) ((fin_le_fin _ _).2 (by linarith)) ((fin_le_fin _ _).2 (by linarith))
      (le_refl _)
    have e := timedUpdate_cons worse ⊥ a b st q v rest x r' e1 hst.started (y :: s') τ' vn i1 i2
    have hW : ∀ t, τ ≤ t → segval (⟨y.lo, Tm.inf, y.v⟩ :: s') t = Wn a b (I ++ (Tm.fin q, v) :: rest) t := by
      intro t ht
      rw [i7 t]
      refine Wn_step a b q v rest I hI' t _ ?_
      rw [j2 t]
      by_cases h : t < q + b
      · rw [if_pos ((fin_lt_fin _ _).2 h), if_pos h, e6 t ht]
      · rw [if_neg (fun h' => h ((fin_lt_fin _ _).1 h')), if_neg h]
    have hττ' : τ ≤ τ' := le_trans (le_of_lt hq) (hqτ' τ' vn i1)
    obtain ⟨k1, k2⟩ := emit_state hv ha hb hττ' i3 i4 i5 i6 _ hW
    refine ⟨_, _, τ', vn, i1, e, k1, ?_⟩
    rw [if_pos hb]
    exact k2

omit hw in
/-- An empty batch. -/
theorem step_empty (hv : ∀ a b : α, vne a b = false → a = b) {a b : ℚ} (ha : 0 ≤ a)
    {st : TimedSt α} {τ : ℚ} {W : ℚ → α} (hst : StOK a b st τ W) :
    ∃ st' out, timedUpdateCore worse ⊥ a b st [] = .ok (st', out) ∧ StOK a b st' τ W ∧
      (0 < b → OutOK out τ τ W) ∧ (b = 0 → out = []) := by
  rw [timedUpdate_nil]
  rcases hst.segs with ⟨hb0, hsegs⟩ | ⟨hb, x, r', e1, e2, e3, e4, e5, e6⟩
  · have e : timedEmit st.rs st.segs none ([] : ASig α) none [] = ([], none, []) := by
      rw [hsegs]; simp [timedEmit]
    rw [e]
    refine ⟨_, _, rfl, ⟨hst.rs, hst.started, Or.inl ⟨hb0, rfl⟩⟩, fun h => absurd h (by rw [hb0]; exact lt_irrefl _),
      fun _ => rfl⟩
  · have hs : st.segs = (x :: r').reverse := by rw [← e1, List.reverse_reverse]
    obtain ⟨k1, k2⟩ := emit_state hv ha hb (le_refl τ) e2 e3 e4 e5 W e6
    rw [hst.rs, hs, hst.started]
    exact ⟨_, _, rfl, k1, fun _ => k2, fun h => absurd hb (by rw [h]; exact lt_irrefl _)⟩

omit hw in
/-- An empty batch before any sample. -/
theorem step_empty0 (a b : ℚ) : timedUpdateCore worse (⊥ : α) a b {} [] = .ok ({}, []) := by
  rw [timedUpdate_nil]
  rfl

end step2

/-! ### the concatenated output -/

section flat
variable {β : Type}

theorem valAtA_append_lt (O out : ASig β) (t : ℚ) (h : ∀ p ∈ out, Tm.fin t < p.1) :
    valAtA (O ++ out) t = valAtA O t := by
  induction O with
  | nil => rw [List.nil_append, valAtA_none_of_lt out t h]; rfl
  | cons p O ih =>
    obtain ⟨σ, w⟩ := p
    simp only [List.cons_append, valAtA, ih]

theorem valAtA_append_some (O out : ASig β) (t : ℚ) (v : β) (h : ∀ p ∈ O, p.1 ≤ Tm.fin t)
    (hv : valAtA out t = some v) : valAtA (O ++ out) t = some v := by
  induction O with
  | nil => exact hv
  | cons p O ih =>
    obtain ⟨σ, w⟩ := p
    rw [List.cons_append, valAtA_cons_some (h (σ, w) (List.mem_cons_self ..)),
      ih (fun p hp => h p (List.mem_cons_of_mem _ hp))]
    rfl

theorem valAtA_getLast (l : ASig β) (t : ℚ) (σ : Tm) (v : β) (h : ∀ p ∈ l, p.1 ≤ Tm.fin t)
    (hl : l.getLast? = some (σ, v)) : valAtA l t = some v := by
  obtain ⟨ys, rfl⟩ := List.getLast?_eq_some_iff.1 hl
  exact valAtA_snoc_ge ys σ v t (fun p hp => h p (List.mem_append_left _ hp)) (h (σ, v) (by simp))

theorem sorted_last {l : ASig β} (hs : Sorted l) {q : Tm × β} (hl : l.getLast? = some q) :
    ∀ p ∈ l, p.1 < q.1 ∨ p = q := by
  obtain ⟨ys, rfl⟩ := List.getLast?_eq_some_iff.1 hl
  intro p hp
  rcases List.mem_append.1 hp with hp | hp
  · left
    unfold Sorted times at hs
    rw [List.map_append, List.pairwise_append] at hs
    exact (lt_iff _ _).1 (hs.2.2 _ (List.mem_map_of_mem hp) _ (by simp))
  · right; simpa using hp

theorem sorted_weak {l : ASig β} (hs : Sorted l) :
    l.Pairwise (fun p q => Tm.lt p.1 q.1 = true ∨ p = q) := by
  unfold Sorted times at hs
  rw [List.pairwise_map] at hs
  exact hs.imp (fun h => Or.inl h)

end flat

section flat2
variable {α : Type} [Val α] [LinearOrder α] [OrderBot α]

omit [Val α] [LinearOrder α] [OrderBot α] in
theorem OutOK.le {out : ASig α} {c r : ℚ} {V : ℚ → α} (h : OutOK out c r V) : c ≤ r := by
  obtain ⟨v0, hv0⟩ := h.head
  have hm : (Tm.fin c, v0) ∈ out := List.mem_of_mem_head? hv0
  exact (fin_le_fin _ _).1 (h.stamps _ hm).2

omit [Val α] [LinearOrder α] [OrderBot α] in
theorem OutOK.head_eq {out : ASig α} {c r : ℚ} {V : ℚ → α} (h : OutOK out c r V) :
    ∃ tl, out = (Tm.fin c, V c) :: tl ∧ ∀ p ∈ tl, Tm.fin c < p.1 := by
  obtain ⟨v0, hv0⟩ := h.head
  cases hout : out with
  | nil => rw [hout] at hv0; cases hv0
  | cons p tl =>
    rw [hout] at hv0
    simp only [List.head?_cons, Option.some.injEq] at hv0
    subst hv0
    have hs := h.sorted
    rw [hout] at hs
    have hlt := (sorted_cons hs).1
    have hval := h.val c (le_refl _) h.le
    rw [hout, valAtA_cons_some (le_refl _), valAtA_none_of_lt tl c hlt] at hval
    simp only [Option.getD_none, Option.some.injEq] at hval
    exact ⟨tl, by rw [hval], hlt⟩

omit [Val α] [LinearOrder α] [OrderBot α] in
theorem OutOK.last_eq {out : ASig α} {c r : ℚ} {V : ℚ → α} (h : OutOK out c r V) :
    out.getLast? = some (Tm.fin r, V r) := by
  obtain ⟨vr, hvr⟩ := h.last
  have := valAtA_getLast out r (Tm.fin r) vr (fun p hp => (h.stamps p hp).2) hvr
  rw [h.val r h.le (le_refl _)] at this
  rw [hvr, Option.some.inj this]

/-- The concatenation of the batches returned so far: starts at 0, ends with the sample at the last input stamp `τ`,
    non-decreasing stamps with repetitions of identical samples only, and reads as `W` up to `τ`. -/
structure FlatOK (O : ASig α) (τ : ℚ) (W : ℚ → α) : Prop where
  head : ∃ v0, O.head? = some (Tm.fin 0, v0)
  last : O.getLast? = some (Tm.fin τ, W τ)
  weak : O.Pairwise (fun p q => Tm.lt p.1 q.1 = true ∨ p = q)
  stamps : ∀ p ∈ O, p.1 < Tm.fin τ ∨ p = (Tm.fin τ, W τ)
  val : ∀ t, 0 ≤ t → t ≤ τ → valAtA O t = some (W t)

omit [Val α] [LinearOrder α] [OrderBot α] in
theorem flat_first {out : ASig α} {r : ℚ} {V : ℚ → α} (h : OutOK out 0 r V) : FlatOK out r V :=
  ⟨h.head, h.last_eq, sorted_weak h.sorted, sorted_last h.sorted h.last_eq, h.val⟩

omit [Val α] [LinearOrder α] [OrderBot α] in
theorem flat_append {O out : ASig α} {τ c τ' : ℚ} {W W' : ℚ → α} (hO : FlatOK O τ W) (ho : OutOK out c τ' W')
    (hτc : τ ≤ c) (hstab : ∀ t, t ≤ τ → W' t = W t) (hgap : ∀ t, τ ≤ t → t < c → W' t = W τ) :
    FlatOK (O ++ out) τ' W' := by
  have hcτ' := ho.le
  have hOne : O ≠ [] := by intro h; have := hO.last; rw [h] at this; cases this
  have hone : out ≠ [] := by intro h; have := ho.last_eq; rw [h] at this; cases this
  obtain ⟨tl, hout, htl⟩ := ho.head_eq
  have hOle : ∀ p ∈ O, p.1 ≤ Tm.fin τ := by
    intro p hp
    rcases hO.stamps p hp with h | h
    · exact le_of_lt h
    · rw [h]
  refine ⟨?_, ?_, ?_, ?_, ?_⟩
  · obtain ⟨v0, hv0⟩ := hO.head
    exact ⟨v0, by rw [List.head?_append_of_ne_nil _ hOne]; exact hv0⟩
  · rw [List.getLast?_append_of_ne_nil _ hone]; exact ho.last_eq
  · rw [List.pairwise_append]
    refine ⟨hO.weak, sorted_weak ho.sorted, fun p hp q hq => ?_⟩
    rcases hO.stamps p hp with h | h
    · left; rw [lt_iff]
      exact lt_of_lt_of_le h (le_trans ((fin_le_fin _ _).2 hτc) (ho.stamps q hq).1)
    · rw [hout] at hq
      rcases List.mem_cons.1 hq with hq | hq
      · rcases lt_or_eq_of_le hτc with h' | h'
        · left; rw [lt_iff, h, hq]; exact (fin_lt_fin _ _).2 h'
        · right; rw [h, hq, ← h', hstab τ (le_refl _)]
      · left; rw [lt_iff, h]
        exact lt_of_le_of_lt ((fin_le_fin _ _).2 hτc) (htl q hq)
  · intro p hp
    have hττ' : τ ≤ τ' := le_trans hτc hcτ'
    rcases List.mem_append.1 hp with hp | hp
    · rcases hO.stamps p hp with h | h
      · left; exact lt_of_lt_of_le h ((fin_le_fin _ _).2 hττ')
      · rcases lt_or_eq_of_le hττ' with h' | h'
        · left; rw [h]; exact (fin_lt_fin _ _).2 h'
        · right; rw [h, ← h', hstab τ (le_refl _)]
    · exact sorted_last ho.sorted ho.last_eq p hp
  · intro t h0 ht
    by_cases htτ : t < τ
    · rw [valAtA_append_lt O out t (fun p hp => lt_of_lt_of_le ((fin_lt_fin _ _).2 (lt_of_lt_of_le htτ hτc))
        (ho.stamps p hp).1), hO.val t h0 (le_of_lt htτ), hstab t (le_of_lt htτ)]
    · have htτ' : τ ≤ t := not_lt.1 htτ
      have hOt : ∀ p ∈ O, p.1 ≤ Tm.fin t := fun p hp => le_trans (hOle p hp) ((fin_le_fin _ _).2 htτ')
      by_cases htc : c ≤ t
      · exact valAtA_append_some O out t _ hOt (ho.val t htc ht)
      · have htc' : t < c := not_le.1 htc
        rw [valAtA_append_lt O out t (fun p hp => lt_of_lt_of_le ((fin_lt_fin _ _).2 htc') (ho.stamps p hp).1),
          valAtA_getLast O t _ _ hOt hO.last, hgap t htτ' htc']

end flat2

/-! ### the stream -/

section stream
variable {α : Type} [Val α] [LinearOrder α] [OrderBot α]

omit [Val α] [LinearOrder α] [OrderBot α] in
theorem sorted_append {β : Type} (X Y : ASig β) :
    Sorted (X ++ Y) ↔ Sorted X ∧ Sorted Y ∧ ∀ p ∈ X, ∀ q ∈ Y, p.1 < q.1 := by
  unfold Sorted times
  rw [List.map_append, List.pairwise_append]
  constructor
  · rintro ⟨h1, h2, h3⟩
    exact ⟨h1, h2, fun p hp q hq => (lt_iff _ _).1 (h3 _ (List.mem_map_of_mem hp) _ (List.mem_map_of_mem hq))⟩
  · rintro ⟨h1, h2, h3⟩
    refine ⟨h1, h2, fun x hx y hy => ?_⟩
    obtain ⟨p, hp, rfl⟩ := List.mem_map.1 hx
    obtain ⟨q, hq, rfl⟩ := List.mem_map.1 hy
    exact (lt_iff _ _).2 (h3 p hp q hq)

/-- The invariant of the run: after the samples `I`, the state `st` and the returned batches `outs`. -/
def StreamInv (a b : ℚ) (I : ASig α) (st : TimedSt α) (outs : List (ASig α)) : Prop :=
  (∀ o ∈ outs, Sorted o) ∧
  ((I = [] ∧ st.segs = [] ∧ st.rs = none ∧ st.started = false ∧ outs.flatten = []) ∨
   (∃ τ vn, I.getLast? = some (Tm.fin τ, vn) ∧ StOK a b st τ (Wn a b I) ∧ FlatOK outs.flatten τ (Wn a b I)))

variable (worse : α → α → Bool) (hw : ∀ x y, worse x y = true ↔ x < y)
include hw

theorem inv_step (hv : ∀ a b : α, vne a b = false → a = b) {a b : ℚ} (ha : 0 ≤ a) (hab : a ≤ b)
    {I : ASig α} {st : TimedSt α} {outs : List (ASig α)} (hinv : StreamInv a b I st outs) (B : ASig α)
    (hsrt : Sorted (I ++ B)) (hfin : ∀ p ∈ B, p.1 ≠ Tm.inf)
    (h0 : ∀ p, (I ++ B).head? = some p → p.1 = Tm.fin 0) :
    ∃ st1 out1, timedUpdateCore worse ⊥ a b st B = .ok (st1, out1) ∧ StreamInv a b (I ++ B) st1 (outs ++ [out1]) := by
  obtain ⟨hso, hcase⟩ := hinv
  obtain ⟨hsI, hsB, hIB⟩ := (sorted_append I B).1 hsrt
  have hflat : ∀ o : ASig α, (outs ++ [o]).flatten = outs.flatten ++ o := by intro o; simp
  have hsorted' : ∀ o : ASig α, Sorted o → ∀ o' ∈ outs ++ [o], Sorted o' := by
    intro o ho o' ho'
    rcases List.mem_append.1 ho' with h | h
    · exact hso o' h
    · rw [List.mem_singleton] at h; rw [h]; exact ho
  rcases hcase with ⟨hI, hseg, hrs, hstd, hfl⟩ | ⟨τ, vn, hl, hst, hfo⟩
  · subst hI
    have hst0 : st = {} := by
      cases st; simp only at hseg hrs hstd; subst hseg hrs hstd; rfl
    subst hst0
    cases B with
    | nil =>
      refine ⟨{}, [], step_empty0 worse a b, hsorted' [] (by simp [Sorted, times]), Or.inl ⟨rfl, rfl, rfl, rfl, ?_⟩⟩
      rw [hflat, hfl]; rfl
    | cons p rest =>
      obtain ⟨σ, v⟩ := p
      have hσ : σ = Tm.fin 0 := h0 (σ, v) rfl
      subst hσ
      obtain ⟨st', out, τ', vn, i1, i2, i3, i4⟩ := step_first worse hw hv ha hab v rest hsB
        (fun p hp => hfin p (List.mem_cons_of_mem _ hp))
      refine ⟨st', out, i2, hsorted' out i4.sorted, Or.inr ⟨τ', vn, i1, i3, ?_⟩⟩
      rw [hflat, hfl, List.nil_append]
      exact flat_first i4
  · have hIle : ∀ p ∈ I, p.1 ≤ Tm.fin τ := by
      intro p hp
      rcases sorted_last hsI hl p hp with h | h
      · exact le_of_lt h
      · rw [h]
    have hb0 : 0 ≤ b := le_trans ha hab
    cases B with
    | nil =>
      obtain ⟨st', out, i1, i2, i3, i4⟩ := step_empty worse hv ha hst
      rw [List.append_nil]
      rcases lt_or_eq_of_le hb0 with hb | hb
      · have ho := i3 hb
        refine ⟨st', out, i1, hsorted' out ho.sorted, Or.inr ⟨τ, vn, hl, i2, ?_⟩⟩
        rw [hflat]
        exact flat_append hfo ho (le_refl _) (fun _ _ => rfl) (fun t h1 h2 => absurd h2 (not_lt.2 h1))
      · have ho := i4 hb.symm
        subst ho
        refine ⟨st', [], i1, hsorted' [] (by simp [Sorted, times]), Or.inr ⟨τ, vn, hl, i2, ?_⟩⟩
        rw [hflat, List.append_nil]; exact hfo
    | cons p rest =>
      obtain ⟨σ, v⟩ := p
      cases σ with
      | inf => exact absurd rfl (hfin (Tm.inf, v) (List.mem_cons_self ..))
      | fin q =>
        have hq : τ < q := (fin_lt_fin _ _).1
          (hIB _ (List.mem_of_getLast? hl) (Tm.fin q, v) (List.mem_cons_self ..))
        obtain ⟨st', out, τ', vn', i1, i2, i3, i4⟩ := step_next worse hw hv ha hab I hIle hst q v rest hq hsB
          (fun p hp => hfin p (List.mem_cons_of_mem _ hp))
        have hIq : ∀ p ∈ I, p.1 ≤ Tm.fin q := fun p hp => le_trans (hIle p hp) ((fin_le_fin _ _).2 (le_of_lt hq))
        refine ⟨st', out, i2, hsorted' out i4.sorted, Or.inr ⟨τ', vn', ?_, i3, ?_⟩⟩
        · rw [List.getLast?_append_of_ne_nil _ (List.cons_ne_nil _ _)]; exact i1
        · rw [hflat]
          refine flat_append hfo i4 ?_ (fun t ht => ?_) (fun t h1 h2 => ?_)
          · split
            · exact le_refl _
            · exact le_of_lt hq
          · exact Wn_stable hab q v rest I hIq hsB t (by linarith)
          · by_cases hb : 0 < b
            · rw [if_pos hb] at h2; exact absurd h2 (not_lt.2 h1)
            · rw [if_neg hb] at h2
              have hb' : b = 0 := le_antisymm (not_lt.1 hb) hb0
              rw [Wn_stable hab q v rest I hIq hsB t (by linarith)]
              exact Wn_const ha hab hb' I hsI τ vn hl t h1

theorem run_inv (hv : ∀ a b : α, vne a b = false → a = b) {a b : ℚ} (ha : 0 ≤ a) (hab : a ≤ b)
    (Bs : List (ASig α)) : ∀ (I : ASig α) (st : TimedSt α) (outs : List (ASig α)), StreamInv a b I st outs →
    Sorted (I ++ Bs.flatten) → (∀ B ∈ Bs, ∀ p ∈ B, p.1 ≠ Tm.inf) →
    (∀ p, (I ++ Bs.flatten).head? = some p → p.1 = Tm.fin 0) →
    ∃ st' outs', runUn (timedUpdateCore worse ⊥ a b) st Bs = .ok (st', outs') ∧
      StreamInv a b (I ++ Bs.flatten) st' (outs ++ outs') := by
  induction Bs with
  | nil =>
    intro I st outs hinv _ _ _
    exact ⟨st, [], rfl, by simpa using hinv⟩
  | cons B Bs ih =>
    intro I st outs hinv hsrt hfin h0
    rw [List.flatten_cons, ← List.append_assoc] at hsrt h0
    have hsIB : Sorted (I ++ B) := ((sorted_append _ _).1 hsrt).1
    obtain ⟨st1, out1, e1, hinv1⟩ := inv_step worse hw hv ha hab hinv B hsIB
      (fun p hp => hfin B (List.mem_cons_self ..) p hp)
      (fun p hp => h0 p (by
        cases hIB : I ++ B with
        | nil => rw [hIB] at hp; cases hp
        | cons x xs => rw [hIB] at hp; exact hp))
    obtain ⟨st', outs', e2, hinv2⟩ := ih (I ++ B) st1 (outs ++ [out1]) hinv1 hsrt
      (fun B' hB' => hfin B' (List.mem_cons_of_mem _ hB')) h0
    refine ⟨st', out1 :: outs', ?_, ?_⟩
    · simp only [runUn, e1, e2, bind, Except.bind, pure, Except.pure]
    · rw [List.flatten_cons, ← List.append_assoc]
      have : outs ++ out1 :: outs' = outs ++ [out1] ++ outs' := by simp
      rw [this]; exact hinv2

end stream

section final
variable {α : Type} [iv : Val α] [io : LinearOrder α] [ib : OrderBot α]
variable (worse : α → α → Bool) (hw : ∀ x y, worse x y = true ↔ x < y)
include hw

/-- The run of the bounded operation over a stream without repeated samples, for any order the stack works with. -/
theorem timed_core (hv : ∀ a b : α, vne a b = false → a = b) {a b : ℚ} (ha : 0 ≤ a) (hab : a ≤ b)
    {Bs : List (ASig α)} (hsh : Shape Bs 0) (hstrict : Sorted Bs.flatten) :
    ∃ st outs, runUn (timedUpdateCore worse ⊥ a b) {} Bs = .ok (st, outs) ∧
      st.rs = (Bs.flatten.getLast?).map (·.1) ∧ Shape outs 0 ∧
      (∀ t, Covered outs 0 t → Covered Bs 0 t ∧ valAtA outs.flatten t = some (Wn a b Bs.flatten t)) ∧
      ∀ t, Covered Bs 0 t → Covered outs 0 t := by
  obtain ⟨st, outs, e, hinv⟩ := run_inv worse hw hv ha hab Bs [] {} []
    ⟨by simp, Or.inl ⟨rfl, rfl, rfl, rfl, rfl⟩⟩ (by simpa using hstrict) hsh.finite
    (by simpa using hsh.start)
  rw [List.nil_append, List.nil_append] at hinv
  obtain ⟨hso, hcase⟩ := hinv
  refine ⟨st, outs, e, ?_⟩
  rcases hcase with ⟨hI, _, hrs, _, hfl⟩ | ⟨τ, vn, hl, hst, hfo⟩
  · refine ⟨by rw [hrs, hI]; rfl, ⟨hso, fun B hB p hp => ?_, by rw [hfl]; exact List.Pairwise.nil,
      fun p hp => by rw [hfl] at hp; cases hp⟩, fun t ht => ?_, fun t ht => ?_⟩
    · have : p ∈ outs.flatten := List.mem_flatten.2 ⟨B, hB, hp⟩
      rw [hfl] at this; cases this
    · obtain ⟨τ0, p, h1, _⟩ := ht
      rw [hfl] at h1; cases h1
    · obtain ⟨τ0, p, h1, _⟩ := ht
      rw [hI] at h1; cases h1
  · refine ⟨by rw [hst.rs, hl]; rfl, ⟨hso, fun B hB p hp => ?_, hfo.weak, fun p hp => ?_⟩, fun t ht => ?_,
      fun t ht => ?_⟩
    · have hm : p ∈ outs.flatten := List.mem_flatten.2 ⟨B, hB, hp⟩
      rcases hfo.stamps p hm with h | h
      · intro hc; rw [hc] at h; exact not_inf_lt _ h
      · rw [h]; intro hc; cases hc
    · obtain ⟨v0, hv0⟩ := hfo.head
      rw [hv0] at hp; cases hp; rfl
    · obtain ⟨τ0, p, h1, h2, h3, h4⟩ := ht
      rw [hfo.last] at h1
      have hp : p = (Tm.fin τ, Wn a b Bs.flatten τ) := (Option.some.inj h1).symm
      rw [hp] at h2
      have hτ : τ = τ0 := Tm.fin.inj h2
      rw [← hτ] at h4
      exact ⟨⟨τ, _, hl, rfl, h3, h4⟩, hfo.val t h3 h4⟩
    · obtain ⟨τ0, p, h1, h2, h3, h4⟩ := ht
      rw [hl] at h1
      have hp : p = (Tm.fin τ, vn) := (Option.some.inj h1).symm
      rw [hp] at h2
      have hτ : τ = τ0 := Tm.fin.inj h2
      rw [← hτ] at h4
      exact ⟨τ, _, hfo.last, rfl, h3, h4⟩

omit iv io ib hw in
/-- The operand stream as a well-formed sample list. -/
theorem wfa_flatten {Bs : List (ASig α)} (hsh : Shape Bs 0) (hstrict : Sorted Bs.flatten) (hne : Bs.flatten ≠ []) :
    WFA Bs.flatten 0 := by
  refine ⟨hstrict, ?_, infOK_of_fin (fun p hp => ?_)⟩
  · cases hI : Bs.flatten with
    | nil => exact absurd hI hne
    | cons p rest =>
      have := hsh.start p (by rw [hI]; rfl)
      simp [times, this]
  · obtain ⟨B, hB, hpB⟩ := List.mem_flatten.1 hp
    have := hsh.finite B hB p hpB
    cases h : p.1 with
    | inf => exact absurd h this
    | fin q => exact fin_lt_inf q

omit iv io ib hw in
/-- On a covered window the operand is what the stream says. -/
theorem valuesOn_covered {Bs : List (ASig α)} {g : Rat → Option α} (h : StreamOK Bs 0 g) {t : ℚ}
    (hc : Covered Bs 0 t) (lo hi : ℚ) (hlo : 0 ≤ lo) (hhi : hi ≤ t) :
    valuesOn (valAtA Bs.flatten) lo hi = valuesOn g lo hi := by
  obtain ⟨τ, p, h1, h2, h3, h4⟩ := hc
  ext y
  constructor
  · rintro ⟨u, u1, u2, u3⟩
    exact ⟨u, u1, u2, by rw [← h.2 u ⟨τ, p, h1, h2, by linarith, by linarith⟩]; exact u3⟩
  · rintro ⟨u, u1, u2, u3⟩
    exact ⟨u, u1, u2, by rw [h.2 u ⟨τ, p, h1, h2, by linarith, by linarith⟩]; exact u3⟩

/-- The contract of the bounded operation over a stream without repeated samples, for the order the stack works
    with (`⊥` is the neutral value). -/
theorem timed_final (hv : ∀ a b : α, vne a b = false → a = b) {a b : ℚ} (ha : 0 ≤ a) (hab : a ≤ b)
    {Bs : List (ASig α)} {g : Rat → Option α} (h : StreamOK Bs 0 g) (hstrict : Sorted Bs.flatten) :
    ∃ st outs, runUn (timedUpdateCore worse ⊥ a b) {} Bs = .ok (st, outs) ∧
      st.rs = (Bs.flatten.getLast?).map (·.1) ∧ Shape outs 0 ∧
      ∀ t, Covered outs 0 t →
        (t - a < 0 → valAtA outs.flatten t = some ⊥) ∧
        (0 ≤ t - a → ∃ v, valAtA outs.flatten t = some v ∧ IsLUB (valuesOn g (max (t - b) 0) (t - a)) v) := by
  obtain ⟨st, outs, e, hrs, hsh, hval', _⟩ := timed_core worse hw hv ha hab h.1 hstrict
  refine ⟨st, outs, e, hrs, hsh, fun t ht => ?_⟩
  obtain ⟨hcov, hval⟩ := hval' t ht
  have hne : Bs.flatten ≠ [] := by
    obtain ⟨τ, p, h1, _⟩ := hcov
    intro h'; rw [h'] at h1; cases h1
  have hi := ideal_spec (s := Bs.flatten) (g := valAtA Bs.flatten)
    ⟨wfa_flatten h.1 hstrict hne, fun _ _ => rfl⟩ hab t
  refine ⟨fun hta => ?_, fun hta => ⟨_, hval, ?_⟩⟩
  · rw [hval]; exact congrArg some (hi.1 hta)
  · rw [← valuesOn_covered h hcov _ _ (le_max_right _ _) (by linarith)]
    exact hi.2 hta

/-- What has been returned covers exactly what has been received. -/
theorem timed_covered (hv : ∀ a b : α, vne a b = false → a = b) {a b : ℚ} (ha : 0 ≤ a) (hab : a ≤ b)
    {Bs : List (ASig α)} (hsh : Shape Bs 0) (hstrict : Sorted Bs.flatten) {st : TimedSt α} {outs : List (ASig α)}
    (he : runUn (timedUpdateCore worse ⊥ a b) {} Bs = .ok (st, outs)) (t : ℚ) : Covered outs 0 t ↔ Covered Bs 0 t := by
  obtain ⟨st', outs', e, _, _, h1, h2⟩ := timed_core worse hw hv ha hab hsh hstrict
  rw [he] at e
  have := Except.ok.inj e
  cases this
  exact ⟨fun h => (h1 t h).1, h2 t⟩

end final

end TimedAux

open TimedAux

variable {α : Type} [Val α] [LawfulVal α]

/-- `OnceTimedOperation` over an operand stream that starts at 0 and has no repeated sample: no exception; what has
    been returned so far is `-inf` while the window `[t-b, t-a]` lies before 0 and the supremum over the window clipped
    to `[0, ∞)` afterwards; the state remembers the last stamp. -/
theorem timedStream_once_core (a b : Rat) (ha : 0 ≤ a) (hab : a ≤ b) {Bs : List (ASig α)} {g : Rat → Option α}
    (h : StreamOK Bs 0 g) (hstrict : Sorted Bs.flatten) :
    ∃ st outs, runUn (timedUpdateCore ltW Val.ninf a b) {} Bs = .ok (st, outs) ∧
      st.rs = (Bs.flatten.getLast?).map (·.1) ∧ Shape outs 0 ∧
      ∀ t, Covered outs 0 t →
        (t - a < 0 → valAtA outs.flatten t = some Val.ninf) ∧
        (0 ≤ t - a → ∃ v, valAtA outs.flatten t = some v ∧ IsLUB (valuesOn g (max (t - b) 0) (t - a)) v) := by
  have hc := timed_final (ltW (α := α)) (fun x y => LawfulVal.lt_iff x y) (fun x y => (vne_eq_false_iff x y).1)
    ha hab h hstrict
  rw [← LawfulVal.ninf_bot] at hc
  exact hc

/-- `HistoricallyTimedOperation`. -/
theorem timedStream_hist_core (a b : Rat) (ha : 0 ≤ a) (hab : a ≤ b) {Bs : List (ASig α)} {g : Rat → Option α}
    (h : StreamOK Bs 0 g) (hstrict : Sorted Bs.flatten) :
    ∃ st outs, runUn (timedUpdateCore gtW Val.pinf a b) {} Bs = .ok (st, outs) ∧
      st.rs = (Bs.flatten.getLast?).map (·.1) ∧ Shape outs 0 ∧
      ∀ t, Covered outs 0 t →
        (t - a < 0 → valAtA outs.flatten t = some Val.pinf) ∧
        (0 ≤ t - a → ∃ v, valAtA outs.flatten t = some v ∧ IsGLB (valuesOn g (max (t - b) 0) (t - a)) v) := by
  have hc := @timed_final αᵒᵈ (inferInstanceAs (Val α)) _ _ (gtW (α := α))
    (fun x y => LawfulVal.lt_iff (OrderDual.ofDual y) (OrderDual.ofDual x))
    (fun x y => (vne_eq_false_iff (α := α) x y).1) a b ha hab Bs g h hstrict
  have hbot : (⊥ : αᵒᵈ) = OrderDual.toDual (Val.pinf : α) :=
    congrArg OrderDual.toDual (LawfulVal.pinf_top (α := α)).symm
  rw [hbot] at hc
  exact hc

/-- The returned stream of `timedStream_once'` covers exactly the times the operand stream covers. -/
theorem timedStream_once_covered' (a b : Rat) (ha : 0 ≤ a) (hab : a ≤ b) {Bs : List (ASig α)}
    (hsh : Shape Bs 0) (hstrict : Sorted Bs.flatten) {st : TimedSt α} {outs : List (ASig α)}
    (he : runUn (timedUpdateCore ltW Val.ninf a b) {} Bs = .ok (st, outs)) (t : Rat) :
    Covered outs 0 t ↔ Covered Bs 0 t := by
  rw [LawfulVal.ninf_bot] at he
  exact timed_covered (ltW (α := α)) (fun x y => LawfulVal.lt_iff x y) (fun x y => (vne_eq_false_iff x y).1)
    ha hab hsh hstrict he t

/-- The returned stream of `timedStream_hist'` covers exactly the times the operand stream covers. -/
theorem timedStream_hist_covered' (a b : Rat) (ha : 0 ≤ a) (hab : a ≤ b) {Bs : List (ASig α)}
    (hsh : Shape Bs 0) (hstrict : Sorted Bs.flatten) {st : TimedSt α} {outs : List (ASig α)}
    (he : runUn (timedUpdateCore gtW Val.pinf a b) {} Bs = .ok (st, outs)) (t : Rat) :
    Covered outs 0 t ↔ Covered Bs 0 t := by
  have hbot : (Val.pinf : α) = OrderDual.ofDual (⊥ : αᵒᵈ) := LawfulVal.pinf_top (α := α)
  rw [hbot] at he
  exact @timed_covered αᵒᵈ (inferInstanceAs (Val α)) _ _ (gtW (α := α))
    (fun x y => LawfulVal.lt_iff (OrderDual.ofDual y) (OrderDual.ofDual x))
    (fun x y => (vne_eq_false_iff (α := α) x y).1) a b ha hab Bs hsh hstrict st outs he t

/-- The statements the wrapper (`OnTimed.lean`: `timedUpdateCore = timedUpdateCore ∘ dropRepeat`) uses. Without `hstrict` they are
    FALSE for `timedUpdateCore` (finding F48): `a = 0`, `b = 1`, `Bs = [[(0,9),(1,5)], [(1,5),(2,7)]]` gives the second
    returned batch `[(1,9),(2,5),(2,7)]`, which is not strictly increasing. -/
theorem timedStream_once' (a b : Rat) (ha : 0 ≤ a) (hab : a ≤ b) {Bs : List (ASig α)} {g : Rat → Option α}
    (h : StreamOK Bs 0 g) (hstrict : Sorted Bs.flatten) :
    ∃ st outs, runUn (timedUpdateCore ltW Val.ninf a b) {} Bs = .ok (st, outs) ∧ Shape outs 0 ∧
      ∀ t, Covered outs 0 t →
        (t - a < 0 → valAtA outs.flatten t = some Val.ninf) ∧
        (0 ≤ t - a → ∃ v, valAtA outs.flatten t = some v ∧ IsLUB (valuesOn g (max (t - b) 0) (t - a)) v) := by
  obtain ⟨st, outs, h1, _, h3, h4⟩ := timedStream_once_core a b ha hab h hstrict
  exact ⟨st, outs, h1, h3, h4⟩

theorem timedStream_hist' (a b : Rat) (ha : 0 ≤ a) (hab : a ≤ b) {Bs : List (ASig α)} {g : Rat → Option α}
    (h : StreamOK Bs 0 g) (hstrict : Sorted Bs.flatten) :
    ∃ st outs, runUn (timedUpdateCore gtW Val.pinf a b) {} Bs = .ok (st, outs) ∧ Shape outs 0 ∧
      ∀ t, Covered outs 0 t →
        (t - a < 0 → valAtA outs.flatten t = some Val.pinf) ∧
        (0 ≤ t - a → ∃ v, valAtA outs.flatten t = some v ∧ IsGLB (valuesOn g (max (t - b) 0) (t - a)) v) := by
  obtain ⟨st, outs, h1, _, h3, h4⟩ := timedStream_hist_core a b ha hab h hstrict
  exact ⟨st, outs, h1, h3, h4⟩

end Rtamt.Dense.AlgOn
