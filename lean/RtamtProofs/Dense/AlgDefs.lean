/-
  Dense time, M-alg = M-spec: vocabulary for the theorems about the mirror of the dense-time offline list
  algorithms (`Rtamt/Dense/Alg.lean`).

  * `Sorted s`: the time stamps of the sample list are strictly increasing (`Tm.lt`);
  * `WFA s d`: sorted, the first time stamp is the finite time `d`, and a last sample stamped `inf` repeats the
    previous value (`InfOK`);
  * `Denotes s d g`: well formed from `d`, and read as a right-continuous step function (`valAtA`) the list
    is the function `g` on `[d, ∞)`.
-/
import RtamtProofs.C04
import Rtamt.Dense.Alg

namespace Rtamt.Dense.Alg
open Rtamt Val

variable {β : Type}

def times (s : ASig β) : List Tm := s.map (·.1)

def Sorted (s : ASig β) : Prop := (times s).Pairwise (fun a b => Tm.lt a b = true)

/-- A last sample stamped `inf` (it comes from `visitConstant`'s `[[0, c], [inf, c]]` only, and is never reached by a
    finite time) repeats the value of the sample before it: the loops that run from the last sample to the first
    (`visitEventually`, `visitAlways`, `until_operation`) read it. -/
def InfOK (s : ASig β) : Prop := ∀ pre a v, s = pre ++ [a, (Tm.inf, v)] → a.2 = v

structure WFA (s : ASig β) (d : Rat) : Prop where
  sorted : Sorted s
  start : (times s).head? = some (Tm.fin d)
  infok : InfOK s

def Denotes (s : ASig β) (d : Rat) (g : Rat → Option β) : Prop :=
  WFA s d ∧ ∀ t, d ≤ t → valAtA s t = g t

/-- Point-wise combination of two partial functions. -/
def lift2 {γ : Type} (f : β → β → γ) (g1 g2 : Rat → Option β) : Rat → Option γ :=
  fun t => match g1 t, g2 t with
    | some a, some b => some (f a b)
    | _, _ => none

/-- The set whose supremum is `(φ since ψ)(t)` with the witness restricted to `[lo, hi]`. -/
def sinceSet {α : Type} [Val α] [LawfulVal α] (g1 g2 : Rat → Option α) (lo hi t : Rat) : Set α :=
  {y | ∃ t' l r, lo ≤ t' ∧ t' ≤ hi ∧ g2 t' = some r ∧ IsGLB (valuesOn g1 t' t) l ∧ y = min l r}

/-- The set whose supremum is `(φ until ψ)(t)` with the witness restricted to `[lo, hi]` (`hi = none`: unbounded). -/
def untilSet {α : Type} [Val α] [LawfulVal α] (g1 g2 : Rat → Option α) (lo : Rat) (hi : Option Rat) (t : Rat) : Set α :=
  {y | ∃ t' l r, lo ≤ t' ∧ (match hi with | some h => t' ≤ h | none => True) ∧ g2 t' = some r ∧
        IsGLB (valuesOn g1 t t') l ∧ y = min l r}

end Rtamt.Dense.Alg
