/-
  Dense time, online (C05): vocabulary for the theorems about the mirror of the dense-time online operation classes
  (`Rtamt/Dense/AlgOn.lean`).

  A *stream* is the list of the sample lists (batches) an operation receives or returns, one per `update()`.
  * `Shape Bs d`: every batch has strictly increasing finite time stamps; in the concatenation a later sample has a
    later stamp or is a repetition of an earlier sample (a batch may start with the sample the previous one ended with);
    the first stamp is `d`;
  * `Covered Bs d t`: `t` lies between `d` and the last stamp returned so far;
  * `StreamOK Bs d g`: the shape, and the concatenation read as a step function equals `g` at every covered time.
-/
import RtamtProofs.Dense.AlgMain
import Rtamt.Dense.AlgOn

namespace Rtamt.Dense.AlgOn
open Rtamt Val Rtamt.Dense.Alg

variable {α β σ : Type}

structure Shape (Bs : List (ASig β)) (d : Rat) : Prop where
  batch_sorted : ∀ B ∈ Bs, Sorted B
  finite : ∀ B ∈ Bs, ∀ p ∈ B, p.1 ≠ Tm.inf
  weak : (Bs.flatten).Pairwise (fun p q => Tm.lt p.1 q.1 = true ∨ p = q)
  start : ∀ p, (Bs.flatten).head? = some p → p.1 = Tm.fin d

def Covered (Bs : List (ASig β)) (d t : Rat) : Prop :=
  ∃ τ p, (Bs.flatten).getLast? = some p ∧ p.1 = Tm.fin τ ∧ d ≤ t ∧ t ≤ τ

def StreamOK (Bs : List (ASig β)) (d : Rat) (g : Rat → Option β) : Prop :=
  Shape Bs d ∧ ∀ t, Covered Bs d t → valAtA (Bs.flatten) t = g t

/-- An operation with one operand, run over the stream of its operand. -/
def runUn (step : σ → ASig α → Except PyErr (σ × ASig α)) : σ → List (ASig α) → Except PyErr (σ × List (ASig α))
  | st, [] => .ok (st, [])
  | st, B :: rest => do
      let (st', o) ← step st B
      let (st'', os) ← runUn step st' rest
      pure (st'', o :: os)

/-- An operation with two operands, run over the streams of its operands (one pair of batches per update). -/
def runBin (step : σ → ASig α → ASig α → Except PyErr (σ × ASig α)) :
    σ → List (ASig α × ASig α) → Except PyErr (σ × List (ASig α))
  | st, [] => .ok (st, [])
  | st, (L, R) :: rest => do
      let (st', o) ← step st L R
      let (st'', os) ← runBin step st' rest
      pure (st'', o :: os)

/-- The batches of a constant node: `[[0, c], [inf, c]]` at the first update, nothing afterwards. -/
def constStream (c : α) : Nat → List (ASig α)
  | 0 => []
  | k + 1 => [(Tm.zero, c), (Tm.inf, c)] :: List.replicate k []

end Rtamt.Dense.AlgOn
