/-
  The hypothesis "every variable starts at time 0" of `C04_alg_eq_rhoD_partial` cannot be dropped: known finding F37
  in the model.  On a small lawful value type (`Fin 5`: -inf < -1 < 0 < 1 < +inf) the mirror of the dense offline
  visitor evaluates `once[1,2] x` on the well-formed signal `x = [(1, v), (2, v)]` (`v` the fourth element) — which starts at time 1 — to a list that
  starts at time 0, not at the beginning of the input domain: `once_timed_operation` takes 0, not the first time stamp of
  its operand, as the start (the same input is replayed against the real code on every run of the C04 check).
-/
import RtamtProofs.Dense.AlgMain
import Mathlib.Order.Fin.Basic
import Mathlib.Tactic.NormNum

namespace Rtamt.Dense.Alg.F37
open Rtamt Val Rtamt.Dense Rtamt.Dense.Alg

instance : Val (Fin 5) where
  lt a b := decide (a < b)
  neg a := Fin.rev a
  abs a := if a < 2 then Fin.rev a else a
  add a _ := a
  sub _ _ := 2
  mul a _ := a
  div a _ := a
  pinf := 4
  ninf := 0
  zero := 2
  sqrt a := a
  exp a := a
  ln a := a
  pow a _ := a
  log a _ := a

instance : LawfulVal (Fin 5) where
  lt_iff a b := by simp [Val.lt]
  pinf_top := rfl
  ninf_bot := rfl
  neg_neg a := by simp [Val.neg]
  neg_le_neg a b h := by simpa [Val.neg] using h

/-- `-(l - r) = r - l` holds in this value type (subtraction is constantly the middle element, which negation fixes). -/
theorem hsub_fin5 (a b : Fin 5) : Val.neg (Val.sub a b) = Val.sub b a := by revert a b; decide

def w : DEnv (Fin 5) := [("x", [(1, 3), (2, 3)])]
def φ : F (Fin 5) := .tb1 .once 1 2 (.var "x")

/-- Every other hypothesis of `C04_alg_eq_rhoD_partial` holds … -/
theorem hyps : supported φ = true ∧ noIA φ = true ∧ noPartialOps φ = true ∧ w.WF φ.vars := by
  refine ⟨rfl, rfl, rfl, ?_⟩
  intro x hx
  simp only [φ, F.vars, List.mem_singleton] at hx
  subst hx
  refine ⟨by simp [w, DEnv.sig], ?_⟩
  simp [w, DEnv.sig, DSig.times]

/-- … the signal starts at time 1, so `dom = 1` … -/
theorem dom_eq : dom w φ = 1 := by
  simp [dom, φ, F.vars, w, DEnv.sig, DSig.times]

/-- … and the list the algorithm returns starts at time 0. -/
theorem C04_alg_start_counterexample :
    ∃ s, evalAlg {} w φ = .ok s ∧ (times s).head? = some (Tm.fin 0) ∧ (times s).head? ≠ some (Tm.fin (dom w φ)) := by
  refine ⟨[(Tm.fin 0, 0), (Tm.fin 2, 3), (Tm.fin 4, 3)], ?_, rfl, ?_⟩
  · norm_num [evalAlg, w, φ, List.lookup, ofDSig, onceTimed, fwdTimed, fwdSegs, pushSeg, popWhile, dedup, dedupGo, Tm.add, Tm.zero, Val.ninf, List.foldlM, intersects, Tm.le, Tm.lt, ltW, Val.lt, vne, bind, Except.bind, pure, Except.pure]
    decide
  · rw [dom_eq]; decide

end Rtamt.Dense.Alg.F37
