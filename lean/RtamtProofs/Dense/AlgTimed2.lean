/-
  Dense time, M-alg = M-spec: bounded `since` / `until` (`since_timed_operation`, `until_timed_operation`).

  The code decomposes `φ since[a,b] ψ` into `once[a,b] ψ and historically[0,a] (φ since ψ)` (without the
  `historically` for `a = 0`), and symmetrically for `until`.  The stages are the black boxes `onceTimed_spec`,
  `sinceOp_spec`, `histTimed_spec`, `inter_denotes` (resp. `evTimed_spec`, `untilOp_spec`, `alwTimed_spec`); what is
  proved here is the lattice identity that recombines them (`Timed2Aux.since_core`, `Timed2Aux.until_core`), which
  needs that infima of the left operand over bounded windows are attained (`Timed2Aux.attain`: a sample list has
  finitely many values).
-/
import RtamtProofs.Dense.AlgDefs
import RtamtProofs.Dense.AlgInter
import RtamtProofs.Dense.AlgScan
import RtamtProofs.Dense.AlgFwd
import RtamtProofs.Dense.AlgBack
import Mathlib.Data.Set.Finite.Lemmas
import Mathlib.Tactic.Linarith

namespace Rtamt.Dense.Alg
open Rtamt Val
variable {α : Type} [Val α] [LawfulVal α]

namespace Timed2Aux

/-- A value read off a sample list is the value of one of its samples. -/
theorem valAtA_mem {β : Type} (s : ASig β) (t : Rat) (v : β) (h : valAtA s t = some v) :
    ∃ p ∈ s, p.2 = v := by
  induction s generalizing v with
  | nil => simp [valAtA] at h
  | cons p rest ih =>
    obtain ⟨τ, w⟩ := p
    simp only [valAtA] at h
    split at h
    · cases h
    · cases hr : valAtA rest t with
      | none =>
        rw [hr] at h
        simp only [Option.some.injEq] at h
        exact ⟨(τ, w), List.mem_cons_self, h⟩
      | some v' =>
        rw [hr] at h
        simp only [Option.some.injEq] at h
        obtain ⟨p, hp, e⟩ := ih v' hr
        exact ⟨p, List.mem_cons_of_mem _ hp, e.trans h⟩

/-- The values of a step function given by a sample list over a bounded window have a least element. -/
theorem attain {s : ASig α} {g : Rat → Option α} (h : Denotes s 0 g) (lo hi : Rat) (h0 : 0 ≤ lo) (hl : lo ≤ hi) :
    ∃ m, IsLeast (valuesOn g lo hi) m := by
  have hfin : (valuesOn g lo hi).Finite := by
    apply Set.Finite.subset (List.finite_toSet (s.map (·.2)))
    rintro y ⟨t, h1, h2, h3⟩
    rw [← h.2 t (le_trans h0 h1)] at h3
    obtain ⟨p, hp, e⟩ := valAtA_mem s t y h3
    exact List.mem_map.2 ⟨p, hp, e⟩
  have hne : (valuesOn g lo hi).Nonempty := by
    have hs := valAtA_isSome h.1 lo h0
    rw [h.2 lo h0] at hs
    obtain ⟨v, hv⟩ := Option.isSome_iff_exists.1 hs
    exact ⟨v, lo, le_rfl, hl, hv⟩
  obtain ⟨m, hm, hmin⟩ := Set.exists_min_image _ id hfin hne
  exact ⟨m, hm, fun y hy => hmin y hy⟩

theorem isGLB_valuesOn_point (h : Rat → Option α) (t : Rat) (v : α) (e : h t = some v) :
    IsGLB (valuesOn h t t) v := by
  constructor
  · rintro z ⟨u, hu1, hu2, hu3⟩
    have : u = t := le_antisymm hu2 hu1
    subst this
    rw [e] at hu3
    cases hu3
    exact le_rfl
  · intro c hc
    exact hc ⟨t, le_rfl, le_rfl, e⟩

/-- `once[a,b] ψ ∧ historically[0,a] (φ since ψ) = φ since[a,b] ψ` at a time `t ≥ a`. -/
theorem since_core (g1 g2 h : Rat → Option α)
    (hatt : ∀ lo hi, 0 ≤ lo → lo ≤ hi → ∃ m, IsLeast (valuesOn g1 lo hi) m)
    (hS : ∀ u, 0 ≤ u → ∃ v, h u = some v ∧ IsLUB (sinceSet g1 g2 0 u u) v)
    (t a b : Rat) (ha : 0 ≤ a) (hta : 0 ≤ t - a)
    (O H : α) (hO : IsLUB (valuesOn g2 (max (t - b) 0) (t - a)) O)
    (hH : IsGLB (valuesOn h (t - a) t) H) :
    IsLUB (sinceSet g1 g2 (max (t - b) 0) (t - a) t) (min O H) := by
  constructor
  · rintro y ⟨t', l, r, h1, h2, h3, h4, rfl⟩
    have ht'0 : 0 ≤ t' := le_trans (le_max_right _ _) h1
    apply le_min
    · exact le_trans (min_le_right _ _) (hO.1 ⟨t', h1, h2, h3⟩)
    · apply (le_isGLB_iff hH).2
      rintro z ⟨u, hu1, hu2, hu3⟩
      obtain ⟨v, hv, hlub⟩ := hS u (by linarith)
      rw [hu3] at hv
      cases hv
      obtain ⟨m, hm, hmin⟩ := hatt t' u ht'0 (by linarith)
      have hmem : min m r ∈ sinceSet g1 g2 0 u u :=
        ⟨t', m, r, ht'0, by linarith, h3, IsLeast.isGLB ⟨hm, hmin⟩, rfl⟩
      have hlm : l ≤ m := by
        obtain ⟨x, hx1, hx2, hx3⟩ := hm
        exact h4.1 ⟨x, hx1, by linarith, hx3⟩
      exact le_trans (min_le_min_right r hlm) (hlub.1 hmem)
  · intro c hc
    by_contra hlt
    obtain ⟨hcO, hcH⟩ := lt_min_iff.1 (not_le.1 hlt)
    have key : ∀ u, t - a ≤ u → u ≤ t → ∃ t' r, 0 ≤ t' ∧ t' ≤ u ∧ g2 t' = some r ∧ c < r ∧
        ∀ x, t' ≤ x → x ≤ u → ∀ v, g1 x = some v → c < v := by
      intro u hu1 hu2
      obtain ⟨v, hv, hlub⟩ := hS u (by linarith)
      have hcv : c < v := lt_of_lt_of_le hcH (hH.1 ⟨u, hu1, hu2, hv⟩)
      obtain ⟨y, ⟨t', l, r, q1, q2, q3, q4, rfl⟩, hy⟩ := (lt_isLUB_iff hlub).1 hcv
      exact ⟨t', r, q1, q2, q3, (lt_min_iff.1 hy).2, fun x hx1 hx2 w hw =>
        lt_of_lt_of_le (lt_min_iff.1 hy).1 (q4.1 ⟨x, hx1, hx2, hw⟩)⟩
    obtain ⟨t2, r2, p1, p2, p3, p4, p5⟩ := key (t - a) le_rfl (by linarith)
    have good : ∀ x, t2 ≤ x → x ≤ t → ∀ v, g1 x = some v → c < v := by
      intro x hx1 hx2 v hv
      by_cases hxa : x ≤ t - a
      · exact p5 x hx1 hxa v hv
      · obtain ⟨t', r, _, q2, _, _, q5⟩ := key x (by linarith) hx2
        exact q5 x q2 le_rfl v hv
    have fin : ∀ t' r, max (t - b) 0 ≤ t' → t' ≤ t - a → g2 t' = some r → c < r →
        (∀ x, t' ≤ x → x ≤ t → ∀ v, g1 x = some v → c < v) → False := by
      intro t' r w1 w2 w3 w4 w5
      obtain ⟨m, hm, hmin⟩ := hatt t' t (le_trans (le_max_right _ _) w1) (by linarith)
      have hcm : c < m := by
        obtain ⟨x, hx1, hx2, hx3⟩ := hm
        exact w5 x hx1 hx2 m hx3
      have hle := hc ⟨t', m, r, w1, w2, w3, IsLeast.isGLB ⟨hm, hmin⟩, rfl⟩
      exact absurd hle (not_le.2 (lt_min hcm w4))
    by_cases hcase : max (t - b) 0 ≤ t2
    · exact fin t2 r2 hcase p2 p3 p4 good
    · obtain ⟨r3, ⟨t3, s1, s2, s3⟩, hr3⟩ := (lt_isLUB_iff hO).1 hcO
      exact fin t3 r3 s1 s2 s3 hr3 (fun x hx1 hx2 => good x (by linarith [not_le.1 hcase]) hx2)

/-- `eventually[a,b] ψ ∧ always[0,a] (φ until ψ) = φ until[a,b] ψ`. -/
theorem until_core (g1 g2 h : Rat → Option α)
    (hatt : ∀ lo hi, 0 ≤ lo → lo ≤ hi → ∃ m, IsLeast (valuesOn g1 lo hi) m)
    (hS : ∀ u, 0 ≤ u → ∃ v, h u = some v ∧ IsLUB (untilSet g1 g2 u none u) v)
    (t a b : Rat) (ht : 0 ≤ t) (ha : 0 ≤ a)
    (O H : α) (hO : IsLUB (valuesOn g2 (t + a) (t + b)) O)
    (hH : IsGLB (valuesOn h t (t + a)) H) :
    IsLUB (untilSet g1 g2 (t + a) (some (t + b)) t) (min O H) := by
  constructor
  · rintro y ⟨t', l, r, h1, h2, h3, h4, rfl⟩
    apply le_min
    · exact le_trans (min_le_right _ _) (hO.1 ⟨t', h1, h2, h3⟩)
    · apply (le_isGLB_iff hH).2
      rintro z ⟨u, hu1, hu2, hu3⟩
      obtain ⟨v, hv, hlub⟩ := hS u (by linarith)
      rw [hu3] at hv
      cases hv
      obtain ⟨m, hm, hmin⟩ := hatt u t' (by linarith) (by linarith)
      have hmem : min m r ∈ untilSet g1 g2 u none u :=
        ⟨t', m, r, by linarith, trivial, h3, IsLeast.isGLB ⟨hm, hmin⟩, rfl⟩
      have hlm : l ≤ m := by
        obtain ⟨x, hx1, hx2, hx3⟩ := hm
        exact h4.1 ⟨x, by linarith, hx2, hx3⟩
      exact le_trans (min_le_min_right r hlm) (hlub.1 hmem)
  · intro c hc
    by_contra hlt
    obtain ⟨hcO, hcH⟩ := lt_min_iff.1 (not_le.1 hlt)
    have key : ∀ u, t ≤ u → u ≤ t + a → ∃ t' r, u ≤ t' ∧ g2 t' = some r ∧ c < r ∧
        ∀ x, u ≤ x → x ≤ t' → ∀ v, g1 x = some v → c < v := by
      intro u hu1 hu2
      obtain ⟨v, hv, hlub⟩ := hS u (by linarith)
      have hcv : c < v := lt_of_lt_of_le hcH (hH.1 ⟨u, hu1, hu2, hv⟩)
      obtain ⟨y, ⟨t', l, r, q1, _, q3, q4, rfl⟩, hy⟩ := (lt_isLUB_iff hlub).1 hcv
      exact ⟨t', r, q1, q3, (lt_min_iff.1 hy).2, fun x hx1 hx2 w hw =>
        lt_of_lt_of_le (lt_min_iff.1 hy).1 (q4.1 ⟨x, hx1, hx2, hw⟩)⟩
    obtain ⟨t2, r2, p2, p3, p4, p5⟩ := key (t + a) (by linarith) le_rfl
    have good : ∀ x, t ≤ x → x ≤ t2 → ∀ v, g1 x = some v → c < v := by
      intro x hx1 hx2 v hv
      by_cases hxa : t + a ≤ x
      · exact p5 x hxa hx2 v hv
      · obtain ⟨t', r, q2, _, _, q5⟩ := key x hx1 (by linarith)
        exact q5 x le_rfl q2 v hv
    have fin : ∀ t' r, t + a ≤ t' → t' ≤ t + b → g2 t' = some r → c < r →
        (∀ x, t ≤ x → x ≤ t' → ∀ v, g1 x = some v → c < v) → False := by
      intro t' r w1 w2 w3 w4 w5
      obtain ⟨m, hm, hmin⟩ := hatt t t' ht (by linarith)
      have hcm : c < m := by
        obtain ⟨x, hx1, hx2, hx3⟩ := hm
        exact w5 x hx1 hx2 m hx3
      have hle := hc ⟨t', m, r, w1, w2, w3, IsLeast.isGLB ⟨hm, hmin⟩, rfl⟩
      exact absurd hle (not_le.2 (lt_min hcm w4))
    by_cases hcase : t2 ≤ t + b
    · exact fin t2 r2 p2 hcase p3 p4 good
    · obtain ⟨r3, ⟨t3, s1, s2, s3⟩, hr3⟩ := (lt_isLUB_iff hO).1 hcO
      exact fin t3 r3 s1 s2 s3 hr3 (fun x hx1 hx2 => good x hx1 (by linarith [not_le.1 hcase]))

omit [Val α] [LawfulVal α] in
theorem self_denotes {β : Type} {s : ASig β} {d : Rat} (h : WFA s d) : Denotes s d (valAtA s) :=
  ⟨h, fun _ _ => rfl⟩

theorem vne_hne : ∀ a b : α, vne a b = false → a = b := fun a b h => (vne_eq_false_iff a b).1 h

end Timed2Aux

open Timed2Aux

/-- `since_timed_operation` on operands that start at time 0 (the code computes `once[a,b] ψ and (φ since ψ)` for `a = 0`
    and `once[a,b] ψ and historically[0,a] (φ since ψ)` for `a > 0`). -/
theorem sinceTimed_spec {l r : ASig α} {g1 g2 : Rat → Option α} (h1 : Denotes l 0 g1) (h2 : Denotes r 0 g2)
    (a b : Rat) (ha : 0 ≤ a) (hab : a ≤ b) :
    ∃ out, sinceTimed l r a b = .ok out ∧ WFA out 0 ∧
      ∀ t, 0 ≤ t →
        (t - a < 0 → valAtA out t = some Val.ninf) ∧
        (0 ≤ t - a → ∃ v, valAtA out t = some v ∧ IsLUB (sinceSet g1 g2 (max (t - b) 0) (t - a) t) v) := by
  obtain ⟨out1, e1, w1, s1⟩ := onceTimed_spec h2 a b ha hab
  obtain ⟨out2, e2, w2, s2⟩ := sinceOp_spec h1 h2
  simp only [max_self] at w2 s2
  by_cases hpos : 0 < a
  · obtain ⟨out3, e3, w3, s3⟩ := histTimed_spec (self_denotes w2) 0 a le_rfl ha
    obtain ⟨out, e4, d4⟩ := inter_denotes (fun a b : α => pmin a b) vne vne_hne (self_denotes w1) (self_denotes w3)
    simp only [max_self] at d4
    refine ⟨out, ?_, d4.1, ?_⟩
    · unfold sinceTimed
      rw [e1, e2]
      simp only [hpos, decide_true, if_true, bind, Except.bind, e3]
      exact e4
    · intro t ht
      obtain ⟨q1, q2⟩ := s1 t ht
      obtain ⟨_, q3⟩ := s3 t ht
      obtain ⟨H, eH, hH⟩ := q3 (by linarith)
      rw [d4.2 t ht]
      constructor
      · intro hlt
        simp only [lift2, q1 hlt, eH, pmin_eq, LawfulVal.ninf_bot, bot_le, min_eq_left]
      · intro hge
        obtain ⟨O, eO, hO⟩ := q2 hge
        refine ⟨min O H, by simp only [lift2, eO, eH, pmin_eq], ?_⟩
        rw [max_eq_left hge, sub_zero] at hH
        exact since_core g1 g2 (valAtA out2) (fun lo hi => attain h1 lo hi) s2 t a b ha hge O H hO hH
  · have ha0 : a = 0 := le_antisymm (not_lt.1 hpos) ha
    obtain ⟨out, e4, d4⟩ := inter_denotes (fun a b : α => pmin a b) vne vne_hne (self_denotes w1) (self_denotes w2)
    simp only [max_self] at d4
    refine ⟨out, ?_, d4.1, ?_⟩
    · unfold sinceTimed
      rw [e1, e2]
      simp only [hpos, decide_false, bind, Except.bind]
      exact e4
    · intro t ht
      obtain ⟨q1, q2⟩ := s1 t ht
      obtain ⟨H, eH, hS⟩ := s2 t ht
      rw [d4.2 t ht]
      constructor
      · intro hlt
        simp only [lift2, q1 hlt, eH, pmin_eq, LawfulVal.ninf_bot, bot_le, min_eq_left]
      · intro hge
        obtain ⟨O, eO, hO⟩ := q2 hge
        refine ⟨min O H, by simp only [lift2, eO, eH, pmin_eq], ?_⟩
        have hH : IsGLB (valuesOn (valAtA out2) (t - a) t) H := by
          rw [ha0, sub_zero]
          exact isGLB_valuesOn_point _ t H eH
        exact since_core g1 g2 (valAtA out2) (fun lo hi => attain h1 lo hi) s2 t a b ha hge O H hO hH

/-- `until_timed_operation`. -/
theorem untilTimed_spec {l r : ASig α} {g1 g2 : Rat → Option α} (h1 : Denotes l 0 g1) (h2 : Denotes r 0 g2)
    (a b : Rat) (ha : 0 ≤ a) (hab : a ≤ b) :
    ∃ out, untilTimed l r a b = .ok out ∧ WFA out 0 ∧
      ∀ t, 0 ≤ t → ∃ v, valAtA out t = some v ∧ IsLUB (untilSet g1 g2 (t + a) (some (t + b)) t) v := by
  obtain ⟨out1, e1, w1, s1⟩ := evTimed_spec h2 a b ha hab
  obtain ⟨out2, e2, w2, s2⟩ := untilOp_spec h1 h2
  simp only [max_self] at w2 s2
  by_cases hpos : 0 < a
  · obtain ⟨out3, e3, w3, s3⟩ := alwTimed_spec (self_denotes w2) 0 a le_rfl ha
    obtain ⟨out, e4, d4⟩ := inter_denotes (fun a b : α => pmin a b) vne vne_hne (self_denotes w1) (self_denotes w3)
    simp only [max_self] at d4
    refine ⟨out, ?_, d4.1, ?_⟩
    · unfold untilTimed
      rw [e1, e2]
      simp only [hpos, decide_true, if_true, bind, Except.bind, e3]
      exact e4
    · intro t ht
      obtain ⟨O, eO, hO⟩ := s1 t ht
      obtain ⟨H, eH, hH⟩ := s3 t ht
      rw [d4.2 t ht]
      refine ⟨min O H, by simp only [lift2, eO, eH, pmin_eq], ?_⟩
      rw [add_zero] at hH
      exact until_core g1 g2 (valAtA out2) (fun lo hi => attain h1 lo hi) s2 t a b ht ha O H hO hH
  · have ha0 : a = 0 := le_antisymm (not_lt.1 hpos) ha
    obtain ⟨out, e4, d4⟩ := inter_denotes (fun a b : α => pmin a b) vne vne_hne (self_denotes w1) (self_denotes w2)
    simp only [max_self] at d4
    refine ⟨out, ?_, d4.1, ?_⟩
    · unfold untilTimed
      rw [e1, e2]
      simp only [hpos, decide_false, bind, Except.bind]
      exact e4
    · intro t ht
      obtain ⟨O, eO, hO⟩ := s1 t ht
      obtain ⟨H, eH, hS⟩ := s2 t ht
      rw [d4.2 t ht]
      refine ⟨min O H, by simp only [lift2, eO, eH, pmin_eq], ?_⟩
      have hH : IsGLB (valuesOn (valAtA out2) t (t + a)) H := by
        rw [ha0, add_zero]
        exact isGLB_valuesOn_point _ t H eH
      exact until_core g1 g2 (valAtA out2) (fun lo hi => attain h1 lo hi) s2 t a b ht ha O H hO hH

end Rtamt.Dense.Alg
