/-
  Dense time, M-alg = M-spec: the 13-case merge `inter`, the point-wise visitors and the output loop `dedup`.
-/
import RtamtProofs.Dense.AlgDefs
import Mathlib.Order.WithBot
import Mathlib.Tactic.Linarith
import Mathlib.Tactic.Order

namespace Rtamt.Dense.Alg
open Rtamt Val

namespace InterAux

/-! ### the linear order of the time stamps -/

def key : Tm → WithTop Rat
  | .fin q => (q : WithTop Rat)
  | .inf => ⊤

theorem key_injective : Function.Injective key := by
  intro a b h
  cases a <;> cases b <;> simp [key] at h ⊢
  exact h

@[reducible] def tmOrder : LinearOrder Tm := LinearOrder.lift' key key_injective

attribute [local instance] tmOrder

theorem lt_iff (a b : Tm) : Tm.lt a b = true ↔ a < b := by
  show _ ↔ key a < key b
  cases a <;> cases b <;> simp [Tm.lt, key]

theorem fin_lt_fin (a b : Rat) : Tm.fin a < Tm.fin b ↔ a < b := by
  rw [← lt_iff]; simp [Tm.lt]

theorem fin_le_fin (a b : Rat) : Tm.fin a ≤ Tm.fin b ↔ a ≤ b := by
  rw [← not_lt, fin_lt_fin, not_lt]

theorem fin_lt_inf (a : Rat) : Tm.fin a < Tm.inf := by
  rw [← lt_iff]; simp [Tm.lt]

theorem le_inf (a : Tm) : a ≤ Tm.inf := by
  rw [← not_lt, ← lt_iff]; simp [Tm.lt]

theorem max_fin (a b : Rat) : max (Tm.fin a) (Tm.fin b) = Tm.fin (max a b) := by
  rcases le_total a b with h | h
  · rw [max_eq_right h, max_eq_right ((fin_le_fin _ _).2 h)]
  · rw [max_eq_left h, max_eq_left ((fin_le_fin _ _).2 h)]

theorem beq_iff (a b : Tm) : (a == b) = true ↔ a = b := by simp

/-! ### `valAtA` -/

variable {β : Type}

theorem valAtA_cons (τ : Tm) (v : β) (rest : ASig β) (t : Rat) :
    valAtA ((τ, v) :: rest) t = if Tm.fin t < τ then none else some ((valAtA rest t).getD v) := by
  rw [valAtA]
  by_cases h : Tm.fin t < τ
  · rw [if_pos ((lt_iff _ _).2 h), if_pos h]
  · rw [if_neg (fun h' => h ((lt_iff _ _).1 h')), if_neg h]
    cases valAtA rest t <;> rfl

theorem valAtA_nil (t : Rat) : valAtA ([] : ASig β) t = none := rfl

/-- Appending a sample that lies after `t` does not change the value at `t`. -/
theorem valAtA_append_after (out : ASig β) (τ : Tm) (v : β) (t : Rat) (h : Tm.fin t < τ) :
    valAtA (out ++ [(τ, v)]) t = valAtA out t := by
  induction out with
  | nil => simp [valAtA_cons, valAtA_nil, h]
  | cons p out ih =>
    obtain ⟨τ0, v0⟩ := p
    simp only [List.cons_append, valAtA_cons, ih]

/-- Appending a sample at or before `t` to a list all of whose stamps are at or before `t`. -/
theorem valAtA_append_at (out : ASig β) (τ : Tm) (v : β) (t : Rat) (h : τ ≤ Tm.fin t)
    (hout : ∀ τ' ∈ times out, τ' ≤ Tm.fin t) : valAtA (out ++ [(τ, v)]) t = some v := by
  induction out with
  | nil => simp [valAtA_cons, valAtA_nil, not_lt.2 h]
  | cons p out ih =>
    obtain ⟨τ0, v0⟩ := p
    have h0 : τ0 ≤ Tm.fin t := hout τ0 (by simp [times])
    have ih' := ih (fun τ' hτ' => hout τ' (by simp [times] at hτ' ⊢; exact Or.inr hτ'))
    simp only [List.cons_append, valAtA_cons, ih', if_neg (not_lt.2 h0), Option.getD_some]

/-- Behind all its stamps a list has the value of its last sample. -/
theorem valAtA_last (out : ASig β) (p : Tm × β) (t : Rat) (hl : out.getLast? = some p)
    (hout : ∀ τ' ∈ times out, τ' ≤ Tm.fin t) : valAtA out t = some p.2 := by
  rcases List.eq_nil_or_concat out with rfl | ⟨init, q, rfl⟩
  · simp at hl
  · rw [List.concat_eq_append] at hl hout ⊢
    rw [List.getLast?_concat] at hl
    obtain rfl : q = p := Option.some.inj hl
    obtain ⟨τ, v⟩ := q
    apply valAtA_append_at
    · exact hout τ (by simp [times])
    · intro τ' hτ'
      exact hout τ' (by simp [times] at hτ' ⊢; exact Or.inl hτ')

/-- Dropping the head of a list does not matter behind the second stamp. -/
theorem valAtA_tail (p : Tm) (v : β) (c : Tm) (w : β) (r : ASig β) (t : Rat) (hpc : p < c) (hc : c ≤ Tm.fin t) :
    valAtA ((p, v) :: (c, w) :: r) t = valAtA ((c, w) :: r) t := by
  rw [valAtA_cons p, if_neg (not_lt.2 (le_trans (le_of_lt hpc) hc))]
  rw [valAtA_cons c, if_neg (not_lt.2 hc)]
  rfl

theorem valAtA_head (p : Tm) (v : β) (c : Tm) (w : β) (r : ASig β) (t : Rat) (hp : p ≤ Tm.fin t) (hc : Tm.fin t < c) :
    valAtA ((p, v) :: (c, w) :: r) t = some v := by
  rw [valAtA_cons p, if_neg (not_lt.2 hp), valAtA_cons c, if_pos hc]
  rfl

/-! ### the output of the merge loop -/

theorem sorted_iff (s : ASig β) : Sorted s ↔ (times s).Pairwise (fun a b => a < b) := by
  unfold Sorted; simp only [lt_iff]

theorem times_append (a b : ASig β) : times (a ++ b) = times a ++ times b := by simp [times]

theorem times_cons (p : Tm × β) (a : ASig β) : times (p :: a) = p.1 :: times a := rfl

/-- `out` is the part of the result below the frontier `m`. -/
structure OutInv (G : Rat → Option β) (D : Rat) (out : ASig β) (m : Tm) : Prop where
  sorted : Sorted out
  below : ∀ τ ∈ times out, τ < m
  start : (times out ++ [m]).head? = some (Tm.fin D)
  val : ∀ t, D ≤ t → Tm.fin t < m → valAtA out t = G t

theorem OutInv.nil (G : Rat → Option β) (D : Rat) : OutInv G D [] (Tm.fin D) where
  sorted := by simp [Sorted, times]
  below := by simp [times]
  start := by simp [times]
  val := by
    intro t h1 h2
    rw [fin_lt_fin] at h2
    linarith

theorem OutInv.push {G : Rat → Option β} {D : Rat} {out : ASig β} {m : Tm} (ne : β → β → Bool)
    (hne : ∀ a b, ne a b = false → a = b) (h : OutInv G D out m) {m' : Tm} (hm : m < m') (o : β)
    (hG : ∀ t, m ≤ Tm.fin t → Tm.fin t < m' → G t = some o) : OutInv G D (appendD ne out (m, o)) m' := by
  rcases List.eq_nil_or_concat out with rfl | ⟨init, q, rfl⟩
  · have hmD : m = Tm.fin D := by simpa [times] using h.start
    subst hmD
    have : appendD ne [] (Tm.fin D, o) = [(Tm.fin D, o)] := by simp [appendD]
    rw [this]
    refine ⟨by simp [Sorted, times], by simpa [times] using hm, by simp [times], ?_⟩
    intro t h1 h2
    rw [valAtA_cons, if_neg (not_lt.2 ((fin_le_fin _ _).2 h1)), valAtA_nil]
    exact (hG t ((fin_le_fin _ _).2 h1) h2).symm
  · rw [List.concat_eq_append] at h ⊢
    have hlast : (init ++ [q]).getLast? = some q := List.getLast?_concat
    have hstart : (times (init ++ [q])).head? = some (Tm.fin D) := by
      have := h.start
      rw [times_append] at this ⊢
      cases init with
      | nil => simpa [times] using this
      | cons a l => simpa [times] using this
    by_cases hq : ne q.2 o = true
    · have : appendD ne (init ++ [q]) (m, o) = (init ++ [q]) ++ [(m, o)] := by
        simp only [appendD, hlast, hq, if_true]
      rw [this]
      refine ⟨?_, ?_, ?_, ?_⟩
      · rw [sorted_iff, times_append, List.pairwise_append]
        refine ⟨(sorted_iff _).1 h.sorted, by simp [times], ?_⟩
        intro a ha b hb
        have : b = m := by simpa [times] using hb
        subst this
        exact h.below a ha
      · intro τ hτ
        rw [times_append, List.mem_append] at hτ
        rcases hτ with hτ | hτ
        · exact lt_trans (h.below τ hτ) hm
        · have : τ = m := by simpa [times] using hτ
          subst this; exact hm
      · rw [times_append, List.append_assoc, List.head?_append, hstart]; rfl
      · intro t h1 h2
        by_cases htm : Tm.fin t < m
        · rw [valAtA_append_after _ _ _ _ htm]
          exact h.val t h1 htm
        · rw [not_lt] at htm
          rw [valAtA_append_at _ _ _ _ htm (fun τ' hτ' => le_trans (le_of_lt (h.below τ' hτ')) htm)]
          exact (hG t htm h2).symm
    · have hq' : ne q.2 o = false := by simpa using hq
      have hqo : q.2 = o := hne _ _ hq'
      have : appendD ne (init ++ [q]) (m, o) = init ++ [q] := by
        simp [appendD, hq']
      rw [this]
      refine ⟨h.sorted, fun τ hτ => lt_trans (h.below τ hτ) hm, ?_, ?_⟩
      · rw [List.head?_append, hstart]; rfl
      · intro t h1 h2
        by_cases htm : Tm.fin t < m
        · exact h.val t h1 htm
        · rw [not_lt] at htm
          rw [valAtA_last _ q t hlast (fun τ' hτ' => le_trans (le_of_lt (h.below τ' hτ')) htm), hqo]
          exact (hG t htm h2).symm

/-! ### one step of the merge loop: the 13 cases are 4 -/

theorem lt_facts {a b : Tm} (h : a < b) : ((a < b) = True) ∧ ((b < a) = False) ∧ ((a = b) = False) ∧
    ((b = a) = False) ∧ ((a ≤ b) = True) ∧ ((b ≤ a) = False) := by
  refine ⟨?_, ?_, ?_, ?_, ?_, ?_⟩ <;> simp [h, h.le, h.not_gt, h.not_ge, h.ne, h.ne']

theorem eq_facts {a b : Tm} (h : a = b) : ((a < b) = False) ∧ ((b < a) = False) ∧ ((a = b) = True) ∧
    ((b = a) = True) ∧ ((a ≤ b) = True) ∧ ((b ≤ a) = True) := by
  subst h; simp

local macro "tm_facts" h:ident : tactic => `(tactic| first
  | (have hf := lt_facts $h; clear $h)
  | (have hf := eq_facts $h; clear $h))

variable {α : Type}

theorem interLoop_step_lt (f : α → α → β) (ne : β → β → Bool) (p1 : Tm) (v1 : α) (c1 : Tm) (w1 : α) (r1 : ASig α)
    (p2 : Tm) (v2 : α) (c2 : Tm) (w2 : α) (r2 : ASig α) (out : ASig β) (h1 : p1 < c1) (h2 : p2 < c2) (a : p1 < p2) :
    interLoop f ne ((p1, v1) :: (c1, w1) :: r1) ((p2, v2) :: (c2, w2) :: r2) out =
      if c1 ≤ p2 then interLoop f ne ((c1, w1) :: r1) ((p2, v2) :: (c2, w2) :: r2) out
      else if c2 ≤ p1 then interLoop f ne ((p1, v1) :: (c1, w1) :: r1) ((c2, w2) :: r2) out
      else if c1 ≤ c2 then
        interLoop f ne ((c1, w1) :: r1) ((p2, v2) :: (c2, w2) :: r2) (appendD ne out (max p1 p2, f v1 v2))
      else interLoop f ne ((p1, v1) :: (c1, w1) :: r1) ((c2, w2) :: r2) (appendD ne out (max p1 p2, f v1 v2)) := by
  rw [interLoop]
  simp only [lt_iff, beq_iff_eq, Bool.and_eq_true]
  generalize interLoop f ne ((c1, w1) :: r1) ((p2, v2) :: (c2, w2) :: r2) = A
  generalize interLoop f ne ((p1, v1) :: (c1, w1) :: r1) ((c2, w2) :: r2) = B
  rw [max_eq_right a.le]
  rcases lt_trichotomy c1 c2 with b | b | b <;> rcases lt_trichotomy c1 p2 with c | c | c <;>
    rcases lt_trichotomy c2 p1 with d | d | d <;>
    first
    | (exfalso; order)
    | (tm_facts a; tm_facts h1; tm_facts h2; tm_facts b; tm_facts c; tm_facts d
       simp only [*, if_true, if_false, and_true, and_false])

theorem interLoop_step_gt (f : α → α → β) (ne : β → β → Bool) (p1 : Tm) (v1 : α) (c1 : Tm) (w1 : α) (r1 : ASig α)
    (p2 : Tm) (v2 : α) (c2 : Tm) (w2 : α) (r2 : ASig α) (out : ASig β) (h1 : p1 < c1) (h2 : p2 < c2) (a : p2 < p1) :
    interLoop f ne ((p1, v1) :: (c1, w1) :: r1) ((p2, v2) :: (c2, w2) :: r2) out =
      if c1 ≤ p2 then interLoop f ne ((c1, w1) :: r1) ((p2, v2) :: (c2, w2) :: r2) out
      else if c2 ≤ p1 then interLoop f ne ((p1, v1) :: (c1, w1) :: r1) ((c2, w2) :: r2) out
      else if c1 ≤ c2 then
        interLoop f ne ((c1, w1) :: r1) ((p2, v2) :: (c2, w2) :: r2) (appendD ne out (max p1 p2, f v1 v2))
      else interLoop f ne ((p1, v1) :: (c1, w1) :: r1) ((c2, w2) :: r2) (appendD ne out (max p1 p2, f v1 v2)) := by
  rw [interLoop]
  simp only [lt_iff, beq_iff_eq, Bool.and_eq_true]
  generalize interLoop f ne ((c1, w1) :: r1) ((p2, v2) :: (c2, w2) :: r2) = A
  generalize interLoop f ne ((p1, v1) :: (c1, w1) :: r1) ((c2, w2) :: r2) = B
  rw [max_eq_left a.le]
  rcases lt_trichotomy c1 c2 with b | b | b <;> rcases lt_trichotomy c1 p2 with c | c | c <;>
    rcases lt_trichotomy c2 p1 with d | d | d <;>
    first
    | (exfalso; order)
    | (tm_facts a; tm_facts h1; tm_facts h2; tm_facts b; tm_facts c; tm_facts d
       simp only [*, if_true, if_false, and_true, and_false])

theorem interLoop_step_eq (f : α → α → β) (ne : β → β → Bool) (p1 : Tm) (v1 : α) (c1 : Tm) (w1 : α) (r1 : ASig α)
    (p2 : Tm) (v2 : α) (c2 : Tm) (w2 : α) (r2 : ASig α) (out : ASig β) (h1 : p1 < c1) (h2 : p2 < c2) (a : p1 = p2) :
    interLoop f ne ((p1, v1) :: (c1, w1) :: r1) ((p2, v2) :: (c2, w2) :: r2) out =
      if c1 ≤ p2 then interLoop f ne ((c1, w1) :: r1) ((p2, v2) :: (c2, w2) :: r2) out
      else if c2 ≤ p1 then interLoop f ne ((p1, v1) :: (c1, w1) :: r1) ((c2, w2) :: r2) out
      else if c1 ≤ c2 then
        interLoop f ne ((c1, w1) :: r1) ((p2, v2) :: (c2, w2) :: r2) (appendD ne out (max p1 p2, f v1 v2))
      else interLoop f ne ((p1, v1) :: (c1, w1) :: r1) ((c2, w2) :: r2) (appendD ne out (max p1 p2, f v1 v2)) := by
  subst a
  rw [interLoop]
  simp only [lt_iff, beq_iff_eq, Bool.and_eq_true]
  generalize interLoop f ne ((c1, w1) :: r1) ((p1, v2) :: (c2, w2) :: r2) = A
  generalize interLoop f ne ((p1, v1) :: (c1, w1) :: r1) ((c2, w2) :: r2) = B
  rw [max_self]
  rcases lt_trichotomy c1 c2 with b | b | b <;>
    first
    | (exfalso; order)
    | (tm_facts h1; tm_facts h2; tm_facts b
       simp only [*, if_true, if_false, and_true, and_false, lt_self_iff_false])

theorem interLoop_step (f : α → α → β) (ne : β → β → Bool) (p1 : Tm) (v1 : α) (c1 : Tm) (w1 : α) (r1 : ASig α)
    (p2 : Tm) (v2 : α) (c2 : Tm) (w2 : α) (r2 : ASig α) (out : ASig β) (h1 : p1 < c1) (h2 : p2 < c2) :
    interLoop f ne ((p1, v1) :: (c1, w1) :: r1) ((p2, v2) :: (c2, w2) :: r2) out =
      if c1 ≤ p2 then interLoop f ne ((c1, w1) :: r1) ((p2, v2) :: (c2, w2) :: r2) out
      else if c2 ≤ p1 then interLoop f ne ((p1, v1) :: (c1, w1) :: r1) ((c2, w2) :: r2) out
      else if c1 ≤ c2 then
        interLoop f ne ((c1, w1) :: r1) ((p2, v2) :: (c2, w2) :: r2) (appendD ne out (max p1 p2, f v1 v2))
      else interLoop f ne ((p1, v1) :: (c1, w1) :: r1) ((c2, w2) :: r2) (appendD ne out (max p1 p2, f v1 v2)) := by
  rcases lt_trichotomy p1 p2 with a | a | a
  · exact interLoop_step_lt f ne p1 v1 c1 w1 r1 p2 v2 c2 w2 r2 out h1 h2 a
  · exact interLoop_step_eq f ne p1 v1 c1 w1 r1 p2 v2 c2 w2 r2 out h1 h2 a
  · exact interLoop_step_gt f ne p1 v1 c1 w1 r1 p2 v2 c2 w2 r2 out h1 h2 a

/-! ### the merge loop -/

def EndsInf (l : ASig α) : Prop := (times l).getLast? = some Tm.inf

theorem EndsInf.tail {p : Tm × α} {q : Tm × α} {r : ASig α} (h : EndsInf (p :: q :: r)) : EndsInf (q :: r) := by
  simpa [EndsInf, times] using h

theorem EndsInf.single {p : Tm} {v : α} (h : EndsInf [(p, v)]) : p = Tm.inf := by
  simpa [EndsInf, times] using h

theorem sorted_tail {p : Tm × α} {r : ASig α} (h : Sorted (p :: r)) : Sorted r :=
  (List.pairwise_cons.1 h).2

theorem sorted_head_lt {p v c w} {r : ASig α} (h : Sorted ((p, v) :: (c, w) :: r)) : p < c :=
  (lt_iff _ _).1 ((List.pairwise_cons.1 h).1 c (by simp))

theorem infOK_of_finite {out : ASig β} (h : ∀ τ ∈ times out, τ < Tm.inf) : InfOK out := by
  intro pre a v heq
  have : Tm.inf ∈ times out := by rw [heq]; simp [times]
  exact absurd (h _ this) (lt_irrefl _)

theorem OutInv.finish {G : Rat → Option β} {D : Rat} {out : ASig β} (h : OutInv G D out Tm.inf) :
    WFA out D ∧ ∀ t, D ≤ t → valAtA out t = G t := by
  refine ⟨⟨h.sorted, ?_, infOK_of_finite h.below⟩, fun t ht => h.val t ht (fin_lt_inf t)⟩
  have := h.start
  cases out with
  | nil => simp [times] at this
  | cons a l => simpa [times] using this

theorem lift2_adv_left (f : α → α → β) (p1 : Tm) (v1 : α) (c1 : Tm) (w1 : α) (r1 l2 : ASig α) (G : Rat → Option β)
    (m m' : Tm) (h1 : p1 < c1) (hc : c1 ≤ m') (hm : m ≤ m')
    (h : ∀ t, m ≤ Tm.fin t → lift2 f (valAtA ((p1, v1) :: (c1, w1) :: r1)) (valAtA l2) t = G t) :
    ∀ t, m' ≤ Tm.fin t → lift2 f (valAtA ((c1, w1) :: r1)) (valAtA l2) t = G t := by
  intro t ht
  rw [← h t (le_trans hm ht)]
  unfold lift2
  rw [valAtA_tail _ _ _ _ _ _ h1 (le_trans hc ht)]

theorem lift2_adv_right (f : α → α → β) (p2 : Tm) (v2 : α) (c2 : Tm) (w2 : α) (r2 l1 : ASig α) (G : Rat → Option β)
    (m m' : Tm) (h2 : p2 < c2) (hc : c2 ≤ m') (hm : m ≤ m')
    (h : ∀ t, m ≤ Tm.fin t → lift2 f (valAtA l1) (valAtA ((p2, v2) :: (c2, w2) :: r2)) t = G t) :
    ∀ t, m' ≤ Tm.fin t → lift2 f (valAtA l1) (valAtA ((c2, w2) :: r2)) t = G t := by
  intro t ht
  rw [← h t (le_trans hm ht)]
  unfold lift2
  rw [valAtA_tail _ _ _ _ _ _ h2 (le_trans hc ht)]

theorem lift2_heads (f : α → α → β) (p1 : Tm) (v1 : α) (c1 : Tm) (w1 : α) (r1 : ASig α)
    (p2 : Tm) (v2 : α) (c2 : Tm) (w2 : α) (r2 : ASig α) (G : Rat → Option β) (m' : Tm) (hc1 : m' ≤ c1) (hc2 : m' ≤ c2)
    (h : ∀ t, max p1 p2 ≤ Tm.fin t →
      lift2 f (valAtA ((p1, v1) :: (c1, w1) :: r1)) (valAtA ((p2, v2) :: (c2, w2) :: r2)) t = G t) :
    ∀ t, max p1 p2 ≤ Tm.fin t → Tm.fin t < m' → G t = some (f v1 v2) := by
  intro t ht ht'
  rw [← h t ht]
  unfold lift2
  rw [valAtA_head _ _ _ _ _ _ (le_trans (le_max_left _ _) ht) (lt_of_lt_of_le ht' hc1),
    valAtA_head _ _ _ _ _ _ (le_trans (le_max_right _ _) ht) (lt_of_lt_of_le ht' hc2)]

theorem interLoop_left_single (f : α → α → β) (ne : β → β → Bool) (a : Tm × α) (l2 : ASig α) (out : ASig β) :
    interLoop f ne [a] l2 out = .ok out := by
  rw [interLoop]
  intros; simp_all

theorem interLoop_right_single (f : α → α → β) (ne : β → β → Bool) (a : Tm × α) (l1 : ASig α) (out : ASig β) :
    interLoop f ne l1 [a] out = .ok out := by
  rw [interLoop]
  intros; simp_all

theorem loop_spec (f : α → α → β) (ne : β → β → Bool) (hne : ∀ a b, ne a b = false → a = b)
    (G : Rat → Option β) (D : Rat) :
    ∀ (n : Nat) (p1 : Tm) (v1 : α) (r1 : ASig α) (p2 : Tm) (v2 : α) (r2 : ASig α) (out : ASig β),
      r1.length + r2.length ≤ n →
      Sorted ((p1, v1) :: r1) → Sorted ((p2, v2) :: r2) → EndsInf ((p1, v1) :: r1) → EndsInf ((p2, v2) :: r2) →
      OutInv G D out (max p1 p2) →
      (∀ t, max p1 p2 ≤ Tm.fin t → lift2 f (valAtA ((p1, v1) :: r1)) (valAtA ((p2, v2) :: r2)) t = G t) →
      ∃ res, interLoop f ne ((p1, v1) :: r1) ((p2, v2) :: r2) out = .ok res ∧ WFA res D ∧
        ∀ t, D ≤ t → valAtA res t = G t := by
  intro n
  induction n with
  | zero =>
    intro p1 v1 r1 p2 v2 r2 out hn hs1 hs2 he1 he2 ho hG
    have hr1 : r1 = [] := List.eq_nil_of_length_eq_zero (by omega)
    subst hr1
    have := he1.single
    subst this
    rw [max_eq_left (le_inf _)] at ho
    exact ⟨out, interLoop_left_single _ _ _ _ _, ho.finish⟩
  | succ n ih =>
    intro p1 v1 r1 p2 v2 r2 out hn hs1 hs2 he1 he2 ho hG
    cases r1 with
    | nil =>
      have := he1.single
      subst this
      rw [max_eq_left (le_inf _)] at ho
      exact ⟨out, interLoop_left_single _ _ _ _ _, ho.finish⟩
    | cons q1 r1 =>
    cases r2 with
    | nil =>
      have := he2.single
      subst this
      rw [max_eq_right (le_inf _)] at ho
      exact ⟨out, interLoop_right_single _ _ _ _ _, ho.finish⟩
    | cons q2 r2 =>
    obtain ⟨c1, w1⟩ := q1
    obtain ⟨c2, w2⟩ := q2
    have h1 : p1 < c1 := sorted_head_lt hs1
    have h2 : p2 < c2 := sorted_head_lt hs2
    simp only [List.length_cons] at hn
    rw [interLoop_step f ne p1 v1 c1 w1 r1 p2 v2 c2 w2 r2 out h1 h2]
    by_cases hA : c1 ≤ p2
    · rw [if_pos hA]
      have hm : max c1 p2 = max p1 p2 := by
        rw [max_eq_right hA, max_eq_right (le_trans h1.le hA)]
      apply ih c1 w1 r1 p2 v2 ((c2, w2) :: r2) out (by simp only [List.length_cons]; omega) (sorted_tail hs1) hs2
        he1.tail he2
      · rw [hm]; exact ho
      · rw [hm]
        exact lift2_adv_left f p1 v1 c1 w1 r1 _ G _ _ h1 (le_trans hA (le_max_right _ _)) le_rfl hG
    rw [if_neg hA]
    rw [not_le] at hA
    by_cases hB : c2 ≤ p1
    · rw [if_pos hB]
      have hm : max p1 c2 = max p1 p2 := by
        rw [max_eq_left hB, max_eq_left (le_trans h2.le hB)]
      apply ih p1 v1 ((c1, w1) :: r1) c2 w2 r2 out (by simp only [List.length_cons]; omega) hs1 (sorted_tail hs2)
        he1 he2.tail
      · rw [hm]; exact ho
      · rw [hm]
        exact lift2_adv_right f p2 v2 c2 w2 r2 _ G _ _ h2 (le_trans hB (le_max_left _ _)) le_rfl hG
    rw [if_neg hB]
    rw [not_le] at hB
    by_cases hC : c1 ≤ c2
    · rw [if_pos hC]
      have hm : max c1 p2 = c1 := max_eq_left hA.le
      have hlt : max p1 p2 < c1 := max_lt h1 hA
      apply ih c1 w1 r1 p2 v2 ((c2, w2) :: r2) _ (by simp only [List.length_cons]; omega) (sorted_tail hs1) hs2
        he1.tail he2
      · rw [hm]
        exact ho.push ne hne hlt (f v1 v2) (lift2_heads f p1 v1 c1 w1 r1 p2 v2 c2 w2 r2 G c1 le_rfl hC hG)
      · rw [hm]
        exact lift2_adv_left f p1 v1 c1 w1 r1 _ G _ _ h1 le_rfl hlt.le hG
    · rw [if_neg hC]
      rw [not_le] at hC
      have hm : max p1 c2 = c2 := max_eq_right hB.le
      have hlt : max p1 p2 < c2 := max_lt hB h2
      apply ih p1 v1 ((c1, w1) :: r1) c2 w2 r2 _ (by simp only [List.length_cons]; omega) hs1 (sorted_tail hs2)
        he1 he2.tail
      · rw [hm]
        exact ho.push ne hne hlt (f v1 v2) (lift2_heads f p1 v1 c1 w1 r1 p2 v2 c2 w2 r2 G c2 hC.le le_rfl hG)
      · rw [hm]
        exact lift2_adv_right f p2 v2 c2 w2 r2 _ G _ _ h2 le_rfl hlt.le hG

/-! ### `extendInf` and `inter` -/

theorem extendInf_spec {s : ASig α} {d : Rat} (h : WFA s d) :
    Sorted (extendInf s) ∧ EndsInf (extendInf s) ∧ (times (extendInf s)).head? = some (Tm.fin d) ∧
      ∀ t, valAtA (extendInf s) t = valAtA s t := by
  rcases List.eq_nil_or_concat s with rfl | ⟨init, q, rfl⟩
  · have := h.start
    simp [times] at this
  · rw [List.concat_eq_append] at h ⊢
    obtain ⟨tl, vl⟩ := q
    have hlast : (init ++ [(tl, vl)]).getLast? = some (tl, vl) := List.getLast?_concat
    cases tl with
    | inf =>
      have : extendInf (init ++ [(Tm.inf, vl)]) = init ++ [(Tm.inf, vl)] := by
        simp [extendInf, Tm.lt]
      rw [this]
      exact ⟨h.sorted, by simp [EndsInf, times], h.start, fun _ => rfl⟩
    | fin q =>
      have : extendInf (init ++ [(Tm.fin q, vl)]) = (init ++ [(Tm.fin q, vl)]) ++ [(Tm.inf, vl)] := by
        simp [extendInf, Tm.lt]
      rw [this]
      refine ⟨?_, by simp [EndsInf, times], ?_, fun t => valAtA_append_after _ _ _ _ (fin_lt_inf t)⟩
      · have hs := (sorted_iff _).1 h.sorted
        rw [sorted_iff, times_append, List.pairwise_append]
        refine ⟨hs, by simp [times], ?_⟩
        intro a ha b hb
        have hb' : b = Tm.inf := by simpa [times] using hb
        subst hb'
        rw [times_append, List.pairwise_append] at hs
        rw [times_append, List.mem_append] at ha
        rcases ha with ha | ha
        · exact lt_trans (hs.2.2 a ha (Tm.fin q) (by simp [times])) (fin_lt_inf q)
        · have : a = Tm.fin q := by simpa [times] using ha
          subst this
          exact fin_lt_inf q
      · have := h.start
        rw [times_append, List.head?_append, this]; rfl

theorem lift2_congr {γ : Type} (f : γ → γ → β) {g1 g2 g1' g2' : Rat → Option γ} (t : Rat) (h1 : g1 t = g1' t)
    (h2 : g2 t = g2' t) : lift2 f g1 g2 t = lift2 f g1' g2' t := by
  unfold lift2; rw [h1, h2]

theorem denotes_congr {s : ASig β} {d : Rat} {g g' : Rat → Option β} (h : Denotes s d g)
    (hg : ∀ t, d ≤ t → g t = g' t) : Denotes s d g' :=
  ⟨h.1, fun t ht => (h.2 t ht).trans (hg t ht)⟩

/-! ### `InfOK` -/

theorem infOK_nil : InfOK ([] : ASig β) := by
  intro pre a v heq
  have := congrArg List.length heq
  simp at this

theorem infOK_single (a : Tm × β) : InfOK [a] := by
  intro pre a' v heq
  have := congrArg List.length heq
  simp at this

theorem infOK_pair (a b : Tm × β) : InfOK [a, b] ↔ (b.1 = Tm.inf → a.2 = b.2) := by
  constructor
  · intro h hb
    exact h [] a b.2 (by obtain ⟨b1, b2⟩ := b; simp at hb; simp [hb])
  · intro h pre a' v heq
    cases pre with
    | nil =>
      simp only [List.nil_append, List.cons.injEq, and_true] at heq
      obtain ⟨rfl, rfl⟩ := heq
      exact h rfl
    | cons a0 pre' =>
      have hl := congrArg List.length heq
      simp at hl

theorem infOK_cons3 (a b c : Tm × β) (r : ASig β) : InfOK (a :: b :: c :: r) ↔ InfOK (b :: c :: r) := by
  constructor
  · intro h pre a' v heq
    exact h (a :: pre) a' v (by rw [heq]; rfl)
  · intro h pre a' v heq
    cases pre with
    | nil =>
      have hl := congrArg List.length heq
      simp at hl
    | cons a0 pre' =>
      simp only [List.cons_append, List.cons.injEq] at heq
      exact h pre' a' v heq.2

theorem infOK_head_congr (τ τ' : Tm) (x : β) (l : ASig β) : InfOK ((τ, x) :: l) ↔ InfOK ((τ', x) :: l) := by
  cases l with
  | nil => simp [infOK_single]
  | cons b l =>
    cases l with
    | nil => simp [infOK_pair]
    | cons c r => rw [infOK_cons3, infOK_cons3]

theorem infOK_map {γ : Type} (k : β → γ) : ∀ (s : ASig β), InfOK s → InfOK (s.map (fun p => (p.1, k p.2)))
  | [], _ => infOK_nil
  | [a], _ => infOK_single _
  | [a, b], h => by
    rw [infOK_pair] at h
    simp only [List.map_cons, List.map_nil]
    rw [infOK_pair]
    intro hb
    exact congrArg k (h hb)
  | a :: b :: c :: r, h => by
    rw [infOK_cons3] at h
    have := infOK_map k (b :: c :: r) h
    simp only [List.map_cons] at this ⊢
    rw [infOK_cons3]
    exact this

/-! ### `map`, `mapUn`, `dedup` -/

theorem times_map {γ : Type} (k : β → γ) (s : ASig β) : times (s.map (fun p => (p.1, k p.2))) = times s := by
  simp [times, Function.comp_def]

theorem valAtA_map {γ : Type} (k : β → γ) (s : ASig β) (t : Rat) :
    valAtA (s.map (fun p => (p.1, k p.2))) t = (valAtA s t).map k := by
  induction s with
  | nil => rfl
  | cons p s ih =>
    obtain ⟨τ, v⟩ := p
    simp only [List.map_cons, valAtA_cons, ih]
    split_ifs
    · rfl
    · cases valAtA s t <;> rfl

theorem wfa_map {γ : Type} (k : β → γ) {s : ASig β} {d : Rat} (h : WFA s d) :
    WFA (s.map (fun p => (p.1, k p.2))) d :=
  ⟨by unfold Sorted; rw [times_map]; exact h.sorted, by rw [times_map]; exact h.start, infOK_map k s h.infok⟩

theorem mapM_eq_map {γ : Type} (F : Tm × β → Except PyErr (Tm × γ)) (k : β → γ)
    (hF : ∀ p q, F p = .ok q → q = (p.1, k p.2)) :
    ∀ (s : ASig β) (out : ASig γ), s.mapM F = .ok out → out = s.map (fun p => (p.1, k p.2))
  | [], out, h => by
    simp only [List.mapM_nil] at h
    cases h; rfl
  | p :: s, out, h => by
    rw [List.mapM_cons] at h
    cases hp : F p with
    | error e => rw [hp] at h; cases h
    | ok q =>
      rw [hp] at h
      cases hs : s.mapM F with
      | error e => rw [hs] at h; cases h
      | ok r =>
        rw [hs] at h
        cases h
        rw [hF p q hp, mapM_eq_map F k hF s r hs]
        rfl

theorem dedupGo_cons2 {α : Type} [Val α] (prev : Option α) (p q : Tm × α) (rest : ASig α) :
    dedupGo prev (p :: q :: rest) =
      (if (match prev with | none => true | some x => vne p.2 x) then [p] else []) ++
        dedupGo (some p.2) (q :: rest) := rfl

theorem dedupGo_ne_nil {α : Type} [Val α] (prev : Option α) (a : Tm × α) (l : ASig α) : dedupGo prev (a :: l) ≠ [] := by
  induction l generalizing prev a with
  | nil => simp [dedupGo]
  | cons b l ih =>
    rw [dedupGo_cons2]
    intro h
    exact ih _ _ (List.append_eq_nil_iff.1 h).2

theorem dedupGo_sublist {α : Type} [Val α] (prev : Option α) (s : ASig α) : (dedupGo prev s).Sublist s := by
  induction s generalizing prev with
  | nil => simp [dedupGo]
  | cons a l ih =>
    cases l with
    | nil => simp [dedupGo]
    | cons b l =>
      rw [dedupGo_cons2]
      split_ifs
      · exact (ih _).cons_cons a
      · exact (ih _).cons a

theorem dedupGo_val {α : Type} [Val α] [LawfulVal α] (hv : ∀ a b : α, vne a b = false → a = b) (x : α) (s : ASig α)
    (hs : Sorted s) (t : Rat) : (valAtA (dedupGo (some x) s) t).getD x = (valAtA s t).getD x := by
  induction s generalizing x with
  | nil => simp [dedupGo]
  | cons a l ih =>
    cases l with
    | nil => simp [dedupGo]
    | cons b l =>
      obtain ⟨τ, v⟩ := a
      rw [dedupGo]
      have ih' := ih v (sorted_tail hs)
      by_cases hk : vne v x = true
      · simp only [hk, if_true, List.singleton_append, valAtA_cons τ, ih']
      · have hvx : v = x := hv _ _ (by simpa using hk)
        subst hvx
        simp only [hk, Bool.false_eq_true, if_false, List.nil_append, ih', valAtA_cons τ]
        by_cases hτ : Tm.fin t < τ
        · rw [if_pos hτ]
          obtain ⟨c, w⟩ := b
          rw [valAtA_cons c, if_pos (lt_trans hτ (sorted_head_lt hs))]
        · rw [if_neg hτ]; rfl

theorem dedupGo_infOK {α : Type} [Val α] [LawfulVal α] (hv : ∀ a b : α, vne a b = false → a = b) (τ0 : Tm) (x : α)
    (s : ASig α) (h : InfOK ((τ0, x) :: s)) : InfOK ((τ0, x) :: dedupGo (some x) s) := by
  induction s generalizing τ0 x with
  | nil => simpa [dedupGo] using h
  | cons a l ih =>
    cases l with
    | nil => simpa [dedupGo] using h
    | cons b l =>
      obtain ⟨τ, v⟩ := a
      rw [dedupGo]
      rw [infOK_cons3] at h
      by_cases hk : vne v x = true
      · simp only [hk, if_true, List.singleton_append]
        have := ih τ v h
        cases hd : dedupGo (some v) (b :: l) with
        | nil => exact absurd hd (dedupGo_ne_nil _ _ _)
        | cons c r =>
          rw [hd] at this
          rw [infOK_cons3]; exact this
      · have hvx : v = x := hv _ _ (by simpa using hk)
        subst hvx
        simp only [hk, Bool.false_eq_true, if_false, List.nil_append]
        exact ih τ0 v ((infOK_head_congr τ τ0 v _).1 h)

end InterAux

open InterAux
attribute [local instance] InterAux.tmOrder

variable {α : Type} [Val α] [LawfulVal α] {β : Type}
set_option linter.unusedSectionVars false

/-- `vne` is inequality on a lawful value type. -/
theorem vne_eq_false_iff (a b : α) : vne a b = false ↔ a = b := by
  unfold vne
  rw [Bool.or_eq_false_iff, Bool.eq_false_iff, Bool.eq_false_iff, Ne, Ne, LawfulVal.lt_iff, LawfulVal.lt_iff]
  constructor
  · rintro ⟨h1, h2⟩
    exact le_antisymm (not_lt.1 h2) (not_lt.1 h1)
  · rintro rfl
    exact ⟨lt_irrefl _, lt_irrefl _⟩

/-- A well-formed list is defined from its start on. -/
theorem valAtA_isSome {s : ASig β} {d : Rat} (h : WFA s d) (t : Rat) (ht : d ≤ t) : (valAtA s t).isSome = true := by
  cases s with
  | nil => have := h.start; simp [times] at this
  | cons p r =>
    obtain ⟨τ, v⟩ := p
    have : τ = Tm.fin d := by simpa [times] using h.start
    subst this
    rw [valAtA_cons, if_neg (not_lt.2 ((fin_le_fin _ _).2 ht))]
    rfl

theorem valAtA_none_before {s : ASig β} {d : Rat} (h : WFA s d) (t : Rat) (ht : t < d) : valAtA s t = none := by
  cases s with
  | nil => rfl
  | cons p r =>
    obtain ⟨τ, v⟩ := p
    have : τ = Tm.fin d := by simpa [times] using h.start
    subst this
    rw [valAtA_cons, if_pos ((fin_lt_fin _ _).2 ht)]

/-- The 13-case merge: no exception on well-formed operands; the result starts at the later of the two starts and is
    the point-wise combination there. -/
theorem inter_spec (f : α → α → β) (ne : β → β → Bool) (hne : ∀ a b, ne a b = false → a = b)
    {s1 s2 : ASig α} {d1 d2 : Rat} (h1 : WFA s1 d1) (h2 : WFA s2 d2) :
    ∃ out, inter f ne s1 s2 = .ok out ∧ Denotes out (max d1 d2) (lift2 f (valAtA s1) (valAtA s2)) := by
  obtain ⟨hs1, he1, hh1, hv1⟩ := extendInf_spec h1
  obtain ⟨hs2, he2, hh2, hv2⟩ := extendInf_spec h2
  have hne1 : s1.isEmpty = false := by
    cases s1 with
    | nil => have := h1.start; simp [times] at this
    | cons a l => rfl
  have hne2 : s2.isEmpty = false := by
    cases s2 with
    | nil => have := h2.start; simp [times] at this
    | cons a l => rfl
  unfold inter
  rw [hne1, hne2]
  simp only [Bool.or_self, Bool.false_eq_true, if_false]
  cases hl1 : extendInf s1 with
  | nil => rw [hl1] at hh1; simp [times] at hh1
  | cons a1 r1 =>
  cases hl2 : extendInf s2 with
  | nil => rw [hl2] at hh2; simp [times] at hh2
  | cons a2 r2 =>
  obtain ⟨p1, v1⟩ := a1
  obtain ⟨p2, v2⟩ := a2
  rw [hl1] at hs1 he1 hh1
  rw [hl2] at hs2 he2 hh2
  have hp1 : p1 = Tm.fin d1 := by simpa [times] using hh1
  have hp2 : p2 = Tm.fin d2 := by simpa [times] using hh2
  subst hp1 hp2
  obtain ⟨res, hres, hwf, hval⟩ := loop_spec f ne hne (lift2 f (valAtA s1) (valAtA s2)) (max d1 d2) _
    (Tm.fin d1) v1 r1 (Tm.fin d2) v2 r2 [] le_rfl hs1 hs2 he1 he2
    (by rw [max_fin]; exact OutInv.nil _ _)
    (by
      intro t _
      rw [← hl1, ← hl2]
      exact lift2_congr f t (hv1 t) (hv2 t))
  exact ⟨res, hres, hwf, hval⟩

theorem inter_denotes (f : α → α → β) (ne : β → β → Bool) (hne : ∀ a b, ne a b = false → a = b)
    {s1 s2 : ASig α} {d1 d2 : Rat} {g1 g2 : Rat → Option α} (h1 : Denotes s1 d1 g1) (h2 : Denotes s2 d2 g2) :
    ∃ out, inter f ne s1 s2 = .ok out ∧ Denotes out (max d1 d2) (lift2 f g1 g2) := by
  obtain ⟨out, ho, hd⟩ := inter_spec f ne hne h1.1 h2.1
  refine ⟨out, ho, denotes_congr hd ?_⟩
  intro t ht
  exact lift2_congr f t (h1.2 t (le_trans (le_max_left _ _) ht)) (h2.2 t (le_trans (le_max_right _ _) ht))

theorem mapUn_spec (op : Un) {s : ASig α} {d : Rat} {g : Rat → Option α} (h : Denotes s d g) {out : ASig α}
    (ho : mapUn op s = .ok out) : Denotes out d (fun t => (g t).map op.app) := by
  have : out = s.map (fun p => (p.1, op.app p.2)) := by
    refine mapM_eq_map _ op.app ?_ s out ho
    intro p q hq
    cases op <;> simp only at hq
    all_goals first
      | (cases hq; rfl)
      | (split_ifs at hq; cases hq; rfl)
  subst this
  exact ⟨wfa_map _ h.1, fun t ht => by rw [valAtA_map, h.2 t ht]⟩

/-- Without `sqrt` / `ln` the unary visitors do not raise. -/
theorem mapUn_ok (op : Un) (hop : op ≠ .sqrt ∧ op ≠ .ln) (s : ASig α) : ∃ out, mapUn op s = .ok out := by
  refine ⟨s.map (fun p => (p.1, op.app p.2)), ?_⟩
  unfold mapUn
  induction s with
  | nil => rfl
  | cons p s ih =>
    rw [List.mapM_cons, ih]
    cases op <;> first | rfl | exact absurd rfl hop.1 | exact absurd rfl hop.2

theorem dedup_spec {s : ASig α} {d : Rat} {g : Rat → Option α} (h : Denotes s d g) : Denotes (dedup s) d g := by
  have hv : ∀ a b : α, vne a b = false → a = b := fun a b => (vne_eq_false_iff a b).1
  obtain ⟨⟨hs, hst, hi⟩, hval⟩ := h
  unfold dedup
  cases s with
  | nil => exact ⟨⟨hs, hst, hi⟩, hval⟩
  | cons a l =>
    cases l with
    | nil => exact ⟨⟨hs, hst, hi⟩, hval⟩
    | cons b l =>
      obtain ⟨τ, v⟩ := a
      have e : dedupGo none ((τ, v) :: b :: l) = (τ, v) :: dedupGo (some v) (b :: l) := by
        rw [dedupGo]; rfl
      rw [e]
      refine ⟨⟨?_, ?_, dedupGo_infOK hv τ v _ hi⟩, ?_⟩
      · have : ((τ, v) :: dedupGo (some v) (b :: l)).Sublist ((τ, v) :: b :: l) :=
          (dedupGo_sublist _ _).cons_cons _
        exact List.Pairwise.sublist (this.map _) hs
      · exact hst
      · intro t ht
        rw [← hval t ht, valAtA_cons, valAtA_cons, dedupGo_val hv v _ (sorted_tail hs)]

theorem map_spec {γ : Type} (k : β → γ) {s : ASig β} {d : Rat} {g : Rat → Option β} (h : Denotes s d g) :
    Denotes (s.map (fun p => (p.1, k p.2))) d (fun t => (g t).map k) :=
  ⟨wfa_map k h.1, fun t ht => by rw [valAtA_map, h.2 t ht]⟩

theorem predicate_spec (c : Cmp) {l r : ASig α} {d1 d2 : Rat} {g1 g2 : Rat → Option α}
    (h1 : Denotes l d1 g1) (h2 : Denotes r d2 g2) :
    ∃ out, predicate c l r = .ok out ∧
      Denotes out (max d1 d2) (lift2 (fun a b => cmpOfDiff c (Val.sub a b)) g1 g2) := by
  obtain ⟨dd, hd, hden⟩ := inter_denotes (fun a b : α => Val.sub a b) vne
    (fun a b => (vne_eq_false_iff a b).1) h1 h2
  refine ⟨dedup (dd.map (fun p => (p.1, cmpOfDiff c p.2))), ?_, ?_⟩
  · unfold predicate
    rw [hd]; rfl
  · apply dedup_spec
    refine denotes_congr (map_spec (cmpOfDiff c) hden) ?_
    intro t _
    unfold lift2
    cases g1 t <;> cases g2 t <;> rfl

end Rtamt.Dense.Alg
