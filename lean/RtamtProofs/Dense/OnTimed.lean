/-
  Dense time, online (C05): `OnceTimedOperation` / `HistoricallyTimedOperation` over an operand stream that may repeat
  the sample its previous batch ended with.

  `timedUpdate` drops a first sample stamped `residual_start` and then is `timedUpdateCore`.  `residual_start` after a
  successful update is the last stamp received so far, so running `timedUpdate` over a stream `Bs` is running
  `timedUpdateCore` over the stream `dedupFrom none Bs` with the repeated first samples removed; that stream has no
  repeated samples at all, the same samples, hence the same step function and the same covered times, and the theorems
  about `timedUpdateCore` (`SpecOnTimedCore`) apply.
-/
import RtamtProofs.Dense.OnDefs
import RtamtProofs.Dense.OnBasic
import RtamtProofs.Dense.OnTimedCore

namespace Rtamt.Dense.AlgOn
open Rtamt Val Rtamt.Dense.Alg

namespace TimedWrapAux
open InterAux BasicAux
attribute [local instance] InterAux.tmOrder

variable {β : Type}

/-! ### `residual_start` -/

/-- `residual_start` after an update with the (already shortened) batch `s`. -/
def lastStamp (rs : Option Tm) (s : ASig β) : Option Tm :=
  match s.getLast? with
  | some (t, _) => some t
  | none => rs

theorem lastStamp_nil (rs : Option Tm) : lastStamp rs ([] : ASig β) = rs := rfl

/-- The stream `timedUpdateCore` sees when `timedUpdate` sees `Bs` (`rs`: `residual_start` before the first batch). -/
def dedupFrom : Option Tm → List (ASig β) → List (ASig β)
  | _, [] => []
  | rs, B :: rest => dropRepeat rs B :: dedupFrom (lastStamp rs (dropRepeat rs B)) rest

theorem dropRepeat_nil (rs : Option Tm) : dropRepeat rs ([] : ASig β) = [] := by
  cases rs <;> rfl

theorem dropRepeat_none (s : ASig β) : dropRepeat none s = s := rfl

theorem dropRepeat_cons (r t : Tm) (v : β) (rest : ASig β) :
    dropRepeat (some r) ((t, v) :: rest) = if t = r then rest else (t, v) :: rest := by
  unfold dropRepeat
  by_cases h : t = r
  · simp [h]
  · simp [h]

theorem dropRepeat_sublist (rs : Option Tm) (s : ASig β) : (dropRepeat rs s).Sublist s := by
  cases rs with
  | none => exact List.Sublist.refl _
  | some r =>
    cases s with
    | nil => exact List.Sublist.refl _
    | cons a rest =>
      obtain ⟨t, v⟩ := a
      rw [dropRepeat_cons]
      split_ifs
      · exact List.sublist_cons_self _ _
      · exact List.Sublist.refl _

theorem dedupFrom_sublist : ∀ (Bs : List (ASig β)) (rs : Option Tm), (dedupFrom rs Bs).flatten.Sublist Bs.flatten
  | [], _ => List.Sublist.refl _
  | B :: rest, rs => by
    rw [dedupFrom, List.flatten_cons, List.flatten_cons]
    exact List.Sublist.append (dropRepeat_sublist rs B) (dedupFrom_sublist rest _)

/-- The last stamp of the accumulated samples after one more batch. -/
theorem lastStamp_append (P s : ASig β) :
    ((P ++ s).getLast?).map (·.1) = lastStamp ((P.getLast?).map (·.1)) s := by
  rw [List.getLast?_append]
  unfold lastStamp
  cases s.getLast? with
  | none => rfl
  | some z => rfl

/-! ### the state: `rs` after a successful update -/

section core
variable {α : Type} [Val α]

theorem core_rs (worse : α → α → Bool) (neutral : α) (a b : Rat) {st st' : TimedSt α} {s o : ASig α}
    (h : timedUpdateCore worse neutral a b st s = .ok (st', o)) : st'.rs = lastStamp st.rs s := by
  unfold timedUpdateCore at h
  obtain ⟨stk, _, h⟩ := MainAux.bind_ok h
  have := MainAux.ok_inj h
  cases this
  rfl

theorem run_eq (worse : α → α → Bool) (neutral : α) (a b : Rat) : ∀ (Bs : List (ASig α)) (st : TimedSt α),
    runUn (timedUpdate worse neutral a b) st Bs = runUn (timedUpdateCore worse neutral a b) st (dedupFrom st.rs Bs)
  | [], _ => rfl
  | B :: rest, st => by
    rw [dedupFrom, runUn, runUn]
    show (timedUpdateCore worse neutral a b st (dropRepeat st.rs B) >>= _) = _
    cases hc : timedUpdateCore worse neutral a b st (dropRepeat st.rs B) with
    | error e => rfl
    | ok x =>
      obtain ⟨st1, o⟩ := x
      show (runUn (timedUpdate worse neutral a b) st1 rest >>= _) = (runUn _ st1 _ >>= _)
      rw [run_eq worse neutral a b rest st1, core_rs worse neutral a b hc]

end core

/-! ### sorted lists -/

theorem sorted_append {s r : ASig β} :
    Sorted (s ++ r) ↔ Sorted s ∧ Sorted r ∧ ∀ p ∈ s, ∀ q ∈ r, p.1 < q.1 := by
  rw [sorted_iff, sorted_iff, sorted_iff, times_append, List.pairwise_append]
  unfold times
  simp only [List.mem_map, forall_exists_index, and_imp, forall_apply_eq_imp_iff₂]

theorem sorted_mono {s : ASig β} (h : Sorted s) : s.Pairwise (fun p q => p.1 ≤ q.1) := (weak_of_sorted h).mono

/-- One batch: the accumulated samples `P` (without repetitions, last stamp `rs`) extended by the shortened batch. -/
theorem step_facts {P B : ASig β} {rs : Option Tm} (hrs : rs = (P.getLast?).map (·.1)) (hP : Sorted P)
    (hB : Sorted B) (hw : Weak (P ++ B)) :
    Sorted (P ++ dropRepeat rs B) ∧ ∀ p ∈ B, p ∈ P ++ dropRepeat rs B := by
  cases hl : P.getLast? with
  | none =>
    replace hrs : rs = none := by rw [hrs, hl]; rfl
    subst hrs
    rw [List.getLast?_eq_none_iff] at hl
    subst hl
    rw [dropRepeat_none]
    exact ⟨by simpa using hB, fun p hp => by simpa using hp⟩
  | some z =>
    replace hrs : rs = some z.1 := by rw [hrs, hl]; rfl
    subst hrs
    have hz : z ∈ P := List.mem_of_getLast? hl
    have hPz : ∀ p ∈ P, p.1 ≤ z.1 := fun p hp => pairwise_le_last (sorted_mono hP) hp hl
    have hcross := (List.pairwise_append.1 ((weak_iff _).1 hw)).2.2
    cases B with
    | nil =>
      rw [dropRepeat_nil]
      exact ⟨by simpa using hP, fun p hp => by cases hp⟩
    | cons a rest =>
      obtain ⟨t, v⟩ := a
      have hB' : Sorted ([(t, v)] ++ rest) := hB
      obtain ⟨_, hrest, hlt⟩ := sorted_append.1 hB'
      have htq : ∀ q ∈ rest, t < q.1 := fun q hq => hlt (t, v) (by simp) q hq
      rw [dropRepeat_cons]
      by_cases e : t = z.1
      · rw [if_pos e]
        have hzt : z = (t, v) := by
          rcases hcross z hz (t, v) List.mem_cons_self with h | h
          · rw [e] at h; exact absurd h (lt_irrefl _)
          · exact h
        refine ⟨sorted_append.2 ⟨hP, hrest, fun p hp q hq => ?_⟩, fun p hp => ?_⟩
        · exact lt_of_le_of_lt (hPz p hp) (by rw [← e]; exact htq q hq)
        · rcases List.mem_cons.1 hp with rfl | hp'
          · rw [← hzt]; exact List.mem_append_left _ hz
          · exact List.mem_append_right _ hp'
      · rw [if_neg e]
        have hzt : z.1 < t := by
          rcases hcross z hz (t, v) List.mem_cons_self with h | h
          · exact h
          · rw [h] at e; exact absurd rfl e
        refine ⟨sorted_append.2 ⟨hP, hB, fun p hp q hq => ?_⟩, fun p hp => List.mem_append_right _ hp⟩
        · refine lt_of_le_of_lt (hPz p hp) (lt_of_lt_of_le hzt ?_)
          rcases List.mem_cons.1 hq with rfl | hq'
          · exact le_rfl
          · exact le_of_lt (htq q hq')

/-- The whole stream, relative to the accumulated samples `P`. -/
theorem dedup_facts : ∀ (Bs : List (ASig β)) (P : ASig β) (rs : Option Tm), rs = (P.getLast?).map (·.1) →
    Sorted P → (∀ B ∈ Bs, Sorted B) → Weak (P ++ Bs.flatten) →
      Sorted (P ++ (dedupFrom rs Bs).flatten) ∧ ∀ p ∈ P ++ Bs.flatten, p ∈ P ++ (dedupFrom rs Bs).flatten
  | [], P, rs, _, hP, _, _ => by
    simp only [dedupFrom, List.flatten_nil, List.append_nil]
    exact ⟨hP, fun p hp => hp⟩
  | B :: rest, P, rs, hrs, hP, hBs, hw => by
    rw [List.flatten_cons, ← List.append_assoc] at hw
    have hwPB : Weak (P ++ B) := hw.sublist (List.sublist_append_left _ _)
    obtain ⟨h1, h2⟩ := step_facts hrs hP (hBs B List.mem_cons_self) hwPB
    have hsub : ((P ++ dropRepeat rs B) ++ rest.flatten).Sublist ((P ++ B) ++ rest.flatten) :=
      List.Sublist.append (List.Sublist.append (List.Sublist.refl _) (dropRepeat_sublist rs B)) (List.Sublist.refl _)
    have hrs' : lastStamp rs (dropRepeat rs B) = ((P ++ dropRepeat rs B).getLast?).map (·.1) := by
      rw [lastStamp_append, hrs]
    obtain ⟨h3, h4⟩ := dedup_facts rest (P ++ dropRepeat rs B) _ hrs' h1
      (fun X hX => hBs X (List.mem_cons_of_mem _ hX)) (hw.sublist hsub)
    rw [dedupFrom, List.flatten_cons, List.flatten_cons, ← List.append_assoc, ← List.append_assoc]
    refine ⟨h3, fun p hp => h4 p ?_⟩
    rcases List.mem_append.1 hp with hp | hp
    · rcases List.mem_append.1 hp with hp | hp
      · exact List.mem_append_left _ (List.mem_append_left _ hp)
      · exact List.mem_append_left _ (h2 p hp)
    · exact List.mem_append_right _ hp

/-! ### lists with the same samples -/

theorem valAtA_same_mem {s r : ASig β} (hs : Weak s) (hr : Weak r) (hm : ∀ p, p ∈ s ↔ p ∈ r) (t : Rat) :
    valAtA s t = valAtA r t := by
  apply Option.ext
  intro y
  rw [valAtA_weak_iff hs, valAtA_weak_iff hr]
  constructor
  · rintro ⟨p, hp, e, hle, hmax⟩
    exact ⟨p, (hm p).1 hp, e, hle, fun q hq => hmax q ((hm q).2 hq)⟩
  · rintro ⟨p, hp, e, hle, hmax⟩
    exact ⟨p, (hm p).2 hp, e, hle, fun q hq => hmax q ((hm q).1 hq)⟩

theorem getLast?_same_mem {s r : ASig β} (hs : Weak s) (hr : Weak r) (hm : ∀ p, p ∈ s ↔ p ∈ r) :
    s.getLast? = r.getLast? := by
  cases h1 : s.getLast? with
  | none =>
    rw [List.getLast?_eq_none_iff] at h1
    subst h1
    cases r with
    | nil => rfl
    | cons a r => exact absurd ((hm a).2 List.mem_cons_self) (by simp)
  | some z =>
    have hz : z ∈ s := List.mem_of_getLast? h1
    cases h2 : r.getLast? with
    | none =>
      rw [List.getLast?_eq_none_iff] at h2
      subst h2
      exact absurd ((hm z).1 hz) (by simp)
    | some z' =>
      have hz' : z' ∈ r := List.mem_of_getLast? h2
      have e1 : z'.1 ≤ z.1 := pairwise_le_last hs.mono ((hm z').2 hz') h1
      have e2 : z.1 ≤ z'.1 := pairwise_le_last hr.mono ((hm z).1 hz) h2
      rw [hs.eq_of_stamp hz ((hm z').2 hz') (le_antisymm e2 e1)]

theorem head?_same_mem {s r : ASig β} (hs : Weak s) (hr : Weak r) (hm : ∀ p, p ∈ s ↔ p ∈ r) :
    s.head? = r.head? := by
  cases h1 : s.head? with
  | none =>
    rw [List.head?_eq_none_iff] at h1
    subst h1
    cases r with
    | nil => rfl
    | cons a r => exact absurd ((hm a).2 List.mem_cons_self) (by simp)
  | some z =>
    have hz : z ∈ s := List.mem_of_mem_head? h1
    cases h2 : r.head? with
    | none =>
      rw [List.head?_eq_none_iff] at h2
      subst h2
      exact absurd ((hm z).1 hz) (by simp)
    | some z' =>
      have hz' : z' ∈ r := List.mem_of_mem_head? h2
      have e1 : z.1 ≤ z'.1 := pairwise_head_le hs.mono h1 ((hm z').2 hz')
      have e2 : z'.1 ≤ z.1 := pairwise_head_le hr.mono h2 ((hm z).1 hz)
      rw [hs.eq_of_stamp hz ((hm z').2 hz') (le_antisymm e1 e2)]

/-- The stream without the repeated first samples: strictly sorted, and still a stream of `g`. -/
theorem dedup_stream {Bs : List (ASig β)} {d : Rat} {g : Rat → Option β} (h : StreamOK Bs d g) :
    StreamOK (dedupFrom none Bs) d g ∧ Sorted (dedupFrom none Bs).flatten := by
  obtain ⟨hsh, hv⟩ := h
  have hf := dedup_facts Bs [] none rfl (by unfold Sorted times; exact List.Pairwise.nil) hsh.batch_sorted
    (by rw [List.nil_append]; exact hsh.weak)
  simp only [List.nil_append] at hf
  obtain ⟨hsorted, hmem⟩ := hf
  have hsub := dedupFrom_sublist Bs none
  have hw : Weak (dedupFrom none Bs).flatten := weak_of_sorted hsorted
  have hm : ∀ p, p ∈ (dedupFrom none Bs).flatten ↔ p ∈ Bs.flatten := fun p => ⟨fun hp => hsub.subset hp, hmem p⟩
  have hlast := getLast?_same_mem hw (shape_weak hsh) hm
  have hhead := head?_same_mem hw (shape_weak hsh) hm
  have hcov : ∀ t, Covered (dedupFrom none Bs) d t ↔ Covered Bs d t := by
    intro t
    unfold Covered
    rw [hlast]
  refine ⟨⟨⟨?_, ?_, hw, ?_⟩, ?_⟩, hsorted⟩
  · intro B hB
    exact List.Pairwise.sublist ((List.sublist_flatten_of_mem hB).map _) hsorted
  · intro B hB p hp
    have : p ∈ Bs.flatten := (hm p).1 (List.mem_flatten.2 ⟨B, hB, hp⟩)
    obtain ⟨X, hX, hpX⟩ := List.mem_flatten.1 this
    exact hsh.finite X hX p hpX
  · intro p hp
    rw [hhead] at hp
    exact hsh.start p hp
  · intro t hc
    rw [valAtA_same_mem hw (shape_weak hsh) hm t]
    exact hv t ((hcov t).1 hc)

end TimedWrapAux

open TimedWrapAux

variable {α : Type} [Val α] [LawfulVal α]

/-- `OnceTimedOperation` over an operand stream that starts at 0: no exception; what has been returned so far is
    `-inf` while the window `[t-b, t-a]` lies before 0 and the supremum over the window clipped to `[0, ∞)` afterwards. -/
theorem timedStream_once (a b : Rat) (ha : 0 ≤ a) (hab : a ≤ b) {Bs : List (ASig α)} {g : Rat → Option α}
    (h : StreamOK Bs 0 g) :
    ∃ st outs, runUn (timedUpdate ltW Val.ninf a b) {} Bs = .ok (st, outs) ∧ Shape outs 0 ∧
      ∀ t, Covered outs 0 t →
        (t - a < 0 → valAtA outs.flatten t = some Val.ninf) ∧
        (0 ≤ t - a → ∃ v, valAtA outs.flatten t = some v ∧ IsLUB (valuesOn g (max (t - b) 0) (t - a)) v) := by
  obtain ⟨hok, hstrict⟩ := dedup_stream h
  obtain ⟨st, outs, hr, hrest⟩ := timedStream_once' a b ha hab hok hstrict
  exact ⟨st, outs, by rw [run_eq]; exact hr, hrest⟩

/-- `HistoricallyTimedOperation`. -/
theorem timedStream_hist (a b : Rat) (ha : 0 ≤ a) (hab : a ≤ b) {Bs : List (ASig α)} {g : Rat → Option α}
    (h : StreamOK Bs 0 g) :
    ∃ st outs, runUn (timedUpdate gtW Val.pinf a b) {} Bs = .ok (st, outs) ∧ Shape outs 0 ∧
      ∀ t, Covered outs 0 t →
        (t - a < 0 → valAtA outs.flatten t = some Val.pinf) ∧
        (0 ≤ t - a → ∃ v, valAtA outs.flatten t = some v ∧ IsGLB (valuesOn g (max (t - b) 0) (t - a)) v) := by
  obtain ⟨hok, hstrict⟩ := dedup_stream h
  obtain ⟨st, outs, hr, hrest⟩ := timedStream_hist' a b ha hab hok hstrict
  exact ⟨st, outs, by rw [run_eq]; exact hr, hrest⟩

end Rtamt.Dense.AlgOn
