/-
  Dense time, online (C06): the output loop of the interface-aware `PredicateOperation` (robustness semantics) on a
  stream.  Every batch of differences is thinned by `dedupGoK` on the robustness value (`cmpOfDiff`): a sample is
  dropped only when its robustness equals the one of the sample before it IN THE SAME BATCH (the first and the last of
  a batch always stay), so by `hkey` its `±inf` value equals the value of its predecessor and the step function read off
  the concatenation is the same as the one of the stream mapped sample by sample (`mapStream_ok`).
-/
import RtamtProofs.Dense.OnBasic

namespace Rtamt.Dense.AlgOn
open Rtamt Val Rtamt.Dense.Alg

namespace IAAux
open InterAux BasicAux
attribute [local instance] InterAux.tmOrder

variable {α : Type} [Val α]

/-- The value the interface-aware predicate returns for a difference. -/
def satV (c : Cmp) (d : α) : α := if satOfDiff c d then (Val.pinf : α) else Val.ninf

/-- A sample of differences mapped to the returned sample. -/
def K (c : Cmp) (p : Tm × α) : Tm × α := (p.1, satV c p.2)

theorem K_eq (c : Cmp) (p : Tm × α) : K c p = (p.1, satV c p.2) := rfl

/-- One batch through the output loop (`prev`: the robustness of the previous sample of the batch). -/
def iaB (c : Cmp) (prev : Option α) (d : ASig α) : ASig α :=
  (dedupGoK (fun (x : α × Bool) => x.1) prev (d.map (fun p => (p.1, (cmpOfDiff c p.2, satOfDiff c p.2))))).map
    (fun p => (p.1, if p.2.2 then (Val.pinf : α) else Val.ninf))

theorem iaB_nil (c : Cmp) (prev : Option α) : iaB c prev [] = [] := by
  simp [iaB, dedupGoK]

theorem iaB_one (c : Cmp) (prev : Option α) (p : Tm × α) : iaB c prev [p] = [K c p] := by
  simp [iaB, dedupGoK, K, satV]

theorem iaB_cons2 (c : Cmp) (prev : Option α) (p q : Tm × α) (rest : ASig α) :
    iaB c prev (p :: q :: rest) =
      (if (match prev with | none => true | some x => vne (cmpOfDiff c p.2) x) then [K c p] else []) ++
        iaB c (some (cmpOfDiff c p.2)) (q :: rest) := by
  cases prev with
  | none => simp [iaB, dedupGoK, K, satV]
  | some x =>
    simp only [iaB, List.map_cons, dedupGoK, List.map_append]
    by_cases hk : vne (cmpOfDiff c p.2) x = true
    · rw [if_pos hk, if_pos hk]; rfl
    · rw [if_neg hk, if_neg hk]; rfl

theorem iaB_none_cons (c : Cmp) (p : Tm × α) (rest : ASig α) :
    iaB c none (p :: rest) = K c p :: iaB c (some (cmpOfDiff c p.2)) rest := by
  cases rest with
  | nil => rw [iaB_one, iaB_nil]
  | cons q rest => rw [iaB_cons2]; rfl

theorem iaB_ne_nil (c : Cmp) (prev : Option α) (a : Tm × α) (l : ASig α) : iaB c prev (a :: l) ≠ [] := by
  induction l generalizing prev a with
  | nil => rw [iaB_one]; simp
  | cons b l ih =>
    rw [iaB_cons2]
    intro h
    exact ih _ _ (List.append_eq_nil_iff.1 h).2

theorem iaB_sublist (c : Cmp) (prev : Option α) (d : ASig α) : (iaB c prev d).Sublist (d.map (K c)) := by
  induction d generalizing prev with
  | nil => rw [iaB_nil]; exact List.Sublist.slnil
  | cons a l ih =>
    cases l with
    | nil => rw [iaB_one]; exact List.Sublist.refl _
    | cons b l =>
      rw [iaB_cons2, List.map_cons]
      split_ifs
      · exact (ih _).cons_cons _
      · exact (ih _).cons _

theorem iaB_getLast (c : Cmp) (prev : Option α) (d : ASig α) :
    (iaB c prev d).getLast? = (d.map (K c)).getLast? := by
  induction d generalizing prev with
  | nil => rw [iaB_nil]; rfl
  | cons a l ih =>
    cases l with
    | nil => rw [iaB_one]; rfl
    | cons b l =>
      rw [iaB_cons2, List.map_cons, List.getLast?_append, ih]
      have hne : ((b :: l).map (K c)).getLast? ≠ none := by
        rw [Ne, List.getLast?_eq_none_iff]; simp
      cases hl : ((b :: l).map (K c)).getLast? with
      | none => exact absurd hl hne
      | some z =>
        rw [List.map_cons] at hl
        rw [List.map_cons, List.getLast?_cons_cons, hl]
        rfl

/-- Every stamp of the thinned batch is a stamp of the batch. -/
theorem iaB_mem (c : Cmp) (prev : Option α) (d : ASig α) {o : Tm × α} (ho : o ∈ iaB c prev d) :
    ∃ p ∈ d, o = K c p := by
  have := (iaB_sublist c prev d).subset ho
  obtain ⟨p, hp, e⟩ := List.mem_map.1 this
  exact ⟨p, hp, e.symm⟩

theorem valAtA_append_congr {β : Type} (s r r' : ASig β) (t : Rat) (h : valAtA r t = valAtA r' t) :
    valAtA (s ++ r) t = valAtA (s ++ r') t := by
  induction s with
  | nil => exact h
  | cons a s ih =>
    obtain ⟨τ, v⟩ := a
    simp only [List.cons_append, valAtA_cons, ih]

variable [LawfulVal α]

/-- The thinned batch behind a sample `a` carrying the previous robustness reads like the mapped batch, whatever
    follows. -/
theorem iaB_val (c : Cmp) (hkey : ∀ d d' : α, cmpOfDiff c d = cmpOfDiff c d' → satOfDiff c d = satOfDiff c d')
    (t : Rat) : ∀ (d : ASig α) (a : Tm × α) (r : ASig α), (∀ p ∈ d, a.1 ≤ p.1) →
      d.Pairwise (fun p q => p.1 ≤ q.1) →
      valAtA (K c a :: (iaB c (some (cmpOfDiff c a.2)) d ++ r)) t = valAtA (K c a :: (d.map (K c) ++ r)) t
  | [], a, r, _, _ => by rw [iaB_nil]; rfl
  | [p], a, r, _, _ => by rw [iaB_one]; rfl
  | p :: q :: rest, a, r, h1, hm => by
    obtain ⟨hm1, hm2⟩ := List.pairwise_cons.1 hm
    have ih := iaB_val c hkey t (q :: rest) p r hm1 hm2
    rw [iaB_cons2]
    by_cases hk : vne (cmpOfDiff c p.2) (cmpOfDiff c a.2) = true
    · rw [if_pos hk]
      show valAtA (K c a :: (K c p :: (iaB c (some (cmpOfDiff c p.2)) (q :: rest) ++ r))) t
        = valAtA (K c a :: (K c p :: ((q :: rest).map (K c) ++ r))) t
      rw [K_eq c a, valAtA_cons a.1, valAtA_cons a.1, ih]
    · have hk' : cmpOfDiff c p.2 = cmpOfDiff c a.2 := (vne_eq_false_iff _ _).1 (by simpa using hk)
      have e : satV c p.2 = satV c a.2 := by unfold satV; rw [hkey _ _ hk']
      rw [if_neg hk]
      show valAtA (K c a :: (iaB c (some (cmpOfDiff c p.2)) (q :: rest) ++ r)) t
        = valAtA (K c a :: (K c p :: ((q :: rest).map (K c) ++ r))) t
      rw [K_eq c a, valAtA_cons a.1, valAtA_cons a.1, ← ih]
      by_cases ha : Tm.fin t < a.1
      · rw [if_pos ha, if_pos ha]
      · rw [if_neg ha, if_neg ha, K_eq c p, valAtA_cons p.1]
        by_cases hp : Tm.fin t < p.1
        · rw [if_pos hp]
          have hn : valAtA (iaB c (some (cmpOfDiff c p.2)) (q :: rest) ++ r) t = none := by
            rw [valAtA_eq_none_iff]
            intro o ho
            cases hX : iaB c (some (cmpOfDiff c p.2)) (q :: rest) with
            | nil => exact absurd hX (iaB_ne_nil _ _ _ _)
            | cons x X =>
              rw [hX, List.cons_append, List.head?_cons] at ho
              obtain rfl : x = o := Option.some.inj ho
              have hx : x ∈ iaB c (some (cmpOfDiff c p.2)) (q :: rest) := by rw [hX]; exact List.mem_cons_self
              obtain ⟨p', hp', rfl⟩ := iaB_mem c _ _ hx
              exact lt_of_lt_of_le hp (hm1 p' hp')
          rw [hn]
        · rw [if_neg hp, e]; rfl

/-- The thinned stream reads like the stream mapped sample by sample. -/
theorem iaS_val (c : Cmp) (hkey : ∀ d d' : α, cmpOfDiff c d = cmpOfDiff c d' → satOfDiff c d = satOfDiff c d')
    (t : Rat) : ∀ (Bs : List (ASig α)), (∀ B ∈ Bs, B.Pairwise (fun p q => p.1 ≤ q.1)) →
      valAtA (Bs.map (iaB c none)).flatten t = valAtA (Bs.map (List.map (K c))).flatten t
  | [], _ => rfl
  | B :: rest, h => by
    have ih := iaS_val c hkey t rest (fun X hX => h X (List.mem_cons_of_mem _ hX))
    rw [List.map_cons, List.map_cons, List.flatten_cons, List.flatten_cons]
    cases B with
    | nil => rw [iaB_nil]; exact ih
    | cons p B' =>
      have hB := h (p :: B') List.mem_cons_self
      obtain ⟨hB1, hB2⟩ := List.pairwise_cons.1 hB
      rw [iaB_none_cons, List.cons_append, iaB_val c hkey t B' p _ hB1 hB2, List.map_cons, List.cons_append]
      exact valAtA_append_congr (K c p :: B'.map (K c)) _ _ t ih

omit [LawfulVal α] in
theorem iaS_sublist (c : Cmp) : ∀ (Bs : List (ASig α)),
    ((Bs.map (iaB c none)).flatten).Sublist (Bs.map (List.map (K c))).flatten
  | [] => List.Sublist.slnil
  | B :: rest => by
    rw [List.map_cons, List.map_cons, List.flatten_cons, List.flatten_cons]
    exact List.Sublist.append (iaB_sublist c none B) (iaS_sublist c rest)

omit [LawfulVal α] in
theorem iaS_getLast (c : Cmp) : ∀ (Bs : List (ASig α)),
    ((Bs.map (iaB c none)).flatten).getLast? = ((Bs.map (List.map (K c))).flatten).getLast?
  | [] => rfl
  | B :: rest => by
    rw [List.map_cons, List.map_cons, List.flatten_cons, List.flatten_cons, List.getLast?_append,
      List.getLast?_append, iaS_getLast c rest, iaB_getLast]

omit [LawfulVal α] in
theorem iaS_head (c : Cmp) : ∀ (Bs : List (ASig α)),
    ((Bs.map (iaB c none)).flatten).head? = ((Bs.map (List.map (K c))).flatten).head?
  | [] => rfl
  | B :: rest => by
    rw [List.map_cons, List.map_cons, List.flatten_cons, List.flatten_cons]
    cases B with
    | nil => rw [iaB_nil]; exact iaS_head c rest
    | cons p B' => rw [iaB_none_cons]; rfl

omit [LawfulVal α] in
/-- The thinned stream is well shaped (nothing about the values is needed). -/
theorem iaS_shape (c : Cmp) {Bs : List (ASig α)} {d : Rat} (h : Shape Bs d) : Shape (Bs.map (iaB c none)) d := by
  have hM : Shape (Bs.map (List.map (K c))) d :=
    (mapStream_ok (satV c) (⟨h, fun _ _ => rfl⟩ : StreamOK Bs d (valAtA Bs.flatten))).1
  refine ⟨?_, ?_, ?_, ?_⟩
  · intro o ho
    obtain ⟨B, hB, rfl⟩ := List.mem_map.1 ho
    have hs : Sorted (B.map (K c)) := by
      unfold Sorted
      rw [show times (B.map (K c)) = times B from times_map (satV c) B]
      exact h.batch_sorted B hB
    exact List.Pairwise.sublist ((iaB_sublist c none B).map _) hs
  · intro o ho p hp
    obtain ⟨B, hB, rfl⟩ := List.mem_map.1 ho
    obtain ⟨q, hq, rfl⟩ := iaB_mem c none B hp
    exact h.finite B hB q hq
  · exact Weak.sublist (shape_weak hM) (iaS_sublist c Bs)
  · intro p hp
    rw [iaS_head] at hp
    exact hM.start p hp

omit [LawfulVal α] in
/-- The thinned stream covers the same times (the last sample of every batch stays). -/
theorem iaS_covered (c : Cmp) (Bs : List (ASig α)) (d t : Rat) :
    Covered (Bs.map (iaB c none)) d t ↔ Covered (Bs.map (List.map (K c))) d t := by
  unfold Covered
  rw [iaS_getLast]

end IAAux

open BasicAux InterAux IAAux
attribute [local instance] InterAux.tmOrder

variable {α : Type} [Val α] [LawfulVal α]

/-- The output loop of the interface-aware predicate (`dedupGoK` on the robustness value, then `±inf` by satisfaction) applied
    to every batch of a stream of differences: the returned stream is the satisfaction signal.  `hkey`: equal robustness
    values have equal satisfaction. -/
theorem iaStream_ok (c : Cmp) (hkey : ∀ d d' : α, cmpOfDiff c d = cmpOfDiff c d' → satOfDiff c d = satOfDiff c d')
    {Bs : List (ASig α)} {g : Rat → Option α} (h : StreamOK Bs 0 g) :
    StreamOK (Bs.map (fun d => (dedupGoK (fun (x : α × Bool) => x.1) none
        (d.map (fun p => (p.1, (cmpOfDiff c p.2, satOfDiff c p.2))))).map
          (fun p => (p.1, if p.2.2 then (Val.pinf : α) else Val.ninf)))) 0
      (fun t => (g t).map (fun d => if satOfDiff c d then (Val.pinf : α) else Val.ninf)) := by
  have hM : StreamOK (Bs.map (List.map (K c))) 0 (fun t => (g t).map (satV c)) := mapStream_ok (satV c) h
  show StreamOK (Bs.map (iaB c none)) 0 (fun t => (g t).map (satV c))
  refine ⟨iaS_shape c h.1, fun t hc => ?_⟩
  have hc' := (iaS_covered c Bs 0 t).1 hc
  rw [← hM.2 t hc']
  apply iaS_val c hkey t Bs
  intro B hB
  exact (weak_of_sorted (h.1.batch_sorted B hB)).mono

omit [LawfulVal α] in
/-- … its shape needs nothing about the values (no `hkey`). -/
theorem iaStream_shape (c : Cmp) {Bs : List (ASig α)} (h : Shape Bs 0) :
    Shape (Bs.map (fun d => (dedupGoK (fun (x : α × Bool) => x.1) none
        (d.map (fun p => (p.1, (cmpOfDiff c p.2, satOfDiff c p.2))))).map
          (fun p => (p.1, if p.2.2 then (Val.pinf : α) else Val.ninf)))) 0 :=
  iaS_shape c h

end Rtamt.Dense.AlgOn
