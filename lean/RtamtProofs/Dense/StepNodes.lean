/-
  Helper lemmas for RtamtProofs/Dense/Step.lean (part 2): one lemma per node class —
  if the operands are step functions then so is the result, with the candidate break-points
  of `bps`.
-/
import RtamtProofs.Dense.StepBasic

set_option linter.unusedSectionVars false

namespace Rtamt.Dense
open Rtamt Val

variable {α : Type} [Val α] [LawfulVal α]

/-- `foldWin f init` depends only on the set of values on the window. -/
def WinOp (f : α → α → α) (init : α) : Prop :=
  ∀ (g g' : Rat → Option α) (B B' : List Rat) (lo lo' : Rat) (hi hi' : Option Rat),
    StepOn g B lo hi → leHi lo hi → StepOn g' B' lo' hi' → leHi lo' hi' →
    winSet g lo hi = winSet g' lo' hi' → foldWin f init g B lo hi = foldWin f init g' B' lo' hi'

theorem winOp_max : WinOp (pmax : α → α → α) ninf :=
  fun _ _ _ _ _ _ _ _ h1 h2 h3 h4 h5 => foldWin_max_eq_of_winSet_eq h1 h2 h3 h4 h5

theorem winOp_min : WinOp (pmin : α → α → α) pinf :=
  fun _ _ _ _ _ _ _ _ h1 h2 h3 h4 h5 => foldWin_min_eq_of_winSet_eq h1 h2 h3 h4 h5

theorem foldWin_isSome (f : α → α → α) (init : α) {g : Rat → Option α} {B : List Rat} {lo : Rat}
    {hi : Option Rat} (hg : StepOn g B lo hi) (hne : leHi lo hi) :
    (foldWin f init g B lo hi).isSome = true := by
  rw [foldWin_some hg hne]; rfl

theorem WinOp.some {f : α → α → α} {init : α} (hf : WinOp f init) {g g' : Rat → Option α}
    {B B' : List Rat} {lo lo' h h' : Rat} (hg : StepOn g B lo (some h)) (hne : lo ≤ h)
    (hg' : StepOn g' B' lo' (some h')) (hne' : lo' ≤ h')
    (hw : winSet g lo (some h) = winSet g' lo' (some h')) :
    foldWin f init g B lo (some h) = foldWin f init g' B' lo' (some h') :=
  hf _ _ _ _ _ _ _ _ hg hne hg' hne' hw

theorem foldWin_max_eq_some {g g' : Rat → Option α}
    {B B' : List Rat} {lo lo' h h' : Rat} (hg : StepOn g B lo (some h)) (hne : lo ≤ h)
    (hg' : StepOn g' B' lo' (some h')) (hne' : lo' ≤ h')
    (hw : winSet g lo (some h) = winSet g' lo' (some h')) :
    foldWin pmax ninf g B lo (some h) = foldWin pmax ninf g' B' lo' (some h') :=
  foldWin_max_eq_of_winSet_eq hg hne hg' hne' hw

theorem foldWin_min_eq_some {g g' : Rat → Option α}
    {B B' : List Rat} {lo lo' h h' : Rat} (hg : StepOn g B lo (some h)) (hne : lo ≤ h)
    (hg' : StepOn g' B' lo' (some h')) (hne' : lo' ≤ h')
    (hw : winSet g lo (some h) = winSet g' lo' (some h')) :
    foldWin pmin pinf g B lo (some h) = foldWin pmin pinf g' B' lo' (some h') :=
  foldWin_min_eq_of_winSet_eq hg hne hg' hne' hw

/-! ### point-wise nodes -/

theorem stepOn_un {g : Rat → Option α} {B : List Rat} {d : Rat} (u : α → α)
    (hg : StepOn g B d none) : StepOn (fun t => (g t).map u) B d none := by
  refine ⟨fun s h1 h2 => ?_, fun s s' h1 h2 h3 h4 => ?_⟩
  · simp [hg.1 s h1 h2]
  · show (g s').map u = (g s).map u
    rw [hg.2 s s' h1 h2 h3 h4]

theorem stepOn_bin {g1 g2 : Rat → Option α} {B1 B2 : List Rat} {d1 d2 : Rat} (f : α → α → α)
    (h1 : StepOn g1 B1 d1 none) (h2 : StepOn g2 B2 d2 none) :
    StepOn (fun t => do
      let l ← g1 t
      let r ← g2 t
      pure (f l r)) (B1 ++ B2) (max d1 d2) none := by
  refine ⟨fun s k1 _ => ?_, fun s s' k1 k2 _ k4 => ?_⟩
  · obtain ⟨x, hx⟩ := Option.isSome_iff_exists.1 (h1.1 s (le_trans (le_max_left _ _) k1) trivial)
    obtain ⟨y, hy⟩ := Option.isSome_iff_exists.1 (h2.1 s (le_trans (le_max_right _ _) k1) trivial)
    simp [hx, hy]
  · have e1 : g1 s' = g1 s := h1.2 s s' (le_trans (le_max_left _ _) k1) k2 trivial
      (fun b hb => k4 b (List.mem_append_left _ hb))
    have e2 : g2 s' = g2 s := h2.2 s s' (le_trans (le_max_right _ _) k1) k2 trivial
      (fun b hb => k4 b (List.mem_append_right _ hb))
    simp only [e1, e2]

/-! ### unbounded unary temporal nodes -/

theorem stepOn_past {f : α → α → α} {init : α} (hf : WinOp f init) {g : Rat → Option α}
    {B : List Rat} {d : Rat} (hg : StepOn g B d none) :
    StepOn (fun t => if t < d then none else foldWin f init g B d (some t)) B d none := by
  refine ⟨fun s k1 _ => ?_, fun s s' k1 k2 _ k4 => ?_⟩
  · simp only [if_neg (not_lt.2 k1)]
    exact foldWin_isSome f init (hg.restrict le_rfl _) k1
  · simp only [if_neg (not_lt.2 k1), if_neg (not_lt.2 (le_trans k1 k2))]
    apply hf.some (hg.restrict le_rfl _) (le_trans k1 k2) (hg.restrict le_rfl _) k1
    exact (winSet_shift_some (hg.restrict le_rfl _) le_rfl k1 (le_trans k1 k2) k2
      (fun b _ h => absurd h.1 (not_lt.2 h.2)) k4).symm

theorem stepOn_future {f : α → α → α} {init : α} (hf : WinOp f init) {g : Rat → Option α}
    {B : List Rat} {d : Rat} (hg : StepOn g B d none) :
    StepOn (fun t => if t < d then none else foldWin f init g B t none) B d none := by
  refine ⟨fun s k1 _ => ?_, fun s s' k1 k2 _ k4 => ?_⟩
  · simp only [if_neg (not_lt.2 k1)]
    exact foldWin_isSome f init (hg.mono_lo k1) trivial
  · simp only [if_neg (not_lt.2 k1), if_neg (not_lt.2 (le_trans k1 k2))]
    apply hf _ _ _ _ _ _ _ _ (hg.mono_lo (le_trans k1 k2)) trivial (hg.mono_lo k1) trivial
    exact (winSet_shift_none (hg.mono_lo k1) k2 k4).symm

/-! ### bounded unary temporal nodes -/

theorem stepOn_tb_past {f : α → α → α} {init : α} (hf : WinOp f init) {g : Rat → Option α}
    {B : List Rat} {d : Rat} (hg : StepOn g B d none) {a' b' : Rat} (hab : a' ≤ b')
    {C : List Rat} (hCa : ∀ c ∈ d :: B, c + a' ∈ C) (hCb : ∀ c ∈ d :: B, c + b' ∈ C) :
    StepOn (fun t => if t < d then none else
        if t - a' < d then some init
        else foldWin f init g B (max (t - b') d) (some (t - a'))) C d none := by
  refine ⟨fun s k1 _ => ?_, fun s s' k1 k2 _ k4 => ?_⟩
  · simp only [if_neg (not_lt.2 k1)]
    by_cases h : s - a' < d
    · rw [if_pos h]; rfl
    · rw [if_neg h]
      exact foldWin_isSome f init (hg.restrict (le_max_right _ _) _)
        (max_le (by linarith) (not_lt.1 h))
  · simp only [if_neg (not_lt.2 k1), if_neg (not_lt.2 (le_trans k1 k2))]
    by_cases h' : s' - a' < d
    · have h : s - a' < d := by linarith
      rw [if_pos h', if_pos h]
    · have h'' : d ≤ s' - a' := not_lt.1 h'
      have h : ¬ s - a' < d := fun hh =>
        k4 (d + a') (hCa d (List.mem_cons_self ..)) ⟨by linarith, by linarith⟩
      have h3 : d ≤ s - a' := not_lt.1 h
      rw [if_neg h', if_neg h]
      apply hf.some (hg.restrict (le_max_right _ _) _)
        (max_le (by linarith) h'' : max (s' - b') d ≤ s' - a')
        (hg.restrict (le_max_right _ _) _) (max_le (by linarith) h3 : max (s - b') d ≤ s - a')
      symm
      apply winSet_shift_some (hg.restrict (le_max_right _ _) _)
        (max_le_max (by linarith) le_rfl) (max_le (by linarith) h3) (max_le (by linarith) h'')
        (by linarith)
      · rintro b hb ⟨x, y⟩
        have hd : d < b := lt_of_le_of_lt (le_max_right _ _) x
        have hx : s - b' < b := lt_of_le_of_lt (le_max_left _ _) x
        have hy : b ≤ s' - b' := by
          rcases le_max_iff.1 y with y | y
          · exact y
          · exact absurd y (not_le.2 hd)
        exact k4 (b + b') (hCb b (List.mem_cons_of_mem _ hb)) ⟨by linarith, by linarith⟩
      · rintro b hb ⟨x, y⟩
        exact k4 (b + a') (hCa b (List.mem_cons_of_mem _ hb)) ⟨by linarith, by linarith⟩

theorem stepOn_tb_future {f : α → α → α} {init : α} (hf : WinOp f init) {g : Rat → Option α}
    {B : List Rat} {d : Rat} (hg : StepOn g B d none) {a' b' : Rat} (ha : 0 ≤ a') (hab : a' ≤ b')
    {C : List Rat} (hCa : ∀ c ∈ B, c - a' ∈ C) (hCb : ∀ c ∈ B, c - b' ∈ C) :
    StepOn (fun t => if t < d then none else
        foldWin f init g B (t + a') (some (t + b'))) C d none := by
  refine ⟨fun s k1 _ => ?_, fun s s' k1 k2 _ k4 => ?_⟩
  · simp only [if_neg (not_lt.2 k1)]
    exact foldWin_isSome f init (hg.restrict (by linarith) _) (by linarith : s + a' ≤ s + b')
  · simp only [if_neg (not_lt.2 k1), if_neg (not_lt.2 (le_trans k1 k2))]
    apply hf.some (hg.restrict (by linarith) _) (by linarith : s' + a' ≤ s' + b')
        (hg.restrict (by linarith) _) (by linarith : s + a' ≤ s + b')
    symm
    apply winSet_shift_some (hg.restrict (by linarith) _)
      (by linarith) (by linarith) (by linarith) (by linarith)
    · rintro b hb ⟨x, y⟩
      exact k4 (b - a') (hCa b hb) ⟨by linarith, by linarith⟩
    · rintro b hb ⟨x, y⟩
      exact k4 (b - b') (hCb b hb) ⟨by linarith, by linarith⟩

/-! ### since / until -/

/-- `t' ↦ min(ψ(t'), inf_{[t', t]} φ)` -/
def sinceInner (g1 g2 : Rat → Option α) (B1 : List Rat) (t : Rat) : Rat → Option α :=
  fun t' => do
    let r ← g2 t'
    let l ← foldWin pmin pinf g1 B1 t' (some t)
    pure (pmin l r)

/-- `t' ↦ min(ψ(t'), inf_{[t, t']} φ)` -/
def untilInner (g1 g2 : Rat → Option α) (B1 : List Rat) (t : Rat) : Rat → Option α :=
  fun t' => do
    let r ← g2 t'
    let l ← foldWin pmin pinf g1 B1 t (some t')
    pure (pmin l r)

theorem sinceInner_stepOn {g1 g2 : Rat → Option α} {B1 B2 : List Rat} {d1 d2 : Rat}
    (h1 : StepOn g1 B1 d1 none) (h2 : StepOn g2 B2 d2 none) (t : Rat) :
    StepOn (sinceInner g1 g2 B1 t) (B1 ++ B2) (max d1 d2) (some t) := by
  refine ⟨fun s k1 k2 => ?_, fun s s' k1 k2 k3 k4 => ?_⟩
  · have k1' : d1 ≤ s := le_trans (le_max_left _ _) k1
    obtain ⟨y, hy⟩ := Option.isSome_iff_exists.1 (h2.1 s (le_trans (le_max_right _ _) k1) trivial)
    obtain ⟨x, hx⟩ := Option.isSome_iff_exists.1
      (foldWin_isSome pmin pinf (h1.restrict k1' (some t)) k2)
    simp [sinceInner, hx, hy]
  · have k1' : d1 ≤ s := le_trans (le_max_left _ _) k1
    have k3' : s' ≤ t := k3
    have e2 : g2 s' = g2 s := h2.2 s s' (le_trans (le_max_right _ _) k1) k2 trivial
      (fun b hb => k4 b (List.mem_append_right _ hb))
    have e1 : foldWin pmin pinf g1 B1 s' (some t) = foldWin pmin pinf g1 B1 s (some t) := by
      apply foldWin_min_eq_some (h1.restrict (le_trans k1' k2) _) k3'
        (h1.restrict k1' _) (le_trans k2 k3' : s ≤ t)
      exact (winSet_shift_some (h1.restrict k1' _) k2 (le_trans k2 k3') k3' le_rfl
        (fun b hb => k4 b (List.mem_append_left _ hb))
        (fun b _ h => absurd h.1 (not_lt.2 h.2))).symm
    simp only [sinceInner, e1, e2]

theorem sinceInner_shift {g1 : Rat → Option α} (g2 : Rat → Option α) {B1 : List Rat} {d1 : Rat}
    (h1 : StepOn g1 B1 d1 none) {t t2 s : Rat} (hs : d1 ≤ s) (hst : s ≤ t) (htt : t ≤ t2)
    (hno : ∀ b ∈ B1, ¬ (t < b ∧ b ≤ t2)) :
    sinceInner g1 g2 B1 t2 s = sinceInner g1 g2 B1 t s := by
  have e : foldWin pmin pinf g1 B1 s (some t2) = foldWin pmin pinf g1 B1 s (some t) := by
    apply foldWin_min_eq_some (h1.restrict hs _) (le_trans hst htt : s ≤ t2)
      (h1.restrict hs _) hst
    exact (winSet_shift_some (h1.restrict hs _) le_rfl hst (le_trans hst htt) htt
      (fun b _ h => absurd h.1 (not_lt.2 h.2)) hno).symm
  simp only [sinceInner, e]

theorem untilInner_stepOn {g1 g2 : Rat → Option α} {B1 B2 : List Rat} {d1 d2 : Rat}
    (h1 : StepOn g1 B1 d1 none) (h2 : StepOn g2 B2 d2 none) {t : Rat} (ht : max d1 d2 ≤ t) :
    StepOn (untilInner g1 g2 B1 t) (B1 ++ B2) t none := by
  have t1 : d1 ≤ t := le_trans (le_max_left _ _) ht
  have t2 : d2 ≤ t := le_trans (le_max_right _ _) ht
  refine ⟨fun s k1 _ => ?_, fun s s' k1 k2 _ k4 => ?_⟩
  · obtain ⟨y, hy⟩ := Option.isSome_iff_exists.1 (h2.1 s (le_trans t2 k1) trivial)
    obtain ⟨x, hx⟩ := Option.isSome_iff_exists.1
      (foldWin_isSome pmin pinf (h1.restrict t1 (some s)) k1)
    simp [untilInner, hx, hy]
  · have e2 : g2 s' = g2 s := h2.2 s s' (le_trans t2 k1) k2 trivial
      (fun b hb => k4 b (List.mem_append_right _ hb))
    have e1 : foldWin pmin pinf g1 B1 t (some s') = foldWin pmin pinf g1 B1 t (some s) := by
      apply foldWin_min_eq_some (h1.restrict t1 _) (le_trans k1 k2 : t ≤ s')
        (h1.restrict t1 _) k1
      exact (winSet_shift_some (h1.restrict t1 _) le_rfl k1 (le_trans k1 k2) k2
        (fun b _ h => absurd h.1 (not_lt.2 h.2))
        (fun b hb => k4 b (List.mem_append_left _ hb))).symm
    simp only [untilInner, e1, e2]

theorem untilInner_shift {g1 : Rat → Option α} (g2 : Rat → Option α) {B1 : List Rat} {d1 : Rat}
    (h1 : StepOn g1 B1 d1 none) {t t2 s : Rat} (hd : d1 ≤ t) (htt : t ≤ t2) (hs : t2 ≤ s)
    (hno : ∀ b ∈ B1, ¬ (t < b ∧ b ≤ t2)) :
    untilInner g1 g2 B1 t2 s = untilInner g1 g2 B1 t s := by
  have e : foldWin pmin pinf g1 B1 t2 (some s) = foldWin pmin pinf g1 B1 t (some s) := by
    apply foldWin_min_eq_some (h1.restrict (le_trans hd htt) _) hs
      (h1.restrict hd _) (le_trans htt hs : t ≤ s)
    exact (winSet_shift_some (h1.restrict hd _) htt (le_trans htt hs) hs le_rfl hno
      (fun b _ h => absurd h.1 (not_lt.2 h.2))).symm
  simp only [untilInner, e]

theorem stepOn_since {g1 g2 : Rat → Option α} {B1 B2 : List Rat} {d1 d2 : Rat}
    (h1 : StepOn g1 B1 d1 none) (h2 : StepOn g2 B2 d2 none) :
    StepOn (fun t => if t < max d1 d2 then none else
        foldWin pmax ninf (sinceInner g1 g2 B1 t) (B1 ++ B2) (max d1 d2) (some t))
      (B1 ++ B2) (max d1 d2) none := by
  refine ⟨fun s k1 _ => ?_, fun s s' k1 k2 _ k4 => ?_⟩
  · simp only [if_neg (not_lt.2 k1)]
    exact foldWin_isSome pmax ninf (sinceInner_stepOn h1 h2 s) k1
  · simp only [if_neg (not_lt.2 k1), if_neg (not_lt.2 (le_trans k1 k2))]
    apply foldWin_max_eq_some (sinceInner_stepOn h1 h2 s') (le_trans k1 k2)
      (sinceInner_stepOn h1 h2 s) k1
    refine Eq.trans (winSet_shift_some (sinceInner_stepOn h1 h2 s') le_rfl k1 (le_trans k1 k2) k2
      (fun b _ h => absurd h.1 (not_lt.2 h.2)) k4).symm ?_
    apply winSet_congr
    intro x hx1 hx2
    exact sinceInner_shift g2 h1 (le_trans (le_max_left _ _) hx1) hx2 k2
      (fun b hb => k4 b (List.mem_append_left _ hb))

theorem stepOn_until {g1 g2 : Rat → Option α} {B1 B2 : List Rat} {d1 d2 : Rat}
    (h1 : StepOn g1 B1 d1 none) (h2 : StepOn g2 B2 d2 none) :
    StepOn (fun t => if t < max d1 d2 then none else
        foldWin pmax ninf (untilInner g1 g2 B1 t) (B1 ++ B2) t none)
      (B1 ++ B2) (max d1 d2) none := by
  refine ⟨fun s k1 _ => ?_, fun s s' k1 k2 _ k4 => ?_⟩
  · simp only [if_neg (not_lt.2 k1)]
    exact foldWin_isSome pmax ninf (untilInner_stepOn h1 h2 k1) trivial
  · have k1' := le_trans k1 k2
    simp only [if_neg (not_lt.2 k1), if_neg (not_lt.2 k1')]
    apply foldWin_max_eq_of_winSet_eq (untilInner_stepOn h1 h2 k1') trivial
      (untilInner_stepOn h1 h2 k1) trivial
    refine Eq.trans ?_ (winSet_shift_none (untilInner_stepOn h1 h2 k1) k2 k4).symm
    apply winSet_congr
    intro x hx1 _
    exact untilInner_shift g2 h1 (le_trans (le_max_left _ _) k1) k2 hx1
      (fun b hb => k4 b (List.mem_append_left _ hb))

theorem stepOn_tb_since {g1 g2 : Rat → Option α} {B1 B2 : List Rat} {d1 d2 : Rat}
    (h1 : StepOn g1 B1 d1 none) (h2 : StepOn g2 B2 d2 none) {a' b' : Rat} (ha : 0 ≤ a')
    (hab : a' ≤ b') {C : List Rat} (hC : ∀ c ∈ B1 ++ B2, c ∈ C)
    (hCa : ∀ c ∈ max d1 d2 :: (B1 ++ B2), c + a' ∈ C)
    (hCb : ∀ c ∈ max d1 d2 :: (B1 ++ B2), c + b' ∈ C) :
    StepOn (fun t => if t < max d1 d2 then none else
        if t - a' < max d1 d2 then some ninf
        else foldWin pmax ninf (sinceInner g1 g2 B1 t) (B1 ++ B2) (max (t - b') (max d1 d2))
          (some (t - a'))) C (max d1 d2) none := by
  have hres : ∀ t lo hi : Rat, max d1 d2 ≤ lo → hi ≤ t →
      StepOn (sinceInner g1 g2 B1 t) (B1 ++ B2) lo (some hi) := fun t lo hi hlo hhi =>
    (sinceInner_stepOn h1 h2 t).mono hlo (fun s (hs : s ≤ hi) => (le_trans hs hhi : s ≤ t))
      (fun _ h => h)
  refine ⟨fun s k1 _ => ?_, fun s s' k1 k2 _ k4 => ?_⟩
  · simp only [if_neg (not_lt.2 k1)]
    by_cases h : s - a' < max d1 d2
    · rw [if_pos h]; rfl
    · rw [if_neg h]
      exact foldWin_isSome pmax ninf (hres s _ _ (le_max_right _ _) (by linarith))
        (max_le (by linarith) (not_lt.1 h))
  · simp only [if_neg (not_lt.2 k1), if_neg (not_lt.2 (le_trans k1 k2))]
    by_cases h' : s' - a' < max d1 d2
    · have h : s - a' < max d1 d2 := by linarith
      rw [if_pos h', if_pos h]
    · have h'' : max d1 d2 ≤ s' - a' := not_lt.1 h'
      have h : ¬ s - a' < max d1 d2 := fun hh =>
        k4 (max d1 d2 + a') (hCa _ (List.mem_cons_self ..)) ⟨by linarith, by linarith⟩
      have h3 : max d1 d2 ≤ s - a' := not_lt.1 h
      rw [if_neg h', if_neg h]
      apply foldWin_max_eq_some (hres s' _ _ (le_max_right _ _) (by linarith))
        (max_le (by linarith) h'' : max (s' - b') (max d1 d2) ≤ s' - a')
        (hres s _ _ (le_max_right _ _) (by linarith))
        (max_le (by linarith) h3 : max (s - b') (max d1 d2) ≤ s - a')
      refine Eq.trans (winSet_shift_some (B := B1 ++ B2) (lo := max (s - b') (max d1 d2))
        (h := s - a') (lo' := max (s' - b') (max d1 d2)) (h' := s' - a') (hres s' _ _ (le_max_right _ _) (by linarith))
        (max_le_max (by linarith) le_rfl) (max_le (by linarith) h3) (max_le (by linarith) h'')
        (by linarith) ?_ ?_).symm ?_
      · rintro b hb ⟨x, y⟩
        have hd : max d1 d2 < b := lt_of_le_of_lt (le_max_right _ _) x
        have hx : s - b' < b := lt_of_le_of_lt (le_max_left _ _) x
        have hy : b ≤ s' - b' := by
          rcases le_max_iff.1 y with y | y
          · exact y
          · exact absurd y (not_le.2 hd)
        exact k4 (b + b') (hCb b (List.mem_cons_of_mem _ hb)) ⟨by linarith, by linarith⟩
      · rintro b hb ⟨x, y⟩
        exact k4 (b + a') (hCa b (List.mem_cons_of_mem _ hb)) ⟨by linarith, by linarith⟩
      · apply winSet_congr
        intro x hx1 hx2
        have hx2' : x ≤ s - a' := hx2
        exact sinceInner_shift g2 h1
          (le_trans (le_max_left _ _) (le_trans (le_max_right _ _) hx1)) (by linarith) k2
          (fun b hb => k4 b (hC b (List.mem_append_left _ hb)))

theorem stepOn_tb_until {g1 g2 : Rat → Option α} {B1 B2 : List Rat} {d1 d2 : Rat}
    (h1 : StepOn g1 B1 d1 none) (h2 : StepOn g2 B2 d2 none) {a' b' : Rat} (ha : 0 ≤ a')
    (hab : a' ≤ b') {C : List Rat} (hC : ∀ c ∈ B1 ++ B2, c ∈ C)
    (hCa : ∀ c ∈ B1 ++ B2, c - a' ∈ C) (hCb : ∀ c ∈ B1 ++ B2, c - b' ∈ C) :
    StepOn (fun t => if t < max d1 d2 then none else
        foldWin pmax ninf (untilInner g1 g2 B1 t) (B1 ++ B2) (t + a') (some (t + b')))
      C (max d1 d2) none := by
  have hres : ∀ t lo hi : Rat, max d1 d2 ≤ t → t ≤ lo →
      StepOn (untilInner g1 g2 B1 t) (B1 ++ B2) lo (some hi) := fun t lo hi ht hlo =>
    (untilInner_stepOn h1 h2 ht).restrict hlo _
  refine ⟨fun s k1 _ => ?_, fun s s' k1 k2 _ k4 => ?_⟩
  · simp only [if_neg (not_lt.2 k1)]
    exact foldWin_isSome pmax ninf (hres s _ _ k1 (by linarith)) (by linarith : s + a' ≤ s + b')
  · have k1' := le_trans k1 k2
    simp only [if_neg (not_lt.2 k1), if_neg (not_lt.2 k1')]
    apply foldWin_max_eq_some (hres s' _ _ k1' (by linarith))
      (by linarith : s' + a' ≤ s' + b') (hres s _ _ k1 (by linarith))
      (by linarith : s + a' ≤ s + b')
    refine Eq.trans ?_ (winSet_shift_some (B := B1 ++ B2) (lo := s + a') (h := s + b')
      (lo' := s' + a') (h' := s' + b') (hres s _ _ k1 (by linarith)) (by linarith) (by linarith) (by linarith) (by linarith)
      ?_ ?_).symm
    · apply winSet_congr
      intro x hx1 _
      exact untilInner_shift g2 h1 (le_trans (le_max_left _ _) k1) k2 (by linarith)
        (fun b hb => k4 b (hC b (List.mem_append_left _ hb)))
    · rintro b hb ⟨x, y⟩
      exact k4 (b - a') (hCa b hb) ⟨by linarith, by linarith⟩
    · rintro b hb ⟨x, y⟩
      exact k4 (b - b') (hCb b hb) ⟨by linarith, by linarith⟩

end Rtamt.Dense
