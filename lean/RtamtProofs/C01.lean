/-
  C01 — Discrete-time offline robustness equals the STL quantitative semantics.

  "For every well-formed STL specification … and every discrete-time trace of
   length >= 1, offline evaluate() returns exactly one [timestamp, value] pair per
   input sample and the value at sample t is rho(phi,w,t) … The result depends only
   on the specification and the sample values, never on the numeric time-stamps."
-/
import RtamtProofs.Lemmas.OffScan
import RtamtProofs.Lemmas.OffTimed1
import RtamtProofs.Lemmas.OffTimed2
import Rtamt.Generated

namespace Rtamt
open Val

variable {α : Type} [Val α] [LawfulVal α]

/-- The data set supplies, for every variable of the formula, a list of `n` samples
    whose `t`-th element is `σ x t`. -/
def Env.Agrees (w : Env α) (σ : String → Nat → α) (n : Nat) (xs : List String) : Prop :=
  ∀ x ∈ xs, w.lookup x = some (tab n (σ x))

/-- `TimedPrecedes` exists only as the output of the pastifier; the offline visitor raises on it. -/
def F.noPrecedes (φ : F α) : Prop := Kind.TimedPrecedes ∉ φ.kinds

/-- Main theorem: the mirror of the offline visitor computes the README semantics,
    for every formula whose node classes the visitor overrides (`h`), every trace
    length `n ≥ 1` and every data set. -/
theorem C01_offline_eq_rho (h : Kind → Bool) (w : Env α) (σ : String → Nat → α) (n : Nat)
    (hn : 0 < n) (φ : F α) (hwf : φ.wf = true) (hh : ∀ k ∈ φ.kinds, h k = true)
    (hp : φ.noPrecedes) (hw : w.Agrees σ n φ.vars) :
    evalOff h w n φ = .ok (tab n (rho σ n φ)) := by
  induction φ with
  | var x =>
    have hv : h .Variable = true := hh _ (by simp [F.kinds])
    have := hw x (by simp [F.vars])
    simp [evalOff, hv, Env.get, this, rho]
  | const c =>
    have hv : h .Constant = true := hh _ (by simp [F.kinds])
    simp [evalOff, hv, rho, replicate_tab]
  | un op φ ih =>
    have hk : h op.kind = true := hh _ (by simp [F.kinds])
    have ih' := ih (by simpa [F.wf] using hwf) (fun k hk' => hh k (by simp [F.kinds, hk']))
      (by intro hc; exact hp (by simp [F.kinds, hc])) (by simpa [F.vars] using hw)
    simp [evalOff, ih', hk, rho, map_tab, bind, Except.bind, pure, Except.pure]
  | bin op φ ψ ih1 ih2 =>
    have hk : h op.kind = true := hh _ (by simp [F.kinds])
    simp only [F.wf, Bool.and_eq_true] at hwf
    have ih1' := ih1 hwf.1 (fun k hk' => hh k (by simp [F.kinds, hk']))
      (by intro hc; exact hp (by simp [F.kinds, hc]))
      (fun x hx => hw x (by simp [F.vars, hx]))
    have ih2' := ih2 hwf.2 (fun k hk' => hh k (by simp [F.kinds, hk']))
      (by intro hc; exact hp (by simp [F.kinds, hc]))
      (fun x hx => hw x (by simp [F.vars, hx]))
    cases op <;>
      simp [evalOff, ih1', ih2', hk, rho, zipWith_tab, loop2, bind, Except.bind, pure, Except.pure]
  | tmp1 op φ ih =>
    have hk : h op.kind = true := hh _ (by simp [F.kinds])
    have ih' := ih (by simpa [F.wf] using hwf) (fun k hk' => hh k (by simp [F.kinds, hk']))
      (by intro hc; exact hp (by simp [F.kinds, hc])) (by simpa [F.vars] using hw)
    cases op <;>
      simp only [evalOff, ih', hk, rho, bind, Except.bind, pure, Except.pure, if_true,
        rise_tab, fall_tab, shiftFwd_tab, next_tab _ _ hn, scanFwd_once, scanFwd_hist,
        scanRev_ev, scanRev_alw]
  | tmp2 op φ ψ ih1 ih2 =>
    have hk : h op.kind = true := hh _ (by simp [F.kinds])
    simp only [F.wf, Bool.and_eq_true] at hwf
    have ih1' := ih1 hwf.1 (fun k hk' => hh k (by simp [F.kinds, hk']))
      (by intro hc; exact hp (by simp [F.kinds, hc]))
      (fun x hx => hw x (by simp [F.vars, hx]))
    have ih2' := ih2 hwf.2 (fun k hk' => hh k (by simp [F.kinds, hk']))
      (by intro hc; exact hp (by simp [F.kinds, hc]))
      (fun x hx => hw x (by simp [F.vars, hx]))
    cases op <;>
      simp [evalOff, ih1', ih2', hk, rho, scan2_since, scan2_until, bind, Except.bind, pure, Except.pure]
  | tb1 op a b φ ih =>
    have hk : h op.kind = true := hh _ (by simp [F.kinds])
    simp only [F.wf, Bool.and_eq_true, decide_eq_true_eq] at hwf
    have ih' := ih hwf.2 (fun k hk' => hh k (by simp [F.kinds, hk']))
      (by intro hc; exact hp (by simp [F.kinds, hc])) (by simpa [F.vars] using hw)
    cases op <;>
      simp [evalOff, ih', hk, hwf.1, rho, timedPast_once, timedPast_hist, timedFuture_ev,
        timedFuture_alw, bind, Except.bind]
  | tb2 op a b φ ψ ih1 ih2 =>
    have hk : h op.kind = true := hh _ (by simp [F.kinds])
    simp only [F.wf, Bool.and_eq_true, decide_eq_true_eq] at hwf
    have ih1' := ih1 hwf.1.2 (fun k hk' => hh k (by simp [F.kinds, hk']))
      (by intro hc; exact hp (by simp [F.kinds, hc]))
      (fun x hx => hw x (by simp [F.vars, hx]))
    have ih2' := ih2 hwf.2 (fun k hk' => hh k (by simp [F.kinds, hk']))
      (by intro hc; exact hp (by simp [F.kinds, hc]))
      (fun x hx => hw x (by simp [F.vars, hx]))
    cases op with
    | since =>
      simp [evalOff, ih1', ih2', hk, hwf.1.1, rho, sinceLoop_since, bind, Except.bind]
    | «until» =>
      have := sinceLoop_until a b hwf.1.1 n (rho σ n φ) (rho σ n ψ)
      simp only [bind, Except.bind, pure, Except.pure] at this
      simp [evalOff, ih1', ih2', hk, hwf.1.1, rho, bind, Except.bind, pure, Except.pure, this]
    | precedes => exact absurd (by simp [F.kinds, TB2.kind]) hp

/-! ### The interpreter's `evaluate`: one pair per sample, time-stamps only echoed -/

theorem C01_evaluate {τ : Type} (h : Kind → Bool) (w : Env α) (σ : String → Nat → α)
    (time : List τ) (hn : 0 < time.length) (φ : F α) (hwf : φ.wf = true)
    (hh : ∀ k ∈ φ.kinds, h k = true) (hp : φ.noPrecedes) (hw : w.Agrees σ time.length φ.vars) :
    evaluateOff h φ time w = .ok (time.zip (tab time.length (rho σ time.length φ))) := by
  simp [evaluateOff, C01_offline_eq_rho h w σ time.length hn φ hwf hh hp hw, bind, Except.bind,
    pure, Except.pure]

/-- Exactly one `[timestamp, value]` pair per input sample, the `t`-th being `(time[t], rho φ w t)`. -/
theorem C01_one_pair_per_sample {τ : Type} (h : Kind → Bool) (w : Env α) (σ : String → Nat → α)
    (time : List τ) (hn : 0 < time.length) (φ : F α) (hwf : φ.wf = true)
    (hh : ∀ k ∈ φ.kinds, h k = true) (hp : φ.noPrecedes) (hw : w.Agrees σ time.length φ.vars) :
    ∃ out, evaluateOff h φ time w = .ok out ∧ out.length = time.length ∧
      ∀ t (ht : t < time.length), out[t]? = some (time[t], rho σ time.length φ t) := by
  refine ⟨_, C01_evaluate h w σ time hn φ hwf hh hp hw, by simp, ?_⟩
  intro t ht
  simp [ht, tab_getElem]

/-- The values do not depend on the time column: two time columns of the same length give
    the same robustness values. -/
theorem C01_time_independent {τ τ' : Type} (h : Kind → Bool) (w : Env α) (σ : String → Nat → α)
    (time : List τ) (time' : List τ') (hlen : time'.length = time.length) (hn : 0 < time.length)
    (φ : F α) (hwf : φ.wf = true) (hh : ∀ k ∈ φ.kinds, h k = true) (hp : φ.noPrecedes)
    (hw : w.Agrees σ time.length φ.vars) :
    (evaluateOff h φ time w).map (List.map Prod.snd) =
      (evaluateOff h φ time' w).map (List.map Prod.snd) := by
  have hw' : w.Agrees σ time'.length φ.vars := by rw [hlen]; exact hw
  rw [C01_evaluate h w σ time hn φ hwf hh hp hw,
      C01_evaluate h w σ time' (by omega) φ hwf hh hp hw']
  simp only [Except.map]
  congr 1
  rw [hlen]
  rw [List.map_snd_zip (by simp), List.map_snd_zip (by simp [hlen])]

end Rtamt
