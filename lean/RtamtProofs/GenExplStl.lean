/-
  The functions of `rtamt/explanation/stl/discrete_time/explanations.py` (bounded operators), as translated
  from the source (`Rtamt/Py/GeneratedExpl.lean`), compute the interval lists of the exact mirror
  (`Rtamt/Discrete/ExplainU.lean`): shifted (and clipped) intervals, the runs of the operand inside them where the
  polarity asks for it, then `interval_union` (`unionIvs`).
-/
import RtamtProofs.GenExplDefs
import RtamtProofs.GenOffLemmas

namespace Rtamt.Py
open Rtamt Val

variable {α : Type} [Val α]

set_option linter.unusedSectionVars false

namespace ExplStl

/-! ### pure facts -/

theorem sortIvs_castI (I : Ivs) : sortIvs (castI I) = castI (sortIvsN I) := by
  unfold sortIvs sortIvsN castI
  symm
  apply List.map_mergeSort
  intro a _ b _
  simp [Int.natCast_inj]

/-- One iteration of the loop of `interval_union` on the Python lists. -/
def unionStepZ (out : IvsZ) (p : Int × Int) : IvsZ :=
  match out.getLast? with
  | some q => if p.1 - 1 ≤ q.2 then setLastSnd out (if q.2 < p.2 then p.2 else q.2) else out ++ [p]
  | none => [p]

theorem setLastSnd_concat (X : IvsZ) (q : Int × Int) (v : Int) : setLastSnd (X ++ [q]) v = X ++ [(q.1, v)] := by
  induction X with
  | nil => rfl
  | cons x X ih =>
    cases X with
    | nil => rfl
    | cons y Y =>
      show x :: setLastSnd ((y :: Y) ++ [q]) v = _
      rw [ih]; rfl

theorem castI_append (A B : Ivs) : castI (A ++ B) = castI A ++ castI B := by simp [castI]

theorem castI_unionStep (O : Ivs) (p : Nat × Nat) :
    castI (unionStep O p) = unionStepZ (castI O) ((p.1 : Int), (p.2 : Int)) := by
  rcases List.eq_nil_or_concat O with rfl | ⟨O', q, rfl⟩
  · rfl
  · rw [List.concat_eq_append]
    have h1 : (O' ++ [q]).getLast? = some q := by simp
    have h2 : (castI (O' ++ [q])).getLast? = some ((q.1 : Int), (q.2 : Int)) := by simp [castI]
    unfold unionStep unionStepZ
    rw [h1, h2]
    simp only [List.dropLast_concat]
    have hc : (p.1 ≤ q.2 + 1) ↔ ((p.1 : Int) - 1 ≤ (q.2 : Int)) := by omega
    by_cases h : p.1 ≤ q.2 + 1
    · rw [if_pos h, if_pos (hc.mp h), castI_append, castI_append,
        show castI [q] = [((q.1 : Int), (q.2 : Int))] from rfl, setLastSnd_concat]
      congr 1
      simp only [castI, List.map_cons, List.map_nil]
      congr 2
      split <;> omega
    · rw [if_neg h, if_neg (fun h' => h (hc.mpr h')), castI_append]
      rfl

theorem castI_foldl_unionStep (l O : Ivs) :
    castI (l.foldl unionStep O) = (castI l).foldl unionStepZ (castI O) := by
  induction l generalizing O with
  | nil => rfl
  | cons p l ih =>
    simp only [List.foldl_cons, castI, List.map_cons] at ih ⊢
    rw [ih]
    congr 1
    exact castI_unionStep O p

/-! ### one-step equations (`id rfl`: used as rewrite rules, never as `rfl`-lemmas) -/

theorem x_ok_bind {ε σ ρ : Type} (a : σ) (f : σ → Except ε ρ) : (Except.ok a >>= f) = f a := id rfl
theorem x_seq (a b : S) (env : Env α) : exec (.seq a b) env = (exec a env >>= exec b) := id rfl
theorem x_skip (env : Env α) : exec .skip env = .ok env := id rfl
theorem x_setLoc (x : String) (e : E) (σ L : Store α) :
    exec (.setLoc x e) ⟨σ, L⟩ = (evalE ⟨σ, L⟩ e >>= fun v => .ok ⟨σ, setKey x v L⟩) := id rfl
theorem x_appendLoc (x : String) (e : E) (σ L : Store α) :
    exec (.appendLoc x e) ⟨σ, L⟩ = (evalE ⟨σ, L⟩ e >>= fun v => getKey x L >>= fun t =>
      appendV t v >>= fun t' => .ok ⟨σ, setKey x t' L⟩) := id rfl
theorem x_ite (c : E) (t e : S) (env : Env α) :
    exec (.ite c t e) env = (evalE env c >>= fun v =>
      match v with
      | .bool true => exec t env
      | .bool false => exec e env
      | _ => .error .type) := id rfl
theorem x_ite_bool (t e : S) (env : Env α) (b : Bool) :
    (match (V.bool b : V α) with
      | .bool true => exec t env
      | .bool false => exec e env
      | _ => .error .type) = if b then exec t env else exec e env := by
  cases b <;> rfl

theorem e_loc (σ L : Store α) (x : String) : evalE ⟨σ, L⟩ (.loc x) = getKey x L := id rfl
theorem e_int (env : Env α) (n : Int) : evalE env (.int n) = .ok (.int n) := id rfl
theorem e_emptyList (env : Env α) : evalE env .emptyList = .ok (.dlist []) := id rfl
theorem e_un (env : Env α) (op : UnOp) (e : E) : evalE env (.un op e) = (evalE env e >>= evalUn op) := id rfl
theorem e_bin (env : Env α) (op : BinOp) (a b : E) :
    evalE env (.bin op a b) = (evalE env a >>= fun x => evalE env b >>= fun y => evalBin op x y) := id rfl
theorem e_idx (env : Env α) (e i : E) :
    evalE env (.idx e i) = (evalE env e >>= fun x => evalE env i >>= fun k => evalIdx x k) := id rfl
theorem e_tuple (env : Env α) (a b : E) :
    evalE env (.tuple a b) = (evalE env a >>= fun x => evalE env b >>= fun y => .ok (.pair x y)) := id rfl
theorem e_ifExp (env : Env α) (c a b : E) :
    evalE env (.ifExp c a b) = (evalE env c >>= fun v =>
      match v with
      | .bool true => evalE env a
      | .bool false => evalE env b
      | _ => .error .type) := id rfl
theorem e_ifExp_bool (env : Env α) (a b : E) (c : Bool) :
    (match (V.bool c : V α) with
      | .bool true => evalE env a
      | .bool false => evalE env b
      | _ => .error .type) = if c then evalE env a else evalE env b := by
  cases c <;> rfl

def sortedV : V α → Except PyErr (V α)
  | .ivs l => .ok (.ivs (sortIvs l))
  | .dlist [] => .ok (.dlist [])
  | _ => .error .type
def lastSndV : V α → Except PyErr (V α)
  | .ivs l => match l.getLast? with
              | some p => .ok (.int p.2)
              | none => .error .index
  | .dlist [] => .error .index
  | _ => .error .type

theorem e_sorted (env : Env α) (e : E) : evalE env (.sorted e) = (evalE env e >>= sortedV) := by
  simp only [evalE, sortedV, bind, Except.bind]; rfl
theorem e_lastSnd (env : Env α) (e : E) : evalE env (.lastSnd e) = (evalE env e >>= lastSndV) := by
  simp only [evalE, lastSndV, bind, Except.bind]; rfl

/-! ### values -/

theorem encZ_nil : (encZ [] : V α) = .dlist [] := rfl
theorem encZ_cons (p : Int × Int) (l : IvsZ) : (encZ (p :: l) : V α) = .ivs (p :: l) := rfl
theorem encZ_ne_nil {l : IvsZ} (h : l ≠ []) : (encZ l : V α) = .ivs l := by
  cases l with
  | nil => exact absurd rfl h
  | cons p l => rfl

theorem truthy_encZ (l : IvsZ) : evalUn (α := α) .truthy (encZ l) = .ok (.bool (!l.isEmpty)) := by
  cases l <;> rfl
theorem truthy_bool (b : Bool) : evalUn (α := α) .truthy (.bool b) = .ok (.bool b) := id rfl
theorem not_bool (b : Bool) : evalUn (α := α) .not (.bool b) = .ok (.bool (!b)) := id rfl
theorem toInt_int (n : Int) : evalUn (α := α) .toInt (.int n) = .ok (.int n) := id rfl

theorem sortedV_encZ (l : IvsZ) : sortedV (α := α) (encZ l) = .ok (encZ (sortIvs l)) := by
  cases l with
  | nil => simp [encZ_nil, sortedV, sortIvs]
  | cons p l =>
    have : sortIvs (p :: l) ≠ [] := by
      intro h
      have := congrArg List.length h
      simp [sortIvs] at this
    rw [encZ_cons, encZ_ne_nil this]; rfl

theorem lastSndV_encZ (l : IvsZ) (q : Int × Int) (h : l.getLast? = some q) :
    lastSndV (α := α) (encZ l) = .ok (.int q.2) := by
  cases l with
  | nil => simp at h
  | cons p l => simp only [encZ_cons, lastSndV, h]

theorem appendV_encZ (l : IvsZ) (a b : Int) :
    appendV (α := α) (encZ l) (.pair (.int a) (.int b)) = .ok (encZ (l ++ [(a, b)])) := by
  cases l <;> rfl

theorem b_ge_int (x y : Int) : evalBin (α := α) .ge (.int x) (.int y) = .ok (.bool (decide (y ≤ x))) := by
  unfold evalBin; rw [coerce_int_int]
theorem b_eq_int (x y : Int) : evalBin (α := α) .eq (.int x) (.int y) = .ok (.bool (decide (x = y))) := by
  unfold evalBin; rw [coerce_int_int]
theorem b_eq01 : evalBin (α := α) .eq (.int 0) (.int 1) = .ok (.bool false) := by rw [b_eq_int]; rfl
theorem b_eq00 : evalBin (α := α) .eq (.int 0) (.int 0) = .ok (.bool true) := by rw [b_eq_int]; rfl
theorem b_sub_int (x y : Int) : evalBin (α := α) .sub (.int x) (.int y) = .ok (.int (x - y)) := by
  unfold evalBin; rw [coerce_int_int]
theorem b_add_int (x y : Int) : evalBin (α := α) .add (.int x) (.int y) = .ok (.int (x + y)) := by
  unfold evalBin; rw [coerce_int_int]
theorem b_max_int (x y : Int) : evalBin (α := α) .max (.int x) (.int y) = .ok (.int (if x < y then y else x)) := by
  unfold evalBin; rw [coerce_int_int]
theorem b_min_int (x y : Int) : evalBin (α := α) .min (.int x) (.int y) = .ok (.int (if y < x then y else x)) := by
  unfold evalBin; rw [coerce_int_int]
theorem b_ge_num0 (x : α) : evalBin .ge (.num x) (.int 0) = .ok (.bool (isSat x)) := id rfl
theorem b_lt_num0 (x : α) : evalBin .lt (.num x) (.int 0) = .ok (.bool (isUnsat x)) := id rfl

theorem x_setLastSnd (x : String) (e : E) (σ L : Store α) (l : IvsZ) (v : Int) (hl : l ≠ [])
    (hx : getKey x L = .ok (encZ l)) (he : evalE ⟨σ, L⟩ e = .ok (.int v)) :
    exec (.setLastSnd x e) ⟨σ, L⟩ = .ok ⟨σ, setKey x (encZ (setLastSnd l v)) L⟩ := by
  cases l with
  | nil => exact absurd rfl hl
  | cons p l =>
    have : setLastSnd (p :: l) v ≠ [] := by
      cases l <;> simp [setLastSnd]
    rw [encZ_ne_nil this]
    rw [encZ_cons] at hx
    simp only [exec, hx, he, bind, Except.bind, pure, Except.pure]

theorem x_forPair (a b : String) (it : E) (body : S) (σ L : Store α) (l : IvsZ)
    (hit : evalE ⟨σ, L⟩ it = .ok (encZ l)) :
    exec (.forPair a b it body) ⟨σ, L⟩ =
      l.foldlM (fun env p => exec body { env with loc := setKey b (.int p.2) (setKey a (.int p.1) env.loc) }) ⟨σ, L⟩ := by
  cases l with
  | nil => simp only [exec, hit, encZ_nil, bind, Except.bind, pure, Except.pure, List.foldlM]
  | cons p l => simp only [exec, hit, encZ_cons, bind, Except.bind]

/-! ### `interval_union` -/

def unionBody (out bg en : String) : S :=
  .ite (.ifExp (.un .truthy (.loc out)) (.bin .ge (.lastSnd (.loc out)) (.bin .sub (.loc bg) (.int 1))) (.bin .eq (.int 0) (.int 1)))
    (.setLastSnd out (.bin .max (.lastSnd (.loc out)) (.loc en)))
    (.appendLoc out (.tuple (.loc bg) (.loc en)))

def unionS (iv out bg en : String) : S :=
  .seq (.setLoc out .emptyList) (.forPair bg en (.sorted (.loc iv)) (unionBody out bg en))

theorem exec_unionBody (out bg en : String) (σ L : Store α) (O : IvsZ) (p : Int × Int)
    (hO : getKey out L = .ok (encZ O)) (hb : getKey bg L = .ok (.int p.1)) (he : getKey en L = .ok (.int p.2)) :
    exec (unionBody out bg en) ⟨σ, L⟩ = .ok ⟨σ, setKey out (encZ (unionStepZ O p)) L⟩ := by
  rcases List.eq_nil_or_concat O with rfl | ⟨O', q, rfl⟩
  · simp only [unionBody, x_ite, e_ifExp, e_un, e_loc, hO, x_ok_bind, truthy_encZ, List.isEmpty_nil, Bool.not_true,
      e_bin, e_int, b_eq_int, x_appendLoc, e_tuple, hb, he, appendV_encZ]
    rfl
  · rw [List.concat_eq_append] at hO ⊢
    have h1 : (O' ++ [q]).getLast? = some q := by simp
    have hne : O' ++ [q] ≠ [] := by simp
    have ht : (!(O' ++ [q]).isEmpty) = true := by simp
    have hcond : evalE (α := α) ⟨σ, L⟩ (.ifExp (.un .truthy (.loc out)) (.bin .ge (.lastSnd (.loc out)) (.bin .sub (.loc bg) (.int 1))) (.bin .eq (.int 0) (.int 1)))
        = .ok (.bool (decide (p.1 - 1 ≤ q.2))) := by
      simp only [e_ifExp, e_un, e_loc, hO, x_ok_bind, truthy_encZ, ht, e_bin, e_lastSnd, lastSndV_encZ _ _ h1, hb, e_int,
        b_sub_int, b_ge_int]
    unfold unionBody
    rw [x_ite, hcond, x_ok_bind, x_ite_bool]
    unfold unionStepZ
    rw [h1]
    by_cases h : p.1 - 1 ≤ q.2
    · simp only [h, decide_true, if_true]
      apply x_setLastSnd _ _ _ _ _ _ hne hO
      simp only [e_bin, e_lastSnd, e_loc, hO, x_ok_bind, lastSndV_encZ _ _ h1, he, b_max_int]
    · simp only [h, decide_false, if_false, Bool.false_eq_true]
      simp only [x_appendLoc, e_tuple, e_loc, hb, he, hO, x_ok_bind, appendV_encZ]

theorem foldlM_unionBody (out bg en : String) (h1 : out ≠ bg) (h2 : out ≠ en) (h3 : bg ≠ en) (σ : Store α) (l : IvsZ) :
    ∀ (L : Store α) (O : IvsZ), getKey out L = .ok (encZ O) →
      ∃ L', l.foldlM (fun env p => exec (unionBody out bg en)
          { env with loc := setKey en (.int p.2) (setKey bg (.int p.1) env.loc) }) (⟨σ, L⟩ : Env α) = .ok ⟨σ, L'⟩
        ∧ getKey out L' = .ok (encZ (l.foldl unionStepZ O)) := by
  induction l with
  | nil => intro L O hO; exact ⟨L, rfl, hO⟩
  | cons p l ih =>
    intro L O hO
    rw [List.foldlM_cons]
    have hstep := exec_unionBody out bg en σ (setKey en (.int p.2) (setKey bg (.int p.1) L)) O p
      (by rw [getKey_setKey_ne _ _ _ _ h2, getKey_setKey_ne _ _ _ _ h1, hO])
      (by rw [getKey_setKey_ne _ _ _ _ h3, getKey_setKey_same])
      (by rw [getKey_setKey_same])
    simp only [] at hstep ⊢
    rw [hstep, x_ok_bind]
    exact ih _ _ (getKey_setKey_same _ _ _)

theorem exec_unionS (iv out bg en : String) (h0 : iv ≠ out) (h1 : out ≠ bg) (h2 : out ≠ en) (h3 : bg ≠ en)
    (σ L : Store α) (J : Ivs) (hJ : getKey iv L = .ok (encI J)) :
    ∃ L', exec (unionS iv out bg en) (⟨σ, L⟩ : Env α) = .ok ⟨σ, L'⟩ ∧ getKey out L' = .ok (encI (unionIvs J)) := by
  unfold unionS
  rw [x_seq, x_setLoc, e_emptyList, x_ok_bind, x_ok_bind]
  rw [x_forPair _ _ _ _ _ _ (sortIvs (castI J))]
  · obtain ⟨L', hL', hout⟩ := foldlM_unionBody out bg en h1 h2 h3 σ (sortIvs (castI J)) (setKey out (.dlist []) L) []
      (getKey_setKey_same _ _ _)
    refine ⟨L', hL', ?_⟩
    rw [hout, sortIvs_castI, show ([] : IvsZ) = castI [] from rfl, ← castI_foldl_unionStep]
    rfl
  · rw [e_sorted, e_loc, getKey_setKey_ne _ _ _ _ h0, hJ, x_ok_bind]
    exact sortedV_encZ _

theorem call_of_exec (m : Method) (args : List (V α)) (e : E) (σ L : Store α) (v : V α)
    (hlen : args.length = m.params.length) (hret : m.ret = some e)
    (hex : exec m.body ⟨[], m.params.zip args⟩ = .ok ⟨σ, L⟩) (hv : getKey e' L = .ok v) (he : e = .loc e') :
    call m [] args = .ok (σ, v) := by
  subst he
  simp only [call, hlen, ne_eq, not_true_eq_false, if_false, hex, hret, bind, Except.bind, pure, Except.pure, evalE, hv]

end ExplStl

open ExplStl

/-- The inlined `interval_union` on its own: the translated function is `unionIvs`. -/
theorem fn_interval_union (I : Ivs) :
    call (α := α) Gen.Expl.stl_interval_union [] [encI I] = .ok ([], encI (unionIvs I)) := by
  obtain ⟨L', hL', hout⟩ := exec_unionS (α := α) "intervals" "out" "begin" "end" (by decide) (by decide) (by decide) (by decide)
    [] [("intervals", encI I)] I (getKey_cons_same _ _ _)
  exact call_of_exec Gen.Expl.stl_interval_union [encI I] (.loc "out") [] L' _ rfl rfl hL' hout rfl

namespace ExplStl

/-! ### the bounded operators: frame -/

/-- What the loops over the intervals keep invariant. -/
structure Base (L : Store α) (s : List α) (a b : Int) (acc : IvsZ) : Prop where
  sig : getKey "op_signal" L = .ok (.list s)
  ha : getKey "a" L = .ok (.int a)
  hb : getKey "b" L = .ok (.int b)
  hacc : getKey "op_intervals" L = .ok (encZ acc)

theorem Base.set {L : Store α} {s : List α} {a b : Int} {acc : IvsZ} (h : Base L s a b acc) (x : String) (v : V α)
    (h1 : "op_signal" ≠ x) (h2 : "a" ≠ x) (h3 : "b" ≠ x) (h4 : "op_intervals" ≠ x) : Base (setKey x v L) s a b acc :=
  ⟨by rw [getKey_setKey_ne _ _ _ _ h1, h.sig], by rw [getKey_setKey_ne _ _ _ _ h2, h.ha],
   by rw [getKey_setKey_ne _ _ _ _ h3, h.hb], by rw [getKey_setKey_ne _ _ _ _ h4, h.hacc]⟩

theorem Base.setAcc {L : Store α} {s : List α} {a b : Int} {acc : IvsZ} (h : Base L s a b acc) (acc' : IvsZ) :
    Base (setKey "op_intervals" (encZ acc') L) s a b acc' :=
  ⟨by rw [getKey_setKey_ne _ _ _ _ (by decide), h.sig], by rw [getKey_setKey_ne _ _ _ _ (by decide), h.ha],
   by rw [getKey_setKey_ne _ _ _ _ (by decide), h.hb], getKey_setKey_same _ _ _⟩

def timedS (loopBody : S) : S :=
  .seq (.setLoc "op_intervals" .emptyList) (.seq (.setLoc "a" (.un .toInt (.loc "a"))) (.seq (.setLoc "b" (.un .toInt (.loc "b")))
    (.seq (.forPair "begin" "end" (.loc "intervals") loopBody)
      (.seq (.setLoc "interval_union$intervals" (.loc "op_intervals"))
        (.seq (unionS "interval_union$intervals" "interval_union$out" "interval_union$begin" "interval_union$end")
          (.setLoc "op_intervals" (.loc "interval_union$out")))))))

theorem timed_loop (loopBody : S) (f : Nat × Nat → Ivs) (s : List α) (a b : Int) (I : Ivs) (σ : Store α)
    (hbody : ∀ (L : Store α) (acc : IvsZ) (p : Nat × Nat), p ∈ I → Base L s a b acc →
      ∃ L', exec loopBody ⟨σ, setKey "end" (.int (p.2 : Int)) (setKey "begin" (.int (p.1 : Int)) L)⟩ = .ok ⟨σ, L'⟩
        ∧ Base L' s a b (acc ++ castI (f p))) :
    ∀ (l : Ivs), (∀ p ∈ l, p ∈ I) → ∀ (L : Store α) (acc : IvsZ), Base L s a b acc →
      ∃ L', (castI l).foldlM (fun env p => exec loopBody
          { env with loc := setKey "end" (.int p.2) (setKey "begin" (.int p.1) env.loc) }) (⟨σ, L⟩ : Env α) = .ok ⟨σ, L'⟩
        ∧ Base L' s a b (acc ++ castI (l.flatMap f)) := by
  intro l
  induction l with
  | nil => intro _ L acc hB; exact ⟨L, rfl, by simpa [castI] using hB⟩
  | cons p l ih =>
    intro hl L acc hB
    obtain ⟨L1, h1, hB1⟩ := hbody L acc p (hl p (List.mem_cons_self)) hB
    obtain ⟨L2, h2, hB2⟩ := ih (fun q hq => hl q (List.mem_cons_of_mem _ hq)) L1 _ hB1
    refine ⟨L2, ?_, ?_⟩
    · simp only [castI, List.map_cons, List.foldlM_cons] at h2 ⊢
      rw [h1, x_ok_bind]
      exact h2
    · simpa [castI_append, List.flatMap_cons, List.append_assoc] using hB2

theorem timed_call (loopBody : S) (f : Nat × Nat → Ivs) (s : List α) (a b : Nat) (I : Ivs)
    (hbody : ∀ (σ L : Store α) (acc : IvsZ) (p : Nat × Nat), p ∈ I → Base L s a b acc →
      ∃ L', exec loopBody ⟨σ, setKey "end" (.int (p.2 : Int)) (setKey "begin" (.int (p.1 : Int)) L)⟩ = .ok ⟨σ, L'⟩
        ∧ Base L' s a b (acc ++ castI (f p)))
    (m : Method) (hm : m = ⟨["op_signal", "intervals", "a", "b"], timedS loopBody, some (.loc "op_intervals")⟩) :
    call m [] [.list s, encI I, .int a, .int b] = .ok ([], encI (unionIvs (I.flatMap f))) := by
  subst hm
  let L0 : Store α := [("op_signal", .list s), ("intervals", encI I), ("a", .int a), ("b", .int b)]
  let L3 : Store α := setKey "b" (.int b) (setKey "a" (.int a) (setKey "op_intervals" (.dlist []) L0))
  have hB3 : Base L3 s a b [] :=
    ⟨by rfl, by rfl, by rfl, by rfl⟩
  have hI3 : getKey "intervals" L3 = .ok (encI I) := by rfl
  obtain ⟨L4, h4, hB4⟩ := timed_loop loopBody f s a b I [] (hbody []) I (fun _ h => h) L3 [] hB3
  let L5 : Store α := setKey "interval_union$intervals" (encI (I.flatMap f)) L4
  obtain ⟨L6, h6, hout⟩ := exec_unionS (α := α) "interval_union$intervals" "interval_union$out" "interval_union$begin"
    "interval_union$end" (by decide) (by decide) (by decide) (by decide) [] L5 (I.flatMap f) (getKey_setKey_same _ _ _)
  refine call_of_exec _ _ (.loc "op_intervals") [] (setKey "op_intervals" (encI (unionIvs (I.flatMap f))) L6) _ rfl rfl ?_
    (getKey_setKey_same _ _ _) rfl
  show exec (timedS loopBody) ⟨[], L0⟩ = _
  have e1 : exec (.setLoc "op_intervals" .emptyList) (⟨[], L0⟩ : Env α) = .ok ⟨[], setKey "op_intervals" (.dlist []) L0⟩ := by
    rw [x_setLoc, e_emptyList, x_ok_bind]
  have e2 : exec (.setLoc "a" (.un .toInt (.loc "a"))) (⟨[], setKey "op_intervals" (.dlist []) L0⟩ : Env α)
      = .ok ⟨[], setKey "a" (.int a) (setKey "op_intervals" (.dlist []) L0)⟩ := by
    rw [x_setLoc, e_un, e_loc, show getKey "a" (setKey "op_intervals" (.dlist []) L0) = .ok (.int (a : Int)) from rfl,
      x_ok_bind, toInt_int, x_ok_bind]
  have e3 : exec (.setLoc "b" (.un .toInt (.loc "b"))) (⟨[], setKey "a" (.int a) (setKey "op_intervals" (.dlist []) L0)⟩ : Env α)
      = .ok ⟨[], L3⟩ := by
    rw [x_setLoc, e_un, e_loc, show getKey "b" (setKey "a" (.int a) (setKey "op_intervals" (.dlist []) L0)) = .ok (.int (b : Int)) from rfl,
      x_ok_bind, toInt_int, x_ok_bind]
  have e4 : exec (.forPair "begin" "end" (.loc "intervals") loopBody) (⟨[], L3⟩ : Env α) = .ok ⟨[], L4⟩ := by
    rw [x_forPair _ _ _ _ _ _ (castI I) (by rw [e_loc, hI3]; rfl)]
    exact h4
  have e5 : exec (.setLoc "interval_union$intervals" (.loc "op_intervals")) (⟨[], L4⟩ : Env α) = .ok ⟨[], L5⟩ := by
    rw [x_setLoc, e_loc, hB4.hacc, x_ok_bind]
    rfl
  have e7 : exec (.setLoc "op_intervals" (.loc "interval_union$out")) (⟨[], L6⟩ : Env α)
      = .ok ⟨[], setKey "op_intervals" (encI (unionIvs (I.flatMap f))) L6⟩ := by
    rw [x_setLoc, e_loc, hout, x_ok_bind]
  unfold timedS
  rw [x_seq, e1, x_ok_bind, x_seq, e2, x_ok_bind, x_seq, e3, x_ok_bind, x_seq, e4, x_ok_bind, x_seq, e5, x_ok_bind,
    x_seq, h6, x_ok_bind, e7]

/-! ### the shifted (and clipped) interval -/

/-- `e` computes `g x` from the variable `v` (`begin` / `end`) and `a`, `b`, `len(op_signal)`. -/
def Shift (s : List α) (a b : Int) (v : String) (e : E) (g : Nat → Nat) : Prop :=
  ∀ (σ L : Store α) (acc : IvsZ) (x : Nat), Base L s a b acc → getKey v L = .ok (.int (x : Int)) →
    evalE ⟨σ, L⟩ e = .ok (.int ((g x : Nat) : Int))

def fwdE (v c : String) : E := .bin .min (.bin .add (.loc v) (.loc c)) (.bin .sub (.len (.loc "op_signal")) (.int 1))
def bwdE (v c : String) : E := .bin .max (.bin .sub (.loc v) (.loc c)) (.int 0)

theorem shift_fwd_begin (s : List α) (hs : 0 < s.length) (a b : Nat) :
    Shift s a b "begin" (fwdE "begin" "a") (fun x => min (x + a) (s.length - 1)) := by
  intro σ L acc x hB hx
  simp only [fwdE, e_bin, e_loc, hx, hB.ha, x_ok_bind, b_add_int, evalE_len, hB.sig, lenV_list, e_int, b_sub_int, b_min_int]
  congr 2
  split <;> omega

theorem shift_fwd_end (s : List α) (hs : 0 < s.length) (a b : Nat) :
    Shift s a b "end" (fwdE "end" "b") (fun x => min (x + b) (s.length - 1)) := by
  intro σ L acc x hB hx
  simp only [fwdE, e_bin, e_loc, hx, hB.hb, x_ok_bind, b_add_int, evalE_len, hB.sig, lenV_list, e_int, b_sub_int, b_min_int]
  congr 2
  split <;> omega

theorem shift_bwd_begin (s : List α) (a b : Nat) :
    Shift s a b "begin" (bwdE "begin" "b") (fun x => x - b) := by
  intro σ L acc x hB hx
  simp only [bwdE, e_bin, e_loc, hx, hB.hb, x_ok_bind, b_sub_int, e_int, b_max_int]
  congr 2
  split <;> omega

theorem shift_bwd_end (s : List α) (a b : Nat) :
    Shift s a b "end" (bwdE "end" "a") (fun x => x - a) := by
  intro σ L acc x hB hx
  simp only [bwdE, e_bin, e_loc, hx, hB.ha, x_ok_bind, b_sub_int, e_int, b_max_int]
  congr 2
  split <;> omega

def shiftBody (eB eE : E) : S :=
  .seq (.setLoc "exp_begin" eB) (.seq (.setLoc "exp_end" eE)
    (.appendLoc "op_intervals" (.tuple (.loc "exp_begin") (.loc "exp_end"))))

theorem exec_shiftBody (s : List α) (a b : Int) (eB eE : E) (gB gE : Nat → Nat)
    (hgB : Shift s a b "begin" eB gB) (hgE : Shift s a b "end" eE gE)
    (σ L : Store α) (acc : IvsZ) (p : Nat × Nat) (hB : Base L s a b acc) :
    ∃ L', exec (shiftBody eB eE) ⟨σ, setKey "end" (.int (p.2 : Int)) (setKey "begin" (.int (p.1 : Int)) L)⟩ = .ok ⟨σ, L'⟩
      ∧ Base L' s a b (acc ++ castI [(gB p.1, gE p.2)]) := by
  have hB0 := (hB.set "begin" (.int (p.1 : Int)) (by decide) (by decide) (by decide) (by decide)).set
    "end" (.int (p.2 : Int)) (by decide) (by decide) (by decide) (by decide)
  generalize hL0 : setKey "end" (.int (p.2 : Int)) (setKey "begin" (.int (p.1 : Int)) L) = L0 at hB0 ⊢
  have hb0 : getKey "begin" L0 = .ok (.int (p.1 : Int)) := by
    rw [← hL0, getKey_setKey_ne _ _ _ _ (by decide), getKey_setKey_same]
  have he0 : getKey "end" L0 = .ok (.int (p.2 : Int)) := by
    rw [← hL0, getKey_setKey_same]
  have hB1 := hB0.set "exp_begin" (.int (gB p.1 : Nat)) (by decide) (by decide) (by decide) (by decide)
  have he1 : getKey "end" (setKey "exp_begin" (.int (gB p.1 : Nat)) L0) = .ok (.int (p.2 : Int)) := by
    rw [getKey_setKey_ne _ _ _ _ (by decide), he0]
  have hB2 := hB1.set "exp_end" (.int (gE p.2 : Nat)) (by decide) (by decide) (by decide) (by decide)
  refine ⟨_, ?_, hB2.setAcc _⟩
  unfold shiftBody
  rw [x_seq, x_setLoc, hgB σ L0 acc p.1 hB0 hb0, x_ok_bind, x_ok_bind, x_seq, x_setLoc, hgE σ _ acc p.2 hB1 he1,
    x_ok_bind, x_ok_bind, x_appendLoc, e_tuple, e_loc, e_loc, getKey_setKey_ne _ _ _ _ (by decide), getKey_setKey_same,
    getKey_setKey_same, x_ok_bind, x_ok_bind, x_ok_bind, hB2.hacc, x_ok_bind, appendV_encZ, x_ok_bind]
  rfl

theorem flatMap_single (g : Nat × Nat → Nat × Nat) (I : Ivs) : I.flatMap (fun p => [g p]) = I.map g := by
  induction I with
  | nil => rfl
  | cons p I ih => simp [List.flatMap_cons, ih]

end ExplStl

open ExplStl

theorem fn_sat_timed_always (s : List α) (hs : 0 < s.length) (a b : Nat) (I : Ivs) :
    call (α := α) Gen.Expl.stl_explain_sat_timed_always [] [.list s, encI I, .int a, .int b]
      = .ok ([], encI (unionIvs (fwdI s.length a b I))) := by
  have h := timed_call (shiftBody (fwdE "begin" "a") (fwdE "end" "b"))
    (fun p => [(min (p.1 + a) (s.length - 1), min (p.2 + b) (s.length - 1))]) s a b I
    (fun σ L acc p _ hB => exec_shiftBody s a b _ _ _ _ (shift_fwd_begin s hs a b) (shift_fwd_end s hs a b) σ L acc p hB)
    Gen.Expl.stl_explain_sat_timed_always rfl
  rw [h, flatMap_single]
  rfl

theorem fn_unsat_timed_eventually (s : List α) (hs : 0 < s.length) (a b : Nat) (I : Ivs) :
    call (α := α) Gen.Expl.stl_explain_unsat_timed_eventually [] [.list s, encI I, .int a, .int b]
      = .ok ([], encI (unionIvs (fwdI s.length a b I))) := by
  have h := timed_call (shiftBody (fwdE "begin" "a") (fwdE "end" "b"))
    (fun p => [(min (p.1 + a) (s.length - 1), min (p.2 + b) (s.length - 1))]) s a b I
    (fun σ L acc p _ hB => exec_shiftBody s a b _ _ _ _ (shift_fwd_begin s hs a b) (shift_fwd_end s hs a b) σ L acc p hB)
    Gen.Expl.stl_explain_unsat_timed_eventually rfl
  rw [h, flatMap_single]
  rfl

theorem fn_sat_timed_historically (s : List α) (a b : Nat) (I : Ivs) :
    call (α := α) Gen.Expl.stl_explain_sat_timed_historically [] [.list s, encI I, .int a, .int b]
      = .ok ([], encI (unionIvs (bwdI a b I))) := by
  have h := timed_call (shiftBody (bwdE "begin" "b") (bwdE "end" "a"))
    (fun p => [(p.1 - b, p.2 - a)]) s a b I
    (fun σ L acc p _ hB => exec_shiftBody s a b _ _ _ _ (shift_bwd_begin s a b) (shift_bwd_end s a b) σ L acc p hB)
    Gen.Expl.stl_explain_sat_timed_historically rfl
  rw [h, flatMap_single]
  rfl

theorem fn_unsat_timed_once (s : List α) (a b : Nat) (I : Ivs) :
    call (α := α) Gen.Expl.stl_explain_unsat_timed_once [] [.list s, encI I, .int a, .int b]
      = .ok ([], encI (unionIvs (bwdI a b I))) := by
  have h := timed_call (shiftBody (bwdE "begin" "b") (bwdE "end" "a"))
    (fun p => [(p.1 - b, p.2 - a)]) s a b I
    (fun σ L acc p _ hB => exec_shiftBody s a b _ _ _ _ (shift_bwd_begin s a b) (shift_bwd_end s a b) σ L acc p hB)
    Gen.Expl.stl_explain_unsat_timed_once rfl
  rw [h, flatMap_single]
  rfl

namespace ExplStl

/-! ### the scan of the shifted interval -/

/-- The body of `for i in range(begin, end + 1)`. -/
def scanBody (opIn opOut : BinOp) : S :=
  .ite (.ifExp (.un .not (.un .truthy (.loc "state"))) (.bin opIn (.idx (.loc "op_signal") (.loc "i")) (.int 0)) (.bin .eq (.int 0) (.int 1)))
    (.seq (.setLoc "state" (.bin .eq (.int 0) (.int 0))) (.setLoc "start" (.loc "i")))
    (.ite (.ifExp (.un .truthy (.loc "state")) (.bin opOut (.idx (.loc "op_signal") (.loc "i")) (.int 0)) (.bin .eq (.int 0) (.int 1)))
      (.seq (.setLoc "state" (.bin .eq (.int 0) (.int 1)))
        (.appendLoc "op_intervals" (.tuple (.loc "start") (.bin .sub (.loc "i") (.int 1)))))
      .skip)

def scanFinal : S :=
  .ite (.un .truthy (.loc "state")) (.appendLoc "op_intervals" (.tuple (.loc "start") (.loc "end"))) .skip

def scanS (eB eE : E) (opIn opOut : BinOp) : S :=
  .seq (.setLoc "begin" eB) (.seq (.setLoc "end" eE) (.seq (.setLoc "state" (.bin .eq (.int 0) (.int 1)))
    (.seq (.for_ "i" (.loc "begin") (.bin .add (.loc "end") (.int 1)) (scanBody opIn opOut)) scanFinal)))

/-- The invariant of the scan: `state` / `start` hold the open run. -/
structure Scan (L : Store α) (s : List α) (a b : Int) (acc : IvsZ) (e : Nat) (cur : Option Nat) : Prop where
  base : Base L s a b acc
  hend : getKey "end" L = .ok (.int (e : Int))
  hstate : getKey "state" L = .ok (.bool cur.isSome)
  hstart : ∀ st, cur = some st → getKey "start" L = .ok (.int (st : Int))

theorem idx_atL (s : List α) (i : Nat) (h : i < s.length) : idx s i = .ok (atL s i) := by
  simp [idx, atL, List.getD, List.getElem?_eq_getElem h]

theorem exec_scanFinal (σ L : Store α) (s : List α) (a b : Int) (acc : IvsZ) (e : Nat) (cur : Option Nat)
    (h : Scan L s a b acc e cur) :
    ∃ L', exec scanFinal (⟨σ, L⟩ : Env α) = .ok ⟨σ, L'⟩
      ∧ Base L' s a b (acc ++ castI (match cur with | some st => [(st, e)] | none => [])) := by
  unfold scanFinal
  rw [x_ite, e_un, e_loc, h.hstate, x_ok_bind, truthy_bool, x_ok_bind, x_ite_bool]
  cases cur with
  | none =>
    refine ⟨L, ?_, by simpa [castI] using h.base⟩
    simp only [Option.isSome_none, Bool.false_eq_true, if_false, x_skip]
  | some st =>
    refine ⟨_, ?_, h.base.setAcc _⟩
    simp only [Option.isSome_some, if_true, x_appendLoc, e_tuple, e_loc, h.hstart st rfl, h.hend, x_ok_bind,
      h.base.hacc, appendV_encZ]
    rfl

/-- One iteration of the scan on the mirror: the closed run (if any) and the open run. -/
def scanStep (p : Nat → Bool) (i : Nat) (cur : Option Nat) : Ivs × Option Nat :=
  match cur, p i with
  | none, true => ([], some i)
  | some st, false => ([(st, i - 1)], none)
  | c, _ => ([], c)

theorem runsLoop_succ (p : Nat → Bool) (e k i : Nat) (cur : Option Nat) :
    runsLoop p e (k + 1) i cur = (scanStep p i cur).1 ++ runsLoop p e k (i + 1) (scanStep p i cur).2 := by
  cases cur <;> cases h : p i <;> simp [runsLoop, scanStep, h]

theorem Scan.set {L : Store α} {s : List α} {a b : Int} {acc : IvsZ} {e : Nat} {cur : Option Nat}
    (h : Scan L s a b acc e cur) (x : String) (v : V α)
    (h1 : "op_signal" ≠ x) (h2 : "a" ≠ x) (h3 : "b" ≠ x) (h4 : "op_intervals" ≠ x)
    (h5 : "end" ≠ x) (h6 : "state" ≠ x) (h7 : "start" ≠ x) : Scan (setKey x v L) s a b acc e cur :=
  ⟨h.base.set x v h1 h2 h3 h4, by rw [getKey_setKey_ne _ _ _ _ h5, h.hend], by rw [getKey_setKey_ne _ _ _ _ h6, h.hstate],
   fun st hst => by rw [getKey_setKey_ne _ _ _ _ h7, h.hstart st hst]⟩

theorem exec_scanBody (p : α → Bool) (opIn opOut : BinOp)
    (hin : ∀ x : α, evalBin opIn (.num x) (.int 0) = .ok (.bool (p x)))
    (hout : ∀ x : α, evalBin opOut (.num x) (.int 0) = .ok (.bool (!p x)))
    (σ L : Store α) (s : List α) (a b : Int) (acc : IvsZ) (e : Nat) (cur : Option Nat) (i : Nat)
    (h : Scan L s a b acc e cur) (hi : i < s.length) (hcur : ∀ st, cur = some st → st < i) :
    ∃ L', exec (scanBody opIn opOut) (⟨σ, setKey "i" (.int (i : Int)) L⟩ : Env α) = .ok ⟨σ, L'⟩
      ∧ Scan L' s a b (acc ++ castI (scanStep (fun i => p (atL s i)) i cur).1) e (scanStep (fun i => p (atL s i)) i cur).2 := by
  have h0 := h.set "i" (.int (i : Int)) (by decide) (by decide) (by decide) (by decide) (by decide) (by decide) (by decide)
  have hi0 : getKey "i" (setKey "i" (V.int (i : Int)) L) = .ok (.int (i : Int)) := getKey_setKey_same _ _ _
  generalize setKey "i" (V.int (i : Int)) L = L0 at h0 hi0 ⊢
  have hsig : evalE (⟨σ, L0⟩ : Env α) (.idx (.loc "op_signal") (.loc "i")) = .ok (.num (atL s i)) := by
    rw [e_idx, e_loc, e_loc, h0.base.sig, hi0, x_ok_bind, x_ok_bind, evalIdx_list, idx_atL s i hi]
    rfl
  have hc1 : evalE (⟨σ, L0⟩ : Env α) (.ifExp (.un .not (.un .truthy (.loc "state")))
      (.bin opIn (.idx (.loc "op_signal") (.loc "i")) (.int 0)) (.bin .eq (.int 0) (.int 1)))
      = .ok (.bool (!cur.isSome && p (atL s i))) := by
    rw [e_ifExp, e_un, e_un, e_loc, h0.hstate, x_ok_bind, truthy_bool, x_ok_bind, not_bool, x_ok_bind, e_ifExp_bool]
    cases cur with
    | none => simp only [Option.isSome_none, Bool.not_false, if_true, e_bin, hsig, e_int, x_ok_bind, hin, Bool.true_and]
    | some st => simp only [Option.isSome_some, Bool.not_true, Bool.false_eq_true, if_false, e_bin, e_int, x_ok_bind, b_eq01,
        Bool.false_and]
  have hc2 : evalE (⟨σ, L0⟩ : Env α) (.ifExp (.un .truthy (.loc "state"))
      (.bin opOut (.idx (.loc "op_signal") (.loc "i")) (.int 0)) (.bin .eq (.int 0) (.int 1)))
      = .ok (.bool (cur.isSome && !p (atL s i))) := by
    rw [e_ifExp, e_un, e_loc, h0.hstate, x_ok_bind, truthy_bool, x_ok_bind, e_ifExp_bool]
    cases cur with
    | none => simp only [Option.isSome_none, Bool.false_eq_true, if_false, e_bin, e_int, x_ok_bind, b_eq01,
        Bool.false_and]
    | some st => simp only [Option.isSome_some, if_true, e_bin, hsig, e_int, x_ok_bind, hout, Bool.true_and]
  unfold scanBody
  rw [x_ite, hc1, x_ok_bind, x_ite_bool]
  cases cur with
  | none =>
    cases hp : p (atL s i) with
    | true =>
      -- a run opens
      have hst : scanStep (fun i => p (atL s i)) i none = ([], some i) := by simp [scanStep, hp]
      rw [hst]
      refine ⟨setKey "start" (.int (i : Int)) (setKey "state" (.bool true) L0), ?_, ?_⟩
      · simp only [Option.isSome_none, Bool.not_false, Bool.and_self, if_true, x_seq, x_setLoc, e_bin, e_int, x_ok_bind,
          b_eq00, e_loc]
        rw [getKey_setKey_ne _ _ _ _ (by decide), hi0, x_ok_bind]
      · have hB2 := (h0.base.set "state" (.bool true) (by decide) (by decide) (by decide) (by decide)).set "start" (.int (i : Int)) (by decide) (by decide) (by decide) (by decide)
        refine ⟨by simpa [castI] using hB2, ?_, ?_, ?_⟩
        · rw [getKey_setKey_ne _ _ _ _ (by decide), getKey_setKey_ne _ _ _ _ (by decide), h0.hend]
        · rw [getKey_setKey_ne _ _ _ _ (by decide), getKey_setKey_same]; rfl
        · intro st hst; cases hst; exact getKey_setKey_same _ _ _
    | false =>
      have hst : scanStep (fun i => p (atL s i)) i none = ([], none) := by simp [scanStep, hp]
      rw [hst]
      refine ⟨L0, ?_, by simpa [castI] using h0⟩
      simp only [Option.isSome_none, Bool.not_false, Bool.and_false, Bool.false_eq_true, if_false]
      rw [x_ite, hc2, x_ok_bind, x_ite_bool]
      simp only [Option.isSome_none, Bool.false_and, Bool.false_eq_true, if_false, x_skip]
  | some st =>
    simp only [Option.isSome_some, Bool.not_true, Bool.false_and, Bool.false_eq_true, if_false]
    rw [x_ite, hc2, x_ok_bind, x_ite_bool]
    cases hp : p (atL s i) with
    | true =>
      have hst : scanStep (fun i => p (atL s i)) i (some st) = ([], some st) := by simp [scanStep, hp]
      rw [hst]
      refine ⟨L0, ?_, by simpa [castI] using h0⟩
      simp only [Option.isSome_some, Bool.not_true, Bool.and_false, Bool.false_eq_true, if_false, x_skip]
    | false =>
      -- the run closes
      have hst : scanStep (fun i => p (atL s i)) i (some st) = ([(st, i - 1)], none) := by simp [scanStep, hp]
      rw [hst]
      have hlt := hcur st rfl
      have hcast : castI [(st, i - 1)] = [((st : Int), (i : Int) - 1)] := by
        simp only [castI, List.map_cons, List.map_nil]
        congr 2
        omega
      rw [hcast]
      have hB1 := h0.base.set "state" (.bool false) (by decide) (by decide) (by decide) (by decide)
      refine ⟨setKey "op_intervals" (encZ (acc ++ [((st : Int), (i : Int) - 1)])) (setKey "state" (.bool false) L0), ?_, ?_⟩
      · simp only [Option.isSome_some, Bool.not_false, Bool.and_self, if_true, x_seq, x_setLoc, e_bin, e_int, x_ok_bind,
          b_eq01, x_appendLoc, e_tuple, e_loc]
        rw [getKey_setKey_ne _ _ _ _ (by decide), h0.hstart st rfl, x_ok_bind, getKey_setKey_ne _ _ _ _ (by decide), hi0,
          x_ok_bind, b_sub_int, x_ok_bind, x_ok_bind, hB1.hacc, x_ok_bind, appendV_encZ, x_ok_bind]
      · refine ⟨hB1.setAcc _, ?_, ?_, ?_⟩
        · rw [getKey_setKey_ne _ _ _ _ (by decide), getKey_setKey_ne _ _ _ _ (by decide), h0.hend]
        · rw [getKey_setKey_ne _ _ _ _ (by decide), getKey_setKey_same]; rfl
        · intro st' hst'; cases hst'

theorem scanStep_lt (p : Nat → Bool) (i : Nat) (cur : Option Nat) (hcur : ∀ st, cur = some st → st < i) :
    ∀ st, (scanStep p i cur).2 = some st → st < i + 1 := by
  intro st
  cases cur with
  | none =>
    cases h : p i <;> simp [scanStep, h]
    omega
  | some st' =>
    have := hcur st' rfl
    cases h : p i <;> simp [scanStep, h]
    omega

theorem scan_loop (p : α → Bool) (opIn opOut : BinOp)
    (hin : ∀ x : α, evalBin opIn (.num x) (.int 0) = .ok (.bool (p x)))
    (hout : ∀ x : α, evalBin opOut (.num x) (.int 0) = .ok (.bool (!p x)))
    (σ : Store α) (s : List α) (a b : Int) (e : Nat) :
    ∀ (k i : Nat) (cur : Option Nat) (L : Store α) (acc : IvsZ), Scan L s a b acc e cur →
      (∀ j, i ≤ j → j < i + k → j < s.length) → (∀ st, cur = some st → st < i) →
      ∃ L', ((List.range' i k).foldlM (fun env j => exec (scanBody opIn opOut)
          { env with loc := setKey "i" (.int (j : Nat)) env.loc }) (⟨σ, L⟩ : Env α) >>= exec scanFinal) = .ok ⟨σ, L'⟩
        ∧ Base L' s a b (acc ++ castI (runsLoop (fun i => p (atL s i)) e k i cur)) := by
  intro k
  induction k with
  | zero =>
    intro i cur L acc h _ _
    obtain ⟨L', h1, h2⟩ := exec_scanFinal σ L s a b acc e cur h
    refine ⟨L', ?_, ?_⟩
    · simp only [List.range'_zero, List.foldlM_nil, pure, Except.pure, x_ok_bind]
      exact h1
    · cases cur <;> exact h2
  | succ k ih =>
    intro i cur L acc h hr hcur
    obtain ⟨L1, h1, hS1⟩ := exec_scanBody p opIn opOut hin hout σ L s a b acc e cur i h (hr i (Nat.le_refl _) (by omega)) hcur
    obtain ⟨L2, h2, hB2⟩ := ih (i + 1) _ L1 _ hS1 (fun j hj1 hj2 => hr j (by omega) (by omega))
      (scanStep_lt _ i cur hcur)
    refine ⟨L2, ?_, ?_⟩
    · rw [List.range'_succ, List.foldlM_cons]
      simp only [] at h1 ⊢
      rw [h1, x_ok_bind]
      exact h2
    · rw [runsLoop_succ, castI_append, ← List.append_assoc]
      exact hB2

theorem exec_scanS (p : α → Bool) (opIn opOut : BinOp)
    (hin : ∀ x : α, evalBin opIn (.num x) (.int 0) = .ok (.bool (p x)))
    (hout : ∀ x : α, evalBin opOut (.num x) (.int 0) = .ok (.bool (!p x)))
    (s : List α) (a b : Int) (eB eE : E) (gB gE : Nat → Nat)
    (hgB : Shift s a b "begin" eB gB) (hgE : Shift s a b "end" eE gE)
    (σ L : Store α) (acc : IvsZ) (pr : Nat × Nat) (hB : Base L s a b acc) (hr : gE pr.2 < s.length) :
    ∃ L', exec (scanS eB eE opIn opOut) ⟨σ, setKey "end" (.int (pr.2 : Int)) (setKey "begin" (.int (pr.1 : Int)) L)⟩ = .ok ⟨σ, L'⟩
      ∧ Base L' s a b (acc ++ castI (runs (fun i => p (atL s i)) (gB pr.1) (gE pr.2))) := by
  have hB0 := (hB.set "begin" (.int (pr.1 : Int)) (by decide) (by decide) (by decide) (by decide)).set
    "end" (.int (pr.2 : Int)) (by decide) (by decide) (by decide) (by decide)
  have hb0 : getKey "begin" (setKey "end" (.int (pr.2 : Int)) (setKey "begin" (.int (pr.1 : Int)) L)) = .ok (.int (pr.1 : Int)) := by
    rw [getKey_setKey_ne _ _ _ _ (by decide), getKey_setKey_same]
  have he0 : getKey "end" (setKey "end" (.int (pr.2 : Int)) (setKey "begin" (.int (pr.1 : Int)) L)) = .ok (.int (pr.2 : Int)) :=
    getKey_setKey_same _ _ _
  generalize setKey "end" (.int (pr.2 : Int)) (setKey "begin" (.int (pr.1 : Int)) L) = L0 at hB0 hb0 he0 ⊢
  have hB1 := hB0.set "begin" (.int (gB pr.1 : Nat)) (by decide) (by decide) (by decide) (by decide)
  have he1 : getKey "end" (setKey "begin" (.int (gB pr.1 : Nat)) L0) = .ok (.int (pr.2 : Int)) := by
    rw [getKey_setKey_ne _ _ _ _ (by decide), he0]
  have hB2 := hB1.set "end" (.int (gE pr.2 : Nat)) (by decide) (by decide) (by decide) (by decide)
  have hB3 := hB2.set "state" (.bool false) (by decide) (by decide) (by decide) (by decide)
  generalize hL3 : setKey "state" (.bool false) (setKey "end" (.int (gE pr.2 : Nat)) (setKey "begin" (.int (gB pr.1 : Nat)) L0)) = L3
    at hB3
  have hb3 : getKey "begin" L3 = .ok (.int (gB pr.1 : Nat)) := by
    rw [← hL3, getKey_setKey_ne _ _ _ _ (by decide), getKey_setKey_ne _ _ _ _ (by decide), getKey_setKey_same]
  have he3 : getKey "end" L3 = .ok (.int (gE pr.2 : Nat)) := by
    rw [← hL3, getKey_setKey_ne _ _ _ _ (by decide), getKey_setKey_same]
  have hs3 : getKey "state" L3 = .ok (.bool false) := by
    rw [← hL3, getKey_setKey_same]
  have hS3 : Scan L3 s a b acc (gE pr.2) none := ⟨hB3, he3, hs3, fun st hst => by cases hst⟩
  obtain ⟨L4, h4, hB4⟩ := scan_loop p opIn opOut hin hout σ s a b (gE pr.2) (gE pr.2 + 1 - gB pr.1) (gB pr.1) none L3 acc hS3
    (fun j hj1 hj2 => by omega) (fun st hst => by cases hst)
  refine ⟨L4, ?_, hB4⟩
  unfold scanS
  rw [x_seq, x_setLoc, hgB σ L0 acc pr.1 hB0 hb0, x_ok_bind, x_ok_bind, x_seq, x_setLoc, hgE σ _ acc pr.2 hB1 he1,
    x_ok_bind, x_ok_bind, x_seq, x_setLoc, e_bin, e_int, e_int, x_ok_bind, x_ok_bind, b_eq01, x_ok_bind, x_ok_bind, hL3, x_seq,
    exec_for (gB pr.1) ((gE pr.2 : Nat) + 1) (by rw [e_loc, hb3])
      (by rw [e_bin, e_loc, he3, x_ok_bind, e_int, x_ok_bind, b_add_int])]
  have hk : (((gE pr.2 : Nat) : Int) + 1 - ((gB pr.1 : Nat) : Int)).toNat = gE pr.2 + 1 - gB pr.1 := by omega
  rw [hk]
  exact h4

theorem runsAll_map (q : Nat → Bool) (g : Nat × Nat → Nat × Nat) (I : Ivs) :
    runsAll q (I.map g) = I.flatMap (fun p => runs q (g p).1 (g p).2) := by
  induction I with
  | nil => rfl
  | cons p I ih =>
    simp only [runsAll, List.map_cons, List.flatMap_cons] at ih ⊢
    rw [ih]

end ExplStl

open ExplStl

theorem fn_sat_timed_eventually (s : List α) (hs : 0 < s.length) (a b : Nat) (I : Ivs) :
    call (α := α) Gen.Expl.stl_explain_sat_timed_eventually [] [.list s, encI I, .int a, .int b]
      = .ok ([], encI (unionIvs (runsAll (fun i => isSat (atL s i)) (fwdI s.length a b I)))) := by
  have h := timed_call (scanS (fwdE "begin" "a") (fwdE "end" "b") .ge .lt)
    (fun p => runs (fun i => isSat (atL s i)) (min (p.1 + a) (s.length - 1)) (min (p.2 + b) (s.length - 1))) s a b I
    (fun σ L acc p _ hB => exec_scanS isSat .ge .lt b_ge_num0 (fun x => by rw [b_lt_num0]; simp [isSat, isUnsat]) s a b _ _ _ _
      (shift_fwd_begin s hs a b) (shift_fwd_end s hs a b) σ L acc p hB (by omega))
    Gen.Expl.stl_explain_sat_timed_eventually rfl
  rw [h, fwdI, runsAll_map]

theorem fn_unsat_timed_always (s : List α) (hs : 0 < s.length) (a b : Nat) (I : Ivs) :
    call (α := α) Gen.Expl.stl_explain_unsat_timed_always [] [.list s, encI I, .int a, .int b]
      = .ok ([], encI (unionIvs (runsAll (fun i => isUnsat (atL s i)) (fwdI s.length a b I)))) := by
  have h := timed_call (scanS (fwdE "begin" "a") (fwdE "end" "b") .lt .ge)
    (fun p => runs (fun i => isUnsat (atL s i)) (min (p.1 + a) (s.length - 1)) (min (p.2 + b) (s.length - 1))) s a b I
    (fun σ L acc p _ hB => exec_scanS isUnsat .lt .ge b_lt_num0 (fun x => by rw [b_ge_num0]; simp [isSat, isUnsat]) s a b _ _ _ _
      (shift_fwd_begin s hs a b) (shift_fwd_end s hs a b) σ L acc p hB (by omega))
    Gen.Expl.stl_explain_unsat_timed_always rfl
  rw [h, fwdI, runsAll_map]

theorem fn_sat_timed_once (s : List α) (a b : Nat) (I : Ivs) (h : InRange s.length I) :
    call (α := α) Gen.Expl.stl_explain_sat_timed_once [] [.list s, encI I, .int a, .int b]
      = .ok ([], encI (unionIvs (runsAll (fun i => isSat (atL s i)) (bwdI a b I)))) := by
  have h := timed_call (scanS (bwdE "begin" "b") (bwdE "end" "a") .ge .lt)
    (fun p => runs (fun i => isSat (atL s i)) (p.1 - b) (p.2 - a)) s a b I
    (fun σ L acc p hp hB => exec_scanS isSat .ge .lt b_ge_num0 (fun x => by rw [b_lt_num0]; simp [isSat, isUnsat]) s a b _ _ _ _
      (shift_bwd_begin s a b) (shift_bwd_end s a b) σ L acc p hB (by have := h p hp; omega))
    Gen.Expl.stl_explain_sat_timed_once rfl
  rw [h, bwdI, runsAll_map]

theorem fn_unsat_timed_historically (s : List α) (a b : Nat) (I : Ivs) (h : InRange s.length I) :
    call (α := α) Gen.Expl.stl_explain_unsat_timed_historically [] [.list s, encI I, .int a, .int b]
      = .ok ([], encI (unionIvs (runsAll (fun i => isUnsat (atL s i)) (bwdI a b I)))) := by
  have h := timed_call (scanS (bwdE "begin" "b") (bwdE "end" "a") .lt .ge)
    (fun p => runs (fun i => isUnsat (atL s i)) (p.1 - b) (p.2 - a)) s a b I
    (fun σ L acc p hp hB => exec_scanS isUnsat .lt .ge b_lt_num0 (fun x => by rw [b_ge_num0]; simp [isSat, isUnsat]) s a b _ _ _ _
      (shift_bwd_begin s a b) (shift_bwd_end s a b) σ L acc p hB (by have := h p hp; omega))
    Gen.Expl.stl_explain_unsat_timed_historically rfl
  rw [h, bwdI, runsAll_map]

end Rtamt.Py
