import RtamtProofs.GenDenseBase
namespace Rtamt.Py.Dn
open Rtamt Val Rtamt.Dense Rtamt.Dense.Alg
variable {α : Type} [Val α]

theorem gen_conjunction (fuel k : Nat) (a b : α) :
    callAt Gen.Dense.fns fuel (k + 1) "conjunction" [.val a, .val b] = .ok (.val (pmin a b) : DV α) := by
  rw [callAt_fn _ _ _ _ Gen.Dense.fn_conjunction _ rfl]
  simp [runFn, Gen.Dense.fn_conjunction, exec, evalE, getLoc, resolve, List.lookup,
    callAt_builtin Gen.Dense.fns fuel k "min" _ rfl, builtin, toVal]

def notBody : S := (.seq (.setLoc "out_time" (.idx (.loc "i") (.int 0))) (.seq (.setLoc "out_value" (.neg (.idx (.loc "i") (.int 1)))) (.appendLoc "sample_return" (.list2 (.loc "out_time") (.loc "out_value")))))

/-- one iteration of the loop of `visitNot` / `visitNegate`, on any locals that hold the list built so far -/
theorem notBody_step (call : Call α) (fuel : Nat) (env : Env α) (acc : List (DV α)) (t : Tm) (x : α)
    (h : getLoc "sample_return" env = .ok (.list acc)) :
    exec call fuel notBody (setLoc "i" (.smp t (.val x)) env) =
      .ok (setLoc "sample_return" (.list (acc ++ [.smp t (.val (Val.neg x))]))
            (setLoc "out_value" (.val (Val.neg x)) (setLoc "out_time" (.tm t) (setLoc "i" (.smp t (.val x)) env))), none) := by
  simp [notBody, exec, evalE, h, evalIdx, pyIndex, evalNeg, mkList2, toPayload]

theorem notLoop (call : Call α) (fuel : Nat) (s : ASig α) : ∀ (env : Env α) (acc : ASig α),
    getLoc "sample_return" env = .ok (encSig acc) →
    ∃ env', forLoop (fun p env => setLoc "i" p.1 env) (exec call fuel notBody)
        (s.map (fun v => (encSmp v, 0))) env = .ok (env', none) ∧
      getLoc "sample_return" env' = .ok (encSig (acc ++ s.map (fun p => (p.1, Val.neg p.2)))) := by
  induction s with
  | nil => intro env acc h; exact ⟨env, rfl, by simpa using h⟩
  | cons p s ih =>
      intro env acc h
      obtain ⟨t, x⟩ := p
      rw [List.map_cons, forLoop_cons]
      simp only [encSmp]
      rw [notBody_step call fuel env _ t x h]
      obtain ⟨env', h1, h2⟩ := ih (setLoc "sample_return" (.list (acc.map encSmp ++ [.smp t (.val (Val.neg x))]))
        (setLoc "out_value" (.val (Val.neg x)) (setLoc "out_time" (.tm t) (setLoc "i" (.smp t (.val x)) env))))
        (acc ++ [(t, Val.neg x)]) (by simp [encSig, encSmp])
      exact ⟨env', by simpa [encSmp] using h1, by simpa using h2⟩

end Rtamt.Py.Dn
