/-
  Obligations tying the model of the front end to the ANTLR grammar files of /repo
  (`Rtamt/Front/GeneratedGrammar.lean` is regenerated from `rtamt/antlr/grammar/tl/*.g4` on every run):

  * every literal spelling of a lexer rule is lexed by the model to exactly one token, all spellings of one
    rule to the same token (the aliases of C15), and different rules to different tokens;
  * the binary alternatives of `expression` appear in the grammar in the order of strictly decreasing
    binding level of the model's precedence table (`binLevel`), all operators of one alternative on one level;
  * the prefix alternatives (`not`, the temporal prefix operators) lie after the alternatives that bind at least as
    tightly as a comparison and before all looser binary alternatives (the model parses their operand at level 18),
    unary minus before every binary alternative (level 21).

  All are decided by evaluation (`decide`).
-/
import Rtamt.Front.GeneratedGrammar
import Rtamt.Front.Parser

namespace Rtamt.Front
open Generated

/-- The single token the model lexer produces for a literal. -/
def lexOne (s : String) : Option Tok :=
  match lex s with
  | .ok [t] => some t
  | _ => none

def allSameSome : List (Option Tok) → Bool
  | [] => false
  | none :: _ => false
  | some t :: rest => rest.all (· == some t)

/-- Token of a lexer rule (of its first literal). -/
def ruleTok (rule : String) : Option Tok :=
  match lexerLiterals.lookup rule with
  | some (l :: _) => lexOne l
  | _ => none

/-- Every lexer rule made of literals: all its spellings give one and the same model token. -/
theorem grammar_spellings :
    lexerLiterals.all (fun p => allSameSome (p.2.map lexOne)) = true := by
  decide +kernel

/-- Different lexer rules give different model tokens. -/
theorem grammar_tokens_distinct :
    (lexerLiterals.map (fun p => ruleTok p.1)).Nodup := by
  decide +kernel

/-- The operator tokens of a binary alternative `expression X interval? expression`. -/
def altOps (syms : List String) : List String :=
  match syms with
  | ["expression", x, "expression"] | ["expression", x, "interval?", "expression"] =>
      match opRules.lookup x with
      | some toks => toks
      | none => [x]
  | _ => []

/-- Binding levels (model) of the operators of each binary alternative, in grammar order. -/
def altLevels (alts : List (String × List String)) : List (List (Option Nat)) :=
  (alts.map (fun a => altOps a.2)).filter (· ≠ []) |>.map
    (fun ops => ops.map (fun r => (ruleTok r).bind binOfTok |>.map binLevel))

def oneLevel : List (Option Nat) → Option Nat
  | some n :: rest => if rest.all (· == some n) then some n else none
  | _ => none

def strictlyDecreasing : List (Option Nat) → Bool
  | some a :: some b :: rest => decide (b < a) && strictlyDecreasing (some b :: rest)
  | [some _] => true
  | [] => true
  | _ => false

/-- STL grammar: the binary alternatives are ordered by strictly decreasing model level. -/
theorem grammar_stl_binary_order : strictlyDecreasing ((altLevels stlExpression).map oneLevel) = true := by
  decide +kernel

/-- LTL grammar likewise. -/
theorem grammar_ltl_binary_order : strictlyDecreasing ((altLevels ltlExpression).map oneLevel) = true := by
  decide +kernel

/-- Index of the first alternative satisfying `p`. -/
def firstIdx (alts : List (String × List String)) (p : List String → Bool) : Option Nat :=
  (alts.zipIdx.find? (fun a => p a.1.2)).map (·.2)

def isPrefixAlt (syms : List String) : Bool :=
  match syms with
  | [x, "expression"] | [x, "interval?", "expression"] =>
      x ≠ "MINUS" && ((ruleTok x).bind preOfTok).isSome
  | _ => false

def levelOfAlt (syms : List String) : Option Nat := oneLevel ((altOps syms).map (fun r => (ruleTok r).bind binOfTok |>.map binLevel))

/-- Every prefix alternative comes after every binary alternative of level ≥ 18 and before every binary alternative of a
    lower level; unary minus comes before every binary alternative. -/
def prefixPlacement (alts : List (String × List String)) : Bool :=
  let idx := alts.zipIdx
  idx.all (fun a =>
    if isPrefixAlt a.1.2 then
      idx.all (fun b => match levelOfAlt b.1.2 with
        | some l => if 18 ≤ l then decide (b.2 < a.2) else decide (a.2 < b.2)
        | none => true)
    else if a.1.2 = ["MINUS", "expression"] then
      idx.all (fun b => match levelOfAlt b.1.2 with | some _ => decide (a.2 < b.2) | none => true)
    else true)

theorem grammar_stl_prefix_placement : prefixPlacement stlExpression = true := by
  decide +kernel

theorem grammar_ltl_prefix_placement : prefixPlacement ltlExpression = true := by
  decide +kernel

end Rtamt.Front
