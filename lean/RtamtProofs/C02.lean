/-
  C02 — Discrete-time online monitor equals offline evaluation at every step.

  "For every specification without future operators and every trace, the value
   returned by the i-th update() of the discrete-time online monitor equals the
   offline robustness of the same specification at sample i; it is therefore a
   function of the samples fed so far only …"
-/
import RtamtProofs.Lemmas.OnlineOps
import RtamtProofs.C01

namespace Rtamt
open Val

variable {α : Type} [Val α] [LawfulVal α]

/-- The stream of valuations fed to `update`: at step `t` variable `x` has value `σ x t`. -/
def envs (σ : String → Nat → α) (n : Nat) : List (String → α) := tab n (fun t x => σ x t)

/-! ### `online` per constructor -/

omit [Val α] [LawfulVal α] in
private theorem online_un {op : Un} {φ : F α} (h : (F.un op φ).online = true) :
    φ.online = true := by
  simp only [F.online, F.kinds, List.all_cons, Bool.and_eq_true] at h ⊢
  exact h.2

omit [Val α] [LawfulVal α] in
private theorem online_bin {op : Bin} {φ ψ : F α} (h : (F.bin op φ ψ).online = true) :
    φ.online = true ∧ ψ.online = true := by
  simp only [F.online, F.kinds, List.all_cons, List.all_append, Bool.and_eq_true] at h ⊢
  exact h.2

omit [Val α] [LawfulVal α] in
private theorem online_tmp1 {op : T1} {φ : F α} (h : (F.tmp1 op φ).online = true) :
    onlineKinds.contains op.kind = true ∧ φ.online = true := by
  simp only [F.online, F.kinds, List.all_cons, Bool.and_eq_true] at h ⊢
  exact h

omit [Val α] [LawfulVal α] in
private theorem online_tmp2 {op : T2} {φ ψ : F α} (h : (F.tmp2 op φ ψ).online = true) :
    onlineKinds.contains op.kind = true ∧ φ.online = true ∧ ψ.online = true := by
  simp only [F.online, F.kinds, List.all_cons, List.all_append, Bool.and_eq_true] at h ⊢
  exact h

omit [Val α] [LawfulVal α] in
private theorem online_tb1 {op : TB1} {a b : Nat} {φ : F α} (h : (F.tb1 op a b φ).online = true) :
    onlineKinds.contains op.kind = true ∧ φ.online = true := by
  simp only [F.online, F.kinds, List.all_cons, Bool.and_eq_true] at h ⊢
  exact h

omit [Val α] [LawfulVal α] in
private theorem online_tb2 {op : TB2} {a b : Nat} {φ ψ : F α}
    (h : (F.tb2 op a b φ ψ).online = true) :
    onlineKinds.contains op.kind = true ∧ φ.online = true ∧ ψ.online = true := by
  simp only [F.online, F.kinds, List.all_cons, List.all_append, Bool.and_eq_true] at h ⊢
  exact h

/-! ### window congruence -/

omit [LawfulVal α] in
private theorem maxOver_congr' (lo hi : Nat) (f g : Nat → α)
    (e : ∀ t, lo ≤ t → t < hi → f t = g t) : maxOver lo hi f = maxOver lo hi g := by
  unfold maxOver
  congr 1
  apply List.map_congr_left
  intro t ht
  rw [List.mem_range'_1] at ht
  exact e t ht.1 (by omega)

omit [LawfulVal α] in
private theorem minOver_congr' (lo hi : Nat) (f g : Nat → α)
    (e : ∀ t, lo ≤ t → t < hi → f t = g t) : minOver lo hi f = minOver lo hi g := by
  unfold minOver
  congr 1
  apply List.map_congr_left
  intro t ht
  rw [List.mem_range'_1] at ht
  exact e t ht.1 (by omega)

set_option linter.unusedSectionVars false in
/-- A formula without future operators looks at samples `≤ t` only: its value at `t` is the
    same on every trace that extends the prefix `0..t`, whatever the length. -/
theorem rho_online_prefix (φ : F α) (hon : φ.online = true) (σ σ' : String → Nat → α)
    (n n' t : Nat) (ht : t < n) (ht' : t < n')
    (hσ : ∀ x s, s ≤ t → σ x s = σ' x s) :
    rho σ n φ t = rho σ' n' φ t := by
  induction φ generalizing t with
  | var x => simp only [rho]; exact hσ x t le_rfl
  | const c => rfl
  | un op φ ih =>
    simp only [rho]
    rw [ih (online_un hon) t ht ht' hσ]
  | bin op φ ψ ih1 ih2 =>
    simp only [rho]
    rw [ih1 (online_bin hon).1 t ht ht' hσ, ih2 (online_bin hon).2 t ht ht' hσ]
  | tmp1 op φ ih =>
    obtain ⟨hk, hφ⟩ := online_tmp1 hon
    have key : ∀ s, s ≤ t → rho σ n φ s = rho σ' n' φ s := fun s hs =>
      ih hφ s (by omega) (by omega) (fun x u hu => hσ x u (by omega))
    cases op with
    | rise => simp only [rho, key 0 (Nat.zero_le _), key (t - 1) (Nat.sub_le _ _), key t le_rfl]
    | fall => simp only [rho, key 0 (Nat.zero_le _), key (t - 1) (Nat.sub_le _ _), key t le_rfl]
    | prev => simp only [rho, key (t - 1) (Nat.sub_le _ _)]
    | sprev => simp only [rho, key (t - 1) (Nat.sub_le _ _)]
    | next => exact absurd hk (by decide)
    | snext => exact absurd hk (by decide)
    | once =>
      simp only [rho]
      exact maxOver_congr' _ _ _ _ (fun s _ h2 => key s (by omega))
    | hist =>
      simp only [rho]
      exact minOver_congr' _ _ _ _ (fun s _ h2 => key s (by omega))
    | ev => exact absurd hk (by decide)
    | alw => exact absurd hk (by decide)
  | tmp2 op φ ψ ih1 ih2 =>
    obtain ⟨hk, hφ, hψ⟩ := online_tmp2 hon
    have key1 : ∀ s, s ≤ t → rho σ n φ s = rho σ' n' φ s := fun s hs =>
      ih1 hφ s (by omega) (by omega) (fun x u hu => hσ x u (by omega))
    have key2 : ∀ s, s ≤ t → rho σ n ψ s = rho σ' n' ψ s := fun s hs =>
      ih2 hψ s (by omega) (by omega) (fun x u hu => hσ x u (by omega))
    cases op with
    | since =>
      simp only [rho]
      apply maxOver_congr'
      intro s _ h2
      rw [key2 s (by omega), minOver_congr' _ _ _ _ (fun u _ h4 => key1 u (by omega))]
    | «until» => exact absurd hk (by decide)
  | tb1 op a b φ ih =>
    obtain ⟨hk, hφ⟩ := online_tb1 hon
    have key : ∀ s, s ≤ t → rho σ n φ s = rho σ' n' φ s := fun s hs =>
      ih hφ s (by omega) (by omega) (fun x u hu => hσ x u (by omega))
    cases op with
    | once =>
      simp only [rho]
      exact maxOver_congr' _ _ _ _ (fun s _ h2 => key s (by omega))
    | hist =>
      simp only [rho]
      exact minOver_congr' _ _ _ _ (fun s _ h2 => key s (by omega))
    | ev => exact absurd hk (by decide)
    | alw => exact absurd hk (by decide)
  | tb2 op a b φ ψ ih1 ih2 =>
    obtain ⟨hk, hφ, hψ⟩ := online_tb2 hon
    have key1 : ∀ s, s ≤ t → rho σ n φ s = rho σ' n' φ s := fun s hs =>
      ih1 hφ s (by omega) (by omega) (fun x u hu => hσ x u (by omega))
    have key2 : ∀ s, s ≤ t → rho σ n ψ s = rho σ' n' ψ s := fun s hs =>
      ih2 hψ s (by omega) (by omega) (fun x u hu => hσ x u (by omega))
    cases op with
    | since =>
      simp only [rho]
      apply maxOver_congr'
      intro s _ h2
      rw [key2 s (by omega), minOver_congr' _ _ _ _ (fun u _ h4 => key1 u (by omega))]
    | «until» => exact absurd hk (by decide)
    | precedes =>
      simp only [rho]
      apply maxOver_congr'
      intro s _ h2
      rw [key2 s (by omega), minOver_congr' _ _ _ _ (fun u _ h4 => key1 u (by omega))]

/-! ### `runTree` is compositional -/

omit [LawfulVal α] in
private theorem runTree_var (x : String) (es : List (String → α)) :
    runTree (.var x) .leaf es = .ok (.leaf, es.map (fun e => e x)) := by
  induction es with
  | nil => rfl
  | cons e es ih => simp [runTree, stepTree, ih, bind, Except.bind, pure, Except.pure]

omit [LawfulVal α] in
private theorem runTree_const (c : α) (es : List (String → α)) :
    runTree (.const c) .leaf es = .ok (.leaf, es.map (fun _ => c)) := by
  induction es with
  | nil => rfl
  | cons e es ih => simp [runTree, stepTree, ih, bind, Except.bind, pure, Except.pure]

omit [LawfulVal α] in
/-- A node with one child: run the child, then run the node's operation over the child's
    output stream. -/
private theorem runTree_n1 (χ φ : F α) (step : St α → α → Except PyErr (St α × α))
    (hstep : ∀ e s c, stepTree e χ (.n1 s c) =
      (do let (c', v) ← stepTree e φ c
          let (s', o) ← step s v
          pure (STree.n1 s' c', o))) :
    ∀ (es : List (String → α)) (s s' : St α) (c c' : STree α) (vs os : List α),
      runTree φ c es = .ok (c', vs) → runOp1 step s vs = .ok (s', os) →
      runTree χ (.n1 s c) es = .ok (.n1 s' c', os) := by
  intro es
  induction es with
  | nil =>
    intro s s' c c' vs os h1 h2
    simp only [runTree, Except.ok.injEq, Prod.mk.injEq] at h1
    obtain ⟨rfl, rfl⟩ := h1
    simp only [runOp1, Except.ok.injEq, Prod.mk.injEq] at h2
    obtain ⟨rfl, rfl⟩ := h2
    rfl
  | cons e es ih =>
    intro s s' c c' vs os h1 h2
    cases hs : stepTree e φ c with
    | error x => simp [runTree, hs, bind, Except.bind] at h1
    | ok p =>
      obtain ⟨c1, v⟩ := p
      cases hr : runTree φ c1 es with
      | error x => simp [runTree, hs, hr, bind, Except.bind] at h1
      | ok q =>
        obtain ⟨c2, vs'⟩ := q
        simp only [runTree, hs, hr, bind, Except.bind, pure, Except.pure, Except.ok.injEq,
          Prod.mk.injEq] at h1
        obtain ⟨rfl, rfl⟩ := h1
        cases ht : step s v with
        | error x => simp [runOp1, ht, bind, Except.bind] at h2
        | ok r =>
          obtain ⟨s1, o⟩ := r
          cases hq : runOp1 step s1 vs' with
          | error x => simp [runOp1, ht, hq, bind, Except.bind] at h2
          | ok u =>
            obtain ⟨s2, os'⟩ := u
            simp only [runOp1, ht, hq, bind, Except.bind, pure, Except.pure, Except.ok.injEq,
              Prod.mk.injEq] at h2
            obtain ⟨rfl, rfl⟩ := h2
            have := ih s1 s2 c1 c2 vs' os' hr hq
            simp [runTree, hstep, hs, ht, this, bind, Except.bind, pure, Except.pure]

omit [LawfulVal α] in
/-- A node with two children. -/
private theorem runTree_n2 (χ φ ψ : F α) (step : St α → α → α → Except PyErr (St α × α))
    (hstep : ∀ e s c1 c2, stepTree e χ (.n2 s c1 c2) =
      (do let (c1', v1) ← stepTree e φ c1
          let (c2', v2) ← stepTree e ψ c2
          let (s', o) ← step s v1 v2
          pure (STree.n2 s' c1' c2', o))) :
    ∀ (es : List (String → α)) (s s' : St α) (c1 c1' c2 c2' : STree α) (vs1 vs2 os : List α),
      runTree φ c1 es = .ok (c1', vs1) → runTree ψ c2 es = .ok (c2', vs2) →
      runOp2 step s (vs1.zip vs2) = .ok (s', os) →
      runTree χ (.n2 s c1 c2) es = .ok (.n2 s' c1' c2', os) := by
  intro es
  induction es with
  | nil =>
    intro s s' c1 c1' c2 c2' vs1 vs2 os h1 h1' h2
    simp only [runTree, Except.ok.injEq, Prod.mk.injEq] at h1 h1'
    obtain ⟨rfl, rfl⟩ := h1
    obtain ⟨rfl, rfl⟩ := h1'
    simp only [List.zip_nil_left, runOp2, Except.ok.injEq, Prod.mk.injEq] at h2
    obtain ⟨rfl, rfl⟩ := h2
    rfl
  | cons e es ih =>
    intro s s' c1 c1' c2 c2' vs1 vs2 os h1 h1' h2
    cases hs : stepTree e φ c1 with
    | error x => simp [runTree, hs, bind, Except.bind] at h1
    | ok p =>
      obtain ⟨d1, v1⟩ := p
      cases hr : runTree φ d1 es with
      | error x => simp [runTree, hs, hr, bind, Except.bind] at h1
      | ok q =>
        obtain ⟨d1', vs1'⟩ := q
        simp only [runTree, hs, hr, bind, Except.bind, pure, Except.pure, Except.ok.injEq,
          Prod.mk.injEq] at h1
        obtain ⟨rfl, rfl⟩ := h1
        cases hs' : stepTree e ψ c2 with
        | error x => simp [runTree, hs', bind, Except.bind] at h1'
        | ok p' =>
          obtain ⟨d2, v2⟩ := p'
          cases hr' : runTree ψ d2 es with
          | error x => simp [runTree, hs', hr', bind, Except.bind] at h1'
          | ok q' =>
            obtain ⟨d2', vs2'⟩ := q'
            simp only [runTree, hs', hr', bind, Except.bind, pure, Except.pure, Except.ok.injEq,
              Prod.mk.injEq] at h1'
            obtain ⟨rfl, rfl⟩ := h1'
            rw [List.zip_cons_cons] at h2
            cases ht : step s v1 v2 with
            | error x => simp [runOp2, ht, bind, Except.bind] at h2
            | ok r =>
              obtain ⟨s1, o⟩ := r
              cases hq : runOp2 step s1 (vs1'.zip vs2') with
              | error x => simp [runOp2, ht, hq, bind, Except.bind] at h2
              | ok u =>
                obtain ⟨s2, os'⟩ := u
                simp only [runOp2, ht, hq, bind, Except.bind, pure, Except.pure,
                  Except.ok.injEq, Prod.mk.injEq] at h2
                obtain ⟨rfl, rfl⟩ := h2
                have := ih s1 s2 d1 d1' d2 d2' vs1' vs2' os' hr hr' hq
                simp [runTree, hstep, hs, hs', ht, this, bind, Except.bind, pure, Except.pure]

omit [Val α] [LawfulVal α] in
private theorem runOp1_pointwise (u : α → α) (s : St α) (vs : List α) :
    runOp1 (fun s v => Except.ok (s, u v)) s vs = .ok (s, vs.map u) := by
  induction vs with
  | nil => rfl
  | cons v vs ih => simp [runOp1, ih, bind, Except.bind, pure, Except.pure]

omit [Val α] [LawfulVal α] in
private theorem runOp2_pointwise (u : α → α → α) (s : St α) (vs1 vs2 : List α) :
    runOp2 (fun s l r => Except.ok (s, u l r)) s (vs1.zip vs2) = .ok (s, List.zipWith u vs1 vs2) := by
  induction vs1 generalizing vs2 with
  | nil => simp [runOp2]
  | cons v vs ih =>
    cases vs2 with
    | nil => simp [runOp2]
    | cons w ws => simp [runOp2, ih, bind, Except.bind, pure, Except.pure]

private theorem map_tab'' {β γ : Type} (u : β → γ) (n : Nat) (g : Nat → β) :
    (tab n g).map u = tab n (fun t => u (g t)) := by
  unfold tab
  rw [List.map_map]
  rfl

/-- The generalisation proved by induction: construction succeeds and running the tree over
    the first `n` valuations returns the table of `rho`. -/
private theorem run_eq_rho_aux (h r : Kind → Bool) (σ : String → Nat → α) (n : Nat) (φ : F α)
    (hon : φ.online = true) (hwf : φ.wf = true)
    (hh : ∀ k ∈ φ.kinds, k ≠ .Constant → (h k = true ∧ r k = false)) :
    ∃ st0 st', initTree h r φ = .ok st0 ∧
      runTree φ st0 (envs σ n) = .ok (st', tab n (rho σ n φ)) := by
  induction φ with
  | var x =>
    have hk := hh .Variable (by simp [F.kinds]) (by simp)
    refine ⟨.leaf, .leaf, by simp [initTree, hk.1, hk.2], ?_⟩
    rw [runTree_var, envs, map_tab'']
    rfl
  | const c =>
    refine ⟨.leaf, .leaf, by simp [initTree], ?_⟩
    rw [runTree_const, envs, map_tab'']
    rfl
  | un op φ ih =>
    have hk := hh op.kind (by simp [F.kinds]) (by cases op <;> simp [Un.kind])
    obtain ⟨st0, st', hi, hr⟩ := ih (online_un hon) (by simpa [F.wf] using hwf)
      (fun k hk' => hh k (by simp [F.kinds, hk']))
    refine ⟨.n1 .unit st0, .n1 .unit st', ?_, ?_⟩
    · simp [initTree, hk.1, hk.2, hi, bind, Except.bind, pure, Except.pure]
    · refine runTree_n1 _ φ (fun s v => Except.ok (s, op.app v)) ?_ _ _ _ _ _ _ _ hr ?_
      · intro e s c
        simp only [stepTree]
        cases stepTree e φ c <;> rfl
      · rw [runOp1_pointwise, map_tab'']
        rfl
  | bin op φ ψ ih1 ih2 =>
    have hk := hh op.kind (by simp [F.kinds]) (by cases op <;> simp [Bin.kind])
    simp only [F.wf, Bool.and_eq_true] at hwf
    obtain ⟨a0, a', hi1, hr1⟩ := ih1 (online_bin hon).1 hwf.1
      (fun k hk' => hh k (by simp [F.kinds, hk']))
    obtain ⟨b0, b', hi2, hr2⟩ := ih2 (online_bin hon).2 hwf.2
      (fun k hk' => hh k (by simp [F.kinds, hk']))
    refine ⟨.n2 .unit a0 b0, .n2 .unit a' b', ?_, ?_⟩
    · simp [initTree, hk.1, hk.2, hi1, hi2, bind, Except.bind, pure, Except.pure]
    · refine runTree_n2 _ φ ψ (fun s l r => Except.ok (s, op.app l r)) ?_
        _ _ _ _ _ _ _ _ _ _ hr1 hr2 ?_
      · intro e s c1 c2
        simp only [stepTree]
        cases stepTree e φ c1 with
        | error x => rfl
        | ok p =>
          obtain ⟨c1', v1⟩ := p
          cases stepTree e ψ c2 <;> rfl
      · rw [runOp2_pointwise, zipWith_tab]
        rfl
  | tmp1 op φ ih =>
    have hk := hh op.kind (by simp [F.kinds]) (by cases op <;> simp [T1.kind])
    obtain ⟨hko, hφ⟩ := online_tmp1 hon
    obtain ⟨st0, st', hi, hr⟩ := ih hφ (by simpa [F.wf] using hwf)
      (fun k hk' => hh k (by simp [F.kinds, hk']))
    have hinit : initTree h r (.tmp1 op φ) = .ok (.n1 (initT1 op) st0) := by
      simp [initTree, hk.1, hk.2, hi, bind, Except.bind, pure, Except.pure]
    have hstep : ∀ e s c, stepTree e (.tmp1 op φ) (.n1 s c) =
        (do let (c', v) ← stepTree e φ c
            let (s', o) ← stepT1 op s v
            pure (STree.n1 s' c', o)) := by
      intro e s c; rfl
    cases op with
    | rise =>
      obtain ⟨s, hs⟩ := run_rise n (rho σ n φ)
      exact ⟨_, .n1 s st', hinit, runTree_n1 _ φ _ hstep _ _ _ _ _ _ _ hr hs⟩
    | fall =>
      obtain ⟨s, hs⟩ := run_fall n (rho σ n φ)
      exact ⟨_, .n1 s st', hinit, runTree_n1 _ φ _ hstep _ _ _ _ _ _ _ hr hs⟩
    | prev =>
      obtain ⟨s, hs⟩ := run_prev n (rho σ n φ)
      exact ⟨_, .n1 s st', hinit, runTree_n1 _ φ _ hstep _ _ _ _ _ _ _ hr hs⟩
    | sprev =>
      obtain ⟨s, hs⟩ := run_sprev n (rho σ n φ)
      exact ⟨_, .n1 s st', hinit, runTree_n1 _ φ _ hstep _ _ _ _ _ _ _ hr hs⟩
    | next => exact absurd hko (by decide)
    | snext => exact absurd hko (by decide)
    | once =>
      obtain ⟨s, hs⟩ := run_once n (rho σ n φ)
      exact ⟨_, .n1 s st', hinit, runTree_n1 _ φ _ hstep _ _ _ _ _ _ _ hr hs⟩
    | hist =>
      obtain ⟨s, hs⟩ := run_hist n (rho σ n φ)
      exact ⟨_, .n1 s st', hinit, runTree_n1 _ φ _ hstep _ _ _ _ _ _ _ hr hs⟩
    | ev => exact absurd hko (by decide)
    | alw => exact absurd hko (by decide)
  | tmp2 op φ ψ ih1 ih2 =>
    have hk := hh op.kind (by simp [F.kinds]) (by cases op <;> simp [T2.kind])
    obtain ⟨hko, hφ, hψ⟩ := online_tmp2 hon
    simp only [F.wf, Bool.and_eq_true] at hwf
    obtain ⟨a0, a', hi1, hr1⟩ := ih1 hφ hwf.1 (fun k hk' => hh k (by simp [F.kinds, hk']))
    obtain ⟨b0, b', hi2, hr2⟩ := ih2 hψ hwf.2 (fun k hk' => hh k (by simp [F.kinds, hk']))
    have hinit : initTree h r (.tmp2 op φ ψ) = .ok (.n2 (initT2 op) a0 b0) := by
      simp [initTree, hk.1, hk.2, hi1, hi2, bind, Except.bind, pure, Except.pure]
    have hstep : ∀ e s c1 c2, stepTree e (.tmp2 op φ ψ) (.n2 s c1 c2) =
        (do let (c1', v1) ← stepTree e φ c1
            let (c2', v2) ← stepTree e ψ c2
            let (s', o) ← stepT2 op s v1 v2
            pure (STree.n2 s' c1' c2', o)) := by
      intro e s c1 c2; rfl
    cases op with
    | since =>
      obtain ⟨s, hs⟩ := run_since n (rho σ n φ) (rho σ n ψ)
      exact ⟨_, .n2 s a' b', hinit,
        runTree_n2 _ φ ψ _ hstep _ _ _ _ _ _ _ _ _ _ hr1 hr2 hs⟩
    | «until» => exact absurd hko (by decide)
  | tb1 op a b φ ih =>
    have hk := hh op.kind (by simp [F.kinds]) (by cases op <;> simp [TB1.kind])
    obtain ⟨hko, hφ⟩ := online_tb1 hon
    simp only [F.wf, Bool.and_eq_true, decide_eq_true_eq] at hwf
    obtain ⟨st0, st', hi, hr⟩ := ih hφ hwf.2 (fun k hk' => hh k (by simp [F.kinds, hk']))
    have hinit : initTree h r (.tb1 op a b φ) = .ok (.n1 (initTB1 op b) st0) := by
      simp [initTree, hk.1, hk.2, hi, bind, Except.bind, pure, Except.pure]
    have hstep : ∀ e s c, stepTree e (.tb1 op a b φ) (.n1 s c) =
        (do let (c', v) ← stepTree e φ c
            let (s', o) ← stepTB1 op a b s v
            pure (STree.n1 s' c', o)) := by
      intro e s c; rfl
    cases op with
    | once =>
      obtain ⟨s, hs⟩ := run_onceB a b hwf.1 n (rho σ n φ)
      exact ⟨_, .n1 s st', hinit, runTree_n1 _ φ _ hstep _ _ _ _ _ _ _ hr hs⟩
    | hist =>
      obtain ⟨s, hs⟩ := run_histB a b hwf.1 n (rho σ n φ)
      exact ⟨_, .n1 s st', hinit, runTree_n1 _ φ _ hstep _ _ _ _ _ _ _ hr hs⟩
    | ev => exact absurd hko (by decide)
    | alw => exact absurd hko (by decide)
  | tb2 op a b φ ψ ih1 ih2 =>
    have hk := hh op.kind (by simp [F.kinds]) (by cases op <;> simp [TB2.kind])
    obtain ⟨hko, hφ, hψ⟩ := online_tb2 hon
    simp only [F.wf, Bool.and_eq_true, decide_eq_true_eq] at hwf
    obtain ⟨a0, a', hi1, hr1⟩ := ih1 hφ hwf.1.2 (fun k hk' => hh k (by simp [F.kinds, hk']))
    obtain ⟨b0, b', hi2, hr2⟩ := ih2 hψ hwf.2 (fun k hk' => hh k (by simp [F.kinds, hk']))
    have hinit : initTree h r (.tb2 op a b φ ψ) = .ok (.n2 (initTB2 op b) a0 b0) := by
      simp [initTree, hk.1, hk.2, hi1, hi2, bind, Except.bind, pure, Except.pure]
    have hstep : ∀ e s c1 c2, stepTree e (.tb2 op a b φ ψ) (.n2 s c1 c2) =
        (do let (c1', v1) ← stepTree e φ c1
            let (c2', v2) ← stepTree e ψ c2
            let (s', o) ← stepTB2 op a b s v1 v2
            pure (STree.n2 s' c1' c2', o)) := by
      intro e s c1 c2; rfl
    cases op with
    | since =>
      obtain ⟨s, hs⟩ := run_sinceB a b hwf.1.1 n (rho σ n φ) (rho σ n ψ)
      exact ⟨_, .n2 s a' b', hinit,
        runTree_n2 _ φ ψ _ hstep _ _ _ _ _ _ _ _ _ _ hr1 hr2 hs⟩
    | «until» => exact absurd hko (by decide)
    | precedes =>
      obtain ⟨s, hs⟩ := run_precedesB a b hwf.1.1 n (rho σ n φ) (rho σ n ψ)
      exact ⟨_, .n2 s a' b', hinit,
        runTree_n2 _ φ ψ _ hstep _ _ _ _ _ _ _ _ _ _ hr1 hr2 hs⟩

/-- Main theorem: a freshly constructed monitor fed `n` samples returns `rho φ w t` at the
    `t`-th update, for every formula without future operators whose node classes the
    construction visitor supports (`h`, `r`). -/
theorem C02_run_eq_rho (h r : Kind → Bool) (σ : String → Nat → α) (n : Nat) (φ : F α)
    (hon : φ.online = true) (hwf : φ.wf = true)
    (hh : ∀ k ∈ φ.kinds, k ≠ .Constant → (h k = true ∧ r k = false)) :
    runOnline h r φ (envs σ n) = .ok (tab n (rho σ n φ)) := by
  obtain ⟨st0, st', hi, hr⟩ := run_eq_rho_aux h r σ n φ hon hwf hh
  simp [runOnline, hi, hr, bind, Except.bind, pure, Except.pure]

/-- The value returned by the `i`-th update (after feeding the prefix `0..i`) is the `i`-th
    value of offline `evaluate` on any data set of `N > i` samples that extends the prefix. -/
theorem C02_online_eq_offline (h r hoff : Kind → Bool) (σ : String → Nat → α) (N i : Nat) (hi : i < N)
    (φ : F α) (hon : φ.online = true) (hwf : φ.wf = true)
    (hh : ∀ k ∈ φ.kinds, k ≠ .Constant → (h k = true ∧ r k = false))
    (hhoff : ∀ k ∈ φ.kinds, hoff k = true) (hp : φ.noPrecedes)
    (w : Env α) (hw : w.Agrees σ N φ.vars) :
    ∃ outs offl, runOnline h r φ (envs σ (i + 1)) = .ok outs ∧ evalOff hoff w N φ = .ok offl ∧
      outs[i]? = offl[i]? ∧ outs.length = i + 1 := by
  refine ⟨_, _, C02_run_eq_rho h r σ (i + 1) φ hon hwf hh,
    C01_offline_eq_rho hoff w σ N (by omega) φ hwf hhoff hp hw, ?_, tab_length _ _⟩
  rw [tab_getElem?, tab_getElem?, if_pos (Nat.lt_succ_self i), if_pos hi,
    rho_online_prefix φ hon σ σ (i + 1) N i (Nat.lt_succ_self i) hi (fun _ _ _ => rfl)]

end Rtamt
