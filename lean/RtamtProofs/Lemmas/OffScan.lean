/-
  Offline list algorithms = README clauses, part 1: scans, shifts, rise/fall.
-/
import RtamtProofs.Lemmas.Tab

namespace Rtamt
open Val

/-! ### generic list facts about `tab` (no order needed) -/

section Generic
variable {β γ δ : Type}

private theorem tab_zero' (g : Nat → β) : tab 0 g = [] := rfl

private theorem zipWith_tab' (u : β → γ → δ) (n : Nat) (f : Nat → β) (g : Nat → γ) :
    List.zipWith u (tab n f) (tab n g) = tab n (fun t => u (f t) (g t)) := by
  induction n generalizing f g with
  | zero => rfl
  | succ n ih =>
    rw [tab_succ, tab_succ, tab_succ, List.zipWith_cons_cons, ih]

private theorem map_tab' (u : β → γ) (n : Nat) (g : Nat → β) :
    (tab n g).map u = tab n (fun t => u (g t)) := by
  unfold tab
  rw [List.map_map]
  rfl

private theorem zip_tab' (n : Nat) (f : Nat → β) (g : Nat → γ) :
    (tab n f).zip (tab n g) = tab n (fun t => (f t, g t)) :=
  zipWith_tab' Prod.mk n f g

private theorem cons_tab' (x : β) (n : Nat) (g : Nat → β) :
    x :: tab n g = tab (n + 1) (fun t => if t = 0 then x else g (t - 1)) := by
  rw [tab_succ]
  simp

private theorem tab_reverse' (n : Nat) (g : Nat → β) :
    (tab n g).reverse = tab n (fun t => g (n - 1 - t)) := by
  induction n generalizing g with
  | zero => rfl
  | succ n ih =>
    rw [tab_succ, List.reverse_cons, ih, tab_succ_last]
    congr 1
    · apply tab_congr
      intro t ht
      have : n + 1 - 1 - t = n - 1 - t + 1 := by omega
      rw [this]
    · simp

/-- A forward scan of a table is the table of any function satisfying the scan's recurrence. -/
private theorem scanFwd_tab_rec [Val β] (f : β → β → β) (n : Nat) :
    ∀ (acc : β) (g F : Nat → β),
      (0 < n → F 0 = f (g 0) acc) →
      (∀ t, t + 1 < n → F (t + 1) = f (g (t + 1)) (F t)) →
      scanFwd f acc (tab n g) = tab n F := by
  induction n with
  | zero => intros; rfl
  | succ n ih =>
    intro acc g F h0 hs
    rw [tab_succ, tab_succ]
    show f (g 0) acc :: scanFwd f (f (g 0) acc) (tab n fun t => g (t + 1)) = _
    rw [← h0 (Nat.succ_pos n)]
    congr 1
    apply ih
    · intro hn
      exact hs 0 (by omega)
    · intro t ht
      exact hs (t + 1) (by omega)

private theorem scan2_tab_rec [Val β] (n : Nat) :
    ∀ (acc : β) (p : Nat → β × β) (F : Nat → β),
      (0 < n → F 0 = sinceStep acc (p 0)) →
      (∀ t, t + 1 < n → F (t + 1) = sinceStep (F t) (p (t + 1))) →
      scan2 acc (tab n p) = tab n F := by
  induction n with
  | zero => intros; rfl
  | succ n ih =>
    intro acc p F h0 hs
    rw [tab_succ, tab_succ]
    show sinceStep acc (p 0) :: scan2 (sinceStep acc (p 0)) (tab n fun t => p (t + 1)) = _
    rw [← h0 (Nat.succ_pos n)]
    congr 1
    apply ih
    · intro hn
      exact hs 0 (by omega)
    · intro t ht
      exact hs (t + 1) (by omega)

end Generic

variable {α : Type} [Val α] [LawfulVal α]

/-! ### window algebra -/

private theorem maxOver_empty (lo hi : Nat) (h : Nat → α) (hle : hi ≤ lo) :
    maxOver lo hi h = ninf := by
  apply eq_of_ub
  intro c
  rw [maxOver_le_iff, LawfulVal.ninf_bot]
  constructor
  · intro _; exact bot_le
  · intro _ t h1 h2; omega

private theorem minOver_empty (lo hi : Nat) (h : Nat → α) (hle : hi ≤ lo) :
    minOver lo hi h = pinf := by
  apply eq_of_lb
  intro c
  rw [le_minOver_iff, LawfulVal.pinf_top]
  constructor
  · intro _; exact le_top
  · intro _ t h1 h2; omega

private theorem maxOver_succ_right (lo hi : Nat) (h : Nat → α) (hle : lo ≤ hi) :
    maxOver lo (hi + 1) h = max (maxOver lo hi h) (h hi) := by
  apply eq_of_ub
  intro c
  simp only [max_le_iff, maxOver_le_iff]
  constructor
  · intro H
    exact ⟨fun t h1 h2 => H t h1 (by omega), H hi hle (by omega)⟩
  · rintro ⟨H1, H2⟩ t h1 h2
    by_cases e : t = hi
    · subst e; exact H2
    · exact H1 t h1 (by omega)

private theorem minOver_succ_right (lo hi : Nat) (h : Nat → α) (hle : lo ≤ hi) :
    minOver lo (hi + 1) h = min (minOver lo hi h) (h hi) := by
  apply eq_of_lb
  intro c
  simp only [le_min_iff, le_minOver_iff]
  constructor
  · intro H
    exact ⟨fun t h1 h2 => H t h1 (by omega), H hi hle (by omega)⟩
  · rintro ⟨H1, H2⟩ t h1 h2
    by_cases e : t = hi
    · subst e; exact H2
    · exact H1 t h1 (by omega)

private theorem maxOver_succ_left (lo hi : Nat) (h : Nat → α) (hlt : lo < hi) :
    maxOver lo hi h = max (h lo) (maxOver (lo + 1) hi h) := by
  apply eq_of_ub
  intro c
  simp only [max_le_iff, maxOver_le_iff]
  constructor
  · intro H
    exact ⟨H lo (le_refl _) hlt, fun t h1 h2 => H t (by omega) h2⟩
  · rintro ⟨H1, H2⟩ t h1 h2
    by_cases e : t = lo
    · subst e; exact H1
    · exact H2 t (by omega) h2

private theorem minOver_succ_left (lo hi : Nat) (h : Nat → α) (hlt : lo < hi) :
    minOver lo hi h = min (h lo) (minOver (lo + 1) hi h) := by
  apply eq_of_lb
  intro c
  simp only [le_min_iff, le_minOver_iff]
  constructor
  · intro H
    exact ⟨H lo (le_refl _) hlt, fun t h1 h2 => H t (by omega) h2⟩
  · rintro ⟨H1, H2⟩ t h1 h2
    by_cases e : t = lo
    · subst e; exact H1
    · exact H2 t (by omega) h2

private theorem maxOver_congr (lo hi : Nat) (h h' : Nat → α)
    (e : ∀ t, lo ≤ t → t < hi → h t = h' t) : maxOver lo hi h = maxOver lo hi h' := by
  apply eq_of_ub
  intro c
  simp only [maxOver_le_iff]
  constructor
  · intro H t h1 h2; rw [← e t h1 h2]; exact H t h1 h2
  · intro H t h1 h2; rw [e t h1 h2]; exact H t h1 h2

/-- `max_t min(a, h t) = min(a, max_t h t)`. -/
private theorem maxOver_min_left (lo hi : Nat) (a : α) (h : Nat → α) :
    maxOver lo hi (fun t => min a (h t)) = min a (maxOver lo hi h) := by
  apply eq_of_ub
  intro c
  simp only [min_le_iff, maxOver_le_iff]
  by_cases hc : a ≤ c
  · simp [hc]
  · simp [hc]

private theorem max_bot' (a : α) : max a (ninf : α) = a := by
  rw [LawfulVal.ninf_bot]; exact max_eq_left bot_le

private theorem bot_max' (a : α) : max (ninf : α) a = a := by
  rw [LawfulVal.ninf_bot]; exact max_eq_right bot_le

private theorem min_top' (a : α) : min a (pinf : α) = a := by
  rw [LawfulVal.pinf_top]; exact min_eq_left le_top

private theorem top_min' (a : α) : min (pinf : α) a = a := by
  rw [LawfulVal.pinf_top]; exact min_eq_right le_top

private theorem min_bot' (a : α) : min a (ninf : α) = ninf := by
  rw [LawfulVal.ninf_bot]; exact min_eq_right bot_le

/-! ### the since / until recurrences on the specification side -/

private def sinceSpec (f g : Nat → α) (t : Nat) : α :=
  maxOver 0 (t + 1) (fun t' => pmin (g t') (minOver (t' + 1) (t + 1) f))

private def untilSpec (n : Nat) (f g : Nat → α) (t : Nat) : α :=
  maxOver t n (fun t' => pmin (g t') (minOver t t' f))

private theorem sinceSpec_zero (f g : Nat → α) :
    sinceSpec f g 0 = sinceStep ninf (f 0, g 0) := by
  unfold sinceSpec sinceStep
  rw [maxOver_succ_right 0 0 _ (le_refl _), maxOver_empty 0 0 _ (le_refl _)]
  simp only [pmax_eq, pmin_eq]
  rw [minOver_empty _ _ _ (le_refl _), min_top', min_bot']

private theorem sinceSpec_succ (f g : Nat → α) (t : Nat) :
    sinceSpec f g (t + 1) = sinceStep (sinceSpec f g t) (f (t + 1), g (t + 1)) := by
  unfold sinceSpec sinceStep
  rw [maxOver_succ_right 0 (t + 1) _ (Nat.zero_le _)]
  simp only [pmax_eq, pmin_eq]
  rw [minOver_empty _ _ _ (le_refl _), min_top']
  congr 1
  rw [← maxOver_min_left]
  apply maxOver_congr
  intro t' _ h2
  rw [minOver_succ_right (t' + 1) (t + 1) f (by omega), min_comm (minOver _ _ _), min_left_comm]

private theorem untilSpec_end (n : Nat) (f g : Nat → α) : untilSpec n f g n = ninf := by
  unfold untilSpec
  exact maxOver_empty _ _ _ (le_refl _)

private theorem untilSpec_step (n : Nat) (f g : Nat → α) (t : Nat) (ht : t < n) :
    untilSpec n f g t = sinceStep (untilSpec n f g (t + 1)) (f t, g t) := by
  unfold untilSpec sinceStep
  rw [maxOver_succ_left t n _ ht]
  simp only [pmax_eq, pmin_eq]
  rw [minOver_empty _ _ _ (le_refl _), min_top', max_comm]
  congr 1
  rw [← maxOver_min_left]
  apply maxOver_congr
  intro t' h1 _
  rw [minOver_succ_left t t' f (by omega), min_left_comm]

/-! ### the theorems -/

theorem scanFwd_once (n : Nat) (g : Nat → α) :
    scanFwd pmax ninf (tab n g) = tab n (fun t => maxOver 0 (t + 1) g) := by
  apply scanFwd_tab_rec
  · intro _
    rw [maxOver_succ_right 0 0 _ (le_refl _), maxOver_empty 0 0 _ (le_refl _), pmax_eq, max_comm]
  · intro t _
    rw [maxOver_succ_right 0 (t + 1) _ (Nat.zero_le _), pmax_eq, max_comm]

theorem scanFwd_hist (n : Nat) (g : Nat → α) :
    scanFwd pmin pinf (tab n g) = tab n (fun t => minOver 0 (t + 1) g) := by
  apply scanFwd_tab_rec
  · intro _
    rw [minOver_succ_right 0 0 _ (le_refl _), minOver_empty 0 0 _ (le_refl _), pmin_eq, min_comm]
  · intro t _
    rw [minOver_succ_right 0 (t + 1) _ (Nat.zero_le _), pmin_eq, min_comm]

theorem scanRev_ev (n : Nat) (g : Nat → α) :
    (scanFwd pmax ninf (tab n g).reverse).reverse = tab n (fun t => maxOver t n g) := by
  rw [tab_reverse',
    scanFwd_tab_rec pmax n ninf _ (fun s => maxOver (n - 1 - s) n g), tab_reverse']
  · apply tab_congr
    intro t ht
    have : n - 1 - (n - 1 - t) = t := by omega
    rw [this]
  · intro hn
    show maxOver (n - 1 - 0) n g = pmax (g (n - 1 - 0)) ninf
    rw [maxOver_succ_left _ _ _ (by omega), maxOver_empty _ _ _ (by omega), pmax_eq]
  · intro s hs
    show maxOver (n - 1 - (s + 1)) n g = pmax (g (n - 1 - (s + 1))) (maxOver (n - 1 - s) n g)
    have e : n - 1 - s = n - 1 - (s + 1) + 1 := by omega
    rw [maxOver_succ_left (n - 1 - (s + 1)) n g (by omega), pmax_eq, e]

theorem scanRev_alw (n : Nat) (g : Nat → α) :
    (scanFwd pmin pinf (tab n g).reverse).reverse = tab n (fun t => minOver t n g) := by
  rw [tab_reverse',
    scanFwd_tab_rec pmin n pinf _ (fun s => minOver (n - 1 - s) n g), tab_reverse']
  · apply tab_congr
    intro t ht
    have : n - 1 - (n - 1 - t) = t := by omega
    rw [this]
  · intro hn
    show minOver (n - 1 - 0) n g = pmin (g (n - 1 - 0)) pinf
    rw [minOver_succ_left _ _ _ (by omega), minOver_empty _ _ _ (by omega), pmin_eq]
  · intro s hs
    show minOver (n - 1 - (s + 1)) n g = pmin (g (n - 1 - (s + 1))) (minOver (n - 1 - s) n g)
    have e : n - 1 - s = n - 1 - (s + 1) + 1 := by omega
    rw [minOver_succ_left (n - 1 - (s + 1)) n g (by omega), pmin_eq, e]

theorem scan2_since (n : Nat) (f g : Nat → α) :
    scan2 ninf ((tab n f).zip (tab n g)) =
      tab n (fun t => maxOver 0 (t + 1) (fun t' => pmin (g t') (minOver (t' + 1) (t + 1) f))) := by
  rw [zip_tab']
  apply scan2_tab_rec n ninf _ (sinceSpec f g)
  · intro _; exact sinceSpec_zero f g
  · intro t _; exact sinceSpec_succ f g t

theorem scan2_until (n : Nat) (f g : Nat → α) :
    (scan2 ninf ((tab n f).zip (tab n g)).reverse).reverse =
      tab n (fun t => maxOver t n (fun t' => pmin (g t') (minOver t t' f))) := by
  rw [zip_tab', tab_reverse',
    scan2_tab_rec n ninf _ (fun s => untilSpec n f g (n - 1 - s)), tab_reverse']
  · apply tab_congr
    intro t ht
    have : n - 1 - (n - 1 - t) = t := by omega
    rw [this]
    rfl
  · intro hn
    show untilSpec n f g (n - 1 - 0) = sinceStep ninf (f (n - 1 - 0), g (n - 1 - 0))
    rw [untilSpec_step n f g _ (by omega)]
    have e : n - 1 - 0 + 1 = n := by omega
    rw [e, untilSpec_end]
  · intro s hs
    show untilSpec n f g (n - 1 - (s + 1)) =
      sinceStep (untilSpec n f g (n - 1 - s)) (f (n - 1 - (s + 1)), g (n - 1 - (s + 1)))
    have e : n - 1 - s = n - 1 - (s + 1) + 1 := by omega
    rw [untilSpec_step n f g _ (by omega), e]

set_option linter.unusedSectionVars false in
theorem shiftFwd_tab (init : α) (n : Nat) (g : Nat → α) :
    shiftFwd init (tab n g) = tab n (fun t => if t = 0 then init else g (t - 1)) := by
  induction n generalizing init g with
  | zero => rfl
  | succ n ih =>
    rw [tab_succ, tab_succ]
    show init :: shiftFwd (g 0) (tab n fun t => g (t + 1)) = _
    rw [ih]
    congr 1
    apply tab_congr
    intro t _
    cases t with
    | zero => simp
    | succ t => simp

set_option linter.unusedSectionVars false in
theorem next_tab (x : α) (n : Nat) (hn : 0 < n) (g : Nat → α) :
    (tab n g).drop 1 ++ [x] = tab n (fun t => if t + 1 < n then g (t + 1) else x) := by
  obtain ⟨m, rfl⟩ : ∃ m, n = m + 1 := ⟨n - 1, by omega⟩
  rw [tab_succ, tab_succ_last]
  simp only [List.drop_succ_cons, List.drop_zero, Nat.lt_irrefl, if_false]
  congr 1
  apply tab_congr
  intro t ht
  rw [if_pos (by omega)]

theorem rise_tab (n : Nat) (g : Nat → α) :
    List.zipWith (fun p x => pmin (neg p) x) (ninf :: (tab n g).dropLast) (tab n g) =
      tab n (fun t => if t = 0 then g 0 else pmin (neg (g (t - 1))) (g t)) := by
  cases n with
  | zero => rfl
  | succ m =>
    have e : (tab (m + 1) g).dropLast = tab m g := by
      rw [tab_succ_last, List.dropLast_concat]
    rw [e, cons_tab', zipWith_tab']
    apply tab_congr
    intro t _
    by_cases h : t = 0
    · subst h
      simp only [if_true]
      rw [neg_ninf, pmin_eq, top_min']
    · simp only [if_neg h]

theorem fall_tab (n : Nat) (g : Nat → α) :
    List.zipWith (fun p x => pmin p (neg x)) (pinf :: (tab n g).dropLast) (tab n g) =
      tab n (fun t => if t = 0 then neg (g 0) else pmin (g (t - 1)) (neg (g t))) := by
  cases n with
  | zero => rfl
  | succ m =>
    have e : (tab (m + 1) g).dropLast = tab m g := by
      rw [tab_succ_last, List.dropLast_concat]
    rw [e, cons_tab', zipWith_tab']
    apply tab_congr
    intro t _
    by_cases h : t = 0
    · subst h
      simp only [if_true]
      rw [pmin_eq, top_min']
    · simp only [if_neg h]

set_option linter.unusedSectionVars false in
theorem map_tab {β : Type} (u : α → β) (n : Nat) (g : Nat → α) :
    (tab n g).map u = tab n (fun t => u (g t)) :=
  map_tab' u n g

set_option linter.unusedSectionVars false in
theorem zipWith_tab (u : α → α → α) (n : Nat) (f g : Nat → α) :
    List.zipWith u (tab n f) (tab n g) = tab n (fun t => u (f t) (g t)) :=
  zipWith_tab' u n f g

set_option linter.unusedSectionVars false in
theorem replicate_tab (n : Nat) (c : α) : List.replicate n c = tab n (fun _ => c) := by
  induction n with
  | zero => rfl
  | succ n ih => rw [tab_succ, List.replicate_succ, ih]

end Rtamt
