/-
  Offline list algorithms = README clauses, part 2: bounded once/historically
  (padded slices) and bounded eventually/always (three-piece construction).
-/
import RtamtProofs.Lemmas.Tab

namespace Rtamt
open Val

variable {α : Type} [Val α] [LawfulVal α]

/-! ### generic helpers -/

omit [Val α] [LawfulVal α] in
theorem mem_slice {l : List α} {i j : Nat} {x : α} :
    x ∈ slice l i j ↔ ∃ k, i ≤ k ∧ k < j ∧ l[k]? = some x := by
  unfold slice
  rw [List.mem_iff_getElem?]
  constructor
  · rintro ⟨m, hm⟩
    rw [List.getElem?_take] at hm
    split at hm
    · rw [List.getElem?_drop] at hm
      exact ⟨i + m, by omega, by omega, hm⟩
    · cases hm
  · rintro ⟨k, h1, h2, h3⟩
    refine ⟨k - i, ?_⟩
    rw [List.getElem?_take, if_pos (by omega), List.getElem?_drop]
    have : i + (k - i) = k := by omega
    rw [this]
    exact h3

omit [Val α] [LawfulVal α] in
theorem slice_ne_nil {l : List α} {i j : Nat} (hi : i < l.length) (hij : i < j) :
    slice l i j ≠ [] := by
  have : l[i] ∈ slice l i j := mem_slice.2 ⟨i, le_rfl, hij, List.getElem?_eq_getElem hi⟩
  exact List.ne_nil_of_mem this

omit [Val α] [LawfulVal α] in
theorem mapM_range' {f : Nat → Except PyErr α} : ∀ (n s : Nat) (G : Nat → α),
    (∀ t, t < n → f (s + t) = .ok (G t)) → (List.range' s n).mapM f = .ok (tab n G)
  | 0, s, G, _ => by simp [tab, pure, Except.pure]
  | n + 1, s, G, h => by
    have h0 := h 0 (by omega)
    rw [Nat.add_zero] at h0
    have ih := mapM_range' n (s + 1) (fun t => G (t + 1)) (fun t ht => by
      rw [← h (t + 1) (by omega)]
      congr 1
      omega)
    rw [List.range'_succ, List.mapM_cons, tab_succ, h0, ih]
    rfl

/-- What the proofs need of an aggregator (`max`/`min` of a non-empty list) with its neutral
    padding element and the window operator of the specification. -/
def AggSpec (agg : List α → Except PyErr α) (pad : α) (over : Nat → Nat → (Nat → α) → α) : Prop :=
  (∀ (l : List α) (lo hi : Nat) (g : Nat → α), l ≠ [] →
    (∀ x ∈ l, x = pad ∨ ∃ k, lo ≤ k ∧ k < hi ∧ x = g k) →
    (∀ k, lo ≤ k → k < hi → g k ∈ l) → agg l = .ok (over lo hi g)) ∧
  (∀ (lo hi : Nat) (g : Nat → α), hi ≤ lo → over lo hi g = pad)

theorem aggSpec_max : AggSpec (α := α) pymax ninf maxOver := by
  refine ⟨?_, ?_⟩
  · intro l lo hi g hne h1 h2
    cases l with
    | nil => exact absurd rfl hne
    | cons x xs =>
      show Except.ok (lmaxFrom x xs) = _
      congr 1
      apply eq_of_ub
      intro c
      rw [lmaxFrom_le_iff, maxOver_le_iff]
      constructor
      · rintro ⟨hx, hxs⟩ k hk1 hk2
        rcases List.mem_cons.1 (h2 k hk1 hk2) with e | e
        · rw [e]; exact hx
        · exact hxs _ e
      · intro h
        have key : ∀ y ∈ x :: xs, y ≤ c := by
          intro y hy
          rcases h1 y hy with e | ⟨k, hk1, hk2, e⟩
          · rw [e, LawfulVal.ninf_bot]; exact bot_le
          · rw [e]; exact h k hk1 hk2
        exact ⟨key x List.mem_cons_self, fun y hy => key y (List.mem_cons_of_mem _ hy)⟩
  · intro lo hi g h
    have : hi - lo = 0 := by omega
    simp [maxOver, this, lmax, lmaxFrom]

theorem aggSpec_min : AggSpec (α := α) pymin pinf minOver := by
  refine ⟨?_, ?_⟩
  · intro l lo hi g hne h1 h2
    cases l with
    | nil => exact absurd rfl hne
    | cons x xs =>
      show Except.ok (lminFrom x xs) = _
      congr 1
      apply eq_of_lb
      intro c
      rw [le_lminFrom_iff, le_minOver_iff]
      constructor
      · rintro ⟨hx, hxs⟩ k hk1 hk2
        rcases List.mem_cons.1 (h2 k hk1 hk2) with e | e
        · rw [e]; exact hx
        · exact hxs _ e
      · intro h
        have key : ∀ y ∈ x :: xs, c ≤ y := by
          intro y hy
          rcases h1 y hy with e | ⟨k, hk1, hk2, e⟩
          · rw [e, LawfulVal.pinf_top]; exact le_top
          · rw [e]; exact h k hk1 hk2
        exact ⟨key x List.mem_cons_self, fun y hy => key y (List.mem_cons_of_mem _ hy)⟩
  · intro lo hi g h
    have : hi - lo = 0 := by omega
    simp [minOver, this, lmin, lminFrom]

/-! ### bounded past -/

omit [Val α] [LawfulVal α] in
theorem timedPast_gen {agg : List α → Except PyErr α} {pad : α}
    {over : Nat → Nat → (Nat → α) → α} (H : AggSpec agg pad over)
    (a b : Nat) (hab : a ≤ b) (n : Nat) (g : Nat → α) :
    timedPast agg pad a b (tab n g) = .ok (tab n (fun t => over (t - b) (t + 1 - a) g)) := by
  unfold timedPast
  simp only [List.length_append, List.length_replicate, tab_length]
  have hbn : b + n - b = n := by omega
  rw [hbn]
  have hs : ∀ k, (List.replicate b pad ++ tab n g)[k]? =
      if k < b then some pad else if k - b < n then some (g (k - b)) else none := by
    intro k
    by_cases hk : k < b
    · rw [List.getElem?_append_left (by simpa using hk), List.getElem?_replicate, if_pos hk,
        if_pos hk]
    · rw [List.getElem?_append_right (by simpa using hk), List.length_replicate, tab_getElem?,
        if_neg hk]
  apply mapM_range'
  intro t ht
  apply H.1
  · apply slice_ne_nil
    · simp only [List.length_append, List.length_replicate, tab_length]; omega
    · omega
  · intro x hx
    obtain ⟨k, hk1, hk2, hk3⟩ := mem_slice.1 hx
    rw [hs] at hk3
    split at hk3
    · left; exact (Option.some.inj hk3).symm
    · split at hk3
      · right
        exact ⟨k - b, by omega, by omega, (Option.some.inj hk3).symm⟩
      · cases hk3
  · intro k hk1 hk2
    apply mem_slice.2
    refine ⟨k + b, by omega, by omega, ?_⟩
    rw [hs, if_neg (by omega), if_pos (by omega)]
    congr 2
    omega

theorem timedPast_once (a b : Nat) (hab : a ≤ b) (n : Nat) (g : Nat → α) :
    timedPast pymax ninf a b (tab n g) = .ok (tab n (fun t => maxOver (t - b) (t + 1 - a) g)) :=
  timedPast_gen aggSpec_max a b hab n g

theorem timedPast_hist (a b : Nat) (hab : a ≤ b) (n : Nat) (g : Nat → α) :
    timedPast pymin pinf a b (tab n g) = .ok (tab n (fun t => minOver (t - b) (t + 1 - a) g)) :=
  timedPast_gen aggSpec_min a b hab n g

/-! ### bounded future -/

omit [Val α] [LawfulVal α] in
theorem timedFuture_gen {agg : List α → Except PyErr α} {pad : α}
    {over : Nat → Nat → (Nat → α) → α} (H : AggSpec agg pad over)
    (a b : Nat) (hab : a ≤ b) (n : Nat) (g : Nat → α) :
    timedFuture agg pad a b (tab n g) =
      .ok (tab n (fun t => over (t + a) (min (t + b + 1) n) g)) := by
  unfold timedFuture
  simp only [tab_length]
  generalize hs : (if n ≤ b then tab n g ++ List.replicate (b - n + 1) pad else tab n g) = s
  have hlen : s.length = max n (b + 1) := by
    subst hs
    split
    · simp only [List.length_append, List.length_replicate, tab_length]; omega
    · simp only [tab_length]; omega
  have hget : ∀ k, s[k]? =
      if k < n then some (g k) else if k < max n (b + 1) then some pad else none := by
    intro k
    subst hs
    split
    · by_cases hk : k < n
      · rw [List.getElem?_append_left (by simpa using hk), tab_getElem?, if_pos hk, if_pos hk]
      · rw [List.getElem?_append_right (by simpa using hk), List.getElem?_replicate, tab_length,
          if_neg hk]
        congr 1
        apply propext
        omega
    · rw [tab_getElem?]
      by_cases hk : k < n
      · rw [if_pos hk, if_pos hk]
      · rw [if_neg hk, if_neg hk, if_neg (by omega)]
  have hf : ∀ j, a ≤ j → j < s.length →
      agg (slice s j (j + (b - a) + 1)) =
        .ok ((fun t => over (t + a) (min (t + b + 1) n) g) (j - a)) := by
    intro j hj1 hj2
    have e1 : j - a + a = j := by omega
    have e2 : j - a + b + 1 = j + (b - a) + 1 := by omega
    show _ = Except.ok (over (j - a + a) (min (j - a + b + 1) n) g)
    rw [e1, e2]
    apply H.1
    · exact slice_ne_nil hj2 (by omega)
    · intro x hx
      obtain ⟨k, hk1, hk2, hk3⟩ := mem_slice.1 hx
      rw [hget] at hk3
      split at hk3
      · right
        exact ⟨k, hk1, by omega, (Option.some.inj hk3).symm⟩
      · split at hk3
        · left; exact (Option.some.inj hk3).symm
        · cases hk3
    · intro k hk1 hk2
      apply mem_slice.2
      refine ⟨k, hk1, by omega, ?_⟩
      rw [hget, if_pos (by omega)]
  rw [hlen] at hf
  rw [mapM_range' (b + 1 - a) a (fun t => over (t + a) (min (t + b + 1) n) g) (fun t ht => by
    rw [hf (a + t) (by omega) (by omega)]
    have : a + t - a = t := by omega
    rw [this])]
  rw [mapM_range' (s.length - (b + 1)) (b + 1)
    (fun t => over (t + (b + 1 - a) + a) (min (t + (b + 1 - a) + b + 1) n) g) (fun t ht => by
    rw [hf (b + 1 + t) (by omega) (by omega)]
    have : b + 1 + t - a = t + (b + 1 - a) := by omega
    rw [this])]
  show Except.ok _ = _
  congr 1
  apply eq_tab_of_getElem?
  · simp only [List.length_take, List.length_append, List.length_replicate, tab_length]
    omega
  · intro t ht
    rw [List.getElem?_take, if_pos ht]
    simp only [List.length_append, tab_length]
    by_cases h1 : t < b + 1 - a
    · rw [List.getElem?_append_left (by simp only [List.length_append, tab_length]; omega),
        List.getElem?_append_left (by simpa using h1), tab_getElem?, if_pos h1]
    · by_cases h2 : t < b + 1 - a + (s.length - (b + 1))
      · rw [List.getElem?_append_left (by simp only [List.length_append, tab_length]; omega),
          List.getElem?_append_right (by simpa using h1), tab_length, tab_getElem?,
          if_pos (by omega)]
        have : t - (b + 1 - a) + (b + 1 - a) = t := by omega
        rw [this]
      · rw [List.getElem?_append_right (by simp only [List.length_append, tab_length]; omega),
          List.getElem?_replicate, if_pos (by
            simp only [List.length_append, tab_length]; omega)]
        rw [H.2 _ _ _ (by omega)]

theorem timedFuture_ev (a b : Nat) (hab : a ≤ b) (n : Nat) (g : Nat → α) :
    timedFuture pymax ninf a b (tab n g) =
      .ok (tab n (fun t => maxOver (t + a) (min (t + b + 1) n) g)) :=
  timedFuture_gen aggSpec_max a b hab n g

theorem timedFuture_alw (a b : Nat) (hab : a ≤ b) (n : Nat) (g : Nat → α) :
    timedFuture pymin pinf a b (tab n g) =
      .ok (tab n (fun t => minOver (t + a) (min (t + b + 1) n) g)) :=
  timedFuture_gen aggSpec_min a b hab n g

end Rtamt
