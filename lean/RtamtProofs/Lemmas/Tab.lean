/-
  `tab n g = [g 0, …, g (n-1)]`: the list every offline `visitX` returns is
  characterised as the table of a function of the sample index.
-/
import RtamtProofs.Lemmas.Lawful
import Rtamt.Discrete.Offline

namespace Rtamt
open Val

variable {α : Type}

def tab (n : Nat) (g : Nat → α) : List α := (List.range n).map g

@[simp] theorem tab_length (n : Nat) (g : Nat → α) : (tab n g).length = n := by
  simp [tab]

@[simp] theorem tab_getElem? (n : Nat) (g : Nat → α) (i : Nat) :
    (tab n g)[i]? = if i < n then some (g i) else none := by
  unfold tab
  by_cases h : i < n
  · simp [h]
  · simp [h]

theorem tab_getElem (n : Nat) (g : Nat → α) (i : Nat) (h : i < (tab n g).length) :
    (tab n g)[i] = g i := by
  simp [tab]

theorem tab_congr {n : Nat} {f g : Nat → α} (h : ∀ t, t < n → f t = g t) : tab n f = tab n g := by
  unfold tab
  apply List.map_congr_left
  intro t ht
  exact h t (List.mem_range.1 ht)

/-- A list is the table of its own indexing function. -/
theorem eq_tab_of_getElem? {l : List α} {n : Nat} {g : Nat → α}
    (hl : l.length = n) (h : ∀ t, t < n → l[t]? = some (g t)) : l = tab n g := by
  apply List.ext_getElem?
  intro i
  by_cases hi : i < n
  · rw [h i hi, tab_getElem?, if_pos hi]
  · rw [tab_getElem?, if_neg hi]
    exact List.getElem?_eq_none (by omega)

theorem tab_succ (n : Nat) (g : Nat → α) : tab (n + 1) g = g 0 :: tab n (fun t => g (t + 1)) := by
  unfold tab
  rw [List.range_succ_eq_map]
  simp [List.map_map, Function.comp_def]

theorem tab_succ_last (n : Nat) (g : Nat → α) : tab (n + 1) g = tab n g ++ [g n] := by
  unfold tab
  rw [List.range_succ]
  simp

end Rtamt
