/-
  Non-vacuity of `LawfulVal`: the extended reals satisfy it (with the arithmetic of
  `EReal`; `sqrt/exp/ln/pow/log` are not constrained by `LawfulVal` and are
  interpreted arbitrarily here).
-/
import RtamtProofs.Lemmas.Lawful
import Mathlib.Data.EReal.Inv

namespace Rtamt

noncomputable instance : Val EReal where
  lt a b := decide (a < b)
  neg a := -a
  abs a := max a (-a)
  add a b := a + b
  sub a b := a - b
  mul a b := a * b
  div a b := a / b
  pinf := ⊤
  ninf := ⊥
  zero := 0
  sqrt a := a
  exp a := a
  ln a := a
  pow a _ := a
  log a _ := a

noncomputable instance : LawfulVal EReal where
  lt_iff a b := by simp [Val.lt]
  pinf_top := rfl
  ninf_bot := rfl
  neg_neg a := by simp [Val.neg]
  neg_le_neg a b h := by simp [Val.neg, h]

end Rtamt
