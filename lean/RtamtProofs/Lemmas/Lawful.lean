/-
  `LawfulVal`: the assumptions on values under which the theorems are proved —
  a bounded linear order whose `<` is what `Val.lt` decides, with `pinf = ⊤`,
  `ninf = ⊥` and `neg` an order-reversing involution.  No NaN.

  Basic consequences: `pmax = max`, `pmin = min`, and the characterisation of
  window maxima/minima by their upper/lower bounds, which is how every window
  equality in the proofs is shown (`eq_of_forall_ge_iff`).
-/
import Rtamt.Discrete.Rho
import Mathlib.Order.BoundedOrder.Basic
import Mathlib.Order.Lattice
import Mathlib.Order.MinMax
import Mathlib.Data.List.Basic

namespace Rtamt
open Val

class LawfulVal (α : Type) [Val α] extends LinearOrder α, BoundedOrder α where
  lt_iff : ∀ a b : α, Val.lt a b = true ↔ a < b
  pinf_top : (Val.pinf : α) = ⊤
  ninf_bot : (Val.ninf : α) = ⊥
  neg_neg : ∀ a : α, Val.neg (Val.neg a) = a
  neg_le_neg : ∀ a b : α, a ≤ b → Val.neg b ≤ Val.neg a

variable {α : Type} [Val α] [LawfulVal α]

theorem pmax_eq (a b : α) : pmax a b = max a b := by
  unfold pmax
  by_cases h : a < b
  · rw [if_pos ((LawfulVal.lt_iff a b).2 h), max_eq_right (le_of_lt h)]
  · have : ¬ (Val.lt a b = true) := fun h' => h ((LawfulVal.lt_iff a b).1 h')
    rw [if_neg this, max_eq_left (not_lt.1 h)]

theorem pmin_eq (a b : α) : pmin a b = min a b := by
  unfold pmin
  by_cases h : b < a
  · rw [if_pos ((LawfulVal.lt_iff b a).2 h), min_eq_right (le_of_lt h)]
  · have : ¬ (Val.lt b a = true) := fun h' => h ((LawfulVal.lt_iff b a).1 h')
    rw [if_neg this, min_eq_left (not_lt.1 h)]

theorem neg_le_neg_iff (a b : α) : Val.neg a ≤ Val.neg b ↔ b ≤ a := by
  constructor
  · intro h
    have := LawfulVal.neg_le_neg _ _ h
    rwa [LawfulVal.neg_neg, LawfulVal.neg_neg] at this
  · exact LawfulVal.neg_le_neg _ _

theorem neg_ninf : Val.neg (Val.ninf : α) = Val.pinf := by
  rw [LawfulVal.ninf_bot, LawfulVal.pinf_top]
  apply le_antisymm le_top
  have := (neg_le_neg_iff (Val.neg (⊤ : α)) (⊥ : α)).2 bot_le
  rwa [LawfulVal.neg_neg] at this

theorem neg_pinf : Val.neg (Val.pinf : α) = Val.ninf := by
  rw [← neg_ninf, LawfulVal.neg_neg]

theorem neg_max (a b : α) : Val.neg (max a b) = min (Val.neg a) (Val.neg b) := by
  rcases le_total a b with h | h
  · rw [max_eq_right h, min_eq_right ((neg_le_neg_iff _ _).2 h)]
  · rw [max_eq_left h, min_eq_left ((neg_le_neg_iff _ _).2 h)]

theorem neg_min (a b : α) : Val.neg (min a b) = max (Val.neg a) (Val.neg b) := by
  rcases le_total a b with h | h
  · rw [min_eq_left h, max_eq_left ((neg_le_neg_iff _ _).2 h)]
  · rw [min_eq_right h, max_eq_right ((neg_le_neg_iff _ _).2 h)]

/-! ### folds -/

theorem lmaxFrom_le_iff (init : α) (l : List α) (c : α) :
    lmaxFrom init l ≤ c ↔ init ≤ c ∧ ∀ x ∈ l, x ≤ c := by
  unfold lmaxFrom
  induction l generalizing init with
  | nil => simp
  | cons x xs ih =>
    simp only [List.foldl_cons, ih, pmax_eq, max_le_iff, List.mem_cons, forall_eq_or_imp]
    tauto

theorem le_lminFrom_iff (init : α) (l : List α) (c : α) :
    c ≤ lminFrom init l ↔ c ≤ init ∧ ∀ x ∈ l, c ≤ x := by
  unfold lminFrom
  induction l generalizing init with
  | nil => simp
  | cons x xs ih =>
    simp only [List.foldl_cons, ih, pmin_eq, le_min_iff, List.mem_cons, forall_eq_or_imp]
    tauto

theorem lmax_le_iff (l : List α) (c : α) : lmax l ≤ c ↔ ∀ x ∈ l, x ≤ c := by
  unfold lmax
  rw [lmaxFrom_le_iff, LawfulVal.ninf_bot]
  simp

theorem le_lmin_iff (l : List α) (c : α) : c ≤ lmin l ↔ ∀ x ∈ l, c ≤ x := by
  unfold lmin
  rw [le_lminFrom_iff, LawfulVal.pinf_top]
  simp

theorem maxOver_le_iff (lo hi : Nat) (f : Nat → α) (c : α) :
    maxOver lo hi f ≤ c ↔ ∀ t, lo ≤ t → t < hi → f t ≤ c := by
  unfold maxOver
  rw [lmax_le_iff]
  simp only [List.mem_map, List.mem_range'_1, forall_exists_index, and_imp]
  constructor
  · intro h t h1 h2
    exact h (f t) t h1 (by omega) rfl
  · rintro h x t h1 h2 rfl
    exact h t h1 (by omega)

theorem le_minOver_iff (lo hi : Nat) (f : Nat → α) (c : α) :
    c ≤ minOver lo hi f ↔ ∀ t, lo ≤ t → t < hi → c ≤ f t := by
  unfold minOver
  rw [le_lmin_iff]
  simp only [List.mem_map, List.mem_range'_1, forall_exists_index, and_imp]
  constructor
  · intro h t h1 h2
    exact h (f t) t h1 (by omega) rfl
  · rintro h x t h1 h2 rfl
    exact h t h1 (by omega)

/-- Two values with the same upper bounds are equal. -/
theorem eq_of_ub {a b : α} (h : ∀ c, a ≤ c ↔ b ≤ c) : a = b :=
  le_antisymm ((h b).2 le_rfl) ((h a).1 le_rfl)

/-- Two values with the same lower bounds are equal. -/
theorem eq_of_lb {a b : α} (h : ∀ c, c ≤ a ↔ c ≤ b) : a = b :=
  le_antisymm ((h a).1 le_rfl) ((h b).2 le_rfl)

end Rtamt
