/-
  Offline list algorithms = README clauses, part 3: bounded since / until
  (two ring buffers, double loop).
-/
import RtamtProofs.Lemmas.Tab

namespace Rtamt
open Val

variable {α : Type} [Val α] [LawfulVal α]

/-- A monadic fold in `Except` whose step never fails is the pure fold. -/
theorem foldlM_ok {β γ : Type} (step : β → γ → Except PyErr β) (pstep : β → γ → β)
    (l : List γ) (init : β) (h : ∀ acc x, x ∈ l → step acc x = .ok (pstep acc x)) :
    l.foldlM step init = .ok (l.foldl pstep init) := by
  induction l generalizing init with
  | nil => rfl
  | cons x xs ih =>
    rw [List.foldlM_cons, h init x List.mem_cons_self]
    exact ih _ (fun acc y hy => h acc y (List.mem_cons_of_mem _ hy))

theorem idx_tab {β : Type} (n : Nat) (g : Nat → β) (i : Nat) (h : i < n) :
    idx (tab n g) i = .ok (g i) := by
  unfold idx
  rw [tab_getElem?, if_pos h]

omit [LawfulVal α] in
/-- The double loop on two full buffers never raises and computes the max–min. -/
theorem sinceWin_tab (a b : Nat) (L R : Nat → α) :
    sinceWin a b (tab (b + 1) L) (tab (b + 1) R) =
      .ok (maxOver 0 (b - a + 1) (fun j => pmin (minOver (j + 1) (b + 1) L) (R j))) := by
  unfold sinceWin
  rw [foldlM_ok _ (fun out j => pmax out (pmin (minOver (j + 1) (b + 1) L) (R j)))]
  · congr 1
    unfold maxOver lmax lmaxFrom
    rw [List.foldl_map, Nat.sub_zero, List.range_eq_range']
  · intro acc j hj
    have hj' : j < b - a + 1 := List.mem_range.1 hj
    rw [idx_tab _ _ _ (by omega)]
    rw [foldlM_ok _ (fun c k => pmin c (L k))]
    · have e : List.foldl (fun c k => pmin c (L k)) pinf (List.range' (j + 1) (b - j)) =
          minOver (j + 1) (b + 1) L := by
        unfold minOver lmin lminFrom
        rw [List.foldl_map, Nat.add_sub_add_right]
      rw [e]
      rfl
    · intro c k hk
      have hk' := List.mem_range'_1.1 hk
      rw [idx_tab _ _ _ (by omega)]
      rfl

/-- Pushing the next value of `F` into a full buffer holding a window of `F`. -/
theorem dqPush_tab {β : Type} (b : Nat) (F : Nat → β) (i : Nat) :
    dqPush (tab (b + 1) (fun k => F (i + k))) (F (i + b + 1)) =
      tab (b + 1) (fun k => F (i + 1 + k)) := by
  unfold dqPush
  apply eq_tab_of_getElem?
  · simp
  · intro t ht
    rw [List.getElem?_drop]
    by_cases h : t < b
    · rw [List.getElem?_append_left (by simp; omega), tab_getElem?, if_pos (by omega)]
      congr 2; omega
    · have : t = b := by omega
      subst this
      rw [List.getElem?_append_right (by simp; omega), tab_length]
      have e : 1 + t - (t + 1) = 0 := by omega
      rw [e]
      show some _ = some _
      congr 2; omega

omit [LawfulVal α] in
theorem sinceLoop_cons_ok (a b : Nat) (bl br : List α) (l r : α) (rest : List (α × α))
    (o : α) (os : List α)
    (h1 : sinceWin a b (dqPush bl l) (dqPush br r) = .ok o)
    (h2 : sinceLoop a b (dqPush bl l) (dqPush br r) rest = .ok os) :
    sinceLoop a b bl br ((l, r) :: rest) = .ok (o :: os) := by
  rw [sinceLoop]
  simp only [h1, h2]
  rfl

omit [LawfulVal α] in
/-- Outer loop, generalised over the number `i` of samples already pushed; `F`/`G` are
    the operands on padded positions (position `p` of the operand is `F (p + b + 1)`). -/
theorem sinceLoop_gen (a b : Nat) (F G : Nat → α) (m i : Nat) :
    sinceLoop a b (tab (b + 1) (fun k => F (i + k))) (tab (b + 1) (fun k => G (i + k)))
        ((tab m (fun s => F (i + s + b + 1))).zip (tab m (fun s => G (i + s + b + 1)))) =
      .ok (tab m (fun s => maxOver 0 (b - a + 1)
              (fun j => pmin (minOver (j + 1) (b + 1) (fun k => F (i + s + 1 + k)))
                          (G (i + s + 1 + j))))) := by
  induction m generalizing i with
  | zero => rfl
  | succ m ih =>
    rw [tab_succ m (fun s => F (i + s + b + 1)), tab_succ m (fun s => G (i + s + b + 1)),
      List.zip_cons_cons, tab_succ m]
    simp only [Nat.add_zero]
    have e1 := dqPush_tab b F i
    have e2 := dqPush_tab b G i
    apply sinceLoop_cons_ok
    · rw [e1, e2, sinceWin_tab]
    · rw [e1, e2]
      have e3 := ih (i + 1)
      have c1 : (fun s => F (i + (s + 1) + b + 1)) = (fun s => F (i + 1 + s + b + 1)) := by
        funext s; congr 1; omega
      have c2 : (fun s => G (i + (s + 1) + b + 1)) = (fun s => G (i + 1 + s + b + 1)) := by
        funext s; congr 1; omega
      rw [c1, c2, e3]
      congr 1
      apply tab_congr
      intro t ht
      have c3 : i + 1 + t = i + (t + 1) := by omega
      rw [c3]

/-- An operand on padded positions: `b + 1` copies of the neutral element, then `f`. -/
def padded (pad : α) (b : Nat) (f : Nat → α) (p : Nat) : α :=
  if p < b + 1 then pad else f (p - (b + 1))

omit [Val α] [LawfulVal α] in
theorem padded_lt (pad : α) (b : Nat) (f : Nat → α) (p : Nat) (h : p < b + 1) :
    padded pad b f p = pad := if_pos h

omit [Val α] [LawfulVal α] in
theorem padded_ge (pad : α) (b : Nat) (f : Nat → α) (p q : Nat) (h : p = q + b + 1) :
    padded pad b f p = f q := by
  subst h
  unfold padded
  rw [if_neg (by omega)]
  congr 1; omega

omit [Val α] [LawfulVal α] in
theorem replicate_eq_tab_padded (pad : α) (b : Nat) (f : Nat → α) :
    List.replicate (b + 1) pad = tab (b + 1) (fun k => padded pad b f (0 + k)) := by
  apply eq_tab_of_getElem? (by simp)
  intro t ht
  rw [List.getElem?_replicate, if_pos ht, padded_lt _ _ _ _ (by omega)]

omit [Val α] [LawfulVal α] in
theorem tab_eq_tab_padded (pad : α) (b : Nat) (f : Nat → α) (n : Nat) :
    tab n f = tab n (fun s => padded pad b f (0 + s + b + 1)) := by
  apply tab_congr
  intro t _
  rw [padded_ge _ _ _ _ t (by omega)]

/-- Inner minimum: buffer indices `(j, b]` are positions `(t', t]`. -/
theorem since_min (b : Nat) (f : Nat → α) (t t' j : Nat) (hj : t + j = t' + b) :
    minOver (j + 1) (b + 1) (fun k => padded pinf b f (0 + t + 1 + k)) =
      minOver (t' + 1) (t + 1) f := by
  apply eq_of_lb
  intro c
  rw [le_minOver_iff, le_minOver_iff]
  constructor
  · intro h s h1 h2
    have := h (s + b - t) (by omega) (by omega)
    rwa [padded_ge _ _ _ _ s (by omega)] at this
  · intro h k h1 h2
    rw [padded_ge _ _ _ _ (t + k - b) (by omega)]
    exact h _ (by omega) (by omega)

/-- Window re-indexing for `since`: buffer index `j` is position `t - b + j`. -/
theorem since_window (a b : Nat) (hab : a ≤ b) (f g : Nat → α) (t : Nat) :
    maxOver 0 (b - a + 1)
        (fun j => pmin (minOver (j + 1) (b + 1) (fun k => padded pinf b f (0 + t + 1 + k)))
                    (padded ninf b g (0 + t + 1 + j))) =
      maxOver (t - b) (t + 1 - a) (fun t' => pmin (g t') (minOver (t' + 1) (t + 1) f)) := by
  apply eq_of_ub
  intro c
  rw [maxOver_le_iff, maxOver_le_iff]
  constructor
  · intro h t' h1 h2
    have := h (t' + b - t) (Nat.zero_le _) (by omega)
    rw [since_min b f t t' _ (by omega), padded_ge _ _ _ _ t' (by omega), pmin_eq,
      min_comm] at this
    rwa [pmin_eq]
  · intro h j _ hj
    by_cases hp : t + j < b
    · rw [padded_lt _ _ _ _ (by omega), pmin_eq, LawfulVal.ninf_bot]
      exact le_trans (min_le_right _ _) bot_le
    · have := h (t + j - b) (by omega) (by omega)
      rw [since_min b f t (t + j - b) j (by omega), padded_ge _ _ _ _ (t + j - b) (by omega),
        pmin_eq, min_comm]
      rwa [pmin_eq] at this

theorem sinceLoop_since (a b : Nat) (hab : a ≤ b) (n : Nat) (f g : Nat → α) :
    sinceLoop a b (List.replicate (b + 1) pinf) (List.replicate (b + 1) ninf)
        ((tab n f).zip (tab n g)) =
      .ok (tab n (fun t => maxOver (t - b) (t + 1 - a)
              (fun t' => pmin (g t') (minOver (t' + 1) (t + 1) f)))) := by
  rw [replicate_eq_tab_padded pinf b f, replicate_eq_tab_padded ninf b g,
    tab_eq_tab_padded pinf b f n, tab_eq_tab_padded ninf b g n,
    sinceLoop_gen a b (padded pinf b f) (padded ninf b g) n 0]
  congr 1
  apply tab_congr
  intro t _
  exact since_window a b hab f g t

/-! ### until: the same loop on the reversed lists -/

omit [Val α] [LawfulVal α] in
theorem tab_reverse {β : Type} (n : Nat) (H : Nat → β) :
    (tab n H).reverse = tab n (fun t => H (n - 1 - t)) := by
  apply eq_tab_of_getElem? (by simp)
  intro t ht
  rw [List.getElem?_reverse (by simp; omega), tab_length, tab_getElem?, if_pos (by omega)]

omit [Val α] [LawfulVal α] in
theorem zip_tab {β γ : Type} (n : Nat) (f : Nat → β) (g : Nat → γ) :
    (tab n f).zip (tab n g) = tab n (fun t => (f t, g t)) := by
  unfold tab
  exact List.zip_map'

/-- Inner minimum under the reflection `r ↦ n - 1 - r`. -/
theorem until_min (f : Nat → α) (n t u t'' s : Nat) (hs : s + t + 1 = n) (hu : t'' + u + 1 = n) :
    minOver (t'' + 1) (s + 1) (fun r => f (n - 1 - r)) = minOver t u f := by
  apply eq_of_lb
  intro c
  rw [le_minOver_iff, le_minOver_iff]
  constructor
  · intro h v h1 h2
    have := h (n - 1 - v) (by omega) (by omega)
    have e : n - 1 - (n - 1 - v) = v := by omega
    rwa [e] at this
  · intro h r h1 h2
    exact h (n - 1 - r) (by omega) (by omega)

/-- Window re-indexing for `until`: position `t''` of the reversed run is `n - 1 - t''`. -/
theorem until_window (a b n : Nat) (f g : Nat → α) (t : Nat) (ht : t < n) :
    maxOver (n - 1 - t - b) (n - 1 - t + 1 - a)
        (fun t'' => pmin (g (n - 1 - t''))
                      (minOver (t'' + 1) (n - 1 - t + 1) (fun r => f (n - 1 - r)))) =
      maxOver (t + a) (min (t + b + 1) n) (fun t' => pmin (g t') (minOver t t' f)) := by
  apply eq_of_ub
  intro c
  rw [maxOver_le_iff, maxOver_le_iff]
  constructor
  · intro h u h1 h2
    have := h (n - 1 - u) (by omega) (by omega)
    have e : n - 1 - (n - 1 - u) = u := by omega
    rwa [until_min f n t u (n - 1 - u) (n - 1 - t) (by omega) (by omega), e] at this
  · intro h t'' h1 h2
    have := h (n - 1 - t'') (by omega) (by omega)
    rwa [until_min f n t (n - 1 - t'') t'' (n - 1 - t) (by omega) (by omega)]

theorem sinceLoop_until (a b : Nat) (hab : a ≤ b) (n : Nat) (f g : Nat → α) :
    (do let o ← sinceLoop a b (List.replicate (b + 1) pinf) (List.replicate (b + 1) ninf)
                  ((tab n f).zip (tab n g)).reverse
        pure o.reverse : Except PyErr (List α)) =
      .ok (tab n (fun t => maxOver (t + a) (min (t + b + 1) n)
              (fun t' => pmin (g t') (minOver t t' f)))) := by
  rw [zip_tab, tab_reverse, ← zip_tab n (fun t => f (n - 1 - t)) (fun t => g (n - 1 - t)),
    sinceLoop_since a b hab]
  show Except.ok (List.reverse _) = _
  rw [tab_reverse]
  congr 1
  apply tab_congr
  intro t ht
  exact until_window a b n f g t ht

end Rtamt
