/-
  Online operator objects as stream transformers: feeding the operand stream(s)
  `g 0, g 1, …` one sample per `update` to a freshly constructed operation returns
  the README clause at every step.
-/
import RtamtProofs.Lemmas.OffScan
import RtamtProofs.Lemmas.OffTimed2
import Rtamt.Discrete.Online

namespace Rtamt
open Val

variable {α : Type} [Val α]

/-- Run a unary operation object over an operand stream. -/
def runOp1 (step : St α → α → Except PyErr (St α × α)) : St α → List α → Except PyErr (St α × List α)
  | s, [] => .ok (s, [])
  | s, x :: xs => do
      let (s', o) ← step s x
      let (s'', os) ← runOp1 step s' xs
      pure (s'', o :: os)

/-- Run a binary operation object over a pair of operand streams. -/
def runOp2 (step : St α → α → α → Except PyErr (St α × α)) :
    St α → List (α × α) → Except PyErr (St α × List α)
  | s, [] => .ok (s, [])
  | s, (l, r) :: xs => do
      let (s', o) ← step s l r
      let (s'', os) ← runOp2 step s' xs
      pure (s'', o :: os)

variable [LawfulVal α]

/-! ### generic facts about the runners -/

omit [Val α] [LawfulVal α] in
theorem runOp1_cons_ok (step : St α → α → Except PyErr (St α × α)) (s s' s'' : St α)
    (x o : α) (xs os : List α) (h1 : step s x = .ok (s', o))
    (h2 : runOp1 step s' xs = .ok (s'', os)) :
    runOp1 step s (x :: xs) = .ok (s'', o :: os) := by
  rw [runOp1, h1]
  simp only [bind, Except.bind, h2]
  rfl

omit [Val α] [LawfulVal α] in
theorem runOp2_cons_ok (step : St α → α → α → Except PyErr (St α × α)) (s s' s'' : St α)
    (l r o : α) (xs : List (α × α)) (os : List α) (h1 : step s l r = .ok (s', o))
    (h2 : runOp2 step s' xs = .ok (s'', os)) :
    runOp2 step s ((l, r) :: xs) = .ok (s'', o :: os) := by
  rw [runOp2, h1]
  simp only [bind, Except.bind, h2]
  rfl

omit [Val α] [LawfulVal α] in
/-- A run along a sequence of states `S` producing the outputs `O`. -/
theorem runOp1_tab (step : St α → α → Except PyErr (St α × α)) (m : Nat) :
    ∀ (S : Nat → St α) (g O : Nat → α),
      (∀ i, step (S i) (g i) = .ok (S (i + 1), O i)) →
      runOp1 step (S 0) (tab m g) = .ok (S m, tab m O) := by
  induction m with
  | zero => intro S g O _; rfl
  | succ m ih =>
    intro S g O h
    rw [tab_succ, tab_succ]
    exact runOp1_cons_ok step _ _ _ _ _ _ _ (h 0)
      (ih (fun i => S (i + 1)) _ _ (fun i => h (i + 1)))

omit [Val α] [LawfulVal α] in
theorem runOp2_tab (step : St α → α → α → Except PyErr (St α × α)) (m : Nat) :
    ∀ (S : Nat → St α) (f g O : Nat → α),
      (∀ i, step (S i) (f i) (g i) = .ok (S (i + 1), O i)) →
      runOp2 step (S 0) ((tab m f).zip (tab m g)) = .ok (S m, tab m O) := by
  induction m with
  | zero => intro S f g O _; rfl
  | succ m ih =>
    intro S f g O h
    rw [tab_succ, tab_succ, tab_succ, List.zip_cons_cons]
    exact runOp2_cons_ok step _ _ _ _ _ _ _ _ (h 0)
      (ih (fun i => S (i + 1)) _ _ _ (fun i => h (i + 1)))

/-! ### unbounded operations: the same loops as the offline list algorithms -/

omit [LawfulVal α] in
theorem runOp1_once_list (p : α) (l : List α) :
    ∃ s, runOp1 (stepT1 .once) (.val p) l = .ok (s, scanFwd pmax p l) := by
  induction l generalizing p with
  | nil => exact ⟨_, rfl⟩
  | cons x xs ih =>
    obtain ⟨s, hs⟩ := ih (pmax x p)
    exact ⟨s, runOp1_cons_ok _ _ _ _ _ _ _ _ rfl hs⟩

omit [LawfulVal α] in
theorem runOp1_hist_list (p : α) (l : List α) :
    ∃ s, runOp1 (stepT1 .hist) (.val p) l = .ok (s, scanFwd pmin p l) := by
  induction l generalizing p with
  | nil => exact ⟨_, rfl⟩
  | cons x xs ih =>
    obtain ⟨s, hs⟩ := ih (pmin x p)
    exact ⟨s, runOp1_cons_ok _ _ _ _ _ _ _ _ rfl hs⟩

omit [LawfulVal α] in
theorem runOp1_prev_list (p : α) (l : List α) :
    ∃ s, runOp1 (stepT1 .prev) (.val p) l = .ok (s, shiftFwd p l) := by
  induction l generalizing p with
  | nil => exact ⟨_, rfl⟩
  | cons x xs ih =>
    obtain ⟨s, hs⟩ := ih x
    exact ⟨s, runOp1_cons_ok _ _ _ _ _ _ _ _ rfl hs⟩

omit [LawfulVal α] in
theorem runOp1_sprev_list (p : α) (l : List α) :
    ∃ s, runOp1 (stepT1 .sprev) (.val p) l = .ok (s, shiftFwd p l) := by
  induction l generalizing p with
  | nil => exact ⟨_, rfl⟩
  | cons x xs ih =>
    obtain ⟨s, hs⟩ := ih x
    exact ⟨s, runOp1_cons_ok _ _ _ _ _ _ _ _ rfl hs⟩

omit [LawfulVal α] in
theorem runOp1_rise_list (p : α) (l : List α) :
    ∃ s, runOp1 (stepT1 .rise) (.val p) l =
      .ok (s, List.zipWith (fun p x => pmin (neg p) x) (shiftFwd p l) l) := by
  induction l generalizing p with
  | nil => exact ⟨_, rfl⟩
  | cons x xs ih =>
    obtain ⟨s, hs⟩ := ih x
    exact ⟨s, runOp1_cons_ok _ _ _ _ _ _ _ _ rfl hs⟩

omit [LawfulVal α] in
theorem runOp1_fall_list (p : α) (l : List α) :
    ∃ s, runOp1 (stepT1 .fall) (.val p) l =
      .ok (s, List.zipWith (fun p x => pmin p (neg x)) (shiftFwd p l) l) := by
  induction l generalizing p with
  | nil => exact ⟨_, rfl⟩
  | cons x xs ih =>
    obtain ⟨s, hs⟩ := ih x
    exact ⟨s, runOp1_cons_ok _ _ _ _ _ _ _ _ rfl hs⟩

omit [LawfulVal α] in
theorem runOp2_since_list (p : α) (l : List (α × α)) :
    ∃ s, runOp2 (stepT2 .since) (.val p) l = .ok (s, scan2 p l) := by
  induction l generalizing p with
  | nil => exact ⟨_, rfl⟩
  | cons x xs ih =>
    obtain ⟨xl, xr⟩ := x
    obtain ⟨s, hs⟩ := ih (sinceStep p (xl, xr))
    exact ⟨s, runOp2_cons_ok _ _ _ _ _ _ _ _ _ rfl hs⟩

omit [LawfulVal α] in
theorem runOp2_sinceB_list (a b : Nat) (l : List (α × α)) :
    ∀ (bl br os : List α), sinceLoop a b bl br l = .ok os →
      ∃ s, runOp2 (stepTB2 .since a b) (.buf2 bl br) l = .ok (s, os) := by
  induction l with
  | nil =>
    intro bl br os h
    rw [sinceLoop] at h
    cases h
    exact ⟨_, rfl⟩
  | cons x xs ih =>
    intro bl br os h
    obtain ⟨xl, xr⟩ := x
    rw [sinceLoop] at h
    cases hw : sinceWin a b (dqPush bl xl) (dqPush br xr) with
    | error e => rw [hw] at h; cases h
    | ok o =>
      cases hl : sinceLoop a b (dqPush bl xl) (dqPush br xr) xs with
      | error e => rw [hw, hl] at h; cases h
      | ok os' =>
        rw [hw, hl] at h
        cases h
        obtain ⟨s, hs⟩ := ih _ _ _ hl
        refine ⟨s, runOp2_cons_ok _ _ _ _ _ _ _ _ _ ?_ hs⟩
        show (do let o ← sinceWin a b (dqPush bl xl) (dqPush br xr)
                 pure (St.buf2 (dqPush bl xl) (dqPush br xr), o)) = _
        rw [hw]
        rfl


theorem run_once (n : Nat) (g : Nat → α) :
    ∃ s, runOp1 (stepT1 .once) (initT1 .once) (tab n g) =
      .ok (s, tab n (fun t => maxOver 0 (t + 1) g)) := by
  obtain ⟨s, hs⟩ := runOp1_once_list (ninf : α) (tab n g)
  exact ⟨s, by rw [← scanFwd_once]; exact hs⟩

theorem run_hist (n : Nat) (g : Nat → α) :
    ∃ s, runOp1 (stepT1 .hist) (initT1 .hist) (tab n g) =
      .ok (s, tab n (fun t => minOver 0 (t + 1) g)) := by
  obtain ⟨s, hs⟩ := runOp1_hist_list (pinf : α) (tab n g)
  exact ⟨s, by rw [← scanFwd_hist]; exact hs⟩

theorem run_prev (n : Nat) (g : Nat → α) :
    ∃ s, runOp1 (stepT1 .prev) (initT1 .prev) (tab n g) =
      .ok (s, tab n (fun t => if t = 0 then pinf else g (t - 1))) := by
  obtain ⟨s, hs⟩ := runOp1_prev_list (pinf : α) (tab n g)
  exact ⟨s, by rw [← shiftFwd_tab]; exact hs⟩

theorem run_sprev (n : Nat) (g : Nat → α) :
    ∃ s, runOp1 (stepT1 .sprev) (initT1 .sprev) (tab n g) =
      .ok (s, tab n (fun t => if t = 0 then ninf else g (t - 1))) := by
  obtain ⟨s, hs⟩ := runOp1_sprev_list (ninf : α) (tab n g)
  exact ⟨s, by rw [← shiftFwd_tab]; exact hs⟩

theorem run_rise (n : Nat) (g : Nat → α) :
    ∃ s, runOp1 (stepT1 .rise) (initT1 .rise) (tab n g) =
      .ok (s, tab n (fun t => if t = 0 then g 0 else pmin (neg (g (t - 1))) (g t))) := by
  obtain ⟨s, hs⟩ := runOp1_rise_list (ninf : α) (tab n g)
  refine ⟨s, ?_⟩
  rw [shiftFwd_tab, zipWith_tab] at hs
  rw [show initT1 T1.rise = St.val (ninf : α) from rfl, hs]
  congr 2
  apply tab_congr
  intro t _
  by_cases h : t = 0
  · subst h
    simp only [if_true]
    rw [neg_ninf, pmin_eq, LawfulVal.pinf_top, min_eq_right le_top]
  · simp only [if_neg h]

theorem run_fall (n : Nat) (g : Nat → α) :
    ∃ s, runOp1 (stepT1 .fall) (initT1 .fall) (tab n g) =
      .ok (s, tab n (fun t => if t = 0 then neg (g 0) else pmin (g (t - 1)) (neg (g t)))) := by
  obtain ⟨s, hs⟩ := runOp1_fall_list (pinf : α) (tab n g)
  refine ⟨s, ?_⟩
  rw [shiftFwd_tab, zipWith_tab] at hs
  rw [show initT1 T1.fall = St.val (pinf : α) from rfl, hs]
  congr 2
  apply tab_congr
  intro t _
  by_cases h : t = 0
  · subst h
    simp only [if_true]
    rw [pmin_eq, LawfulVal.pinf_top, min_eq_right le_top]
  · simp only [if_neg h]

theorem run_since (n : Nat) (f g : Nat → α) :
    ∃ s, runOp2 (stepT2 .since) (initT2 .since) ((tab n f).zip (tab n g)) =
      .ok (s, tab n (fun t => maxOver 0 (t + 1)
                (fun t' => pmin (g t') (minOver (t' + 1) (t + 1) f)))) := by
  obtain ⟨s, hs⟩ := runOp2_since_list (ninf : α) ((tab n f).zip (tab n g))
  exact ⟨s, by rw [← scan2_since]; exact hs⟩

/-! ### bounded operations: ring buffers -/

omit [LawfulVal α] in
theorem winFold_max_tab (a b : Nat) (L : Nat → α) :
    winFold pmax ninf a b (tab (b + 1) L) = .ok (maxOver 0 (b - a + 1) L) := by
  unfold winFold
  rw [foldlM_ok _ (fun acc i => pmax acc (L i))]
  · congr 1
    unfold maxOver lmax lmaxFrom
    rw [List.foldl_map, Nat.sub_zero, List.range_eq_range']
  · intro acc i hi
    have hi' : i < b - a + 1 := List.mem_range.1 hi
    rw [idx_tab _ _ _ (by omega)]
    rfl

omit [LawfulVal α] in
theorem winFold_min_tab (a b : Nat) (L : Nat → α) :
    winFold pmin pinf a b (tab (b + 1) L) = .ok (minOver 0 (b - a + 1) L) := by
  unfold winFold
  rw [foldlM_ok _ (fun acc i => pmin acc (L i))]
  · congr 1
    unfold minOver lmin lminFrom
    rw [List.foldl_map, Nat.sub_zero, List.range_eq_range']
  · intro acc i hi
    have hi' : i < b - a + 1 := List.mem_range.1 hi
    rw [idx_tab _ _ _ (by omega)]
    rfl

/-- Buffer index `j` is position `t - b + j`; padded entries are `⊥`. -/
theorem once_window (a b : Nat) (hab : a ≤ b) (g : Nat → α) (t : Nat) :
    maxOver 0 (b - a + 1) (fun j => padded ninf b g (t + 1 + j)) =
      maxOver (t - b) (t + 1 - a) g := by
  apply eq_of_ub
  intro c
  rw [maxOver_le_iff, maxOver_le_iff]
  constructor
  · intro h t' h1 h2
    have := h (t' + b - t) (Nat.zero_le _) (by omega)
    rwa [padded_ge _ _ _ _ t' (by omega)] at this
  · intro h j _ hj
    by_cases hp : t + j < b
    · rw [padded_lt _ _ _ _ (by omega), LawfulVal.ninf_bot]
      exact bot_le
    · rw [padded_ge _ _ _ _ (t + j - b) (by omega)]
      exact h _ (by omega) (by omega)

theorem hist_window (a b : Nat) (hab : a ≤ b) (g : Nat → α) (t : Nat) :
    minOver 0 (b - a + 1) (fun j => padded pinf b g (t + 1 + j)) =
      minOver (t - b) (t + 1 - a) g := by
  apply eq_of_lb
  intro c
  rw [le_minOver_iff, le_minOver_iff]
  constructor
  · intro h t' h1 h2
    have := h (t' + b - t) (Nat.zero_le _) (by omega)
    rwa [padded_ge _ _ _ _ t' (by omega)] at this
  · intro h j _ hj
    by_cases hp : t + j < b
    · rw [padded_lt _ _ _ _ (by omega), LawfulVal.pinf_top]
      exact le_top
    · rw [padded_ge _ _ _ _ (t + j - b) (by omega)]
      exact h _ (by omega) (by omega)

omit [LawfulVal α] in
/-- The double loop of `precedes` on two full buffers never raises. -/
theorem precWin_tab (a b : Nat) (L R : Nat → α) :
    precWin a b (tab (b + 1) L) (tab (b + 1) R) =
      .ok (maxOver a (b + 1) (fun i => pmin (minOver 0 i L) (R i))) := by
  unfold precWin
  rw [foldlM_ok _ (fun out i => pmax out (pmin (minOver 0 i L) (R i)))]
  · congr 1
    unfold maxOver lmax lmaxFrom
    rw [List.foldl_map]
  · intro acc i hi
    have hi' := List.mem_range'_1.1 hi
    rw [idx_tab _ _ _ (by omega)]
    rw [foldlM_ok _ (fun c k => pmin c (L k))]
    · have e : List.foldl (fun c k => pmin c (L k)) pinf (List.range i) = minOver 0 i L := by
        unfold minOver lmin lminFrom
        rw [List.foldl_map, Nat.sub_zero, List.range_eq_range']
      rw [e]
      rfl
    · intro c k hk
      have hk' := List.mem_range.1 hk
      rw [idx_tab _ _ _ (by omega)]
      rfl

/-- Inner minimum of `precedes`: buffer indices `[0, j)` are positions `[t - b, t')`. -/
theorem prec_min (b : Nat) (f : Nat → α) (t t' j : Nat) (hj : t + j = t' + b) :
    minOver 0 j (fun k => padded pinf b f (t + 1 + k)) = minOver (t - b) t' f := by
  apply eq_of_lb
  intro c
  rw [le_minOver_iff, le_minOver_iff]
  constructor
  · intro h s h1 h2
    have := h (s + b - t) (Nat.zero_le _) (by omega)
    rwa [padded_ge _ _ _ _ s (by omega)] at this
  · intro h k _ hk
    by_cases hp : t + k < b
    · rw [padded_lt _ _ _ _ (by omega), LawfulVal.pinf_top]
      exact le_top
    · rw [padded_ge _ _ _ _ (t + k - b) (by omega)]
      exact h _ (by omega) (by omega)

theorem prec_window (a b : Nat) (hab : a ≤ b) (f g : Nat → α) (t : Nat) :
    maxOver a (b + 1)
        (fun j => pmin (minOver 0 j (fun k => padded pinf b f (t + 1 + k)))
                    (padded ninf b g (t + 1 + j))) =
      maxOver (t + a - b) (t + 1) (fun t' => pmin (g t') (minOver (t - b) t' f)) := by
  apply eq_of_ub
  intro c
  rw [maxOver_le_iff, maxOver_le_iff]
  constructor
  · intro h t' h1 h2
    have := h (t' + b - t) (by omega) (by omega)
    rw [prec_min b f t t' _ (by omega), padded_ge _ _ _ _ t' (by omega), pmin_eq,
      min_comm] at this
    rwa [pmin_eq]
  · intro h j hj1 hj2
    by_cases hp : t + j < b
    · rw [padded_lt _ _ _ _ (by omega), pmin_eq, LawfulVal.ninf_bot]
      exact le_trans (min_le_right _ _) bot_le
    · have := h (t + j - b) (by omega) (by omega)
      rw [prec_min b f t (t + j - b) j (by omega), padded_ge _ _ _ _ (t + j - b) (by omega),
        pmin_eq, min_comm]
      rwa [pmin_eq] at this

theorem run_onceB (a b : Nat) (hab : a ≤ b) (n : Nat) (g : Nat → α) :
    ∃ s, runOp1 (stepTB1 .once a b) (initTB1 .once b) (tab n g) =
      .ok (s, tab n (fun t => maxOver (t - b) (t + 1 - a) g)) := by
  have h : runOp1 (stepTB1 .once a b)
      (St.buf (tab (b + 1) (fun k => padded ninf b g (0 + k)))) (tab n g) =
      .ok (St.buf (tab (b + 1) (fun k => padded ninf b g (n + k))),
           tab n (fun t => maxOver (t - b) (t + 1 - a) g)) := by
    apply runOp1_tab (stepTB1 .once a b) n
      (fun i => St.buf (tab (b + 1) (fun k => padded ninf b g (i + k)))) g
      (fun t => maxOver (t - b) (t + 1 - a) g)
    intro i
    show (do let o ← winFold pmax ninf a b (dqPush _ (g i)); pure (St.buf (dqPush _ (g i)), o)) = _
    have e := dqPush_tab b (padded ninf b g) i
    rw [padded_ge ninf b g (i + b + 1) i rfl] at e
    rw [e, winFold_max_tab, once_window a b hab]
    rfl
  rw [← replicate_eq_tab_padded] at h
  exact ⟨_, h⟩

theorem run_histB (a b : Nat) (hab : a ≤ b) (n : Nat) (g : Nat → α) :
    ∃ s, runOp1 (stepTB1 .hist a b) (initTB1 .hist b) (tab n g) =
      .ok (s, tab n (fun t => minOver (t - b) (t + 1 - a) g)) := by
  have h : runOp1 (stepTB1 .hist a b)
      (St.buf (tab (b + 1) (fun k => padded pinf b g (0 + k)))) (tab n g) =
      .ok (St.buf (tab (b + 1) (fun k => padded pinf b g (n + k))),
           tab n (fun t => minOver (t - b) (t + 1 - a) g)) := by
    apply runOp1_tab (stepTB1 .hist a b) n
      (fun i => St.buf (tab (b + 1) (fun k => padded pinf b g (i + k)))) g
      (fun t => minOver (t - b) (t + 1 - a) g)
    intro i
    show (do let o ← winFold pmin pinf a b (dqPush _ (g i)); pure (St.buf (dqPush _ (g i)), o)) = _
    have e := dqPush_tab b (padded pinf b g) i
    rw [padded_ge pinf b g (i + b + 1) i rfl] at e
    rw [e, winFold_min_tab, hist_window a b hab]
    rfl
  rw [← replicate_eq_tab_padded] at h
  exact ⟨_, h⟩

theorem run_sinceB (a b : Nat) (hab : a ≤ b) (n : Nat) (f g : Nat → α) :
    ∃ s, runOp2 (stepTB2 .since a b) (initTB2 .since b) ((tab n f).zip (tab n g)) =
      .ok (s, tab n (fun t => maxOver (t - b) (t + 1 - a)
                (fun t' => pmin (g t') (minOver (t' + 1) (t + 1) f)))) := by
  exact runOp2_sinceB_list a b _ _ _ _ (sinceLoop_since a b hab n f g)

theorem run_precedesB (a b : Nat) (hab : a ≤ b) (n : Nat) (f g : Nat → α) :
    ∃ s, runOp2 (stepTB2 .precedes a b) (initTB2 .precedes b) ((tab n f).zip (tab n g)) =
      .ok (s, tab n (fun t => maxOver (t + a - b) (t + 1)
                (fun t' => pmin (g t') (minOver (t - b) t' f)))) := by
  have h : runOp2 (stepTB2 .precedes a b)
      (St.buf2 (tab (b + 1) (fun k => padded pinf b f (0 + k)))
        (tab (b + 1) (fun k => padded ninf b g (0 + k)))) ((tab n f).zip (tab n g)) =
      .ok (St.buf2 (tab (b + 1) (fun k => padded pinf b f (n + k)))
            (tab (b + 1) (fun k => padded ninf b g (n + k))),
           tab n (fun t => maxOver (t + a - b) (t + 1)
                (fun t' => pmin (g t') (minOver (t - b) t' f)))) := by
    apply runOp2_tab (stepTB2 .precedes a b) n
      (fun i => St.buf2 (tab (b + 1) (fun k => padded pinf b f (i + k)))
                (tab (b + 1) (fun k => padded ninf b g (i + k)))) f g
      (fun t => maxOver (t + a - b) (t + 1)
                (fun t' => pmin (g t') (minOver (t - b) t' f)))
    intro i
    show (do let o ← precWin a b (dqPush _ (f i)) (dqPush _ (g i))
             pure (St.buf2 (dqPush _ (f i)) (dqPush _ (g i)), o)) = _
    have e1 := dqPush_tab b (padded pinf b f) i
    rw [padded_ge pinf b f (i + b + 1) i rfl] at e1
    have e2 := dqPush_tab b (padded ninf b g) i
    rw [padded_ge ninf b g (i + b + 1) i rfl] at e2
    rw [e1, e2, precWin_tab, prec_window a b hab]
    rfl
  rw [← replicate_eq_tab_padded, ← replicate_eq_tab_padded] at h
  exact ⟨_, h⟩

end Rtamt
