/-
  C01, obligations about the *current* source tree: the table regenerated from
  /repo on every run (`Rtamt/Generated.lean`) says the offline visitor overrides
  `visitX` for every node class (except `TimedPrecedes`, on which it raises).
  If a `visitX` is deleted or renamed in the code this file stops checking.
-/
import RtamtProofs.C01
import RtamtProofs.Lemmas.Instance

namespace Rtamt
open Val

theorem C01_table_complete :
    ∀ k : Kind, k ≠ .TimedPrecedes → Generated.offlineDiscrete.handles k = true := by
  intro k hk
  cases k <;> first | rfl | exact absurd rfl hk

theorem C01_table_precedes_raises : Generated.offlineDiscrete.raises .TimedPrecedes = true := rfl

variable {α : Type} [Val α] [LawfulVal α]

/-- C01 for the visitor as it is in the working tree. -/
theorem C01_current_tree (w : Env α) (σ : String → Nat → α) (n : Nat) (hn : 0 < n) (φ : F α)
    (hwf : φ.wf = true) (hp : φ.noPrecedes) (hw : w.Agrees σ n φ.vars) :
    evalOff Generated.offlineDiscrete.handles w n φ = .ok (tab n (rho σ n φ)) :=
  C01_offline_eq_rho _ w σ n hn φ hwf
    (fun k hk => C01_table_complete k (fun h => hp (h ▸ hk))) hp hw

/-- Non-vacuity: a nested formula and a 3-sample data set over the extended reals meet
    every hypothesis of the theorem. -/
example :
    let φ : F EReal := .tb1 .alw 0 1 (.tb2 .since 0 2 (.bin (.pred .ge) (.var "x") (.const 1))
                          (.tmp1 .next (.un .not (.bin (.pred .lt) (.un .negate (.var "y")) (.const 0)))))
    let σ : String → Nat → EReal := fun x t => if x = "x" then (t : EReal) else 2
    let w : Env EReal := [("x", tab 3 (σ "x")), ("y", tab 3 (σ "y"))]
    φ.wf = true ∧ φ.noPrecedes ∧ w.Agrees σ 3 φ.vars ∧ 0 < 3 := by
  refine ⟨by decide, by simp [F.noPrecedes, F.kinds, TB1.kind, TB2.kind, Bin.kind, Un.kind, T1.kind], ?_, by omega⟩
  intro x hx
  simp [F.vars] at hx
  rcases hx with rfl | rfl <;> simp [List.lookup]

end Rtamt
