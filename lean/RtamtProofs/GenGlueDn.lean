/-
  The update visitor of the DENSE-time online interpreter and `AbstractDenseTimeOnlineInterpreter.update` / `.set_ast` /
  `.reset` as translated from the Python source denote the mirrors `visitOnM` / `updateSpecsOn` / `runSpecsOn` /
  `runProgramOn` of `Rtamt/Dense/ProgramOn.lean` (operator dictionary keyed by the node name, per-update memo, the flag
  `constants_sent`).

  `Rtamt/Py/GeneratedGlueDn.lean` is produced on every run by `harness/py2lean.py` (`generate_glue_dense`) from
  `rtamt/semantics/abstract_online_interpreter.py` (`AbstractOnlineUpdateVisitor`),
  `rtamt/semantics/abstract_dense_time_online_interpreter.py` (`DenseTimeOnlineUpdateVisitor.visitConstant` / `.visitVariable`,
  inlined into `visitLeaf`; `AbstractDenseTimeOnlineInterpreter.update` with `set_variable_to_ast_from_dataset` inlined,
  `.set_ast`, `.reset`) and `AbstractAstVisitor.visitAst`; `Rtamt/Py/GlueDn.lean` gives the terms their meaning and
  `Rtamt/Py/RunGlueDn.lean` adds the dispatch of `AbstractAstVisitor.visit`.

  The mirror follows the statement order of the code (operands first, then the memo), so the statements are plain
  equalities on every state:

    genGlueDn_visit      one visit                = visitOnM       (signal, dictionary, memo; exceptions)
    genGlueDn_round      visitAst                 = updateSpecsOn
    genGlueDn_update     update(dataset)          = updateSpecsOn on the batch `applyData free vod dataset`; flag set,
                                                    var_object_dict cleared, `rob[len(rob) - 1]` returned
    genGlueDn_run        a sequence of updates    = runSpecsOn     (the flag as it is in the first call, `True` afterwards)
    genGlueDn_program    fresh monitor            = runProgramOn
    genGlueDn_set_ast / genGlueDn_reset / genGlueDn_reset_run
    genGlueDn_supported / genGlueDn_opaque        what is outside the translated subset / kept as a named step

  `results` (what `get_value` reads) is carried along; `genGlueDn_visit_frame` states that a visit binds its node there.

  Hypotheses of the run theorems: `specs ≠ []` (`rob[len(rob) - 1]` raises `IndexError` otherwise, see `Example`) and
  `NoVarKeys` (no operation object registered under a variable name — the guard of the one statement of
  `set_variable_to_ast_from_dataset` that is not translated; true of the dictionary `set_ast` builds, `noVarKeys_init`,
  and kept by every update, `updateSpecsOn_props`).
-/
import Rtamt.Py.RunGlueDn

namespace Rtamt.Py.GDn
open Rtamt Val Rtamt.Dense Rtamt.Dense.Alg Rtamt.Dense.AlgOn Rtamt.Dense.ProgramOn

variable {α : Type} [Val α] [DecidableEq α]

/-! ### locals -/

omit [Val α] [DecidableEq α] in
theorem gGet_gSet_same (x : String) (v : GV α) (l : List (String × GV α)) : gGet x (gSet x v l) = .ok v := by
  simp [gGet, gSet]

omit [Val α] [DecidableEq α] in
theorem gGet_gSet_ne (x y : String) (v : GV α) (l : List (String × GV α)) (h : x ≠ y) :
    gGet x (gSet y v l) = gGet x l := by
  have hb : (x == y) = false := by simpa using h
  have : List.lookup x (l.filter (fun p => p.1 != y)) = List.lookup x l := by
    induction l with
    | nil => rfl
    | cons p l ih =>
      obtain ⟨a, b⟩ := p
      by_cases ha : a = y
      · subst ha
        rw [List.filter_cons_of_neg (by simp), ih, List.lookup_cons, hb]
      · rw [List.filter_cons_of_pos (by simpa using ha), List.lookup_cons, List.lookup_cons, ih]
  simp only [gGet, gSet, List.lookup_cons, hb, this]

/-! ### closed forms of the translated methods -/

/-- The part of the translated `visitUnary` / `visitBinary` after the operands. -/
def finishG (cfg : DCfg) (χ : F α) (args : List (ASig α)) (st1 : GSt α) : Except PyErr (ASig α × GSt α) :=
  match st1.updated.lookup χ with
  | some w => .ok (w, { st1 with results := memoSet st1.results χ w })
  | none =>
    match st1.ops.lookup χ with
    | none => .error .key
    | some s =>
      match nodeStepOn cfg χ s args with
      | .error e => .error e
      | .ok (s', o) =>
          .ok (o, { st1 with ops := st1.ops.set χ s', updated := memoSet st1.updated χ o,
                             results := memoSet st1.results χ o })

theorem unary_body (cfg : DCfg) (χ : F α) (k : Visit α) (st : GSt α) :
    (do valOf (← callG cfg Gen.GlueDn.update_visitUnary { node := χ, kids := [k] } [] st)) =
      (match k st with
       | .error e => .error e
       | .ok (v, st1) => finishG cfg χ [v] st1) := by
  unfold finishG callG Gen.GlueDn.update_visitUnary
  simp only [execGS, evalGE]
  cases hk : k st with
  | error e => simp only [List.getElem?_cons_zero, hk, bind, Except.bind]
  | ok p =>
    obtain ⟨v, st1⟩ := p
    simp only [List.getElem?_cons_zero, hk, bind, Except.bind, pure, Except.pure]
    cases hu : List.lookup χ st1.updated with
    | some w =>
      simp only [Option.isSome_some, hu, gGet_gSet_same, valOf, asSig, bind, Except.bind, pure, Except.pure]
    | none =>
      simp only [Option.isSome_none]
      cases ho : List.lookup χ st1.ops with
      | none => rfl
      | some s =>
        have h1 : gGet "sample" (gSet "op" (GV.opRef χ) (gSet "sample" (GV.sig v) [])) = .ok (GV.sig v) := by
          rw [gGet_gSet_ne _ _ _ _ (by decide), gGet_gSet_same]
        simp only [gGet_gSet_same, evalArgs, evalGE, h1, bind, Except.bind, pure, Except.pure, asSig, StoreOn.get, ho]
        cases hs : nodeStepOn cfg χ s [v] with
        | error e => rfl
        | ok q =>
          obtain ⟨s', o⟩ := q
          simp only [gGet_gSet_same, valOf, asSig, bind, Except.bind, pure, Except.pure]

theorem binary_body (cfg : DCfg) (χ : F α) (k1 k2 : Visit α) (st : GSt α) :
    (do valOf (← callG cfg Gen.GlueDn.update_visitBinary { node := χ, kids := [k1, k2] } [] st)) =
      (match k1 st with
       | .error e => .error e
       | .ok (v1, st1) =>
         match k2 st1 with
         | .error e => .error e
         | .ok (v2, st2) => finishG cfg χ [v1, v2] st2) := by
  unfold finishG callG Gen.GlueDn.update_visitBinary
  simp only [execGS, evalGE]
  cases hk : k1 st with
  | error e => simp only [List.getElem?_cons_zero, hk, bind, Except.bind]
  | ok p =>
    obtain ⟨v1, st1⟩ := p
    simp only [List.getElem?_cons_zero, List.getElem?_cons_succ, hk, bind, Except.bind, pure, Except.pure]
    cases hk2 : k2 st1 with
    | error e => rfl
    | ok p2 =>
      obtain ⟨v2, st2⟩ := p2
      simp only []
      cases hu : List.lookup χ st2.updated with
      | some w =>
        simp only [Option.isSome_some, hu, gGet_gSet_same, valOf, asSig, bind, Except.bind, pure, Except.pure]
      | none =>
        simp only [Option.isSome_none]
        cases ho : List.lookup χ st2.ops with
        | none => rfl
        | some s =>
          have h1 : gGet "sample_left" (gSet "operator" (GV.opRef χ) (gSet "sample_right" (GV.sig v2)
              (gSet "sample_left" (GV.sig v1) []))) = .ok (GV.sig v1) := by
            rw [gGet_gSet_ne _ _ _ _ (by decide), gGet_gSet_ne _ _ _ _ (by decide), gGet_gSet_same]
          have h2 : gGet "sample_right" (gSet "operator" (GV.opRef χ) (gSet "sample_right" (GV.sig v2)
              (gSet "sample_left" (GV.sig v1) []))) = .ok (GV.sig v2) := by
            rw [gGet_gSet_ne _ _ _ _ (by decide), gGet_gSet_same]
          simp only [gGet_gSet_same, evalArgs, evalGE, h1, h2, bind, Except.bind, pure, Except.pure, asSig,
            StoreOn.get, ho]
          cases hs : nodeStepOn cfg χ s [v1, v2] with
          | error e => rfl
          | ok q =>
            obtain ⟨s', o⟩ := q
            simp only [gGet_gSet_same, valOf, asSig, bind, Except.bind, pure, Except.pure]

/-- The translated `visitLeaf` on a variable: the batch of the variable (`visitVariable`, no field). -/
theorem leaf_body_var (cfg : DCfg) (x : String) (st : GSt α) :
    visitGlueDn cfg (.var x) st =
      .ok (st.vod x, { st with results := memoSet st.results (.var x) (st.vod x) }) := by
  rw [visitGlueDn]
  unfold callG Gen.GlueDn.update_visitLeaf
  simp only [execGS, evalGE, bind, Except.bind, pure, Except.pure, gGet_gSet_same, asSig, valOf]

theorem tmOf_zero : tmOf (.lit 0) = Tm.zero := rfl

/-- The translated `visitLeaf` on a constant (`visitConstant`): `[]` once the constants have been sent. -/
theorem leaf_body_const (cfg : DCfg) (c : α) (st : GSt α) :
    visitGlueDn cfg (.const c) st =
      .ok (if st.sent then [] else [(Tm.zero, c), (.inf, c)],
        { st with results := memoSet st.results (.const c) (if st.sent then [] else [(Tm.zero, c), (.inf, c)]) }) := by
  rw [visitGlueDn]
  unfold callG Gen.GlueDn.update_visitLeaf
  obtain ⟨ops, upd, res, sent, vod⟩ := st
  simp only [execGS, evalGE, bind, Except.bind, pure, Except.pure]
  cases sent with
  | true =>
    simp only [bind, Except.bind, pure, Except.pure, gGet_gSet_same, asSig, valOf]
    rfl
  | false =>
    simp only [bind, Except.bind, pure, Except.pure, gGet_gSet_same, asSig, valOf, tmOf_zero]
    rfl

/-! ### one visit -/

omit [Val α] in
theorem lookup_cons_self {β : Type} (k : F α) (s : β) (m : List (F α × β)) : List.lookup k ((k, s) :: m) = some s := by
  rw [List.lookup_cons]; simp

/-- The outcome of a visit through the translated methods against the mirror's: the same signal, operator dictionary
    and memo — or the same exception; the flag and `var_object_dict` are left alone, `results` binds the node. -/
def VisitSpec (φ : F α) (st : GSt α) (m : Except PyErr (ASig α × (StoreOn α × MemoOn α))) :
    Except PyErr (ASig α × GSt α) → Prop
  | .error e => m = .error e
  | .ok (v, st') => m = .ok (v, (st'.ops, st'.updated)) ∧ st'.sent = st.sent ∧ st'.vod = st.vod ∧
      st'.results.lookup φ = some v

theorem finishG_spec (cfg : DCfg) (χ : F α) (args : List (ASig α)) (st1 : GSt α) :
    VisitSpec χ st1 (finishOn cfg χ args (st1.ops, st1.updated)) (finishG cfg χ args st1) := by
  unfold finishG finishOn
  cases hu : List.lookup χ st1.updated with
  | some w => exact ⟨rfl, rfl, rfl, lookup_cons_self _ _ _⟩
  | none =>
    simp only [StoreOn.get, bind, Except.bind]
    cases ho : List.lookup χ st1.ops with
    | none => exact rfl
    | some s =>
      simp only []
      cases hs : nodeStepOn cfg χ s args with
      | error e => exact rfl
      | ok q =>
        obtain ⟨s', o⟩ := q
        exact ⟨rfl, rfl, rfl, lookup_cons_self _ _ _⟩

def Good (cfg : DCfg) (φ : F α) : Prop :=
  ∀ st : GSt α, VisitSpec φ st (visitOnM cfg st.vod st.sent φ (st.ops, st.updated)) (visitGlueDn cfg φ st)

theorem good_node1 (cfg : DCfg) (χ φ : F α)
    (hG : ∀ st, visitGlueDn cfg χ st =
      (match visitGlueDn cfg φ st with
       | .error e => .error e
       | .ok (v, st1) => finishG cfg χ [v] st1))
    (hM : ∀ inp sent sm, visitOnM cfg inp sent χ sm =
      (match visitOnM cfg inp sent φ sm with
       | .error e => .error e
       | .ok (s, sm1) => finishOn cfg χ [s] sm1))
    (ih : Good cfg φ) : Good cfg χ := by
  intro st
  rw [hG st, hM]
  have ih0 := ih st
  cases hg : visitGlueDn cfg φ st with
  | error e =>
    rw [hg] at ih0
    rw [show visitOnM cfg st.vod st.sent φ (st.ops, st.updated) = .error e from ih0]
    exact rfl
  | ok p =>
    obtain ⟨v, st1⟩ := p
    rw [hg] at ih0
    obtain ⟨h1, h2, h3, -⟩ := ih0
    rw [h1]
    have hf := finishG_spec cfg χ [v] st1
    simp only []
    cases hfin : finishG cfg χ [v] st1 with
    | error e => rw [hfin] at hf; exact hf
    | ok q =>
      obtain ⟨o, st'⟩ := q
      rw [hfin] at hf
      obtain ⟨k1, k2, k3, k4⟩ := hf
      exact ⟨k1, k2.trans h2, k3.trans h3, k4⟩

theorem good_node2 (cfg : DCfg) (χ φ ψ : F α)
    (hG : ∀ st, visitGlueDn cfg χ st =
      (match visitGlueDn cfg φ st with
       | .error e => .error e
       | .ok (v1, st1) =>
         match visitGlueDn cfg ψ st1 with
         | .error e => .error e
         | .ok (v2, st2) => finishG cfg χ [v1, v2] st2))
    (hM : ∀ inp sent sm, visitOnM cfg inp sent χ sm =
      (match visitOnM cfg inp sent φ sm with
       | .error e => .error e
       | .ok (s1, sm1) =>
         match visitOnM cfg inp sent ψ sm1 with
         | .error e => .error e
         | .ok (s2, sm2) => finishOn cfg χ [s1, s2] sm2))
    (ih1 : Good cfg φ) (ih2 : Good cfg ψ) : Good cfg χ := by
  intro st
  rw [hG st, hM]
  have ih0 := ih1 st
  cases hg : visitGlueDn cfg φ st with
  | error e =>
    rw [hg] at ih0
    rw [show visitOnM cfg st.vod st.sent φ (st.ops, st.updated) = .error e from ih0]
    exact rfl
  | ok p =>
    obtain ⟨v1, st1⟩ := p
    rw [hg] at ih0
    obtain ⟨h1, h2, h3, -⟩ := ih0
    rw [h1]
    have ih0' := ih2 st1
    rw [h2, h3] at ih0'
    simp only []
    cases hg2 : visitGlueDn cfg ψ st1 with
    | error e =>
      rw [hg2] at ih0'
      rw [show visitOnM cfg st.vod st.sent ψ (st1.ops, st1.updated) = .error e from ih0']
      exact rfl
    | ok p2 =>
      obtain ⟨v2, st2⟩ := p2
      rw [hg2] at ih0'
      obtain ⟨j1, j2, j3, -⟩ := ih0'
      rw [j1]
      have hf := finishG_spec cfg χ [v1, v2] st2
      simp only []
      cases hfin : finishG cfg χ [v1, v2] st2 with
      | error e => rw [hfin] at hf; exact hf
      | ok q =>
        obtain ⟨o, st'⟩ := q
        rw [hfin] at hf
        obtain ⟨k1, k2, k3, k4⟩ := hf
        exact ⟨k1, (k2.trans j2).trans h2, (k3.trans j3).trans h3, k4⟩

theorem mirror1 (cfg : DCfg) (inp : String → ASig α) (sent : Bool) (φ : F α) (χ : F α) (sm : StoreOn α × MemoOn α) :
    (do let (s, sm1) ← visitOnM cfg inp sent φ sm
        finishOn cfg χ [s] sm1) =
      (match visitOnM cfg inp sent φ sm with
       | .error e => .error e
       | .ok (s, sm1) => finishOn cfg χ [s] sm1) := by
  cases visitOnM cfg inp sent φ sm with
  | error e => rfl
  | ok p => rfl

theorem mirror2 (cfg : DCfg) (inp : String → ASig α) (sent : Bool) (φ ψ : F α) (χ : F α) (sm : StoreOn α × MemoOn α) :
    (do let (s1, sm1) ← visitOnM cfg inp sent φ sm
        let (s2, sm2) ← visitOnM cfg inp sent ψ sm1
        finishOn cfg χ [s1, s2] sm2) =
      (match visitOnM cfg inp sent φ sm with
       | .error e => .error e
       | .ok (s1, sm1) =>
         match visitOnM cfg inp sent ψ sm1 with
         | .error e => .error e
         | .ok (s2, sm2) => finishOn cfg χ [s1, s2] sm2) := by
  cases visitOnM cfg inp sent φ sm with
  | error e => rfl
  | ok p =>
    obtain ⟨s1, sm1⟩ := p
    simp only [bind, Except.bind]
    cases visitOnM cfg inp sent ψ sm1 with
    | error e => rfl
    | ok p => rfl

theorem good_all (cfg : DCfg) (φ : F α) : Good cfg φ := by
  induction φ with
  | var x =>
    intro st
    rw [leaf_body_var, visitOnM]
    exact ⟨rfl, rfl, rfl, lookup_cons_self _ _ _⟩
  | const c =>
    intro st
    rw [leaf_body_const, visitOnM]
    exact ⟨rfl, rfl, rfl, lookup_cons_self _ _ _⟩
  | un op φ ih =>
    exact good_node1 cfg _ φ (fun st => by rw [visitGlueDn]; exact unary_body _ _ _ _)
      (fun inp sent sm => by rw [visitOnM]; exact mirror1 _ _ _ _ _ _) ih
  | tmp1 op φ ih =>
    exact good_node1 cfg _ φ (fun st => by rw [visitGlueDn]; exact unary_body _ _ _ _)
      (fun inp sent sm => by rw [visitOnM]; exact mirror1 _ _ _ _ _ _) ih
  | tb1 op a b φ ih =>
    exact good_node1 cfg _ φ (fun st => by rw [visitGlueDn]; exact unary_body _ _ _ _)
      (fun inp sent sm => by rw [visitOnM]; exact mirror1 _ _ _ _ _ _) ih
  | bin op φ ψ ih1 ih2 =>
    exact good_node2 cfg _ φ ψ (fun st => by rw [visitGlueDn]; exact binary_body _ _ _ _ _)
      (fun inp sent sm => by rw [visitOnM]; exact mirror2 _ _ _ _ _ _ _) ih1 ih2
  | tmp2 op φ ψ ih1 ih2 =>
    exact good_node2 cfg _ φ ψ (fun st => by rw [visitGlueDn]; exact binary_body _ _ _ _ _)
      (fun inp sent sm => by rw [visitOnM]; exact mirror2 _ _ _ _ _ _ _) ih1 ih2
  | tb2 op a b φ ψ ih1 ih2 =>
    exact good_node2 cfg _ φ ψ (fun st => by rw [visitGlueDn]; exact binary_body _ _ _ _ _)
      (fun inp sent sm => by rw [visitOnM]; exact mirror2 _ _ _ _ _ _ _) ih1 ih2

/-- What of the state the mirror keeps: the operator dictionary and the memo. -/
def proj (r : ASig α × GSt α) : ASig α × (StoreOn α × MemoOn α) := (r.1, (r.2.ops, r.2.updated))

/-- One visit through the translated `visitBinary` / `visitUnary` / `visitLeaf` (with `visitConstant` / `visitVariable` of the
    dense-time visitor) is `visitOnM`: the same signal, operator dictionary and memo, the same exception —
    on every state, `inp` being `var_object_dict` and `sent` the flag `constants_sent`. -/
theorem genGlueDn_visit (cfg : DCfg) (φ : F α) (st : GSt α) :
    (visitGlueDn cfg φ st).map proj = visitOnM cfg st.vod st.sent φ (st.ops, st.updated) := by
  have h := good_all cfg φ st
  cases hg : visitGlueDn cfg φ st with
  | error e => rw [hg] at h; rw [show visitOnM cfg st.vod st.sent φ (st.ops, st.updated) = .error e from h]; rfl
  | ok p =>
    obtain ⟨v, st'⟩ := p
    rw [hg] at h
    rw [h.1]; rfl

/-- … and it changes neither the flag nor `var_object_dict`, and binds the node in `results`. -/
theorem genGlueDn_visit_frame (cfg : DCfg) (φ : F α) (st st' : GSt α) (v : ASig α)
    (h : visitGlueDn cfg φ st = .ok (v, st')) :
    st'.sent = st.sent ∧ st'.vod = st.vod ∧ st'.results.lookup φ = some v := by
  have h0 := good_all cfg φ st
  rw [h] at h0
  exact h0.2

/-! ### `visitAst` -/

/-- The loop of `visitAst`: the assertions are visited in order, the signals collected. -/
def specsLoop : List (Visit α) → GSt α → Except PyErr (List (ASig α) × GSt α)
  | [], st => .ok ([], st)
  | f :: fs, st =>
    match f st with
    | .error e => .error e
    | .ok (v, st1) =>
      match specsLoop fs st1 with
      | .error e => .error e
      | .ok (l, st') => .ok (v :: l, st')

/-- One iteration of `for spec in ast.specs: out.append(self.visit(spec, …))`. -/
def specStep (cfg : DCfg) (p : GEnv α × GSt α) (f : Visit α) : Except PyErr (GEnv α × GSt α) :=
  execGS cfg (.appendLoc "out" .visitSpec) { p.1 with spec := some f } p.2 []

theorem specStep_eq (cfg : DCfg) (env : GEnv α) (st : GSt α) (f : Visit α) (g : GV α) (acc : List (ASig α))
    (henv : env.loc = [("out", g)]) (hg : asList g = .ok acc) :
    specStep cfg (env, st) f =
      match f st with
      | .error e => .error e
      | .ok (v, st1) => .ok ({ env with spec := some f, loc := [("out", .list (acc ++ [v]))] }, st1) := by
  unfold specStep
  have hgg : gGet "out" [("out", g)] = (.ok g : Except PyErr (GV α)) := rfl
  simp only [execGS, evalGE, henv, bind, Except.bind, pure, Except.pure, hgg, hg]
  cases hf : f st with
  | error e => rfl
  | ok p =>
    obtain ⟨v, st1⟩ := p
    rfl

theorem forSpecs_loop (cfg : DCfg) (fs : List (Visit α)) :
    ∀ (env : GEnv α) (g : GV α) (acc : List (ASig α)) (st : GSt α),
    env.loc = [("out", g)] → asList g = .ok acc →
    match specsLoop fs st with
    | .error e => fs.foldlM (specStep cfg) (env, st) = .error e
    | .ok (l, st') =>
        ∃ env' g', fs.foldlM (specStep cfg) (env, st) = .ok (env', st') ∧ env'.loc = [("out", g')] ∧
          asList g' = .ok (acc ++ l) := by
  induction fs with
  | nil =>
    intro env g acc st henv hg
    exact ⟨env, g, rfl, henv, by rw [List.append_nil]; exact hg⟩
  | cons f fs ih =>
    intro env g acc st henv hg
    rw [List.foldlM_cons, specStep_eq cfg env st f g acc henv hg]
    unfold specsLoop
    cases hf : f st with
    | error e => rfl
    | ok p =>
      obtain ⟨v, st1⟩ := p
      have := ih { env with spec := some f, loc := [("out", .list (acc ++ [v]))] } (.list (acc ++ [v])) (acc ++ [v]) st1
        rfl rfl
      simp only [bind, Except.bind]
      cases hl : specsLoop fs st1 with
      | error e => rw [hl] at this; exact this
      | ok q =>
        obtain ⟨l, st'⟩ := q
        rw [hl] at this
        obtain ⟨env', g', h1, h2, h3⟩ := this
        exact ⟨env', g', h1, h2, by rw [h3, List.append_assoc]; rfl⟩

theorem x_seq (cfg : DCfg) (a b : GS) (env : GEnv α) (st : GSt α) (specs : List (Visit α)) :
    execGS cfg (.seq a b) env st specs = (execGS cfg a env st specs >>= fun p => execGS cfg b p.1 p.2 specs) := id rfl
theorem x_clear (cfg : DCfg) (env : GEnv α) (st : GSt α) (specs : List (Visit α)) :
    execGS cfg (.clearDict "updated") env st specs = .ok (env, { st with updated := [] }) := id rfl
theorem x_out (cfg : DCfg) (env : GEnv α) (st : GSt α) (specs : List (Visit α)) :
    execGS cfg (.setLoc "out" .emptyList) env st specs =
      .ok ({ env with loc := gSet "out" .nil env.loc }, st) := id rfl
theorem x_forSpecs (cfg : DCfg) (env : GEnv α) (st : GSt α) (specs : List (Visit α)) :
    execGS cfg (.forSpecs (.appendLoc "out" .visitSpec)) env st specs = specs.foldlM (specStep cfg) (env, st) := id rfl
theorem x_ok_bind {ε σ ρ : Type} (a : σ) (f : σ → Except ε ρ) : (Except.ok a >>= f) = f a := id rfl
theorem x_err_bind {ε σ ρ : Type} (e : ε) (f : σ → Except ε ρ) : (Except.error e >>= f) = .error e := id rfl

/-- The translated `visitAst` of the update visitor: the memo is cleared, then the assertions are visited in order. -/
theorem updateSpecsGDn_eq (cfg : DCfg) (specs : List (F α)) (st : GSt α) :
    updateSpecsGDn cfg specs st = specsLoop (specs.map (visitGlueDn cfg)) { st with updated := [] } := by
  unfold updateSpecsGDn callG Gen.GlueDn.update_visitAst
  simp only [x_seq, x_clear, x_out, x_forSpecs, x_ok_bind]
  have := forSpecs_loop cfg (specs.map (visitGlueDn cfg))
    { node := F.const Val.zero, loc := gSet "out" GV.nil [] } GV.nil [] { st with updated := [] } rfl rfl
  cases hl : specsLoop (specs.map (visitGlueDn cfg)) { st with updated := [] } with
  | error e => rw [hl] at this; rw [this]; rfl
  | ok q =>
    obtain ⟨l, st'⟩ := q
    rw [hl] at this
    obtain ⟨env', g', h1, h2, h3⟩ := this
    rw [h1]
    have hgg : gGet "out" [("out", g')] = (.ok g' : Except PyErr (GV α)) := rfl
    simp only [evalGE, h2, hgg, bind, Except.bind, pure, Except.pure, h3, List.nil_append]

/-- The loop of `visitAst` against `visitSpecsOn`. -/
def LoopSpec (st : GSt α) (m : Except PyErr (List (ASig α) × (StoreOn α × MemoOn α))) :
    Except PyErr (List (ASig α) × GSt α) → Prop
  | .error e => m = .error e
  | .ok (vs, st') => m = .ok (vs, (st'.ops, st'.updated)) ∧ st'.sent = st.sent ∧ st'.vod = st.vod

theorem loop_agree (cfg : DCfg) (specs : List (F α)) : ∀ (st : GSt α),
    LoopSpec st (visitSpecsOn cfg st.vod st.sent specs (st.ops, st.updated))
      (specsLoop (specs.map (visitGlueDn cfg)) st) := by
  induction specs with
  | nil => intro st; exact ⟨rfl, rfl, rfl⟩
  | cons φ rest ih =>
    intro st
    have h := good_all cfg φ st
    simp only [List.map_cons, specsLoop, visitSpecsOn, bind, Except.bind, pure, Except.pure]
    cases hg : visitGlueDn cfg φ st with
    | error e =>
      rw [hg] at h
      rw [show visitOnM cfg st.vod st.sent φ (st.ops, st.updated) = .error e from h]
      exact rfl
    | ok p =>
      obtain ⟨v, st1⟩ := p
      rw [hg] at h
      obtain ⟨h1, h2, h3, -⟩ := h
      rw [h1]
      have h' := ih st1
      rw [h2, h3] at h'
      simp only []
      cases hg2 : specsLoop (rest.map (visitGlueDn cfg)) st1 with
      | error e =>
        rw [hg2] at h'
        rw [show visitSpecsOn cfg st.vod st.sent rest (st1.ops, st1.updated) = .error e from h']
        exact rfl
      | ok p2 =>
        obtain ⟨l, st2⟩ := p2
        rw [hg2] at h'
        obtain ⟨k1, k2, k3⟩ := h'
        rw [k1]
        exact ⟨rfl, k2.trans h2, k3.trans h3⟩

/-- What of the state after `visitAst` the mirror keeps. -/
def projR (r : List (ASig α) × GSt α) : List (ASig α) × MemoOn α × StoreOn α := (r.1, r.2.updated, r.2.ops)

/-- `visitAst` of the translated update visitor is `updateSpecsOn`: the signals of all assertions, the memo of the round,
    the new operator dictionary — or the same exception. -/
theorem genGlueDn_round (cfg : DCfg) (specs : List (F α)) (st : GSt α) :
    (updateSpecsGDn cfg specs st).map projR = updateSpecsOn cfg st.vod st.sent specs st.ops := by
  have h := loop_agree cfg specs { st with updated := [] }
  rw [updateSpecsGDn_eq]
  unfold updateSpecsOn
  cases hg : specsLoop (specs.map (visitGlueDn cfg)) { st with updated := [] } with
  | error e =>
    rw [hg] at h
    rw [show visitSpecsOn cfg st.vod st.sent specs (st.ops, []) = .error e from h]
    rfl
  | ok p =>
    obtain ⟨l, st'⟩ := p
    rw [hg] at h
    rw [show visitSpecsOn cfg st.vod st.sent specs (st.ops, []) = .ok (l, (st'.ops, st'.updated)) from h.1]
    rfl

/-- … and it changes neither the flag nor `var_object_dict`. -/
theorem genGlueDn_round_frame (cfg : DCfg) (specs : List (F α)) (st st' : GSt α) (l : List (ASig α))
    (h : updateSpecsGDn cfg specs st = .ok (l, st')) : st'.sent = st.sent ∧ st'.vod = st.vod := by
  have h0 := loop_agree cfg specs { st with updated := [] }
  rw [updateSpecsGDn_eq] at h
  rw [h] at h0
  exact h0.2

/-! ### `update` -/

/-- `set_variable_to_ast_from_dataset(dataset)` on `var_object_dict`: the entries of the dataset that name a free
    variable are written, in order (a later entry for the same variable replaces an earlier one). -/
def applyData (free : List String) (vod : String → ASig α) : List (String × ASig α) → (String → ASig α)
  | [] => vod
  | (x, s) :: rest => applyData free (if free.contains x then vodSet vod x s else vod) rest

/-- No operation object is registered under the name of a variable (variables and constants have none: `initStoreOn`;
    an update only re-binds operator nodes, `noVarKeys_round`). -/
def NoVarKeys (ops : StoreOn α) : Prop := ∀ x, ops.lookup (.var x) = none

/-- The body of `for data in dataset:` in `set_variable_to_ast_from_dataset`, as translated. -/
def dataBody : GS :=
  (.seq (.setLoc "var_name" (.dataIdx 0)) (.seq (.setLoc "var_object" (.dataIdx 1))
    (.ite (.inFreeVars (.dataIdx 0))
      (.seq (.setVar (.loc "var_name") (.loc "var_object"))
        (.ite (.inOps (.loc "var_name")) (.unsupported "self.online_operator_dict[var_name].sample = var_object") .skip))
      .skip)))

/-- The statements of `update` after `set_variable_to_ast_from_dataset(dataset)`, as translated. -/
def tailBody : GS :=
  (.seq (.setLoc "rob" .visitAst) (.seq (.setLoc "rob" (.lastOf "rob"))
    (.seq (.opaque "self.ast.results = self.updateVisitor.results") (.seq (.setFlag (.boolLit true))
      (.seq (.opaque "out = self.ast.var_object_dict[self.ast.out_var]")
        (.seq (.ite .outVarField (.unsupported "setattr(out, self.ast.out_var_field, rob)") .skip) .clearVars))))))

theorem interp_update_shape :
    Gen.GlueDn.interp_update =
      { body := .seq (.opaque "self.exist_ast()") (.seq (.forData dataBody) tailBody), ret := some (.loc "rob") } := rfl

/-- One iteration of `for data in dataset:`. -/
def dataStep (cfg : DCfg) (p : GEnv α × GSt α) (d : String × ASig α) : Except PyErr (GEnv α × GSt α) :=
  execGS cfg dataBody { p.1 with data := some d } p.2 []

theorem dataStep_eq (cfg : DCfg) (env : GEnv α) (st : GSt α) (x : String) (s : ASig α)
    (hnv : st.ops.lookup (.var x) = none) :
    dataStep cfg (env, st) (x, s) =
      .ok ({ env with data := some (x, s),
                      loc := gSet "var_object" (.sig s) (gSet "var_name" (.str x) env.loc) },
           { st with vod := if env.free.contains x then vodSet st.vod x s else st.vod }) := by
  unfold dataStep dataBody
  have h1 : gGet "var_name" (gSet "var_object" (GV.sig s) (gSet "var_name" (GV.str x) env.loc)) = .ok (GV.str x) := by
    rw [gGet_gSet_ne _ _ _ _ (by decide), gGet_gSet_same]
  simp only [execGS, evalGE, bind, Except.bind, pure, Except.pure]
  cases hf : env.free.contains x with
  | false => rfl
  | true =>
    simp only [h1, gGet_gSet_same, asSig, hnv, Option.isSome_none]
    rfl

theorem forData_loop (cfg : DCfg) (ds : List (String × ASig α)) : ∀ (env : GEnv α) (st : GSt α), NoVarKeys st.ops →
    ∃ env', ds.foldlM (dataStep cfg) (env, st) = .ok (env', { st with vod := applyData env.free st.vod ds }) ∧
      env'.free = env.free ∧ env'.vast = env.vast := by
  induction ds with
  | nil => intro env st _; exact ⟨env, rfl, rfl, rfl⟩
  | cons d ds ih =>
    intro env st hnv
    obtain ⟨x, s⟩ := d
    rw [List.foldlM_cons, dataStep_eq cfg env st x s (hnv x)]
    exact ih _ _ hnv

theorem x_opaque (cfg : DCfg) (w : String) (env : GEnv α) (st : GSt α) (specs : List (Visit α)) :
    execGS cfg (.opaque w) env st specs = .ok (env, st) := id rfl
theorem x_forData (cfg : DCfg) (env : GEnv α) (st : GSt α) (specs : List (Visit α)) :
    execGS cfg (.forData dataBody) env st specs = env.dataset.foldlM (dataStep cfg) (env, st) := id rfl

/-- The translated `update(dataset)`: the dataset is written to `var_object_dict`, `visitAst` runs, the signal of the last
    assertion is returned (`rob[len(rob) - 1]`: `IndexError` without assertions); the flag is set and `var_object_dict`
    cleared afterwards. -/
theorem updateGDn_eq (cfg : DCfg) (free : List String) (specs : List (F α)) (d : List (String × ASig α)) (st : GSt α)
    (hnv : NoVarKeys st.ops) :
    updateGDn cfg free specs d st =
      match updateSpecsGDn cfg specs { st with vod := applyData free st.vod d } with
      | .error e => .error e
      | .ok (l, st2) =>
        match l[l.length - 1]? with
        | none => .error .index
        | some rob => .ok (rob, { st2 with sent := true, vod := fun _ => [] }) := by
  unfold updateGDn callG
  rw [interp_update_shape]
  simp only [x_seq, x_opaque, x_ok_bind, x_forData]
  obtain ⟨env', h1, h2, h3⟩ := forData_loop cfg d
    { node := F.const Val.zero, vast := some (updateSpecsGDn cfg specs), free := free, dataset := d } st hnv
  rw [h1]
  simp only [x_ok_bind]
  unfold tailBody
  simp only [execGS, evalGE, h3, bind, Except.bind, pure, Except.pure]
  cases hu : updateSpecsGDn cfg specs { st with vod := applyData free st.vod d } with
  | error e => rfl
  | ok q =>
    obtain ⟨l, st2⟩ := q
    simp only [gGet_gSet_same, asList]
    cases hl : l[l.length - 1]? with
    | none => rfl
    | some rob =>
      simp only [gGet_gSet_same, valOf, asSig, bind, Except.bind, pure, Except.pure]

/-! ### an update re-binds operator nodes only -/

omit [Val α] in
theorem lookupOn_filter_ne {β : Type} (k k' : F α) (st : List (F α × β)) (h : k ≠ k') :
    List.lookup k (st.filter (fun p => p.1 ≠ k')) = st.lookup k := by
  have hb : (k == k') = false := by simpa using h
  induction st with
  | nil => rfl
  | cons p st ih =>
    obtain ⟨a, b⟩ := p
    by_cases ha : a = k'
    · subst ha
      rw [List.filter_cons_of_neg (by simp), ih, List.lookup_cons, hb]
    · rw [List.filter_cons_of_pos (by simpa using ha), List.lookup_cons, List.lookup_cons, ih]

omit [Val α] in
theorem lookupOn_set_ne (k k' : F α) (s : NSt α) (st : StoreOn α) (h : k ≠ k') :
    List.lookup k (st.set k' s) = st.lookup k := by
  have hb : (k == k') = false := by simpa using h
  unfold StoreOn.set
  rw [List.lookup_cons, hb, lookupOn_filter_ne _ _ _ h]

theorem finishOn_var (cfg : DCfg) (k : F α) (args : List (ASig α)) (sm sm' : StoreOn α × MemoOn α) (v : ASig α)
    (hk : ∀ x, k ≠ .var x) (h : finishOn cfg k args sm = .ok (v, sm')) (x : String) :
    sm'.1.lookup (.var x) = sm.1.lookup (.var x) := by
  unfold finishOn at h
  cases hu : List.lookup k sm.2 with
  | some w =>
    rw [hu] at h
    simp only [Except.ok.injEq, Prod.mk.injEq] at h
    rw [← h.2]
  | none =>
    rw [hu] at h
    simp only [StoreOn.get, bind, Except.bind] at h
    cases ho : List.lookup k sm.1 with
    | none => rw [ho] at h; exact absurd h (by simp)
    | some s =>
      rw [ho] at h
      simp only [] at h
      cases hs : nodeStepOn cfg k s args with
      | error e => rw [hs] at h; exact absurd h (by simp)
      | ok q =>
        obtain ⟨s', o⟩ := q
        rw [hs] at h
        simp only [pure, Except.pure, Except.ok.injEq, Prod.mk.injEq] at h
        rw [← h.2]
        exact lookupOn_set_ne _ _ _ _ (fun hh => hk x hh.symm)

/-- A visit leaves the entries of the dictionary under variable names as they are. -/
def VarFrame (cfg : DCfg) (φ : F α) : Prop :=
  ∀ inp sent (sm sm' : StoreOn α × MemoOn α) (v : ASig α), visitOnM cfg inp sent φ sm = .ok (v, sm') →
    ∀ x, sm'.1.lookup (.var x) = sm.1.lookup (.var x)

theorem varFrame_node1 (cfg : DCfg) (χ φ : F α) (hk : ∀ x, χ ≠ .var x)
    (hM : ∀ inp sent sm, visitOnM cfg inp sent χ sm =
      (match visitOnM cfg inp sent φ sm with
       | .error e => .error e
       | .ok (s, sm1) => finishOn cfg χ [s] sm1))
    (ih : VarFrame cfg φ) : VarFrame cfg χ := by
  intro inp sent sm sm' v h x
  rw [hM] at h
  cases h1 : visitOnM cfg inp sent φ sm with
  | error e => rw [h1] at h; exact absurd h (by simp)
  | ok p =>
    obtain ⟨s, sm1⟩ := p
    rw [h1] at h
    exact (finishOn_var cfg χ _ _ _ _ hk h x).trans (ih inp sent sm sm1 s h1 x)

theorem varFrame_node2 (cfg : DCfg) (χ φ ψ : F α) (hk : ∀ x, χ ≠ .var x)
    (hM : ∀ inp sent sm, visitOnM cfg inp sent χ sm =
      (match visitOnM cfg inp sent φ sm with
       | .error e => .error e
       | .ok (s1, sm1) =>
         match visitOnM cfg inp sent ψ sm1 with
         | .error e => .error e
         | .ok (s2, sm2) => finishOn cfg χ [s1, s2] sm2))
    (ih1 : VarFrame cfg φ) (ih2 : VarFrame cfg ψ) : VarFrame cfg χ := by
  intro inp sent sm sm' v h x
  rw [hM] at h
  cases h1 : visitOnM cfg inp sent φ sm with
  | error e => rw [h1] at h; exact absurd h (by simp)
  | ok p =>
    obtain ⟨s1, sm1⟩ := p
    rw [h1] at h
    simp only [] at h
    cases h2 : visitOnM cfg inp sent ψ sm1 with
    | error e => rw [h2] at h; exact absurd h (by simp)
    | ok p2 =>
      obtain ⟨s2, sm2⟩ := p2
      rw [h2] at h
      exact ((finishOn_var cfg χ _ _ _ _ hk h x).trans (ih2 inp sent sm1 sm2 s2 h2 x)).trans
        (ih1 inp sent sm sm1 s1 h1 x)

theorem varFrame_all (cfg : DCfg) (φ : F α) : VarFrame cfg φ := by
  induction φ with
  | var y =>
    intro inp sent sm sm' v h x
    rw [visitOnM] at h
    simp only [Except.ok.injEq, Prod.mk.injEq] at h
    rw [← h.2]
  | const c =>
    intro inp sent sm sm' v h x
    rw [visitOnM] at h
    simp only [Except.ok.injEq, Prod.mk.injEq] at h
    rw [← h.2]
  | un op φ ih =>
    exact varFrame_node1 cfg _ φ (fun x => by simp) (fun inp sent sm => by rw [visitOnM]; exact mirror1 _ _ _ _ _ _) ih
  | tmp1 op φ ih =>
    exact varFrame_node1 cfg _ φ (fun x => by simp) (fun inp sent sm => by rw [visitOnM]; exact mirror1 _ _ _ _ _ _) ih
  | tb1 op a b φ ih =>
    exact varFrame_node1 cfg _ φ (fun x => by simp) (fun inp sent sm => by rw [visitOnM]; exact mirror1 _ _ _ _ _ _) ih
  | bin op φ ψ ih1 ih2 =>
    exact varFrame_node2 cfg _ φ ψ (fun x => by simp) (fun inp sent sm => by rw [visitOnM]; exact mirror2 _ _ _ _ _ _ _)
      ih1 ih2
  | tmp2 op φ ψ ih1 ih2 =>
    exact varFrame_node2 cfg _ φ ψ (fun x => by simp) (fun inp sent sm => by rw [visitOnM]; exact mirror2 _ _ _ _ _ _ _)
      ih1 ih2
  | tb2 op a b φ ψ ih1 ih2 =>
    exact varFrame_node2 cfg _ φ ψ (fun x => by simp) (fun inp sent sm => by rw [visitOnM]; exact mirror2 _ _ _ _ _ _ _)
      ih1 ih2

theorem visitSpecsOn_props (cfg : DCfg) (inp : String → ASig α) (sent : Bool) (specs : List (F α)) :
    ∀ (sm sm' : StoreOn α × MemoOn α) (vs : List (ASig α)), visitSpecsOn cfg inp sent specs sm = .ok (vs, sm') →
      vs.length = specs.length ∧ ∀ x, sm'.1.lookup (.var x) = sm.1.lookup (.var x) := by
  induction specs with
  | nil =>
    intro sm sm' vs h
    simp only [visitSpecsOn, Except.ok.injEq, Prod.mk.injEq] at h
    rw [← h.1, ← h.2]
    exact ⟨rfl, fun _ => rfl⟩
  | cons φ rest ih =>
    intro sm sm' vs h
    simp only [visitSpecsOn, bind, Except.bind, pure, Except.pure] at h
    cases h1 : visitOnM cfg inp sent φ sm with
    | error e => rw [h1] at h; exact absurd h (by simp)
    | ok p =>
      obtain ⟨v, sm1⟩ := p
      rw [h1] at h
      simp only [] at h
      cases h2 : visitSpecsOn cfg inp sent rest sm1 with
      | error e => rw [h2] at h; exact absurd h (by simp)
      | ok p2 =>
        obtain ⟨vs', sm2⟩ := p2
        rw [h2] at h
        simp only [Except.ok.injEq, Prod.mk.injEq] at h
        obtain ⟨k1, k2⟩ := ih sm1 sm2 vs' h2
        rw [← h.1, ← h.2]
        exact ⟨by simp [k1], fun x => (k2 x).trans (varFrame_all cfg φ inp sent sm sm1 v h1 x)⟩

/-- One `update()` of the mirror: one signal per assertion; no operation object appears under a variable name. -/
theorem updateSpecsOn_props (cfg : DCfg) (inp : String → ASig α) (sent : Bool) (specs : List (F α)) (st st' : StoreOn α)
    (vs : List (ASig α)) (mm : MemoOn α) (h : updateSpecsOn cfg inp sent specs st = .ok (vs, mm, st')) :
    vs.length = specs.length ∧ (NoVarKeys st → NoVarKeys st') := by
  unfold updateSpecsOn at h
  simp only [bind, Except.bind, pure, Except.pure] at h
  cases h1 : visitSpecsOn cfg inp sent specs (st, []) with
  | error e => rw [h1] at h; exact absurd h (by simp)
  | ok p =>
    obtain ⟨vs', st1, mm1⟩ := p
    rw [h1] at h
    simp only [Except.ok.injEq, Prod.mk.injEq] at h
    obtain ⟨k1, k2⟩ := visitSpecsOn_props cfg inp sent specs _ _ _ h1
    rw [← h.1, ← h.2.2]
    exact ⟨k1, fun hnv x => (k2 x).trans (hnv x)⟩

/-! ### a whole run -/

/-- What the visitor reads as `var_object_dict` in the successive `update(dataset)` calls: the dataset written over the
    dictionary — as it is before the first call, all `[]` (the `fromkeys(…, [])` at the end of `update`) afterwards. -/
def inputsOf (free : List String) (vod : String → ASig α) : List (List (String × ASig α)) → List (String → ASig α)
  | [] => []
  | d :: ds => applyData free vod d :: inputsOf free (fun _ => []) ds

/-- `rob[len(rob) - 1]`. -/
def lastSig (l : List (ASig α)) : ASig α := (l[l.length - 1]?).getD []

/-- One `update(dataset)` through the translated methods is one `updateSpecsOn` of the mirror on the batch
    `applyData free vod dataset`; it returns the signal of the last assertion, sets the flag and clears `var_object_dict`. -/
theorem genGlueDn_update (cfg : DCfg) (free : List String) (specs : List (F α)) (hs : specs ≠ [])
    (d : List (String × ASig α)) (st : GSt α) (hnv : NoVarKeys st.ops) :
    match updateGDn cfg free specs d st with
    | .error e => updateSpecsOn cfg (applyData free st.vod d) st.sent specs st.ops = .error e
    | .ok (rob, st') =>
        ∃ vs, updateSpecsOn cfg (applyData free st.vod d) st.sent specs st.ops = .ok (vs, st'.updated, st'.ops) ∧
          rob = lastSig vs ∧ st'.sent = true ∧ st'.vod = (fun _ => []) ∧ NoVarKeys st'.ops := by
  rw [updateGDn_eq cfg free specs d st hnv]
  have hr := genGlueDn_round cfg specs { st with vod := applyData free st.vod d }
  cases hu : updateSpecsGDn cfg specs { st with vod := applyData free st.vod d } with
  | error e =>
    rw [hu] at hr
    exact hr.symm
  | ok q =>
    obtain ⟨l, st2⟩ := q
    rw [hu] at hr
    have hr' : updateSpecsOn cfg (applyData free st.vod d) st.sent specs st.ops = .ok (l, st2.updated, st2.ops) := hr.symm
    obtain ⟨hlen, hkeys⟩ := updateSpecsOn_props cfg _ _ specs _ _ _ _ hr'
    have hpos : l.length - 1 < l.length := by
      have : specs.length ≠ 0 := fun h => hs (List.length_eq_zero_iff.1 h)
      omega
    simp only []
    rw [List.getElem?_eq_getElem hpos]
    refine ⟨l, hr', ?_, rfl, rfl, hkeys hnv⟩
    unfold lastSig
    rw [List.getElem?_eq_getElem hpos]
    rfl

/-- A whole run: the sequence of `update(dataset)` calls through the translated methods is `runSpecsOn` of the mirror — the
    flag as it is in the first call and `True` in all later ones —, per call the signal of the last assertion and the memo of
    the round; the same exception otherwise. -/
theorem genGlueDn_run (cfg : DCfg) (free : List String) (specs : List (F α)) (hs : specs ≠ [])
    (ds : List (List (String × ASig α))) (st : GSt α) (hnv : NoVarKeys st.ops) :
    runSpecsGDn cfg free specs st ds =
      (runSpecsOn cfg specs st.ops st.sent (inputsOf free st.vod ds)).map
        (fun l => l.map (fun r => (lastSig r.1, r.2))) := by
  induction ds generalizing st with
  | nil => rfl
  | cons d ds ih =>
    have h := genGlueDn_update cfg free specs hs d st hnv
    simp only [runSpecsGDn, inputsOf, runSpecsOn, bind, Except.bind, pure, Except.pure]
    cases hg : updateGDn cfg free specs d st with
    | error e =>
      rw [hg] at h
      rw [h]; rfl
    | ok p =>
      obtain ⟨rob, st'⟩ := p
      rw [hg] at h
      obtain ⟨vs, h1, h2, h3, h4, h5⟩ := h
      rw [h1]
      simp only [ih st' h5, h3, h4, h2]
      cases runSpecsOn cfg specs st'.ops true (inputsOf free (fun _ => []) ds) with
      | error e => rfl
      | ok rest => rfl

/-! ### a fresh monitor -/

theorem bind_ok {ε β γ : Type} {x : Except ε β} {f : β → Except ε γ} {c : γ} (h : (x >>= f) = .ok c) :
    ∃ b, x = .ok b ∧ f b = .ok c := by
  cases x with
  | error e => exact absurd h (by simp [bind, Except.bind])
  | ok b => exact ⟨b, rfl, h⟩

theorem initF_node1 (χ φ : F α) (hk : ∀ x, χ ≠ .var x)
    (ih : ∀ st st' : StoreOn α, initStoreOnF φ st = .ok st' → ∀ x, st'.lookup (.var x) = st.lookup (.var x))
    (st st' : StoreOn α)
    (h : (do let st1 ← initStoreOnF φ st
             pure (st1.set χ (← initNodeOn χ))) = .ok st') (x : String) :
    st'.lookup (.var x) = st.lookup (.var x) := by
  obtain ⟨st1, h1, h2⟩ := bind_ok h
  obtain ⟨n, _, h4⟩ := bind_ok h2
  simp only [pure, Except.pure, Except.ok.injEq] at h4
  rw [← h4, lookupOn_set_ne _ _ _ _ (fun hh => hk x hh.symm)]
  exact ih st st1 h1 x

theorem initF_node2 (χ φ ψ : F α) (hk : ∀ x, χ ≠ .var x)
    (ih1 : ∀ st st' : StoreOn α, initStoreOnF φ st = .ok st' → ∀ x, st'.lookup (.var x) = st.lookup (.var x))
    (ih2 : ∀ st st' : StoreOn α, initStoreOnF ψ st = .ok st' → ∀ x, st'.lookup (.var x) = st.lookup (.var x))
    (st st' : StoreOn α)
    (h : (do let st1 ← initStoreOnF φ st
             let st2 ← initStoreOnF ψ st1
             pure (st2.set χ (← initNodeOn χ))) = .ok st') (x : String) :
    st'.lookup (.var x) = st.lookup (.var x) := by
  obtain ⟨st1, h1, h2⟩ := bind_ok h
  obtain ⟨st2, h3, h4⟩ := bind_ok h2
  obtain ⟨n, _, h6⟩ := bind_ok h4
  simp only [pure, Except.pure, Except.ok.injEq] at h6
  rw [← h6, lookupOn_set_ne _ _ _ _ (fun hh => hk x hh.symm)]
  exact (ih2 st1 st2 h3 x).trans (ih1 st st1 h1 x)

theorem initStoreOnF_var (φ : F α) : ∀ st st' : StoreOn α, initStoreOnF φ st = .ok st' →
    ∀ x, st'.lookup (.var x) = st.lookup (.var x) := by
  induction φ with
  | var y => intro st st' h x; rw [initStoreOnF] at h; cases h; rfl
  | const c => intro st st' h x; rw [initStoreOnF] at h; cases h; rfl
  | un op φ ih => intro st st' h; rw [initStoreOnF] at h; exact initF_node1 _ φ (fun x => by simp) ih st st' h
  | tmp1 op φ ih => intro st st' h; rw [initStoreOnF] at h; exact initF_node1 _ φ (fun x => by simp) ih st st' h
  | tb1 op a b φ ih => intro st st' h; rw [initStoreOnF] at h; exact initF_node1 _ φ (fun x => by simp) ih st st' h
  | bin op φ ψ ih1 ih2 =>
    intro st st' h; rw [initStoreOnF] at h; exact initF_node2 _ φ ψ (fun x => by simp) ih1 ih2 st st' h
  | tmp2 op φ ψ ih1 ih2 =>
    intro st st' h; rw [initStoreOnF] at h; exact initF_node2 _ φ ψ (fun x => by simp) ih1 ih2 st st' h
  | tb2 op a b φ ψ ih1 ih2 =>
    intro st st' h; rw [initStoreOnF] at h; exact initF_node2 _ φ ψ (fun x => by simp) ih1 ih2 st st' h

/-- The dictionary `set_ast` builds has no operation object under a variable name. -/
theorem noVarKeys_init (specs : List (F α)) : ∀ st st' : StoreOn α, initStoreOn specs st = .ok st' →
    NoVarKeys st → NoVarKeys st' := by
  induction specs with
  | nil => intro st st' h hnv; rw [initStoreOn] at h; cases h; exact hnv
  | cons φ rest ih =>
    intro st st' h hnv
    rw [initStoreOn] at h
    obtain ⟨st1, h1, h2⟩ := bind_ok h
    exact ih st1 st' h2 (fun x => (initStoreOnF_var φ st st1 h1 x).trans (hnv x))

/-- A fresh monitor (`set_ast`: the dictionary of the construction visitor, the flag `False`) fed `datasets` through the
    translated `update` is `runProgramOn` of the mirror. -/
theorem genGlueDn_program (cfg : DCfg) (free : List String) (specs : List (F α)) (hs : specs ≠ [])
    (ds : List (List (String × ASig α))) (upd res : MemoOn α) (vod : String → ASig α) :
    (do let o ← initStoreOn specs []
        runSpecsGDn cfg free specs { ops := o, updated := upd, results := res, sent := false, vod := vod } ds) =
      (runProgramOn cfg specs (inputsOf free vod ds)).map (fun l => l.map (fun r => (lastSig r.1, r.2))) := by
  unfold runProgramOn
  cases hi : initStoreOn specs ([] : StoreOn α) with
  | error e => rfl
  | ok o =>
    exact genGlueDn_run cfg free specs hs ds _ (noVarKeys_init specs [] o hi (fun _ => rfl))

/-! ### `set_ast` and `reset` -/

/-- The translated `set_ast`: the dictionary is built anew (the step of the parent class), the flag is `False` again and
    `var_object_dict` holds the empty batch for every variable; memo and `results` of the visitor stay. -/
theorem genGlueDn_set_ast (cfg : DCfg) (specs : List (F α)) (st : GSt α) :
    setAstGDn cfg specs st =
      (initStoreOn specs []).map (fun o => { st with ops := o, sent := false, vod := fun _ => [] }) := by
  unfold setAstGDn callG Gen.GlueDn.interp_set_ast
  simp only [execGS, evalGE, bind, Except.bind, pure, Except.pure]
  cases initStoreOn specs ([] : StoreOn α) with
  | error e => rfl
  | ok o => rfl

/-- The translated `reset` is `set_ast(self.ast)`. -/
theorem genGlueDn_reset (cfg : DCfg) (specs : List (F α)) (st : GSt α) :
    resetGDn cfg specs st =
      (initStoreOn specs []).map (fun o => { st with ops := o, sent := false, vod := fun _ => [] }) := by
  unfold resetGDn callG Gen.GlueDn.interp_reset
  simp only [execGS, evalGE, bind, Except.bind, pure, Except.pure]
  cases initStoreOn specs ([] : StoreOn α) with
  | error e => rfl
  | ok o => rfl

/-- After `reset()` (or `set_ast`) the monitor behaves as a fresh one: the run through the translated methods is
    `runProgramOn` of the mirror, whatever the state was. -/
theorem genGlueDn_reset_run (cfg : DCfg) (free : List String) (specs : List (F α)) (hs : specs ≠ [])
    (ds : List (List (String × ASig α))) (st : GSt α) :
    (do let st' ← resetGDn cfg specs st
        runSpecsGDn cfg free specs st' ds) =
      (runProgramOn cfg specs (inputsOf free (fun _ => []) ds)).map (fun l => l.map (fun r => (lastSig r.1, r.2))) := by
  rw [genGlueDn_reset]
  have h := genGlueDn_program cfg free specs hs ds st.updated st.results (fun _ => [])
  cases hi : initStoreOn specs ([] : StoreOn α) with
  | error e => rw [hi] at h; exact h
  | ok o => rw [hi] at h; exact h

/-! ### what is translated -/

/-- Nothing in the translated methods is outside the translated subset, except
    * the loop of `visitVariable` under `if node.field:` (variables of a user-defined type; `node.field` is empty for
      the float-typed variables of the model, `GE.nodeField`),
    * `self.online_operator_dict[var_name].sample = var_object` under `if var_name in self.online_operator_dict:` in
      `set_variable_to_ast_from_dataset` (no operation object is registered under a variable name, `NoVarKeys`),
    * `setattr(out, self.ast.out_var_field, rob)` under `if self.ast.out_var_field:` (empty for a float-typed output). -/
theorem genGlueDn_supported :
    Gen.GlueDn.methods.map (fun p => (p.1, p.2.unsup)) =
      [("update_visitAst", []), ("update_visitBinary", []), ("update_visitUnary", []),
       ("update_visitLeaf",
         ["for val in vals:     sample_return.append([val[0], operator.attrgetter(node.field)(val[1])])"]),
       ("interp_update",
         ["self.online_operator_dict[var_name].sample = var_object", "setattr(out, self.ast.out_var_field, rob)"]),
       ("interp_set_ast", []), ("interp_reset", [])] := by
  decide

/-- The statements of `update` kept as named steps without effect on the model's state (all others are translated or
    `unsupported`): the check that a specification has been parsed, the alias `ast.results` of the visitor's `results`,
    the read of the output variable's object. -/
theorem genGlueDn_opaque :
    Gen.GlueDn.methods.map (fun p => (p.1, p.2.body.opaques)) =
      [("update_visitAst", []), ("update_visitBinary", []), ("update_visitUnary", []), ("update_visitLeaf", []),
       ("interp_update",
         ["self.exist_ast()", "self.ast.results = self.updateVisitor.results",
          "out = self.ast.var_object_dict[self.ast.out_var]"]),
       ("interp_set_ast", []), ("interp_reset", [])] := by
  decide

/-! ### sanity: concrete runs -/

namespace Example

/-- Three values `-inf < 0 < +inf`. -/
local instance : Val (Fin 3) where
  lt a b := decide (a < b)
  neg a := Fin.rev a
  abs a := if a < 1 then Fin.rev a else a
  add a _ := a
  sub a b := if a < b then 0 else if b < a then 2 else 1
  mul a _ := a
  div a _ := a
  pinf := 2
  ninf := 0
  zero := 1
  sqrt a := a
  exp a := a
  ln a := a
  pow a _ := a
  log a _ := a

local instance exceptDecEq {ε β : Type} [DecidableEq ε] [DecidableEq β] : DecidableEq (Except ε β)
  | .ok a, .ok b => if h : a = b then isTrue (by rw [h]) else isFalse (fun h' => h (Except.ok.inj h'))
  | .error a, .error b => if h : a = b then isTrue (by rw [h]) else isFalse (fun h' => h (Except.error.inj h'))
  | .ok _, .error _ => isFalse (fun h => by cases h)
  | .error _, .ok _ => isFalse (fun h => by cases h)

local instance decSig : DecidableEq (ASig (Fin 3)) := inferInstance
local instance decMemo : DecidableEq (MemoOn (Fin 3)) := inferInstance
local instance decOut : DecidableEq (ASig (Fin 3) × MemoOn (Fin 3)) := inferInstance

/-- A fresh monitor: the dictionary of `set_ast`, empty memo and `results`, the flag `False`. -/
def fresh (o : StoreOn (Fin 3)) : GSt (Fin 3) :=
  { ops := o, updated := [], results := [], sent := false, vod := fun _ => [] }

def outOf (l : List (List (ASig (Fin 3)) × MemoOn (Fin 3))) : List (ASig (Fin 3) × MemoOn (Fin 3)) :=
  l.map (fun r => (lastSig r.1, r.2))

/-- `-(2)`: the constant signal reaches the operation in the first `update` only. -/
def negConst : List (F (Fin 3)) := [.un .negate (.const 2)]

example :
    (do let o ← initStoreOn negConst []
        runSpecsGDn {} ["x"] negConst (fresh o) [[], []]) =
      .ok [([(Tm.zero, 0), (.inf, 0)], [(.un .negate (.const 2), [(Tm.zero, 0), (.inf, 0)])]),
           ([], [(.un .negate (.const 2), [])])] := by
  decide

example :
    (do let o ← initStoreOn negConst []
        runSpecsGDn {} ["x"] negConst (fresh o) [[], []]) =
    (do let o ← initStoreOn negConst []
        (runSpecsOn {} negConst o false (inputsOf ["x"] (fun _ => []) [[], []])).map outOf) := by
  decide

/-- Without assertions `rob[len(rob) - 1]` raises `IndexError` (hence `specs ≠ []` in `genGlueDn_run`). -/
example : runSpecsGDn {} ["x"] ([] : List (F (Fin 3))) (fresh []) [[]] = .error .index := by
  decide

/-- Four assertions that share `once(x)` (one operation object, updated once per `update`: the memo); a constant below
    `-` below `historically`; a bounded `once`. -/
def exSpecs : List (F (Fin 3)) :=
  [.tmp1 .once (.var "x"), .un .negate (.tmp1 .once (.var "x")), .tmp1 .hist (.un .negate (.const 2)),
   .tb1 .once 0 1 (.un .abs (.tmp1 .once (.var "x")))]

/-- Three `update(dataset)` calls: `y` is not a free variable, the last call leaves `x` out. -/
def exData : List (List (String × ASig (Fin 3))) :=
  [[("x", [(.fin 0, 0), (.fin 1, 1)]), ("y", [(.fin 0, 2)])], [("x", [(.fin 2, 2), (.fin 3, 0)])], []]

example :
    (do let o ← initStoreOn exSpecs []
        runSpecsGDn {} ["x"] exSpecs (fresh o) exData) =
    (do let o ← initStoreOn exSpecs []
        (runSpecsOn {} exSpecs o false (inputsOf ["x"] (fun _ => []) exData)).map outOf) := by
  decide +kernel

/-- … and the signals of *all* assertions, round by round (`visitAst`). -/
example :
    (do let o ← initStoreOn exSpecs []
        let (l1, st1) ← updateSpecsGDn {} exSpecs { fresh o with vod := applyData ["x"] (fun _ => []) exData[0]! }
        let (l2, _) ← updateSpecsGDn {} exSpecs { st1 with sent := true, vod := applyData ["x"] (fun _ => []) exData[1]! }
        pure [l1, l2]) =
    (do let o ← initStoreOn exSpecs []
        (runSpecsOn {} exSpecs o false (inputsOf ["x"] (fun _ => []) (exData.take 2))).map (fun l => l.map (·.1))) := by
  decide +kernel

end Example

end Rtamt.Py.GDn
