/-
  The functions of `rtamt/explanation/ltl/discrete_time/explanations.py`, as translated from the source
  (`Rtamt/Py/GeneratedExpl.lean`), compute the interval lists of the mirror (`Rtamt/Discrete/Explain.lean`):
  part A - the functions without a scan of the signal, and the two-operand scans
  (`explain_sat_or`, `explain_unsat_and`, `explain_sat_implies`).
-/
import RtamtProofs.GenExplDefs

namespace Rtamt.Py
open Rtamt Val

variable {α : Type} [Val α]

set_option linter.unusedSimpArgs false

theorem fn_unary (s : List α) (I : Ivs) :
    call (α := α) Gen.Expl.ltl_explain_unary [] [.list s, encI I] = .ok ([], encI I) := by
  py_simp [Gen.Expl.ltl_explain_unary]

theorem fn_binary (s1 s2 : List α) (I : Ivs) :
    call (α := α) Gen.Expl.ltl_explain_binary [] [.list s1, .list s2, encI I] = .ok ([], .pair (encI I) (encI I)) := by
  py_simp [Gen.Expl.ltl_explain_binary]

namespace LtlA

/-! ### one-step equations of the symbolic execution (`id rfl`: see the performance note in `GenUnits.lean`) -/

theorem x_ok_bind {ε σ ρ : Type} (a : σ) (f : σ → Except ε ρ) : (Except.ok a >>= f) = f a := id rfl
theorem x_exec_skip (env : Env α) : exec .skip env = .ok env := id rfl
theorem x_exec_seq (a b : S) (env : Env α) : exec (.seq a b) env = (exec a env >>= exec b) := id rfl
theorem x_exec_setLoc (x : String) (e : E) (env : Env α) :
    exec (.setLoc x e) env = (evalE env e >>= fun v => .ok { env with loc := setKey x v env.loc }) := id rfl
theorem x_exec_ite (c : E) (t e : S) (env : Env α) :
    exec (.ite c t e) env = (evalE env c >>= fun v => match v with
      | .bool true => exec t env
      | .bool false => exec e env
      | _ => .error .type) := id rfl
theorem x_exec_appendLoc (x : String) (e : E) (env : Env α) :
    exec (.appendLoc x e) env = (evalE env e >>= fun v => getKey x env.loc >>= fun t => appendV t v >>= fun t' =>
      .ok { env with loc := setKey x t' env.loc }) := id rfl
theorem x_exec_unpack (a b : String) (e : E) (env : Env α) :
    exec (.unpack a b e) env = (evalE env e >>= fun v => match v with
      | .pair x y => .ok { env with loc := setKey b y (setKey a x env.loc) }
      | _ => .error .type) := id rfl

theorem x_evalE_loc (env : Env α) (x : String) : evalE env (.loc x) = getKey x env.loc := id rfl
theorem x_evalE_int (env : Env α) (n : Int) : evalE env (.int n) = .ok (.int n) := id rfl
theorem x_evalE_emptyList (env : Env α) : evalE env .emptyList = .ok (.dlist []) := id rfl
theorem x_evalE_un (env : Env α) (op : UnOp) (e : E) : evalE env (.un op e) = (evalE env e >>= evalUn op) := id rfl
theorem x_evalE_bin (env : Env α) (op : BinOp) (a b : E) :
    evalE env (.bin op a b) = (evalE env a >>= fun x => evalE env b >>= fun y => evalBin op x y) := id rfl
theorem x_evalE_idx (env : Env α) (a b : E) :
    evalE env (.idx a b) = (evalE env a >>= fun x => evalE env b >>= fun y => evalIdx x y) := id rfl
theorem x_evalE_tuple (env : Env α) (a b : E) :
    evalE env (.tuple a b) = (evalE env a >>= fun x => evalE env b >>= fun y => .ok (.pair x y)) := id rfl
theorem x_evalE_ifExp (env : Env α) (c a b : E) :
    evalE env (.ifExp c a b) = (evalE env c >>= fun v => match v with
      | .bool true => evalE env a
      | .bool false => evalE env b
      | _ => .error .type) := id rfl
theorem x_evalE_len_list (env : Env α) (e : E) (l : List α) (h : evalE env e = .ok (.list l)) :
    evalE env (.len e) = .ok (.int l.length) := by
  simp [evalE, h, asList, bind, Except.bind]
theorem x_evalE_len_ivs (env : Env α) (e : E) (l : IvsZ) (h : evalE env e = .ok (.ivs l)) :
    evalE env (.len e) = .ok (.int l.length) := by
  simp [evalE, h, bind, Except.bind]

theorem eb_lt_int (x y : Int) : evalBin (α := α) .lt (.int x) (.int y) = .ok (.bool (decide (x < y))) := by
  simp [evalBin, coerce]
theorem eb_le_int (x y : Int) : evalBin (α := α) .le (.int x) (.int y) = .ok (.bool (decide (x ≤ y))) := by
  simp [evalBin, coerce]
theorem eb_gt_int (x y : Int) : evalBin (α := α) .gt (.int x) (.int y) = .ok (.bool (decide (y < x))) := by
  simp [evalBin, coerce]
theorem eb_eq_int (x y : Int) : evalBin (α := α) .eq (.int x) (.int y) = .ok (.bool (decide (x = y))) := by
  simp [evalBin, coerce]
theorem eb_add_int (x y : Int) : evalBin (α := α) .add (.int x) (.int y) = .ok (.int (x + y)) := by
  simp [evalBin, coerce]
theorem eb_sub_int (x y : Int) : evalBin (α := α) .sub (.int x) (.int y) = .ok (.int (x - y)) := by
  simp [evalBin, coerce]

theorem evalUn_truthy_bool (b : Bool) : evalUn (α := α) .truthy (.bool b) = .ok (.bool b) := rfl
theorem evalUn_not_bool (b : Bool) : evalUn (α := α) .not (.bool b) = .ok (.bool (!b)) := rfl
theorem decide_zero_eq_one : decide ((0 : Int) = 1) = false := by decide

omit [Val α] in
/-- `x.append([a, b])` on an interval list (uniform in the representation switch `[]` → `ivs`). -/
theorem appendV_encZ (l : IvsZ) (a b : Int) :
    appendV (α := α) (encZ l) (.pair (.int a) (.int b)) = .ok (encZ (l ++ [(a, b)])) := by
  cases l <;> simp [encZ, appendV]

theorem exec_forPair_encZ (a b : String) (it : E) (body : S) (env : Env α) (l : IvsZ)
    (h : evalE env it = .ok (encZ l)) :
    exec (.forPair a b it body) env = l.foldlM (fun env p =>
          exec body { env with loc := setKey b (.int p.2) (setKey a (.int p.1) env.loc) }) env := by
  cases l with
  | nil => simp [encZ] at h; simp [exec, h, bind, Except.bind, pure, Except.pure]
  | cons p l => simp [encZ] at h; simp [exec, h, bind, Except.bind]

theorem exec_for_eq (i : String) (lo hi : E) (body : S) (env : Env α) (a : Nat) (hb : Int)
    (hlo : evalE env lo = .ok (.int a)) (hhi : evalE env hi = .ok (.int hb)) :
    exec (.for_ i lo hi body) env = (List.range' a (hb - a).toNat).foldlM
      (fun env k => exec body { env with loc := setKey i (.int (k : Nat)) env.loc }) env := by
  have hneg : ¬ ((a : Int) < 0) := by omega
  simp [exec, hlo, hhi, bind, Except.bind, hneg]

theorem call_eq (m : Method) (self : Store α) (args : List (V α)) (e : E) (env' : Env α) (v : V α)
    (hlen : args.length = m.params.length) (hret : m.ret = some e)
    (h : exec m.body { self := self, loc := m.params.zip args } = .ok env') (hv : evalE env' e = .ok v) :
    call m self args = .ok (env'.self, v) := by
  simp [call, hlen, h, hret, hv, bind, Except.bind, pure, Except.pure]

/-- Symbolic execution of straight-line code; the store is described through `getKey`. -/
macro "ltla_simp" "[" ls:Lean.Parser.Tactic.simpLemma,* "]" : tactic =>
  `(tactic| simp only [x_ok_bind, x_exec_skip, x_exec_seq, x_exec_setLoc, x_exec_ite, x_exec_appendLoc, x_exec_unpack,
      x_evalE_loc, x_evalE_int, x_evalE_emptyList, x_evalE_un, x_evalE_bin, x_evalE_idx, x_evalE_tuple, x_evalE_ifExp,
      eb_lt_int, eb_le_int, eb_gt_int, eb_eq_int, eb_add_int, eb_sub_int, appendV_encZ,
      getKey_setKey_same, getKey_setKey_ne, getKey_cons_same, getKey_cons_ne, ne_eq, String.reduceEq, not_false_eq_true, not_true_eq_false,
      $ls,*])

omit [Val α] in
/-- A loop over an interval list with a ghost state. -/
theorem foldlM_castI_inv {τ : Type} (f : Env α → Int × Int → Except PyErr (Env α)) (R : τ → Env α → Prop)
    (upd : τ → Nat × Nat → τ) (I : Ivs)
    (hstep : ∀ t env p, p ∈ I → R t env → ∃ env', f env ((p.1 : Int), (p.2 : Int)) = .ok env' ∧ R (upd t p) env') :
    ∀ t env, R t env → ∃ env', (castI I).foldlM f env = .ok env' ∧ R (I.foldl upd t) env' := by
  induction I with
  | nil => intro t env h; exact ⟨env, rfl, h⟩
  | cons p I ih =>
    intro t env h
    obtain ⟨env1, h1, hR1⟩ := hstep t env p (by simp) h
    obtain ⟨env2, h2, hR2⟩ := ih (fun t env q hq => hstep t env q (by simp [hq])) _ env1 hR1
    refine ⟨env2, ?_, hR2⟩
    simp only [castI, List.map_cons, List.foldlM_cons, h1, x_ok_bind]
    exact h2

theorem foldl_append_castI (G : Ivs → Ivs) (hG : ∀ p I, G (p :: I) = G [p] ++ G I) (h0 : G [] = []) :
    ∀ (I : Ivs) (acc : IvsZ), I.foldl (fun acc p => acc ++ castI (G [p])) acc = acc ++ castI (G I) := by
  intro I
  induction I with
  | nil => intro acc; simp [h0, castI]
  | cons p I ih => intro acc; rw [List.foldl_cons, ih, hG p I]; simp [castI]

/-- `for i in range(a, a + n)` with a ghost state. -/
theorem foldlM_range_sim {σ τ : Type} (f : σ → Nat → Except PyErr σ) (g : τ → Nat → τ) (R : Nat → σ → τ → Prop) :
    ∀ (n a : Nat) (s : σ) (t : τ), R a s t →
      (∀ k s t, a ≤ k → k < a + n → R k s t → ∃ s', f s k = .ok s' ∧ R (k + 1) s' (g t k)) →
      ∃ s', (List.range' a n).foldlM f s = .ok s' ∧ R (a + n) s' ((List.range' a n).foldl g t) := by
  intro n
  induction n with
  | zero => intro a s t h0 _; exact ⟨s, rfl, h0⟩
  | succ n ih =>
    intro a s t h0 hstep
    obtain ⟨s1, hs1, h1⟩ := hstep a s t (Nat.le_refl _) (by omega) h0
    obtain ⟨s', hs', hR⟩ := ih (a + 1) s1 (g t a) h1 (fun k s t hk1 hk2 hR => hstep k s t (by omega) (by omega) hR)
    refine ⟨s', ?_, ?_⟩
    · simp only [List.range'_succ, List.foldlM_cons, hs1, x_ok_bind]; exact hs'
    · have : a + (n + 1) = a + 1 + n := by omega
      rw [this, List.range'_succ, List.foldl_cons]; exact hR

theorem foldl_prod {β γ ι : Type} (f : β → ι → β) (g : γ → ι → γ) (l : List ι) :
    ∀ (x : β) (y : γ), l.foldl (fun t k => (f t.1 k, g t.2 k)) (x, y) = (l.foldl f x, l.foldl g y) := by
  induction l with
  | nil => intro x y; rfl
  | cons a l ih => intro x y; simp only [List.foldl_cons]; exact ih _ _

/-! ### `explain_next` / `explain_prev` -/

def nextBody : S := (.ite (.ifExp (.bin .lt (.loc "begin") (.bin .sub (.len (.loc "op_signal")) (.int 1))) (.bin .lt (.loc "end") (.bin .sub (.len (.loc "op_signal")) (.int 1))) (.bin .eq (.int 0) (.int 1))) (.appendLoc "op_intervals" (.tuple (.bin .add (.loc "begin") (.int 1)) (.bin .add (.loc "end") (.int 1)))) (.ite (.ifExp (.bin .lt (.loc "begin") (.bin .sub (.len (.loc "op_signal")) (.int 1))) (.bin .le (.bin .sub (.len (.loc "op_signal")) (.int 1)) (.loc "end")) (.bin .eq (.int 0) (.int 1))) (.appendLoc "op_intervals" (.tuple (.bin .add (.loc "begin") (.int 1)) (.loc "end"))) .skip))

theorem next_eq : Gen.Expl.ltl_explain_next = { params := ["op_signal", "intervals"], body := (.seq (.setLoc "op_intervals" .emptyList) (.forPair "begin" "end" (.loc "intervals") nextBody)), ret := (some (.loc "op_intervals")) } := rfl

theorem explNext_one (n b e : Nat) : explNext n [(b, e)] =
    if b < n - 1 ∧ e < n - 1 then [(b + 1, e + 1)] else if b < n - 1 ∧ n - 1 ≤ e then [(b + 1, e)] else [] := by
  unfold explNext
  by_cases h1 : b < n - 1 ∧ e < n - 1
  · simp only [List.filterMap_cons, List.filterMap_nil, if_pos h1]
  · by_cases h2 : b < n - 1 ∧ n - 1 ≤ e
    · simp only [List.filterMap_cons, List.filterMap_nil, if_neg h1, if_pos h2]
    · simp only [List.filterMap_cons, List.filterMap_nil, if_neg h1, if_neg h2]

theorem explNext_cons (n : Nat) (p : Nat × Nat) (I : Ivs) : explNext n (p :: I) = explNext n [p] ++ explNext n I := by
  unfold explNext
  rw [List.filterMap_cons, List.filterMap_cons, List.filterMap_nil]
  split <;> simp

theorem next_step (s : List α) (env : Env α) (b e : Nat) (acc : IvsZ)
    (hs : getKey "op_signal" env.loc = .ok (.list s))
    (hacc : getKey "op_intervals" env.loc = .ok (encZ acc)) :
    ∃ env', exec nextBody { env with loc := setKey "end" (.int e) (setKey "begin" (.int b) env.loc) } = .ok env' ∧
      env'.self = env.self ∧ getKey "op_signal" env'.loc = .ok (.list s) ∧
      getKey "op_intervals" env'.loc = .ok (encZ (acc ++ castI (explNext s.length [(b, e)]))) := by
  have hlen : ∀ env' : Env α, getKey "op_signal" env'.loc = .ok (.list s) →
      evalE env' (.len (.loc "op_signal")) = .ok (.int s.length) := fun env' h =>
    x_evalE_len_list env' _ s (by rw [x_evalE_loc, h])
  unfold nextBody
  ltla_simp []
  rw [hlen _ (by ltla_simp [hs])]
  ltla_simp [hacc]
  by_cases h1 : (b : Int) < (s.length : Int) - 1
  · by_cases h2 : (e : Int) < (s.length : Int) - 1
    · have h1' : b < s.length - 1 := by omega
      have h2' : e < s.length - 1 := by omega
      simp only [h1, h2, decide_true, decide_false, x_ok_bind]
      refine ⟨_, rfl, rfl, ?_, ?_⟩
      · ltla_simp [hs]
      · ltla_simp []
        rw [explNext_one, if_pos ⟨h1', h2'⟩]; simp [castI]
    · have h1' : b < s.length - 1 := by omega
      have h2' : ¬ e < s.length - 1 := by omega
      have h3 : (s.length : Int) - 1 ≤ e := by omega
      have h3' : s.length - 1 ≤ e := by omega
      simp only [h1, h2, h3, decide_true, decide_false, x_ok_bind]
      refine ⟨_, rfl, rfl, ?_, ?_⟩
      · ltla_simp [hs]
      · ltla_simp []
        rw [explNext_one, if_neg (fun h => h2' h.2), if_pos ⟨h1', h3'⟩]; simp [castI]
  · have h1' : ¬ b < s.length - 1 := by omega
    simp only [h1, decide_true, decide_false, x_ok_bind]
    refine ⟨_, rfl, rfl, ?_, ?_⟩
    · ltla_simp [hs]
    · ltla_simp [hacc]
      rw [explNext_one, if_neg (fun h => h1' h.1), if_neg (fun h => h1' h.1)]; simp [castI]

end LtlA
open LtlA

theorem fn_next (s : List α) (I : Ivs) :
    call (α := α) Gen.Expl.ltl_explain_next [] [.list s, encI I] = .ok ([], encI (explNext s.length I)) := by
  rw [next_eq]
  obtain ⟨env', h1, h2, _, h3⟩ := foldlM_castI_inv (α := α)
    (fun env p => exec nextBody { env with loc := setKey "end" (.int p.2) (setKey "begin" (.int p.1) env.loc) })
    (fun acc env => env.self = [] ∧ getKey "op_signal" env.loc = .ok (.list s) ∧
      getKey "op_intervals" env.loc = .ok (encZ acc))
    (fun acc p => acc ++ castI (explNext s.length [p])) I
    (fun acc env p _ ⟨h1, h2, h3⟩ => by
      obtain ⟨env', e1, e2, e3, e4⟩ := next_step s env p.1 p.2 acc h2 h3
      exact ⟨env', e1, by rw [e2, h1], e3, e4⟩)
    [] { self := [], loc := [("op_signal", .list s), ("intervals", encI I), ("op_intervals", .dlist [])] }
    ⟨rfl, by ltla_simp [], by ltla_simp []; rfl⟩
  rw [foldl_append_castI _ (explNext_cons s.length) rfl] at h3
  refine (call_eq _ _ _ _ env' _ rfl rfl ?_ (by rw [x_evalE_loc]; exact h3)).trans (by rw [h2]; rfl)
  simp only [x_exec_seq, x_exec_setLoc, x_evalE_emptyList, x_ok_bind]
  rw [exec_forPair_encZ _ _ _ _ _ (castI I) (by ltla_simp []; rfl)]
  exact h1

namespace LtlA

def prevBody : S := (.ite (.ifExp (.bin .gt (.loc "begin") (.int 0)) (.bin .gt (.loc "end") (.int 0)) (.bin .eq (.int 0) (.int 1))) (.appendLoc "op_intervals" (.tuple (.bin .sub (.loc "begin") (.int 1)) (.bin .sub (.loc "end") (.int 1)))) (.ite (.ifExp (.bin .le (.loc "begin") (.int 0)) (.bin .gt (.loc "end") (.int 0)) (.bin .eq (.int 0) (.int 1))) (.appendLoc "op_intervals" (.tuple (.loc "begin") (.bin .sub (.loc "end") (.int 1)))) .skip))

theorem prev_eq : Gen.Expl.ltl_explain_prev = { params := ["op_signal", "intervals"], body := (.seq (.setLoc "op_intervals" .emptyList) (.forPair "begin" "end" (.loc "intervals") prevBody)), ret := (some (.loc "op_intervals")) } := rfl

theorem explPrev_one (b e : Nat) : explPrev [(b, e)] =
    if b > 0 ∧ e > 0 then [(b - 1, e - 1)] else if b ≤ 0 ∧ e > 0 then [(b, e - 1)] else [] := by
  unfold explPrev
  by_cases h1 : b > 0 ∧ e > 0
  · simp only [List.filterMap_cons, List.filterMap_nil, if_pos h1]
  · by_cases h2 : b ≤ 0 ∧ e > 0
    · simp only [List.filterMap_cons, List.filterMap_nil, if_neg h1, if_pos h2]
    · simp only [List.filterMap_cons, List.filterMap_nil, if_neg h1, if_neg h2]

theorem explPrev_cons (p : Nat × Nat) (I : Ivs) : explPrev (p :: I) = explPrev [p] ++ explPrev I := by
  unfold explPrev
  rw [List.filterMap_cons, List.filterMap_cons, List.filterMap_nil]
  split <;> simp

theorem prev_step (env : Env α) (b e : Nat) (acc : IvsZ)
    (hacc : getKey "op_intervals" env.loc = .ok (encZ acc)) :
    ∃ env', exec prevBody { env with loc := setKey "end" (.int e) (setKey "begin" (.int b) env.loc) } = .ok env' ∧
      env'.self = env.self ∧
      getKey "op_intervals" env'.loc = .ok (encZ (acc ++ castI (explPrev [(b, e)]))) := by
  unfold prevBody
  ltla_simp [hacc]
  by_cases h1 : (0 : Int) < b
  · by_cases h2 : (0 : Int) < e
    · have h1' : b > 0 := by omega
      have h2' : e > 0 := by omega
      simp only [h1, h2, decide_true, decide_false, x_ok_bind]
      refine ⟨_, rfl, rfl, ?_⟩
      ltla_simp []
      rw [explPrev_one, if_pos ⟨h1', h2'⟩]
      have e1 : ((b - 1 : Nat) : Int) = (b : Int) - 1 := by omega
      have e2 : ((e - 1 : Nat) : Int) = (e : Int) - 1 := by omega
      simp [castI, e1, e2]
    · have h2' : ¬ e > 0 := by omega
      have h3 : ¬ (b : Int) ≤ 0 := by omega
      simp only [h1, h2, h3, decide_true, decide_false, x_ok_bind]
      refine ⟨_, rfl, rfl, ?_⟩
      ltla_simp [hacc]
      rw [explPrev_one, if_neg (fun h => h2' h.2), if_neg (fun h => h2' h.2)]; simp [castI]
  · have h1' : ¬ b > 0 := by omega
    have h3 : (b : Int) ≤ 0 := by omega
    have h3' : b ≤ 0 := by omega
    by_cases h2 : (0 : Int) < e
    · have h2' : e > 0 := by omega
      simp only [h1, h2, h3, decide_true, decide_false, x_ok_bind]
      refine ⟨_, rfl, rfl, ?_⟩
      ltla_simp []
      rw [explPrev_one, if_neg (fun h => h1' h.1), if_pos ⟨h3', h2'⟩]
      have e2 : ((e - 1 : Nat) : Int) = (e : Int) - 1 := by omega
      simp [castI, e2]
    · have h2' : ¬ e > 0 := by omega
      simp only [h1, h2, h3, decide_true, decide_false, x_ok_bind]
      refine ⟨_, rfl, rfl, ?_⟩
      ltla_simp [hacc]
      rw [explPrev_one, if_neg (fun h => h2' h.2), if_neg (fun h => h2' h.2)]; simp [castI]

end LtlA

theorem fn_prev (s : List α) (I : Ivs) :
    call (α := α) Gen.Expl.ltl_explain_prev [] [.list s, encI I] = .ok ([], encI (explPrev I)) := by
  rw [prev_eq]
  obtain ⟨env', h1, h2, h3⟩ := foldlM_castI_inv (α := α)
    (fun env p => exec prevBody { env with loc := setKey "end" (.int p.2) (setKey "begin" (.int p.1) env.loc) })
    (fun acc env => env.self = [] ∧ getKey "op_intervals" env.loc = .ok (encZ acc))
    (fun acc p => acc ++ castI (explPrev [p])) I
    (fun acc env p _ ⟨h1, h3⟩ => by
      obtain ⟨env', e1, e2, e4⟩ := prev_step env p.1 p.2 acc h3
      exact ⟨env', e1, by rw [e2, h1], e4⟩)
    [] { self := [], loc := [("op_signal", .list s), ("intervals", encI I), ("op_intervals", .dlist [])] }
    ⟨rfl, by ltla_simp []; rfl⟩
  rw [foldl_append_castI _ explPrev_cons rfl] at h3
  refine (call_eq _ _ _ _ env' _ rfl rfl ?_ (by rw [x_evalE_loc]; exact h3)).trans (by rw [h2]; rfl)
  simp only [x_exec_seq, x_exec_setLoc, x_evalE_emptyList, x_ok_bind]
  rw [exec_forPair_encZ _ _ _ _ _ (castI I) (by ltla_simp []; rfl)]
  exact h1

namespace LtlA

/-! ### the functions that look at the first / last interval only -/

end LtlA

/-- `explain_sat_always` / `explain_unsat_eventually`: from the begin of the first interval to the end of the signal. -/
theorem fn_sat_always (s : List α) (hs : 0 < s.length) (I : Ivs) :
    call (α := α) Gen.Expl.ltl_explain_sat_always [] [.list s, encI I]
      = .ok ([], encI (match firstBegin I with | some b => [(b, s.length - 1)] | none => [])) := by
  have e1 : ((s.length - 1 : Nat) : Int) = (s.length : Int) - 1 := by omega
  cases I with
  | nil =>
    py_simp [Gen.Expl.ltl_explain_sat_always, encI, encZ, castI, firstBegin]
  | cons p I =>
    py_simp [Gen.Expl.ltl_explain_sat_always, encI, encZ, castI, firstBegin, evalIdx, asList, appendV, e1]

theorem fn_unsat_eventually (s : List α) (hs : 0 < s.length) (I : Ivs) :
    call (α := α) Gen.Expl.ltl_explain_unsat_eventually [] [.list s, encI I]
      = .ok ([], encI (match firstBegin I with | some b => [(b, s.length - 1)] | none => [])) := by
  have e1 : ((s.length - 1 : Nat) : Int) = (s.length : Int) - 1 := by omega
  cases I with
  | nil =>
    py_simp [Gen.Expl.ltl_explain_unsat_eventually, encI, encZ, castI, firstBegin]
  | cons p I =>
    py_simp [Gen.Expl.ltl_explain_unsat_eventually, encI, encZ, castI, firstBegin, evalIdx, asList, appendV, e1]

namespace LtlA

omit [Val α] in
theorem evalIdx_last (I : Ivs) (q : Nat × Nat) :
    evalIdx (α := α) (.ivs (castI (I ++ [q]))) (.int (((castI (I ++ [q])).length : Int) - 1))
      = .ok (.pair (.int q.1) (.int q.2)) := by
  have h1 : (((castI (I ++ [q])).length : Int) - 1) = (I.length : Int) := by simp [castI]
  rw [h1]
  have h2 : (castI (I ++ [q]))[I.length]? = some ((q.1 : Int), (q.2 : Int)) := by
    simp [castI]
  simp [evalIdx, h2]

theorem hist_aux (m : Method) (s : List α) (I : Ivs)
    (hm : m = { params := ["op_signal", "intervals"], body := (.seq (.setLoc "op_intervals" .emptyList) (.ite (.un .truthy (.loc "intervals")) (.seq (.unpack "begin" "end" (.idx (.loc "intervals") (.bin .sub (.len (.loc "intervals")) (.int 1)))) (.appendLoc "op_intervals" (.tuple (.int 0) (.loc "end")))) .skip)), ret := (some (.loc "op_intervals")) }) :
    call (α := α) m [] [.list s, encI I]
      = .ok ([], encI (match lastEnd I with | some e => [(0, e)] | none => [])) := by
  subst hm
  rcases List.eq_nil_or_concat I with rfl | ⟨I', q, rfl⟩
  · py_simp [encI, encZ, castI, lastEnd]
  · rw [List.concat_eq_append]
    have hne : castI (I' ++ [q]) ≠ [] := by simp [castI]
    have henc : encI (α := α) (I' ++ [q]) = .ivs (castI (I' ++ [q])) := by
      simp [encI, encZ, hne]
    have hlast : lastEnd (I' ++ [q]) = some q.2 := by simp [lastEnd]
    rw [hlast, henc]
    refine call_eq _ _ _ _ { self := [], loc := [("op_signal", .list s), ("intervals", .ivs (castI (I' ++ [q]))),
      ("op_intervals", .ivs [(0, (q.2 : Int))]), ("begin", .int q.1), ("end", .int q.2)] } _ rfl rfl ?_ ?_
    · simp only [List.zip_cons_cons, List.zip_nil_right]
      ltla_simp []
      rw [x_evalE_len_ivs _ _ (castI (I' ++ [q])) (by ltla_simp [])]
      ltla_simp [evalIdx_last]
      have hemp : (castI (I' ++ [q])).isEmpty = false := by simp [castI]
      simp [evalUn, hne, setKey, appendV]
      simp [hemp, x_ok_bind]
    · ltla_simp []
      simp [encI, encZ, castI]

end LtlA

/-- `explain_sat_historically` / `explain_unsat_once`: from 0 to the end of the last interval. -/
theorem fn_sat_historically (s : List α) (I : Ivs) :
    call (α := α) Gen.Expl.ltl_explain_sat_historically [] [.list s, encI I]
      = .ok ([], encI (match lastEnd I with | some e => [(0, e)] | none => [])) :=
  hist_aux _ s I rfl

theorem fn_unsat_once (s : List α) (I : Ivs) :
    call (α := α) Gen.Expl.ltl_explain_unsat_once [] [.list s, encI I]
      = .ok ([], encI (match lastEnd I with | some e => [(0, e)] | none => [])) :=
  hist_aux _ s I rfl

namespace LtlA

/-! ### the two-operand scans

  `explain_sat_or`, `explain_unsat_and`, `explain_sat_implies` are one program up to the polarity of the two
  state machines (`scanM pol1 pol2`); a machine (`machS`: state flag, start index, output list) is related to
  `runsLoop` through the fold of `mstep`; the two machines use disjoint variables (`Frame`). -/

def opEnter : Bool → BinOp
  | true => .ge
  | false => .lt
def opLeave : Bool → BinOp
  | true => .lt
  | false => .ge
/-- `isSat` (polarity `true`) or `isUnsat`. -/
def polP (pol : Bool) (x : α) : Bool :=
  match pol with
  | true => isSat x
  | false => isUnsat x

theorem evalBin_enter (pol : Bool) (x : α) :
    evalBin (opEnter pol) (.num x) (.int 0) = .ok (.bool (polP pol x)) := by
  cases pol <;> simp [opEnter, polP, evalBin, coerce, isSat, isUnsat]

theorem evalBin_leave (pol : Bool) (x : α) :
    evalBin (opLeave pol) (.num x) (.int 0) = .ok (.bool (!polP pol x)) := by
  cases pol <;> simp [opLeave, polP, evalBin, coerce, isSat, isUnsat]

def machS (pol : Bool) (st start out sig : String) : S :=
  .ite (.ifExp (.un .not (.un .truthy (.loc st))) (.bin (opEnter pol) (.idx (.loc sig) (.loc "i")) (.int 0)) (.bin .eq (.int 0) (.int 1)))
    (.seq (.setLoc st (.bin .eq (.int 0) (.int 0))) (.setLoc start (.loc "i")))
    (.ite (.ifExp (.un .truthy (.loc st)) (.bin (opLeave pol) (.idx (.loc sig) (.loc "i")) (.int 0)) (.bin .eq (.int 0) (.int 1)))
      (.seq (.setLoc st (.bin .eq (.int 0) (.int 1))) (.appendLoc out (.tuple (.loc start) (.bin .sub (.loc "i") (.int 1)))))
      .skip)

def finS (st start out : String) : S :=
  .ite (.un .truthy (.loc st)) (.appendLoc out (.tuple (.loc start) (.loc "i"))) .skip

def scanBody (pol1 pol2 : Bool) : S :=
  (.seq (.setLoc "op1_state" (.bin .eq (.int 0) (.int 1))) (.seq (.setLoc "op2_state" (.bin .eq (.int 0) (.int 1)))
    (.seq (.for_ "i" (.loc "begin") (.bin .add (.loc "end") (.int 1))
        (.seq (machS pol1 "op1_state" "op1_start" "op1_intervals" "op1_signal")
              (machS pol2 "op2_state" "op2_start" "op2_intervals" "op2_signal")))
      (.seq (finS "op1_state" "op1_start" "op1_intervals") (finS "op2_state" "op2_start" "op2_intervals")))))

def scanM (pol1 pol2 : Bool) : Method :=
  { params := ["op1_signal", "op2_signal", "intervals"],
    body := (.seq (.setLoc "op1_intervals" .emptyList) (.seq (.setLoc "op2_intervals" .emptyList)
      (.forPair "begin" "end" (.loc "intervals") (scanBody pol1 pol2)))),
    ret := (some (.tuple (.loc "op1_intervals") (.loc "op2_intervals"))) }

theorem sat_or_eq : Gen.Expl.ltl_explain_sat_or = scanM true true := rfl
theorem unsat_and_eq : Gen.Expl.ltl_explain_unsat_and = scanM false false := rfl
theorem sat_implies_eq : Gen.Expl.ltl_explain_sat_implies = scanM false true := rfl

/-- The state of one machine: the start of the open run, the intervals written so far. -/
abbrev MSt := Option Nat × IvsZ

def mstep (p : Nat → Bool) (m : MSt) (i : Nat) : MSt :=
  match m.1, p i with
  | none, true => (some i, m.2)
  | some s, false => (none, m.2 ++ [((s : Int), (i : Int) - 1)])
  | c, _ => (c, m.2)

def mfin (e : Int) (m : MSt) : IvsZ :=
  match m.1 with
  | some s => m.2 ++ [((s : Int), e)]
  | none => m.2

structure MachInv (st start out : String) (loc : Store α) (m : MSt) : Prop where
  hst : getKey st loc = .ok (.bool m.1.isSome)
  hstart : ∀ c, m.1 = some c → getKey start loc = .ok (.int c)
  hout : getKey out loc = .ok (encZ m.2)

def Frame (st start out : String) (loc loc' : Store α) : Prop :=
  ∀ x, x ≠ st → x ≠ start → x ≠ out → getKey x loc' = getKey x loc

structure NamesOK (st start out sig : String) : Prop where
  h1 : st ≠ start
  h2 : st ≠ out
  h3 : start ≠ out
  i1 : "i" ≠ st
  i2 : "i" ≠ start
  i3 : "i" ≠ out
  s1 : sig ≠ st
  s2 : sig ≠ start
  s3 : sig ≠ out

omit [Val α] in
theorem MachInv.congr {st start out : String} {loc loc' : Store α} {m : MSt} (hm : MachInv st start out loc m)
    (h1 : getKey st loc' = getKey st loc) (h2 : getKey start loc' = getKey start loc)
    (h3 : getKey out loc' = getKey out loc) : MachInv st start out loc' m :=
  ⟨h1 ▸ hm.hst, fun c hc => h2 ▸ hm.hstart c hc, h3 ▸ hm.hout⟩

theorem evalIdx_list (s : List α) (k : Nat) (hk : k < s.length) :
    evalIdx (.list s) (.int k) = .ok (.num (atL s k)) := by
  have h : ¬ ((k : Int) < 0) := by omega
  simp [evalIdx, h, idx, atL, List.getElem?_eq_getElem hk, Except.map]

/-- One iteration of one machine. -/
theorem mach_step (pol : Bool) (st start out sig : String) (hn : NamesOK st start out sig)
    (env : Env α) (s : List α) (k : Nat) (hk : k < s.length)
    (hi : getKey "i" env.loc = .ok (.int k)) (hsig : getKey sig env.loc = .ok (.list s))
    (m : MSt) (hm : MachInv st start out env.loc m) :
    ∃ env', exec (machS pol st start out sig) env = .ok env' ∧ env'.self = env.self ∧
      MachInv st start out env'.loc (mstep (fun i => polP pol (atL s i)) m k) ∧
      Frame st start out env.loc env'.loc := by
  obtain ⟨cur, acc⟩ := m
  obtain ⟨hst, hstart, hout⟩ := hm
  obtain ⟨n1, n2, n3, i1, i2, i3, s1, s2, s3⟩ := hn
  unfold machS
  cases cur with
  | none =>
    simp only [Option.isSome_none] at hst
    cases hp : polP pol (atL s k) with
    | true =>
      ltla_simp [hst, hi, hsig, evalUn_truthy_bool, evalUn_not_bool, evalIdx_list s k hk, evalBin_enter, hp, Bool.not_false,
        i1, i2, i3]
      refine ⟨_, rfl, rfl, ⟨?_, ?_, ?_⟩, ?_⟩
      · simp only [mstep, hp]
        ltla_simp [n1, n2, n3, Option.isSome_some, decide_true]
      · intro c hc
        simp only [mstep, hp, Option.some.injEq] at hc
        subst hc
        ltla_simp []
      · simp only [mstep, hp]
        ltla_simp [n1.symm, n2.symm, n3.symm, hout]
      · intro x hx1 hx2 hx3
        ltla_simp [hx1, hx2, hx3]
    | false =>
      ltla_simp [hst, hi, hsig, evalUn_truthy_bool, evalUn_not_bool, evalIdx_list s k hk, evalBin_enter, hp, Bool.not_false,
        i1, i2, i3]
      refine ⟨_, rfl, rfl, ⟨?_, ?_, ?_⟩, ?_⟩
      · simp only [mstep, hp]; exact hst
      · intro c hc
        simp [mstep, hp] at hc
      · simp only [mstep, hp]; exact hout
      · intro x _ _ _; rfl
  | some c =>
    simp only [Option.isSome_some] at hst
    have hstart' := hstart c rfl
    cases hp : polP pol (atL s k) with
    | true =>
      ltla_simp [hst, hi, hsig, evalUn_truthy_bool, evalUn_not_bool, evalIdx_list s k hk, evalBin_leave, hp, Bool.not_true,
        Bool.not_false, i1, i2, i3]
      refine ⟨_, rfl, rfl, ⟨?_, ?_, ?_⟩, ?_⟩
      · simp only [mstep, hp]; exact hst
      · intro c' hc
        simp only [mstep, hp, Option.some.injEq] at hc
        subst hc
        exact hstart'
      · simp only [mstep, hp]; exact hout
      · intro x _ _ _; rfl
    | false =>
      ltla_simp [hst, hi, hsig, evalUn_truthy_bool, evalUn_not_bool, evalIdx_list s k hk, evalBin_leave, hp, Bool.not_true,
        Bool.not_false, i1, i2, i3, n1, n2, n3, n1.symm, n2.symm, n3.symm, hstart', hout]
      refine ⟨_, rfl, rfl, ⟨?_, ?_, ?_⟩, ?_⟩
      · simp only [mstep, hp]
        ltla_simp [n1, n2, n3, n2.symm, Option.isSome_none, decide_false]
        rfl
      · intro c' hc
        simp [mstep, hp] at hc
      · simp only [mstep, hp]
        ltla_simp []
      · intro x hx1 hx2 hx3
        ltla_simp [hx1, hx2, hx3]

/-- `if state: out.append([start, i])` after the loop. -/
theorem fin_step (st start out : String)
    (env : Env α) (e : Int) (m : MSt) (hm : MachInv st start out env.loc m)
    (hi : ∀ c, m.1 = some c → getKey "i" env.loc = .ok (.int e)) :
    ∃ env', exec (finS st start out) env = .ok env' ∧ env'.self = env.self ∧
      getKey out env'.loc = .ok (encZ (mfin e m)) ∧
      (∀ x, x ≠ out → getKey x env'.loc = getKey x env.loc) := by
  obtain ⟨cur, acc⟩ := m
  obtain ⟨hst, hstart, hout⟩ := hm
  unfold finS
  cases cur with
  | none =>
    simp only [Option.isSome_none] at hst
    ltla_simp [hst, evalUn_truthy_bool]
    exact ⟨_, rfl, rfl, hout, fun _ _ => rfl⟩
  | some c =>
    simp only [Option.isSome_some] at hst
    ltla_simp [hst, evalUn_truthy_bool, hstart c rfl, hi c rfl, hout]
    refine ⟨_, rfl, rfl, ?_, ?_⟩
    · ltla_simp []; rfl
    · intro x hx
      ltla_simp [hx]

/-- The machine computes `runsLoop`. -/
theorem runsLoop_fold (p : Nat → Bool) (e : Nat) :
    ∀ (k i : Nat) (cur : Option Nat) (acc : IvsZ), (∀ c, cur = some c → c < i) →
      mfin e ((List.range' i k).foldl (mstep p) (cur, acc)) = acc ++ castI (runsLoop p e k i cur) := by
  intro k
  induction k with
  | zero =>
    intro i cur acc _
    cases cur <;> simp [mfin, runsLoop, castI]
  | succ k ih =>
    intro i cur acc hc
    rw [List.range'_succ, List.foldl_cons]
    cases cur with
    | none =>
      cases hp : p i with
      | true =>
        have : mstep p (none, acc) i = (some i, acc) := by simp [mstep, hp]
        rw [this, ih (i + 1) (some i) acc (by intro c h; cases h; omega)]
        simp [runsLoop, hp]
      | false =>
        have : mstep p (none, acc) i = (none, acc) := by simp [mstep, hp]
        rw [this, ih (i + 1) none acc (by intro c h; cases h)]
        simp [runsLoop, hp]
    | some c =>
      have hci := hc c rfl
      cases hp : p i with
      | true =>
        have : mstep p (some c, acc) i = (some c, acc) := by simp [mstep, hp]
        rw [this, ih (i + 1) (some c) acc (by intro c' h; cases h; omega)]
        simp [runsLoop, hp]
      | false =>
        have : mstep p (some c, acc) i = (none, acc ++ [((c : Int), (i : Int) - 1)]) := by simp [mstep, hp]
        rw [this, ih (i + 1) none _ (by intro c' h; cases h)]
        have e1 : ((i - 1 : Nat) : Int) = (i : Int) - 1 := by omega
        simp [runsLoop, hp, castI, e1]

theorem names1 : NamesOK "op1_state" "op1_start" "op1_intervals" "op1_signal" := by
  constructor <;> decide
theorem names2 : NamesOK "op2_state" "op2_start" "op2_intervals" "op2_signal" := by
  constructor <;> decide

/-- What the scan keeps invariant at every statement. -/
structure ScanInv (s1 s2 : List α) (env : Env α) : Prop where
  hself : env.self = []
  hs1 : getKey "op1_signal" env.loc = .ok (.list s1)
  hs2 : getKey "op2_signal" env.loc = .ok (.list s2)

/-- One iteration of the inner loop: the two machines do not interfere. -/
theorem inner_body (pol1 pol2 : Bool) (s1 s2 : List α) (env : Env α) (k : Nat) (hk1 : k < s1.length) (hk2 : k < s2.length)
    (hinv : ScanInv s1 s2 env) (hi : getKey "i" env.loc = .ok (.int k)) (m1 m2 : MSt)
    (hm1 : MachInv "op1_state" "op1_start" "op1_intervals" env.loc m1)
    (hm2 : MachInv "op2_state" "op2_start" "op2_intervals" env.loc m2) :
    ∃ env', exec (.seq (machS pol1 "op1_state" "op1_start" "op1_intervals" "op1_signal")
                    (machS pol2 "op2_state" "op2_start" "op2_intervals" "op2_signal")) env = .ok env' ∧
      ScanInv s1 s2 env' ∧ getKey "i" env'.loc = .ok (.int k) ∧
      MachInv "op1_state" "op1_start" "op1_intervals" env'.loc (mstep (fun i => polP pol1 (atL s1 i)) m1 k) ∧
      MachInv "op2_state" "op2_start" "op2_intervals" env'.loc (mstep (fun i => polP pol2 (atL s2 i)) m2 k) := by
  obtain ⟨ea, hea, hsa, hma, hfa⟩ := mach_step pol1 _ _ _ _ names1 env s1 k hk1 hi hinv.hs1 m1 hm1
  have hia : getKey "i" ea.loc = .ok (.int k) := by rw [hfa "i" (by decide) (by decide) (by decide)]; exact hi
  have hs2a : getKey "op2_signal" ea.loc = .ok (.list s2) := by
    rw [hfa _ (by decide) (by decide) (by decide)]; exact hinv.hs2
  have hm2a := hm2.congr (loc' := ea.loc) (hfa _ (by decide) (by decide) (by decide))
    (hfa _ (by decide) (by decide) (by decide)) (hfa _ (by decide) (by decide) (by decide))
  obtain ⟨eb, heb, hsb, hmb, hfb⟩ := mach_step pol2 _ _ _ _ names2 ea s2 k hk2 hia hs2a m2 hm2a
  refine ⟨eb, by rw [x_exec_seq, hea, x_ok_bind, heb], ⟨by rw [hsb, hsa, hinv.hself], ?_, ?_⟩, ?_, ?_, hmb⟩
  · rw [hfb _ (by decide) (by decide) (by decide), hfa _ (by decide) (by decide) (by decide)]; exact hinv.hs1
  · rw [hfb _ (by decide) (by decide) (by decide)]; exact hs2a
  · rw [hfb _ (by decide) (by decide) (by decide)]; exact hia
  · exact hma.congr (hfb _ (by decide) (by decide) (by decide))
      (hfb _ (by decide) (by decide) (by decide)) (hfb _ (by decide) (by decide) (by decide))

/-- One interval `[b, e]` of the outer loop. -/
theorem scan_step (pol1 pol2 : Bool) (s1 s2 : List α) (env : Env α) (b e : Nat)
    (he1 : e < s1.length) (he2 : e < s2.length) (hinv : ScanInv s1 s2 env) (acc1 acc2 : IvsZ)
    (ho1 : getKey "op1_intervals" env.loc = .ok (encZ acc1))
    (ho2 : getKey "op2_intervals" env.loc = .ok (encZ acc2)) :
    ∃ env', exec (scanBody pol1 pol2)
        { env with loc := setKey "end" (.int e) (setKey "begin" (.int b) env.loc) } = .ok env' ∧
      ScanInv s1 s2 env' ∧
      getKey "op1_intervals" env'.loc = .ok (encZ (acc1 ++ castI (runs (fun i => polP pol1 (atL s1 i)) b e))) ∧
      getKey "op2_intervals" env'.loc = .ok (encZ (acc2 ++ castI (runs (fun i => polP pol2 (atL s2 i)) b e))) := by
  obtain ⟨hself, hs1, hs2⟩ := hinv
  unfold scanBody
  ltla_simp [decide_zero_eq_one]
  -- the store before the inner loop
  generalize hL : setKey "op2_state" (V.bool false) (setKey "op1_state" (V.bool false)
    (setKey "end" (V.int (e : Int)) (setKey "begin" (V.int (b : Int)) env.loc))) = L
  have gk : ∀ x, x ≠ "op2_state" → x ≠ "op1_state" → x ≠ "end" → x ≠ "begin" → getKey x L = getKey x env.loc := by
    intro x h1 h2 h3 h4
    rw [← hL]; ltla_simp [h1, h2, h3, h4]
  have hbegin : getKey "begin" L = .ok (.int b) := by rw [← hL]; ltla_simp []
  have hend : getKey "end" L = .ok (.int e) := by rw [← hL]; ltla_simp []
  have hst1 : getKey "op1_state" L = .ok (.bool false) := by rw [← hL]; ltla_simp []
  have hst2 : getKey "op2_state" L = .ok (.bool false) := by rw [← hL]; ltla_simp []
  have hn : ((e : Int) + 1 - (b : Int)).toNat = e + 1 - b := by omega
  rw [exec_for_eq _ _ _ _ _ b ((e : Int) + 1) (by ltla_simp [hbegin]) (by ltla_simp [hend]), hn]
  obtain ⟨env3, h3, ⟨hself3, hs13, hs23⟩, hm13, hm23, hi3⟩ := foldlM_range_sim
    (fun env k => exec (.seq (machS pol1 "op1_state" "op1_start" "op1_intervals" "op1_signal")
                    (machS pol2 "op2_state" "op2_start" "op2_intervals" "op2_signal"))
      { env with loc := setKey "i" (.int (k : Nat)) env.loc })
    (fun (t : MSt × MSt) k => (mstep (fun i => polP pol1 (atL s1 i)) t.1 k, mstep (fun i => polP pol2 (atL s2 i)) t.2 k))
    (fun k (env : Env α) t => ScanInv s1 s2 env ∧ MachInv "op1_state" "op1_start" "op1_intervals" env.loc t.1 ∧
      MachInv "op2_state" "op2_start" "op2_intervals" env.loc t.2 ∧
      (b < k → getKey "i" env.loc = .ok (.int ((k - 1 : Nat) : Int))))
    (e + 1 - b) b { self := env.self, loc := L } ((none, acc1), (none, acc2))
    ⟨⟨hself, by rw [gk _ (by decide) (by decide) (by decide) (by decide)]; exact hs1,
        by rw [gk _ (by decide) (by decide) (by decide) (by decide)]; exact hs2⟩,
      MachInv.mk hst1 (fun c hc => by simp at hc) (by rw [gk _ (by decide) (by decide) (by decide) (by decide)]; exact ho1),
      MachInv.mk hst2 (fun c hc => by simp at hc) (by rw [gk _ (by decide) (by decide) (by decide) (by decide)]; exact ho2),
      fun h => absurd h (Nat.lt_irrefl _)⟩
    (by
      intro k env' t hk1 hk2 ⟨⟨hself', hs1', hs2'⟩, hm1', hm2', _⟩
      have gi : ∀ x, x ≠ "i" → getKey x (setKey "i" (V.int (k : Int)) env'.loc) = getKey x env'.loc :=
        fun x hx => getKey_setKey_ne _ _ _ _ hx
      obtain ⟨env'', hex, hinv'', hi'', hm1'', hm2''⟩ := inner_body pol1 pol2 s1 s2
        { env' with loc := setKey "i" (.int (k : Nat)) env'.loc } k (by omega) (by omega)
        ⟨hself', by rw [gi _ (by decide)]; exact hs1', by rw [gi _ (by decide)]; exact hs2'⟩
        (getKey_setKey_same _ _ _) t.1 t.2
        (hm1'.congr (gi _ (by decide)) (gi _ (by decide)) (gi _ (by decide)))
        (hm2'.congr (gi _ (by decide)) (gi _ (by decide)) (gi _ (by decide)))
      exact ⟨env'', hex, hinv'', hm1'', hm2'', fun _ => by rw [hi'']; simp⟩)
  rw [foldl_prod] at hm13 hm23
  simp only at hm13 hm23
  rw [h3, x_ok_bind]
  -- when a run is still open after the loop, the loop was not empty and `i` is `end`
  have hiE : ∀ (m : MSt), (List.range' b (e + 1 - b)).foldl (mstep (fun i => polP pol1 (atL s1 i))) (none, acc1) = m ∨
      (List.range' b (e + 1 - b)).foldl (mstep (fun i => polP pol2 (atL s2 i))) (none, acc2) = m →
      ∀ c, m.1 = some c → getKey "i" env3.loc = .ok (.int (e : Int)) := by
    intro m hm c hc
    by_cases hlt : b < b + (e + 1 - b)
    · rw [hi3 hlt]
      have : ((b + (e + 1 - b) - 1 : Nat) : Int) = (e : Int) := by omega
      rw [this]
    · have h0 : e + 1 - b = 0 := by omega
      rw [h0] at hm
      rcases hm with hm | hm <;> (simp at hm; rw [← hm] at hc; cases hc)
  obtain ⟨env4, h4, hself4, hout4, hf4⟩ := fin_step "op1_state" "op1_start" "op1_intervals" env3 (e : Int) _ hm13
    (hiE _ (Or.inl rfl))
  have hm24 := hm23.congr (loc' := env4.loc) (hf4 _ (by decide)) (hf4 _ (by decide)) (hf4 _ (by decide))
  obtain ⟨env5, h5, hself5, hout5, hf5⟩ := fin_step "op2_state" "op2_start" "op2_intervals" env4 (e : Int) _ hm24
    (fun c hc => by rw [hf4 _ (by decide)]; exact hiE _ (Or.inr rfl) c hc)
  refine ⟨env5, by rw [x_exec_seq, h4, x_ok_bind, h5], ⟨by rw [hself5, hself4, hself3], ?_, ?_⟩, ?_, ?_⟩
  · rw [hf5 _ (by decide), hf4 _ (by decide)]; exact hs13
  · rw [hf5 _ (by decide), hf4 _ (by decide)]; exact hs23
  · rw [hf5 _ (by decide), hout4, runsLoop_fold (fun i => polP pol1 (atL s1 i)) e _ b none acc1 (fun c hc => by cases hc)]; rfl
  · rw [hout5, runsLoop_fold (fun i => polP pol2 (atL s2 i)) e _ b none acc2 (fun c hc => by cases hc)]; rfl

theorem runsAll_one (p : Nat → Bool) (q : Nat × Nat) : runsAll p [q] = runs p q.1 q.2 := by
  simp [runsAll]

theorem runsAll_cons (p : Nat → Bool) (q : Nat × Nat) (I : Ivs) : runsAll p (q :: I) = runsAll p [q] ++ runsAll p I := by
  simp [runsAll]

theorem scan_main (pol1 pol2 : Bool) (s1 s2 : List α) (I : Ivs) (h1 : InRange s1.length I) (h2 : InRange s2.length I) :
    call (α := α) (scanM pol1 pol2) [] [.list s1, .list s2, encI I]
      = .ok ([], .pair (encI (runsAll (fun i => polP pol1 (atL s1 i)) I)) (encI (runsAll (fun i => polP pol2 (atL s2 i)) I))) := by
  obtain ⟨env', hex, ⟨hself, _, _⟩, ho1, ho2⟩ := foldlM_castI_inv (α := α)
    (fun env p => exec (scanBody pol1 pol2) { env with loc := setKey "end" (.int p.2) (setKey "begin" (.int p.1) env.loc) })
    (fun (t : IvsZ × IvsZ) env => ScanInv s1 s2 env ∧ getKey "op1_intervals" env.loc = .ok (encZ t.1) ∧
      getKey "op2_intervals" env.loc = .ok (encZ t.2))
    (fun t p => (t.1 ++ castI (runsAll (fun i => polP pol1 (atL s1 i)) [p]),
                 t.2 ++ castI (runsAll (fun i => polP pol2 (atL s2 i)) [p]))) I
    (fun t env p hp ⟨hinv, ho1, ho2⟩ => by
      obtain ⟨env', e1, e2, e3, e4⟩ := scan_step pol1 pol2 s1 s2 env p.1 p.2 (h1 p hp) (h2 p hp) hinv t.1 t.2 ho1 ho2
      exact ⟨env', e1, e2, by simp only [runsAll_one]; exact e3, by simp only [runsAll_one]; exact e4⟩)
    ([], []) { self := [], loc := [("op1_signal", .list s1), ("op2_signal", .list s2), ("intervals", encI I),
      ("op1_intervals", .dlist []), ("op2_intervals", .dlist [])] }
    ⟨⟨rfl, by ltla_simp [], by ltla_simp []⟩, by ltla_simp []; rfl, by ltla_simp []; rfl⟩
  rw [foldl_prod (fun a p => a ++ castI (runsAll (fun i => polP pol1 (atL s1 i)) [p]))
    (fun a p => a ++ castI (runsAll (fun i => polP pol2 (atL s2 i)) [p]))] at ho1 ho2
  rw [foldl_append_castI (runsAll (fun i => polP pol1 (atL s1 i))) (runsAll_cons _) rfl] at ho1
  rw [foldl_append_castI (runsAll (fun i => polP pol2 (atL s2 i))) (runsAll_cons _) rfl] at ho2
  simp only [List.nil_append] at ho1 ho2
  refine (call_eq _ _ _ _ env' _ rfl rfl ?_ (by ltla_simp [ho1, ho2]; rfl)).trans (by rw [hself]; rfl)
  simp only [scanM, x_exec_seq, x_exec_setLoc, x_evalE_emptyList, x_ok_bind, List.zip_cons_cons, List.zip_nil_right]
  rw [exec_forPair_encZ _ _ _ _ _ (castI I) (by ltla_simp []; rfl)]
  exact hex

end LtlA

/-- The two-operand scans: maximal runs of the operand's satisfaction / violation inside every interval. -/
theorem fn_sat_or (s1 s2 : List α) (I : Ivs) (h1 : InRange s1.length I) (h2 : InRange s2.length I) :
    call (α := α) Gen.Expl.ltl_explain_sat_or [] [.list s1, .list s2, encI I]
      = .ok ([], .pair (encI (runsAll (fun i => isSat (atL s1 i)) I)) (encI (runsAll (fun i => isSat (atL s2 i)) I))) := by
  rw [sat_or_eq]; exact scan_main true true s1 s2 I h1 h2

theorem fn_unsat_and (s1 s2 : List α) (I : Ivs) (h1 : InRange s1.length I) (h2 : InRange s2.length I) :
    call (α := α) Gen.Expl.ltl_explain_unsat_and [] [.list s1, .list s2, encI I]
      = .ok ([], .pair (encI (runsAll (fun i => isUnsat (atL s1 i)) I)) (encI (runsAll (fun i => isUnsat (atL s2 i)) I))) := by
  rw [unsat_and_eq]; exact scan_main false false s1 s2 I h1 h2

theorem fn_sat_implies (s1 s2 : List α) (I : Ivs) (h1 : InRange s1.length I) (h2 : InRange s2.length I) :
    call (α := α) Gen.Expl.ltl_explain_sat_implies [] [.list s1, .list s2, encI I]
      = .ok ([], .pair (encI (runsAll (fun i => isUnsat (atL s1 i)) I)) (encI (runsAll (fun i => isSat (atL s2 i)) I))) := by
  rw [sat_implies_eq]; exact scan_main false true s1 s2 I h1 h2

end Rtamt.Py
