/-
  The interface-aware `visitPredicate` of the dense-time offline monitor
  (`IAStlOutputRobustnessDenseTimeOfflineAstVisitor` / `IAStlInputRobustnessDenseTimeOfflineAstVisitor`,
  `rtamt/semantics/iastl/dense_time/offline/ast_visitor.py`), translated with the parent's `visitPredicate` inlined
  (`Gen.Dense.visitPredicate_outRob` / `visitPredicate_inRob`), run through `callD` against the mirror:
  `predicateIA c (±inf by satisfaction)` when `node.out_vars` (`node.in_vars`) is empty, `predicate c` otherwise.
-/
import RtamtProofs.GenDenseUn
import RtamtProofs.GenDenseInter

namespace Rtamt.Py.Dn
open Rtamt Val Rtamt.Dense Rtamt.Dense.Alg

set_option linter.unusedSectionVars false
set_option linter.unusedVariables false
set_option linter.unusedSimpArgs false

variable {α : Type} [Val α]

namespace GenIAD
open GenUn

/-- the `if / elif` chain on `node.operator.value`: `sat_val` and `out_val` -/
def iaOutVal : S := (.ite (.bin .eq (.loc "$operator") (.cmpc .eq)) (.seq (.ite (.bin .eq (.idx (.loc "in_sample") (.int 1)) (.int 0)) (.setLoc "sat_val" (.boolLit true)) (.setLoc "sat_val" (.boolLit false))) (.setLoc "out_val" (.neg (.call1 "abs" (.idx (.loc "in_sample") (.int 1)))))) (.ite (.bin .eq (.loc "$operator") (.cmpc .ne)) (.seq (.ite (.bin .gt (.call1 "abs" (.idx (.loc "in_sample") (.int 1))) (.int 0)) (.setLoc "sat_val" (.boolLit true)) (.setLoc "sat_val" (.boolLit false))) (.setLoc "out_val" (.call1 "abs" (.idx (.loc "in_sample") (.int 1))))) (.ite (.bin .eq (.loc "$operator") (.cmpc .le)) (.seq (.ite (.bin .le (.idx (.loc "in_sample") (.int 1)) (.int 0)) (.setLoc "sat_val" (.boolLit true)) (.setLoc "sat_val" (.boolLit false))) (.setLoc "out_val" (.neg (.idx (.loc "in_sample") (.int 1))))) (.ite (.bin .eq (.loc "$operator") (.cmpc .lt)) (.seq (.ite (.bin .lt (.idx (.loc "in_sample") (.int 1)) (.int 0)) (.setLoc "sat_val" (.boolLit true)) (.setLoc "sat_val" (.boolLit false))) (.setLoc "out_val" (.neg (.idx (.loc "in_sample") (.int 1))))) (.ite (.bin .eq (.loc "$operator") (.cmpc .ge)) (.seq (.ite (.bin .ge (.idx (.loc "in_sample") (.int 1)) (.int 0)) (.setLoc "sat_val" (.boolLit true)) (.setLoc "sat_val" (.boolLit false))) (.setLoc "out_val" (.idx (.loc "in_sample") (.int 1)))) (.ite (.bin .eq (.loc "$operator") (.cmpc .gt)) (.seq (.ite (.bin .gt (.idx (.loc "in_sample") (.int 1)) (.int 0)) (.setLoc "sat_val" (.boolLit true)) (.setLoc "sat_val" (.boolLit false))) (.setLoc "out_val" (.idx (.loc "in_sample") (.int 1)))) (.setLoc "out_val" .nan)))))))

/-- `if out_val != prev or i == len(input_list) - 1: out_samples.append(…); sat_samples.append(…)` and `prev = out_val` -/
def iaKeep : S := (.seq (.ite (.or_ (.bin .ne (.loc "out_val") (.loc "prev")) (.bin .eq (.loc "i") (.bin .sub (.call1 "len" (.loc "input_list")) (.int 1)))) (.seq (.appendLoc "out_samples" (.list2 (.idx (.loc "in_sample") (.int 0)) (.loc "out_val"))) (.appendLoc "sat_samples" (.list2 (.idx (.loc "in_sample") (.int 0)) (.loc "sat_val")))) .skip) (.setLoc "prev" (.loc "out_val")))

def iaBody1 : S := .seq iaOutVal iaKeep

/-- the body of the second loop: `val = inf if sample[1] == True else -inf; out.append([out_sample[i][0], val])` -/
def iaBody2 : S := (.seq (.ite (.bin .eq (.idx (.loc "sample") (.int 1)) (.boolLit true)) (.setLoc "val" .inf) (.setLoc "val" (.neg .inf))) (.appendLoc "out" (.list2 (.idx (.idx (.loc "out_sample") (.loc "i")) (.int 0)) (.loc "val"))))

/-- what follows the first loop; `nm` is `$out_vars` / `$in_vars` -/
def iaTail (nm : String) : S := (.seq (.setLoc "out_sample" (.loc "out_samples")) (.seq (.setLoc "out" .emptyList) (.seq (.ite (.not (.loc nm)) (.forEnum "i" "sample" (.loc "sat_samples") false iaBody2) (.setLoc "out" (.loc "out_sample"))) (.ret (.loc "out")))))

def iaBody (nm : String) : S := (.seq (.setLoc "out_samples" .emptyList) (.seq (.setLoc "sat_samples" .emptyList) (.seq (.setLoc "input_list" (.call2 "subtraction_operation" (.loc "sample_left") (.loc "sample_right"))) (.seq (.setLoc "prev" .nan) (.seq (.forEnum "i" "in_sample" (.loc "input_list") false iaBody1) (iaTail nm))))))

theorem outRob_body : Gen.Dense.visitPredicate_outRob.body = iaBody "$out_vars" := rfl
theorem inRob_body : Gen.Dense.visitPredicate_inRob.body = iaBody "$in_vars" := rfl

/-! ### small steps of the symbolic execution -/

theorem exec_ite_true (call : Call α) (fuel : Nat) (c : E) (t e : S) (env : Env α)
    (h : evalE call env c = .ok (.bool true)) : exec call fuel (.ite c t e) env = exec call fuel t env := by
  simp [exec, h, truthy]

theorem exec_ite_false (call : Call α) (fuel : Nat) (c : E) (t e : S) (env : Env α)
    (h : evalE call env c = .ok (.bool false)) : exec call fuel (.ite c t e) env = exec call fuel e env := by
  simp [exec, h, truthy]

theorem exec_seq_ok (call : Call α) (fuel : Nat) (a b : S) (env env' : Env α)
    (h : exec call fuel a env = .ok (env', none)) : exec call fuel (.seq a b) env = exec call fuel b env' := by
  simp [exec, h]

/-- `x = True if e else False` -/
theorem exec_setBool (call : Call α) (fuel : Nat) (e : E) (x : String) (env : Env α) (b : Bool)
    (h : evalE call env e = .ok (.bool b)) :
    exec call fuel (.ite e (.setLoc x (.boolLit true)) (.setLoc x (.boolLit false))) env =
      .ok (setLoc x (.bool b) env, none) := by
  cases b <;> simp [exec, h, truthy, evalE]

theorem opTest (call : Call α) (env : Env α) (c c' : Cmp) (hop : getLoc "$operator" env = .ok (.cmp c)) :
    evalE call env (.bin .eq (.loc "$operator") (.cmpc c')) = .ok (.bool (decide (c = c'))) := by
  simp [evalE, hop, evalBin, isCmp, cmpDV]

/-! ### `sat_val`: the translated tests against `satOfDiff` -/

/-- `in_sample[1] OP 0` -/
theorem satTest (call : Call α) (env : Env α) (op : BinOp) (t : Tm) (d : α) (b : Bool)
    (hin : getLoc "in_sample" env = .ok (.smp t (.val d))) (hb : cmpVal op d Val.zero = .ok b) :
    evalE call env (.bin op (.idx (.loc "in_sample") (.int 1)) (.int 0)) = .ok (.bool b) := by
  have hcmp : isCmp op = true := by cases op <;> simp [cmpVal] at hb <;> rfl
  simp [evalE, hin, evalIdx, pyIndex, evalBin, hcmp, cmpDV, isTimeLike, isValLike, toVal, hb]

/-- `abs(in_sample[1]) > 0` -/
theorem satTestAbs (call : Call α) (env : Env α) (t : Tm) (d : α)
    (hin : getLoc "in_sample" env = .ok (.smp t (.val d)))
    (hr : resolve env "abs" = "abs") (hc : call "abs" [.val d] = .ok (.val (Val.abs d))) :
    evalE call env (.bin .gt (.call1 "abs" (.idx (.loc "in_sample") (.int 1))) (.int 0)) =
      .ok (.bool (Val.lt Val.zero (Val.abs d))) := by
  simp [evalE, hin, evalIdx, pyIndex, hr, hc, evalBin, isCmp, cmpDV, isTimeLike, isValLike, toVal, cmpVal]

theorem iaOutVal_step (call : Call α) (fuel : Nat) (env : Env α) (c : Cmp) (t : Tm) (d : α)
    (hop : getLoc "$operator" env = .ok (.cmp c)) (hin : getLoc "in_sample" env = .ok (.smp t (.val d)))
    (hr : resolve env "abs" = "abs") (hc : call "abs" [.val d] = .ok (.val (Val.abs d))) :
    exec call fuel iaOutVal env =
      .ok (setLoc "out_val" (.val (cmpOfDiff c d)) (setLoc "sat_val" (.bool (satOfDiff c d)) env), none) := by
  unfold iaOutVal
  cases c with
  | eq =>
      rw [exec_ite_true _ _ _ _ _ _ (opTest call env _ _ hop),
        exec_seq_ok _ _ _ _ _ _ (exec_setBool _ _ _ _ _ _ (satTest call env .eq t d (satOfDiff .eq d) hin
          (by simp [cmpVal, satOfDiff, numEq])))]
      simp [exec, evalE, hin, hr, hc, evalIdx, pyIndex, evalNeg, cmpOfDiff, satOfDiff]
  | ne =>
      rw [exec_ite_false _ _ _ _ _ _ (opTest call env _ _ hop),
        exec_ite_true _ _ _ _ _ _ (opTest call env _ _ hop),
        exec_seq_ok _ _ _ _ _ _ (exec_setBool _ _ _ _ _ _ (satTestAbs call env t d hin hr hc))]
      simp [exec, evalE, hin, hr, hc, evalIdx, pyIndex, evalNeg, cmpOfDiff, satOfDiff]
  | le =>
      rw [exec_ite_false _ _ _ _ _ _ (opTest call env _ _ hop),
        exec_ite_false _ _ _ _ _ _ (opTest call env _ _ hop),
        exec_ite_true _ _ _ _ _ _ (opTest call env _ _ hop),
        exec_seq_ok _ _ _ _ _ _ (exec_setBool _ _ _ _ _ _ (satTest call env .le t d (satOfDiff .le d) hin
          (by simp [cmpVal, satOfDiff])))]
      simp [exec, evalE, hin, hr, hc, evalIdx, pyIndex, evalNeg, cmpOfDiff, satOfDiff]
  | lt =>
      rw [exec_ite_false _ _ _ _ _ _ (opTest call env _ _ hop),
        exec_ite_false _ _ _ _ _ _ (opTest call env _ _ hop),
        exec_ite_false _ _ _ _ _ _ (opTest call env _ _ hop),
        exec_ite_true _ _ _ _ _ _ (opTest call env _ _ hop),
        exec_seq_ok _ _ _ _ _ _ (exec_setBool _ _ _ _ _ _ (satTest call env .lt t d (satOfDiff .lt d) hin
          (by simp [cmpVal, satOfDiff])))]
      simp [exec, evalE, hin, hr, hc, evalIdx, pyIndex, evalNeg, cmpOfDiff, satOfDiff]
  | ge =>
      rw [exec_ite_false _ _ _ _ _ _ (opTest call env _ _ hop),
        exec_ite_false _ _ _ _ _ _ (opTest call env _ _ hop),
        exec_ite_false _ _ _ _ _ _ (opTest call env _ _ hop),
        exec_ite_false _ _ _ _ _ _ (opTest call env _ _ hop),
        exec_ite_true _ _ _ _ _ _ (opTest call env _ _ hop),
        exec_seq_ok _ _ _ _ _ _ (exec_setBool _ _ _ _ _ _ (satTest call env .ge t d (satOfDiff .ge d) hin
          (by simp [cmpVal, satOfDiff])))]
      simp [exec, evalE, hin, hr, hc, evalIdx, pyIndex, evalNeg, cmpOfDiff, satOfDiff]
  | gt =>
      rw [exec_ite_false _ _ _ _ _ _ (opTest call env _ _ hop),
        exec_ite_false _ _ _ _ _ _ (opTest call env _ _ hop),
        exec_ite_false _ _ _ _ _ _ (opTest call env _ _ hop),
        exec_ite_false _ _ _ _ _ _ (opTest call env _ _ hop),
        exec_ite_false _ _ _ _ _ _ (opTest call env _ _ hop),
        exec_ite_true _ _ _ _ _ _ (opTest call env _ _ hop),
        exec_seq_ok _ _ _ _ _ _ (exec_setBool _ _ _ _ _ _ (satTest call env .gt t d (satOfDiff .gt d) hin
          (by simp [cmpVal, satOfDiff])))]
      simp [exec, evalE, hin, hr, hc, evalIdx, pyIndex, evalNeg, cmpOfDiff, satOfDiff]

/-! ### the first loop -/

/-- the two lists the loop builds, from the kept samples `(t, (robustness, satisfaction))` -/
def encOut (acc : List (Tm × (α × Bool))) : List (DV α) := acc.map (fun p => .smp p.1 (.val p.2.1))
def encSat (acc : List (Tm × (α × Bool))) : List (DV α) := acc.map (fun p => .smp p.1 (.bool p.2.2))

theorem iaKeep_step (call : Call α) (fuel : Nat) (env : Env α) (t : Tm) (d v : α) (b : Bool) (prev : Option α) (k : Nat)
    (L accO accS : List (DV α))
    (hov : getLoc "out_val" env = .ok (.val v)) (hsv : getLoc "sat_val" env = .ok (.bool b))
    (hpv : getLoc "prev" env = .ok (encPrev prev))
    (hi : getLoc "i" env = .ok (.int k)) (hL : getLoc "input_list" env = .ok (.list L))
    (hin : getLoc "in_sample" env = .ok (.smp t (.val d)))
    (hos : getLoc "out_samples" env = .ok (.list accO)) (hss : getLoc "sat_samples" env = .ok (.list accS))
    (hr : resolve env "len" = "len") (hc : call "len" [.list L] = .ok (.int L.length)) :
    exec call fuel iaKeep env =
      .ok (setLoc "prev" (.val v)
        (if keepTest prev v || decide (k + 1 = L.length)
          then setLoc "sat_samples" (.list (accS ++ [.smp t (.bool b)]))
                (setLoc "out_samples" (.list (accO ++ [.smp t (.val v)])) env) else env), none) := by
  have hne := cmpNe_prev v prev
  have hdec : decide ((k : Int) = (L.length : Int) - 1) = decide (k + 1 = L.length) := by
    apply decide_eq_decide.mpr; omega
  cases hk : keepTest prev v with
  | true =>
      rw [hk] at hne
      simp [iaKeep, exec, evalE, hov, hsv, hpv, hin, hos, hss, evalBin, isCmp, hne, truthy, evalIdx, pyIndex, mkList2, toPayload]
  | false =>
      rw [hk] at hne
      by_cases hlast : k + 1 = L.length
      · simp [iaKeep, exec, evalE, hov, hsv, hpv, hi, hL, hin, hos, hss, hr, hc, evalBin, isCmp, hne, truthy, evalIdx, pyIndex,
          mkList2, toPayload, arith, cmpEq_int, hdec, hlast]
      · simp [iaKeep, exec, evalE, hov, hsv, hpv, hi, hL, hin, hos, hss, hr, hc, evalBin, isCmp, hne, truthy, evalIdx, pyIndex,
          mkList2, toPayload, arith, cmpEq_int, hdec, hlast]

/-- what the first loop keeps in its locals; `X` is the value of `node.out_vars` / `node.in_vars` (local `nm`) -/
structure IAInv (nm : String) (X : DV α) (env : Env α) (c : Cmp) (L : List (DV α)) (acc : List (Tm × (α × Bool)))
    (prev : Option α) : Prop where
  op : getLoc "$operator" env = .ok (.cmp c)
  il : getLoc "input_list" env = .ok (.list L)
  os : getLoc "out_samples" env = .ok (.list (encOut acc))
  ss : getLoc "sat_samples" env = .ok (.list (encSat acc))
  pv : getLoc "prev" env = .ok (encPrev prev)
  nmv : getLoc nm env = .ok X
  rabs : resolve env "abs" = "abs"
  rlen : resolve env "len" = "len"

/-- `nm` is none of the locals the method assigns -/
structure Fresh (nm : String) : Prop where
  h1 : nm ≠ "in_sample"
  h2 : nm ≠ "i"
  h3 : nm ≠ "sat_val"
  h4 : nm ≠ "out_val"
  h5 : nm ≠ "out_samples"
  h6 : nm ≠ "sat_samples"
  h7 : nm ≠ "prev"
  h8 : nm ≠ "input_list"
  h9 : nm ≠ "out_sample"
  h10 : nm ≠ "out"
  h11 : nm ≠ "sample"
  h12 : nm ≠ "val"
  h13 : nm ≠ "sample_left"
  h14 : nm ≠ "sample_right"
  h15 : nm ≠ "$operator"
  h16 : nm ≠ "abs"
  h17 : nm ≠ "len"
  h18 : nm ≠ "subtraction_operation"

theorem fresh_out : Fresh "$out_vars" := by constructor <;> decide
theorem fresh_in : Fresh "$in_vars" := by constructor <;> decide

/-- the sample the loop keeps (or not) at `(t, d)` -/
def keptAt (c : Cmp) (prev : Option α) (last : Bool) (t : Tm) (d : α) : List (Tm × (α × Bool)) :=
  if keepTest prev (cmpOfDiff c d) || last then [(t, (cmpOfDiff c d, satOfDiff c d))] else []

theorem iaBody1_step (call : Call α) (fuel : Nat) (nm : String) (X : DV α) (fr : Fresh nm) (env : Env α) (c : Cmp)
    (L : List (DV α)) (acc : List (Tm × (α × Bool))) (prev : Option α)
    (t : Tm) (d : α) (k : Nat) (inv : IAInv nm X env c L acc prev)
    (hcAbs : ∀ d : α, call "abs" [.val d] = .ok (.val (Val.abs d)))
    (hcLen : ∀ L : List (DV α), call "len" [.list L] = .ok (.int L.length)) :
    ∃ env', exec call fuel iaBody1 (setLoc "in_sample" (.smp t (.val d)) (setLoc "i" (.int k) env)) = .ok (env', none) ∧
      IAInv nm X env' c L (acc ++ keptAt c prev (decide (k + 1 = L.length)) t d) (some (cmpOfDiff c d)) := by
  obtain ⟨h1, h2, h3, h3', h4, h7, h5, h6⟩ := inv
  obtain ⟨f1, f2, f3, f4, f5, f6, f7, f8, f9, f10, f11, f12, f13, f14, f15, f16, f17, f18⟩ := fr
  have e1 := iaOutVal_step call fuel (setLoc "in_sample" (.smp t (.val d)) (setLoc "i" (.int k) env)) c t d
    (by simp [h1]) (by simp) (by simp [h5]) (hcAbs d)
  have e2 := iaKeep_step call fuel
    (setLoc "out_val" (.val (cmpOfDiff c d)) (setLoc "sat_val" (.bool (satOfDiff c d))
      (setLoc "in_sample" (.smp t (.val d)) (setLoc "i" (.int k) env))))
    t d (cmpOfDiff c d) (satOfDiff c d) prev k L (encOut acc) (encSat acc)
    (by simp) (by simp) (by simp [h4]) (by simp) (by simp [h2]) (by simp) (by simp [h3]) (by simp [h3'])
    (by simp [h6]) (hcLen L)
  refine ⟨_, by rw [iaBody1, exec, e1]; simp only [ok_bind]; exact e2, ?_⟩
  unfold keptAt
  cases hk : (keepTest prev (cmpOfDiff c d) || decide (k + 1 = L.length)) with
  | true => constructor <;> simp [h1, h2, h5, h6, h7, encPrev, encOut, encSat, f1, f2, f3, f4, f5, f6, f7]
  | false => constructor <;> simp [h1, h2, h3, h3', h5, h6, h7, encPrev, encOut, encSat, f1, f2, f3, f4, f5, f6, f7]

theorem dedupGoK_cons2 {γ : Type} (key : γ → α) (prev : Option α) (p q : Tm × γ) (rest : List (Tm × γ)) :
    dedupGoK key prev (p :: q :: rest) =
      (if keepTest prev (key p.2) then [p] else []) ++ dedupGoK key (some (key p.2)) (q :: rest) := by
  cases prev <;> rfl

/-- the samples with both values, as `predicateIA` builds them -/
def both (c : Cmp) (s : ASig α) : List (Tm × (α × Bool)) := s.map (fun p => (p.1, (cmpOfDiff c p.2, satOfDiff c p.2)))

theorem iaLoop1 (call : Call α) (fuel : Nat) (nm : String) (X : DV α) (fr : Fresh nm) (c : Cmp) (L : List (DV α))
    (hcAbs : ∀ d : α, call "abs" [.val d] = .ok (.val (Val.abs d)))
    (hcLen : ∀ L : List (DV α), call "len" [.list L] = .ok (.int L.length)) (rest : ASig α) :
    ∀ (k : Nat) (env : Env α) (acc : List (Tm × (α × Bool))) (prev : Option α),
    IAInv nm X env c L acc prev → k + rest.length = L.length →
    ∃ env', forLoop (fun p env => setLoc "in_sample" p.1 (setLoc "i" (.int p.2) env)) (exec call fuel iaBody1)
        ((rest.map encSmp).zipIdx k) env = .ok (env', none) ∧
      ∃ prev', IAInv nm X env' c L (acc ++ dedupGoK (fun x : α × Bool => x.1) prev (both c rest)) prev' := by
  induction rest with
  | nil => intro k env acc prev inv _; exact ⟨env, rfl, prev, by simpa [both, dedupGoK] using inv⟩
  | cons p rest ih =>
      intro k env acc prev inv hk
      obtain ⟨t, d⟩ := p
      obtain ⟨env1, h1, inv1⟩ := iaBody1_step call fuel nm X fr env c L acc prev t d k inv hcAbs hcLen
      rw [List.map_cons, List.zipIdx_cons, forLoop_cons]
      dsimp only
      have h1' : exec call fuel iaBody1 (setLoc "in_sample" (encSmp (t, d)) (setLoc "i" (.int k) env)) = .ok (env1, none) := h1
      simp only [h1', ok_bind]
      cases rest with
      | nil =>
          have hlast : k + 1 = L.length := by simpa using hk
          refine ⟨env1, rfl, some (cmpOfDiff c d), ?_⟩
          simpa [hlast, keptAt, both, dedupGoK] using inv1
      | cons q rest' =>
          have hnl : ¬ (k + 1 = L.length) := by simp only [List.length_cons] at hk; omega
          obtain ⟨env', h2, prev', h3⟩ := ih (k + 1) env1 _ _ inv1 (by simp only [List.length_cons] at hk ⊢; omega)
          refine ⟨env', h2, prev', ?_⟩
          have hd : dedupGoK (fun x : α × Bool => x.1) prev (both c ((t, d) :: q :: rest')) =
              keptAt c prev (decide (k + 1 = L.length)) t d ++
                dedupGoK (fun x : α × Bool => x.1) (some (cmpOfDiff c d)) (both c (q :: rest')) := by
            simp only [both, List.map_cons, dedupGoK_cons2, keptAt, hnl, decide_false, Bool.or_false]
          rw [hd, ← List.append_assoc]
          exact h3

/-! ### the second loop: every verdict becomes `+inf` / `-inf` -/

/-- `float("inf") if sat else -float("inf")` -/
def mkInf (b : Bool) : α := if b then Val.pinf else Val.ninf

def encInf (acc : List (Tm × (α × Bool))) : List (DV α) := acc.map (fun p => .smp p.1 (.val (mkInf p.2.2)))

theorem iaBody2_step (call : Call α) (fuel : Nat) (env : Env α) (acc O : List (DV α)) (k : Nat) (t t' : Tm) (v : α)
    (b : Bool) (hO : getLoc "out_sample" env = .ok (.list O)) (hlt : k < O.length)
    (hk : O[k]? = some (.smp t (.val v))) (hout : getLoc "out" env = .ok (.list acc)) :
    exec call fuel iaBody2 (setLoc "sample" (.smp t' (.bool b)) (setLoc "i" (.int k) env)) =
      .ok (setLoc "out" (.list (acc ++ [.smp t (.val (mkInf b))])) (setLoc "val" (.uinf (!b))
        (setLoc "sample" (.smp t' (.bool b)) (setLoc "i" (.int k) env))), none) := by
  have hk' : O[k] = .smp t (.val v) := by simpa [List.getElem?_eq_getElem hlt] using hk
  cases b <;>
    simp [iaBody2, exec, evalE, hO, hout, hlt, hk, hk', evalIdx, pyIndex, evalBin, isCmp, cmpDV, truthy, evalNeg, mkList2,
      toPayload, mkInf]

theorem iaLoop2 (call : Call α) (fuel : Nat) (A : List (Tm × (α × Bool))) :
    ∀ (rest pre : List (Tm × (α × Bool))) (env : Env α), A = pre ++ rest →
    getLoc "out_sample" env = .ok (.list (encOut A)) → getLoc "out" env = .ok (.list (encInf pre)) →
    ∃ env', forLoop (fun p env => setLoc "sample" p.1 (setLoc "i" (.int p.2) env)) (exec call fuel iaBody2)
        ((encSat rest).zipIdx pre.length) env = .ok (env', none) ∧
      getLoc "out" env' = .ok (.list (encInf A)) := by
  intro rest
  induction rest with
  | nil =>
      intro pre env hA _ hout
      exact ⟨env, rfl, by simpa [hA] using hout⟩
  | cons p rest ih =>
      intro pre env hA hO hout
      obtain ⟨t, v, b⟩ := p
      have hlt : pre.length < (encOut A).length := by simp [encOut, hA]
      have hk : (encOut A)[pre.length]? = some (.smp t (.val v)) := by simp [encOut, hA]
      have e1 := iaBody2_step call fuel env (encInf pre) (encOut A) pre.length t t v b hO hlt hk hout
      simp only [encSat, List.map_cons, List.zipIdx_cons, forLoop_cons]
      simp only [e1, ok_bind]
      obtain ⟨env', h2, h3⟩ := ih (pre ++ [(t, v, b)])
        (setLoc "out" (.list (encInf pre ++ [.smp t (.val (mkInf b))])) (setLoc "val" (.uinf (!b))
          (setLoc "sample" (.smp t (.bool b)) (setLoc "i" (.int pre.length) env))))
        (by simp [hA]) (by simpa using hO) (by simp [encInf])
      refine ⟨env', ?_, h3⟩
      simpa [encSat] using h2

/-! ### after the first loop -/

theorem exec_setLoc_loc (call : Call α) (fuel : Nat) (x y : String) (env : Env α) (v : DV α)
    (h : getLoc y env = .ok v) : exec call fuel (.setLoc x (.loc y)) env = .ok (setLoc x v env, none) := by
  simp [exec, evalE, h]

theorem exec_setLoc_nil (call : Call α) (fuel : Nat) (x : String) (env : Env α) :
    exec call fuel (.setLoc x .emptyList) env = .ok (setLoc x (.list []) env, none) := by
  simp [exec, evalE]

theorem notLoc (call : Call α) (env : Env α) (nm : String) (vs : List (DV α)) (h : getLoc nm env = .ok (.list vs)) :
    evalE call env (.not (.loc nm)) = .ok (.bool vs.isEmpty) := by
  simp [evalE, h, truthy]

theorem iaTail_insens (call : Call α) (fuel : Nat) (nm : String) (fr : Fresh nm) (env : Env α)
    (A : List (Tm × (α × Bool)))
    (hos : getLoc "out_samples" env = .ok (.list (encOut A))) (hss : getLoc "sat_samples" env = .ok (.list (encSat A)))
    (hnm : getLoc nm env = .ok (.list [])) :
    ∃ env', exec call fuel (iaTail nm) env = .ok (env', some (.list (encInf A))) := by
  obtain ⟨f1, f2, f3, f4, f5, f6, f7, f8, f9, f10, f11, f12, f13, f14, f15, f16, f17, f18⟩ := fr
  unfold iaTail
  rw [exec_seq_ok _ _ _ _ _ _ (exec_setLoc_loc call fuel _ _ env _ hos), exec_seq_ok _ _ _ _ _ _ (exec_setLoc_nil call fuel _ _),
    exec, exec_ite_true _ _ _ _ _ _ (notLoc call _ nm [] (by simp [f9, f10, hnm]))]
  obtain ⟨env', h1, h2⟩ := iaLoop2 call fuel A A []
    (setLoc "out" (.list []) (setLoc "out_sample" (.list (encOut A)) env)) rfl (by simp) (by simp [encInf])
  have hss' : getLoc "sat_samples" (setLoc "out" (.list []) (setLoc "out_sample" (.list (encOut A)) env)) =
      .ok (.list (encSat A)) := by simp [hss]
  refine ⟨env', ?_⟩
  simp only [exec, evalE, hss', ok_bind, Bool.false_eq_true, if_false]
  rw [List.length_nil] at h1
  simp [h1, h2]

theorem iaTail_sens (call : Call α) (fuel : Nat) (nm : String) (fr : Fresh nm) (env : Env α)
    (A : List (Tm × (α × Bool))) (vs : List (DV α)) (hvs : vs ≠ [])
    (hos : getLoc "out_samples" env = .ok (.list (encOut A))) (hnm : getLoc nm env = .ok (.list vs)) :
    ∃ env', exec call fuel (iaTail nm) env = .ok (env', some (.list (encOut A))) := by
  obtain ⟨f1, f2, f3, f4, f5, f6, f7, f8, f9, f10, f11, f12, f13, f14, f15, f16, f17, f18⟩ := fr
  have hemp : vs.isEmpty = false := by cases vs <;> simp_all
  unfold iaTail
  rw [exec_seq_ok _ _ _ _ _ _ (exec_setLoc_loc call fuel _ _ env _ hos), exec_seq_ok _ _ _ _ _ _ (exec_setLoc_nil call fuel _ _),
    exec, exec_ite_false _ _ _ _ _ _ (by rw [notLoc call _ nm vs (by simp [f9, f10, hnm]), hemp])]
  exact ⟨setLoc "out" (.list (encOut A)) (setLoc "out" (.list []) (setLoc "out_sample" (.list (encOut A)) env)),
    by simp [exec, evalE]⟩

theorem exec_forEnum (call : Call α) (fuel : Nat) (i x y : String) (body : S) (env : Env α) (L : List (DV α))
    (h : getLoc y env = .ok (.list L)) :
    exec call fuel (.forEnum i x (.loc y) false body) env =
      forLoop (fun p env => setLoc x p.1 (setLoc i (.int p.2) env)) (exec call fuel body) (L.zipIdx 0) env := by
  simp [exec, evalE, h]

theorem exec_seq_error (call : Call α) (fuel : Nat) (a b : S) (env : Env α) (e : PyErr)
    (h : exec call fuel a env = .error e) : exec call fuel (.seq a b) env = .error e := by
  simp [exec, h]

theorem exec_seq_ret' (call : Call α) (fuel : Nat) (a b : S) (env env' env'' : Env α) (v : DV α)
    (h : exec call fuel a env = .ok (env', none)) (h2 : exec call fuel b env' = .ok (env'', some v)) :
    exec call fuel (.seq a b) env = .ok (env'', some v) := by
  simp [exec, h, h2]

/-! ### the method -/

theorem dedupGoK_fst (c : Cmp) : ∀ (s : ASig α) (prev : Option α),
    (dedupGoK (fun x : α × Bool => x.1) prev (both c s)).map (fun p => (p.1, p.2.1)) =
      dedupGo prev (s.map (fun p => (p.1, cmpOfDiff c p.2)))
  | [], _ => rfl
  | [p], _ => rfl
  | p :: q :: rest, prev => by
      have ih := dedupGoK_fst c (q :: rest) (some (cmpOfDiff c p.2))
      have hd : dedupGo prev (List.map (fun p => (p.1, cmpOfDiff c p.2)) (p :: q :: rest)) =
          (if keepTest prev (cmpOfDiff c p.2) then [(p.1, cmpOfDiff c p.2)] else []) ++
            dedupGo (some (cmpOfDiff c p.2)) (List.map (fun p => (p.1, cmpOfDiff c p.2)) (q :: rest)) := by
        cases prev <;> rfl
      rw [hd, ← ih]
      simp only [both, List.map_cons, dedupGoK_cons2, List.map_append]
      cases keepTest prev (cmpOfDiff c p.2) <;> simp

theorem encOut_eq (A : List (Tm × (α × Bool))) : (DV.list (encOut A) : DV α) = encSig (A.map (fun p => (p.1, p.2.1))) := by
  simp [encOut, encSig, encSmp]

theorem encInf_eq (A : List (Tm × (α × Bool))) :
    (DV.list (encInf A) : DV α) = encSig (A.map (fun p => (p.1, mkInf p.2.2))) := by
  simp [encInf, encSig, encSmp]

/-- both interface-aware robustness `visitPredicate`s: `nm` is `$out_vars` / `$in_vars` -/
theorem iaMethod (fuel : Nat) (m : DMethod) (nm : String) (fr : Fresh nm)
    (hk : m.kids = ["sample_left", "sample_right"]) (hiv : m.interval = false) (hb : m.body = iaBody nm)
    (c : Cmp) (l r : ASig α) (h : l.length + r.length + 4 ≤ fuel) (vs : List (DV α)) :
    callD fuel m [l, r] none [("$operator", .cmp c), (nm, .list vs)] =
      if vs.isEmpty then predicateIA c mkInf l r else predicate c l r := by
  have hs : callAt Gen.Dense.fns fuel depth "subtraction_operation" [encSig l, encSig r] = _ :=
    gen_subtraction_operation fuel 3 l r h
  have fr' := fr
  obtain ⟨f1, f2, f3, f4, f5, f6, f7, f8, f9, f10, f11, f12, f13, f14, f15, f16, f17, f18⟩ := fr'
  rw [callD_eq, hk, hiv, hb]
  simp only [List.length_cons, List.length_nil, Nat.lt_irrefl, if_false]
  show retSig (exec (callAt Gen.Dense.fns fuel depth) fuel (iaBody nm)
    [("sample_left", encSig l), ("sample_right", encSig r), ("$operator", .cmp c), (nm, .list vs)]) = _
  generalize henv0 : ([("sample_left", encSig l), ("sample_right", encSig r), ("$operator", .cmp c), (nm, .list vs)] : Env α)
    = env0
  have g1 : getLoc "sample_left" env0 = .ok (encSig l) := by subst henv0; simp
  have g2 : getLoc "sample_right" env0 = .ok (encSig r) := by subst henv0; simp
  have g3 : getLoc "$operator" env0 = .ok (.cmp c) := by subst henv0; simp
  have g4 : getLoc nm env0 = .ok (.list vs) := by
    subst henv0; simp [f13, f14, f15]
  have g5 : ∀ f : String, f ≠ "sample_left" → f ≠ "sample_right" → f ≠ "$operator" → f ≠ nm → resolve env0 f = f := by
    intro f a1 a2 a3 a4
    subst henv0
    have b1 : (f == "sample_left") = false := by rw [beq_eq_false_iff_ne]; exact a1
    have b2 : (f == "sample_right") = false := by rw [beq_eq_false_iff_ne]; exact a2
    have b3 : (f == "$operator") = false := by rw [beq_eq_false_iff_ne]; exact a3
    have b4 : (f == nm) = false := by rw [beq_eq_false_iff_ne]; exact a4
    simp [resolve, List.lookup, b1, b2, b3, b4]
  unfold iaBody
  rw [exec_seq_ok _ _ _ _ _ _ (exec_setLoc_nil _ fuel _ _), exec_seq_ok _ _ _ _ _ _ (exec_setLoc_nil _ fuel _ _)]
  generalize henv2 : setLoc "sat_samples" (DV.list []) (setLoc "out_samples" (DV.list []) env0) = env2
  have k1 : getLoc "sample_left" env2 = .ok (encSig l) := by subst henv2; simp [g1]
  have k2 : getLoc "sample_right" env2 = .ok (encSig r) := by subst henv2; simp [g2]
  have k3 : getLoc "$operator" env2 = .ok (.cmp c) := by subst henv2; simp [g3]
  have k4 : getLoc nm env2 = .ok (.list vs) := by subst henv2; simp [g4, f5, f6]
  have k5 : getLoc "out_samples" env2 = .ok (.list []) := by subst henv2; simp
  have k6 : getLoc "sat_samples" env2 = .ok (.list []) := by subst henv2; simp
  have k7 : ∀ f : String, f ≠ "sample_left" → f ≠ "sample_right" → f ≠ "$operator" → f ≠ nm → f ≠ "out_samples" →
      f ≠ "sat_samples" → resolve env2 f = f := by
    intro f a1 a2 a3 a4 a5 a6
    subst henv2
    simp [a5, a6, g5 f a1 a2 a3 a4]
  have hcall : evalE (callAt Gen.Dense.fns fuel depth) env2
      (.call2 "subtraction_operation" (.loc "sample_left") (.loc "sample_right")) =
      (inter (fun a b => Val.sub a b) vne l r).map encSig := by
    have hne : "subtraction_operation" ≠ nm := fun e => f18 e.symm
    simp only [evalE, k1, k2, ok_bind, k7 "subtraction_operation" (by decide) (by decide) (by decide) hne (by decide)
      (by decide), hs]
  cases hI : inter (fun a b => Val.sub a b) vne l r with
  | error e =>
      rw [hI] at hcall
      have : exec (callAt Gen.Dense.fns fuel depth) fuel
          (.setLoc "input_list" (.call2 "subtraction_operation" (.loc "sample_left") (.loc "sample_right"))) env2 =
          .error e := by
        rw [exec, hcall]; rfl
      rw [exec_seq_error _ _ _ _ _ _ this]
      simp [retSig, predicateIA, predicate, hI]
  | ok d =>
      rw [hI] at hcall
      have e3 : exec (callAt Gen.Dense.fns fuel depth) fuel
          (.setLoc "input_list" (.call2 "subtraction_operation" (.loc "sample_left") (.loc "sample_right"))) env2 =
          .ok (setLoc "input_list" (encSig d) env2, none) := by
        rw [exec, hcall]; rfl
      have e4 : exec (callAt Gen.Dense.fns fuel depth) fuel (.setLoc "prev" .nan) (setLoc "input_list" (encSig d) env2) =
          .ok (setLoc "prev" .nan (setLoc "input_list" (encSig d) env2), none) := by
        simp [exec, evalE]
      rw [exec_seq_ok _ _ _ _ _ _ e3, exec_seq_ok _ _ _ _ _ _ e4]
      have hcAbs : ∀ d : α, callAt Gen.Dense.fns fuel depth "abs" [.val d] = .ok (.val (Val.abs d)) := by
        intro d; rw [callAt_builtin _ _ _ _ _ rfl]; simp [builtin, toVal]
      have hcLen : ∀ L : List (DV α), callAt Gen.Dense.fns fuel depth "len" [.list L] = .ok (.int L.length) := by
        intro L; rw [callAt_builtin _ _ _ _ _ rfl]; simp [builtin]
      have hneAbs : "abs" ≠ nm := fun e => f16 e.symm
      have hneLen : "len" ≠ nm := fun e => f17 e.symm
      have inv0 : IAInv nm (.list vs) (setLoc "prev" .nan (setLoc "input_list" (encSig d) env2)) c (d.map encSmp) [] none := by
        constructor
        · simp [k3]
        · simp [encSig]
        · simp [k5, encOut]
        · simp [k6, encSat]
        · simp [encPrev]
        · simp [k4, f7, f8]
        · simp [k7 "abs" (by decide) (by decide) (by decide) hneAbs (by decide) (by decide)]
        · simp [k7 "len" (by decide) (by decide) (by decide) hneLen (by decide) (by decide)]
      obtain ⟨env5, h1, prev', inv5⟩ := iaLoop1 (callAt Gen.Dense.fns fuel depth) fuel nm (.list vs) fr c (d.map encSmp)
        hcAbs hcLen d 0 _ [] none inv0 (by simp)
      have e5 := exec_forEnum (callAt Gen.Dense.fns fuel depth) fuel "i" "in_sample" "input_list" iaBody1
        (setLoc "prev" .nan (setLoc "input_list" (encSig d) env2)) (d.map encSmp) (by simp [encSig])
      rw [h1] at e5
      rw [exec_seq_ok _ _ _ _ _ _ e5]
      rw [List.nil_append] at inv5
      cases vs with
      | nil =>
          obtain ⟨env6, h6⟩ := iaTail_insens (callAt Gen.Dense.fns fuel depth) fuel nm fr env5 _ inv5.os inv5.ss inv5.nmv
          rw [h6, encInf_eq]
          simp [retSig, predicateIA, hI, both]
      | cons x xs =>
          obtain ⟨env6, h6⟩ := iaTail_sens (callAt Gen.Dense.fns fuel depth) fuel nm fr env5 _ (x :: xs) (by simp)
            inv5.os inv5.nmv
          rw [h6, encOut_eq, dedupGoK_fst]
          simp [retSig, predicate, hI, dedup]

/-- `IAStlOutputRobustnessDenseTimeOfflineAstVisitor.visitPredicate`, `node.out_vars` empty -/
theorem _root_.Rtamt.Py.Dn.gen_visitPredicate_outRob_insensitive (fuel : Nat) (c : Cmp) (l r : ASig α)
    (h : l.length + r.length + 4 ≤ fuel) :
    callD fuel Gen.Dense.visitPredicate_outRob [l, r] none [("$operator", .cmp c), ("$out_vars", .list [])]
      = predicateIA c (fun b => if b then Val.pinf else Val.ninf) l r :=
  iaMethod fuel Gen.Dense.visitPredicate_outRob "$out_vars" fresh_out rfl rfl outRob_body c l r h []

/-- `IAStlOutputRobustnessDenseTimeOfflineAstVisitor.visitPredicate`, `node.out_vars` not empty -/
theorem _root_.Rtamt.Py.Dn.gen_visitPredicate_outRob_sensitive (fuel : Nat) (c : Cmp) (l r : ASig α)
    (h : l.length + r.length + 4 ≤ fuel) (vs : List (DV α)) (hvs : vs ≠ []) :
    callD fuel Gen.Dense.visitPredicate_outRob [l, r] none [("$operator", .cmp c), ("$out_vars", .list vs)]
      = predicate c l r := by
  rw [iaMethod fuel Gen.Dense.visitPredicate_outRob "$out_vars" fresh_out rfl rfl outRob_body c l r h vs]
  cases vs with
  | nil => exact absurd rfl hvs
  | cons x xs => rfl

/-- `IAStlInputRobustnessDenseTimeOfflineAstVisitor.visitPredicate`, `node.in_vars` empty -/
theorem _root_.Rtamt.Py.Dn.gen_visitPredicate_inRob_insensitive (fuel : Nat) (c : Cmp) (l r : ASig α)
    (h : l.length + r.length + 4 ≤ fuel) :
    callD fuel Gen.Dense.visitPredicate_inRob [l, r] none [("$operator", .cmp c), ("$in_vars", .list [])]
      = predicateIA c (fun b => if b then Val.pinf else Val.ninf) l r :=
  iaMethod fuel Gen.Dense.visitPredicate_inRob "$in_vars" fresh_in rfl rfl inRob_body c l r h []

/-- `IAStlInputRobustnessDenseTimeOfflineAstVisitor.visitPredicate`, `node.in_vars` not empty -/
theorem _root_.Rtamt.Py.Dn.gen_visitPredicate_inRob_sensitive (fuel : Nat) (c : Cmp) (l r : ASig α)
    (h : l.length + r.length + 4 ≤ fuel) (vs : List (DV α)) (hvs : vs ≠ []) :
    callD fuel Gen.Dense.visitPredicate_inRob [l, r] none [("$operator", .cmp c), ("$in_vars", .list vs)]
      = predicate c l r := by
  rw [iaMethod fuel Gen.Dense.visitPredicate_inRob "$in_vars" fresh_in rfl rfl inRob_body c l r h vs]
  cases vs with
  | nil => exact absurd rfl hvs
  | cons x xs => rfl


/-- the two classes run the same code: on the same value of `node.in_vars` / `node.out_vars` they return the same list
    (`evalAlgG` runs `visitPredicate_outRob` for both robustness semantics) -/
theorem _root_.Rtamt.Py.Dn.gen_visitPredicate_inRob_eq_outRob (fuel : Nat) (c : Cmp) (l r : ASig α)
    (h : l.length + r.length + 4 ≤ fuel) (vs : List (DV α)) :
    callD fuel Gen.Dense.visitPredicate_inRob [l, r] none [("$operator", .cmp c), ("$in_vars", .list vs)] =
      callD fuel Gen.Dense.visitPredicate_outRob [l, r] none [("$operator", .cmp c), ("$out_vars", .list vs)] := by
  rw [iaMethod fuel Gen.Dense.visitPredicate_inRob "$in_vars" fresh_in rfl rfl inRob_body c l r h vs,
    iaMethod fuel Gen.Dense.visitPredicate_outRob "$out_vars" fresh_out rfl rfl outRob_body c l r h vs]

end GenIAD

end Rtamt.Py.Dn
