/-
  C13 — Sampling-violation counter counts exactly the out-of-tolerance gaps.

  "After time-stamps t0..tn have been supplied (one per online update, or as the time
   column of an offline data set), sampling_violation_counter equals the number of
   consecutive gaps t(i+1)-t(i) lying outside [P(1-tol), P(1+tol)], where P is the
   configured sampling period expressed in the unit of the time-stamps. The robustness
   values are not affected by the jitter."
-/
import RtamtProofs.C02
import Rtamt.Discrete.Sampling
import Mathlib.Tactic.Ring
import Mathlib.Tactic.Linarith
import Mathlib.Tactic.FieldSimp

namespace Rtamt

private theorem nanos_pos (u : TUnit) : (0 : Rat) < (u.nanos : Rat) := by
  cases u <;> simp [TUnit.nanos]

private theorem band_lo (gap U V P tol : Rat) (hU : 0 < U) (hV : 0 < V) :
    gap * (U / V) < P - P * tol ↔ gap < P * V / U * (1 - tol) := by
  rw [← mul_div_assoc, div_lt_iff₀ hV,
    show P * V / U * (1 - tol) = (P * V * (1 - tol)) / U by ring, lt_div_iff₀ hU]
  constructor <;> intro h <;> linarith

private theorem band_hi (gap U V P tol : Rat) (hU : 0 < U) (hV : 0 < V) :
    P + P * tol < gap * (U / V) ↔ P * V / U * (1 + tol) < gap := by
  rw [← mul_div_assoc, lt_div_iff₀ hV,
    show P * V / U * (1 + tol) = (P * V * (1 + tol)) / U by ring, div_lt_iff₀ hU]
  constructor <;> intro h <;> linarith

/-- The test the code performs (gap converted to the period's unit, compared with
    `period ± period*tol`) is the specification's test (gap outside `[P(1-tol), P(1+tol)]`
    with `P` in the unit of the time stamps). -/
theorem C13_violates_iff_outside (c : SamplingCfg) (gap : Rat) :
    c.violates (gap * c.normalize) = c.outside gap := by
  have hU := nanos_pos c.unit
  have hV := nanos_pos c.periodUnit
  rw [Bool.eq_iff_iff]
  simp only [SamplingCfg.violates, SamplingCfg.outside, gt_iff_lt,
    Bool.or_eq_true, decide_eq_true_eq]
  simp only [SamplingCfg.normalize]
  rw [band_lo gap _ _ c.period c.tol hU hV, band_hi gap _ _ c.period c.tol hU hV]

private theorem tick_fold (c : SamplingCfg) (ts : List Rat) (k : Clock) (hk : k.count > 0) :
    (ts.foldl (Clock.tick c) k).viol = k.viol + (gaps (k.prev :: ts)).countP c.outside := by
  induction ts generalizing k with
  | nil => simp [gaps]
  | cons t ts ih =>
    rw [List.foldl_cons, ih _ (by simp [Clock.tick])]
    simp only [Clock.tick, gaps, List.countP_cons, hk, true_and, C13_violates_iff_outside]
    split <;> simp_all
    omega

/-- Online: after feeding `ts` (one per update) the counter is the number of gaps outside the band. -/
theorem C13_online_counter (c : SamplingCfg) (ts : List Rat) :
    onlineCounter c ts = (gaps ts).countP c.outside := by
  cases ts with
  | nil => simp [onlineCounter, gaps]
  | cons t ts =>
    unfold onlineCounter
    rw [List.foldl_cons, tick_fold c ts _ (by simp [Clock.tick])]
    simp [Clock.tick]

private theorem foldl_count {β : Type} (p : β → Bool) (l : List β) (s : Nat) :
    l.foldl (fun acc x => if p x then acc + 1 else acc) s = s + l.countP p := by
  induction l generalizing s with
  | nil => simp
  | cons x l ih =>
    rw [List.foldl_cons, ih, List.countP_cons]
    split <;> omega

private theorem gaps_eq_map (ts : List Rat) :
    gaps ts = (List.range (ts.length - 1)).map (fun i => ts.getD (i + 1) 0 - ts.getD i 0) := by
  induction ts with
  | nil => simp [gaps]
  | cons a ts ih =>
    cases ts with
    | nil => simp [gaps]
    | cons b rest =>
      have hlen : (a :: b :: rest).length - 1 = rest.length + 1 := by simp
      have hlen' : (b :: rest).length - 1 = rest.length := by simp
      rw [hlen' ] at ih
      rw [gaps, ih, hlen, List.range_succ_eq_map, List.map_cons, List.map_map]
      simp

/-- Offline: one `evaluate` adds the number of out-of-tolerance gaps of its time column. -/
theorem C13_offline_counter (c : SamplingCfg) (start : Nat) (ts : List Rat) :
    offlineCounter c start ts = start + (gaps ts).countP c.outside := by
  unfold offlineCounter
  rw [foldl_count (fun i => c.violates ((ts.getD (i + 1) 0 - ts.getD i 0) * c.normalize)),
    gaps_eq_map, List.countP_map]
  congr 2
  funext i
  simp [C13_violates_iff_outside]

variable {α : Type} [Val α]

private theorem run_proj (c : SamplingCfg) (φ : F α) (es : List (String → α)) :
    ∀ (ts : List Rat) (m : Mon α), ts.length = es.length →
      (Mon.run c φ m (ts.zip es)).map (fun p => (p.1.tree, p.2)) = runTree φ m.tree es := by
  induction es with
  | nil =>
    intro ts m _
    simp [Mon.run, runTree, Except.map]
  | cons e es ih =>
    intro ts m hl
    cases ts with
    | nil => simp at hl
    | cons t ts =>
      simp only [List.length_cons, Nat.add_right_cancel_iff] at hl
      rw [List.zip_cons_cons]
      cases hs : stepTree e φ m.tree with
      | error x => simp [Mon.run, Mon.update, runTree, hs, bind, Except.bind, Except.map]
      | ok p =>
        obtain ⟨t', o⟩ := p
        have := ih ts { tree := t', clock := m.clock.tick c t } hl
        simp only [Mon.run, Mon.update, runTree, hs, bind, Except.bind, pure, Except.pure]
        rw [← this]
        cases Mon.run c φ { tree := t', clock := m.clock.tick c t } (ts.zip es) with
        | error x => rfl
        | ok q => rfl

/-- The robustness values returned by the online monitor do not depend on the time stamps. -/
theorem C13_values_unaffected (c : SamplingCfg) (φ : F α) (m : Mon α)
    (es : List (String → α)) (ts ts' : List Rat) (hl : ts.length = es.length) (hl' : ts'.length = es.length) :
    (Mon.run c φ m (ts.zip es)).map (fun p => (p.1.tree, p.2)) =
      (Mon.run c φ m (ts'.zip es)).map (fun p => (p.1.tree, p.2)) := by
  rw [run_proj c φ es ts m hl, run_proj c φ es ts' m hl']

end Rtamt
